"""Probe table for the dynamic layer of URL.build / without_query_params / the bool flags (YarlModel/DynBuild.lean).

  cd /repo && /venv/bin/python harness/sub/dynbuild_probe.py real           -> real outcomes, one line per row
  (also with YARL_NO_EXTENSIONS=1: the pure-Python quoters)
  /venv/bin/python harness/sub/dynbuild_probe.py lean > F.lean              -> a Lean file whose #eval prints the model's
  cd /verif/lean && lake env lean F.lean                                  outcomes, one line per row
  /venv/bin/python harness/sub/dynbuild_probe.py examples <file-with-outcomes>  -> `example … := by decide +kernel` lines
  /venv/bin/python harness/sub/dynbuild_probe.py rows                       -> the rows, readable
  /venv/bin/python harness/sub/dynbuild_probe.py count                      -> number of rows

Outcome alphabet (as in /verif/harness/sub/dyn_probe.py): `ok:<str(url)>`, `err:<kind>`, `garbage0` (a URL object with a
non-str stored part), `garbage1` (all parts str, but the netloc / path embeds format(obj) of a non-str argument).
"""
import sys
from urllib.parse import SplitResult


class S(str):
    pass


class Obj:
    """stands for object(): .other 0"""


class U:
    """a URL given by its text (constructed lazily, so that 'lean' mode needs no yarl)"""
    def __init__(self, s):
        self.s = s


OBJ = Obj()
ABS = "http://h/p?a=1&b=2&a=3#f"
REL = "/a"
SP0 = SplitResult("http", "h", "", "", "")

KEYWORDS = ["scheme", "authority", "user", "password", "host", "port", "path", "query", "query_string", "fragment",
            "encoded"]
# the nine values the task names, then further shapes
V9 = [None, 0, 1, True, b"x", "", "x", [], OBJ]
MORE = [False, b"", (), ("a",), {}, {"a": 1}, S("x"), 1.5, 0.0, U("http://h/p"), U(""), SP0, ["a"], ("a", [])]

ROWS = []


def row(entry, base, arg, **kw):
    ROWS.append((entry, base, arg, kw))


def build(**kwargs):
    row("build", None, kwargs)


# ---- every keyword x value, alone
for k in KEYWORDS:
    for v in V9 + MORE:
        build(**{k: v})
# ---- … next to a host (user / password / port / path are only looked at under an authority)
for k in ["scheme", "authority", "user", "password", "port", "path", "query", "query_string", "fragment"]:
    for v in V9:
        build(host="h", **{k: v})
for k in ["user", "password", "scheme"]:
    for v in MORE:
        build(host="h", **{k: v})
# ---- … with encoded=True (build_pre_encoded_url: no type check)
for k in KEYWORDS[:-1]:
    for v in V9:
        build(encoded=True, **{k: v})
for k in ["scheme", "user", "password", "port", "path"]:
    for v in V9:
        build(host="h", encoded=True, **{k: v})
for k in ["user", "password", "host", "scheme"]:
    for v in [(), ("a",), ("a", []), S("x"), 1.5, U("http://h/p"), U(""), b"", False]:
        if k == "password" and isinstance(v, U) and v.s == "":
            continue        # format(URL("")) is "": the `real` mode could not see it inside the netloc
        build(encoded=True, port=81, **({k: v} if k == "host" else {"host": "h", k: v}))
# ---- the conflict checks and their order
for kw in [
    dict(authority="a", user="u"), dict(authority="a", password="p"), dict(authority="a", host="h"),
    dict(authority="a", port=81), dict(authority="a", port=0), dict(authority="a", user=""), dict(authority="a", user=1),
    dict(authority="a", port=True), dict(authority="a", port=False), dict(authority="a", port="x"),
    dict(authority="a", port=70000), dict(authority="a", host=None), dict(authority=1, host="h"),
    dict(authority=OBJ, user=[1]), dict(authority=[], host="h", port=81), dict(authority=0, user="u", host="h"),
    dict(authority="a", password=0), dict(authority="a", password=b"x"), dict(authority="a", host=[]),
    dict(authority="a", host=[1]), dict(authority=None, host="h"), dict(authority=None, port=81),
    dict(port=81), dict(port=0), dict(port=-1), dict(port=65535, host="h"), dict(port=65536, host="h"),
    dict(port=81, host=""), dict(port=81, host=0), dict(port=81, host=None), dict(port=81, host=[]),
    dict(port=81, host=1), dict(port=81, host=b"h"), dict(port=81, host=("h",)), dict(port=81, host=OBJ),
    dict(port=True, host="h"), dict(port="81", host="h"), dict(port=81.0, host="h"), dict(port=-1, host=None),
    dict(port=-1, query="a", query_string="b"), dict(port=81, query="a", query_string="b"),
    dict(query="a", query_string="b"), dict(query={"a": 1}, query_string="b"), dict(query=[("a", 1)], query_string=1),
    dict(query=1, query_string="b"), dict(query=1, query_string=1), dict(query="a", query_string=None),
    dict(query="", query_string="b"), dict(query=None, query_string="b"), dict(query=0, query_string="b"),
    dict(query="a", query_string=0), dict(query="a", query_string=[]), dict(query="a", query_string=[], encoded=True),
    dict(query="a", query_string=b""), dict(query=OBJ, query_string=OBJ), dict(query=b"a", query_string=""),
    dict(query="a", scheme=None), dict(query=1, scheme=None), dict(query={"a": float("nan")}, scheme=1),
    dict(query={"a": None}, path=1), dict(query={1: 2}), dict(query=["ab"], fragment=1),
    dict(scheme=None, authority=None), dict(scheme=None, path=1), dict(path=None, port="x"), dict(fragment=None, port=-5),
    dict(scheme="http"), dict(scheme="HTTP"), dict(scheme="http", path="/p"), dict(scheme="https", host=""),
    dict(scheme="http", host="h", port=80), dict(scheme="HTTP", host="h", port=80),
    dict(scheme="http", host="h", port=80, encoded=True), dict(scheme="HTTP", host="h", port=80, encoded=True),
    dict(scheme=S("http"), host="h", port=80, encoded=True), dict(scheme=b"http", host="h", port=80),
    dict(scheme=b"http", host="h", port=80, encoded=True), dict(scheme=1, host=1, port=80, encoded=True),
    dict(scheme="http", host=1, port=80, encoded=True), dict(scheme="http", host=1, port=81, encoded=True),
]:
    build(**kw)
# ---- the order of the statements of the encoding branch
for kw in [
    dict(scheme=1, authority=1), dict(scheme=b"x", authority=1), dict(scheme=b"x", authority=b"a"),
    dict(authority=b"\xff"), dict(authority=b"a@b"), dict(authority=1, path=1), dict(authority=S("u@h:81")),
    dict(authority="u@h:81", user=0, password=b""), dict(authority="h:x"), dict(authority="h:x", path=1),
    dict(authority="h:x", scheme=1), dict(host="h_@", user=1), dict(host="h_@", path=1), dict(host="h_@", scheme=1),
    dict(host="h", user=1, path=1), dict(host="h", user=[], path="x"), dict(host="h", path="x", query_string=1),
    dict(host="h", path="/x", query_string=1, fragment=2), dict(host="h", path="x", fragment=2),
    dict(host="h", path="/x", fragment=2), dict(host=1, path=1), dict(host=b"h", user=1), dict(host=("1",)),
    dict(host=(":",)), dict(host=(1,)), dict(host=(None,)), dict(host=SP0), dict(host=U("x")), dict(host=U("")),
    dict(host="h", user=U("x")), dict(host="h", user=U("")), dict(host="h", user="u", password=0),
    dict(host="h", user=0, password="p"), dict(host="h", user=1, password="p"), dict(host="h", user=(), password="p"),
    dict(host="h", user="u", password=()), dict(host="h", user=S("u"), password=S("p")), dict(host=S("H"), port=81),
    dict(host="h", user=0), dict(host="h", user=0, port=81), dict(host="", user=1, password=[]), dict(host=0, user=1),
    dict(path=0, fragment=1), dict(path=0, query_string=0, fragment=0), dict(path="x", fragment=0),
    dict(path=[], encoded=True), dict(path=0, encoded=1), dict(path=1, encoded="x"), dict(path=1, encoded=""),
    dict(path=1, encoded=[]), dict(path=1, encoded=[0]), dict(path=1, encoded=OBJ), dict(path=1, encoded=None),
    dict(path=1, encoded=0.0), dict(path=1, encoded=U("")), dict(path=1, encoded=U("x")),
    dict(host="h", user=1, encoded=True), dict(host="h", password=0, encoded=True),
    dict(host="h", user=0, encoded=True), dict(host="h", user=0, port=81, encoded=True),
    dict(host=1, user=0, encoded=True), dict(host=1, user=0, port=81, encoded=True),
    dict(host=1, user="u", encoded=True), dict(host=1, password="p", encoded=True),
    dict(host="h", user=S("u"), password=S("p"), port=81, encoded=True), dict(host="h", user="", encoded=True),
    dict(host="h", user="", password="", encoded=True), dict(host="h", user=b"", password="p", encoded=True),
    dict(host="h", user=b"u", password="p", encoded=True), dict(authority="a b", path="x y", encoded=True),
    dict(authority="a", user=0, host=(), encoded=True), dict(authority=S("a"), path=S("/p"), encoded=True),
    dict(authority=1, path=[], encoded=True), dict(scheme=1, query={1: 2}, encoded=True),
    dict(scheme=1, query={"a": 1}, encoded=True), dict(query={"a": 1}, encoded=True),
    dict(query=["ab"], path=[], encoded=True), dict(fragment=[], query_string=0, encoded=True),
]:
    build(**kw)
# ---- without_query_params(*names)
for base, names in [
    (ABS, []), (ABS, ["a"]), (ABS, [S("a")]), (ABS, [1]), (ABS, [None]), (ABS, [b"a"]), (ABS, [[]]), (ABS, [{}]),
    (ABS, [("a",)]), (ABS, [("a", [])]), (ABS, [OBJ]), (ABS, [1, "a"]), (ABS, ["a", 1]), (ABS, ["a", []]),
    (ABS, [[], "a"]), (ABS, [1.5]), (ABS, [True]), (ABS, [U("a")]), (ABS, ["zz", 1]), (ABS, [0]), (ABS, ["c"]),
    (ABS, ["c", []]), (ABS, ["a", "b"]), (ABS, ["b", None, S("a")]), (ABS, [SP0]), (ABS, [{"a": 1}]),
    (REL, []), (REL, ["a"]), (REL, [1]), (REL, [[]]),
]:
    row("without_query_params", base, names)
# ---- the bool flags as objects
FLAGS = [None, 0, 1, True, False, b"x", b"", "", "x", [], [0], (), {}, OBJ, 0.0, 1.5, U(""), U("x"), S(""), S("x")]
for f in FLAGS:
    row("with_path", ABS, "/x y", encoded=f)
    row("with_path", ABS, "/x", keep_query=f)
    row("with_path", ABS, "/x", keep_fragment=f)
    row("with_name", ABS, "n", keep_query=f, keep_fragment=f)
    row("with_suffix", ABS, ".s", keep_query=f)
    row("joinpath", ABS, ["x y"], encoded=f)
for f in [0, 1, [], OBJ]:
    row("with_path", ABS, 1, encoded=f)
    row("with_path", REL, None, encoded=f, keep_query=OBJ)
    row("with_name", ABS, 1, keep_query=f)
    row("with_suffix", ABS, None, keep_fragment=f)
    row("joinpath", ABS, [()], encoded=f)
    row("joinpath", ABS, [], encoded=f)


# ------------------------------------------------------------------ Lean rendering
def L(s):
    return "[" + ", ".join(str(ord(c)) for c in s) + "]"


def lean(o):
    if o is None:
        return ".none"
    if o is OBJ:
        return "(.other 0)"
    if isinstance(o, U):
        return "(.url (pU %s))" % L(o.s)
    if isinstance(o, bool):
        return "(.bool %s)" % ("true" if o else "false")
    if isinstance(o, int):
        return "(.int (%d))" % o
    if isinstance(o, float):
        kind = 2 if o != o else (1 if o in (float("inf"), -float("inf")) else 0)
        return "(.float %s %d)" % (L(str(o)), kind)
    if isinstance(o, S):
        return "(.strSub %s)" % L(o)
    if isinstance(o, str):
        return "(.str %s)" % L(o)
    if isinstance(o, bytes):
        return "(.bytes [%s])" % ", ".join(str(b) for b in o)
    if isinstance(o, SplitResult):
        return "(.splitResult [%s])" % ", ".join(L(p) for p in o)
    if isinstance(o, tuple):
        return "(.tuple [%s])" % ", ".join(lean(x) for x in o)
    if isinstance(o, list):
        return "(.list [%s])" % ", ".join(lean(x) for x in o)
    if isinstance(o, dict):
        return "(.dict [%s])" % ", ".join("(%s, %s)" % (lean(k), lean(v)) for k, v in o.items())
    raise TypeError(o)


FIELD = {"query_string": "queryString"}


def lean_call(entry, base, arg, kw):
    b = "(pU %s)" % L(base) if base is not None else None
    flag = lambda name: lean(kw[name]) if name in kw else "(.bool false)"
    if entry == "build":
        if not arg:
            return "showP pe (dynBuild pe {})"
        fields = ", ".join("%s := some %s" % (FIELD.get(k, k), lean(v)) for k, v in arg.items())
        return "showP pe (dynBuild pe { %s })" % fields
    if entry == "without_query_params":
        return "showU pe (dynWithoutQueryParams pe %s [%s])" % (b, ", ".join(lean(x) for x in arg))
    if entry == "with_path":
        return "showP pe (dynWithPathFlags pe %s %s %s %s %s)" % (
            b, lean(arg), flag("encoded"), flag("keep_query"), flag("keep_fragment"))
    if entry == "with_name":
        return "showU pe (dynWithNameFlags pe %s %s %s %s)" % (b, lean(arg), flag("keep_query"), flag("keep_fragment"))
    if entry == "with_suffix":
        return "showU pe (dynWithSuffixFlags pe %s %s %s %s)" % (b, lean(arg), flag("keep_query"), flag("keep_fragment"))
    if entry == "joinpath":
        return "showU pe (dynJoinpathFlag pe %s [%s] %s)" % (b, ", ".join(lean(x) for x in arg), flag("encoded"))
    raise KeyError(entry)


def lean_out(text):
    """the outcome string of a row as a Lean `Out` term"""
    if text.startswith("ok:"):
        return ".ok %s" % L(text[3:])
    if text.startswith("err:"):
        return ".err .%s" % text[4:]
    if text.startswith("garbage"):
        return ".garbage %s" % text[7:]
    raise ValueError(text)


def py_repr(o):
    if isinstance(o, U):
        return "URL(%r)" % o.s
    if o is OBJ:
        return "object()"
    if isinstance(o, S):
        return "S(%r)" % str(o)
    if isinstance(o, SplitResult):
        return "SplitResult%r" % (tuple(o),)
    if isinstance(o, tuple):
        return "(" + ", ".join(py_repr(x) for x in o) + ("," if len(o) == 1 else "") + ")"
    if isinstance(o, list):
        return "[" + ", ".join(py_repr(x) for x in o) + "]"
    if isinstance(o, dict):
        return "{" + ", ".join("%s: %s" % (py_repr(k), py_repr(v)) for k, v in o.items()) + "}"
    return repr(o)


def py_call(entry, base, arg, kw):
    kws = ", ".join("%s=%s" % (k, py_repr(v)) for k, v in kw.items())
    if entry == "build":
        return "URL.build(%s)" % ", ".join("%s=%s" % (k, py_repr(v)) for k, v in arg.items())
    if entry in ("without_query_params", "joinpath"):
        inner = ", ".join([py_repr(x) for x in arg] + ([kws] if kws else []))
        return "URL(%r).%s(%s)" % (base, entry, inner)
    return "URL(%r).%s(%s)" % (base, entry, ", ".join([py_repr(arg)] + ([kws] if kws else [])))


# ------------------------------------------------------------------ the real library
def real():
    import yarl
    from yarl import URL
    from yarl import _parse, _url
    print("# yarl from %s" % yarl.__file__, file=sys.stderr)

    def conv(o):
        if isinstance(o, U):
            return URL(o.s)
        if o is OBJ:
            return object()
        if isinstance(o, SplitResult):
            return o
        if isinstance(o, tuple):
            return tuple(conv(x) for x in o)
        if isinstance(o, list):
            return [conv(x) for x in o]
        if isinstance(o, dict):
            return {conv(k): conv(v) for k, v in o.items()}
        return o

    kinds = [(ValueError, "valueError"), (TypeError, "typeError"), (KeyError, "keyError"), (IndexError, "indexError"),
             (AttributeError, "attributeError")]

    def show(f, fmt_args=(), path_arg=None):
        # an lru_cache key does not distinguish 1 / True / 1.0: start every row from empty caches
        _url.build_pre_encoded_url.cache_clear()
        _parse.make_netloc.cache_clear()
        _url.from_parts.cache_clear()
        try:
            r = f()
            parts = (r._scheme, r._netloc, r._path, r._query, r._fragment)
            if not all(isinstance(p, str) for p in parts):
                return "garbage0"
            for a in fmt_args:
                if a is not None and not isinstance(a, str) and format(a) != "" and format(a) in r._netloc:
                    return "garbage1"
            if path_arg is not None and not isinstance(path_arg, str) and r._path == "/" + format(path_arg):
                return "garbage1"
            return "ok:" + str(r)
        except Exception as ex:
            for cls, nm in kinds:
                if isinstance(ex, cls):
                    return "err:" + nm
            return "err:" + type(ex).__name__

    for entry, base, arg, kw in ROWS:
        u = URL(base) if base is not None else None
        a = conv(arg)
        k = {n: conv(v) for n, v in kw.items()}
        if entry == "build":
            res = show(lambda: URL.build(**a), fmt_args=[a.get("user"), a.get("password"), a.get("host")])
        elif entry in ("without_query_params", "joinpath"):
            res = show(lambda: getattr(u, entry)(*a, **k))
        elif entry == "with_path":
            res = show(lambda: u.with_path(a, **k), path_arg=a)
        else:
            res = show(lambda: getattr(u, entry)(a, **k))
        print(res)


HEADER = """import YarlModel.DynBuild
open Yarl Yarl.Dyn
def errName : PyErr → String
  | .valueError => "valueError" | .typeError => "typeError" | .indexError => "indexError" | .keyError => "keyError"
  | .attributeError => "attributeError" | .unicodeError => "unicodeError" | .memoryError => "memoryError"
  | .oracleMiss f _ => "oracleMiss:" ++ f
def Out.show : Out → String
  | .ok s => "ok:" ++ String.ofList (s.map Char.ofNat) | .err e => "err:" ++ errName e
  | .garbage k => "garbage" ++ toString k | .bool b => if b then "true" else "false"
"""

if __name__ == "__main__":
    mode = sys.argv[1]
    if mode == "real":
        real()
    elif mode == "lean":
        print(HEADER)
        print("def rows : List Out := [")
        print(",\n".join("  " + lean_call(*r) for r in ROWS))
        print("]")
        print('#eval IO.println ("\\n".intercalate (rows.map Out.show))')
    elif mode == "rows":
        for r in ROWS:
            print(py_call(*r))
    elif mode == "count":
        print(len(ROWS))
    elif mode == "examples":
        outs = [l.rstrip("\n") for l in open(sys.argv[2])]
        assert len(outs) == len(ROWS)
        for r, o in zip(ROWS, outs):
            print("-- %s" % py_call(*r))
            print("example : %s = %s := by decide +kernel" % (lean_call(*r), lean_out(o)))
