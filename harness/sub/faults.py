"""C19: every single allocation-failure point during quoting of outputs larger than the static buffer.
For each input and each k: arm the injector to fail the k-th big allocation request, call the compiled
quoter, expect MemoryError (or the correct result once k is past the last request); afterwards no big
block may be live and later calls must return correct results.  Prints one JSON object."""
import json
import sys

import faultalloc
from yarl import _quoting_c as C
from yarl import _quoting_py as P

faultalloc.install()
tier = sys.argv[1]
cfgs = [dict(), dict(safe="@:", protected="/+"), dict(qs=True, safe="?/:@", protected="=+&;"), dict(requote=False)]
BUF = 8192
inputs = []
for growths in ((1, 2) if tier == "quick" else (1, 2, 3, 4)):
    n = growths * BUF + 5
    inputs += [" " * (n // 3 + 1), "é" * (n // 6 + 1), "a" * 10 + "€" * (n // 9 + 1), "%2f" * (n // 3 + 1) + " ", "\U0001f600" * (n // 12 + 1)]
check_inputs = ["a b", "é" * 3000, "%41%zz/ +", " " * 9000, "x" * 8191 + " "]
failures = []
agree = [0, 0]
points = 0
mem_errors = 0
for kw in cfgs:
    qc, qp = C._Quoter(**kw), P._Quoter(**kw)
    for s in inputs:
        expected = qp(s)
        # how many big requests does a clean run make?
        faultalloc.arm(-1)
        r = qc(s)
        req, _, nlive = faultalloc.disarm()
        # the QuoteW.lean model (C19_quoteCW_fault_iff) predicts the number of growth requests of a clean run: one for every
        # k with (k+1)*BUF < len(output).  Informational only: a different growth strategy is a harmless rewrite.
        model_req = (len(expected) - 1) // BUF if (expected != s or len(expected) > BUF) and expected else 0
        agree[0] += 1 if model_req == req else 0
        agree[1] += 1
        if r != expected:
            failures.append({"what": f"clean run: compiled result differs from pure Python for input of length {len(s)}", "class": "backend-mismatch"})
        if nlive:
            failures.append({"what": f"clean run leaves {nlive} buffer block(s) allocated (leak) for input of length {len(s)}, cfg {kw}", "class": "writer-leak"})
        for k in range(req + 1):
            points += 1
            faultalloc.arm(k)
            try:
                r = qc(s)
                outcome = "ok"
            except MemoryError:
                outcome = "MemoryError"
                mem_errors += 1
            except BaseException as e:  # noqa
                outcome = type(e).__name__
            rq, failed, nlive = faultalloc.disarm()
            if k < req and outcome != "MemoryError":
                failures.append({"what": f"allocation request {k} of {req} failed but the call ended with {outcome} (MemoryError expected); cfg {kw}, input length {len(s)}",
                                 "class": "fault-not-reported"})
            if k >= req and (outcome != "ok" or r != expected):
                failures.append({"what": f"no request failed but the call ended with {outcome}", "class": "fault-spurious"})
            if outcome == "ok" and r != expected:
                failures.append({"what": f"result corrupted after an injected failure at request {k}", "class": "fault-corrupts"})
            if nlive:
                failures.append({"what": f"after failing request {k} of {req}: {nlive} buffer block(s) still allocated (leak); cfg {kw}, input length {len(s)}", "class": "writer-leak"})
            for t in check_inputs:
                if qc(t) != qp(t):
                    failures.append({"what": f"after an injected MemoryError at request {k}, a later call returns a wrong result for input {t[:20]!r}…", "class": "fault-corrupts-later"})
                    break
            if len(failures) > 8:
                break
        if len(failures) > 8:
            break
print(json.dumps({"failures": failures[:10], "fault_points": points, "memory_errors": mem_errors, "inputs": len(inputs) * len(cfgs),
                  "growth_requests_as_predicted_by_QuoteW_model": "%d/%d clean runs" % (agree[0], agree[1])}))
