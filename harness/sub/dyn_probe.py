"""Probe table for the dynamic layer (YarlModel/Dyn.lean).

  cd /repo && /venv/bin/python /tmp/q3_probe.py real      -> real outcomes, one line per row
  /venv/bin/python /tmp/q3_probe.py lean  <backend>       -> a Lean file whose #eval prints the model's outcomes
  /venv/bin/python /tmp/q3_probe.py examples <file-with-outcomes> -> `example … := by decide +kernel` lines
"""
import sys
from urllib.parse import SplitResult, urlsplit


class S(str):
    pass


class Obj:
    """stands for object(): .other 0"""


class U:
    """a URL given by its text (constructed lazily, so that 'lean' mode needs no yarl)"""
    def __init__(self, s):
        self.s = s


OBJ = Obj()
nan = float("nan")
inf = float("inf")
ABS = "http://h/p?a=1#f"
REL = "/a"
SP5 = SplitResult("ab", "cd", "/ef", "gh", "ij")
SP0 = SplitResult("http", "h", "", "", "")

ROWS = []


def row(entry, base, arg, **kw):
    ROWS.append((entry, base, arg, kw))


# ---- comparisons
for o in [ABS, tuple(urlsplit(ABS)), urlsplit(ABS), None, 1, OBJ, [U(ABS)], U(ABS), U("http://h/p?a=1#g")]:
    row("eq", ABS, o)
    row("ne", ABS, o)
for op, o in [("lt", 1), ("le", "x"), ("gt", None), ("ge", (1,)), ("lt", urlsplit(ABS)), ("le", OBJ),
              ("lt", U("http://i")), ("ge", U(ABS)), ("gt", U("http://a"))]:
    row(op, ABS, o)
# ---- constructor
for o, enc in [(S("http://h/a b"), False), (S("http://h/a b"), True), (urlsplit("http://h/p"), False),
               (urlsplit("http://h/p"), True), (b"http://h", False), (None, False), (1, True), (U(ABS), True),
               (("http", "h", "/", "", ""), True), (OBJ, False)]:
    row("new", None, o, encoded=enc)
# ---- isinstance-gated modifiers
for entry, base, o in [
    ("with_scheme", ABS, S("HTTPS")), ("with_scheme", ABS, None), ("with_scheme", ABS, b"http"), ("with_scheme", REL, 1),
    ("with_user", ABS, None), ("with_user", ABS, S("x")), ("with_user", ABS, 1), ("with_user", REL, 1), ("with_user", REL, None),
    ("with_password", ABS, None), ("with_password", ABS, b"x"), ("with_password", REL, S("x")),
    ("with_host", ABS, None), ("with_host", ABS, S("x")), ("with_host", REL, None), ("with_host", ABS, b"x"),
    ("with_port", ABS, True), ("with_port", ABS, "1"), ("with_port", ABS, 1.0), ("with_port", ABS, None),
    ("with_port", ABS, -1), ("with_port", REL, True), ("with_port", REL, 8080), ("with_port", ABS, 8080),
    ("with_fragment", ABS, None), ("with_fragment", ABS, 1), ("with_fragment", ABS, S("x")), ("with_fragment", ABS, b"x"),
    ("with_name", ABS, None), ("with_name", ABS, b"x"), ("with_name", ABS, S("x")),
    ("with_suffix", ABS, None), ("with_suffix", ABS, S(".x")), ("with_suffix", ABS, 1),
    ("join", ABS, "x"), ("join", ABS, None), ("join", ABS, U("x")), ("join", ABS, urlsplit("x")),
    ("truediv", ABS, 1), ("truediv", ABS, None), ("truediv", ABS, b"x"), ("truediv", ABS, S("x")), ("truediv", ABS, 1.5),
    ("truediv", ABS, U("x")), ("truediv", ABS, ("x",)),
]:
    row(entry, base, o)
# ---- with_path (no type check)
for base, o, enc in [
    (ABS, None, False), (REL, None, False), (ABS, 1, False), (ABS, b"/x", False), (ABS, S("x y"), False), (REL, ["/"], False),
    (ABS, None, True), (ABS, 0, True), (ABS, 1, True), (ABS, True, True), (ABS, False, True), (ABS, 0.0, True),
    (ABS, 1.5, True), (ABS, b"", True), (ABS, b"/x", True), (ABS, (), True), (ABS, ("/",), True), (ABS, ("/", []), True),
    (ABS, ("a",), True), (ABS, [], True), (ABS, ["/"], True), (ABS, ["a"], True), (ABS, {}, True), (ABS, {1: 2}, True),
    (ABS, {0: "/"}, True), (ABS, {0: "a"}, True), (ABS, U(ABS), True), (ABS, U(""), True), (ABS, SP0, True),
    (ABS, OBJ, True), (ABS, S("/x"), True), (ABS, nan, True),
]:
    row("with_path", base, o, encoded=enc)
# ---- joinpath (no type check)
for xs, enc in [
    ([None], False), ([0], False), ([1], False), ([b"ab"], False), ([("/",)], False), ([("a",)], False), ([{1: 2}], False),
    ([{0: "/"}], False), ([{}], False), ([U(ABS)], False), ([U("")], False), (["/x", None], False), ([None, "/x"], False),
    ([S("x"), "y"], False), ([SP0], False), ([OBJ], False),
    ([None], True), ([0], True), ([1], True), ([b"ab"], True), ([b""], True), ([()], True), ([("a",)], True),
    ([("/",)], True), ([[]], True), ([{}], True), ([{1: 2}], True), ([U("")], True), ([SP0], True), ([OBJ], True),
    ([S("x")], True), (["a", 1, "/b"], True), (["/a", 1, "b"], True),
]:
    row("joinpath", ABS, xs, encoded=enc)
# ---- queries
QARGS = [
    None, 0, 1, False, True, 0.0, nan, b"", b"a=1", S("x=1"), U(""), U(ABS), OBJ, SP5, SplitResult("ab", "cd", "", "", ""),
    {1: "v"}, {None: "v"}, {S("k"): "v"}, {True: "v"}, {b"k": "v"}, {1: []}, {1: ["a"]}, {"k": SP5},
    {"k": None}, {"k": True}, {"k": nan}, {"k": inf}, {"k": b"v"}, {"k": S("v")}, {"k": 1.5}, {"k": -7}, {"k": [True]},
    {"k": [[1]]}, {"k": {}}, {"k": U(ABS)}, {"k": [1, "x"]}, {"a": 2, "b": nan}, {"b": nan, 1: 2},
    [(1, "v")], [(None, "v")], [(S("k"), "v")], ["ab"], ["abc"], [b"ab"], [1], [None], [("k",)], [("k", "v", "w")],
    [["k", "v"]], [{"k": 1, "v": 2}], [("k", [1])], [("k", True)], [("k", None), (1, "v")], [(1, nan)],
    [("k", nan), (1, "v")], [("k", nan), "abc"], [("k", True), "abc"], ["abc", ("k", True)], [(1, "v"), "abc"],
    ["abc", (1, "v")], [(1, "v"), 5], [5, (1, "v")], (("k", "v"),), [U(ABS)], [SP5], [S("ab")], [(S("k"), S("v"))],
    [("a", "9"), ("a", True)],
]
for m in ("with_query", "extend_query", "update_query"):
    for a in QARGS:
        row(m, ABS, a)
    for kw in [{"k": None}, {"k": [1, 2]}, {}, {"k": nan}, {"k": b"x"}, {"a": 5}]:
        row(m + "_kw", ABS, kw)


# ------------------------------------------------------------------ Lean rendering
def L(s):
    return "[" + ", ".join(str(ord(c)) for c in s) + "]"


def lean(o):
    if o is None:
        return ".none"
    if o is OBJ:
        return "(.other 0)"
    if isinstance(o, U):
        return "(.url (pU %s))" % L(o.s)
    if isinstance(o, bool):
        return "(.bool %s)" % ("true" if o else "false")
    if isinstance(o, int):
        return "(.int (%d))" % o
    if isinstance(o, float):
        kind = 2 if o != o else (1 if o in (inf, -inf) else 0)
        return "(.float %s %d)" % (L(str(o)), kind)
    if isinstance(o, S):
        return "(.strSub %s)" % L(o)
    if isinstance(o, str):
        return "(.str %s)" % L(o)
    if isinstance(o, bytes):
        return "(.bytes [%s])" % ", ".join(str(b) for b in o)
    if isinstance(o, SplitResult):
        return "(.splitResult [%s])" % ", ".join(L(p) for p in o)
    if isinstance(o, tuple):
        return "(.tuple [%s])" % ", ".join(lean(x) for x in o)
    if isinstance(o, list):
        return "(.list [%s])" % ", ".join(lean(x) for x in o)
    if isinstance(o, dict):
        return "(.dict [%s])" % ", ".join("(%s, %s)" % (lean(k), lean(v)) for k, v in o.items())
    raise TypeError(o)


def lean_call(entry, base, arg, kw):
    b = "(pU %s)" % L(base) if base is not None else None
    enc = "true" if kw.get("encoded") else "false"
    if entry == "eq":
        return "Out.bool (dynEq %s %s)" % (b, lean(arg))
    if entry == "ne":
        return "Out.bool (dynNe %s %s)" % (b, lean(arg))
    if entry in ("lt", "le", "gt", "ge"):
        return "showB (dyn%s %s %s)" % (entry.capitalize(), b, lean(arg))
    if entry == "new":
        return "showU pe (dynNew pe %s %s)" % (lean(arg), enc)
    if entry in ("with_scheme", "with_user", "with_password", "with_host", "with_port", "with_fragment", "join", "truediv"):
        fn = "dyn" + "".join(w.capitalize() for w in entry.split("_"))
        return "showU pe (%s pe %s %s)" % (fn, b, lean(arg))
    if entry in ("with_name", "with_suffix"):
        fn = "dyn" + "".join(w.capitalize() for w in entry.split("_"))
        return "showU pe (%s pe %s %s false false)" % (fn, b, lean(arg))
    if entry == "with_path":
        return "showP pe (dynWithPath pe %s %s %s false false)" % (b, lean(arg), enc)
    if entry == "joinpath":
        return "showU pe (dynJoinpath pe %s [%s] %s)" % (b, ", ".join(lean(x) for x in arg), enc)
    if entry in ("with_query", "extend_query", "update_query"):
        fn = "dyn" + "".join(w.capitalize() for w in entry.split("_"))
        return "showU pe (%s pe %s %s)" % (fn, b, lean(arg))
    if entry.endswith("_kw"):
        fn = "dyn" + "".join(w.capitalize() for w in entry[:-3].split("_")) + "Kw"
        return "showU pe (%s pe %s [%s])" % (fn, b, ", ".join("(%s, %s)" % (L(k), lean(v)) for k, v in arg.items()))
    raise KeyError(entry)


def lean_out(text):
    """the outcome string of a row as a Lean `Out` term"""
    if text in ("true", "false"):
        return ".bool %s" % text
    if text.startswith("ok:"):
        return ".ok %s" % L(text[3:])
    if text.startswith("err:"):
        return ".err .%s" % text[4:]
    if text.startswith("garbage"):
        return ".garbage %s" % text[7:]
    raise ValueError(text)


# ------------------------------------------------------------------ the real library
def real():
    from yarl import URL

    def conv(o):
        if isinstance(o, U):
            return URL(o.s)
        if o is OBJ:
            return object()
        if isinstance(o, SplitResult):
            return o
        if isinstance(o, tuple):
            return tuple(conv(x) for x in o)
        if isinstance(o, list):
            return [conv(x) for x in o]
        if isinstance(o, dict):
            return {conv(k): conv(v) for k, v in o.items()}
        return o

    kinds = [(ValueError, "valueError"), (TypeError, "typeError"), (KeyError, "keyError"), (IndexError, "indexError"),
             (AttributeError, "attributeError")]

    def show(f, arg=None):
        try:
            r = f()
            if isinstance(r, bool):
                return "true" if r else "false"
            parts = (r._scheme, r._netloc, r._path, r._query, r._fragment)
            if not all(isinstance(p, str) for p in parts):
                return "garbage0"
            if arg is not None and not isinstance(arg, str) and r._path == "/" + format(arg):
                return "garbage1"
            return "ok:" + str(r)
        except Exception as ex:
            for cls, nm in kinds:
                if isinstance(ex, cls):
                    return "err:" + nm
            return "err:" + type(ex).__name__

    import operator
    for entry, base, arg, kw in ROWS:
        u = URL(base) if base is not None else None
        a = conv(arg)
        if entry in ("eq", "ne", "lt", "le", "gt", "ge", "truediv"):
            res = show(lambda: getattr(operator, entry)(u, a))
        elif entry == "new":
            res = show(lambda: URL(a, **kw))
        elif entry == "with_path":
            res = show(lambda: u.with_path(a, **kw), a)
        elif entry == "joinpath":
            res = show(lambda: u.joinpath(*a, **kw))
        elif entry.endswith("_kw"):
            res = show(lambda: getattr(u, entry[:-3])(**a))
        else:
            res = show(lambda: getattr(u, entry)(a))
        print(res)


HEADER = """import YarlModel.Dyn
open Yarl Yarl.Dyn
def errName : PyErr → String
  | .valueError => "valueError" | .typeError => "typeError" | .indexError => "indexError" | .keyError => "keyError"
  | .attributeError => "attributeError" | .unicodeError => "unicodeError" | .memoryError => "memoryError"
  | .oracleMiss f _ => "oracleMiss:" ++ f
def Out.show : Out → String
  | .ok s => "ok:" ++ String.ofList (s.map Char.ofNat) | .err e => "err:" ++ errName e
  | .garbage k => "garbage" ++ toString k | .bool b => if b then "true" else "false"
"""

if __name__ == "__main__":
    mode = sys.argv[1]
    if mode == "real":
        real()
    elif mode == "lean":
        print(HEADER)
        print("def rows : List Out := [")
        print(",\n".join("  " + lean_call(*r) for r in ROWS))
        print("]")
        print('#eval IO.println ("\\n".intercalate (rows.map Out.show))')
    elif mode == "rows":
        for entry, base, arg, kw in ROWS:
            print("%s | %s | %r | %r" % (entry, base, arg.s if isinstance(arg, U) else arg, kw))
    elif mode == "examples":
        outs = [l.rstrip("\n") for l in open(sys.argv[2])]
        assert len(outs) == len(ROWS)
        grp = sys.argv[3] if len(sys.argv) > 3 else None
        def group(entry):
            if entry in ("eq", "ne", "lt", "le", "gt", "ge"):
                return "C10"
            if "query" in entry:
                return "C12"
            return "C19"
        for r, o in zip(ROWS, outs):
            if grp and group(r[0]) != grp:
                continue
            print("example : %s = %s := by decide +kernel" % (lean_call(*r), lean_out(o)))
