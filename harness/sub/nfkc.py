"""C16: exhaustive enumeration over all code points whose NFKC form contains a URL delimiter (enumeration, not proof)."""
import json
import unicodedata

from yarl import URL

bad = []
hits = []
for cp in range(0x80, 0x110000):
    if 0xD800 <= cp <= 0xDFFF:
        continue
    ch = chr(cp)
    nf = unicodedata.normalize("NFKC", ch)
    if any(d in nf for d in "/?#@:"):
        hits.append(cp)
        for tmpl in ("http://a%sb/", "http://%s/", "http://u@a%s/", "//%s.com"):
            s = tmpl % ch
            try:
                u = URL(s)
                bad.append({"what": f"URL({s!r}) accepted although NFKC(U+{cp:04X}) = {nf!r} contains a delimiter (host {u.raw_host!r})", "class": "nfkc-screen", "input": repr(s)})
            except ValueError:
                pass
            except Exception as e:  # noqa
                bad.append({"what": f"URL({s!r}) raised {type(e).__name__}", "class": "exception-kind:" + type(e).__name__, "input": repr(s)})
        # "any authority": the same through build(authority=…)
        for a in ("a%sb" % ch, "u@x%s.com:80" % ch):
            try:
                u = URL.build(scheme="http", authority=a)
                bad.append({"what": f"URL.build(authority={a!r}) accepted although NFKC(U+{cp:04X}) = {nf!r} contains a delimiter (str {str(u)!r})", "class": "nfkc-screen", "input": repr(a)})
            except ValueError:
                pass
            except Exception as e:  # noqa
                bad.append({"what": f"URL.build(authority={a!r}) raised {type(e).__name__}", "class": "exception-kind:" + type(e).__name__, "input": repr(a)})
# Second enumeration: EVERY code point whose NFKC form contains an ASCII character outside [A-Za-z0-9.-] (anything that could
# be structural or odd once IDNA's compatibility mapping has turned it into ASCII).  Such an authority is either rejected, or the
# URL it produces behaves like any other: its string form parses again to an equal URL with the same raw host ("encoding is
# idempotent"), and a cache-free twin (pickle) reads the same raw host / port as the constructor pre-computed.
import pickle

odd_hits = 0
for cp in range(0x80, 0x110000):
    if 0xD800 <= cp <= 0xDFFF:
        continue
    ch = chr(cp)
    nf = unicodedata.normalize("NFKC", ch)
    if not any(ord(c) < 128 for c in nf):
        continue
    odd = any(ord(c) < 128 and not (c.isalnum() or c in "-.") for c in nf)
    hexish = all(c in "0123456789abcdefABCDEF:." for c in nf)
    if not (odd or hexish):
        continue          # compatibility LETTERS outside the hex digits only ever make reg-name text
    odd_hits += 1
    cases = [("URL", "http://a%sb.com/p" % ch), ("URL", "http://%s/" % ch), ("URL", "http://u@a%s:81/" % ch), ("build", "a%sb.com" % ch), ("build", "u@x%s:81" % ch)]
    if hexish:
        # text that becomes an IP-literal only through the compatibility mapping (fullwidth / circled / superscript digits and a-f)
        cases += [("URL", "http://[%s:0:0:0:0:0:0:2]/" % ch), ("URL", "http://[1::%s]/p" % ch), ("URL", "http://[::ffff:1.2.3.%s]/" % ch), ("URL", "http://1.2.3.%s/" % ch),
                  ("URL", "http://[fe80::%s%%25eth0]:81/" % ch), ("build", "[%s::1]:81" % ch), ("build", "1.2.%s.4" % ch)]
    for kind, s in cases:
        try:
            u = URL(s) if kind == "URL" else URL.build(scheme="http", authority=s)
        except ValueError:
            continue
        except Exception as e:  # noqa
            bad.append({"what": f"{kind}({s!r}) raised {type(e).__name__}", "class": "exception-kind:" + type(e).__name__, "input": repr(s)})
            continue
        call = f"URL({s!r})" if kind == "URL" else f"URL.build(scheme='http', authority={s!r})"
        try:
            txt = str(u)
            v = URL(txt)
            if not (v == u and v.raw_host == u.raw_host and str(v) == txt):
                bad.append({"what": f"{call} = {txt!r} (NFKC(U+{cp:04X}) = {nf!r}) does not parse back to itself: raw_host {u.raw_host!r} -> {v.raw_host!r}, str {str(v)!r}",
                            "class": "nfkc-host-reparse", "input": repr(s)})
                continue
        except ValueError as e:
            bad.append({"what": f"{call} is accepted (NFKC(U+{cp:04X}) = {nf!r}) but its string form {txt!r} is rejected when parsed again: {e}", "class": "nfkc-host-reparse", "input": repr(s)})
            continue
        try:
            t = pickle.loads(pickle.dumps(u))
            if (t.raw_host, t.explicit_port) != (u.raw_host, u.explicit_port):
                bad.append({"what": f"{call}: pre-computed raw_host/port {(u.raw_host, u.explicit_port)!r}, cache-free twin {(t.raw_host, t.explicit_port)!r}", "class": "nfkc-host-twin", "input": repr(s)})
        except ValueError as e:
            bad.append({"what": f"{call}: the cache-free twin cannot split the stored authority: {e}", "class": "nfkc-host-twin", "input": repr(s)})
print(json.dumps({"failures": bad[:10], "code_points_with_odd_ascii_in_nfkc": odd_hits, "code_points_with_delimiter_in_nfkc": len(hits), "checked": 0x110000 - 0x80 - 2048, "sample": [hex(x) for x in hits[:8]]}))
