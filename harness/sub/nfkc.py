"""C16: exhaustive enumeration over all code points whose NFKC form contains a URL delimiter (enumeration, not proof)."""
import json
import unicodedata

from yarl import URL

bad = []
hits = []
for cp in range(0x80, 0x110000):
    if 0xD800 <= cp <= 0xDFFF:
        continue
    ch = chr(cp)
    nf = unicodedata.normalize("NFKC", ch)
    if any(d in nf for d in "/?#@:"):
        hits.append(cp)
        for tmpl in ("http://a%sb/", "http://%s/", "http://u@a%s/", "//%s.com"):
            s = tmpl % ch
            try:
                u = URL(s)
                bad.append({"what": f"URL({s!r}) accepted although NFKC(U+{cp:04X}) = {nf!r} contains a delimiter (host {u.raw_host!r})", "class": "nfkc-screen", "input": repr(s)})
            except ValueError:
                pass
            except Exception as e:  # noqa
                bad.append({"what": f"URL({s!r}) raised {type(e).__name__}", "class": "exception-kind:" + type(e).__name__, "input": repr(s)})
        # "any authority": the same through build(authority=…)
        for a in ("a%sb" % ch, "u@x%s.com:80" % ch):
            try:
                u = URL.build(scheme="http", authority=a)
                bad.append({"what": f"URL.build(authority={a!r}) accepted although NFKC(U+{cp:04X}) = {nf!r} contains a delimiter (str {str(u)!r})", "class": "nfkc-screen", "input": repr(a)})
            except ValueError:
                pass
            except Exception as e:  # noqa
                bad.append({"what": f"URL.build(authority={a!r}) raised {type(e).__name__}", "class": "exception-kind:" + type(e).__name__, "input": repr(a)})
print(json.dumps({"failures": bad[:10], "code_points_with_delimiter_in_nfkc": len(hits), "checked": 0x110000 - 0x80 - 2048, "sample": [hex(x) for x in hits[:8]]}))
