"""C20 supporting validation (not proof): N threads run programs over a shared pool of URL strings and shared
URL objects with the switch interval minimised, one thread keeps clearing / reconfiguring the caches; every
thread's trace must equal the trace of the same program run sequentially.

Design points (each added after a seeded change was missed):
 * the sequential reference is computed in a CHILD process, so that it does not warm any cache of this one;
 * every round uses FRESH URL strings, and all threads walk the same index sequence behind a barrier, so that
   they race on the same freshly constructed (shared, cache-filling) objects;
 * derivations (`/`, joinpath, with_*) and first-time accessor reads are interleaved on the same object.
"""
import json
import os
import random
import subprocess
import sys
import threading

import yarl
from yarl import URL
from yarl._quoting import _Quoter, _Unquoter

LONG = ["é " * 5000, "a b" * 9000, "%41" * 6000, "x" * 8190 + " ", "€" * 2000]
Q = _Quoter(safe="@:", protected="/+")
QQ = _Quoter(qs=True)
UQ = _Unquoter()
ACC = ["raw_host", "host", "port", "explicit_port", "raw_user", "password", "raw_path", "path", "name", "suffix", "parts", "query_string", "fragment",
       "host_subcomponent", "host_port_subcomponent", "authority", "raw_parts", "path_qs", "raw_name", "suffixes"]


def url_string(seed, rnd, i):
    r = random.Random(seed * 1000003 + rnd * 1009 + i)
    host = r.choice(["example.com", "bücher.example", "[::1]", "127.0.0.1", "h%d.example" % i, "日本.jp"])
    port = r.choice(["", ":80", ":8080", ":443"])
    user = r.choice(["", "u@", "us%20er:p%40w@"])
    path = "/" + "/".join(r.choice(["a", "файл", "x y", "%E6%97%A5%E6%9C%AC%E8%AA%9E.txt", "b.tar.gz", "é%20é"]) for _ in range(r.randint(1, 3)))
    q = r.choice(["", "?k=v&a=%D0%BF%D1%80", "?x=1&x=2"])
    if i % 4 == 3:
        # an EMPTY host inside a non-empty authority (the one case where the lazily split netloc needs a fix-up after splitting)
        return "%s//%s:%d%s%s#r%d-%d" % (r.choice(["x:", "", "y:"]), r.choice(["", "u@", "u:p@"]), r.choice([77, 8080, 80]), path, q, rnd, i)
    return "http://%s%s%s%s%s#r%d-%d" % (user, host, port, path, q, rnd, i)


NETACC = ["raw_host", "host", "host_subcomponent", "host_port_subcomponent", "explicit_port", "raw_user", "authority"]


def step(op, s, k):
    """one deterministic operation on URL string s"""
    try:
        u = URL(s)
        if op == 0:
            return repr([getattr(u, a) for a in ACC[k % 5::5]])
        if op == 1:
            v = u / ("x y%d" % (k % 3))
            return str(v) + repr(v.raw_host) + repr(v.explicit_port)
        if op == 2:
            v = u.joinpath("a", "б", "..", "c")
            return str(v) + repr(v.host_port_subcomponent)
        if op == 3:
            v = u.with_scheme(["https", "ws", "http"][k % 3])
            return str(v) + repr(v.host_port_subcomponent) + repr(v.port)
        if op == 4:
            v = u.with_query(a=str(k % 7)).with_fragment("f")
            return str(v) + repr(list(v.query.items()))
        if op == 5:
            return u.human_repr() + repr(hash(u) == hash(URL(s))) + repr(u == URL(s))
        if op == 6:
            t = LONG[k % len(LONG)]
            r = Q(t)
            return str(len(r)) + r[:12] + r[-12:] + str(UQ(QQ(t)) == t.replace("+", " "))
        if op == 7:
            v = u.with_host(["H%d.example" % (k % 5), "É%d.com" % (k % 3), "::%d" % (k % 9 + 1)][k % 3]).with_port([None, 80, 8443][k % 3])
            return str(v) + repr(v.raw_host)
        if op == 8:
            v = u.join(URL(["../x", "?q=%d" % (k % 4), "y/z", "#f"][k % 4])).parent
            return str(v) + repr(v.name)
        # op 9 / 10: FIRST netloc-accessor reads on objects shared between the threads that were NOT pre-filled by the parser:
        # URL(s, encoded=True) and a derived URL (both come out of lru-cached constructors, so every thread gets the same object)
        if op == 11:
            # '' and '/' under an authority are the same URL: equal, and equal hashes — first hash of a fresh shared object
            base = "http://t.example" + s.rpartition("#")[2]          # depends on the string only: every thread meets the same two objects
            a1, a2 = URL(base + "#" + s.rpartition("#")[2]), URL(base + "/#" + s.rpartition("#")[2])
            return repr((hash(a1) == hash(a2), a1 == a2, a1 < a2, a1 <= a2, hash(a1) == hash(URL(str(a1)))))
        if op == 12:
            # a derivation from the SHARED parsed object while other threads read it for the first time (a derivation must not walk or
            # copy the parent's per-object cache while it is being filled)
            v = u.with_fragment("t%d" % (k % 3))
            w = u.with_query("n=%d" % (k % 2))
            return str(v) + repr(v.raw_fragment) + str(w) + repr(w.raw_host)
        if op == 9:
            v = URL(s, encoded=True)
        else:
            v = (u / "seg").with_fragment(None)
        j = k % len(NETACC)
        return repr([getattr(v, a) for a in NETACC[j:] + NETACC[:j]]) + v.human_repr()
    except Exception as e:  # noqa
        return "!" + type(e).__name__


def program(seed, t, rounds, per_round):
    r = random.Random(seed * 7919 + t)
    # ops 9 and 10 get extra weight on the empty-host strings (i % 4 == 3)
    return [[((r.choice([9, 10, 9, 10, 1, 5]) if (i % 4 == 3 and r.random() < 0.8) else (11 if (i % 4 == 1 and r.random() < 0.7) else (r.choice([12, 0, 12, 5, 0]) if (i % 4 == 2 and r.random() < 0.8) else r.randrange(13)))), i, r.randrange(1000))
             for i in range(per_round)] for _ in range(rounds)]


def sequential(seed, nthreads, rounds, per_round):
    return [[[step(op, url_string(seed, rnd, i), k) for (op, i, k) in rd] for rnd, rd in enumerate(program(seed, t, rounds, per_round))]
            for t in range(nthreads)]


def main():
    if sys.argv[1] == "--reference":
        seed, nthreads, rounds, per_round = map(int, sys.argv[2:6])
        print(json.dumps(sequential(seed, nthreads, rounds, per_round)))
        return
    seed, nthreads, nsteps = int(sys.argv[1]), int(sys.argv[2]), int(sys.argv[3])
    per_round = 12
    rounds = max(1, nsteps // per_round)
    ref = subprocess.run([sys.executable, os.path.abspath(__file__), "--reference", str(seed), str(nthreads), str(rounds), str(per_round)],
                         capture_output=True, text=True, env=os.environ)
    if ref.returncode != 0:
        print(json.dumps({"failures": [{"what": "reference run failed: " + ref.stderr[-300:], "class": "crash"}]}))
        return
    expected = json.loads(ref.stdout)
    progs = [program(seed, t, rounds, per_round) for t in range(nthreads)]
    sys.setswitchinterval(1e-6)
    results = [[None] * rounds for _ in range(nthreads)]
    errors = []
    stop = threading.Event()
    barrier = threading.Barrier(nthreads)

    def worker(t):
        try:
            for rnd, rd in enumerate(progs[t]):
                barrier.wait()
                results[t][rnd] = [step(op, url_string(seed, rnd, i), k) for (op, i, k) in rd]
        except BaseException as e:  # noqa
            errors.append(f"thread {t}: {type(e).__name__}: {e}")
            barrier.abort()

    def churner():
        r = random.Random(seed)
        while not stop.is_set():
            try:
                if r.random() < 0.5:
                    yarl.cache_clear()
                else:
                    yarl.cache_configure(idna_encode_size=r.choice([0, 1, 8, None, 256]), idna_decode_size=r.choice([0, 1, 8, None, 256]),
                                         encode_host_size=r.choice([0, 1, 8, None, 512]))
            except BaseException as e:  # noqa
                errors.append(f"churner: {type(e).__name__}: {e}")
                return

    ts = [threading.Thread(target=worker, args=(t,)) for t in range(nthreads)]
    c = threading.Thread(target=churner)
    c.start()
    for t in ts:
        t.start()
    for t in ts:
        t.join()
    stop.set()
    c.join()
    failures = []
    for e in errors:
        if "BrokenBarrier" not in e:
            failures.append({"what": e, "class": "thread-exception"})
    for t in range(nthreads):
        for rnd in range(rounds):
            got = results[t][rnd]
            if got is None:
                continue
            for j, (a, b) in enumerate(zip(got, expected[t][rnd])):
                if a != b:
                    op, i, k = progs[t][rnd][j]
                    failures.append({"what": f"thread {t}, round {rnd}: op {op} on {url_string(seed, rnd, i)!r}: concurrent result {a[:120]!r} differs from the sequential result {b[:120]!r}",
                                     "class": "thread-divergence", "program": [repr((op, url_string(seed, rnd, i), k))]})
                    break
            if len(failures) > 6:
                break
    print(json.dumps({"failures": failures[:10], "threads": nthreads, "steps": nthreads * rounds * per_round,
                      "sample": [repr(progs[0][0][0]), expected[0][0][0][:80]]}))


main()
