"""C20 supporting validation (not proof): N threads run random programs over a shared pool of URL strings and
shared URL objects with the switch interval minimised, one thread keeps clearing / reconfiguring the caches;
every thread's trace must equal the trace of the same program run sequentially."""
import json
import random
import sys
import threading

import yarl
from yarl import URL
from yarl._quoting import _Quoter, _Unquoter

STRS = ["http://example.com/a/b?x=1&y=2#f", "http://u:p@h:8080/p%20q/r.txt", "https://[::1]:443/", "//h/a/../b", "/rel/path?q", "http://bücher.example/ü?k=v",
        "ftp://h", "http://h:80", "http://H/%7e", "http://h/a?a=1&a=2&b=", "http://h/a%2Fb/c", "http://xn--tda.com/é é", "http://h/" + "é " * 3000, "http://h/?" + "a=b c&" * 2000]
LONG = ["é " * 5000, "a b" * 9000, "%41" * 6000, "x" * 8190 + " ", "€" * 2000]
Q = _Quoter(safe="@:", protected="/+")
QQ = _Quoter(qs=True)
UQ = _Unquoter()
SHARED = [URL(s) for s in STRS]


def step(k, a, b):
    try:
        if k == 0:
            u = URL(STRS[a % len(STRS)])
            return str(u) + "|" + repr(u.host) + "|" + u.path[:50] + "|" + repr(list(u.query.items())[:3])
        if k == 1:
            u = SHARED[a % len(SHARED)]
            return "|".join([str(u)[:80], repr(u.raw_host), repr(u.port), u.raw_path[:40], repr(u.name[:20]), repr(hash(u) == hash(SHARED[a % len(SHARED)]))])
        if k == 2:
            u = SHARED[a % len(SHARED)]
            v = (u / "x y").with_query(a=str(b)).with_fragment("f%d" % b)
            return str(v)[-60:]
        if k == 3:
            s = LONG[a % len(LONG)]
            r = Q(s)
            return str(len(r)) + r[:12] + r[-12:] + str(hash(r))
        if k == 4:
            s = LONG[a % len(LONG)]
            r = UQ(QQ(s))
            return str(len(r)) + repr(r == s.replace("+", " ") or len(r))
        if k == 5:
            u = URL.build(scheme="http", host=["É%d.com" % (b % 7), "h%d" % (b % 5), "::%d" % (b % 9 + 1)][a % 3], path="/p q/%d" % b, query={"k": [b, "v w"]})
            return str(u) + u.human_repr()
        if k == 6:
            return str(SHARED[a % len(SHARED)].join(URL(["../x", "?q=%d" % b, "y/z", "#f"][b % 4])))
        u = SHARED[a % len(SHARED)]
        return repr(u == SHARED[b % len(SHARED)]) + repr(u.human_repr()[:40]) + repr(u.with_host("H%d.example" % (b % 11)).raw_host)
    except Exception as e:  # noqa
        return "!" + type(e).__name__


def program(seed, n):
    r = random.Random(seed)
    return [(r.randrange(8), r.randrange(1000), r.randrange(1000)) for _ in range(n)]


def main():
    seed, nthreads, nsteps = int(sys.argv[1]), int(sys.argv[2]), int(sys.argv[3])
    progs = [program(seed * 100 + t, nsteps) for t in range(nthreads)]
    expected = [[step(*s) for s in p] for p in progs]
    sys.setswitchinterval(1e-6)
    results = [None] * nthreads
    errors = []
    stop = threading.Event()

    def worker(t):
        try:
            results[t] = [step(*s) for s in progs[t]]
        except BaseException as e:  # noqa
            errors.append(f"thread {t}: {type(e).__name__}: {e}")

    def churner():
        r = random.Random(seed)
        while not stop.is_set():
            try:
                if r.random() < 0.5:
                    yarl.cache_clear()
                else:
                    yarl.cache_configure(idna_encode_size=r.choice([0, 1, 8, None, 256]), idna_decode_size=r.choice([0, 1, 8, None, 256]),
                                         encode_host_size=r.choice([0, 1, 8, None, 512]))
            except BaseException as e:  # noqa
                errors.append(f"churner: {type(e).__name__}: {e}")
                return

    ts = [threading.Thread(target=worker, args=(t,)) for t in range(nthreads)]
    c = threading.Thread(target=churner)
    c.start()
    for t in ts:
        t.start()
    for t in ts:
        t.join()
    stop.set()
    c.join()
    failures = []
    for e in errors:
        failures.append({"what": e, "class": "thread-exception"})
    for t in range(nthreads):
        if results[t] is None:
            continue
        for i, (a, b) in enumerate(zip(results[t], expected[t])):
            if a != b:
                failures.append({"what": f"thread {t} step {i} {progs[t][i]!r}: concurrent result {a[:100]!r} differs from the sequential result {b[:100]!r}", "class": "thread-divergence",
                                 "program": [repr(progs[t][i])]})
                break
    print(json.dumps({"failures": failures[:10], "threads": nthreads, "steps": nthreads * nsteps, "sample": [repr(progs[0][0]), expected[0][0][:80]]}))


main()
