"""C18: 'Only characters that would change the parse in their position, '%' and non-printable characters are escaped.'
For every component and every printable ASCII character c: build a URL whose component is 'a'+c+'b', take human_repr(); if c is shown
escaped, put it back literally and parse: when the result is the SAME URL the escape was not needed (over-escaping); when c is shown
literally, the text must parse back to the same URL (under-escaping is the round-trip clause, checked here too).  Prints one JSON object."""
import json

from yarl import URL

failures = []
checked = 0
needed = 0
for comp in ("user", "password", "path", "query_key", "query_value", "fragment"):
    for cp in range(0x20, 0x7F):
        c = chr(cp)
        t = "a" + c + "b"
        kw = dict(scheme="http", host="example.com", path="/p")
        if comp == "user":
            kw["user"] = t
        elif comp == "password":
            kw["user"], kw["password"] = "u", t
        elif comp == "path":
            if c == "/":
                continue
            kw["path"] = "/" + t
        elif comp == "query_key":
            kw["query"] = [(t, "v")]
        elif comp == "query_value":
            kw["query"] = [("k", t)]
        else:
            kw["fragment"] = t
        try:
            u = URL.build(**kw)
            hr = u.human_repr()
        except ValueError:
            continue
        checked += 1
        esc = "%%%02X" % cp
        marker = "a" + esc + "b"
        if marker in hr:
            if c == "%":
                continue
            lit = hr.replace(marker, t, 1)
            try:
                v = URL(lit)
            except ValueError:
                needed += 1
                continue
            if v == u:
                failures.append({"what": f"human_repr() escapes {c!r} in the {comp} ({hr!r}) although the text with it left literal, {lit!r}, parses to the same URL",
                                 "class": "human-overescape", "input": f"{comp}:{c}"})
            else:
                needed += 1
        else:
            try:
                if URL(hr) != u:
                    failures.append({"what": f"human_repr() = {hr!r} shows {c!r} literally in the {comp} but does not parse back to the same URL", "class": "human-roundtrip", "input": f"{comp}:{c}"})
            except ValueError as e:
                failures.append({"what": f"human_repr() = {hr!r} is rejected when parsed again ({e})", "class": "human-roundtrip", "input": f"{comp}:{c}"})
print(json.dumps({"failures": failures[:20], "checked": checked, "escapes_needed": needed}))
