"""C08 implementation-only driver: random programs over shared URL values.
 * full observation of every live URL before and after every step (nothing may change);
 * arguments deep-copied before and compared after;
 * the same program run warm (tiny caches, long history) and cold (caches cleared before every step,
   operands replaced by unpickled twins): result traces must be identical.
Prints one JSON object."""
import copy
import json
import pickle
import random
import sys

import yarl
from multidict import MultiDict
from yarl import URL
import yarl._url as _url
import yarl._parse as _parse

ACC = ["scheme", "raw_authority", "authority", "raw_user", "user", "raw_password", "password", "raw_host", "host", "host_subcomponent",
       "host_port_subcomponent", "port", "explicit_port", "raw_path", "path", "path_safe", "raw_query_string", "query_string", "path_qs",
       "raw_path_qs", "raw_fragment", "fragment", "raw_parts", "parts", "raw_name", "name", "raw_suffix", "suffix", "raw_suffixes", "suffixes", "absolute"]


def val(f):
    try:
        r = f()
    except Exception as e:  # noqa
        return "!" + type(e).__name__
    if isinstance(r, URL):
        return "URL:" + "|".join((r._scheme, r._netloc, r._path, r._query, r._fragment))
    return repr(r)


def snapshot(u):
    d = {a: val(lambda a=a: getattr(u, a)) for a in ACC}
    d["str"] = val(lambda: str(u))
    d["hash"] = val(lambda: hash(u))
    d["query"] = val(lambda: list(u.query.items()))
    d["human_repr"] = val(lambda: u.human_repr())
    d["val"] = repr((u._scheme, u._netloc, u._path, u._query, u._fragment))
    d["bool"] = val(lambda: bool(u))
    d["is_default_port"] = val(lambda: u.is_default_port())
    return d


STRS = ["http://example.com/a/b?x=1&y=2#f", "http://u:p@h:8080/p%20q/r.txt", "https://[::1]:443/", "//h/a/../b", "/rel/path?q", "a/b", "", "http://bücher.example/ü?k=v",
        "ftp://h", "http://h:80", "http://H/%7e", "http://a^b/p", "http://a b/", "x://a|b:81/q", "http://é^.com/", "mailto:x@y", "http://h/a?a=1&a=2&b=", "foo://:80/", "http://h/?a=%FF", "http://h/a%2Fb/c", "http://h/.a/b./c.tar.gz"]
# "a^b", "a|b", "é^.com": host texts the parser stores but with_host / build(host=) reject — a result must not depend on which came first
TEXTS = ["x", "a b", "é", "", "..", "a/b", "%41", "k+", "a&b", ".md", ".tar", "a^b", "a|b", "é^.com"]


def gen_program(rng, n):
    prog = []
    for _ in range(n):
        k = rng.random()
        if k < 0.12:
            prog.append(("new", rng.choice(STRS), rng.random() < 0.1))
        elif k < 0.22:
            prog.append(("build", rng.choice(["http", "https", ""]), rng.choice(["h", "É.com", "::1", "", "a^b", "a b"]), rng.choice([None, 80, 8080]), rng.choice(["", "/a b", "/x/../y"]),
                         rng.choice([None, {"a": "1"}, {"k": ["1", "2"]}, [("a", "b c")]])))
        elif k < 0.27:
            # URL.build(..., encoded=True) with ports that compare EQUAL (1 / True / 1.0): the argument checks must not be skipped by a cache hit
            prog.append(("build_enc", rng.choice(["http", "x"]), rng.choice(["h", "k"]), rng.choice([1, True, 1.0, 8080, 8080.0, 0, False, None])))
        elif k < 0.62:
            name = rng.choice(["with_scheme", "with_user", "with_password", "with_host", "with_port", "with_path", "with_query", "extend_query", "update_query",
                               "without_query_params", "with_fragment", "with_name", "with_suffix", "truediv", "joinpath", "parent", "origin", "relative", "join"])
            prog.append(("mod", name, rng.randrange(1000), rng.choice(TEXTS), rng.randrange(1000),
                         rng.choice([{"a": "1", "z": ["1", "2"]}, MultiDict([("a", "1"), ("a", "2")]), [("q", "r s")], "a=3&c=4", None, {"n": 1, "f": 1.5}])))
        elif k < 0.8:
            prog.append(("obs", rng.randrange(1000), rng.choice(ACC + ["str", "hash", "query", "human_repr"])))
        elif k < 0.88:
            prog.append(("cmp", rng.randrange(1000), rng.randrange(1000)))
        elif k < 0.94:
            prog.append(("pkl", rng.randrange(1000), rng.choice(["pickle", "copy", "deepcopy"])))
        else:
            prog.append(("cache", rng.choice(["clear", "configure"]), rng.choice([0, 1, 2, None, 256]), rng.choice([0, 1, 2, None, 256]), rng.choice([0, 1, 3, None, 512])))
    return prog


def clear_all():
    """empty EVERY functools cache of the library, whatever it is called: the public ones through the API, the private ones
    by scanning the modules for objects with a cache_clear() (name-independent, and new caches are covered automatically)"""
    yarl.cache_clear()
    import sys as _sys
    for modname, mod in list(_sys.modules.items()):
        if modname == "yarl" or modname.startswith("yarl."):
            for obj in list(vars(mod).values()):
                cc = getattr(obj, "cache_clear", None)
                if callable(cc) and hasattr(obj, "cache_info"):
                    try:
                        cc()
                    except Exception:
                        pass


def run_program(prog, mode, check_frames):
    """mode: 'warm' or 'cold'. returns (trace, problems)"""
    pool = []
    trace = []
    problems = []
    if mode == "warm":
        yarl.cache_configure(idna_encode_size=1, idna_decode_size=1, encode_host_size=2)
    else:
        yarl.cache_configure()
    for step_no, step in enumerate(prog):
        if mode == "cold":
            clear_all()
            pool = [pickle.loads(pickle.dumps(u)) for u in pool]
        before = [snapshot(u) for u in pool[-10:]] if check_frames else None
        kind = step[0]
        res = None
        arg_before = arg_obj = None
        try:
            if kind == "new":
                res = URL(step[1], encoded=step[2])
            elif kind == "build":
                kw = dict(scheme=step[1], host=step[2], path=step[4])
                if step[3] is not None and step[2]:
                    kw["port"] = step[3]
                if step[5] is not None:
                    kw["query"] = arg_obj = copy.deepcopy(step[5])
                    arg_before = copy.deepcopy(arg_obj)
                res = URL.build(**kw)
            elif kind == "build_enc":
                kw = dict(scheme=step[1], host=step[2], encoded=True)
                if step[3] is not None:
                    kw["port"] = step[3]
                res = URL.build(**kw)
            elif kind == "mod":
                if not pool:
                    trace.append("skip")
                    continue
                u = pool[step[2] % len(pool)]
                name, text = step[1], step[3]
                if name in ("with_query", "extend_query", "update_query"):
                    arg_obj = copy.deepcopy(step[5])
                    arg_before = copy.deepcopy(arg_obj)
                    res = getattr(u, name)(arg_obj)
                elif name == "without_query_params":
                    res = u.without_query_params("a", text)
                elif name == "with_port":
                    res = u.with_port(8443 if text else None)
                elif name == "truediv":
                    res = u / text
                elif name == "joinpath":
                    res = u.joinpath(text, "z")
                elif name == "parent":
                    res = u.parent
                elif name in ("origin", "relative"):
                    res = getattr(u, name)()
                elif name == "join":
                    res = u.join(pool[step[4] % len(pool)])
                elif name == "with_scheme":
                    res = u.with_scheme("https")
                elif name == "with_host":
                    res = u.with_host(text or "h2")
                elif name in ("with_user", "with_password", "with_fragment"):
                    res = getattr(u, name)(text if text else None)
                else:
                    res = getattr(u, name)(text)
            elif kind == "obs":
                if not pool:
                    trace.append("skip")
                    continue
                u = pool[step[1] % len(pool)]
                a = step[2]
                if a == "str":
                    res = str(u)
                elif a == "hash":
                    res = hash(u) == hash(pickle.loads(pickle.dumps(u)))
                elif a == "query":
                    res = list(u.query.items())
                elif a == "human_repr":
                    res = u.human_repr()
                else:
                    res = getattr(u, a)
            elif kind == "cmp":
                if not pool:
                    trace.append("skip")
                    continue
                a, b = pool[step[1] % len(pool)], pool[step[2] % len(pool)]
                res = (a == b, a < b, a <= b, hash(a) == hash(b), a == str(b), a != 5)
            elif kind == "pkl":
                if not pool:
                    trace.append("skip")
                    continue
                u = pool[step[1] % len(pool)]
                res = {"pickle": lambda: pickle.loads(pickle.dumps(u)), "copy": lambda: copy.copy(u), "deepcopy": lambda: copy.deepcopy(u)}[step[2]]()
                if not (res == u and hash(res) == hash(u) and str(res) == str(u)):
                    problems.append({"step": step_no, "what": f"{step[2]} of {str(u)!r} is not equal to the original", "class": "twin-not-equal"})
            elif kind == "cache":
                if step[1] == "clear":
                    clear_all()
                else:
                    yarl.cache_configure(idna_encode_size=step[2], idna_decode_size=step[3], encode_host_size=step[4])
                res = "ok"
            out = val(lambda: res)
        except Exception as e:  # noqa
            out = "!" + type(e).__name__
            res = None
        trace.append(out)
        if arg_before is not None and arg_before != arg_obj:
            problems.append({"step": step_no, "what": f"argument mutated by {step[:2]}: {arg_before!r} -> {arg_obj!r}", "class": "argument-mutated"})
        if check_frames:
            after = [snapshot(u) for u in pool[-10:]]
            for i, (x, y) in enumerate(zip(before, after)):
                if x != y:
                    diff = {k: (x[k], y[k]) for k in x if x[k] != y[k]}
                    problems.append({"step": step_no, "what": f"step {step!r} changed an existing URL {x['val']}: {diff!r}", "class": "url-mutated"})
                    break
        if isinstance(res, URL):
            pool.append(res)
            if len(pool) > 40:
                pool = pool[-40:]
    return trace, problems


def main():
    seed, nprog = int(sys.argv[1]), int(sys.argv[2])
    rng = random.Random(seed)
    failures = []
    steps = 0
    samples = []
    for p in range(nprog):
        prog = gen_program(rng, 30)
        warm, pw = run_program(prog, "warm", True)
        cold, pc = run_program(prog, "cold", False)
        steps += len(prog)
        for pr in pw + pc:
            pr["program"] = [repr(s) for s in prog[: pr["step"] + 1]]
            failures.append(pr)
        if warm != cold:
            i = next(i for i, (a, b) in enumerate(zip(warm, cold)) if a != b)
            failures.append({"what": f"step {prog[i]!r} gives {warm[i]} after a long warm history but {cold[i]} with cold caches and unpickled operands",
                             "class": "history-dependent", "step": i, "program": [repr(s) for s in prog[: i + 1]]})
        if p < 2:
            samples.append({"program": [repr(s) for s in prog[:6]], "trace": warm[:6]})
        if len(failures) > 5:
            break
    print(json.dumps({"failures": failures[:10], "programs": nprog, "steps": steps, "samples": samples}))


main()
