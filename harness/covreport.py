"""Development aid (not a registered check): which lines / branches of /repo/yarl/*.py do the op streams of the
quick checks execute on the pure-Python backend?  Blind spots of the generators are where a seeded change hides.

    VERIF_COVERAGE=/tmp/yv-cov ./check C01 ... ./check C20        # collect (run_impl wraps the worker in coverage)
    /venv/bin/python harness/covreport.py /tmp/yv-cov [--md]      # combine + report against /repo/yarl

The scratch copies live in fresh temp dirs; the data files are combined with a path alias onto /repo/yarl.
"""
import glob
import os
import sys

import coverage

REPO = os.environ.get("YARL_REPO", "/repo")


def main():
    covdir = sys.argv[1]
    md = "--md" in sys.argv
    rc = os.path.join(covdir, "rc")
    with open(rc, "w") as f:
        f.write("[run]\nbranch = True\nrelative_files = False\n[paths]\nsource =\n    %s/yarl\n    /tmp/yarl-verif-*/yarl\n    /tmp/*/yarl-verif-*/yarl\n" % REPO)
    files = [p for p in glob.glob(os.path.join(covdir, "cov.*"))]
    out = os.path.join(covdir, "combined")
    if os.path.exists(out):
        os.unlink(out)
    cov = coverage.Coverage(data_file=out, config_file=rc)
    cov.combine(files, keep=True)
    cov.save()
    data = cov.get_data()
    total_s = total_m = total_b = total_bm = 0
    rows = []
    for fn in sorted(data.measured_files()):
        if not fn.startswith(REPO):
            continue
        an = cov._analyze(fn)
        ns, nm = len(an.statements), len(an.missing)
        nb, nbm = an.numbers.n_branches, an.numbers.n_missing_branches
        total_s += ns
        total_m += nm
        total_b += nb
        total_bm += nbm
        rows.append((os.path.relpath(fn, REPO), ns, nm, nb, nbm, coverage.results.format_lines(an.statements, an.missing) if hasattr(coverage.results, "format_lines") else sorted(an.missing)))
    for r in rows:
        if md:
            print("| `%s` | %d | %d | %d | %d | %s |" % r)
        else:
            print("%-28s stmts %4d  missed %3d  branches %4d  missed %3d   missing: %s" % r)
    print("TOTAL statements %d missed %d (%.1f%%), branches %d missed %d" % (total_s, total_m, 100.0 * (total_s - total_m) / max(1, total_s), total_b, total_bm))


main()
