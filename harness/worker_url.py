"""URL-level ops of the line protocol on the real yarl (imported from the scratch copy)."""
import copy
import pickle

from worker import dec, enc, exc_bucket

_state = {"urls": [], "mod": None}


def Y():
    if _state["mod"] is None:
        import yarl
        import yarl._parse
        import yarl._path
        import yarl._quoters
        import yarl._url
        _state["mod"] = yarl
    return _state["mod"]


def enc_opt_nat(v):
    return "~" if v is None else "N" + str(v)


def enc_bool(b):
    return "T" if b else "F"


def enc_list(l):
    l = list(l)
    return "L%d:%s" % (len(l), ",".join(enc(x) for x in l))


def enc_pairs(l):
    l = list(l)
    for k, v in l:
        if type(k) is not str or type(v) is not str:
            return "!nonstr-pair:%s=%s" % (type(k).__name__, type(v).__name__)
    return "Q%d:%s" % (len(l), ",".join(enc(k) + "=" + enc(v) for k, v in l))


class Other:
    pass


class ArgMutated(Exception):
    pass


class StrSub(str):
    pass


class IntSub(int):
    pass


class FloatSub(float):
    pass


def dec_qval(s):
    # every third str / int / finite float value is handed over as an instance of a plain SUBCLASS (query_var's
    # slow paths); the model does not distinguish them (the property speaks of "ints and floats", "str")
    t = s[0]
    if t == "s":
        v = dec(s[1:])
        return StrSub(v) if len(s) % 3 == 0 else v
    if t == "i":
        return IntSub(s[1:]) if len(s) % 3 == 0 else int(s[1:])
    if t == "f":
        kind = s[1]
        if kind == "1":
            return float("inf") if not dec(s[3:]).startswith("-") else float("-inf")
        if kind == "2":
            return float("nan")
        return FloatSub(dec(s[3:])) if len(s) % 3 == 0 else float(dec(s[3:]))
    if t == "b":
        return True
    if t == "n":
        return None
    if t == "o":
        return Other()
    raise RuntimeError("bad qval " + s)


def dec_qitem(s):
    if s.startswith("[") and s.endswith("]"):
        inner = s[1:-1]
        return [dec_qval(x) for x in inner.split("|")] if inner else []
    return dec_qval(s)


def dec_items(s):
    if not s:
        return []
    out = []
    for it in s.split(";"):
        k, v = it.split("=")
        out.append((dec(k), dec_qitem(v)))
    return out


def dec_qarg(s):
    """returns (args, kwargs) for the query methods"""
    from multidict import MultiDict
    t = s[0]
    if t == "N":
        return (None,), {}
    if t == "S":
        return (dec(s[1:]),), {}
    if t == "M":
        return (dict(dec_items(s[1:])),), {}
    if t == "D":
        return (MultiDict(dec_items(s[1:])),), {}
    if t == "K":
        return (), dict(dec_items(s[1:]))
    if t == "P":
        return (list(dec_items(s[1:])),), {}
    if t == "U":
        return (tuple(dec_items(s[1:])),), {}
    if t == "B":
        return (b"" if s[1] == "0" else b"a=1",), {}
    if t == "O":
        return (Other(),), {}
    raise RuntimeError("bad qarg " + s)


def dec_port(s):
    if s == "~":
        return None
    if s == "T":
        return True
    if s == "X":
        return "80"
    if s == "Z":
        return False
    if s.startswith("D"):
        return float(int(s[1:]))
    return int(s)


def push(fn):
    urls = _state["urls"]
    try:
        u = fn()
    except BaseException as e:  # noqa
        if isinstance(e, (KeyboardInterrupt, SystemExit)):
            raise
        urls.append(None)
        return exc_bucket(e)
    if not isinstance(u, Y().URL):
        urls.append(None)
        return "!X:not-a-URL:" + type(u).__name__
    urls.append(u)
    return "#%d" % (len(urls) - 1)


def get(h):
    i = int(h)
    urls = _state["urls"]
    return urls[i] if 0 <= i < len(urls) else None


def observe(u, name):
    if name == "str":
        return enc(str(u))
    if name == "bytes":
        return enc(bytes(u).decode("ascii"))
    if name in ("scheme", "raw_authority", "authority", "raw_path", "path", "path_safe", "raw_query_string",
                "query_string", "path_qs", "raw_path_qs", "raw_fragment", "fragment", "raw_name", "name",
                "raw_suffix", "suffix"):
        return enc(getattr(u, name))
    if name in ("raw_user", "user", "raw_password", "password", "raw_host", "host", "host_subcomponent",
                "host_port_subcomponent"):
        return enc(getattr(u, name))
    if name in ("port", "explicit_port"):
        return enc_opt_nat(getattr(u, name))
    if name == "is_default_port":
        return enc_bool(u.is_default_port())
    if name == "query":
        return enc_pairs(u.query.items())
    if name in ("raw_parts", "parts", "raw_suffixes", "suffixes"):
        return enc_list(getattr(u, name))
    if name == "human_repr":
        return enc(u.human_repr())
    if name == "absolute":
        if u.is_absolute() is not u.absolute:
            return "!is_absolute-differs"
        return enc_bool(u.absolute)
    if name == "bool":
        return enc_bool(bool(u))
    if name == "val":
        return enc_list([u._scheme, u._netloc, u._path, u._query, u._fragment])
    return "!bad-op"


def dec_bool(s):
    return s == "T"


def modify(u, name, args):
    if name == "with_scheme":
        return u.with_scheme(dec(args[0]))
    if name == "with_user":
        return u.with_user(dec(args[0]))
    if name == "with_password":
        return u.with_password(dec(args[0]))
    if name == "with_host":
        return u.with_host(dec(args[0]))
    if name == "with_port":
        return u.with_port(dec_port(args[0]))
    if name == "with_path":
        return u.with_path(dec(args[0]), encoded=dec_bool(args[1]), keep_query=dec_bool(args[2]), keep_fragment=dec_bool(args[3]))
    if name in ("with_query", "extend_query", "update_query"):
        import copy
        a, kw = dec_qarg(args[0])
        a0, kw0 = copy.deepcopy(a), copy.deepcopy(kw)
        try:
            if name == "update_query" and len(a) == 1 and not kw and len(args[0]) % 2 == 0:
                return u % a[0]          # the operator form is documented as the same operation
            return getattr(u, name)(*a, **kw)
        finally:
            # "the argument is never mutated" (C12): compare with the deep copy taken before the call
            same = (kw == kw0) and len(a) == len(a0) and all(
                (type(x) is type(y)) and (list(x.items()) == list(y.items()) if hasattr(x, "items") else (x == y or (x != x and y != y) or type(x).__name__ == "Other"))
                for x, y in zip(a, a0))
            if not same:
                raise ArgMutated()
    if name == "without_query_params":
        return u.without_query_params(*[dec(a) for a in args])
    if name == "with_fragment":
        return u.with_fragment(dec(args[0]))
    if name == "with_name":
        return u.with_name(dec(args[0]), keep_query=dec_bool(args[1]), keep_fragment=dec_bool(args[2]))
    if name == "with_suffix":
        return u.with_suffix(dec(args[0]), keep_query=dec_bool(args[1]), keep_fragment=dec_bool(args[2]))
    if name == "truediv":
        return u / dec(args[0])
    if name == "joinpath":
        return u.joinpath(*[dec(a) for a in args[1:]], encoded=dec_bool(args[0]))
    if name == "parent":
        return u.parent
    if name == "origin":
        return u.origin()
    if name == "relative":
        return u.relative()
    raise RuntimeError("bad mod " + name)


def build_kwargs(fields):
    kw = {}
    for f in fields:
        k, _, v = f.partition("=")
        if k in ("scheme", "authority", "host", "path", "query_string", "fragment"):
            kw[k] = dec(v)
        elif k in ("user", "password"):
            kw[k] = dec(v)
        elif k == "port":
            kw[k] = dec_port(v)
        elif k == "query":
            a, kws = dec_qarg(v)
            kw[k] = a[0] if a else kws
        elif k == "encoded":
            kw[k] = dec_bool(v)
        else:
            raise RuntimeError("bad build field " + f)
    return kw


def handle_url(f, backend):
    op = f[0]
    yarl = Y()
    URL = yarl.URL
    if op == "orc" or op == "tag":
        return "ok"
    if op in ("np", "su", "sn", "eh", "hq"):
        # internal helpers, addressed by their historical names: a harmless rewrite may rename or inline them — then this
        # level of the correspondence is skipped (the URL-level ops exercise the same code through the public API)
        modname, fname = {"np": ("_path", "normalize_path"), "su": ("_parse", "split_url"), "sn": ("_parse", "split_netloc"),
                          "eh": ("_url", "_encode_host"), "hq": ("_quoters", "human_quote")}[op]
        fn = getattr(getattr(yarl, modname, None), fname, None)
        if fn is None:
            return "!unavailable:" + fname
        fn = getattr(fn, "__wrapped__", fn)
        if op == "np":
            return enc(fn(dec(f[1])))
        if op == "su":
            return enc_list(fn(dec(f[1])))
        if op == "sn":
            r = fn(dec(f[1]))
            return enc(r[0]) + " " + enc(r[1]) + " " + enc(r[2]) + " " + enc_opt_nat(r[3])
        if op == "eh":
            return enc(fn(dec(f[1]), dec_bool(f[2])))
        return enc(fn(dec(f[1]), dec(f[2])))
    if op == "pq":
        from urllib.parse import parse_qsl
        return enc_pairs(parse_qsl(dec(f[1]), keep_blank_values=True))
    if op == "new":
        s = dec(f[3])
        return push(lambda: URL(s, encoded=(f[2] == "e")))
    if op == "bld":
        def mk():
            return URL.build(**build_kwargs(f[2:]))
        return push(mk)
    if op == "obs":
        u = get(f[2])
        if u is None:
            return "!dead"
        return observe(u, f[3])
    if op == "mod":
        u = get(f[2])
        if u is None:
            _state["urls"].append(None)
            return "!dead"
        return push(lambda: modify(u, f[3], f[4:]))
    if op == "jn":
        u, v = get(f[2]), get(f[3])
        if u is None or v is None:
            _state["urls"].append(None)
            return "!dead"
        return push(lambda: u.join(v))
    if op == "cmp":
        u, v = get(f[1]), get(f[2])
        if u is None or v is None:
            return "!dead"
        # "never holds against non-URL objects" (C10): equality with a str / bytes / None / tuple of the parts is False,
        # inequality True, ordering against them raises TypeError
        try:
            su = str(u)
        except ValueError:
            su = "http://unprintable/"
        for other in (su, su.encode("ascii", "ignore"), None, 0, (u._scheme, u._netloc, u._path, u._query, u._fragment)):
            if (u == other) is not False or (u != other) is not True or (other == u) is not False:
                return "!eq-nonurl"
            for opf in (lambda x, y: x < y, lambda x, y: x <= y, lambda x, y: x > y, lambda x, y: x >= y):
                try:
                    opf(u, other)
                    return "!order-nonurl"
                except TypeError:
                    pass
        return enc_bool(u == v) + enc_bool(u < v) + enc_bool(u <= v) + enc_bool(u > v) + enc_bool(u >= v) + enc_bool(hash(u) == hash(v))
    if op == "rt":
        u = get(f[2])
        if u is None:
            _state["urls"].append(None)
            return "!dead"
        return push(lambda: URL(str(u)))
    if op == "hr":
        u = get(f[2])
        if u is None:
            _state["urls"].append(None)
            return "!dead"
        return push(lambda: URL(u.human_repr()))
    if op == "hre":
        # the decoded host supplied again: u.with_host(u.host)
        u = get(f[2])
        if u is None:
            _state["urls"].append(None)
            return "!dead"
        return push(lambda: u.with_host(u.host))
    if op == "pkl":
        u = get(f[1])
        if u is None:
            _state["urls"].append(None)
            return "!dead"
        return push(lambda: pickle.loads(pickle.dumps(u)))
    if op == "reset":
        _state["urls"].clear()
        return "ok"
    if op == "cc":
        # cache control (implementation only; the model is cache-free)
        if f[1] == "clear":
            yarl.cache_clear()
            import sys as _sys
            for modname, mod in list(_sys.modules.items()):
                if modname == "yarl" or modname.startswith("yarl."):
                    for obj in list(vars(mod).values()):
                        if callable(getattr(obj, "cache_clear", None)) and hasattr(obj, "cache_info"):
                            obj.cache_clear()
        elif f[1] == "configure":
            def sz(x):
                return None if x == "~" else int(x)
            yarl.cache_configure(idna_encode_size=sz(f[2]), idna_decode_size=sz(f[3]), encode_host_size=sz(f[4]))
        return "ok"
    return "!bad-op"
