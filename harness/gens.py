"""Input generators. Every random choice comes from one `random.Random(seed)`."""
import itertools
import random

CRIT = ["%", "2", "F", "f", "/", "+", " ", "é", "\udc80", "a"]
QUOTERS = ["QUOTER", "REQUOTER", "PATH_QUOTER", "PATH_REQUOTER", "QUERY_QUOTER", "QUERY_REQUOTER",
           "QUERY_PART_QUOTER", "FRAGMENT_QUOTER", "FRAGMENT_REQUOTER"]
UNQUOTERS = ["UNQUOTER", "PATH_UNQUOTER", "PATH_SAFE_UNQUOTER", "QS_UNQUOTER"]


def strings_over(alphabet, maxlen):
    for n in range(maxlen + 1):
        for t in itertools.product(alphabet, repeat=n):
            yield "".join(t)


def all_ascii_singles():
    return [chr(i) for i in range(128)]


def all_escapes():
    """every %XY over a digit alphabet that covers valid/invalid/mixed-case shapes"""
    ds = "0123456789ABCDEFabcdefGg%/"
    return ["%" + a + b for a in ds for b in ds]


def all_byte_escapes():
    return ["%%%02X" % i for i in range(256)] + ["%%%02x" % i for i in range(256)]


UTF8_POOL = [
    "é", "€", "\U0001f600", "\u0080", "߿", "ࠀ", "￿", "\U00010000", "\U0010ffff",
    "\ud800", "\udfff", "\udc80", "\x00", "\x7f", "\x1f", "‮", " ", "İ",
]
ESC_RUNS = [
    "%C3%A9", "%c3%a9", "%E2%82%AC", "%F0%9F%98%80", "%C3", "%E2%82", "%F0%9F%98", "%C0%AF", "%ED%A0%80",
    "%F4%90%80%80", "%FF", "%80", "%C3%28", "%E2%28%A1", "%F0%28%8C%BC", "%EF%BF%BD", "%C3%A9%C3", "%E2%82%C3%A9",
    "%2F", "%2f", "%25", "%2B", "%26", "%3D", "%3B", "%3F", "%23", "%40", "%3A", "%20", "%2E", "%2e", "%00", "%7F",
    "%41", "%7E", "%7e", "%5B", "%5D", "%", "%%", "%2", "%G1", "%1G", "%zz", "%+1",
]
ASCII_POOL = [chr(i) for i in range(32, 127)]
DELIMS = list(":/?#[]@!$&'()*+,;=%")


def rand_text(rng, maxlen=12, weights=None):
    """component-ish text mixing literals, delimiters, escapes, non-ASCII, surrogates"""
    n = rng.randint(0, maxlen)
    out = []
    for _ in range(n):
        k = rng.random()
        if k < 0.30:
            out.append(rng.choice("abcxyzABCXYZ0123456789-._~"))
        elif k < 0.50:
            out.append(rng.choice(DELIMS))
        elif k < 0.72:
            out.append(rng.choice(ESC_RUNS))
        elif k < 0.84:
            out.append(rng.choice(UTF8_POOL))
        elif k < 0.92:
            out.append(rng.choice(ASCII_POOL))
        elif k < 0.96:
            out.append("%" + rng.choice("0123456789abcdefABCDEFgG") + rng.choice("0123456789abcdefABCDEFgG"))
        else:
            out.append(chr(rng.choice([rng.randint(0, 0x7F), rng.randint(0x80, 0x7FF), rng.randint(0x800, 0xFFFF), rng.randint(0x10000, 0x10FFFF)])))
    return "".join(out)


def length_layer(bufsize=8192, ks=(1, 2, 3)):
    """inputs whose output lands on k*bufsize-3 .. k*bufsize+3 for each expansion factor"""
    out = []
    for k in ks:
        for delta in range(-3, 4):
            n = k * bufsize + delta
            # factor 1: safe chars with one forced change at the start
            out.append(" " + "a" * max(0, n - 3))
            # factor 3: spaces -> %20
            out.append(" " * (n // 3) + "a" * (n % 3))
            # factor 6: two-byte chars
            out.append("é" * (n // 6) + "a" * (n % 6))
            # factor 9
            out.append("€" * (n // 9) + "a" * (n % 9))
            # factor 12
            out.append("\U0001f600" * (n // 12) + "a" * (n % 12))
            # escapes passing through
            out.append("%2F" * (n // 3) + "a" * (n % 3))
    # exactly ONE rewrite in the whole string, sitting on the growth boundary (nothing before it flags the output as changed):
    # the single-character rewrites (' ' -> '+', '%41' -> 'A') and the three-character ones, with and without a tail
    units = [" ", "%41", "%7E", "%7e", "é", "%zz", "%2f", "\udc80", "+", "%"]
    for k in ks:
        for delta in (-2, -1, 0, 1):
            n = k * bufsize + delta
            for i, u in enumerate(units):
                out.append("a" * n + u + ("b" if (i + delta) % 2 else ""))
    return out
