"""Shared machinery for every check: scratch copy of /repo (+ freshly compiled
extension), table regeneration, lake build/audit, running the real code and the
Lean driver on one op stream, known findings, evidence, verdict lines."""
import fcntl
import hashlib
import json
import os
import re
import shutil
import subprocess
import sys
import tempfile
import time

VERIF = os.path.dirname(os.path.dirname(os.path.abspath(__file__)))
LEAN = os.path.join(VERIF, "lean")
REPO = os.environ.get("VERIF_REPO", "/repo")
PY = "/venv/bin/python"
PYINC = "/root/.pyenv/versions/3.12.1/include/python3.12"
DRIVER = os.path.join(LEAN, ".lake", "build", "bin", "driver")
WORKER = os.path.join(VERIF, "harness", "worker.py")
LOCK = os.path.join(VERIF, ".build.lock")


class Infra(Exception):
    """infrastructure failure: exit 2, never a verdict"""


# ---------------------------------------------------------------- wire format
def enc(s):
    if s is None:
        return "~"
    return ".".join(format(ord(c), "x") for c in s)


def dec(f):
    if f == "~":
        return None
    if f == "":
        return ""
    return "".join(chr(int(x, 16)) for x in f.split("."))


def show(s):
    """printable form for replays / samples"""
    if s is None:
        return None
    return s.encode("unicode_escape").decode("ascii")


# ---------------------------------------------------------------- scratch copy
class Scratch:
    def __init__(self, repo=None):
        self.repo = repo or REPO
        self.dir = tempfile.mkdtemp(prefix="yarl-verif-")
        self.ext_ok = False
        self.ext_err = ""

    def build(self):
        src = os.path.join(self.repo, "yarl")
        dst = os.path.join(self.dir, "yarl")
        os.makedirs(dst)
        for fn in os.listdir(src):
            if fn.endswith((".py", ".pyx", ".pyi", ".typed")):
                shutil.copy2(os.path.join(src, fn), os.path.join(dst, fn))
        pyx = os.path.join(dst, "_quoting_c.pyx")
        if os.path.exists(pyx):
            c = os.path.join(dst, "_quoting_c.c")
            so = os.path.join(dst, "_quoting_c.cpython-312-x86_64-linux-gnu.so")
            r = subprocess.run([PY, "-m", "cython", "-3", "-o", c, pyx, "-I", dst], capture_output=True, text=True)
            if r.returncode != 0:
                self.ext_err = r.stderr[-2000:]
                return self
            r = subprocess.run(["gcc", "-shared", "-fPIC", "-O1", "-w", "-I", PYINC, "-o", so, c], capture_output=True, text=True)
            if r.returncode != 0:
                self.ext_err = r.stderr[-2000:]
                return self
            os.unlink(c)
            self.ext_ok = True
        return self

    def close(self):
        shutil.rmtree(self.dir, ignore_errors=True)

    def __enter__(self):
        return self.build()

    def __exit__(self, *a):
        self.close()


# ---------------------------------------------------------------- lean side
class BuildLock:
    def __enter__(self):
        self.f = open(LOCK, "w")
        fcntl.flock(self.f, fcntl.LOCK_EX)
        return self

    def __exit__(self, *a):
        fcntl.flock(self.f, fcntl.LOCK_UN)
        self.f.close()


def regenerate_tables(scratch):
    """Rewrite Generated.lean from the scratch copy. Returns (ok, changed, message)."""
    r = subprocess.run([PY, os.path.join(VERIF, "harness", "extract_tables.py"), scratch.dir],
                       capture_output=True, text=True)
    if r.returncode != 0:
        return False, False, (r.stderr or r.stdout)[-3000:]
    path = os.path.join(LEAN, "YarlModel", "Generated.lean")
    new = r.stdout
    old = open(path).read() if os.path.exists(path) else None
    if old != new:
        with open(path, "w") as f:
            f.write(new)
        return True, True, "regenerated (changed)"
    return True, False, "regenerated (unchanged)"


def lake(*targets, timeout=3000):
    t0 = time.time()
    r = subprocess.run(["lake", "build", *targets], cwd=LEAN, capture_output=True, text=True, timeout=timeout)
    return r.returncode == 0, (r.stdout + r.stderr), time.time() - t0


FORBIDDEN = re.compile(r"\b(sorry|admit|native_decide|bv_decide|implemented_by|unsafe def|unsafe )\b|^axiom\s|maxHeartbeats 0", re.M)
STD_AXIOMS = {"propext", "Classical.choice", "Quot.sound"}


def strip_comments(text):
    # remove /- ... -/ (nested not handled beyond one level) and -- comments
    text = re.sub(r"/-.*?-/", "", text, flags=re.S)
    text = re.sub(r"--.*", "", text)
    return text


def grep_forbidden():
    hits = []
    for base in ("YarlModel", "YarlProofs"):
        for root, _, files in os.walk(os.path.join(LEAN, base)):
            for fn in files:
                if fn.endswith(".lean"):
                    p = os.path.join(root, fn)
                    body = strip_comments(open(p).read())
                    body = re.sub(r'"[^"\n]*"', '""', body)
                    for m in FORBIDDEN.finditer(body):
                        hits.append(f"{os.path.relpath(p, LEAN)}: {m.group(0).strip()}")
    return hits


def property_theorems(pid):
    """names of the property theorems declared in YarlProofs/<pid>.lean"""
    names = []
    for p in property_files(pid):
        body = strip_comments(open(p).read())
        names += re.findall(r"^theorem\s+(" + pid + r"_[A-Za-z0-9_']+)", body, flags=re.M)
    return names


def property_files(pid):
    import glob
    return sorted(glob.glob(os.path.join(LEAN, "YarlProofs", f"{pid}*.lean")))


def property_modules(pid):
    return ["YarlProofs." + os.path.basename(p)[:-5] for p in property_files(pid)]


def audit(pid):
    """lake build the property's proof module, then `#print axioms` every property theorem.
    Returns dict(obligations, discharged, failed, axioms, log)."""
    names = property_theorems(pid)
    res = {"obligations": len(names), "discharged": 0, "failed": [], "axioms": {}, "log": "", "theorems": names}
    if not names:
        res["failed"] = [f"YarlProofs/{pid}.lean (no property theorems found)"]
        return res
    ok, log, secs = lake(*property_modules(pid))
    res["build_s"] = round(secs, 1)
    if not ok:
        res["log"] = log[-6000:]
        # which theorems failed: error lines carry file:line; map to theorem names
        res["failed"] = failed_theorems(pid, log) or names
        res["discharged"] = len([n for n in names if n not in res["failed"]])
        return res
    body = "\n".join(strip_comments(open(p).read()) for p in property_files(pid))
    nss = ["Yarl", "Yarl.Cache", "Yarl.Writer"]
    stack = []
    for m in re.finditer(r"^(namespace|end)\s+([A-Za-z0-9_.]+)", body, flags=re.M):
        if m.group(1) == "namespace":
            stack.append(m.group(2))
            full = ".".join(stack)
            for cand in (full, "Yarl." + full):
                if cand not in nss:
                    nss.append(cand)
        elif stack:
            stack.pop()
    src = "".join(f"import {m}\n" for m in property_modules(pid)) + "".join(f"open {ns}\n" for ns in nss if ns.startswith("Yarl")) + "\n".join(f"#print axioms {n}" for n in names) + "\n"
    r = subprocess.run(["lake", "env", "lean", "--stdin"], cwd=LEAN, input=src, capture_output=True, text=True, timeout=900)
    out = r.stdout + r.stderr
    for n in names:
        m = re.search(r"'(?:[A-Za-z0-9_]+\.)*" + re.escape(n) + r"' (depends on axioms: \[([^\]]*)\]|does not depend on any axioms)", out, flags=re.S)
        if not m:
            res["failed"].append(n)
            continue
        axs = set(x.strip() for x in (m.group(2) or "").replace("\n", " ").split(",") if x.strip())
        res["axioms"][n] = sorted(axs)
        if axs <= STD_AXIOMS:
            res["discharged"] += 1
        else:
            res["failed"].append(n)
    if res["failed"]:
        res["log"] = out[-4000:]
    return res


def failed_theorems(pid, log):
    """map `error: file:line:col` to the enclosing theorem in the property file or a lemma file"""
    failed = set()
    for m in re.finditer(r"error: (\S+\.lean):(\d+):\d+", log):
        path, line = os.path.join(LEAN, m.group(1)), int(m.group(2))
        try:
            lines = open(path).read().splitlines()
        except OSError:
            continue
        for i in range(min(line, len(lines)) - 1, -1, -1):
            mm = re.match(r"^(?:theorem|lemma|def|example|instance)\s+(\S+)", lines[i])
            if mm:
                failed.add(f"{os.path.basename(path)}:{mm.group(1)}")
                break
    return sorted(failed)


# ---------------------------------------------------------------- running both sides
def run_model(ops):
    """ops: list of tab-joined lines (str). Returns list of output lines."""
    if not os.path.exists(DRIVER):
        raise Infra("driver not built (run setup.sh)")
    data = "\n".join(ops) + "\n"
    r = subprocess.run([DRIVER], input=data, capture_output=True, text=True)
    if r.returncode != 0:
        raise Infra(f"driver crashed rc={r.returncode}: {r.stderr[-500:]}")
    out = r.stdout.split("\n")
    if out and out[-1] == "":
        out.pop()
    if len(out) != len(ops):
        raise Infra(f"driver produced {len(out)} lines for {len(ops)} ops")
    return out


_COV = [0]


def _cov_counter():
    _COV[0] += 1
    return _COV[0]


def run_impl(scratch, ops, backend="py", extra_env=None, timeout=3000):
    """Run the real code (scratch copy) on the op stream in a child interpreter."""
    env = dict(os.environ)
    env["PYTHONPATH"] = scratch.dir
    env["PYTHONDONTWRITEBYTECODE"] = "1"
    env["PYTHONHASHSEED"] = "0"
    if backend == "py":
        env["YARL_NO_EXTENSIONS"] = "1"
    else:
        env.pop("YARL_NO_EXTENSIONS", None)
    if extra_env:
        env.update(extra_env)
    data = "\n".join(ops) + "\n"
    cmd = [PY, WORKER, backend]
    covdir = os.environ.get("VERIF_COVERAGE")
    if covdir and backend == "py":
        # development aid (harness/covreport.py): line+branch coverage of the scratch copy's yarl/ under the op stream
        os.makedirs(covdir, exist_ok=True)
        cmd = [PY, "-m", "coverage", "run", "--branch", "--data-file=%s/cov.%d.%d" % (covdir, os.getpid(), _cov_counter()),
               "--include=%s/yarl/*" % scratch.dir, WORKER, backend]
    r = subprocess.run(cmd, input=data, capture_output=True, text=True, env=env, timeout=timeout)
    if r.returncode != 0:
        return None, f"worker({backend}) exited rc={r.returncode}: {r.stderr[-1500:]}"
    out = r.stdout.split("\n")
    if out and out[-1] == "":
        out.pop()
    if len(out) != len(ops):
        return None, f"worker({backend}) produced {len(out)} lines for {len(ops)} ops; stderr={r.stderr[-800:]}"
    return out, ""


def source_coverage(scratch, covdir):
    """combine the coverage data files written by run_impl (pure-Python backend) and summarise per source file"""
    import glob
    import coverage
    files = glob.glob(os.path.join(covdir, "cov.*"))
    if not files:
        return None
    out = os.path.join(covdir, "combined")
    cov = coverage.Coverage(data_file=out, branch=True)
    cov.combine(files, keep=True)
    cov.save()
    res = {}
    ts = tm = 0
    for fn in sorted(cov.get_data().measured_files()):
        if not fn.startswith(scratch.dir):
            continue
        an = cov._analyze(fn)
        ns, nm = len(an.statements), len(an.missing)
        ts += ns
        tm += nm
        res[os.path.relpath(fn, scratch.dir)] = {"statements": ns, "missed": nm, "missed_lines": sorted(an.missing)[:60]}
    res["total"] = {"statements": ts, "missed": tm, "percent": round(100.0 * (ts - tm) / max(1, ts), 1)}
    return res


# ---------------------------------------------------------------- known findings
def load_known(pid):
    path = os.path.join(VERIF, "KNOWN_FINDINGS.jsonl")
    out = []
    if os.path.exists(path):
        for line in open(path):
            line = line.strip()
            if not line or line.startswith("#"):
                continue
            rec = json.loads(line)
            if rec.get("property") == pid:
                out.append(rec)
    return out


# ---------------------------------------------------------------- evidence / verdict
def write_evidence(pid, tier, seed, coverage, assumptions, wall, violations):
    os.makedirs(os.path.join(VERIF, "evidence"), exist_ok=True)
    if coverage.get("discharged", 0) < 1:
        # keep the file valid for the proof level through the generic keys; the run is a violation anyway
        coverage["discharged_count"] = coverage.pop("discharged", 0)
        coverage["obligations_count"] = coverage.pop("obligations", 0)
    if ORACLE_CHECKS["idna_sane"] or ORACLE_CHECKS["idna_roundtrip"]:
        coverage["oracle_assumptions_checked"] = {
            "IdnaSaneAt": ORACLE_CHECKS["idna_sane"], "IdnaRoundTripAt": ORACLE_CHECKS["idna_roundtrip"],
            "outside_domain": ORACLE_CHECKS["failures"][:12], "outside_domain_count": len(ORACLE_CHECKS["failures"]),
            "note": "answers outside the assumption are outside the per-host Idn theorems only; the model/implementation comparison still covers them"}
    ev = {
        "property_id": pid,
        "tier": tier,
        "seed": seed,
        "level": "proof",
        "coverage": coverage,
        "assumptions": assumptions,
        "wall_s": round(wall, 2),
        "violations": violations,
    }
    with open(os.path.join(VERIF, "evidence", f"{pid}.json"), "w") as f:
        json.dump(ev, f, indent=1, ensure_ascii=True, default=str)


def write_replay(pid, payload):
    d = os.path.join(VERIF, "replays")
    os.makedirs(d, exist_ok=True)
    h = hashlib.sha1(json.dumps(payload, sort_keys=True, default=str).encode()).hexdigest()[:10]
    path = os.path.join(d, f"{pid}-{h}.json")
    with open(path, "w") as f:
        json.dump(payload, f, indent=1, ensure_ascii=True, default=str)
    return os.path.relpath(path, VERIF)


# ---------------------------------------------------------------- oracle table
def oracle_value(fn, arg):
    """External behaviour the model takes as a parameter, computed from the third-party /
    stdlib libraries directly (never through yarl)."""
    import unicodedata
    if fn == "nfkc":
        return enc(unicodedata.normalize("NFKC", arg))
    if fn == "idnaEnc":
        import idna
        try:
            return enc(idna.encode(arg, uts46=True).decode("ascii"))
        except UnicodeError:
            return "!"
    if fn == "idnaEncStd":
        try:
            return enc(arg.encode("idna").decode("ascii"))
        except UnicodeError:
            return "!"
    if fn == "idnaDec":
        import idna
        try:
            return enc(idna.decode(arg.encode("ascii")))
        except UnicodeError:
            return "!"
    if fn == "idnaDecStd":
        try:
            return enc(arg.encode("ascii").decode("idna"))
        except UnicodeError:
            return "!"
    if fn == "isDigitU":
        return "T" if arg.isdigit() else "F"
    if fn == "isPrintableU":
        return "T" if arg.isprintable() else "F"
    if fn == "intU":
        try:
            return str(int(arg))
        except ValueError:
            return "!"
    if fn == "lowerU":
        return enc(arg.lower())
    raise Infra("unknown oracle " + fn)


# Run-time check of the ASSUMPTIONS the IDN theorems make about the third-party oracles (C16Idn.lean):
#   IdnaAnswerSane a   : a is non-empty reg-name text (RFC 3986 unreserved / sub-delims without upper-case letters, or
#                        '%' + two lower-case hex digits)          [written from the RFC, not from yarl's NOT_REG_NAME]
#   IdnaRoundTripAt a  : an ASCII decoding of a is a itself; a non-ASCII decoding d encodes back to a
# Every answer the real libraries give during a run is checked and the outcome is recorded in the evidence.  An answer
# that is NOT sane (e.g. the stdlib codec maps U+FF0F to '/') only limits the DOMAIN of the Idn theorems, which are stated
# per host: yarl screens such answers itself (NOT_REG_NAME after IDNA for with_host / build(host=), the NFKC screen for
# the constructor / build(authority=)), the model has the same screens, and the differential run compares the two.
_SANE = re.compile(r"(?:[a-z0-9\-._~!$&'()*+,;=]|%[0-9a-f]{2})+\Z")
ORACLE_CHECKS = {"idna_sane": 0, "idna_roundtrip": 0, "failures": []}


def _idna_encode_like_yarl(host):
    import idna
    try:
        return idna.encode(host, uts46=True).decode("ascii")
    except UnicodeError:
        return host.encode("idna").decode("ascii").lower()


def check_oracle_assumption(fn, arg, val):
    if val == "!" or not fn.startswith("idna"):
        return
    try:
        a = dec(val)
        if fn in ("idnaEnc", "idnaEncStd"):
            ORACLE_CHECKS["idna_sane"] += 1
            txt = a.lower() if fn == "idnaEncStd" else a
            if not _SANE.match(txt):
                ORACLE_CHECKS["failures"].append({"assumption": "IdnaSaneAt", "oracle": fn, "host": ascii(arg), "answer": ascii(a)})
        elif fn in ("idnaDec", "idnaDecStd"):
            ORACLE_CHECKS["idna_roundtrip"] += 1
            if a.isascii():
                ok = a == arg
            else:
                try:
                    ok = _idna_encode_like_yarl(a) == arg
                except UnicodeError:
                    ok = False
            if not ok:
                ORACLE_CHECKS["failures"].append({"assumption": "IdnaRoundTripAt", "oracle": fn, "host": ascii(arg), "answer": ascii(a)})
    except Exception as e:  # never let the assumption check disturb the run
        ORACLE_CHECKS["failures"].append({"assumption": "check-error", "oracle": fn, "host": ascii(arg), "answer": repr(e)})


def run_model_with_oracles(ops, max_rounds=14):
    """Run the driver; answer `!O:<fn>:<arg>` misses by prepending `orc` lines and re-running.
    Returns (final ops incl. orc lines, outputs aligned with them, number of oracle entries)."""
    known = {}
    orc_lines = []
    for _ in range(max_rounds):
        full = orc_lines + ops
        out = run_model(full)
        new = False
        for r in out:
            if r.startswith("!O:"):
                _, fn, arg = r.split(":", 2)
                if (fn, arg) not in known:
                    known[(fn, arg)] = oracle_value(fn, dec(arg))
                    check_oracle_assumption(fn, dec(arg), known[(fn, arg)])
                    orc_lines.append(f"orc\t{fn}\t{arg}\t{known[(fn, arg)]}")
                    new = True
        if not new:
            return full, out, len(orc_lines)
    return full, out, len(orc_lines)
