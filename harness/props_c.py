"""Properties C15–C20: scope, generators, direct oracles."""
import itertools
import re

import gens
import urlgen
from core import dec, enc
from props import (HOSTS_ARG, MODS, TEXTS, Prop, Stream, View, describe_handle, fail, general_stream, obs_filter, pick, pretty_out,
                   quoter_stream, rand_build, rand_mod, register)
from props_b import dlist, dpairs, rfc_remove_dot_segments

# ------------------------------------------------------------------ C15
SEGS = [".", "..", "", "a", ".a", "a.", "%2E", "%2e%2E"]


def seg_sequences(maxlen):
    for n in range(maxlen + 1):
        for t in itertools.product(SEGS, repeat=n):
            yield list(t)


def has_dot_segment(path):
    return any(s in (".", "..") for s in path.split("/"))


def c15_oracle(full, io, b):
    out = []
    for n, o in enumerate(full):
        f = o.split("\t")
        if f[0] == "np" and not io[n].startswith("!"):
            src, res = dec(f[1]), dec(io[n])
            if src.startswith("/"):
                exp = rfc_remove_dot_segments(src)
                if res != exp:
                    out.append({"what": f"normalize_path({src!r}) = {res!r}; RFC 3986 5.2.4 remove_dot_segments gives {exp!r}", "class": "rds", "n": n, "input": repr(src)})
    v = View(full, io)
    taint = v.tainted()
    for h, n in enumerate(v.cr):
        if not v.alive(h) or h in taint:
            continue
        val = v.get(h, "val")
        if not val or not val.startswith("L5:"):
            continue
        p = dlist(val)
        f = full[n].split("\t")
        if p[1]:
            if has_dot_segment(p[2]):
                out.append(fail(v, h, "val", f"URL with authority {p[1]!r} keeps a dot segment in its path {p[2]!r}", "dot-under-authority"))
            elif p[2] and not p[2].startswith("/"):
                out.append(fail(v, h, "val", f"URL with authority {p[1]!r} has a rootless path {p[2]!r}", "rootless-under-authority"))
            elif f[0] == "new":
                # equals remove_dot_segments of the supplied path (escaped dots count)
                src = dec(f[3])
                m = re.match(r"^[a-z]+://[^/?#]*([^?#]*)", src)
                if m and re.fullmatch(r"[A-Za-z0-9._~/%\-]*", m.group(1)) and not re.search(r"%(?!2[Ee])", m.group(1)):
                    supplied = re.sub(r"%2[Ee]", ".", m.group(1))
                    exp = rfc_remove_dot_segments(supplied) if supplied else ""
                    if (p[2] or "") != exp:
                        out.append(fail(v, h, "val", f"path of URL({src!r}) is {p[2]!r}; remove_dot_segments({supplied!r}) = {exp!r}", "rds-entry"))
        elif f[0] == "new" and f[2] == "a":
            src = dec(f[3])
            m = re.match(r"^([A-Za-z0-9._~/\-]*)\Z", src)
            if m and not src.startswith("//") and p[2] != src:
                out.append(fail(v, h, "val", f"URL({src!r}) without authority changed its path to {p[2]!r}", "verbatim-without-authority"))
        # the other entry points: build, with_path, / and joinpath — "equals RFC 3986 5.2.4 remove_dot_segments applied to the
        # rooted path that was supplied or merged" (auto-encoding; arguments over plain characters, where the non-requoting
        # quoter only turns '%' into '%25')
        plain = re.compile(r"^[A-Za-z0-9._~/%\-]*\Z")
        supplied = None
        how = None
        if f[0] == "bld":
            kw = dict(a.partition("=")[::2] for a in f[2:])
            if "encoded" not in kw and "authority" not in kw and kw.get("host") and plain.match(dec(kw.get("path", ""))):
                supplied, how = dec(kw.get("path", "")).replace("%", "%25"), "build(path=%r)" % dec(kw.get("path", ""))
        elif f[0] == "mod" and f[3] == "with_path" and f[5] == "F" and v.alive(int(f[2])):
            arg = dec(f[4])
            bval = v.get(int(f[2]), "val")
            if plain.match(arg) and bval and bval.startswith("L5:") and dlist(bval)[1]:
                supplied, how = arg.replace("%", "%25"), "with_path(%r)" % arg
                if supplied and not supplied.startswith("/"):
                    supplied = "/" + supplied
        elif f[0] == "mod" and f[3] in ("truediv", "joinpath") and v.alive(int(f[2])) and (f[3] == "truediv" or f[4] == "F"):
            args = [dec(a) for a in (f[4:] if f[3] == "truediv" else f[5:])]
            bval = v.get(int(f[2]), "val")
            if args and all(plain.match(a) for a in args) and bval and bval.startswith("L5:") and dlist(bval)[1] and not has_dot_segment(dlist(bval)[2]) \
                    and not any(a.startswith("/") for a in args):
                bp = dlist(bval)[2]
                segs = bp.split("/") if bp else [""]
                if segs[-1] == "":
                    segs = segs[:-1]
                if not segs:
                    segs = [""]
                for i, a in enumerate(args):
                    sg = a.replace("%", "%25").split("/")
                    if i < len(args) - 1 and sg[-1] == "":
                        sg = sg[:-1]
                    segs += sg
                supplied, how = "/".join(segs), "%s(%s) on path %r" % (f[3], ", ".join(map(repr, args)), bp)
                if not supplied.startswith("/"):
                    supplied = None
        if supplied is not None and p[1] and not res_is_error(io[n]):
            exp = rfc_remove_dot_segments(supplied) if supplied else ""
            got = p[2] or ""
            if got != exp:
                cls = "rds-entry"
                if f[0] == "mod" and f[3] in ("truediv", "joinpath") and ((exp == "/" and got == "") or (exp.startswith("//") and got == exp[1:])):
                    cls = "rds-root-consumed"       # listed: a '..' that climbs above the root consumes the root marker
                out.append(fail(v, h, "val", f"{how}: stored path {got!r}; remove_dot_segments({supplied!r}) = {exp!r}", cls))
    return out


def res_is_error(r):
    return r is None or r.startswith("!")


C15_OBS = ["val", "raw_path", "raw_parts"]


def c15_streams(rng, tier, budget):
    st = Stream()
    maxlen = 4 if tier == "quick" else 5
    for seq in seg_sequences(maxlen):
        st.add("np\t" + enc("/" + "/".join(seq)))
    for seq in seg_sequences(3):
        st.add("np\t" + enc("/".join(seq)))
    yield "normalize-exhaustive", st
    st2 = Stream()
    seqs = list(seg_sequences(3 if tier == "quick" else 4))
    base = st2.new("http://h/x/y")
    base2 = st2.new("http://h/x/y/")
    rel = st2.new("/x/y")
    base3 = st2.new("http://h")
    base4 = st2.new("http://h/")
    for bh in (base, base2, rel, base3, base4):
        st2.obs_all(bh, C15_OBS)
    for seq in seqs:
        p = "/" + "/".join(seq)
        st2.obs_all(st2.new("http://h" + p), C15_OBS)
        st2.obs_all(st2.new(p), C15_OBS)
        st2.obs_all(st2.build(scheme="http", host="h", path=p), C15_OBS)
        st2.obs_all(st2.mod(base, "with_path", enc(p), "F", "F", "F"), C15_OBS)
        st2.obs_all(st2.mod(base, "with_path", enc("/".join(seq)), "F", "T", "F"), C15_OBS)       # rootless argument
        st2.obs_all(st2.build(scheme="http", path="/".join(seq)), C15_OBS)                         # no authority: verbatim
        if seq:
            st2.obs_all(st2.mod(base, "joinpath", "F", *[enc(s) for s in seq]), C15_OBS)
            st2.obs_all(st2.mod(base2, "truediv", enc("/".join(seq))), C15_OBS)
            st2.obs_all(st2.mod(rel, "joinpath", "F", *[enc(s) for s in seq]), C15_OBS)
            st2.obs_all(st2.mod(base3, "joinpath", "F", *[enc(s) for s in seq]), C15_OBS)          # empty base path: '..' climbs above the root
            st2.obs_all(st2.mod(base4, "joinpath", "T", *[enc(s) for s in seq]), C15_OBS)
            if seq[0] != "":
                st2.obs_all(st2.mod(base3, "truediv", enc("/".join(seq))), C15_OBS)                   # one argument with inner empty segments
                st2.obs_all(st2.mod(base4, "truediv", enc("/".join(seq))), C15_OBS)
                bx = st2.new("http://h/x")
                st2.obs_all(bx, ["val"])
                st2.obs_all(st2.mod(bx, "truediv", enc("../" + "/".join(seq))), C15_OBS)
            r = st2.new("/".join(seq))
            st2.obs_all(st2.join(base, r), C15_OBS)
            # every base shape of RFC 3986 5.2.3: last segment replaced, trailing slash, EMPTY base path under an authority ("/" + reference),
            # root only; and a rooted reference
            for bh in (base2, base3, base4):
                st2.obs_all(st2.join(bh, r), C15_OBS)
            st2.obs_all(st2.join(base3, st2.new("/" + "/".join(seq))), C15_OBS)
    for _ in range(int((100 if tier == "quick" else 1500) * budget)):
        seq = [pick(rng, SEGS + ["b", "c.d", "..."]) for _ in range(rng.randint(5, 12))]
        p = "/" + "/".join(seq)
        st2.add("np\t" + enc(p))
        st2.obs_all(st2.new("http://h" + p), C15_OBS)
    yield "entry-points", st2


register(Prop("C15", c15_streams, compare=obs_filter(C15_OBS), oracle=c15_oracle))


# ------------------------------------------------------------------ C16
C16_OBS = ["raw_host", "host", "host_subcomponent", "host_port_subcomponent", "str", "val"]
REGNAME_OK = re.compile(r"^(?:[a-z0-9\-._~!$&'()*+,;=]|%[0-9a-f]{2})*\Z")


def c16_oracle(full, io, b):
    import ipaddress
    out = []
    v = View(full, io)
    taint = v.tainted()
    for n, o in enumerate(full):
        f = o.split("\t")
        if f[0] == "eh" and not io[n].startswith("!"):
            src, res = dec(f[1]), dec(io[n])
            body, sep, zone = res.strip("[]").partition("%") if (":" in res or res[-1:].isdigit()) else (res, "", "")
            low = body if sep else res
            if low != low.lower() or not all(ord(c) < 128 for c in low):
                out.append({"what": f"_encode_host({src!r}) = {res!r} is not lower-case ASCII", "class": "host-not-lower", "n": n, "input": repr(src)})
            if f[2] == "T":
                zone_free = res.strip("[]").partition("%")[0] if _is_ip(res.strip("[]").partition("%")[0]) else res
                if not _is_ip(zone_free) and not REGNAME_OK.match(res):
                    out.append({"what": f"_encode_host({src!r}, validate_host=True) accepted {res!r}, which is outside the reg-name grammar", "class": "host-validation",
                                "n": n, "input": repr(src)})
                elif _is_ip(zone_free) and "%" in res and re.search(r"[/?#@\[\]:\s]", res.strip("[]").partition("%")[2]):
                    out.append({"what": f"_encode_host({src!r}, validate_host=True) accepted the zone id {res.strip('[]').partition('%')[2]!r} containing a delimiter",
                                "class": "host-zone-injection", "n": n, "input": repr(src)})
    for h, n in enumerate(v.cr):
        if not v.alive(h) or h in taint:
            continue
        rh, hs, hps, s = (v.get(h, x) for x in ("raw_host", "host_subcomponent", "host_port_subcomponent", "str"))
        if rh is None or rh.startswith("!") or rh == "~":
            continue
        raw = dec(rh)
        body, sep, zone = raw.partition("%") if (":" in raw) else (raw, "", "")
        chk = body
        if chk != chk.lower() or not all(ord(c) < 128 for c in chk):
            out.append(fail(v, h, "raw_host", f"raw_host {raw!r} is not lower-case ASCII", "host-not-lower"))
        if ":" in raw:
            try:
                ip = ipaddress.ip_address(body)
                if ip.version == 6 and ip.compressed != body:
                    out.append(fail(v, h, "raw_host", f"IPv6 host {body!r} is not in compressed form {ip.compressed!r}", "ipv6-not-compressed"))
            except ValueError:
                continue          # not a valid IPv6 literal: outside this clause of the property
            for nm, val in (("host_subcomponent", hs), ("host_port_subcomponent", hps)):
                if val and not val.startswith("!") and val != "~" and not dec(val).startswith("[" + raw + "]"):
                    out.append(fail(v, h, nm, f"{nm} = {dec(val)!r} does not bracket the IPv6 host {raw!r}", "ipv6-brackets"))
            if s and not s.startswith("!") and ("[" + raw + "]") not in dec(s):
                out.append(fail(v, h, "str", f"str(url) = {dec(s)!r} does not bracket the IPv6 host {raw!r}", "ipv6-brackets"))
        f = full[n].split("\t")
        if f[0] == "hre":
            src = int(f[2])
            a, c, d = v.get(src, "raw_host"), v.get(h, "raw_host"), v.get(src, "host")
            if a is not None and c is not None and not a.startswith("!") and not c.startswith("!") and a != c:
                out.append(fail(v, h, "raw_host", f"the decoded host {pretty_out(d)} re-encodes to raw_host {pretty_out(c)}, the URL it was read from has raw_host {pretty_out(a)}",
                                "host-reencode", also=[v.n_of(src, "raw_host")]))
            continue
        # hostile hosts through build()/with_host()
        arg = None
        if f[0] == "mod" and f[3] == "with_host":
            arg = dec(f[4])
        elif f[0] == "bld":
            for a in f[2:]:
                if a.startswith("host="):
                    arg = dec(a[5:])
            if any(a.startswith("authority=") and len(a) > 10 for a in f[2:]):
                arg = None
        if arg:
            ipb = raw.partition("%")[0]
            if _is_ip(ipb):
                if "%" in raw and re.search(r"[/?#@\[\]:\s]", raw.partition("%")[2]):
                    out.append(fail(v, h, "raw_host", f"host argument {arg!r} accepted: zone id {raw.partition('%')[2]!r} contains a delimiter", "host-zone-injection"))
            elif not REGNAME_OK.match(raw):
                cls = "host-validation"
                val = v.get(h, "val")
                if val and val.startswith("L5:") and "%" in arg and _is_ip(arg.partition("%")[0]):
                    cls = "host-zone-injection"
                out.append(fail(v, h, "raw_host", f"host argument {arg!r} accepted although {raw!r} is outside the reg-name grammar", cls))
    # "encoding is idempotent": the string form of an accepted URL parses again, to the same raw host
    for h, n in enumerate(v.cr):
        f = full[n].split("\t")
        if f[0] != "rt":
            continue
        src = int(f[2])
        if not v.alive(src) or src in taint:
            continue
        a, sv = v.get(src, "raw_host"), v.get(src, "str")
        if a is None or a.startswith("!") or sv is None or sv.startswith("!"):
            continue
        ad = None if a == "~" else dec(a)
        if ad is None or "[" in ad or "]" in ad or ad == "":
            continue          # no host / the malformed-bracket and empty-host families (listed for C03 / C09)
        if not v.alive(h):
            out.append(fail(v, src, "str", f"str(url) = {dec(sv)!r} (raw_host {ad!r}) is rejected when parsed again", "host-reparse"))
            continue
        c = v.get(h, "raw_host")
        if c is not None and not c.startswith("!") and c != a:
            out.append(fail(v, h, "raw_host", f"str(url) = {dec(sv)!r} parses back with raw_host {pretty_out(c)}, the URL had {pretty_out(a)}", "host-reparse", also=[v.n_of(src, "raw_host")]))
    return out


def _is_ip(s):
    import ipaddress
    try:
        ipaddress.ip_address(s)
        return True
    except ValueError:
        return False


def c16_streams(rng, tier, budget):
    st = Stream()
    for c in range(128):
        for tmpl in ("a%sb", "%s", "a%s"):
            s = tmpl % chr(c)
            st.add("eh\t%s\tT" % enc(s))
            st.add("eh\t%s\tF" % enc(s))
    for hst in HOSTS_ARG + urlgen.IPV6 + ["A.B", "É.com", "xn--TDA.com", "1.2.3.4%@evil.com:80", "::1%x]@e:80", "1.2.3.4%/../x", "fe80::1%eth0", "FE80::1%ETH0", "1.2.3.4%z"]:
        st.add("eh\t%s\tT" % enc(hst))
        st.add("eh\t%s\tF" % enc(hst))
    yield "encode-host", st
    st2 = Stream()
    base = st2.new("http://u:p@example.com:8080/p?q#f")
    allh = HOSTS_ARG + ["1.2.3.4%@evil.com:80", "::1%x]@e:80", "1.2.3.4%/../x?y#5", "fe80::1%eth0", "A.b", "a%41", "a%4g"]
    for c in range(128):
        allh.append("a" + chr(c) + "b")
    extra = int((60 if tier == "quick" else 1000) * budget)
    for hst in allh:
        st2.obs_all(st2.mod(base, "with_host", enc(hst)), C16_OBS)
        st2.obs_all(st2.build(scheme="http", host=hst, path="/"), C16_OBS)
        if "/" not in hst and "?" not in hst and "#" not in hst:
            h = st2.new("http://" + (("[" + hst + "]") if (":" in hst and not hst.startswith("[")) else hst) + "/")
            st2.obs_all(h, C16_OBS)
            r = st2.rt(h)
            st2.obs_all(r, ["raw_host", "str"])
            # "the decoded host re-encodes to the same raw host": u.with_host(u.host)
            st2.obs_all(h, ["host"])
            k = st2.hre(h)
            st2.obs_all(k, ["raw_host", "host"])
            st2.add("tag\thre\t%d\t%d" % (k, h))
    # brackets in the USERINFO (they pass the bracket screen when they look like an IP-literal) in front of a host that is no IPv6 literal:
    # whether the host gets brackets must be decided by the host part alone
    for s0 in ["http://[::1]@Example.COM/", "http://u:[v1.x]@bücher.de/", "http://[a:b]@127.0.0.1/", "http://[::1]@[::2]/", "http://[v1.x]@h:81/p", "http://u:[::1]@[v1.y]/",
               "http://[::1]:[::2]@example.com:8080/"]:
        h = st2.new(s0)
        st2.obs_all(h, C16_OBS)
        st2.obs_all(st2.rt(h), ["raw_host", "str", "val"])
        st2.obs_all(st2.pkl(h), ["raw_host", "host_subcomponent"])
    for v6 in ["::1", "2001:db8::1", "fe80::1%eth0", "FE80::1%Eth0", "1:2:3:4:5:6:7:8", "::ffff:1.2.3.4"]:
        for sc, dp in (("http", 80), ("https", 443), ("ws", 80), ("ftp", 21), ("x", None)):
            for ui in ("", "u@", "u:p@"):
                for pt in ("", ":%d" % dp if dp else ":1", ":8080", ":0"):
                    h = st2.new("%s://%s[%s]%s/p" % (sc, ui, v6, pt))
                    st2.obs_all(h, C16_OBS)
                    st2.obs_all(st2.rt(h), ["raw_host", "str"])
    for _ in range(extra):
        st2.obs_all(st2.new(urlgen.rand_url_string(rng)), C16_OBS)
    yield "hosts", st2


def c16_extra(scratch, rng, tier, budget):
    import extras
    return extras.run_nfkc(scratch)


register(Prop("C16", c16_streams, compare=obs_filter(C16_OBS), oracle=c16_oracle, extra=c16_extra,
              assumptions=["IDNA (idna package, stdlib codec) and NFKC (unicodedata) are oracle tables; the NFKC screen is checked exhaustively over all code points (enumeration, not proof)",
                           "ipaddress (CPython 3.12) is modelled by hand in Host.lean, tied by correspondence"]))


# ------------------------------------------------------------------ C17
C17_OBS = ["scheme", "port", "explicit_port", "is_default_port", "host_port_subcomponent", "str", "raw_host"]
DEFAULTS = {"http": 80, "https": 443, "ws": 80, "wss": 443, "ftp": 21}


def c17_oracle(full, io, b):
    out = []
    v = View(full, io)
    for h, n in enumerate(v.cr):
        f = full[n].split("\t")
        res = io[n]
        # routes with a known intended port
        intended = "?"
        scheme = None
        if f[0] == "tag":
            continue
        meta = None
        if f[0] == "new" and f[2] == "a":
            m = re.match(r"^([a-z]+)://([a-z0-9.\[\]:]*?)(?::(-?[0-9]*))?(/.*)?\Z", dec(f[3]))
            if m and re.match(r"^(?:[a-z0-9.]+|\[[0-9a-f:]+\])\Z", m.group(2) or ""):
                scheme = m.group(1)
                meta = m.group(3)
                intended = None if meta in (None, "") else int(meta)
        elif f[0] == "mod" and f[3] == "with_port" and f[4] not in ("T", "X", "Z") and not f[4].startswith("D"):
            src = int(f[2])
            sch = v.get(src, "scheme") if False else None
            intended = None if f[4] == "~" else int(f[4])
            sv = v.get(src, "str")
            if sv and not sv.startswith("!"):
                scheme = dec(sv).partition(":")[0]
            if not v.alive(src) or (v.get(src, "raw_host") in (None, "~")):
                intended = "?"
        elif f[0] == "mod" and f[3] == "with_port":
            if res.startswith("#"):
                out.append({"what": f"with_port({ {'T': 'True', 'Z': 'False', 'X': repr('80')}.get(f[4], f[4][1:] + '.0') }) accepted a bool / non-integer port", "class": "port-accept", "n": n, "input": describe_handle(full, h)})
            continue
        elif f[0] == "bld":
            kw = dict(a.partition("=")[::2] for a in f[2:])
            if "authority" not in kw and kw.get("host") and "encoded" not in kw and re.match(r"^[a-z0-9.]+\Z", dec(kw["host"])) and not kw.get("path"):
                scheme = dec(kw.get("scheme", "")).lower()          # build() stores the scheme lower-case (fix e21485a)
                pv = kw.get("port", "~")
                if pv in ("T", "X"):
                    if res.startswith("#"):
                        out.append({"what": f"build(port={pv}) accepted a non-integer port", "class": "port-accept", "n": n, "input": describe_handle(full, h)})
                    continue
                intended = None if pv == "~" else int(pv)
                if intended is not None and DEFAULTS.get(scheme) == intended:
                    intended = "default-dropped"
        if intended == "?":
            continue
        if isinstance(intended, int) and not (0 <= intended <= 65535):
            if res.startswith("#"):
                out.append({"what": f"out-of-range port {intended} accepted", "class": "port-accept", "n": n, "input": describe_handle(full, h)})
            elif res != "!V":
                out.append({"what": f"out-of-range port {intended} raised {res} (ValueError expected)", "class": "port-error-kind", "n": n, "input": describe_handle(full, h)})
            continue
        if not v.alive(h):
            continue
        ep, pt, idp, hps, s = (v.get(h, x) for x in ("explicit_port", "port", "is_default_port", "host_port_subcomponent", "str"))
        if None in (ep, pt, idp, hps, s):
            continue
        if any(x.startswith("!") for x in (ep, pt, idp, hps, s)):
            out.append(fail(v, h, "str", f"a URL with a valid port cannot be observed: {[ep, pt, idp, hps, s]}", "port-observe"))
            continue
        dflt = DEFAULTS.get(scheme)
        if intended == "default-dropped":
            exp_ep = None
        else:
            exp_ep = intended
        got_ep = None if ep == "~" else int(ep[1:])
        if got_ep != exp_ep:
            out.append(fail(v, h, "explicit_port", f"explicit_port = {got_ep}, written port {exp_ep}", "explicit-port"))
            continue
        exp_port = exp_ep if exp_ep is not None else dflt
        if (None if pt == "~" else int(pt[1:])) != exp_port:
            out.append(fail(v, h, "port", f"port = {pt}, expected {exp_port} (explicit {exp_ep}, scheme default {dflt})", "port-fallback"))
        exp_default = True if exp_ep is None else (exp_ep == dflt)
        if (idp == "T") != exp_default:
            out.append(fail(v, h, "is_default_port", f"is_default_port() = {idp}, explicit {exp_ep}, scheme default {dflt}", "is-default-port"))
        shown = re.search(r":(\d+)\Z", dec(hps))
        exp_shown = None if exp_default else exp_ep
        if (int(shown.group(1)) if shown else None) != exp_shown:
            out.append(fail(v, h, "host_port_subcomponent", f"host_port_subcomponent = {dec(hps)!r}, expected port shown = {exp_shown}", "port-shown"))
        rh = v.get(h, "raw_host")
        if rh and rh != "~" and not rh.startswith("!") and ":" in dec(rh) and ("[" + dec(rh) + "]") not in dec(s):
            out.append(fail(v, h, "str", f"str(url) = {dec(s)!r} writes the IPv6 host {dec(rh)!r} without brackets (port {exp_ep}, scheme default {dflt})", "port-shown"))
            continue
        m = re.match(r"^[a-z][a-z0-9+.\-]*://([^/?#]*)", dec(s))
        shown_s = "?"
        if m:
            hp = m.group(1).rpartition("@")[2]
            rest = hp.partition("]")[2] if hp.startswith("[") else hp[len(hp.partition(":")[0]):]
            shown_s = int(rest[1:]) if rest.startswith(":") and rest[1:].isdigit() else (None if rest == "" else "?")
        if m and shown_s != "?" and shown_s != exp_shown:
            out.append(fail(v, h, "str", f"str(url) = {dec(s)!r}, expected port shown = {exp_shown}", "port-shown"))
    # internal consistency of EVERY live URL, however it was produced (with_scheme, with_host, /, join, pickle …): the port
    # observables are functions of (scheme, explicit_port, has-authority) alone
    flagged = {f_.get("n") for f_ in out}
    for h in range(len(v.cr)):
        if not v.alive(h):
            continue
        sc, ep, pt, idp, hps, rh = (v.get(h, x) for x in ("scheme", "explicit_port", "port", "is_default_port", "host_port_subcomponent", "raw_host"))
        if None in (sc, ep, pt) or any(x.startswith("!") for x in (sc, ep, pt)):
            continue
        scheme = dec(sc)
        e_ = None if ep == "~" else int(ep[1:])
        p_ = None if pt == "~" else int(pt[1:])
        dflt = DEFAULTS.get(scheme)
        if e_ is not None and not (0 <= e_ <= 65535):
            out.append(fail(v, h, "explicit_port", f"explicit_port = {e_} is outside 0-65535", "explicit-port"))
            continue
        want = e_ if e_ is not None else dflt
        if p_ != want and v.n_of(h, "port") not in flagged:
            out.append(fail(v, h, "port", f"port = {p_} but explicit_port = {e_} and the default of scheme {scheme!r} is {dflt}: expected {want}", "port-fallback",
                            also=[v.n_of(h, "explicit_port"), v.n_of(h, "scheme")]))
            continue
        has_auth = rh is not None and rh != "~" and not rh.startswith("!")
        if has_auth and dec(rh) == "":
            # an empty host: either no valid host at all, or an authority made of '@' / ':' only that normalises to NOTHING while the constructor
            # pre-computes raw_host '' (the listed F-C09 / F-C03-empty-authority family) — outside "the port written in the URL"
            continue
        if idp in ("T", "F") and has_auth:
            exp_default = True if e_ is None else (e_ == dflt)
            if (idp == "T") != exp_default and v.n_of(h, "is_default_port") not in flagged:
                out.append(fail(v, h, "is_default_port", f"is_default_port() = {idp} but explicit_port = {e_}, scheme default {dflt}", "is-default-port"))
                continue
        sv = v.get(h, "str")
        if sv is not None and not sv.startswith("!") and has_auth and dec(rh) and idp in ("T", "F"):
            m = re.match(r"^[A-Za-z][A-Za-z0-9+.\-]*://([^/?#]*)", dec(sv))
            if m:
                hp = m.group(1).rpartition("@")[2]
                if ("[" in hp or "]" in hp) and not re.fullmatch(r"\[[^\[\]]*\](:[^\[\]]*)?", hp):
                    continue          # malformed brackets (the listed C03 / C09 / C11 finding): where the port text sits cannot be read off the string
                rest = hp.partition("]")[2] if hp.startswith("[") else hp[len(hp.partition(":")[0]):]
                exp_shown = None if (e_ is None or e_ == dflt) else e_
                def _pv(t):
                    try:
                        return int(t)          # the port TEXT may be any spelling int() accepts (encoded=True keeps it as written)
                    except ValueError:
                        return "?"
                # an EMPTY port text ("h:", kept as written by encoded=True) is "no port written"
                ok = (rest in ("", ":") and exp_shown is None) or (rest.startswith(":") and exp_shown is not None and _pv(rest[1:]) == exp_shown)
                if not ok and v.n_of(h, "str") not in flagged:
                    out.append(fail(v, h, "str", f"str(url) = {dec(sv)!r} writes the port as {rest!r} but explicit_port = {e_}, scheme default {dflt}: expected {'no port' if exp_shown is None else ':%d' % exp_shown}",
                                    "port-shown", also=[v.n_of(h, "explicit_port"), v.n_of(h, "scheme")]))
                    continue
        if hps is not None and hps != "~" and not hps.startswith("!") and has_auth and dec(rh):
            shown = re.search(r":(\d+)\Z", dec(hps).rpartition("]")[2] if "]" in dec(hps) else (dec(hps) if ":" in dec(hps) else ""))
            exp_shown = None if (e_ is None or e_ == dflt) else e_
            if (int(shown.group(1)) if shown else None) != exp_shown and v.n_of(h, "host_port_subcomponent") not in flagged:
                out.append(fail(v, h, "host_port_subcomponent", f"host_port_subcomponent = {dec(hps)!r} but explicit_port = {e_}, scheme default {dflt}: expected port shown = {exp_shown}",
                                "port-shown", also=[v.n_of(h, "explicit_port"), v.n_of(h, "scheme")]))
    # "the port written": a derivation that takes no port argument neither writes nor removes one — explicit_port of the result is
    # explicit_port of the URL it was derived from (origin() strips the userinfo only; with_scheme keeps a written port as it is)
    flagged = {f_.get("n") for f_ in out}
    for h, n in enumerate(v.cr):
        f = full[n].split("\t")
        if f[0] != "mod" or f[3] in ("with_port", "relative") or not v.alive(h):
            continue
        src = int(f[2])
        if not v.alive(src):
            continue
        a, c = v.get(src, "explicit_port"), v.get(h, "explicit_port")
        if a is None or c is None or a.startswith("!") or c.startswith("!") or a == c or v.n_of(h, "explicit_port") in flagged:
            continue
        cls = "explicit-port-derived"
        root = src
        for _ in range(8):                  # walk up to the string the chain started from
            cf = v.creator_fields(root)
            if cf[0] in ("mod", "rt", "hr", "hre") and len(cf) > 2 and cf[2].isdigit():
                root = int(cf[2])
            else:
                break
        cf = v.creator_fields(root)
        if cf[0] == "new":
            m0 = re.match(r"^[^/?#]*?//([^/?#]*)", dec(cf[3]).lstrip("".join(chr(i) for i in range(33))).replace("\t", "").replace("\n", "").replace("\r", ""))
            hostinfo = (m0.group(1) if m0 else "").rpartition("@")[2]
            if ("[" in hostinfo or "]" in hostinfo) and not re.match(r"^\[[^\[\]]*\](:[^\[\]]*)?\Z", hostinfo):
                cls = "malformed-brackets"  # same root as F-C03 / F-C09 / F-C11-bracket: the pre-computed split is not the split of the stored authority
        out.append(fail(v, h, "explicit_port", f"{f[3]}() changed the written port: explicit_port {pretty_out(a)} -> {pretty_out(c)}", cls,
                        also=[v.n_of(src, "explicit_port")]))
    return out


def c17_streams(rng, tier, budget):
    st = Stream()
    schemes = ["http", "https", "ws", "wss", "ftp", "x", "file"]
    ports = [None, -1, 0, 1, 20, 21, 22, 79, 80, 81, 442, 443, 444, 8080, 65534, 65535, 65536, 99999]
    hosts = ["h", "1.2.3.4", "[::1]"]
    for sc in schemes:
        for p in ports:
            for hst in hosts:
                ps = "" if p is None else ":%d" % p
                h = st.new(f"{sc}://{hst}{ps}/")
                st.obs_all(h, C17_OBS)
                # the routes that keep the authority as written and validate nothing at construction: the range check happens when a port view
                # is first read (ValueError there), never "a port of 65536"
                st.obs_all(st.new(f"{sc}://{hst}{ps}/", encoded=True), C17_OBS)
                if sc in ("http", "x"):
                    st.obs_all(st.build(scheme=sc, authority=f"u@{hst}{ps}", encoded=True), C17_OBS)
                if p is None or 0 <= p:
                    st.obs_all(st.build(scheme=sc, host=hst.strip("[]"), port=p), C17_OBS)
            base = st.new(f"{sc}://h:1234/p")
            st.obs_all(base, C17_OBS)
            st.obs_all(st.mod(base, "with_port", "~" if p is None else str(p)), C17_OBS)
        base = st.new(f"{sc}://h/p")
        for pv in ("T", "X"):
            st.obs_all(st.mod(base, "with_port", pv), C17_OBS)
        # invalid arguments that are numerically EQUAL to the port already written
        for cur, pv in ((1, "T"), (0, "Z"), (80, "D80"), (21, "D21"), (65535, "D65535"), (8080, "D8080")):
            b2 = st.new(f"{sc}://h:{cur}/p")
            st.obs_all(st.mod(b2, "with_port", pv), C17_OBS)
        st.obs_all(st.build(scheme=sc, host="h", port=True), C17_OBS)
        st.obs_all(st.build(scheme=sc, host="h", port="80"), C17_OBS)
    for s in ["http://h:", "http://h:+1", "http://h:1_0", "http://h: 80", "http://h:٣", "http://h:abc", "http://h:0x50", "http://h:080", "http://h:80:80", "//h:0", "http://[::1]:"]:
        st.obs_all(st.new(s), C17_OBS)
    # the port TEXTS int() accepts beyond plain digits, equal to the scheme default or not, kept as written by encoded=True and then carried
    # through derivations: every port view decides by the integer value, not by the text
    for sc, dp in (("http", 80), ("https", 443), ("ftp", 21), ("x", None)):
        for txt in ("080", "00080", "+80", " 80", "80 ", "8_0", "0443", "+443", "021", "0", "00", "+0", "8080", "08080"):
            for hst in ("h", "[::1]", "u@h"):
                for encd in (True, False):
                    h = st.new(f"{sc}://{hst}:{txt}/p", encoded=encd)
                    st.obs_all(h, C17_OBS)
                    if txt in ("080", "0443", "+80", "021"):
                        for d in (st.mod(h, "with_scheme", enc("https" if sc != "https" else "http")), st.mod(h, "truediv", enc("c")), st.mod(h, "with_fragment", enc("f")), st.pkl(h)):
                            st.obs_all(d, C17_OBS)
    yield "port-matrix", st
    # URLs DERIVED from one with a written port (origin, with_host, with_user, /, join, pickle, parent …) are parsed lazily: the
    # port observables are read in both orders (port first / port last), because a value cached by one accessor can mask or
    # poison another
    st2 = Stream()
    rev = list(reversed(C17_OBS))
    for sc in ("http", "https", "ftp", "x"):
        for p in (0, 1, 80, 443, 21, 8080, 65535):
            for hst in ("h", "[::1]"):
                base = st2.new(f"{sc}://u:pw@{hst}:{p}/a/b?q#f")
                derived = [st2.mod(base, "origin"), st2.mod(base, "with_host", enc("other.example")), st2.mod(base, "with_user", enc("n")), st2.mod(base, "with_password", "~"),
                           st2.mod(base, "truediv", enc("c")), st2.mod(base, "parent"), st2.mod(base, "with_path", enc("/z"), "F", "F", "F"), st2.mod(base, "with_query", "S" + enc("k=v")),
                           st2.mod(base, "with_fragment", "~"), st2.mod(base, "with_scheme", enc("http" if sc != "http" else "https")), st2.join(base, st2.new("../x")), st2.pkl(base),
                           st2.mod(st2.new(f"{sc}://{hst}/p"), "with_port", str(p)), st2.build(scheme=sc, host=hst.strip("[]"), port=p)]
                for i, d in enumerate(derived):
                    st2.obs_all(d, C17_OBS if (i + p) % 2 == 0 else rev)
                # the same derivations again (shared objects through the constructor caches), read in the opposite order
                again = [st2.mod(base, "origin"), st2.mod(base, "truediv", enc("c")), st2.mod(base, "with_user", enc("n"))]
                for i, d in enumerate(again):
                    st2.obs_all(d, rev if (i + p) % 2 == 0 else C17_OBS)
    # NO port written: a derivation that rebuilds the authority (origin strips the userinfo, with_user / with_password / with_host
    # re-assemble it) must not WRITE the scheme's default port into the result — visible through explicit_port / raw_authority, and
    # after a scheme switch through port / is_default_port()
    for sc in ("http", "https", "ws", "wss", "ftp", "x"):
        other = {"http": "https", "https": "http", "ws": "wss", "wss": "ws", "ftp": "http", "x": "http"}[sc]
        for hst in ("h", "[::1]", "1.2.3.4"):
            for ui in ("", "u@", "u:pw@", ":pw@"):
                base = st2.new(f"{sc}://{ui}{hst}/a?q#f")
                derived = [st2.mod(base, "origin"), st2.mod(base, "with_user", "~"), st2.mod(base, "with_user", enc("n")), st2.mod(base, "with_password", "~"),
                           st2.mod(base, "with_password", enc("w")), st2.mod(base, "with_host", enc("o.example")), st2.mod(base, "with_port", "~")]
                derived += [st2.mod(d, "with_scheme", enc(other)) for d in derived[:3]]
                derived.append(st2.mod(derived[0], "origin"))
                for i, d in enumerate(derived):
                    st2.obs_all(d, C17_OBS if i % 2 == 0 else rev)
                    st2.obs_all(d, ["raw_authority", "val"])
    yield "derived-both-orders", st2
    yield "random", general_stream(rng, int((80 if tier == "quick" else 1500) * budget), C17_OBS, mods=["with_port", "with_scheme", "with_host", "origin"], with_join=False)


register(Prop("C17", c17_streams, compare=lambda op: not op.startswith("tag") and obs_filter(C17_OBS)(op), oracle=c17_oracle,
              assumptions=["int() leniency ('+1', '1_0', surrounding whitespace, non-ASCII digits) is Python's; 'the integer value of the port written' is read with that semantics"]))


# ------------------------------------------------------------------ C18
C18_TEXTS = ["", "a", "a b", "é", "日本", "\U0001f600", "a/b", "a?b", "a#b", "a@b", "a:b", "[x]", "a%b", "%41", "a+b", "a&b=c;d", "\x00", "\x7f", "a\tb", "a\nb", "\x85", "‮x", " ",
             "x​y", "a\\b", "\"<>", "ü@ß:ö", "a／b", "p℀q", "a＠b",
             "a%2Bb", "AT%26T", "k%3Dk", "x%3By", "%25", "a%2bb", "%23x", "%2F", "100%", "%%41",
             "a/b\n", "x/\x7fy", "p/q\u200b", "a?b\x00", "a#b\n", "a@b\x85", "a:b\x00", "[x]\n", "k&v\x01", "a=b\x7f", "a+b\n", "a;b\x00", "%\n"]


def c18_streams(rng, tier, budget):
    st = Stream()
    hosts = ["example.com", "bücher.example", "127.0.0.1", "::1", "fe80::1", "日本.jp", "xn--tda.com", "h",
             # every host kind the property names, in its awkward spellings: zone ids (the only place a '%' can occur in a host),
             # IPv4-mapped and upper-case IPv6, IDN with a digit-ending label, look-alikes of IP syntaxes, trailing dots
             "fe80::1%eth0", "fe80::1%25eth0", "::ffff:1.2.3.4", "2001:DB8::1", "bücher.h1", "v1.example.com", "EXAMPLE.com", "h.", "1.2.3.example",
             # IDN hosts that the strict IDNA-2008 package refuses and only the stdlib (IDNA-2003) codec encodes / decodes
             "i❤.ws", "☃.net", "my_svc.bücher.de"]
    # deterministic matrix first: every host kind × userinfo × port, so that no kind depends on the random draw
    for hst in hosts:
        # … and userinfo that is NOT stable under NFKC but contains no delimiter before or after it (ligature, combining accent, fullwidth
        # letter, trade mark): the authority screen of the parser must treat the WRITTEN brackets of an IP-literal like the other written delimiters
        for kw0 in ({}, {"user": "ü s"}, {"user": "u", "password": "p:w"}, {"port": 8080}, {"user": "a@b", "port": 80},
                    {"user": "\ufb01e\u0301"}, {"user": "u", "password": "\uff21\u2122", "port": 8080}):
            kw = dict(scheme="http", host=hst, path="/p q", fragment="é")
            kw.update(kw0)
            u = st.build(**kw)
            st.obs_all(u, ["human_repr", "str", "val", "host", "raw_host"])
            r = st.hr(u)
            st.obs_all(r, ["str", "val", "host", "raw_host"])
            st.cmp(r, u)
    # every text in every component, ONE component at a time (so that no text × component pair depends on the random draw)
    from urlgen import qarg as _qarg
    for t in C18_TEXTS:
        for comp in ("user", "password", "path", "qkey", "qval", "fragment"):
            kw = dict(scheme="http", host="example.com")
            if comp == "user":
                kw["user"] = t
            elif comp == "password":
                kw.update(user="u", password=t)
            elif comp == "path":
                kw["path"] = "/" + t.replace("/", "_")
            elif comp == "qkey":
                kw["query"] = _qarg("P", [(t, "v")])
            elif comp == "qval":
                kw["query"] = _qarg("P", [("k", t)])
            else:
                kw["fragment"] = t
            u = st.build(**kw)
            st.obs_all(u, ["human_repr", "str", "val"])
            r = st.hr(u)
            st.obs_all(r, ["str", "val"])
            st.cmp(r, u)
    # PARSED URLs (build() drops a default port; the parser keeps it): host kinds x written ports incl. the scheme default, empty user with a
    # password, empty path before a query, '#' and '?' inside the fragment
    for sc, dp in (("http", 80), ("https", 443), ("ws", 80), ("ftp", 21), ("x", None)):
        for hst in ("хост.домен", "bücher.h1", "[::1]", "[fe80::1%25eth0]", "1.2.3.4", "example.com"):
            for pt in ("", ":%d" % dp if dp else ":1", ":8080", ":0", ":80"):
                for tail in ("/шлях", "", "?a=b", "/p#a#b?c"):
                    for ui in ("", ":pw@", "u:@"):
                        u = st.new(f"{sc}://{ui}{hst}{pt}{tail}")
                        st.obs_all(u, ["human_repr", "str", "val"])
                        r = st.hr(u)
                        st.obs_all(r, ["str", "val"])
                        st.cmp(r, u)
    n = int((500 if tier == "quick" else 8000) * budget)
    for _ in range(n):
        kw = {"scheme": pick(rng, ["http", "https", "ftp", "x"]), "host": pick(rng, hosts)}
        if rng.random() < 0.5:
            kw["user"] = pick(rng, C18_TEXTS)
        if rng.random() < 0.4:
            kw["password"] = pick(rng, C18_TEXTS)
        if rng.random() < 0.4:
            kw["port"] = pick(rng, [0, 80, 443, 8080])
        if rng.random() < 0.8:
            kw["path"] = "/" + "/".join(pick(rng, C18_TEXTS).replace("/", "_") for _ in range(rng.randint(0, 3)))
        if rng.random() < 0.6:
            from urlgen import qarg
            items = [(pick(rng, C18_TEXTS), pick(rng, C18_TEXTS)) for _ in range(rng.randint(1, 3))]
            kw["query"] = qarg("P", items)
        if rng.random() < 0.5:
            kw["fragment"] = pick(rng, C18_TEXTS)
        u = st.build(**kw)
        st.obs_all(u, ["human_repr", "str", "val"])
        r = st.hr(u)
        st.obs_all(r, ["str", "val"])
        st.cmp(r, u)
    yield "build-human-roundtrip", st
    st2 = Stream()
    for t in C18_TEXTS + [chr(c) for c in range(0, 0x250)]:
        for uns in ("", "#?", "#/:?@[]", "#&+;="):
            st2.add("hq\t%s\t%s" % (enc(t), enc(uns)))
    yield "human-quote", st2


def c18_oracle(full, io, b):
    out = []
    v = View(full, io)
    for n, o in enumerate(full):
        f = o.split("\t")
        if f[0] == "hq" and not io[n].startswith("!"):
            src, uns, res = dec(f[1]), dec(f[2]), dec(io[n])
            # minimality: a character is escaped only if unsafe there, '%', or non-printable
            i = 0
            for ch in src:
                must = ch == "%" or ch in uns or not ch.isprintable()
                if not must:
                    if not res[i:].startswith(ch):
                        out.append({"what": f"human_quote({src!r}, {uns!r}) = {res!r} escapes the printable, safe character {ch!r}", "class": "human-over-escape", "n": n,
                                    "input": repr(src)})
                        break
                    i += 1
                else:
                    esc = "".join("%%%02X" % x for x in ch.encode("utf-8", "surrogatepass"))
                    if not res[i:].startswith(esc):
                        out.append({"what": f"human_quote({src!r}, {uns!r}) = {res!r} leaves {ch!r} unescaped", "class": "human-under-escape", "n": n, "input": repr(src)})
                        break
                    i += len(esc)
        if f[0] == "cmp" and len(io[n]) == 6:
            h1, h2 = int(f[1]), int(f[2])
            if full[v.cr[h1]].split("\t")[0] == "hr" and io[n][0] != "T":
                hr = v.get(h2, "human_repr")
                surr = hr is not None and not hr.startswith("!") and any(0xD800 <= ord(c) <= 0xDFFF for c in dec(hr))
                out.append({"what": f"URL(u.human_repr()) != u: human_repr = {pretty_out(hr)}, re-parsed {pretty_out(v.get(h1, 'str'))}, original {pretty_out(v.get(h2, 'str'))}",
                            "class": "human-roundtrip-surrogate" if surr else "human-roundtrip", "n": n, "input": describe_handle(full, h2)})
    import unicodedata
    for h, n in enumerate(v.cr):
        f = full[n].split("\t")
        if f[0] == "hr" and not v.alive(h):
            src = int(f[2])
            if v.alive(src):
                hr = v.get(src, "human_repr")
                if hr and not hr.startswith("!"):
                    m = re.match(r"^[a-z]+://([^/?#]*)", dec(hr))
                    ui = m.group(1).rpartition("@")[0] if m else ""
                    nf = unicodedata.normalize("NFKC", ui.replace("@", "").replace(":", ""))
                    cls = "human-roundtrip"
                    if ui and not ui.isascii() and any(d in nf for d in "/?#@:"):
                        cls = "human-roundtrip-nfkc-userinfo"
                    out.append({"what": f"human_repr() = {pretty_out(hr)} is rejected by the constructor ({io[n]})", "class": cls, "n": n,
                                "input": describe_handle(full, src)})
    # readability: "shows printable non-ASCII text and the IDN host decoded rather than escaped"
    for h, n in enumerate(v.cr):
        f = full[n].split("\t")
        if f[0] != "bld" or not v.alive(h):
            continue
        kw = dict(x.partition("=")[::2] for x in f[2:])
        hr = v.get(h, "human_repr")
        if hr is None or hr.startswith("!") or kw.get("encoded") == "T" or "authority" in kw:
            continue
        hr = dec(hr)
        host = dec(kw["host"]) if kw.get("host") else ""
        m = re.match(r"^[^/?#]*//([^/?#]*)", hr)
        shown_auth = m.group(1) if m else ""
        if host and not host.isascii() and "xn--" not in host.lower() and "xn--" in shown_auth.rpartition("@")[2].lower():
            out.append(fail(v, h, "human_repr", f"human_repr() = {hr!r} shows the IDN host {host!r} as an A-label", "human-idn-host-escaped"))
            continue
        # printable non-ASCII text of the decoded components must appear literally
        for key in ("user", "password", "path", "fragment"):
            if key in kw and kw[key] != "~":
                t = dec(kw[key])
                for ch in t:
                    if ord(ch) >= 128 and ch.isprintable() and not (0xD800 <= ord(ch) <= 0xDFFF) and ch not in hr:
                        out.append(fail(v, h, "human_repr", f"human_repr() = {hr!r} does not show the printable character {ch!r} of {key} {t!r}", "human-nonascii-escaped"))
                        break
    return out


def c18_extra(scratch, rng, tier, budget):
    import extras
    return extras.run_human_min(scratch)


register(Prop("C18", c18_streams, compare=lambda op: op.split("\t")[0] in ("hq", "bld", "hr", "cmp") or obs_filter(["human_repr", "str", "val"])(op), oracle=c18_oracle, extra=c18_extra,
              assumptions=["str.isprintable() for non-ASCII characters and IDNA decoding are oracle tables"]))


# ------------------------------------------------------------------ C19
def c19_oracle(full, io, b):
    out = []
    v = View(full, io)
    taint = v.tainted()
    for n, o in enumerate(full):
        r = io[n]
        if r.startswith("!X:") or r == "!M":
            f = o.split("\t")
            inp = describe_handle(full, int(f[2])) if f[0] in ("obs",) else None
            if inp is None:
                cr = v.cr
                inp = describe_handle(full, cr.index(n)) if n in cr else o
            out.append({"what": f"{inp}: {f[3] if f[0]=='obs' else f[0]} raised {r[3:] or 'MemoryError'} (only ValueError / TypeError are allowed)", "class": "exception-kind:" + r[3:], "n": n,
                        "input": inp})
    # an object that build() or a modifier returned can always be turned into a string
    for h, n in enumerate(v.cr):
        f = full[n].split("\t")
        if f[0] in ("bld", "mod", "jn") and v.alive(h):
            s = v.get(h, "str")
            if s is not None and s.startswith("!"):
                val = v.get(h, "val")
                netloc = val[3:].split(",")[1] if val and val.startswith("L5:") else ""
                hostinfo = dec(netloc).rpartition("@")[2] if netloc else ""
                cls = "str-not-total"
                if h in taint:
                    # encoded=True somewhere in the history: the text was stored unvalidated (documented: "garbage in")
                    cls = "str-not-total-encoded"
                elif ("[" in hostinfo or "]" in hostinfo) and not re.match(r"^\[[^\[\]]*\](:[^\[\]]*)?\Z", hostinfo):
                    cls = "malformed-brackets"
                out.append(fail(v, h, "str", f"str() of an object returned by {f[0] if f[0]!='mod' else f[3]} raised {s}", cls))
    return out


C19_OBS = urlgen.OBS_ALL


def c19_streams(rng, tier, budget):
    st = Stream()
    for s in urlgen.delimiter_strings(3 if tier == "quick" else 4):
        h = st.new(s)
        st.obs_all(h, ["str", "host_port_subcomponent", "raw_name", "human_repr", "port", "authority", "suffixes", "parts", "query"])
    for s in ["http://[]/", "http://[", "http://]", "foo://:80/", "//:77", "//@:?#", "//[]:1", "http://[v]/", "http://[v1.]/", "http://[v1.x]/", "[", "]", "@", ":", "%", "//", "///", "http://h:٣/",
              "http://%/", "//[::1]x", "//x[::1]", "a" * 100000, "http://h/" + "%" * 20000, "http://" + "a." * 2000 + "com/", "//" + "[" * 50]:
        h = st.new(s)
        st.obs_all(h, C19_OBS)
        h2 = st.new(s, encoded=True)
        st.obs_all(h2, C19_OBS)
    yield "edge-strings", st
    # every authority shape through build(authority=…): well-formed, text before / after a bracket, nested and unbalanced
    # brackets, IPvFuture with and without ':', userinfo with brackets, odd ports — the result must print or be rejected
    st3 = Stream()
    auths = ["h", "u:p@h:80", "[::1]:8080", "[v1.a:b]", "[v1.a]:80", "x[a:b]:8080", "user:pw@x[v1.a:b]:9", "-[fe80:zz]:1", "[a:b]x:80", "[::1]x", "x[::1]", "[[::1]]", "[::1", "::1]",
             "u@[::1]", "u:[p]@h", "[a]:b@h", "h:0", "h:", ":80", "@", "u@", "[]", "[]:1", "[fe80::1%25eth0]:1", "[fe80::1%é]", "bücher.example:8080", "a[b", "a]b", "[a:b", "a:b]"]
    for a in auths:
        for sc in ("http", "x", ""):
            hb = st3.build(scheme=sc, authority=a)
            st3.obs_all(hb, ["str", "val", "raw_host", "explicit_port", "host_port_subcomponent", "human_repr"])
            st3.obs_all(st3.mod(hb, "with_fragment", enc("f")), ["str"])
            st3.obs_all(st3.mod(hb, "truediv", enc("p")), ["str"])
            st3.obs_all(st3.pkl(hb), ["str", "raw_host"])
    yield "build-authority-matrix", st3
    yield "random", general_stream(rng, int((150 if tier == "quick" else 3000) * budget), C19_OBS, enc_frac=0.15)


def c19_extra(scratch, rng, tier, budget):
    import extras
    r1 = extras.run_faults(scratch, tier)
    for r2 in (extras.run_dyn_probe(scratch, "C19"), extras.run_dynbuild_probe(scratch, "C19")):
        r1["failures"] = r1.get("failures", []) + r2.get("failures", [])
        for k, v in r2.get("stats", {}).items():
            r1.setdefault("stats", {})[k] = r1.get("stats", {}).get(k, 0) + v
        r1["samples"] = r1.get("samples", []) + r2.get("samples", [])
        r1["notes"] = r1.get("notes", []) + r2.get("notes", [])
    return r1


register(Prop("C19", c19_streams, compare=lambda op: True, oracle=c19_oracle, extra=c19_extra,
              assumptions=["the real heap is not modelled: Writer.lean proves the buffer bookkeeping (no leak, no double free, no out-of-capacity write, MemoryError or the exact result)",
                           "allocation failures are injected into the freshly compiled extension through PyMem_SetAllocator (harness/faultalloc.c)"]))


# ------------------------------------------------------------------ C20
def c20_streams(rng, tier, budget):
    # sequential reference behaviour of the programs the threads run is also checked against the model
    yield "sequential-reference", general_stream(rng, int((60 if tier == "quick" else 500) * budget), ["str", "val", "host", "path", "query", "human_repr"], enc_frac=0.05)


def c20_extra(scratch, rng, tier, budget):
    import extras
    return extras.run_threads(scratch, rng.randrange(1 << 30), tier, budget)


register(Prop("C20", c20_streams, oracle=None, extra=c20_extra,
              assumptions=["the GIL makes dict get/set, functools.lru_cache and a C-extension call without `nogil` atomic (CPython 3.12 with the GIL; no free-threaded build is installed)",
                           "interpreter schedules are sampled by the stress run; they are quantified only in the Lean model (Cache.lean)"]))
