"""Properties C01–C07: scope, generators, direct oracles."""
import re
import urllib.parse as up

import gens
import urlgen
from core import dec, enc
from props import (MODS, Prop, Stream, View, describe_handle, fail, general_stream, obs_filter, pick, quoter_stream,
                   quoter_strings, register)

UNRES = "A-Za-z0-9\\-._~"
SUBD = "!$&'()*+,;="
RE_USERINFO = re.compile(r"^(?:[%s%s:]|%%[0-9A-F]{2})*\Z" % (UNRES, re.escape(SUBD)))
RE_PATH = re.compile(r"^(?:[%s%s:@/]|%%[0-9A-F]{2})*\Z" % (UNRES, re.escape(SUBD)))
RE_QF = re.compile(r"^(?:[%s%s:@/?]|%%[0-9A-F]{2})*\Z" % (UNRES, re.escape(SUBD)))
RE_QOUT = {
    "QUOTER": RE_USERINFO, "REQUOTER": RE_USERINFO, "PATH_QUOTER": RE_PATH, "PATH_REQUOTER": RE_PATH,
    "QUERY_QUOTER": RE_QF, "QUERY_REQUOTER": RE_QF, "QUERY_PART_QUOTER": RE_QF, "FRAGMENT_QUOTER": RE_QF, "FRAGMENT_REQUOTER": RE_QF,
}
RE_PCT_OK = re.compile(r"%(?![0-9A-F]{2})")

C01_OBS = ["str", "bytes", "raw_user", "raw_password", "raw_path", "raw_query_string", "raw_fragment", "scheme", "raw_host"]


def is_ascii(s):
    return all(ord(c) < 128 for c in s)


# ------------------------------------------------------------------ C01
def c01_oracle(full, io, b):
    out = []
    v = View(full, io)
    taint = v.tainted()
    for n, o in enumerate(full):
        f = o.split("\t")
        if f[0] == "q" and not io[n].startswith("!"):
            r = dec(io[n])
            if not RE_QOUT[f[2]].match(r):
                out.append({"what": f"{f[2]}[{f[1]}]({dec(f[3])!r}) = {r!r} is outside the component's RFC 3986 character set / escape form",
                            "class": "quoter-output", "n": n, "input": f"{f[2]}({dec(f[3])!r})"})
    for h in range(len(v.cr)):
        if not v.alive(h) or h in taint:
            continue
        s = v.get(h, "str")
        if s is None or s.startswith("!"):
            continue
        s = dec(s)
        scheme = dec(v.get(h, "scheme") or "")
        host = v.get(h, "raw_host")
        host = dec(host) if host and not host.startswith("!") else None
        cls = None
        if not is_ascii(s):
            if scheme and not is_ascii(scheme):
                cls = "nonascii-scheme"
            elif host and not is_ascii(host):
                cls = "nonascii-host-zone" if "%" in host else "nonascii-host"
            else:
                cls = "nonascii-str"
            out.append(fail(v, h, "str", f"str(url) = {s!r} is not ASCII", cls))
            continue
        by = v.get(h, "bytes")
        if by is not None and by.startswith("!"):
            out.append(fail(v, h, "bytes", f"bytes(url) raised for str(url) = {s!r}", "bytes-fails"))
        # "every '%' in it [the string form] starts an escape of two uppercase hex digits"
        if RE_PCT_OK.search(s):
            rest = s
            # the host is stored lower-case (C16) — including the hex digits of its escapes — and an IPv6 zone id verbatim:
            # take the host part out of the string form (located in the string itself: raw_host may not have been observed)
            m_ = re.match(r"^([^/?#]*//(?:[^/?#]*@)?)([^/?#@]*)(.*)\Z", s, re.S)
            if m_ and "%" in m_.group(2):
                rest = m_.group(1) + m_.group(3)
                host = host or m_.group(2)
            if RE_PCT_OK.search(rest):
                out.append(fail(v, h, "str", f"str(url) = {s!r} contains a '%' that does not start an escape of two uppercase hex digits", "str-bad-escape"))
            else:
                out.append(fail(v, h, "str", f"str(url) = {s!r}: a '%' inside the host {host!r} does not start an escape of two UPPER-case hex digits", "percent-in-host"))
        for name, rx in (("raw_user", RE_USERINFO), ("raw_password", RE_USERINFO), ("raw_path", RE_PATH), ("raw_query_string", RE_QF),
                         ("raw_fragment", RE_QF)):
            val = v.get(h, name)
            if val is None or val.startswith("!") or val == "~":
                continue
            val = dec(val)
            if not rx.match(val):
                out.append(fail(v, h, name, f"{name} = {val!r} contains a character RFC 3986 does not allow there, or a malformed escape", "component-charset"))
    return out


NASTY = ["a b", "é", "\x00", "\x7f", "\"<>\\^`{|}", "%zz", "%", "\udc80", "a\nb", "x\n", "\U0001f600", "a%2", "%c3%a9", "[x]", "a#b?c", "k=v&w", "\u2028"]


def c01_streams(rng, tier, budget):
    yield "quoters", quoter_stream(quoter_strings(rng, tier, budget), unquoters=[])
    # outputs around the size of the compiled quoter's static buffer (8192) and its first heap growths: what has to be escaped sits
    # BEFORE the boundary, AT it, or after it ("for every input … both backends" includes the long ones)
    ks = (1,) if tier == "quick" else (1, 2, 3)
    yield "length-layers", quoter_stream(gens.length_layer(8192, ks), quoters=["QUOTER", "PATH_QUOTER", "QUERY_REQUOTER", "FRAGMENT_QUOTER"], unquoters=[])
    stl = Stream()
    for head in ("a b/", "é", "\"<", "%zz", "x"):
        for n in (8185, 8192, 8200, 16390):
            tail = "x" * n
            stl.obs_all(stl.new("http://example.com/" + head + tail), ["str", "raw_path", "bytes"])
            stl.obs_all(stl.new("http://example.com/p?k=" + head.replace("/", "") + tail + "#" + head + tail), ["str", "raw_query_string", "raw_fragment", "bytes"])
            b0 = stl.new("http://example.com/base")
            stl.obs_all(stl.mod(b0, "truediv", enc(head.replace("/", "_") + tail)), ["str", "raw_path", "bytes"])
            stl.obs_all(stl.mod(b0, "with_fragment", enc(head + tail)), ["str", "raw_fragment"])
            stl.obs_all(stl.mod(b0, "with_user", enc(head + tail)), ["str", "raw_user"])
    yield "long-components", stl
    # deterministic matrix: every entry point that accepts text × texts that must not survive raw × the contexts in which the
    # entry point takes a different route (user present or not, password present or not, authority present or not)
    st = Stream()
    for t in NASTY:
        e = enc(t)
        for kw in (dict(user=t), dict(password=t), dict(user="u", password=t), dict(user=t, password=t), dict(path="/" + t), dict(fragment=t),
                   dict(query_string="a=" + t), dict(query="M" + enc("k") + "=s" + e), dict(query="M" + e + "=s" + enc("v"))):
            st.obs_all(st.build(scheme="http", host="h", **kw), C01_OBS)
        st.obs_all(st.build(path=t, fragment=t), C01_OBS)
        for bs in ("http://h/p/q.txt?a=1#f", "http://u@h/", "http://u:p@h/x", "http://:p@h/", "/rel/path", "x:opaque"):
            h = st.new(bs)
            for m in (("with_user", e), ("with_password", e), ("with_fragment", e), ("with_path", enc("/" + t), "F", "F", "F"), ("with_path", e, "F", "T", "T"),
                      ("with_name", e, "F", "F"), ("with_suffix", enc("." + t), "F", "F"), ("truediv", e), ("joinpath", "F", e, e),
                      ("with_query", "S" + enc("a=" + t)), ("with_query", "M" + e + "=s" + e), ("extend_query", "P" + e + "=s" + e),
                      ("update_query", "K" + enc("k") + "=s" + e), ("with_query", "S" + e)):
                st.obs_all(st.mod(h, *m), C01_OBS)
            st.obs_all(st.join(h, st.new(t)), C01_OBS)
            # second-level: the name / suffix just written contains escapes; modify it again
            r1 = st.mod(h, "with_suffix", enc("." + t.replace("/", "_")), "F", "F")
            r2 = st.mod(h, "with_name", enc("n." + t.replace("/", "_")), "F", "F")
            r3 = st.mod(h, "truediv", enc("d." + t))
            for r in (r1, r2, r3):
                st.obs_all(st.mod(r, "with_suffix", enc(".bak"), "F", "F"), C01_OBS)
                st.obs_all(st.mod(r, "with_suffix", enc(""), "F", "F"), C01_OBS)
                st.obs_all(st.mod(r, "with_name", enc("m"), "F", "F"), C01_OBS)
                st.obs_all(st.mod(r, "parent"), C01_OBS)
        for pre in ("http://h/", "http://h/?", "http://h/#", "http://", "http://u:", "", "x:"):
            st.obs_all(st.new(pre + t + ("@h/" if pre.endswith(("//", "u:")) else "")), C01_OBS)
    yield "entry-point-matrix", st
    n = int((250 if tier == "quick" else 4000) * budget)
    yield "urls", general_stream(rng, n, C01_OBS, enc_frac=0.0)


register(Prop("C01", c01_streams, compare=obs_filter(C01_OBS), oracle=c01_oracle,
              assumptions=["IDNA-encoded hosts are ASCII (idna / stdlib codec, supplied to the model as an oracle table)"],
              trusted=["modelled by hand: quotePy / quoteC / cOut (Quote.lean), tied by correspondence on both backends"]))


# ------------------------------------------------------------------ C02
def pct_bytes(s):
    return up.unquote_to_bytes(s.encode("utf-8", "ignore") if isinstance(s, str) else s)


def c02_oracle(full, io, b):
    out = []
    for n, o in enumerate(full):
        f = o.split("\t")
        if f[0] != "q" or io[n].startswith("!"):
            continue
        cfg, src, res = f[2], dec(f[3]), dec(io[n])
        requote = "REQUOTER" in cfg
        qs = cfg.startswith("QUERY")
        if requote:
            a = pct_bytes(src)
            bb = pct_bytes(res.replace("+", " ") if qs else res)
            if qs:
                a = pct_bytes(src.encode("utf-8", "ignore").replace(b"+", b" "))
        else:
            a = src.encode("utf-8", "ignore")
            bb = pct_bytes(res.replace("+", " ") if qs and cfg != "QUERY_QUOTER" else res)
            if cfg == "QUERY_QUOTER":
                # '+' is protected (stays '+'), a space becomes '+': compare after mapping both to space
                a = a.replace(b"+", b" ")
                bb = pct_bytes(res.replace("+", " "))
        if a != bb:
            out.append({"what": f"{cfg}[{f[1]}]({src!r}) = {res!r}: percent-decoded bytes changed ({a!r} -> {bb!r})", "class": "decoded-bytes",
                        "n": n, "input": f"{cfg}({src!r})"})
            continue
        # delimiter status
        if cfg.startswith("PATH"):
            lit_in = src.count("/")
            if res.count("/") != lit_in:
                out.append({"what": f"{cfg}({src!r}) = {res!r}: number of literal '/' changed", "class": "delimiter-status", "n": n,
                            "input": f"{cfg}({src!r})"})
        if cfg in ("QUERY_QUOTER", "QUERY_REQUOTER"):
            for ch in "&=;":
                if res.count(ch) != src.count(ch):
                    out.append({"what": f"{cfg}({src!r}) = {res!r}: number of literal {ch!r} changed", "class": "delimiter-status", "n": n,
                                "input": f"{cfg}({src!r})"})
                    break
    # URL level: the constructor (auto-encoding) against the RFC 3986 Appendix B split of the supplied text — decoded bytes of
    # path / query / fragment and the delimiter status of '/', '&', '=', '+', ';' (literal stays literal, encoded stays encoded)
    vc = View(full, io)
    for h, n in enumerate(vc.cr):
        f = full[n].split("\t")
        if f[0] != "new" or f[2] != "a" or not vc.alive(h):
            continue
        src = dec(f[3])
        if any(0xD800 <= ord(ch) <= 0xDFFF for ch in src):
            continue
        try:
            _, auth0, path0, query0, frag0 = appendix_b(src)
        except Exception:
            continue
        for comp, sup, qs in (("raw_path", path0, False), ("raw_query_string", query0, True), ("raw_fragment", frag0, False)):
            got = vc.get(h, comp)
            if got is None or got.startswith("!"):
                continue
            got = dec(got)
            if comp == "raw_path" and auth0 and ("." in sup or "%2e" in sup.lower() or not sup):
                continue            # dot-segment removal / '/' for an empty path are C15's and C07's business
            norm = (lambda t: t.replace("+", " ")) if qs else (lambda t: t)       # in a query '+' and ' ' both mean a space
            if pct_bytes(norm(sup)) != pct_bytes(norm(got)):
                out.append(fail(vc, h, comp, f"URL({src!r}).{comp} = {got!r}: decodes to {pct_bytes(got)!r}, the supplied {sup!r} to {pct_bytes(sup)!r}", "constructor-decoded-bytes"))
                break
            delims = "/" if comp == "raw_path" else ("&=+;" if qs else "")
            bad = None
            for ch in delims:
                esc = "%%%02X" % ord(ch)
                lit_sup = sup.count(ch) + (sup.count(" ") if qs and ch == "+" else 0)
                if lit_sup != got.count(ch) or sup.upper().count(esc) != got.upper().count(esc):
                    bad = ch
                    break
            if bad:
                out.append(fail(vc, h, comp, f"URL({src!r}).{comp} = {got!r}: the literal/encoded status of {bad!r} differs from the supplied {sup!r}", "constructor-delimiter-status"))
                break
    # URL level: query operations with a pairs / mapping argument — "the number and boundaries of … query pairs never change":
    # the canonical query has exactly one '&'-piece per supplied pair, split at its first '=', and each side form-decodes to
    # the UTF-8 bytes of the supplied key / value (ints and floats as str() renders them)
    vq = View(full, io)
    for h, n in enumerate(vq.cr):
        f = full[n].split("\t")
        arg = None
        if f[0] == "mod" and f[3] == "with_query" and vq.alive(h):
            arg = f[4]
        elif f[0] == "bld" and vq.alive(h):
            kw = dict(x.partition("=")[::2] for x in f[2:])
            if kw.get("encoded") != "T" and "query" in kw:
                arg = kw["query"]
        if not arg or arg[0] not in "PMKDU":
            continue
        try:
            from props_b import expand_arg
            e_ = expand_arg(arg)
        except Exception:
            continue
        if e_[0] != "pairs" or not all(no_surr_a(k + x) for k, x in e_[1]):
            continue
        raw = vq.get(h, "raw_query_string")
        if raw is None or raw.startswith("!"):
            continue
        raw = dec(raw)
        pieces = raw.split("&") if raw else []
        exp = e_[1]
        bad = None
        if len(pieces) != len(exp):
            bad = f"{len(pieces)} '&'-pieces for {len(exp)} supplied pairs"
        else:
            for pc, (k, x) in zip(pieces, exp):
                kk, sep, xx = pc.partition("=")
                if not sep or up.unquote_to_bytes(kk.replace("+", " ")) != k.encode("utf-8") or up.unquote_to_bytes(xx.replace("+", " ")) != x.encode("utf-8"):
                    bad = f"piece {pc!r} does not decode to the supplied pair {(k, x)!r}"
                    break
        if bad:
            out.append(fail(vq, h, "raw_query_string", f"query {raw!r}: {bad}", "query-pair-boundaries"))
    # URL level: a modifier must not change the decoded bytes of the components it does not target
    vv = View(full, io)
    tgt = {"with_user": {"raw_user"}, "with_password": {"raw_password"}, "with_host": set(), "with_port": set(), "with_scheme": set(),
           "with_fragment": {"raw_fragment"}, "with_query": {"raw_query_string", "query"}, "extend_query": {"raw_query_string", "query"},
           "update_query": {"raw_query_string", "query"}, "with_path": {"raw_path", "raw_parts"}, "with_name": {"raw_path", "raw_parts"},
           "truediv": {"raw_path", "raw_parts", "raw_query_string", "raw_fragment", "query"}}
    for h, n in enumerate(vv.cr):
        f = full[n].split("\t")
        if f[0] != "mod" or f[3] not in tgt or not vv.alive(h):
            continue
        src = int(f[2])
        if f[3] in ("with_path", "with_name") and (f[-2] != "T" or f[-1] != "T"):
            continue
        for comp in ("raw_user", "raw_password", "raw_path", "raw_query_string", "raw_fragment"):
            if comp in tgt[f[3]]:
                continue
            a, c = vv.get(src, comp), vv.get(h, comp)
            if a is None or c is None or a.startswith("!") or c.startswith("!") or "~" in (a, c):
                continue
            if pct_bytes(dec(a)) != pct_bytes(dec(c)):
                out.append(fail(vv, h, comp, f"{f[3]} changed the decoded bytes of {comp}: {dec(a)!r} -> {dec(c)!r}", "modifier-changes-bytes", also=[vv.n_of(src, comp)]))
                break
    # URL level: the component a decoded-text modifier TARGETS decodes to exactly the UTF-8 bytes of the supplied text (the
    # argument is decoded text: a '%' in it is data, whatever the URL held before)
    tcomp = {"with_fragment": "raw_fragment", "with_user": "raw_user", "with_password": "raw_password", "with_name": "raw_path"}
    for h, n in enumerate(vv.cr):
        f = full[n].split("\t")
        if f[0] != "mod" or f[3] not in tcomp or not vv.alive(h) or len(f) < 5 or f[4] == "~":
            continue
        try:
            arg = dec(f[4])
        except Exception:
            continue
        if not no_surr_a(arg):
            continue
        got = vv.get(h, tcomp[f[3]])
        if got is None or got.startswith("!") or got == "~":
            continue
        got = dec(got)
        if f[3] == "with_name":
            if "/" in arg or arg in ("", ".", ".."):
                continue
            got = got.rpartition("/")[2]
        if f[3] == "with_user" and arg == "":
            continue
        if pct_bytes(got) != arg.encode("utf-8"):
            out.append(fail(vv, h, tcomp[f[3]], f"{f[3]}({arg!r}) stored {got!r}, which decodes to {pct_bytes(got)!r}: not the bytes of the supplied text", "modifier-target-bytes"))
    # URL level: update_query / extend_query with a query STRING — each supplied '&'-piece is found in the result with the same
    # form-decoded key and value bytes (update_query PARSES the string — escapes are escapes; extend_query, like with_query, takes it as text — a '%' is data)
    for h, n in enumerate(vv.cr):
        f = full[n].split("\t")
        if f[0] != "mod" or f[3] not in ("update_query", "extend_query") or not vv.alive(h) or len(f) < 5 or not f[4].startswith("S"):
            continue
        try:
            sup = dec(f[4][1:])
        except Exception:
            continue
        raw = vv.get(h, "raw_query_string")
        if raw is None or raw.startswith("!") or not no_surr_a(sup):
            continue
        got = set()
        for pc in (dec(raw).split("&") if dec(raw) else []):
            k, _, x = pc.partition("=")
            got.add((up.unquote_to_bytes(k.replace("+", " ")), up.unquote_to_bytes(x.replace("+", " "))))
        for pc in sup.split("&"):
            if not pc:
                continue
            k, _, x = pc.partition("=")
            if f[3] == "update_query":       # the string is parsed: escapes are escapes
                want = (up.unquote_to_bytes(k.replace("+", " ")), up.unquote_to_bytes(x.replace("+", " ")))
            else:                            # extend_query (like with_query) takes the string as TEXT: a '%' in it is data
                want = (k.replace("+", " ").encode("utf-8"), x.replace("+", " ").encode("utf-8"))
            if want not in got:
                repl = any(b"\xef\xbf\xbd" in a + c for a, c in got)
                out.append(fail(vv, h, "raw_query_string", f"{f[3]}({sup!r}): no pair of the result {dec(raw)!r} decodes to the supplied pair {want!r}",
                                "query-undecodable-escape-replaced" if repl else "query-str-bytes"))
                break
    # URL level: join must only splice encoded segments (every result segment decodes to a base or reference segment)
    v = View(full, io)
    for h, n in enumerate(v.cr):
        f = full[n].split("\t")
        if f[0] != "jn" or not v.alive(h):
            continue
        b0, r0 = int(f[2]), int(f[3])
        rp = v.get(h, "raw_parts")
        bp, fp = v.get(b0, "raw_parts"), v.get(r0, "raw_parts")
        if not rp or not bp or not fp or rp.startswith("!"):
            continue
        segs = lambda x: [dec(y) for y in x.partition(":")[2].split(",")] if x.partition(":")[2] else []  # noqa
        pool = set(pct_bytes(x) for x in segs(bp) + segs(fp)) | {b"", b"/"}
        pool_raw = set(segs(bp) + segs(fp)) | {"", "/"}
        for sg in segs(rp):
            if sg not in pool_raw and pct_bytes(sg) in pool:
                pass
            if sg not in pool_raw:
                out.append(fail(v, h, "raw_parts", f"join produced the path segment {sg!r} that is neither a segment of the base nor of the reference", "join-segment"))
                break
    return out


C02_OBS = ["raw_path", "raw_parts", "raw_query_string", "query", "raw_user", "raw_password", "raw_fragment", "str"]


def c02_streams(rng, tier, budget):
    yield "quoters", quoter_stream(quoter_strings(rng, tier, budget), unquoters=[])
    st = Stream()
    bases = ["http://h/a%2Fb/c%20d/e", "http://h/a%3Fb/x", "http://h/%25/%2E/x", "http://h/a%23b/c", "http://h/é/x", "http://h/a+b/c%2Bd/e",
             "http://h/%2e%2e/x/y", "/a%2Fb/c", "http://h/a%2fb%2Fc/d?q=%26", "http://h/x%3By/z"]
    refs = ["x", "../y", "./z", "y/../w", "?q", "#f", "", "a%2Fb", "/r%2Fs"]
    for bs in bases:
        for rf in refs:
            hb = st.new(bs)
            hr = st.new(rf)
            st.obs_all(hb, C02_OBS)
            st.obs_all(hr, C02_OBS)
            j = st.join(hb, hr)
            st.obs_all(j, C02_OBS)
    yield "join-escapes", st
    st3 = Stream()
    tricky = ["%FF", "%C3%28", "%E2%82", "%80x", "p%3aw", "a%2Fb", "%25", "é", "a+b", "%zz"]
    for pw in tricky:
        for us in ("u", "u%FF", "é"):
            h = st3.new("http://%s:%s@h:81/a%%2Fb/%s?k=%s&%s=v#%s" % (us, pw, pw, pw, pw, pw))
            st3.obs_all(h, C02_OBS)
            for nm, args in (("with_user", [enc("bob")]), ("with_password", [enc("x y")]), ("with_host", [enc("h2")]), ("with_port", ["82"]),
                             ("with_scheme", [enc("https")]), ("with_fragment", [enc("f")]), ("with_query", ["S" + enc("a=1")]),
                             ("with_path", [enc("/z"), "F", "T", "T"]), ("with_name", [enc("n"), "T", "T"]), ("truediv", [enc("c")]),
                             ("extend_query", ["S" + enc("z=1")]), ("update_query", ["P" + enc("zz") + "=s" + enc("1")])):
                st3.obs_all(st3.mod(h, nm, *args), C02_OBS)
    # "set it to what it reads": the argument is the DECODED reading of the component the base already has.  For text with escapes
    # the decoder keeps verbatim (undecodable / malformed), decoded == raw, but the supplied text is decoded text: its '%' must be
    # escaped — a modifier that compares its argument with the decoded accessor and returns the URL unchanged gets this wrong
    for t in ["%FF", "a%E2%82", "%C3", "%ED%A0%80", "%zz", "%", "%2", "x%C3%28", "%25FF", "%41", "a b"]:
        h = st3.new("http://%s:%s@h/d/%s?%s=%s#%s" % (t, t, t, t, t, t))
        st3.obs_all(h, C02_OBS)
        for nm, args in (("with_fragment", [enc(t)]), ("with_user", [enc(t)]), ("with_password", [enc(t)]), ("with_name", [enc(t), "T", "T"]),
                         ("with_path", [enc("/d/" + t), "F", "T", "T"]), ("with_query", ["P" + enc(t) + "=s" + enc(t)]), ("update_query", ["P" + enc(t) + "=s" + enc(t)])):
            m = st3.mod(h, nm, *args)
            st3.obs_all(m, C02_OBS)
            st3.obs_all(st3.mod(m, nm, *args), C02_OBS)          # and once more on the result
    # a query STRING handed to update_query / the '%' operator is parsed (escapes are escapes): every supplied pair must be found in the
    # result with the same form-decoded bytes, an encoded delimiter stays encoded, and the pairs the URL already had keep their bytes
    for bq in ("", "?t=a%2Bb%26c&u=1", "?a=0&k%3Dk=w"):
        for sq in ("a=1%2B2", "a=x%26y%3Dz", "k%3Dk=v", "n=1", "a=1+2&b=%20", "s=a%3Bb;c", "e=%C3%A9&f=%e2%82%ac", "p=100%25", "bad=%FF", "half=%e4%bd"):
            h = st3.new("http://h/p" + bq)
            st3.obs_all(h, C02_OBS)
            for nm in ("update_query", "extend_query"):
                st3.obs_all(st3.mod(h, nm, "S" + enc(sq)), C02_OBS)
    yield "modifier-preserves-bytes", st3
    n = int((200 if tier == "quick" else 3000) * budget)
    yield "urls", general_stream(rng, n, C02_OBS, enc_frac=0.0)


register(Prop("C02", c02_streams, compare=obs_filter(C02_OBS), oracle=c02_oracle,
              trusted=["independent reference for the oracle: urllib.parse.unquote_to_bytes"]))


# ------------------------------------------------------------------ C03
C03_OBS = ["val", "str", "scheme", "user", "password", "host", "port", "path", "query", "fragment", "raw_path", "raw_query_string", "raw_host"]


def c03_oracle(full, io, b):
    out = []
    v = View(full, io)
    taint = v.tainted()
    for h, n in enumerate(v.cr):
        f = full[n].split("\t")
        if f[0] != "rt":
            continue
        src = int(f[2])
        if src in taint or not v.alive(src):
            continue
        s_src = v.get(src, "str")
        if s_src is None or s_src.startswith("!"):
            continue
        inp = describe_handle(full, src)
        text = dec(s_src)
        cls = classify_c03(v, src, text)
        if cls == "skip":
            continue
        if not v.alive(h):
            out.append({"what": f"str(u) = {text!r} is rejected when parsed again ({io[n]})", "class": cls or "reparse-rejected", "n": n, "input": inp})
            continue
        for name in ["str", "scheme", "user", "password", "host", "port", "path", "query", "fragment"]:
            a, c = v.get(src, name), v.get(h, name)
            if a is None or c is None:
                continue
            if a != c:
                from props import pretty_out
                out.append({"what": f"URL(str(u)).{name} = {pretty_out(c)} but u.{name} = {pretty_out(a)} for str(u) = {text!r}",
                            "class": cls or "not-a-fixed-point", "n": v.n_of(h, name), "also": [v.n_of(src, name)], "input": inp})
                break
    return out


def valid_host(rh):
    import ipaddress
    if rh is None or rh == "":
        return True
    if not is_ascii(rh):
        return False
    if ":" in rh or "[" in rh or "]" in rh:
        body, sep, zone = rh.partition("%")
        try:
            ipaddress.IPv6Address(body)
            return True
        except ValueError:
            return bool(re.match(r"^v[0-9a-fA-F]+\.[A-Za-z0-9\-._~!$&'()*+,;=:]+\Z", rh))
    # upper-case letters are valid reg-name characters (RFC 3986): a STORED upper-case host of an auto-encoded URL (the callers skip
    # encoded=True handles before they get here) is a syntactically valid host that the second parse lower-cases - not a reason to skip
    return bool(re.match(r"^(?:[A-Za-z0-9\-._~!$&'()*+,;=]|%[0-9a-fA-F]{2})*\Z", rh))


def classify_c03(v, h, text):
    """'skip' = outside the property's quantifier (scheme not RFC-valid, host not syntactically valid);
    otherwise the name of a listed shape (DESIGN.md section 9) or None"""
    scheme = dec(v.get(h, "scheme") or "")
    rh = v.get(h, "raw_host")
    if rh is not None and rh.startswith("!"):
        return "skip"
    rh = ("" if rh == "" else dec(rh)) if rh is not None and rh not in ("~",) else None
    path = dec(v.get(h, "raw_path") or "")
    if scheme and not re.match(r"^[A-Za-z][A-Za-z0-9+.\-]*\Z", scheme):      # RFC 3986 schemes are case-insensitive: 'HTTP' is valid
        return "skip"
    if rh is not None and ("[" in rh or "]" in rh):
        return "malformed-brackets"
    if not valid_host(rh):
        return "skip"
    if scheme in ("http", "https", "ws", "wss", "ftp") and not rh:
        return "skip"      # these schemes require a host: an empty one is not a valid host for them
    val0 = v.get(h, "val")
    if rh == "" and val0 and val0.startswith("L5:") and val0[3:].split(",")[1] == "":
        return "authority-normalises-to-empty"
    if rh is None or rh == "":
        first = path.split("/")[0]
        if not scheme and ":" in first:
            return "colon-in-first-rootless-segment"
        val = v.get(h, "val")
        if scheme and path and not path.startswith("/") and val and val.startswith("L5:") and val[3:].split(",")[1] == "":
            return "scheme-with-rootless-path-and-no-authority"
    return None


def c03_streams(rng, tier, budget):
    n = int((250 if tier == "quick" else 4000) * budget)
    yield "urls+reparse", general_stream(rng, n, C03_OBS, enc_frac=0.0, with_rt=True, chain=2)
    st = Stream()
    for s in ["a%3Ab", "a%3Ab/c", "./a:b", "http://h/a%3Ab", "//h/a:b", "x/a%3Ab", "%3A", "http://[v1.a:b]/", "http://[v1.a]/", "http://H:80/", "HTTP://Ü.com:80/%7e",
              # a path that starts with '//' and no authority in front of it: the string form needs the explicit empty authority
              "////srv/x", "//", "///", "////", "x:////a", "/.//a", "a/b:c", "a/b:c?k=v#f",
              # hosts only the IDNA-2003 fallback codec encodes ('_', '--' in positions 3-4, symbols) with UPPER-case ASCII labels next to the
              # non-ASCII one: the stored host must already be the lower-case text a second parse produces
              "http://A_b.é.com/p", "http://Ab--cd.é.com/p", "http://WWW.☃.Example.COM/p", "http://My_Svc.bücher.de/", "//I❤.WS"]:
        h = st.new(s)
        st.obs_all(h, C03_OBS)
        r = st.rt(h)
        st.obs_all(r, C03_OBS)
    # … and the same shapes reached through chains of modifiers
    for bs, chain in (("http://h//srv/x", [("relative",)]), ("http://h//srv/x", [("relative",), ("with_name", enc("y"), "F", "F")]), ("http://h//srv/x", [("relative",), ("parent",)]),
                      ("http://h//srv/x?q#f", [("relative",), ("with_fragment", "~")]), ("http://u@h:81/a", [("origin",), ("with_path", enc("//x"), "F", "F", "F")]),
                      ("http://h/a", [("with_path", enc(""), "F", "F", "F"), ("with_query", "S" + enc("k=v"))]), ("http://h:80/a", [("with_scheme", enc("https")), ("with_port", "443")]),
                      ("http://u:p@h/a", [("with_host", enc("[::1]".strip("[]"))), ("with_port", "80")]),
                      # names whose STEM is a dot segment: dropping the suffix must not leave '.' / '..' behind
                      ("http://h/d/s/...a", [("with_suffix", enc(""), "F", "F")]), ("http://h/d/..a", [("with_suffix", enc(""), "F", "F")]),
                      ("http://h/d/s/...cache?q#f", [("with_suffix", enc(""), "T", "T")]), ("http://h/d/..a", [("with_suffix", enc(".b"), "F", "F")]),
                      ("http://h/d/s", [("truediv", enc("...a")), ("with_suffix", enc(""), "F", "F")]), ("http://h/d/.a.b", [("with_suffix", enc(""), "F", "F"), ("with_suffix", enc(""), "F", "F")])):
        h = st.new(bs)
        for stp in chain:
            h = st.mod(h, *stp)
            st.obs_all(h, C03_OBS)
            st.obs_all(st.rt(h), C03_OBS)
    jb = st.new("/a/b")
    for rf in ("..//c", "//c", ".//c", "../..//c/d"):
        j = st.join(jb, st.new(rf))
        st.obs_all(j, C03_OBS)
        st.obs_all(st.rt(j), C03_OBS)
    yield "corpus", st
    # every normalisation that can be applied twice: explicit default ports × scheme changes, case folding, IDNA, dot segments,
    # each followed by re-parsing the string form (the port is the component that goes stale when a cache is carried over)
    st2 = Stream()
    defaults = {"http": 80, "https": 443, "ws": 80, "wss": 443, "ftp": 21}
    for sc in ("http", "https", "ftp", "x"):
        for ui in ("", "u@", "u:p@"):
            for host in ("example.com", "EXAMPLE.com", "[::1]", "bücher.example", "1.2.3.4"):
                for pt in ("", ":80", ":443", ":21", ":0", ":8080"):
                    h = st2.new(sc + "://" + ui + host + pt + "/a/../b")
                    st2.obs_all(h, ["str", "port", "explicit_port"])
                    st2.obs_all(st2.rt(h), ["str", "port", "explicit_port"])
                    for sc2 in ("http", "https", "ftp", "x"):
                        if sc2 == sc:
                            continue
                        m = st2.mod(h, "with_scheme", enc(sc2))
                        st2.obs_all(m, C03_OBS)
                        st2.obs_all(st2.rt(m), C03_OBS)
                        if pt in (":80", ":443"):
                            m2 = st2.mod(m, "with_scheme", enc(sc))
                            st2.obs_all(m2, ["str", "port", "explicit_port"])
                            st2.obs_all(st2.rt(m2), ["str", "port", "explicit_port"])
    yield "default-port-scheme-matrix", st2


register(Prop("C03", c03_streams, compare=obs_filter(C03_OBS), oracle=c03_oracle,
              assumptions=["IDNA encoding is idempotent on its own output (oracle parameter)"]))


# ------------------------------------------------------------------ C04
LIT_USER = "abcXYZ019-._~!$&'()*+,;="
LIT_PATH = LIT_USER + ":@"
LIT_QF = LIT_PATH + "/?"
MUST_ESC = [" ", "\"", "<", ">", "\\", "^", "`", "{", "|", "}", "\x00", "\x7f", "é", "€", "\U0001f600", "%", "#", "[", "]"]


def pct_utf8(c):
    return "".join("%%%02X" % x for x in c.encode("utf-8"))


def canon_text(rng, lit, extra_esc=(), n=8, forbid=""):
    out = []
    for _ in range(rng.randint(0, n)):
        if rng.random() < 0.7:
            c = pick(rng, lit)
            if c in forbid:
                continue
            out.append(c)
        elif rng.random() < 0.8:
            out.append(pct_utf8(pick(rng, MUST_ESC)))
        elif extra_esc:
            out.append(pct_utf8(pick(rng, list(extra_esc))))
    return "".join(out)


def canon_url(rng):
    scheme = pick(rng, ["http", "https", "ws", "ftp", "file", "x-y.z+w", "svn"])
    s = scheme + "://"
    if rng.random() < 0.4:
        u = canon_text(rng, LIT_USER, ":@/?", 5) or "u"
        s += u
        if rng.random() < 0.6:
            s += ":" + canon_text(rng, LIT_USER, ":@/?", 5)
        s += "@"
    k = rng.random()
    if k < 0.5:
        s += pick(rng, ["h", "example.com", "a-b.c_d~e", "a!$&'()*+,;=b", "xn--tda.com", "h.", "1.2.3"])
    elif k < 0.7:
        s += pick(rng, ["127.0.0.1", "1.2.3.4", "255.255.255.255"])
    else:
        s += "[" + pick(rng, ["::1", "::", "2001:db8::1", "1:2:3:4:5:6:7:8", "fe80::1%eth0", "1::", "1:0:0:2::3", "::ffff:102:304"]) + "]"
    if rng.random() < 0.4:
        defaults = {"http": 80, "https": 443, "ws": 80, "ftp": 21}
        p = pick(rng, [0, 1, 80, 443, 21, 8080, 65535])
        if defaults.get(scheme) != p:
            s += ":%d" % p
    # rooted dot-free path (non-empty when query/fragment follows is not required by yarl: '' renders as '/')
    segs = []
    for _ in range(rng.randint(0, 4)):
        sg = canon_text(rng, LIT_PATH, "/+", 6)          # '%2F' and '%2B' are the path's "may be escaped" delimiters ('+' because of its form-encoding reading)
        if sg in (".", ".."):
            sg = "x"
        segs.append(sg)
    path = "/" + "/".join(segs)
    has_q = rng.random() < 0.5
    has_f = rng.random() < 0.4
    s += path
    if has_q:
        qv = canon_text(rng, LIT_QF.replace("+", ""), "&=+;", 8)
        if qv:
            s += "?" + qv
    if has_f:
        fv = canon_text(rng, LIT_QF, "", 6)
        if fv:
            s += "#" + fv
    return s


def c04_oracle(full, io, b):
    out = []
    v = View(full, io)
    for h, n in enumerate(v.cr):
        f = full[n].split("\t")
        if f[0] != "new":
            continue
        src = dec(f[3])
        if not v.alive(h):
            out.append({"what": f"canonical URL {src!r} rejected ({io[n]})", "class": "canonical-rejected", "n": n, "input": repr(src)})
            continue
        s = v.get(h, "str")
        if s is not None and not s.startswith("!") and dec(s) != src:
            out.append(fail(v, h, "str", f"str(URL({src!r})) = {dec(s)!r}: an already canonical URL was changed", c04_class(src, dec(s))))
    return out


AUTH_SCHEMES = set(up.uses_netloc)


def c04_class(src, got):
    """the listed deviations (KNOWN_FINDINGS.jsonl, C04), each recognised by input shape AND by the exact output the
    recorded behaviour produces — anything else is an unlisted change of a canonical URL"""
    m = re.match(r"^(?:([a-z][a-z0-9+.\-]*):)?(//([^/?#]*))?([^?#]*)(\?([^#]*))?(#(.*))?\Z", src, re.S)
    if not m:
        return "canonical-changed"
    scheme, has_auth, auth, path, has_q, query, has_f, frag = m.group(1) or "", m.group(2) is not None, m.group(3) or "", m.group(4), m.group(5) is not None, m.group(6) or "", m.group(7) is not None, m.group(8) or ""

    def unsplit(scheme, auth_defined, auth, path, query, frag):
        t = (scheme + ":" if scheme else "") + ("//" + auth if auth_defined else "") + path
        return t + ("?" + query if query else "") + ("#" + frag if frag else "")

    # empty '?' / '#' delimiters are dropped
    if ((has_q and not query) or (has_f and not frag)) and got == unsplit(scheme, has_auth, auth, path, query, frag):
        return "empty-delimiter-dropped"
    # '//' of an EMPTY authority is dropped for schemes that do not take an authority / added for those that do
    if has_auth and not auth and scheme not in AUTH_SCHEMES and got == unsplit(scheme, False, "", path, query, frag):
        return "empty-authority-dropped"
    if not has_auth and scheme in AUTH_SCHEMES and scheme and path.startswith("/") and not path.startswith("//") and got == unsplit(scheme, True, "", path, query, frag):
        return "authority-scheme-single-slash"
    # an empty path under an authority gets a '/' in front of '?' / '#'
    if has_auth and auth and not path and (query or frag) and got == unsplit(scheme, True, auth, "/", query, frag):
        return "empty-path-before-query"
    # a literal ':' in the password is escaped
    if has_auth and "@" in auth:
        ui, _, hp = auth.rpartition("@")
        u_, sep, pw = ui.partition(":")
        if sep and ":" in pw and got == unsplit(scheme, True, u_ + ":" + pw.replace(":", "%3A") + "@" + hp, path, query, frag):
            return "colon-in-password"
    return "canonical-changed"


def c04_streams(rng, tier, budget):
    st = Stream()
    n = int((3000 if tier == "quick" else 60000) * budget)
    # every literal character of each component, singly (exhaustive policy layer)
    for c in LIT_PATH:
        st.obs_all(st.new("http://h/a" + c + "b"), ["str"])
    for c in LIT_QF.replace("+", ""):
        st.obs_all(st.new("http://h/?a" + c + "b"), ["str"])
    for c in LIT_QF:
        st.obs_all(st.new("http://h/#a" + c + "b"), ["str"])
    for c in LIT_USER:
        st.obs_all(st.new("http://a" + c + "b@h/"), ["str"])
        st.obs_all(st.new("http://u:a" + c + "b@h/"), ["str"])
    for c in MUST_ESC:
        e = pct_utf8(c)
        for t in ("http://h/a%sb", "http://h/?a%sb", "http://h/#a%sb", "http://a%sb@h/"):
            st.obs_all(st.new(t % e), ["str"])
    # the "may be escaped" delimiters of each component, escaped, singly: an escape that the component may carry is not decoded
    for t, cs in (("http://h/a%sb", "/+"), ("http://h/a%sb/c", "/+"), ("http://a%sb@h/", ":@/?"), ("http://u:a%sb@h/", ":@/?"), ("http://h/?a%sb=c", "&=+;"), ("http://h/?k=a%sb", "&=+;")):
        for c in cs:
            st.obs_all(st.new(t % pct_utf8(c)), ["str"])
    # every canonical host shape, including registered names that LOOK like IPvFuture / IPv4 / hex groups, in every authority context
    hosts = [h for h in urlgen.REGNAMES if h == h.lower() and "%" not in h] + urlgen.IPV4 + ["[::1]", "[2001:db8::1]", "[fe80::1%eth0]", "[::ffff:102:304]"]
    for h in hosts:
        for sc in ("http", "ws", "x-y"):
            for ui in ("", "u@", "u:p@"):
                for pt in ("", ":8080", ":0"):
                    for tail in ("/", "/p%20q?a=b#f", ""):
                        if tail == "" and (ui or pt):
                            continue
                        st.obs_all(st.new(sc + "://" + ui + h + pt + (tail or "/")), ["str"])
    for _ in range(n):
        st.obs_all(st.new(canon_url(rng)), ["str"])
    yield "canonical-grammar", st
    # strings that are canonical BY THE LETTER of the property (every listed condition holds) in the corners the grammar above
    # avoids: empty '?' / '#', empty authority, empty path before a query, ':' in the password, authority scheme with one slash.
    # The recorded deviations are matched by shape and exact output (c04_class); anything else is reported.
    st2 = Stream()
    for base in ("http://h/a", "http://h/", "x:/p", "/p", "mailto:a", "//h/p", "http://u:p@h:8080/a/b"):
        for tail in ("?", "#", "?#", "?q#", "?#f"):
            st2.obs_all(st2.new(base + tail), ["str"])
    for s0 in ("x:///p", "x://", "svn-x:///a/b?q", "http://h?q", "http://h#f", "//h?q", "ws://h:8080?q#f", "http://u:p:w@h/", "http://u:a:b:c@h/p", "http:/p", "file:/p", "ftp:/a/b?q",
               "file:///p", "http://:p@h/", "x:", "x:?q", "", "?q", "#f", "a", "a/b?q#f", "./a:b", "http://h/a:b@c",
               # ':' and '@' in a LATER segment of a relative reference, sub-delims in the userinfo, '/' and '?' inside query and fragment, port 0,
               # an empty password, an empty query key, a trailing dot in the host, '~'
               "a/b:c", "img/x:1.png", "seg/u:p@x", "a/b:c?k=v#frag", "/a/b:c", "http://a!$&'()*+,;=b:p!$&'()*+,;=w@h/", "http://h/?a/b?c", "http://h/#a/b?c", "http://h:0/",
               "http://u:@h/", "http://h/?=v", "http://h./", "http://h/~a/b~", "http://[fe80::1%eth0]/", "//h/a:b/c:d", "http://h/?a:b@c/d?e", "http://h/#a:b@c/d?e",
               # dot segments are non-canonical only UNDER AN AUTHORITY: without one they are kept
               "/a/../b", "/.", "/..", "/a/./b/", "../a", "a/./b", "a/..", ".", "..", "mailto:/x/./y", "x:/a/../b", "x:a/../b", "/a/../b?q#f"):
        st2.obs_all(st2.new(s0), ["str"])
    yield "canonical-by-the-letter", st2


register(Prop("C04", c04_streams, compare=obs_filter(["str"]), oracle=c04_oracle,
              assumptions=["the random canonical grammar excludes IDN hosts; the corners in which yarl changes a string that is canonical by the letter of the property (empty '?'/'#', empty authority, empty path before a query, ':' in the password, authority scheme with a single slash) are exercised by the 'canonical-by-the-letter' stream and listed as known findings F-C04-*"]))


# ------------------------------------------------------------------ C05
def c05_oracle(full, io, b):
    # the comparison py-vs-c needs both runs; check.py runs the oracle per backend, so stash and compare on the second call
    out = []
    key = "c05"
    store = c05_oracle.__dict__.setdefault("store", {})
    sig = (len(full), hash(tuple(o.split("\t", 2)[0] + o.split("\t", 2)[2] if o.count("\t") >= 2 else o for o in full[:50])))
    if sig in store and store[sig][0] != b:
        ob, oio, ofull = store.pop(sig)
        for n, (x, y) in enumerate(zip(oio, io)):
            if x != y and full[n].split("\t")[0] in ("q", "uq"):
                f = full[n].split("\t")
                from props import pretty_out
                src = dec(f[3])
                desc = repr(src) if len(src) < 80 else f"{src[:30]!r}… (length {len(src)})"
                out.append({"what": f"{f[2]}({desc}): pure-Python and compiled results differ: {ob}={pretty_out(x)[:120]} {b}={pretty_out(y)[:120]}",
                            "class": "backend-mismatch", "n": n, "input": f"{f[2]}({desc})"})
                if len(out) > 20:
                    break
    else:
        store[sig] = (b, io, full)
    return out


def c05_streams(rng, tier, budget):
    yield "quoters+unquoters", quoter_stream(quoter_strings(rng, tier, budget))
    ks = (1, 2) if tier == "quick" else (1, 2, 3, 4)
    ll = gens.length_layer(8192, ks)
    yield "length-layers", quoter_stream(ll, quoters=["QUOTER", "PATH_REQUOTER", "QUERY_REQUOTER"], unquoters=["UNQUOTER"])
    n = int((150 if tier == "quick" else 2500) * budget)
    yield "urls", general_stream(rng, n, ["str", "val", "path", "query", "human_repr"], enc_frac=0.1)


register(Prop("C05", c05_streams, oracle=c05_oracle,
              trusted=["the compiled backend is Cython 3.0.12 + gcc output of the working tree's _quoting_c.pyx, rebuilt on every run"]))


# ------------------------------------------------------------------ C06
def ref_unquote(s, qs=False, unsafe="", ignore=""):
    """independent reference decoder: maximal well-formed UTF-8 sub-sequences of each escape run are decoded,
    everything else is kept verbatim"""
    out = []
    i = 0
    n = len(s)
    hexd = "0123456789abcdefABCDEF"

    DEFAULT_SAFE = "abcdefghijklmnopqrstuvwxyzABCDEFGHIJKLMNOPQRSTUVWXYZ0123456789-._~!$'()*,"

    def requote(ch, qsq=False):
        # what `_Quoter()` / `_Quoter(qs=True)` give for one decoded character
        if ch in DEFAULT_SAFE or (not qsq and ch in "+&=;"):
            return ch
        return "".join("%%%02X" % x for x in ch.encode("utf-8"))

    while i < n:
        if s[i] == "%" and i + 2 < n + 0 and i + 2 <= n - 1 + 0 and s[i + 1] in hexd and s[i + 2] in hexd:
            # collect the run of escapes
            j = i
            run = []
            while j + 2 < n + 0 and j + 2 <= n - 1 and s[j] == "%" and s[j + 1] in hexd and s[j + 2] in hexd:
                run.append((int(s[j + 1:j + 3], 16), s[j:j + 3]))
                j += 3
            k = 0
            while k < len(run):
                done = False
                for ln in (1, 2, 3, 4):
                    if k + ln <= len(run):
                        bs = bytes(x for x, _ in run[k:k + ln])
                        try:
                            ch = bs.decode("utf-8")
                        except UnicodeDecodeError:
                            continue
                        if len(ch) == 1:
                            if qs and ch in "+=&;":
                                out.append(requote(ch, True))
                            elif ch in unsafe or ch in ignore:
                                out.append(requote(ch))
                            else:
                                out.append(ch)
                            k += ln
                            done = True
                            break
                if not done:
                    out.append(run[k][1])
                    k += 1
            i = j
            continue
        c = s[i]
        i += 1
        if c == "+":
            out.append(" " if qs and "+" not in unsafe else "+")
        elif c in unsafe:
            out.append("%" + hex(ord(c)).upper()[2:])
        else:
            out.append(c)
    return "".join(out)


UQ_CFG = {"UNQUOTER": {}, "PATH_UNQUOTER": {"unsafe": "+"}, "PATH_SAFE_UNQUOTER": {"ignore": "/%", "unsafe": "+"}, "QS_UNQUOTER": {"qs": True}}
C06_OBS = ["user", "password", "path", "path_safe", "parts", "name", "suffix", "query", "query_string", "fragment",
           "raw_user", "raw_password", "raw_path", "raw_query_string", "raw_fragment", "raw_name", "raw_suffix", "raw_parts", "val"]


def no_surr(t):
    return not any(0xD800 <= ord(c) <= 0xDFFF for c in t)


def c06_oracle(full, io, b):
    out = []
    for n, o in enumerate(full):
        f = o.split("\t")
        if f[0] == "uq" and not io[n].startswith("!"):
            src, res = dec(f[3]), dec(io[n])
            exp = ref_unquote(src, **UQ_CFG[f[2]])
            if exp != res:
                out.append({"what": f"{f[2]}[{f[1]}]({src!r}) = {res!r}, reference percent-decoding gives {exp!r}", "class": "unquote-spec", "n": n,
                            "input": f"{f[2]}({src!r})"})
    v = View(full, io)
    # decoded accessor = reference decoding of the raw component
    for h in range(len(v.cr)):
        if not v.alive(h):
            continue
        for dn, rn, cfg in (("user", "raw_user", "UNQUOTER"), ("password", "raw_password", "UNQUOTER"), ("fragment", "raw_fragment", "UNQUOTER"),
                            ("name", "raw_name", "UNQUOTER"), ("suffix", "raw_suffix", "UNQUOTER"), ("query_string", "raw_query_string", "QS_UNQUOTER"),
                            ("path", "raw_path", "PATH_UNQUOTER"), ("path_safe", "raw_path", "PATH_SAFE_UNQUOTER")):
            a, r = v.get(h, dn), v.get(h, rn)
            if a is None or r is None or a.startswith("!") or r.startswith("!"):
                continue
            if r == "~":
                if a != "~":
                    out.append(fail(v, h, dn, f"{dn} is {dec(a)!r} but {rn} is None", "decoded-view"))
                continue
            exp = ref_unquote(dec(r), **UQ_CFG[cfg])
            if a == "~" or dec(a) != exp:
                out.append(fail(v, h, dn, f"{dn} = {None if a == '~' else dec(a)!r} but percent-decoding {rn} = {dec(r)!r} gives {exp!r}", "decoded-view",
                                also=[v.n_of(h, rn)]))
        # "parts" is the tuple of the decodings of "raw_parts" (the root marker '/' stays as it is)
        a, r = v.get(h, "parts"), v.get(h, "raw_parts")
        if a and r and not a.startswith("!") and not r.startswith("!"):
            ap, rp = dlist_a(a), dlist_a(r)
            exp = [x if (i == 0 and x == "/") else ref_unquote(x, **UQ_CFG["UNQUOTER"]) for i, x in enumerate(rp)]
            if ap != exp:
                out.append(fail(v, h, "parts", f"parts = {ap!r} is not the decoding {exp!r} of raw_parts = {rp!r}", "decoded-view", also=[v.n_of(h, "raw_parts")]))
        # query (multidict) view: valid UTF-8 escapes only (stdlib errors='replace' otherwise: listed known finding)
        qv, rq = v.get(h, "query"), v.get(h, "raw_query_string")
        if qv is not None and rq is not None and not qv.startswith("!") and not rq.startswith("!"):
            raw = dec(rq)
            pairs = []
            body = qv.partition(":")[2]
            for it in (body.split(",") if body else []):
                k, _, val = it.partition("=")
                pairs.append((dec(k), dec(val)))
            exp = []
            for piece in (raw.split("&") if raw else []):
                if not piece:
                    continue
                k, _, val = piece.partition("=")
                exp.append((ref_unquote(k.replace("+", " ")), ref_unquote(val.replace("+", " "))))
            if exp != pairs:
                # the listed finding: the value is exactly what stdlib parse_qsl(errors="replace") yields, and it contains a replacement character
                bad_utf8 = any("\ufffd" in a or "\ufffd" in c for a, c in pairs) and up.parse_qsl(raw, keep_blank_values=True) == pairs
                out.append(fail(v, h, "query", f"query = {pairs!r} but decoding raw_query_string = {raw!r} pairwise gives {exp!r}",
                                "query-undecodable-escape-replaced" if bad_utf8 else "query-view", also=[v.n_of(h, "raw_query_string")]))
    # read-back of supplied decoded values
    for h, n in enumerate(v.cr):
        f = full[n].split("\t")
        if not v.alive(h):
            continue
        if f[0] == "mod" and f[3] in ("with_user", "with_password", "with_fragment") and f[4] != "~":
            t = dec(f[4])
            acc = {"with_user": "user", "with_password": "password", "with_fragment": "fragment"}[f[3]]
            a = v.get(h, acc)
            if a is not None and not a.startswith("!") and no_surr(t):
                got = None if a == "~" else dec(a)
                exp = t if not (f[3] == "with_user" and t == "") else None
                if f[3] == "with_user" and t == "":
                    continue
                if got != exp:
                    out.append(fail(v, h, acc, f"{f[3]}({t!r}) reads back as {acc} = {got!r}", "readback"))
        if f[0] == "mod" and f[3] == "with_query" and len(f) > 4 and f[4][:1] in "PMKDU":
            # "supplied values read back unchanged": with_query(pairs / mapping) reads back through .query as exactly the supplied pairs
            try:
                from props_b import expand_arg
                e_ = expand_arg(f[4])
            except Exception:
                e_ = ("error",)
            qa = v.get(h, "query")
            if e_[0] == "pairs" and qa is not None and not qa.startswith("!") and all(no_surr(k_ + x_) for k_, x_ in e_[1]):
                body_ = qa.partition(":")[2]
                got_ = [(dec(it.partition("=")[0]), dec(it.partition("=")[2])) for it in (body_.split(",") if body_ else [])]
                if got_ != [(k_, x_) for k_, x_ in e_[1]]:
                    out.append(fail(v, h, "query", f"with_query({e_[1]!r}) reads back as query = {got_!r}", "readback"))
        if f[0] == "mod" and f[3] == "with_name":
            t = dec(f[4])
            a = v.get(h, "name")
            if a is not None and not a.startswith("!") and no_surr(t) and dec(a) != t:
                out.append(fail(v, h, "name", f"with_name({t!r}) reads back as name = {dec(a)!r}", "readback"))

        def dotty(t_):
            return any(sg in (".", "..") for sg in t_.split("/"))
        val = v.get(h, "val")
        has_auth = bool(val and val.startswith("L5:") and dlist_a(val)[1])
        if f[0] == "mod" and f[3] == "with_path" and f[5] == "F":
            t = dec(f[4])
            a = v.get(h, "path")
            if a is not None and not a.startswith("!") and no_surr(t) and not (has_auth and dotty(t)):
                got = dec(a)
                if got != t:
                    rooted = (t == "" and got == "/" and has_auth) or (t != "" and not t.startswith("/") and got == "/" + t)
                    out.append(fail(v, h, "path", f"with_path({t!r}) reads back as path = {got!r}", "readback-path-rooted" if rooted else "readback"))
        if f[0] == "mod" and f[3] in ("truediv", "joinpath") and (f[3] == "truediv" or f[4] == "F"):
            args = [dec(x) for x in (f[4:] if f[3] == "truediv" else f[5:])]
            if args:
                t = args[-1]
                a = v.get(h, "name")
                if a is not None and not a.startswith("!") and t and "/" not in t and t not in (".", "..") and no_surr(t) and dec(a) != t:
                    out.append(fail(v, h, "name", f"{f[3]}(…, {t!r}) reads back as name = {dec(a)!r}", "readback"))
        if f[0] == "bld":
            kw = dict(x.partition("=")[::2] for x in f[2:])
            if kw.get("encoded") != "T" and "authority" not in kw:
                for key, acc in (("user", "user"), ("password", "password"), ("fragment", "fragment"), ("path", "path")):
                    if key not in kw or kw[key] == "~":
                        continue
                    if key in ("user", "password") and not kw.get("host"):
                        continue
                    t = dec(kw[key])
                    a = v.get(h, acc)
                    if a is None or a.startswith("!") or not no_surr(t):
                        continue
                    got = None if a == "~" else dec(a)
                    if key == "user" and t == "":
                        continue                        # an empty user is no user (documented for with_user; same rule)
                    if key == "path" and ((has_auth and dotty(t)) or (t == "" and has_auth)):
                        continue
                    if got != t:
                        out.append(fail(v, h, acc, f"build({key}={t!r}) reads back as {acc} = {got!r}", "readback"))
    return out


def no_surr_a(t):
    return not any(0xD800 <= ord(c) <= 0xDFFF for c in t)


def dlist_a(x):
    body = x.partition(":")[2]
    return [dec(y) for y in body.split(",")] if body else []


def c06_streams(rng, tier, budget):
    yield "unquoters", quoter_stream(quoter_strings(rng, tier, budget), quoters=[])
    n = int((200 if tier == "quick" else 3000) * budget)
    yield "urls", general_stream(rng, n, C06_OBS, enc_frac=0.3, with_join=False,
                                 mods=["with_user", "with_password", "with_fragment", "with_name", "with_path", "with_query", "truediv", "joinpath", "with_suffix"])
    # every shape of a last path segment w.r.t. dots (leading, trailing, doubled, only dots, escaped dots and slashes), in both
    # constructor modes and through with_name: name / suffix / suffixes decoded vs raw (deterministic — does not depend on the draw)
    stn = Stream()
    names = ["a", "a.b", "a.b.c", ".hidden", ".hidden.txt", "..cache", "...", "a.", "a..", "a..b", "a.b.", ".", "..", "a%2Eb", "a.%2E", "%2E%2Ecache", "a%20b.t%20x",
             "a.b%2Fc", "é.ü", "a.%C3%A9", "a.%FF", "x.tar.gz", "x..gz", "-.-", "a b.c d", "",
             # a malformed escape directly in front of escaped hex digits (only reachable with encoded=True): decoding twice would join them up
             "a%%34%31", "%4%31", "seg%%32F", "x%C%33%A9", "%%2541", "%25%34%31", "%%%32%35"]
    obs = C06_OBS + ["suffixes", "raw_suffixes"]
    for nm in names:
        for pre in ("http://h/d/", "/d/", "d/", "http://h/"):
            stn.obs_all(stn.new(pre + nm), obs)
            stn.obs_all(stn.new(pre + nm, encoded=True), obs)
        if nm and "/" not in nm and "%" not in nm and nm not in (".", ".."):
            stn.obs_all(stn.mod(stn.new("http://h/d/x"), "with_name", enc(nm), "F", "F"), obs)
    # "set it to its RAW text": the argument equals, character for character, the raw form the component already has (with escapes in it).
    # The argument is decoded text, so its '%' must be escaped again and the text must read back as supplied
    for rawt in ["a%20b", "100%25", "x%2Fy", "%C3%A9", "%41", "a%2Bb", "%FF"]:
        bsu = stn.new("http://%s:%s@h/d/%s?k=%s#%s" % (rawt, rawt, rawt, rawt, rawt))
        stn.obs_all(bsu, C06_OBS)
        for nm, args in (("with_fragment", [enc(rawt)]), ("with_user", [enc(rawt)]), ("with_password", [enc(rawt)]), ("with_name", [enc(rawt), "T", "T"]),
                         ("with_path", [enc("/d/" + rawt), "F", "T", "T"])):
            m1 = stn.mod(bsu, nm, *args)
            stn.obs_all(m1, C06_OBS)
            stn.obs_all(stn.mod(m1, nm, enc(dec(args[0])) if nm != "with_path" else args[0], *args[1:]), C06_OBS)
    yield "name-shapes", stn
    # alias-then-clean: a decoded value supplied in a form that canonicalises to the SAME raw text (lone surrogates are dropped,
    # pre-encoded text is kept) is supplied first, through every route; then the clean text is supplied and must read back unchanged,
    # whatever objects the internal caches share between the two
    st = Stream()
    texts = ["section", "a b", "é", "x.y", "k"]
    for t in texts:
        dirty = [t[:1] + "\udc80" + t[1:], t + "\ud800", "\udfff" + t]
        for d in dirty + [t]:
            st.obs_all(st.build(scheme="http", host="h", path="/p", fragment=d), C06_OBS)
            st.obs_all(st.build(scheme="http", host="h", path="/p", user=d), C06_OBS)
            st.obs_all(st.build(scheme="http", host="h", path="/p", user="u", password=d), C06_OBS)
            st.obs_all(st.build(scheme="http", host="h", path="/" + d), C06_OBS)
            st.obs_all(st.build(scheme="http", host="h", path="/p", query_string="k=" + d), C06_OBS)
            base = st.new("http://h/p")
            st.obs_all(st.mod(base, "with_fragment", enc(d)), C06_OBS)
            st.obs_all(st.mod(base, "with_user", enc(d)), C06_OBS)
            st.obs_all(st.mod(st.new("http://u@h/p"), "with_password", enc(d)), C06_OBS)
            st.obs_all(st.mod(base, "with_path", enc("/" + d), "F", "F", "F"), C06_OBS)
            st.obs_all(st.mod(base, "with_name", enc(d), "F", "F"), C06_OBS)
            st.obs_all(st.mod(base, "truediv", enc(d)), C06_OBS)
            st.obs_all(st.mod(base, "with_query", "S" + enc("k=" + d)), C06_OBS)
            st.obs_all(st.mod(base, "with_query", "M" + enc("k") + "=s" + enc(d)), C06_OBS)
    yield "alias-then-clean", st


register(Prop("C06", c06_streams, compare=obs_filter(C06_OBS), oracle=c06_oracle,
              trusted=["modelled by hand: CPython's stateful UTF-8 decoder (Utf8.lean), stdlib parse_qsl/unquote (Query.lean)"]))


# ------------------------------------------------------------------ C07
RE_APPB = re.compile(r"^(([^:/?#]+):)?(//([^/?#]*))?([^?#]*)(\?([^#]*))?(#(.*))?", re.S)
SCHEME_CHARS = set("abcdefghijklmnopqrstuvwxyzABCDEFGHIJKLMNOPQRSTUVWXYZ0123456789+-.")
C07_OBS = ["scheme", "raw_authority", "raw_user", "raw_password", "raw_host", "explicit_port", "raw_path", "raw_query_string", "raw_fragment", "str", "val"]


def appendix_b(s):
    s = s.lstrip("".join(chr(i) for i in range(33)))
    s = s.replace("\t", "").replace("\r", "").replace("\n", "")
    scheme = ""
    m = re.match(r"^([^:/?#]+):", s, re.S)
    if m and all(c in SCHEME_CHARS for c in m.group(1)):
        scheme = m.group(1).lower()
        s = s[m.end():]
    m = RE_APPB.match(":" + s if False else s) if False else re.match(r"^(//([^/?#]*))?([^?#]*)(\?([^#]*))?(#(.*))?", s, re.S)
    return scheme, m.group(2) or "", m.group(3) or "", m.group(5) or "", m.group(7) or ""


def c07_oracle(full, io, b):
    out = []
    v = View(full, io)
    for n, o in enumerate(full):
        f = o.split("\t")
        if f[0] == "su":
            src = dec(f[1])
            exp = appendix_b(src)
            r = io[n]
            if r.startswith("L5:"):
                got = tuple(dec(x) for x in r[3:].split(","))
                if got != exp:
                    out.append({"what": f"split_url({src!r}) = {got!r}; RFC 3986 Appendix B gives {exp!r}", "class": "appendix-b", "n": n, "input": repr(src)})
            elif r != "!V":
                out.append({"what": f"split_url({src!r}) raised {r}", "class": "split-error-kind", "n": n, "input": repr(src)})
    for n, o in enumerate(full):
        f = o.split("\t")
        if f[0] == "sn" and not io[n].startswith("!"):
            auth = dec(f[1])
            got = [None if x == "~" else dec(x) for x in io[n].split(" ")[:3]]
            if "@" in auth:
                ui, _, hp = auth.rpartition("@")
                eu, sep, epw = ui.partition(":")
                exp_user, exp_pw = (eu or None), (epw if sep else None)
            else:
                hp, exp_user, exp_pw = auth, None, None
            if "[" in hp:
                exp_host = hp.partition("[")[2].partition("]")[0] or None
            else:
                exp_host = hp.partition(":")[0] or None
            if got != [exp_user, exp_pw, exp_host]:
                out.append({"what": f"split_netloc({auth!r}) = user/password/host {got!r}; the authority splits into {[exp_user, exp_pw, exp_host]!r} (last '@', first ':' of the userinfo, host up to ':' or inside the brackets of the host part)",
                            "class": "authority-split", "n": n, "input": repr(auth)})
    for h, n in enumerate(v.cr):
        f = full[n].split("\t")
        if f[0] != "new" or f[2] != "e" or not v.alive(h):
            continue
        src = dec(f[3])
        exp = appendix_b(src)
        val = v.get(h, "val")
        if val and val.startswith("L5:"):
            got = tuple(dec(x) for x in val[3:].split(","))
            if got != exp:
                out.append(fail(v, h, "val", f"URL({src!r}, encoded=True) stores {got!r}; Appendix B gives {exp!r}", "appendix-b"))
        # authority split
        auth = exp[1]
        ru, rp, rh, ep = (v.get(h, x) for x in ("raw_user", "raw_password", "raw_host", "explicit_port"))
        if None in (ru, rp, rh, ep) or any(x.startswith("!") for x in (ru, rp, rh, ep)):
            continue
        if "@" in auth:
            ui, _, hp = auth.rpartition("@")
            eu, sep, epw = ui.partition(":")
            exp_user = eu or None
            exp_pw = epw if sep else None
        else:
            hp, exp_user, exp_pw = auth, None, None
        got_user = None if ru == "~" else dec(ru)
        got_pw = None if rp == "~" else dec(rp)
        if (got_user, got_pw) != (exp_user, exp_pw):
            out.append(fail(v, h, "raw_user", f"authority {auth!r}: user/password = {(got_user, got_pw)!r}, expected {(exp_user, exp_pw)!r}", "authority-split"))
    # "for every URL the raw accessors re-compose to str(url)" (RFC 3986 5.3 recomposition of scheme, raw_authority, raw_path,
    # raw_query_string, raw_fragment).  Two recorded deviations are recognised by the exact output they produce.
    dports = {"http": 80, "https": 443, "ws": 80, "wss": 443, "ftp": 21}
    for h in range(len(v.cr)):
        if not v.alive(h):
            continue
        vals = [v.get(h, x) for x in ("scheme", "raw_authority", "raw_path", "raw_query_string", "raw_fragment", "str")]
        if None in vals or any(x.startswith("!") for x in vals):
            continue
        sc, au, pa, qu, fr, st_ = (dec(x) for x in vals)

        def comp(au_, pa_, slashes):
            t = (sc + ":" if sc else "") + ("//" + au_ if (au_ or slashes) else "") + pa_
            return t + ("?" + qu if qu else "") + ("#" + fr if fr else "")
        cands = {comp(au, pa, False), comp(au, pa, True)} if not au else {comp(au, pa, False)}
        if not au and pa.startswith("//"):
            # RFC 3986 3.3 / 5.3: without an authority a path cannot begin with "//" - the empty authority has to be written, or the
            # string decomposes differently (authority = the first segment)
            cands = {comp(au, pa, True)}
        if st_ in cands:
            continue
        cls = "recompose"
        # (a) str() omits an explicit port equal to the scheme default (C17), raw_authority keeps it
        au2 = au
        m_ = re.match(r"^(.*):([^:\]@]*)\Z", au, re.S)
        try:
            pnum = int(m_.group(2)) if m_ else None         # the port text is read by int(): ' 80', '+80', '0080' are 80
        except ValueError:
            pnum = None
        if m_ and pnum is not None and dports.get(sc) == pnum:
            au2 = m_.group(1)
        # (b) raw_path is '/' for an empty path under an authority, str() writes nothing there (unless a query/fragment follows)
        alts = {au}
        if au2 != au:
            alts.add(au2)
            # … the authority is then re-made from raw_user, raw_password and host_subcomponent, which brackets a host only
            # when it contains ':' (a bracketed host without one, e.g. IPvFuture '[v1.a]', comes back bare)
            ui_, at_, hp_ = au2.rpartition("@")
            if hp_.startswith("[") and hp_.endswith("]") and ":" not in hp_:
                alts.add(ui_ + at_ + hp_[1:-1])
        if au2 != au:
            ru_, rp_, rh_ = (v.get(h, x) for x in ("raw_user", "raw_password", "raw_host"))
            if rh_ is not None and not any(x is None or x.startswith("!") for x in (ru_, rp_, rh_)):
                u_ = None if ru_ == "~" else dec(ru_)
                p_ = None if rp_ == "~" else dec(rp_)
                h_ = "" if rh_ == "~" else dec(rh_)
                hs_ = "[" + h_ + "]" if ":" in h_ else h_
                alts.add((((u_ or "") + ":" + p_ + "@") if p_ is not None else ((u_ + "@") if u_ else "")) + hs_)      # make_netloc(user, password, host_subcomponent, None)
        pas = [pa] + ([""] if (pa == "/" and au and not qu and not fr) else [])
        for a_ in alts:
            for p_ in pas:
                for sl in ((False, True) if not a_ else (False,)):
                    if (a_, p_) != (au, pa) and st_ == comp(a_, p_, sl):
                        cls = "recompose-default-port" if a_ != au else "recompose-empty-path"
        # (c) a rootless path under a scheme of urllib's uses_netloc is written after '///' (F-C03-rootless)
        if cls == "recompose" and not au and sc in AUTH_SCHEMES and pa and not pa.startswith("/") and \
                st_ == sc + ":///" + pa + ("?" + qu if qu else "") + ("#" + fr if fr else ""):
            cls = "recompose-rootless-authority-scheme"
        out.append(fail(v, h, "str", f"str(url) = {st_!r} is not the recomposition of scheme {sc!r}, raw_authority {au!r}, raw_path {pa!r}, raw_query_string {qu!r}, raw_fragment {fr!r}", cls))
    return out


def c07_streams(rng, tier, budget):
    st = Stream()
    maxlen = 4 if tier == "quick" else 5
    for s in urlgen.delimiter_strings(maxlen):
        st.add("su\t" + enc(s))
    for pre in ["http:", "//", "x://a", " \t", "a\n:"]:
        for s in urlgen.delimiter_strings(3):
            st.add("su\t" + enc(pre + s))
    # leading runs of C0 controls / space in every order with TAB, CR, LF inside them (all of it is stripped / removed before the scheme scan)
    for lead in ["\n ", "\t\x00", " \r\n  ", "\x1f\t\x01", "\r \n", "\t \t ", " \x00\n\x7f", "\n", " ", "\x00", "\t\r\n", "  \t"]:
        for body in ("http://h/p?q#f", "x:p", "//h", "p"):
            st.add("su\t" + enc(lead + body))
            st.obs_all(st.new(lead + body, encoded=True), ["val", "scheme", "raw_host", "raw_path", "str"])
            st.obs_all(st.new(lead + body), ["val", "scheme", "raw_host", "raw_path", "str"])
    # runs of 0-6 slashes after every kind of scheme, in both constructor modes, with the string form read back: an empty authority in front
    # of a path that begins with "//" has to be written ("////a" is authority '', path '//a', NOT authority 'a')
    for sch in ["", "x:", "http:", "ws:", "X:", "file:", " \t"]:
        for k in range(7):
            for tail in ["a/b", "a", "", "?q", "#f", "a//b", "/?#"]:
                s = sch + "/" * k + tail
                st.add("su\t" + enc(s))
                st.obs_all(st.new(s, encoded=True), C07_OBS)
                st.obs_all(st.new(s), C07_OBS)
    yield "delimiter-strings", st
    st3 = Stream()
    for s in gens.strings_over(["[", "]", "@", ":", "a", "1", ".", "v"], 5 if tier == "quick" else 6):
        st3.add("sn\t" + enc(s))
    for s in gens.strings_over(["[", "]", "@", ":", "a", "1"], 4):
        st3.obs_all(st3.new("//" + s, encoded=True), ["raw_user", "raw_password", "raw_host", "explicit_port", "val"])
        st3.obs_all(st3.new("x://" + s + "/p"), ["raw_user", "raw_password", "raw_host", "explicit_port", "val", "str"])
    yield "authority-strings", st3
    st2 = Stream()
    n = int((500 if tier == "quick" else 8000) * budget)
    for _ in range(n):
        s = urlgen.rand_url_string(rng)
        st2.add("su\t" + enc(s))
        h = st2.new(s, encoded=True)
        st2.obs_all(h, C07_OBS)
        if rng.random() < 0.3:
            st2.obs_all(st2.new(s), C07_OBS)
    for s in urlgen.delimiter_strings(3):
        st2.obs_all(st2.new("//" + s, encoded=True), ["raw_user", "raw_password", "raw_host", "explicit_port", "val"])
    yield "urls", st2


register(Prop("C07", c07_streams, compare=obs_filter(C07_OBS), oracle=c07_oracle,
              assumptions=["NFKC normalisation (unicodedata) enters as an oracle table",
                           "the scheme group of Appendix B is restricted to urllib's scheme_chars+ (a leading digit/+/-/. is accepted)"]))
