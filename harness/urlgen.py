"""Generators for URL strings, build() arguments, modifier arguments and op streams."""
import itertools
import random

from core import enc
import gens

SCHEMES = ["http", "https", "ws", "wss", "ftp", "file", "mailto", "", "HTTP", "hTTps", "a+b.c", "x", "git+ssh", "1a", "svn"]
USERS = [None, "", "user", "u%20s", "us er", "u:s", "ü", "%41", "a@b", "%", "u%2", "U", "%FF", "%C3%28", "%e2%82", "u%2fv", "\udc80", "u\udc80", "\ud800\udfff"]
PASSWORDS = [None, "", "pw", "p%40w", "p:w", "p@w", "p w", "ä", "%zz", "%FF", "%C3%28", "%E2%82", "%80x", "p%3aw", "\udc80", "p\udc80"]
REGNAMES = ["h", "example.com", "EXAMPLE.com", "a-b.c_d~e", "h.", "h..", "xn--tda.com", "a!$&'()*+,;=b", "sub.Example.ORG",
            "1.2.3", "256.1.1.1", "01.2.3.4", "1.2.3.4.", "a%20b", "a%2fb", "localhost",
            # look-alikes of the special host syntaxes (IPvFuture, IPv4, hex groups) that are ordinary registered names
            "v1.example.com", "vc.ru", "vf.io", "v6.example.net", "fe80.example", "dead.beef", "1.2.3.example", "0x7f.1", "h1", "v1.a.b",
            # percent-encoded octets inside a registered name, in either hex case
            "ex%2Fample.com", "a%3Ab", "%C3%BC.example", "x%aBy", "ex%2fample.com", "%41.com"]
IPV4 = ["127.0.0.1", "1.2.3.4", "255.255.255.255", "0.0.0.0"]
IPV6 = ["::1", "::", "2001:db8::1", "2001:DB8:0:0:0:0:0:1", "1:2:3:4:5:6:7:8", "::ffff:1.2.3.4", "fe80::1%eth0", "fe80::1%25eth0",
        "1::", "fe80::1%é", "::1%тест", "0:0:0:0:0:0:0:0", "1:0:0:2:0:0:0:3", "::1:2:3:4:5:6:7", "1:2:3:4:5:6:7::", "2001:db8::", "0:0:1::", "::0:0:1",
        "fe80::1%", "1:2:3:4:5:6:1.2.3.4", "１:0:0:0:0:0:0:2", "::ｆfff:1.2.3.4", "fe80::¹%eth0", "２001:DB8::", "v1.a", "vF.x:y", "1:2", ":::", "1:::2", "12345::", "g::1", "::1%z%y", "::1.2.3", "1:2:3:4:5:6:7:8:9"]
IDN = ["ex［ample.com", "a］b.é", "ü.com", "例え.jp", "bücher.example", "A_B.ü.com", "ß.de", "İ.com", "a／b", "ｅxample.com", "xn--a.é", "a­b.é", "é" * 64 + ".com", "１.2.3.4", "٣",
       "user＠example.com", "a：b.com", "a﹕80", "a﹫b", "x℀y.com", "a＃b", "a？b", "good.com＠evil.org",
       # an IDN whose LAST label is ASCII and ends in a digit (looks like the tail of an IPv4 address to a careless test)
       # A-labels that only IDNA 2008 decodes (sharp s, final sigma) next to a label the idna package refuses: whole-host decoding falls back
       "_dmarc.xn--strae-oqa.de", "a_b.xn--fa-hia.de", "xn--nxasmm1c.a!b", "_x.straße.de",
       "bücher.h1", "ü.com2", "例え.x9", "xn--bcher-kva.h1", "é.1a2", "i❤.ws", "☃.net", "my_svc.bücher.de", "xn--i-7iq.ws"]
PORTS = ["", ":", ":0", ":80", ":443", ":21", ":8080", ":65535", ":65536", ":abc", ":+1", ":1_0", ": 80", ":-1", ":٣", ":80:81", ":00080"]
PATHS = ["", "/", "/a", "/a/b/", "/a/../b", "/./a", "/a/.", "/..", "/a/%2e%2E/b", "/a%2Fb", "/a b", "/é", "/%C3%A9", "/a;b=c", "/a:b@c",
         "a", "a/b", "../a", "./a", "a:b", "a%3Ab", "//a", "/a//b", "/%", "/%zz", "/a+b", "/a%2Bb", "/.a/b.", "/...", "/a.b.c", "/a.", "/.tar.gz",
         "/a/b.txt", "/a%20b.txt", "/\udc80", "/a?b", "/%41%7e",
         "/a%2fb", "/x/..%2f..%2fy", "/a%25b", "/a%2fb%25", "/doc.tar.", "/v1.2.tar.", "/a..", "/..a.", "/a.b.", "/%FF/x", "/c%C3/%A9"]
QUERIES = [None, "", "a=1", "a=1&b=2", "a=1&a=2", "a", "a=", "=b", "&", "a=1&", "a=b=c", "a+b=c+d", "a%2Bb=%26", "a=%C3%A9", "a=%FF", "é=ü", "a;b=1",
           "a=1;b=2", "x=%3D%3d", "a=b#c", "a=%", "a=%2", "a b=c d", "a=1&&b=2", "?a=/:@", "a[]=1", "a=\udc80", "a=%00"]
FRAGMENTS = [None, "", "frag", "a b", "%41", "é", "a#b", "a?b/c", "%", "%2f", "\udcff", "a%20b"]


def pick(rng, xs):
    return xs[rng.randrange(len(xs))]


def rand_host(rng):
    k = rng.random()
    if k < 0.45:
        return pick(rng, REGNAMES)
    if k < 0.55:
        return pick(rng, IPV4)
    if k < 0.75:
        return "[" + pick(rng, IPV6) + "]"
    if k < 0.88:
        return pick(rng, IDN)
    if k < 0.92:
        return ""
    return gens.rand_text(rng, 6)


def rand_url_string(rng):
    scheme = pick(rng, SCHEMES)
    s = scheme + ":" if scheme else ""
    if rng.random() < 0.8:
        auth = ""
        u = pick(rng, USERS)
        p = pick(rng, PASSWORDS)
        if rng.random() < 0.4 and u is not None:
            auth += u
            if p is not None and rng.random() < 0.6:
                auth += ":" + p
            auth += "@"
        auth += rand_host(rng)
        auth += pick(rng, PORTS) if rng.random() < 0.5 else ""
        s += "//" + auth
    path = pick(rng, PATHS) if rng.random() < 0.8 else "/" + gens.rand_text(rng, 8)
    s += path
    q = pick(rng, QUERIES)
    if q is not None and rng.random() < 0.6:
        s += "?" + (q if rng.random() < 0.8 else gens.rand_text(rng, 8))
    f = pick(rng, FRAGMENTS)
    if f is not None and rng.random() < 0.4:
        s += "#" + f
    # mutations (malformed stream)
    r = rng.random()
    if r < 0.05 and s:
        i = rng.randrange(len(s))
        s = s[:i] + s[i + 1:]
    elif r < 0.10 and s:
        i = rng.randrange(len(s))
        s = s[:i] + pick(rng, list(":/?#[]@%. \t\n")) + s[i:]
    elif r < 0.13:
        s = pick(rng, [" ", "\t", "\x00 ", "\n"]) + s
    return s


DELIM_ALPHABET = [":", "/", "?", "#", "[", "]", "@", "%", ".", "a", "1", "v"]


def delimiter_strings(maxlen):
    return gens.strings_over(DELIM_ALPHABET, maxlen)


OBS_ALL = ["str", "bytes", "scheme", "raw_authority", "authority", "raw_user", "user", "raw_password", "password", "raw_host", "host",
           "host_subcomponent", "host_port_subcomponent", "port", "explicit_port", "is_default_port", "raw_path", "path", "path_safe",
           "query", "raw_query_string", "query_string", "path_qs", "raw_path_qs", "raw_fragment", "fragment", "raw_parts", "parts",
           "raw_name", "name", "raw_suffix", "suffix", "raw_suffixes", "suffixes", "human_repr", "absolute", "bool", "val"]


class Stream:
    """op stream with handle bookkeeping; `B` is a placeholder for the backend field"""

    def __init__(self):
        self.ops = []
        self.nurls = 0
        self.meta = []  # free-form description per op (for replays)

    def add(self, line, creates=False):
        self.ops.append(line)
        if creates:
            self.nurls += 1
            return self.nurls - 1
        return None

    def new(self, s, encoded=False):
        return self.add("new\tB\t%s\t%s" % ("e" if encoded else "a", enc(s)), True)

    def obs(self, h, name):
        self.add("obs\tB\t%d\t%s" % (h, name))

    def obs_all(self, h, names=OBS_ALL):
        for n in names:
            self.obs(h, n)

    def mod(self, h, name, *args):
        return self.add("\t".join(["mod", "B", str(h), name] + list(args)), True)

    def join(self, h1, h2):
        return self.add("jn\tB\t%d\t%d" % (h1, h2), True)

    def cmp(self, h1, h2):
        self.add("cmp\t%d\t%d" % (h1, h2))

    def rt(self, h):
        return self.add("rt\tB\t%d" % h, True)

    def hre(self, h):
        return self.add("hre\tB\t%d" % h, True)

    def hr(self, h):
        return self.add("hr\tB\t%d" % h, True)

    def pkl(self, h):
        return self.add("pkl\t%d" % h, True)

    def build(self, **kw):
        fields = []
        for k, v in kw.items():
            if k in ("user", "password", "scheme", "authority", "host", "path", "query_string", "fragment"):
                fields.append(k + "=" + enc(v))
            elif k == "port":
                fields.append("port=" + ("~" if v is None else ("T" if v is True else ("X" if isinstance(v, str) else str(v)))))
            elif k == "query":
                fields.append("query=" + v)
            elif k == "encoded":
                fields.append("encoded=" + ("T" if v else "F"))
        return self.add("\t".join(["bld", "B"] + fields), True)

    def for_backend(self, b):
        return [l.replace("\tB\t", "\t%s\t" % b, 1) if "\tB\t" in l else (l[:-2] + "\t" + b if l.endswith("\tB") else l) for l in self.ops]


def qval(v):
    if isinstance(v, bool):
        return "b"
    if v is None:
        return "n"
    if isinstance(v, str):
        return "s" + enc(v)
    if isinstance(v, int):
        return "i" + str(v)
    if isinstance(v, float):
        import math
        kind = "1" if math.isinf(v) else ("2" if math.isnan(v) else "0")
        return "f" + kind + ":" + enc(str(float(v)))
    return "o"


def qitem(v):
    if isinstance(v, (list, tuple)):
        return "[" + "|".join(qval(x) for x in v) + "]"
    return qval(v)


def qarg(kind, items=None, text=None):
    """kind: N, S, M (dict), D (MultiDict), K (kwargs), P (list of pairs), U (tuple of pairs), B0, B1, O"""
    if kind == "N":
        return "N"
    if kind == "S":
        return "S" + enc(text)
    if kind in ("B0", "B1", "O"):
        return kind
    return kind + ";".join(enc(k) + "=" + qitem(v) for k, v in items)
