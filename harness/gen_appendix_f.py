"""Regenerate DESIGN.md's Appendix F (property theorems by file) from the Lean sources.  Usage: python3 harness/gen_appendix_f.py"""
import glob
import os
import re

VERIF = os.path.dirname(os.path.dirname(os.path.abspath(__file__)))
p = os.path.join(VERIF, "DESIGN.md")
s = open(p).read()
marker = "## Appendix F — property theorems by file (generated from the sources; `harness/check.py` audits exactly these)"
if marker in s:
    s = s[:s.index(marker)].rstrip() + "\n"
out = [marker, "",
       "Every name below is a theorem whose `#print axioms` ⊆ {propext, Classical.choice, Quot.sound} is re-checked on every run",
       "of the property's check (`core.audit`).  `…_counterexample` / `…_needed` / `…_false` theorems prove, from a concrete witness,",
       "that a guard of the neighbouring theorem cannot be dropped (they are the Lean side of the known findings).", ""]
total = 0
for f in sorted(glob.glob(os.path.join(VERIF, "lean", "YarlProofs", "C*.lean"))):
    names = re.findall(r"^theorem (C\d\d_\w+)", open(f).read(), re.M)
    total += len(names)
    out.append(f"* `{os.path.basename(f)}` ({len(names)}): " + ", ".join(f"`{n}`" for n in names))
out.append("")
out.append(f"Total: {total} property theorems.")
open(p, "w").write(s.rstrip() + "\n\n" + "\n".join(out) + "\n")
print(total)
