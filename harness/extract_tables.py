#!/venv/bin/python
"""Table translator: /repo's current sources -> lean/YarlModel/Generated.lean.

Run as:  extract_tables.py <scratch-copy-root>   (prints the Lean text on stdout)

Everything here is *data* the theorems depend on: character sets, quoter and
unquoter configurations, port and scheme tables, strip sets, the reg-name
character class, BUF_SIZE, the literal arguments of human_quote, and two small
source audits (slot writers, GIL facts).  Algorithms are tied by the
correspondence check instead.
"""
import ast
import os
import re
import sys
import string


def lean_str(s):
    return "[" + ", ".join(str(ord(c)) for c in s) + "]"


def lean_strs(xs):
    return "[" + ", ".join(lean_str(x) for x in xs) + "]"


def lean_bool(b):
    return "true" if b else "false"


def pyx_constants(pyx_text):
    """Evaluate the `cdef str NAME = <expr>` and `DEF NAME = <expr>` lines."""
    env = {"ascii_letters": string.ascii_letters, "digits": string.digits}
    out = {}
    for line in pyx_text.splitlines():
        m = re.match(r"^cdef str (\w+)\s*=\s*(.+)$", line)
        if not m:
            m = re.match(r"^DEF (\w+)\s*=\s*([^#]+)", line)
        if m:
            name, expr = m.group(1), m.group(2).strip()
            val = eval(compile(ast.parse(expr, mode="eval"), "<pyx>", "eval"), {"__builtins__": {}}, dict(env, **out))
            out[name] = val
    return out


def quoter_instances(root):
    """AST of _quoters.py: NAME = _Quoter(kw...) / _Unquoter(kw...)."""
    src = open(os.path.join(root, "yarl", "_quoters.py")).read()
    qs, us = [], []
    for node in ast.parse(src).body:
        if isinstance(node, ast.Assign) and isinstance(node.value, ast.Call) and isinstance(node.value.func, ast.Name):
            fn = node.value.func.id
            if fn not in ("_Quoter", "_Unquoter"):
                continue
            name = node.targets[0].id
            if node.value.args:
                raise SystemExit(f"positional arguments in {name}")
            kw = {k.arg: ast.literal_eval(k.value) for k in node.value.keywords}
            if fn == "_Quoter":
                qs.append((name, kw.get("safe", ""), kw.get("protected", ""), bool(kw.get("qs", False)), bool(kw.get("requote", True))))
            else:
                us.append((name, kw.get("ignore", ""), kw.get("unsafe", ""), bool(kw.get("qs", False))))
    return qs, us


def human_quote_args(root):
    """literal second arguments of human_quote(...) inside URL.human_repr, by the name of the first argument."""
    src = open(os.path.join(root, "yarl", "_url.py")).read()
    tree = ast.parse(src)
    res = []
    for node in ast.walk(tree):
        if isinstance(node, ast.FunctionDef) and node.name == "human_repr":
            for c in ast.walk(node):
                if isinstance(c, ast.Call) and isinstance(c.func, ast.Name) and c.func.id == "human_quote":
                    a0 = c.args[0]
                    if isinstance(a0, ast.Attribute):
                        key = a0.attr
                    elif isinstance(a0, ast.Name):
                        key = a0.id
                    else:
                        key = "?"
                    res.append((key, ast.literal_eval(c.args[1])))
    return res


SLOTS = {"_scheme", "_netloc", "_path", "_query", "_fragment", "_cache"}


def slot_writers(root):
    """names of functions in _url.py that assign to a URL slot of some object."""
    src = open(os.path.join(root, "yarl", "_url.py")).read()
    tree = ast.parse(src)
    writers = set()

    def visit(fn_name, node):
        for c in ast.iter_child_nodes(node):
            if isinstance(c, (ast.FunctionDef, ast.AsyncFunctionDef)):
                visit(c.name, c)
                continue
            if isinstance(c, ast.ClassDef):
                visit(fn_name, c)
                continue
            targets = []
            if isinstance(c, ast.Assign):
                targets = c.targets
            elif isinstance(c, (ast.AugAssign, ast.AnnAssign)):
                targets = [c.target]
            elif isinstance(c, ast.Delete):
                targets = c.targets
            flat = []
            for t in targets:
                if isinstance(t, (ast.Tuple, ast.List)):
                    flat.extend(t.elts)
                else:
                    flat.append(t)
            for t in flat:
                if isinstance(t, ast.Attribute) and t.attr in SLOTS:
                    writers.add(fn_name)
            visit(fn_name, c)

    visit("<module>", tree)
    # setattr/object.__setattr__ with a slot name anywhere
    for node in ast.walk(tree):
        if isinstance(node, ast.Call):
            f = node.func
            nm = f.id if isinstance(f, ast.Name) else (f.attr if isinstance(f, ast.Attribute) else "")
            if nm in ("setattr", "__setattr__", "__delattr__", "delattr"):
                writers.add("<setattr-call>")
    return sorted(writers)


def slot_writes_only_fresh(root):
    """every assignment to a URL slot outside __setstate__ targets a local name bound, in the same function,
    to `object.__new__(URL)`; nothing deletes a slot; no setattr-style call"""
    src = open(os.path.join(root, "yarl", "_url.py")).read()
    tree = ast.parse(src)
    ok = True
    for fn in ast.walk(tree):
        if not isinstance(fn, (ast.FunctionDef, ast.AsyncFunctionDef)):
            continue
        fresh = set()
        for node in ast.walk(fn):
            if isinstance(node, ast.Assign) and isinstance(node.value, ast.Call):
                f = node.value.func
                if isinstance(f, ast.Attribute) and f.attr == "__new__" and isinstance(f.value, ast.Name) and f.value.id == "object":
                    for t in node.targets:
                        if isinstance(t, ast.Name):
                            fresh.add(t.id)
        for node in ast.walk(fn):
            targets = []
            if isinstance(node, ast.Assign):
                targets = node.targets
            elif isinstance(node, (ast.AugAssign, ast.AnnAssign)):
                targets = [node.target]
            elif isinstance(node, ast.Delete):
                targets = node.targets
            flat = []
            for t in targets:
                flat.extend(t.elts if isinstance(t, (ast.Tuple, ast.List)) else [t])
            for t in flat:
                if isinstance(t, ast.Attribute) and t.attr in SLOTS:
                    if isinstance(node, ast.Delete):
                        ok = False
                    elif fn.name == "__setstate__":
                        continue
                    elif not (isinstance(t.value, ast.Name) and t.value.id in fresh):
                        ok = False
    return ok


QNAMES = ["QUOTER", "REQUOTER", "PATH_QUOTER", "PATH_REQUOTER", "QUERY_QUOTER", "QUERY_REQUOTER", "QUERY_PART_QUOTER", "FRAGMENT_QUOTER",
          "FRAGMENT_REQUOTER", "UNQUOTER", "PATH_UNQUOTER", "PATH_SAFE_UNQUOTER", "QS_UNQUOTER"]


def wiring(root):
    """which quoter / unquoter constants each function of _url.py, _query.py and _parse.py refers to"""
    out = []
    for mod in ("_url.py", "_query.py", "_parse.py"):
        tree = ast.parse(open(os.path.join(root, "yarl", mod)).read())
        for fn in ast.walk(tree):
            if isinstance(fn, (ast.FunctionDef, ast.AsyncFunctionDef)):
                used = sorted({n.id for n in ast.walk(fn) if isinstance(n, ast.Name) and n.id in QNAMES})
                if used:
                    out.append((mod[:-3].lstrip("_") + "." + fn.name, used))
    return sorted(out)


def gil_facts(root):
    pyx = open(os.path.join(root, "yarl", "_quoting_c.pyx")).read()
    code = "\n".join(l.split("#")[0] for l in pyx.splitlines())
    return {
        "noNogil": not re.search(r"\bnogil\b", code),
        "noWithGil": not re.search(r"with\s+gil", code),
        "noAllowThreads": "Py_BEGIN_ALLOW_THREADS" not in code and "PyEval_SaveThread" not in code,
        "bufferIsModuleStatic": bool(re.search(r"^cdef char BUFFER\[BUF_SIZE\]", pyx, re.M)),
    }


def main():
    root = sys.argv[1]
    sys.path.insert(0, root)
    os.environ["YARL_NO_EXTENSIONS"] = "1"
    import yarl._quoting_py as qp
    import yarl._parse as parse
    import yarl._url as url
    from urllib.parse import scheme_chars

    pyx = pyx_constants(open(os.path.join(root, "yarl", "_quoting_c.pyx")).read())
    # quoter / unquoter configurations: two independent readings — the AST of _quoters.py (keyword literals) and the live
    # pure-Python instances.  A behaviour-preserving rewrite may defeat one of them (positional arguments, computed strings,
    # renamed private attributes); either alone is accepted, and when both succeed they must agree.
    import yarl._quoters as qmod
    try:
        ast_q, ast_u = quoter_instances(root)
    except (SystemExit, Exception):
        ast_q = ast_u = None
    try:
        live_q, live_u = [], []
        names = [n for n in vars(qmod) if n.isupper()]
        order = {n: i for i, n in enumerate(re.findall(r"^([A-Z_]+)\s*=", open(os.path.join(root, "yarl", "_quoters.py")).read(), re.M))}
        for n in sorted(names, key=lambda x: order.get(x, 999)):
            inst = getattr(qmod, n)
            if type(inst).__name__ == "_Quoter":
                live_q.append((n, inst._safe, inst._protected, bool(inst._qs), bool(inst._requote)))
            elif type(inst).__name__ == "_Unquoter":
                live_u.append((n, inst._ignore, inst._unsafe, bool(inst._qs)))
    except Exception:
        live_q = live_u = None
    if ast_q is not None and live_q is not None:
        if sorted((a[0], set(a[1]), set(a[2]), a[3], a[4]) for a in ast_q) != sorted((a[0], set(a[1]), set(a[2]), a[3], a[4]) for a in live_q) and \
                [(a[0],) + tuple(map(repr, a[1:])) for a in ast_q] != [(a[0],) + tuple(map(repr, a[1:])) for a in live_q]:
            raise SystemExit("quoter configurations: the source text and the live instances disagree")
    quoters, unquoters = (ast_q, ast_u) if ast_q is not None else (live_q, live_u)
    if quoters is None:
        raise SystemExit("quoter configurations could not be read from the source or from the live instances")

    L = []
    w = L.append
    w("-- GENERATED by harness/extract_tables.py from /repo's current sources. Do not edit.")
    w("import YarlModel.Config")
    w("namespace Yarl.Gen")
    w("")
    w(f"def allowedPy : Str := {lean_str(qp.ALLOWED)}")
    w(f"def unreservedPy : Str := {lean_str(qp.UNRESERVED)}")
    w(f"def subDelimsWithoutQsPy : Str := {lean_str(qp.SUB_DELIMS_WITHOUT_QS)}")
    w(f"def allowedC : Str := {lean_str(pyx['ALLOWED'])}")
    w(f"def qsC : Str := {lean_str(pyx['QS'])}")
    w(f"def bufSize : Nat := {int(pyx['BUF_SIZE'])}")
    w("")
    for name, safe, prot, qs, requote in quoters:
        w(f"def {name} : QArgs := {{ name := \"{name}\", safe := {lean_str(safe)}, prot := {lean_str(prot)}, qs := {lean_bool(qs)}, requote := {lean_bool(requote)} }}")
    w("def allQuoters : List QArgs := [" + ", ".join(n for n, *_ in quoters) + "]")
    for name, ign, uns, qs in unquoters:
        w(f"def {name} : UArgs := {{ name := \"{name}\", ignoreS := {lean_str(ign)}, unsafeS := {lean_str(uns)}, qs := {lean_bool(qs)} }}")
    w("def allUnquoters : List UArgs := [" + ", ".join(n for n, *_ in unquoters) + "]")
    w("")
    hq = human_quote_args(root)
    w("def humanUnsafe : List (String × Str) := [" + ", ".join(f"(\"{k}\", {lean_str(v)})" for k, v in hq) + "]")
    w("")
    w("def defaultPorts : List (Str × Nat) := [" + ", ".join(f"({lean_str(k)}, {v})" for k, v in url.DEFAULT_PORTS.items()) + "]")
    w(f"def schemeRequiresHost : List Str := {lean_strs(sorted(url.SCHEME_REQUIRES_HOST))}")
    w(f"def usesRelative : List Str := {lean_strs(sorted(url.USES_RELATIVE))}")
    w(f"def usesAuthority : List Str := {lean_strs(sorted(parse.USES_AUTHORITY))}")
    w(f"def schemeChars : Str := {lean_str(scheme_chars)}")
    w(f"def stripSet : Str := {lean_str(parse.WHATWG_C0_CONTROL_OR_SPACE)}")
    w(f"def removeSet : Str := {lean_str(''.join(parse.UNSAFE_URL_BYTES_TO_REMOVE))}")
    # NOT_REG_NAME probed per ASCII character (the %-rule is modelled by hand)
    ok = "".join(chr(i) for i in range(128) if chr(i) != "%" and not url.NOT_REG_NAME.search(chr(i)))
    w(f"def regNameChars : Str := {lean_str(ok)}")
    pct_ok = bool(not url.NOT_REG_NAME.search("%0a") and url.NOT_REG_NAME.search("%0A") and url.NOT_REG_NAME.search("%a") and url.NOT_REG_NAME.search("%"))
    w(f"def regNamePctLowerHexOnly : Bool := {lean_bool(pct_ok)}")
    w(f"def defaultIdnaSize : Nat := {url._DEFAULT_IDNA_SIZE}")
    w(f"def defaultEncodeSize : Nat := {url._DEFAULT_ENCODE_SIZE}")
    w("")
    sw = slot_writers(root)
    w("def slotWriters : List String := [" + ", ".join(f"\"{x}\"" for x in sw) + "]")
    w(f"def slotWritesOnlyFresh : Bool := {lean_bool(slot_writes_only_fresh(root))}")
    g = gil_facts(root)
    for k, v in g.items():
        w(f"def {k} : Bool := {lean_bool(v)}")
    w("")
    w("end Yarl.Gen")
    print("\n".join(L))


if __name__ == "__main__":
    main()
