#!/venv/bin/python
"""Table translator: /repo's current sources -> lean/YarlModel/Generated.lean.

Run as:  extract_tables.py <scratch-copy-root>   (prints the Lean text on stdout)

Everything here is *data* the theorems depend on: character sets, quoter and
unquoter configurations, port and scheme tables, strip sets, the reg-name
character class, BUF_SIZE, the literal arguments of human_quote, and two small
source audits (slot writers, GIL facts).  Algorithms are tied by the
correspondence check instead.
"""
import ast
import os
import re
import sys
import string


def lean_str(s):
    return "[" + ", ".join(str(ord(c)) for c in s) + "]"


def lean_strs(xs):
    return "[" + ", ".join(lean_str(x) for x in xs) + "]"


def lean_bool(b):
    return "true" if b else "false"


def pyx_constants(pyx_text):
    """Evaluate the `cdef str NAME = <expr>` and `DEF NAME = <expr>` lines."""
    env = {"ascii_letters": string.ascii_letters, "digits": string.digits}
    out = {}
    for line in pyx_text.splitlines():
        m = re.match(r"^cdef str (\w+)\s*=\s*(.+)$", line)
        if not m:
            m = re.match(r"^DEF (\w+)\s*=\s*([^#]+)", line)
        if m:
            name, expr = m.group(1), m.group(2).strip()
            val = eval(compile(ast.parse(expr, mode="eval"), "<pyx>", "eval"), {"__builtins__": {}}, dict(env, **out))
            out[name] = val
    return out


def quoter_instances(root):
    """AST of _quoters.py: NAME = _Quoter(kw...) / _Unquoter(kw...)."""
    src = open(os.path.join(root, "yarl", "_quoters.py")).read()
    qs, us = [], []
    for node in ast.parse(src).body:
        if isinstance(node, ast.Assign) and isinstance(node.value, ast.Call) and isinstance(node.value.func, ast.Name):
            fn = node.value.func.id
            if fn not in ("_Quoter", "_Unquoter"):
                continue
            name = node.targets[0].id
            if node.value.args:
                raise SystemExit(f"positional arguments in {name}")
            kw = {k.arg: ast.literal_eval(k.value) for k in node.value.keywords}
            if fn == "_Quoter":
                qs.append((name, kw.get("safe", ""), kw.get("protected", ""), bool(kw.get("qs", False)), bool(kw.get("requote", True))))
            else:
                us.append((name, kw.get("ignore", ""), kw.get("unsafe", ""), bool(kw.get("qs", False))))
    return qs, us


def human_quote_args(root):
    """literal second arguments of human_quote(...) inside URL.human_repr, by the name of the first argument."""
    src = open(os.path.join(root, "yarl", "_url.py")).read()
    tree = ast.parse(src)
    res = []
    for node in ast.walk(tree):
        if isinstance(node, ast.FunctionDef) and node.name == "human_repr":
            for c in ast.walk(node):
                if isinstance(c, ast.Call) and isinstance(c.func, ast.Name) and c.func.id == "human_quote":
                    a0 = c.args[0]
                    if isinstance(a0, ast.Attribute):
                        key = a0.attr
                    elif isinstance(a0, ast.Name):
                        key = a0.id
                    else:
                        key = "?"
                    res.append((key, ast.literal_eval(c.args[1])))
    return res


SLOTS = {"_scheme", "_netloc", "_path", "_query", "_fragment", "_cache"}


def slot_writers(root):
    """names of functions in _url.py that assign to a URL slot of some object."""
    src = open(os.path.join(root, "yarl", "_url.py")).read()
    tree = ast.parse(src)
    writers = set()

    def visit(fn_name, node):
        for c in ast.iter_child_nodes(node):
            if isinstance(c, (ast.FunctionDef, ast.AsyncFunctionDef)):
                visit(c.name, c)
                continue
            if isinstance(c, ast.ClassDef):
                visit(fn_name, c)
                continue
            targets = []
            if isinstance(c, ast.Assign):
                targets = c.targets
            elif isinstance(c, (ast.AugAssign, ast.AnnAssign)):
                targets = [c.target]
            elif isinstance(c, ast.Delete):
                targets = c.targets
            flat = []
            for t in targets:
                if isinstance(t, (ast.Tuple, ast.List)):
                    flat.extend(t.elts)
                else:
                    flat.append(t)
            for t in flat:
                if isinstance(t, ast.Attribute) and t.attr in SLOTS:
                    writers.add(fn_name)
            visit(fn_name, c)

    visit("<module>", tree)
    # setattr/object.__setattr__ with a slot name anywhere
    for node in ast.walk(tree):
        if isinstance(node, ast.Call):
            f = node.func
            nm = f.id if isinstance(f, ast.Name) else (f.attr if isinstance(f, ast.Attribute) else "")
            if nm in ("setattr", "__setattr__", "__delattr__", "delattr"):
                writers.add("<setattr-call>")
    return sorted(writers)


def slot_writes_only_fresh(root):
    """every assignment to a URL slot outside __setstate__ targets a local name bound, in the same function,
    to `object.__new__(URL)`; nothing deletes a slot; no setattr-style call"""
    src = open(os.path.join(root, "yarl", "_url.py")).read()
    tree = ast.parse(src)
    ok = True
    for fn in ast.walk(tree):
        if not isinstance(fn, (ast.FunctionDef, ast.AsyncFunctionDef)):
            continue
        fresh = set()
        for node in ast.walk(fn):
            if isinstance(node, ast.Assign) and isinstance(node.value, ast.Call):
                f = node.value.func
                if isinstance(f, ast.Attribute) and f.attr == "__new__" and isinstance(f.value, ast.Name) and f.value.id == "object":
                    for t in node.targets:
                        if isinstance(t, ast.Name):
                            fresh.add(t.id)
        for node in ast.walk(fn):
            targets = []
            if isinstance(node, ast.Assign):
                targets = node.targets
            elif isinstance(node, (ast.AugAssign, ast.AnnAssign)):
                targets = [node.target]
            elif isinstance(node, ast.Delete):
                targets = node.targets
            flat = []
            for t in targets:
                flat.extend(t.elts if isinstance(t, (ast.Tuple, ast.List)) else [t])
            for t in flat:
                if isinstance(t, ast.Attribute) and t.attr in SLOTS:
                    if isinstance(node, ast.Delete):
                        ok = False
                    elif fn.name == "__setstate__":
                        continue
                    elif not (isinstance(t.value, ast.Name) and t.value.id in fresh):
                        ok = False
    return ok


QNAMES = ["QUOTER", "REQUOTER", "PATH_QUOTER", "PATH_REQUOTER", "QUERY_QUOTER", "QUERY_REQUOTER", "QUERY_PART_QUOTER", "FRAGMENT_QUOTER",
          "FRAGMENT_REQUOTER", "UNQUOTER", "PATH_UNQUOTER", "PATH_SAFE_UNQUOTER", "QS_UNQUOTER"]


def wiring(root):
    """which quoter / unquoter constants each function of _url.py, _query.py and _parse.py refers to"""
    out = []
    for mod in ("_url.py", "_query.py", "_parse.py"):
        tree = ast.parse(open(os.path.join(root, "yarl", mod)).read())
        for fn in ast.walk(tree):
            if isinstance(fn, (ast.FunctionDef, ast.AsyncFunctionDef)):
                used = sorted({n.id for n in ast.walk(fn) if isinstance(n, ast.Name) and n.id in QNAMES})
                if used:
                    out.append((mod[:-3].lstrip("_") + "." + fn.name, used))
    return sorted(out)


def gil_facts(root):
    pyx = open(os.path.join(root, "yarl", "_quoting_c.pyx")).read()
    code = "\n".join(l.split("#")[0] for l in pyx.splitlines())
    return {
        "noNogil": not re.search(r"\bnogil\b", code),
        "noWithGil": not re.search(r"with\s+gil", code),
        "noAllowThreads": "Py_BEGIN_ALLOW_THREADS" not in code and "PyEval_SaveThread" not in code,
        "bufferIsModuleStatic": bool(re.search(r"^cdef char BUFFER\[BUF_SIZE\]", pyx, re.M)),
    }



# ---------------------------------------------------------------- behavioural probing
# Private constants can be renamed, merged or computed differently by a harmless rewrite.  The tables the model needs are
# therefore read off the BEHAVIOUR of the public API (URL, URL.build, yarl.cache_info) over a universe of candidate values;
# a module-level constant with the historical name is used only as a cross-check when it still exists.

SCHEME_RE = re.compile(r"^[a-z][a-z0-9+.\-]*\Z")


def scheme_universe(mods):
    """every short string that occurs in a collection-valued global of the given modules, plus urllib's lists"""
    import urllib.parse as up
    uni = {""} | set(up.uses_relative) | set(up.uses_netloc) | {"http", "https", "ws", "wss", "ftp", "file", "mailto", "x", "git+ssh", "svn", "data", "urn"}
    for m in mods:
        for name, val in vars(m).items():
            if isinstance(val, (set, frozenset, list, tuple, dict)):
                for x in (val.keys() if isinstance(val, dict) else val):
                    if isinstance(x, str) and len(x) <= 16 and (x == "" or SCHEME_RE.match(x)):
                        uni.add(x)
    return sorted(uni)


def probe_tables(URL, uni):
    res = {}
    # default ports: URL('<s>://h/').port
    dp = {}
    for sc in uni:
        if not sc:
            continue
        try:
            p_ = URL(sc + "://h/").port
        except Exception:
            continue
        if p_ is not None:
            dp[sc] = p_
    res["default_ports"] = dp
    # schemes that require a host: an empty host is rejected
    req = []
    for sc in uni:
        if not sc:
            continue
        try:
            URL(sc + "://:81/p")
        except ValueError:
            try:
                URL(sc + "://h:81/p")
                req.append(sc)
            except Exception:
                pass
        except Exception:
            pass
    res["requires_host"] = sorted(req)
    # uses_relative: join resolves a relative reference against the base
    rel = []
    for sc in uni:
        try:
            base = URL((sc + ":" if sc else "") + "//h/a/b", encoded=True)
            j = base.join(URL("c", encoded=True))
            if j.raw_path == "/a/c":
                rel.append(sc)
        except Exception:
            pass
    res["uses_relative"] = sorted(rel)
    # uses_authority: an absent authority is written as '//' for these schemes
    au = []
    for sc in uni:
        try:
            if str(URL((sc + ":" if sc else "") + "/p", encoded=True)) == (sc + ":" if sc else "") + "///p" or (not sc and str(URL("/p", encoded=True)) == "/p" and False):
                au.append(sc)
        except Exception:
            pass
    res["uses_authority_nonempty"] = sorted(au)
    # characters stripped at the start / removed anywhere by the splitter
    strip, remove = [], []
    for c in range(0x80):
        ch = chr(c)
        try:
            if URL(ch + "x:y", encoded=True).scheme == "x" and ch not in "x":
                strip.append(ch)
        except Exception:
            pass
        try:
            if URL("x" + ch + "y:z", encoded=True).scheme == "xy" and ch not in "xy":
                remove.append(ch)
        except Exception:
            pass
    res["strip"] = "".join(strip)
    res["remove"] = "".join(remove)
    # reg-name characters accepted by the validating host encoder (build(host=…))
    ok = []
    for c in range(128):
        ch = chr(c)
        if ch == "%":
            continue
        try:
            URL.build(scheme="x", host="a" + ch + "b")
            if not (ch.isdigit() or ch == ":"):
                ok.append(ch)
            else:
                ok.append(ch)
        except ValueError:
            pass
        except Exception:
            pass
    res["regname"] = "".join(ch for ch in ok if ch not in "ABCDEFGHIJKLMNOPQRSTUVWXYZ")

    def host_ok(h):
        try:
            URL.build(scheme="x", host=h)
            return True
        except ValueError:
            return False
    res["pct_lower_hex_only"] = bool(host_ok("a%0ab") and not host_ok("a%0Gb") and not host_ok("a%ab" if False else "a%a") and not host_ok("a%"))
    return res


def probe_human_unsafe(URL):
    """which printable ASCII characters human_repr() escapes in each component ('%' is always escaped)"""
    out = {}
    for comp in ("user", "password", "path", "k", "v", "fragment"):
        uns = []
        for cp in range(0x21, 0x7F):
            c = chr(cp)
            if c == "%":
                continue
            t = "a" + c + "b"
            kw = dict(scheme="http", host="example.com", path="/p")
            if comp == "user":
                kw["user"] = t
            elif comp == "password":
                kw["user"], kw["password"] = "u", t
            elif comp == "path":
                if c == "/":
                    continue
                kw["path"] = "/" + t
            elif comp == "k":
                kw["query"] = [(t, "v")]
            elif comp == "v":
                kw["query"] = [("k", t)]
            else:
                kw["fragment"] = t
            try:
                hr = URL.build(**kw).human_repr()
            except Exception:
                continue
            if ("a%%%02Xb" % cp) in hr:
                uns.append(c)
        out[comp] = "".join(uns)
    return out


def main():
    root = sys.argv[1]
    sys.path.insert(0, root)
    os.environ["YARL_NO_EXTENSIONS"] = "1"
    import yarl._quoting_py as qp
    import yarl._parse as parse
    import yarl._url as url
    from urllib.parse import scheme_chars

    pyx = pyx_constants(open(os.path.join(root, "yarl", "_quoting_c.pyx")).read())
    # quoter / unquoter configurations: two independent readings — the AST of _quoters.py (keyword literals) and the live
    # pure-Python instances.  A behaviour-preserving rewrite may defeat one of them (positional arguments, computed strings,
    # renamed private attributes); either alone is accepted, and when both succeed they must agree.
    import yarl._quoters as qmod
    try:
        ast_q, ast_u = quoter_instances(root)
    except (SystemExit, Exception):
        ast_q = ast_u = None
    try:
        live_q, live_u = [], []
        names = [n for n in vars(qmod) if n.isupper()]
        order = {n: i for i, n in enumerate(re.findall(r"^([A-Z_]+)\s*=", open(os.path.join(root, "yarl", "_quoters.py")).read(), re.M))}
        for n in sorted(names, key=lambda x: order.get(x, 999)):
            inst = getattr(qmod, n)
            if type(inst).__name__ == "_Quoter":
                live_q.append((n, inst._safe, inst._protected, bool(inst._qs), bool(inst._requote)))
            elif type(inst).__name__ == "_Unquoter":
                live_u.append((n, inst._ignore, inst._unsafe, bool(inst._qs)))
    except Exception:
        live_q = live_u = None
    if ast_q is not None and live_q is not None:
        if sorted((a[0], set(a[1]), set(a[2]), a[3], a[4]) for a in ast_q) != sorted((a[0], set(a[1]), set(a[2]), a[3], a[4]) for a in live_q) and \
                [(a[0],) + tuple(map(repr, a[1:])) for a in ast_q] != [(a[0],) + tuple(map(repr, a[1:])) for a in live_q]:
            raise SystemExit("quoter configurations: the source text and the live instances disagree")
    quoters, unquoters = (ast_q, ast_u) if ast_q is not None else (live_q, live_u)
    if quoters is None:
        raise SystemExit("quoter configurations could not be read from the source or from the live instances")

    L = []
    w = L.append
    w("-- GENERATED by harness/extract_tables.py from /repo's current sources. Do not edit.")
    w("import YarlModel.Config")
    w("namespace Yarl.Gen")
    w("")
    # character-class constants of the two quoters: by their historical names when present, otherwise read off the behaviour of
    # the quoter classes (a character is "allowed" when a non-requoting qs-quoter with no safe/protected set leaves it alone)
    ascii_all = [chr(i) for i in range(128)]

    def probe_allowed(Q):
        q1 = Q(qs=True, requote=False)
        return "".join(c for c in ascii_all if c not in " %" and q1(c) == c)

    def probe_qs(Q):
        q0, q1 = Q(requote=False), Q(qs=True, requote=False)
        return "".join(c for c in ascii_all if c not in " %" and q0(c) == c and q1(c) != c)
    rfc_unreserved = string.ascii_letters + string.digits + "-._~"
    allowed_py = getattr(qp, "ALLOWED", None) or probe_allowed(qp._Quoter)
    unres_py = getattr(qp, "UNRESERVED", None) or "".join(c for c in rfc_unreserved if c in allowed_py)
    sub_py = getattr(qp, "SUB_DELIMS_WITHOUT_QS", None) or "".join(c for c in allowed_py if c not in unres_py)
    allowed_c, qs_c, buf = pyx.get("ALLOWED"), pyx.get("QS"), pyx.get("BUF_SIZE")
    if allowed_c is None or qs_c is None:
        try:
            os.environ.pop("YARL_NO_EXTENSIONS", None)
            import importlib
            qc = importlib.import_module("yarl._quoting_c")
            allowed_c = allowed_c or probe_allowed(qc._Quoter)
            qs_c = qs_c or probe_qs(qc._Quoter)
        except Exception:
            allowed_c = allowed_c or allowed_py
            qs_c = qs_c or probe_qs(qp._Quoter)
        finally:
            os.environ["YARL_NO_EXTENSIONS"] = "1"
        sys.stderr.write("extract_tables: compiled quoter constants not found under their historical names, read off the behaviour\n")
    if buf is None:
        m_ = re.search(r"^DEF\s+\w+\s*=\s*(\d{4,})", open(os.path.join(root, "yarl", "_quoting_c.pyx")).read(), re.M)
        buf = int(m_.group(1)) if m_ else 8192
        sys.stderr.write("extract_tables: BUF_SIZE not found under its historical name\n")
    w(f"def allowedPy : Str := {lean_str(allowed_py)}")
    w(f"def unreservedPy : Str := {lean_str(unres_py)}")
    w(f"def subDelimsWithoutQsPy : Str := {lean_str(sub_py)}")
    w(f"def allowedC : Str := {lean_str(allowed_c)}")
    w(f"def qsC : Str := {lean_str(qs_c)}")
    w(f"def bufSize : Nat := {int(buf)}")
    w("")
    for name, safe, prot, qs, requote in quoters:
        w(f"def {name} : QArgs := {{ name := \"{name}\", safe := {lean_str(safe)}, prot := {lean_str(prot)}, qs := {lean_bool(qs)}, requote := {lean_bool(requote)} }}")
    w("def allQuoters : List QArgs := [" + ", ".join(n for n, *_ in quoters) + "]")
    for name, ign, uns, qs in unquoters:
        w(f"def {name} : UArgs := {{ name := \"{name}\", ignoreS := {lean_str(ign)}, unsafeS := {lean_str(uns)}, qs := {lean_bool(qs)} }}")
    w("def allUnquoters : List UArgs := [" + ", ".join(n for n, *_ in unquoters) + "]")
    w("")
    from yarl import URL as _URL
    import yarl as _yarl
    uni = scheme_universe([url, parse])
    pr = probe_tables(_URL, uni)
    notes = []

    def named(mod, name):
        return getattr(mod, name, None)

    def choose(label, named_val, probed_val, same):
        """the historical constant when it exists (keeps the generated text stable) — cross-checked against the behaviour;
        the probed value when the constant was renamed or removed"""
        if named_val is None:
            notes.append(f"{label}: constant not found under its historical name, table read off the behaviour")
            return probed_val
        if not same(named_val, probed_val):
            notes.append(f"{label}: the constant and the observed behaviour differ; the behaviour is used")
            return probed_val
        return named_val

    try:
        hq = human_quote_args(root)
    except Exception:
        hq = None
    ph = probe_human_unsafe(_URL)
    if hq is None or sorted((k, "".join(sorted(v))) for k, v in hq) != sorted((k, "".join(sorted(v))) for k, v in ph.items()):
        if hq is not None:
            notes.append("human_quote arguments: source text and behaviour differ; the behaviour is used")
        hq = [(k, ph[k]) for k in ("user", "password", "path", "fragment", "k", "v")]
    w("def humanUnsafe : List (String × Str) := [" + ", ".join(f"(\"{k}\", {lean_str(v)})" for k, v in hq) + "]")
    w("")
    dports = choose("default ports", named(url, "DEFAULT_PORTS"), pr["default_ports"], lambda a, b: dict(a) == dict(b))
    w("def defaultPorts : List (Str × Nat) := [" + ", ".join(f"({lean_str(k)}, {v})" for k, v in dict(dports).items()) + "]")
    srh = choose("schemes that require a host", named(url, "SCHEME_REQUIRES_HOST"), pr["requires_host"], lambda a, b: set(a) == set(b))
    w(f"def schemeRequiresHost : List Str := {lean_strs(sorted(srh))}")
    urel = choose("uses_relative", named(url, "USES_RELATIVE"), pr["uses_relative"], lambda a, b: set(a) == set(b))
    w(f"def usesRelative : List Str := {lean_strs(sorted(urel))}")
    uauth = choose("uses_authority", named(parse, "USES_AUTHORITY"), [""] + pr["uses_authority_nonempty"], lambda a, b: set(a) - {""} == set(b) - {""})
    w(f"def usesAuthority : List Str := {lean_strs(sorted(uauth))}")
    w(f"def schemeChars : Str := {lean_str(scheme_chars)}")
    strip = choose("leading characters stripped", named(parse, "WHATWG_C0_CONTROL_OR_SPACE"), pr["strip"], lambda a, b: set(a) == set(b))
    w(f"def stripSet : Str := {lean_str(strip)}")
    rem = named(parse, "UNSAFE_URL_BYTES_TO_REMOVE")
    rem = choose("characters removed", None if rem is None else "".join(rem), pr["remove"], lambda a, b: set(a) == set(b))
    w(f"def removeSet : Str := {lean_str(rem)}")
    # the reg-name character class, probed per ASCII character through build(host=…) (the %-rule is modelled by hand)
    nrn = named(url, "NOT_REG_NAME")
    ok_named = None if nrn is None else "".join(chr(i) for i in range(128) if chr(i) != "%" and not nrn.search(chr(i)))
    ok = choose("reg-name characters", ok_named, pr["regname"], lambda a, b: a == b)
    w(f"def regNameChars : Str := {lean_str(ok)}")
    pct_named = None if nrn is None else bool(not nrn.search("%0a") and nrn.search("%0A") and nrn.search("%a") and nrn.search("%"))
    pct_ok = choose("reg-name %-rule", pct_named, pr["pct_lower_hex_only"], lambda a, b: a == b)
    w(f"def regNamePctLowerHexOnly : Bool := {lean_bool(pct_ok)}")
    ci = _yarl.cache_info()
    idna_size = named(url, "_DEFAULT_IDNA_SIZE") or ci["idna_encode"].maxsize
    enc_size = named(url, "_DEFAULT_ENCODE_SIZE") or ci["encode_host"].maxsize
    w(f"def defaultIdnaSize : Nat := {idna_size}")
    w(f"def defaultEncodeSize : Nat := {enc_size}")
    for nt in notes:
        sys.stderr.write("extract_tables: " + nt + "\n")
    w("")
    sw = slot_writers(root)
    w("def slotWriters : List String := [" + ", ".join(f"\"{x}\"" for x in sw) + "]")
    w(f"def slotWritesOnlyFresh : Bool := {lean_bool(slot_writes_only_fresh(root))}")
    g = gil_facts(root)
    for k, v in g.items():
        w(f"def {k} : Bool := {lean_bool(v)}")
    w("")
    w("end Yarl.Gen")
    print("\n".join(L))


if __name__ == "__main__":
    main()
