#!/bin/sh
# usage: seed_verify.sh <deliver-dir> <name>
# confirms in a fresh scratch worktree: demo passes without the change; with it the pinned suite passes (both backends) and the demo fails.
D="$1"; N="$2"; W=/tmp/sv-$N
git -C /repo worktree remove --force $W >/dev/null 2>&1
git -C /repo worktree add --detach $W HEAD >/dev/null 2>&1 || exit 2
/tmp/mutkit/build_ext.sh $W >/dev/null 2>&1 || { echo "ext build failed (base)"; }
cp "$D/demo.py" /tmp/sv-$N-demo.py
( cd $W && timeout 600 /venv/bin/python /tmp/sv-$N-demo.py >/tmp/sv-$N.base.log 2>&1 ); B=$?
git -C $W apply "$D/patch.diff" || { echo "patch does not apply"; git -C /repo worktree remove --force $W; exit 2; }
/tmp/mutkit/build_ext.sh $W >/dev/null 2>&1 || echo "ext build failed (patched)"
( cd $W && /venv/bin/python -m pytest -q -p no:cacheprovider tests 2>&1 | tail -1 ) > /tmp/sv-$N.t1.log
( cd $W && YARL_NO_EXTENSIONS=1 /venv/bin/python -m pytest -q -p no:cacheprovider tests 2>&1 | tail -1 ) > /tmp/sv-$N.t2.log
( cd $W && timeout 600 /venv/bin/python /tmp/sv-$N-demo.py >/tmp/sv-$N.mut.log 2>&1 ); M=$?
echo "$N: demo base=$B (want 0) patched=$M (want !=0); tests C: $(cat /tmp/sv-$N.t1.log); tests py: $(cat /tmp/sv-$N.t2.log)"
git -C /repo worktree remove --force $W
rm -f /tmp/sv-$N-demo.py
