"""Properties C08–C14: scope, generators, direct oracles."""
import re

import gens
import urlgen
from core import dec, enc
from props import (MODS, QKEYS, QVALS, REFS, TEXTS, Prop, Stream, View, describe_handle, fail, general_stream, obs_filter, pick,
                   pretty_out, rand_build, rand_items, rand_mod, rand_qarg, register)
from urlgen import qarg

ALL_OBS = urlgen.OBS_ALL


def dlist(x):
    body = x.partition(":")[2]
    return [dec(y) for y in body.split(",")] if x[1:x.index(":")] != "0" else []


def dpairs(x):
    body = x.partition(":")[2]
    if x[1:x.index(":")] == "0":
        return []
    return [tuple(dec(z) for z in y.split("=")) for y in body.split(",")]


def dopt(x):
    return None if x == "~" else dec(x)


# ------------------------------------------------------------------ C08
def c08_streams(rng, tier, budget):
    """long op streams over a shared pool with cache operations interleaved: the model is stateless, so any
    dependence of the real code on history shows up as a disagreement"""
    n = int((120 if tier == "quick" else 1500) * budget)
    st = Stream()
    pool_strs = [urlgen.rand_url_string(rng) for _ in range(25)]
    pool = []
    sizes = ["0", "1", "2", "~", "256"]
    for i in range(n):
        r = rng.random()
        if r < 0.08:
            st.add("cc\tclear")
        elif r < 0.16:
            st.add("cc\tconfigure\t%s\t%s\t%s" % (pick(rng, sizes), pick(rng, sizes), pick(rng, sizes)))
        s = pick(rng, pool_strs)
        h = st.new(s, encoded=(rng.random() < 0.1))
        pool.append(h)
        st.obs_all(h, [pick(rng, ALL_OBS) for _ in range(4)])
        for _ in range(3):
            tgt = pick(rng, pool)
            k = rng.random()
            if k < 0.5:
                m = rand_mod(rng, st, tgt)
                pool.append(m)
                st.obs_all(m, [pick(rng, ALL_OBS) for _ in range(3)])
            elif k < 0.6:
                j = st.join(tgt, pick(rng, pool))
                pool.append(j)
            elif k < 0.7:
                st.cmp(tgt, pick(rng, pool))
            elif k < 0.8:
                p = st.pkl(tgt)
                pool.append(p)
                st.obs_all(p, [pick(rng, ALL_OBS) for _ in range(3)])
            else:
                st.obs_all(tgt, [pick(rng, ALL_OBS) for _ in range(5)])
        if len(pool) > 60:
            pool = pool[-60:]
    st.add("cc\tconfigure\t256\t256\t512")
    yield "histories", st
    # observe everything, derive, observe everything: a derived URL must not inherit anything but its parts
    st2 = Stream()
    bases = ["http://example.com:443/p", "https://example.com:80/p?q#f", "http://u:p@[::1]:80/a/b.txt", "ftp://h:21/x", "ws://h:8080", "//:77", "foo://u@/p",
             "http://h./a?a=1&a=2", "http://bücher.example:80/ü", "x://H:0/"] + [urlgen.rand_url_string(rng) for _ in range(int((25 if tier == "quick" else 400) * budget))]
    targeted = [("with_scheme", [enc("https")]), ("with_scheme", [enc("http")]), ("with_scheme", [enc("x")]), ("with_port", ["80"]), ("with_port", ["443"]),
                ("with_port", ["~"]), ("with_host", [enc("Other.example")]), ("with_user", [enc("n")]), ("with_user", ["~"]), ("with_password", [enc("w")]),
                ("with_fragment", [enc("g")]), ("with_query", ["S" + enc("k=v")]), ("extend_query", ["S" + enc("k=v")]), ("with_path", [enc("/n.x"), "F", "T", "T"]),
                ("with_name", [enc("n.y"), "T", "T"]), ("with_suffix", [enc(".z"), "T", "T"]), ("truediv", [enc("c")]), ("parent", []), ("origin", []), ("relative", [])]
    for bs in bases:
        for warm in (True, False):
            h = st2.new(bs)
            if warm:
                st2.obs_all(h, ALL_OBS)
                for nm in ("parent", "origin", "relative"):      # cached derivations count as observations too
                    st2.obs_all(st2.mod(h, nm), ["str"])
            for nm, args in targeted:
                m = st2.mod(h, nm, *args)
                st2.obs_all(m, ALL_OBS)
                st2.obs_all(st2.pkl(m), ALL_OBS)
                for nm2 in ("parent", "origin", "relative"):
                    st2.obs_all(st2.mod(m, nm2), ["str", "val"])
            st2.obs_all(h, ALL_OBS)
    yield "observe-derive-observe", st2
    # compare, fill every per-object cache of both operands (accessors, hash, pickling/copying, derivations), compare again:
    # the outcome of ==, <, hash-equality for a pair must not depend on what was done to the operands in between
    st3 = Stream()
    pairs = []
    for s0 in ["http://example.com", "http://u:p@example.com:81", "//example.com", "http://h/a", "http://h/?q", "x:", "http://[::1]", "", "/", "http://h:80",
               "http://é.example"] + [urlgen.rand_url_string(rng) for _ in range(int((15 if tier == "quick" else 200) * budget))]:
        pairs += [(s0, s0), (s0, s0 + "/"), (s0 + "/", s0), (s0, s0 + "#"), (s0, s0.upper()), (s0, s0 + "?")]
    for (sa, sb) in pairs:
        a, c = st3.new(sa), st3.new(sb)
        st3.cmp(a, c)
        for h in (a, c):
            k = rng.randrange(4)
            if k == 0:
                st3.pkl(h)
            elif k == 1:
                st3.obs_all(h, ALL_OBS)
            elif k == 2:
                st3.obs_all(st3.pkl(h), ["str"])
                st3.mod(h, "parent")
            else:
                st3.pkl(h)
                st3.obs_all(h, ["str", "raw_host", "port"])
        st3.cmp(a, c)
        st3.cmp(c, a)
        st3.pkl(a)
        st3.pkl(c)
        st3.cmp(a, c)
        st3.cmp(st3.new(sa), st3.new(sb))          # re-obtained through the constructor cache
    yield "compare-observe-compare", st3


def c08_cmp_oracle(full, io, b):
    """the same comparison of the same two URL objects gives the same answer whenever it is asked"""
    out = []
    seen = {}
    for n, line in enumerate(full):
        f = line.split("\t")
        if f[0] != "cmp" or io[n] is None:
            continue
        key = (f[1], f[2])
        if key in seen and io[seen[key]] != io[n]:
            out.append({"what": f"comparing {describe_handle(full, int(f[1]))} with {describe_handle(full, int(f[2]))} gave {io[seen[key]]} first and {io[n]} "
                                f"after further reads/pickling of the operands (flags: eq ne lt le hash-eq …)",
                        "class": "history-dependent-comparison", "n": n, "also": [seen[key]] + list(range(seen[key] + 1, n)),
                        "input": describe_handle(full, int(f[1]))})
        seen.setdefault(key, n)
    return out


def c08_oracle(full, io, b):
    """a URL returned by a modifier must answer every accessor like its own cache-free twin"""
    out = c08_cmp_oracle(full, io, b)
    v = View(full, io)
    for h, n in enumerate(v.cr):
        f = full[n].split("\t")
        if f[0] != "pkl" or not v.alive(h):
            continue
        src = int(f[1])
        if full[v.cr[src]].split("\t")[0] != "mod":
            continue
        for name in ALL_OBS:
            a, c = v.get(src, name), v.get(h, name)
            if a is None or c is None or a == c:
                continue
            out.append({"what": f"{name} of {describe_handle(full, src)} is {pretty_out(a)} after the preceding history, {pretty_out(c)} on its cache-free twin",
                        "class": "history-dependent", "n": v.n_of(src, name), "also": [v.n_of(h, name)], "input": describe_handle(full, src)})
            break
    return out


def c08_extra(scratch, rng, tier, budget):
    import extras
    return extras.run_history(scratch, rng.randrange(1 << 30), int((150 if tier == "quick" else 2500) * budget))


register(Prop("C08", c08_streams, oracle=c08_oracle, extra=c08_extra,
              assumptions=["aliasing inside CPython objects (e.g. a returned MultiDictProxy sharing state) is observed only by the snapshot oracle",
                           "functools.lru_cache / propcache behave as memo tables (modelled in Cache.lean)"],
              trusted=["harness/extras.py history driver (full observation of every live URL before/after every step; cold vs warm twins)"]))


# ------------------------------------------------------------------ C09
C09_OBS = [o for o in ALL_OBS]


def c09_oracle(full, io, b):
    out = []
    v = View(full, io)
    for h, n in enumerate(v.cr):
        f = full[n].split("\t")
        if f[0] != "pkl" or not v.alive(h):
            continue
        src = int(f[1])
        for name in C09_OBS:
            a, c = v.get(src, name), v.get(h, name)
            if a is None or c is None or a == c:
                continue
            inp = describe_handle(full, src)
            cls = "eager-vs-lazy"
            text = inp
            auth = ""
            cf = v.creator_fields(src)
            if cf[0] == "new":
                m = re.match(r"^[^/?#]*?//([^/?#]*)", dec(cf[3]).lstrip("".join(chr(i) for i in range(33))).replace("\t", "").replace("\n", "").replace("\r", ""))
                auth = m.group(1) if m else ""
            sval = v.get(src, "val")
            stored_netloc = dlist(sval)[1] if sval and sval.startswith("L5:") else (dec(v.get(src, "raw_authority")) if v.get(src, "raw_authority") and not v.get(src, "raw_authority").startswith("!") else None)
            if auth and (set(auth) <= set("@:") or stored_netloc == ""):
                # the written authority disappears altogether: only '@' / ':' — or a user the quoter drops (lone surrogates) — in front of an empty host
                cls = "authority-normalises-to-empty"
            else:
                hostinfo = auth.rpartition("@")[2]
                if ("[" in hostinfo or "]" in hostinfo) and not re.match(r"^\[[^\[\]]*\](:[^\[\]]*)?\Z", hostinfo):
                    cls = "malformed-brackets"
            out.append({"what": f"{name}: {pretty_out(a)} on the original, {pretty_out(c)} on its pickled/copied twin ({text})", "class": cls,
                        "n": v.n_of(h, name), "also": [v.n_of(src, name)], "input": inp})
            break
    # eq / hash / str across the twin
    for n, o in enumerate(full):
        f = o.split("\t")
        if f[0] == "cmp" and not io[n].startswith("!"):
            pass
    return out


def c09_streams(rng, tier, budget):
    n = int((300 if tier == "quick" else 5000) * budget)
    st = Stream()
    for i in range(n):
        s = urlgen.rand_url_string(rng)
        h = st.new(s, encoded=(rng.random() < 0.1))
        order = list(C09_OBS)
        if rng.random() < 0.5:
            rng.shuffle(order)
        st.obs_all(h, order)
        p = st.pkl(h)
        st.obs_all(p, C09_OBS)
        st.cmp(h, p)
        if rng.random() < 0.4:
            m = rand_mod(rng, st, h)
            st.obs_all(m, C09_OBS)
            pm = st.pkl(m)
            st.obs_all(pm, C09_OBS)
            st.cmp(m, pm)
    for s in ["http://[v1.fe]/p", "svn://[vF.host-name_1]", "//[v1.x]", "http://[v1.fe]:81/", "http://u@[v1.fe]/", "foo://:80/", "//:77", "foo://u@/", "//@:?#", "//@", "//:", "http://[v1.a:b]/", "http://[[::1]/", "http://[::1]]/", "x://[::1]a/", "//h:0", "http://H/"]:
        h = st.new(s)
        st.obs_all(h, C09_OBS)
        p = st.pkl(h)
        st.obs_all(p, C09_OBS)
        st.cmp(h, p)
    yield "twins", st
    # every SHAPE of a URL string (scheme x authority x path x query x fragment, each absent / empty / present), deterministic: what
    # the constructor pre-computes depends on the shape ('mailto:', 'foo:?x=1', 'x://', '//h', 'p?#'), not on the texts
    st2 = Stream()
    for sc in ("", "x:", "mailto:", "http:"):
        for au in (None, "//", "//h", "//u@h:81", "//[::1]", "//H.", "//:81", "//[v1.fe]"):
            for pa in ("", "/", "p", "/p/q"):
                if au not in (None,) and pa == "p":
                    continue
                for qu in ("", "?", "?q=1"):
                    for fr in ("", "#", "#f"):
                        s = sc + (au or "") + pa + qu + fr
                        h = st2.new(s)
                        st2.obs_all(h, C09_OBS)
                        p = st2.pkl(h)
                        st2.obs_all(p, C09_OBS)
                        st2.cmp(h, p)
    yield "shapes", st2


def c09_cmp_oracle(full, io, b):
    out = c09_oracle(full, io, b)
    v = View(full, io)
    cr = v.cr
    for n, o in enumerate(full):
        f = o.split("\t")
        if f[0] == "cmp" and len(io[n]) == 6:
            h1, h2 = int(f[1]), int(f[2])
            if full[cr[h2]].split("\t")[0] == "pkl" and int(full[cr[h2]].split("\t")[1]) == h1:
                if io[n][0] != "T" or io[n][5] != "T":
                    out.append({"what": f"a URL and its pickled twin compare {io[n]} (==,<,<=,>,>=,hash==)", "class": "twin-not-equal", "n": n,
                                "input": describe_handle(full, h1)})
    return out


register(Prop("C09", c09_streams, oracle=c09_cmp_oracle,
              trusted=["the model's `pre` field is the cache `encode_url` pre-fills; the twin is the same URL with `pre := none`"]))


# ------------------------------------------------------------------ C10
def c10_streams(rng, tier, budget):
    st = Stream()
    base = ["http://h", "http://h/", "http://h:80", "http://h:80/", "http://H/", "https://h/", "http://h/a", "http://h/a?q", "http://h/a#f", "http://h?q",
            "http://h/?q", "http://u@h/", "http://h/%7E", "http://h/~", "//h", "//h/", "/", "", "a", "http://h/a?", "http://h/a#", "http://i/", "http:/h",
            "http://h//", "http://h/a/", "HTTP://h", "http://h:81/", "http://[::1]/", "http://[::1]", "ftp://h", "ftp://h/", "http://h/é", "http://h/%C3%A9",
            # an authority marker whose authority normalises to nothing: same five components as the URL without it
            "//@", "//:", "//@:", "//", "///", "//@?q", "?q", "//@/x", "/x", "x://@", "x:", "x://", "//:#f", "#f", "x://@:/", "x:/"]
    n_extra = int((40 if tier == "quick" else 200) * budget)
    strs = base + [urlgen.rand_url_string(rng) for _ in range(n_extra)]
    hs = []
    for s in strs:
        hs.append(st.new(s))
        if rng.random() < 0.3:
            hs.append(st.new(s, encoded=True))
    hs.append(st.build(scheme="http", host="h"))
    # routes that store scheme / host exactly as given (encoded=True build) next to the folding ones: equal only if the stored text is equal
    hs.append(st.build(scheme="HTTP", host="h", encoded=True))
    hs.append(st.build(scheme="http", host="H", encoded=True))
    hs.append(st.build(scheme="HTTP", host="h", path="/", encoded=True))
    hs.append(st.build(scheme="HTTP", host="h"))
    hs.append(st.new("HTTP://h", encoded=True))
    for t in ("//h/p", "/p", "h/p", "http:/p", "http:p", "http://h/p", "//h", "h", "/", "http:", "http://"):
        hs.append(st.new(t))
    hs.append(st.build(scheme="http", host="h", path="/"))
    hs.append(st.build(scheme="http", host="h", port=80))
    for h in list(hs[:20]):
        hs.append(st.pkl(h))
        hs.append(st.mod(h, "with_fragment", "~"))
    for h in list(hs[33:49]):
        hs.append(st.pkl(h))
    for h in hs:
        st.obs_all(h, ["val"])
    for a in hs:
        for c in hs:
            st.cmp(a, c)
    yield "pairs", st
    # hash / ordering of the PARENT evaluated first, then a derivation, then the derived URL against a freshly parsed equal URL, its
    # pickled twin and the parent: a derived object must not inherit anything the comparison methods memoise (hash, sort key)
    st2 = Stream()
    mods = [("with_fragment", [enc("top")]), ("with_fragment", ["~"]), ("with_query", ["S" + enc("k=v")]), ("with_query", ["N"]), ("with_path", [enc("/z"), "F", "F", "F"]),
            ("with_path", [enc("/z"), "F", "T", "T"]), ("with_name", [enc("n"), "T", "T"]), ("with_suffix", [enc(".s"), "T", "T"]), ("with_host", [enc("o.example")]),
            ("with_port", ["8081"]), ("with_user", [enc("w")]), ("with_password", [enc("w")]), ("with_scheme", [enc("https")]), ("truediv", [enc("c")]), ("parent", []),
            ("origin", []), ("relative", []), ("extend_query", ["S" + enc("z=1")]), ("update_query", ["S" + enc("z=1")]), ("without_query_params", [enc("q")])]
    for s0 in ["http://h/a/b.t?q=1#f", "http://u:p@h:8080/a?q=1", "http://h", "/a/b?q=1#f", "http://h/a#f"]:
        for i, (nm, args) in enumerate(mods):
            b0 = st2.new(s0 + ("" if "#" in s0 else "#r%d" % i))       # a fresh parent per derivation (the constructor cache would share it otherwise)
            st2.obs_all(b0, ["val"])
            st2.cmp(b0, b0)                                             # evaluates hash and the ordering key of the parent
            d = st2.mod(b0, nm, *args)
            st2.obs_all(d, ["val"])
            t = st2.rt(d)
            k = st2.pkl(d)
            st2.obs_all(t, ["val"])
            st2.obs_all(k, ["val"])
            for x, y in ((d, t), (t, d), (d, k), (d, b0), (b0, d), (d, d)):
                st2.cmp(x, y)
    yield "derived-after-hash", st2
    # ordering is Python's tuple-of-str order, i.e. code-point order per component (C10Order.lean: `PySpec.seqCmp`, `ltStr`): texts stored
    # verbatim (encoded=True) whose first difference is a lone surrogate / a BMP character above the surrogates / a non-BMP character (UTF-16
    # and UTF-8-with-surrogatepass orders differ from code-point order exactly there), proper prefixes, the empty string, and differences in an
    # EARLIER component that must win over a later one.  Ties the specification of the order to CPython on every run.
    st3 = Stream()
    atoms = ["", "a", "b", "a\x00", "a\x7f", "a\x80", "a\xff", "aĀ", "a퟿", "a\ud800", "a\udbff", "a\udc00", "a\udfff", "a", "a￿",
             "a\U00010000", "a\U0010ffff", "a𐀀", "a\U00010000b", "a￿b", "aa", "a\udfffz", "aa"]
    if tier != "quick":
        atoms += ["".join(chr(rng.choice([0x61, 0x7f, 0x80, 0x7ff, 0x800, 0xd7ff, 0xd800, 0xdfff, 0xe000, 0xffff, 0x10000, 0x10ffff])) for _ in range(rng.randint(1, 4)))
                  for _ in range(int(20 * budget))]
    hs3 = []
    for t in atoms:
        hs3.append(st3.new("/p" + t, encoded=True))                       # path
        hs3.append(st3.new("/p?" + t, encoded=True))                      # query
        hs3.append(st3.new("/p#" + t, encoded=True))                      # fragment
    for t in atoms[:12]:
        hs3.append(st3.build(scheme="x", host="h" + t, path="/", encoded=True))          # authority
        hs3.append(st3.build(scheme="x", host="h", path="/" + t, query_string="\U0010ffff", encoded=True))   # earlier component decides
    for h in hs3:
        st3.obs_all(h, ["val"])
    for a in hs3:
        for c in hs3:
            st3.cmp(a, c)
    yield "code-point-order", st3


def c10_oracle(full, io, b):
    out = []
    v = View(full, io)
    rel = {}
    key = {}
    for h in range(len(v.cr)):
        val = v.get(h, "val")
        if val and val.startswith("L5:"):
            p = dlist(val)
            if p[2] == "" and p[1] != "":
                p[2] = "/"
            key[h] = tuple(p)
    for n, o in enumerate(full):
        f = o.split("\t")
        if f[0] == "cmp" and io[n] in ("!eq-nonurl", "!order-nonurl"):
            inp0 = f"{describe_handle(full, int(f[1]))}"
            out.append({"what": f"{inp0}: " + ("compares equal (or not unequal) to a non-URL object (its string form, bytes, None, 0 or the tuple of its parts)" if io[n] == "!eq-nonurl"
                                                else "an ordering comparison with a non-URL object did not raise TypeError"), "class": "eq-nonurl", "n": n, "input": inp0})
            continue
        if f[0] != "cmp" or len(io[n]) != 6:
            continue
        a, c = int(f[1]), int(f[2])
        eq, lt, le, gt, ge, hq = (x == "T" for x in io[n])
        rel[(a, c)] = (eq, lt, le, gt, ge)
        inp = f"{describe_handle(full, a)} vs {describe_handle(full, c)}"
        if a in key and c in key and eq != (key[a] == key[c]):
            out.append({"what": f"{inp}: == is {eq} but the (scheme, authority, path-or-'/', query, fragment) tuples are {'equal' if key[a]==key[c] else 'different'}",
                        "class": "eq-components", "n": n, "input": inp})
        elif eq and not hq:
            out.append({"what": f"{inp}: equal URLs with different hashes", "class": "eq-hash", "n": n, "input": inp})
        elif [lt, eq, gt].count(True) != 1:
            out.append({"what": f"{inp}: <, ==, > are {lt}, {eq}, {gt}: not exactly one holds", "class": "trichotomy", "n": n, "input": inp})
        elif le != (lt or eq) or ge != (gt or eq):
            out.append({"what": f"{inp}: <= / >= inconsistent with <, ==, > ({io[n]})", "class": "le-ge", "n": n, "input": inp})
    for (a, c), r in rel.items():
        if (c, a) in rel:
            r2 = rel[(c, a)]
            if r[0] != r2[0] or r[1] != r2[3]:
                out.append({"what": f"asymmetry between cmp(#{a},#{c}) and cmp(#{c},#{a})", "class": "symmetry", "n": 0,
                            "input": f"{describe_handle(full, a)} vs {describe_handle(full, c)}"})
                break
    return out


def c10_extra(scratch, rng, tier, budget):
    import extras
    return extras.run_dyn_probe(scratch, "C10")


register(Prop("C10", c10_streams, compare=lambda op: op.startswith("cmp"), oracle=c10_oracle, extra=c10_extra,
              assumptions=["comparison with non-URL objects (NotImplemented dispatch, reflected methods) is modelled in YarlModel/Dyn.lean and tied by the dyn probe table; the worker also probes it on every comparison"]))


# ------------------------------------------------------------------ C11
C11_OBS = ["scheme", "raw_user", "raw_password", "raw_host", "explicit_port", "raw_path", "raw_query_string", "raw_fragment", "str", "val",
           "host_subcomponent"]
FRAME = {
    "with_scheme": {"scheme"}, "with_user": {"raw_user", "raw_password"}, "with_password": {"raw_password"}, "with_host": {"raw_host", "host_subcomponent"},
    "with_port": {"explicit_port"}, "with_fragment": {"raw_fragment"}, "with_query": {"raw_query_string"}, "extend_query": {"raw_query_string"},
    "update_query": {"raw_query_string"}, "without_query_params": {"raw_query_string"},
    "with_path": {"raw_path", "raw_query_string", "raw_fragment"}, "with_name": {"raw_path", "raw_query_string", "raw_fragment"},
    "with_suffix": {"raw_path", "raw_query_string", "raw_fragment"}, "truediv": {"raw_path", "raw_query_string", "raw_fragment"},
    "joinpath": {"raw_path", "raw_query_string", "raw_fragment"}, "parent": {"raw_path", "raw_query_string", "raw_fragment"},
    "origin": {"raw_user", "raw_password", "raw_path", "raw_query_string", "raw_fragment"},
    "relative": {"scheme", "raw_user", "raw_password", "raw_host", "explicit_port", "host_subcomponent", "raw_path"},   # raw_path: '/' under an authority reads as '' without one
}
COMPONENTS = ["scheme", "raw_user", "raw_password", "raw_host", "explicit_port", "raw_path", "raw_query_string", "raw_fragment", "host_subcomponent"]


def c11_oracle(full, io, b):
    out = []
    v = View(full, io)
    taint = v.tainted()
    for h, n in enumerate(v.cr):
        f = full[n].split("\t")
        if f[0] != "mod" or not v.alive(h):
            continue
        src = int(f[2])
        if src in taint:
            continue
        name = f[3]
        allowed = FRAME.get(name, set())
        # a base whose own components cannot be read is outside the quantifier
        if any((v.get(src, c) is None or v.get(src, c).startswith("!")) for c in COMPONENTS):
            continue
        sval = v.get(src, "val")
        if v.get(src, "raw_host") == "":
            continue      # empty host: outside the property's quantifier (reg-name / IPv4 / IPv6 hosts); also covers the listed C09 finding
        for c in COMPONENTS:
            if c in allowed:
                continue
            a, r = v.get(src, c), v.get(h, c)
            if r is None or a is None:
                continue
            if a != r:
                cls = "frame"
                if name == "with_host" and "%" in dec(f[4]):
                    cls = "host-zone-injection"
                srh = v.get(src, "raw_host")
                if srh not in (None, "~") and ("[" in dec(srh) or "]" in dec(srh)):
                    # the base is one of the malformed-bracket authorities split_url accepts (listed for C03 / C09): what the constructor
                    # pre-computed for it is not what the stored authority splits into, and a derived URL reads the stored authority
                    cls = "malformed-brackets"
                out.append(fail(v, h, c, f"{name} changed {c}: {pretty_out(a)} -> {pretty_out(r)}", cls, also=[v.n_of(src, c)]))
                break
        # the targeted component reads back
        if name == "with_port" and f[4] not in ("T", "X"):
            exp = "~" if f[4] == "~" else "N" + f[4]
            if v.get(h, "explicit_port") not in (None, exp):
                out.append(fail(v, h, "explicit_port", f"with_port({f[4]}) reads back as {v.get(h,'explicit_port')}", "target"))
        if name == "with_user" and f[4] == "~":
            if v.get(h, "raw_user") not in (None, "~") or v.get(h, "raw_password") not in (None, "~"):
                out.append(fail(v, h, "raw_user", "with_user(None) did not clear user and password", "target"))
        if name == "with_password" and f[4] == "~":
            if v.get(h, "raw_password") not in (None, "~"):
                out.append(fail(v, h, "raw_password", "with_password(None) did not clear the password", "target"))
        if name == "with_password" and f[4] == "":
            if v.get(h, "raw_password") not in (None, ""):
                out.append(fail(v, h, "raw_password", "with_password('') must give an empty (not absent) password", "target"))
        if name in ("with_path", "with_name", "with_suffix"):
            kq, kf = (f[6], f[7]) if name == "with_path" else (f[5], f[6])
            for flag, comp in ((kq, "raw_query_string"), (kf, "raw_fragment")):
                exp = v.get(src, comp) if flag == "T" else ""
                if v.get(h, comp) is not None and v.get(h, comp) != exp:
                    out.append(fail(v, h, comp, f"{name}(keep={flag}) left {comp} = {pretty_out(v.get(h, comp))}, expected {pretty_out(exp)}", "keep-flags"))
        if name == "origin":
            for comp, exp in (("raw_user", "~"), ("raw_password", "~"), ("raw_query_string", ""), ("raw_fragment", "")):
                if v.get(h, comp) not in (None, exp):
                    out.append(fail(v, h, comp, f"origin() kept {comp} = {pretty_out(v.get(h, comp))}", "origin-keeps"))
            if v.get(h, "raw_path") not in (None, "", enc("/")):
                out.append(fail(v, h, "raw_path", f"origin() kept the path {pretty_out(v.get(h, 'raw_path'))}", "origin-keeps"))
        if name == "relative":
            for comp in ("raw_path", "raw_query_string", "raw_fragment"):
                a, r = v.get(src, comp), v.get(h, comp)
                if comp == "raw_path":
                    continue
                if a is not None and r is not None and a != r:
                    out.append(fail(v, h, comp, f"relative() changed {comp}: {pretty_out(a)} -> {pretty_out(r)}", "relative-keeps"))
        if name in ("truediv", "joinpath", "parent"):
            for comp in ("raw_query_string", "raw_fragment"):
                if v.get(h, comp) not in (None, ""):
                    out.append(fail(v, h, comp, f"{name} kept {comp}", "keep-flags"))
    return out


def c11_streams(rng, tier, budget):
    st = Stream()
    hosts = ["example.com", "127.0.0.1", "[::1]", "[fe80::1%eth0]", "xn--tda.com"]
    users = ["", "u@", "u:@", "u:p%40@", ":p@", "us%20er:pw@"]
    ports = ["", ":0", ":80", ":8080"]
    tails = ["", "/", "/a/b", "/a?q=1#f", "?q", "#f", "/a/b.txt?x=1&y=2#frag"]
    bases = []
    for hst in hosts:
        for us in users:
            for pt in ports:
                for tl in (tails if tier == "thorough" else [pick(rng, tails), pick(rng, tails)]):
                    bases.append("http://" + us + hst + pt + tl)
    rng.shuffle(bases)
    bases = bases[: int((150 if tier == "quick" else 1500) * budget)]
    for s in bases:
        h = st.new(s)
        st.obs_all(h, C11_OBS)
        names = MODS if tier == "thorough" else [pick(rng, MODS) for _ in range(5)]
        for nm in names:
            m = rand_mod(rng, st, h, [nm])
            st.obs_all(m, C11_OBS)
    yield "matrix", st
    st3 = Stream()
    for hst in hosts:
        for us in users:
            for pt in ports:
                for tl in tails:
                    h = st3.new("http://" + us + hst + pt + tl)
                    st3.obs_all(h, C11_OBS)
                    for nm in ("origin", "relative", "parent"):
                        st3.obs_all(st3.mod(h, nm), C11_OBS)
                    for nm, args in (("with_user", ["~"]), ("with_user", [enc("x y")]), ("with_password", ["~"]), ("with_password", [""]),
                                     ("with_password", [enc("s:e@c")]), ("with_port", ["~"]), ("with_port", ["0"]), ("with_port", ["80"]),
                                     ("with_port", ["8080"]), ("with_host", [enc("h2.example")]), ("with_host", [enc("::2")]),
                                     ("with_scheme", [enc("https")]), ("with_fragment", ["~"]), ("with_fragment", [enc("z z")])):
                        m = st3.mod(h, nm, *args)
                        st3.obs_all(m, C11_OBS)
                        # second-level derivations of the RESULT, after the same derivations of the base were computed (and cached) above
                        for nm2 in ("parent", "origin"):
                            st3.obs_all(st3.mod(m, nm2), ["scheme", "raw_user", "raw_password", "raw_host", "explicit_port", "raw_path", "str"])
    yield "full-matrix-targeted", st3
    yield "random", general_stream(rng, int((100 if tier == "quick" else 1500) * budget), C11_OBS, enc_frac=0.0, with_join=False, with_build=False)


register(Prop("C11", c11_streams, compare=obs_filter(C11_OBS), oracle=c11_oracle,
              assumptions=["IDN host arguments go through the IDNA oracle"]))


# ------------------------------------------------------------------ C12
def expand_arg(a):
    """independent reading of a query argument: returns ('pairs', [(k, v)]) | ('none',) | ('str', s) | ('error',) | ('noop',)"""
    import math
    t = a[0]
    if t == "N":
        return ("none",)
    if t == "S":
        return ("str", dec(a[1:]))
    if t in ("B", "O"):
        return ("error",) if a != "B0" else ("empty",)
    items = []
    allkeys = []
    body = a[1:]
    if t == "K" and not body:
        return ("error",)
    for it in (body.split(";") if body else []):
        k, _, val = it.partition("=")
        allkeys.append(dec(k))
        vals = val[1:-1].split("|") if val.startswith("[") else [val]
        if val == "[]":
            vals = []
        if val.startswith("[") and t in ("P", "U"):
            return ("error",)
        for x in vals:
            if x[0] == "s":
                items.append((dec(k), dec(x[1:])))
            elif x[0] == "i":
                items.append((dec(k), x[1:]))
            elif x[0] == "f":
                if x[1] != "0":
                    return ("error",)
                items.append((dec(k), dec(x[3:])))
            else:
                return ("error",)
    if not body:
        return ("empty",)
    return ("pairs", items, t, allkeys)


def c12_oracle(full, io, b):
    out = []
    v = View(full, io)
    for h, n in enumerate(v.cr):
        f = full[n].split("\t")
        if f[0] != "mod" or f[3] not in ("with_query", "extend_query", "update_query", "without_query_params"):
            continue
        src = int(f[2])
        old = v.get(src, "query")
        if old is None or old.startswith("!"):
            continue
        old = dpairs(old)
        name = f[3]
        res = io[n]
        if name == "without_query_params":
            names = [dec(x) for x in f[4:]]
            if not res.startswith("#"):
                out.append({"what": f"without_query_params{tuple(names)!r} raised {res}", "class": "query-error", "n": n, "input": describe_handle(full, h)})
                continue
            new = v.get(h, "query")
            if new and not new.startswith("!"):
                exp = [p for p in old if p[0] not in names]
                if dpairs(new) != exp and all(no_surr(k + x) for k, x in old):
                    out.append(fail(v, h, "query", f"without_query_params{tuple(names)!r}: {old!r} -> {dpairs(new)!r}, expected {exp!r}", "query-algebra"))
            continue
        e = expand_arg(f[4])
        if e[0] == "error":
            if res.startswith("#"):
                out.append({"what": f"{name}({f[4]}) accepted an argument that must be rejected", "class": "query-accept", "n": n, "input": describe_handle(full, h)})
            elif res not in ("!V", "!T"):
                out.append({"what": f"{name}({f[4]}) raised {res}", "class": "query-error", "n": n, "input": describe_handle(full, h)})
            continue
        if not res.startswith("#"):
            if e[0] in ("none", "empty", "str") or all(no_surr(k + x) for k, x in e[1]):
                out.append({"what": f"{name}({f[4]}) raised {res} for a valid argument", "class": "query-error", "n": n, "input": describe_handle(full, h)})
            continue
        new = v.get(h, "query")
        if new is not None and new.startswith("!"):
            out.append(fail(v, h, "query", f"{name}({f[4]}) returned a URL whose .query is not a multidict of str pairs: {new}", "query-accessor"))
            continue
        if new is None:
            continue
        new = dpairs(new)
        if e[0] == "none":
            exp = old if name == "extend_query" else []
        elif e[0] == "empty":
            exp = old if name in ("extend_query", "update_query") else []
        elif e[0] == "str":
            continue
        else:
            items = e[1]
            if not all(no_surr(k + x) for k, x in items + old):
                continue
            if name == "with_query":
                exp = items
            elif name == "extend_query":
                exp = old + items
            else:
                keys = e[3]          # every key of the argument, including keys whose value is an empty list
                kept = [p for p in old if p[0] not in keys]
                if [p for p in new if p[0] not in keys] != kept:
                    out.append(fail(v, h, "query", f"update_query({f[4]}): pairs with other keys changed: {old!r} -> {new!r}", "query-algebra"))
                    continue
                bad = stale = False
                for k in set(keys):
                    got_v = [x for kk, x in new if kk == k]
                    new_v = [x for kk, x in items if kk == k]
                    if got_v != new_v:
                        # the listed multidict defect: the new values, followed by old values of k that should have been dropped
                        old_v = [x for kk, x in old if kk == k]
                        rest = got_v[len(new_v):]
                        it_ = iter(old_v[len(new_v):])
                        if got_v[: len(new_v)] == new_v and rest and all(any(y == x for y in it_) for x in rest) and len(set(keys)) > 1:
                            stale = True
                        else:
                            bad = True
                if bad:
                    out.append(fail(v, h, "query", f"update_query({f[4]}): values of updated keys wrong: {old!r} -> {new!r}", "query-algebra"))
                elif stale:
                    out.append(fail(v, h, "query", f"update_query({f[4]}): a stale duplicate of an updated key survives: {old!r} -> {new!r}", "update-stale-duplicate"))
                continue
        if new != exp:
            out.append(fail(v, h, "query", f"{name}({f[4]}): {old!r} -> {new!r}, expected {exp!r}", "query-algebra"))
    return out


def no_surr(t):
    return not any(0xD800 <= ord(c) <= 0xDFFF for c in t)


C12_OBS = ["query", "raw_query_string", "str"]


def c12_streams(rng, tier, budget):
    st = Stream()
    # numbers that compare EQUAL but render differently, one after the other in the same process (a rendering memoised by value would
    # confuse them): 0.0 / -0.0 / 0 / False-like, 1 / 1.0, 1e16 / 10**16, in every argument form
    from urlgen import qarg as _qa
    b0 = st.new("http://h/p?z=1")
    for vals in ([0.0, -0.0, 0.0, 0, -0.0], [1, 1.0, 1], [10 ** 16, 1e16, 10 ** 16], [-0.0, 0.0], [1.5, 1.50]):
        for kind in ("M", "P", "K", "D"):
            for x in vals:
                for nm in ("with_query", "update_query", "extend_query"):
                    st.obs_all(st.mod(b0, nm, _qa(kind, [("a", x)])), C12_OBS)
            st.obs_all(st.mod(b0, "with_query", _qa("M", [("a", list(vals))])), C12_OBS)
    n = int((400 if tier == "quick" else 6000) * budget)
    qs = [x for x in urlgen.QUERIES if x is not None]
    for _ in range(n):
        base = "http://h/p" + ("?" + pick(rng, qs) if rng.random() < 0.85 else "")
        h = st.new(base)
        st.obs_all(h, C12_OBS)
        for _ in range(3):
            nm = pick(rng, ["with_query", "extend_query", "update_query", "without_query_params"])
            m = rand_mod(rng, st, h, [nm])
            st.obs_all(m, C12_OBS)
            if rng.random() < 0.3:
                h = m
    yield "query-ops", st


def c12_extra(scratch, rng, tier, budget):
    import extras
    r1 = extras.run_dyn_probe(scratch, "C12")
    r2 = extras.run_dynbuild_probe(scratch, "C12")
    r1["failures"] = r1.get("failures", []) + r2.get("failures", [])
    for k, v in r2.get("stats", {}).items():
        r1.setdefault("stats", {})[k] = r1.get("stats", {}).get(k, 0) + v
    r1["samples"] = r1.get("samples", []) + r2.get("samples", [])
    r1["notes"] = r1.get("notes", []) + r2.get("notes", [])
    return r1


register(Prop("C12", c12_streams, compare=obs_filter(C12_OBS), oracle=c12_oracle, extra=c12_extra,
              assumptions=["str(float) is taken from Python and passed through the protocol as text (never compared as a float)",
                           "multidict 6.2 MultiDict.update is modelled by hand (Query.lean mdUpdate), tied by correspondence"]))


# ------------------------------------------------------------------ C13
C13_OBS = ["raw_path", "raw_parts", "parts", "raw_name", "name", "raw_suffix", "suffix", "raw_suffixes", "suffixes", "str", "val"]


def c13_oracle(full, io, b):
    out = []
    v = View(full, io)
    taint = v.tainted()
    for h in range(len(v.cr)):
        if not v.alive(h):
            continue
        rp, rpath, rn, rs, rss = (v.get(h, x) for x in ("raw_parts", "raw_path", "raw_name", "raw_suffix", "raw_suffixes"))
        if rp is not None and rpath is not None and not rp.startswith("!") and not rpath.startswith("!"):
            parts = dlist(rp)
            path = dec(rpath)
            rec = ("/" + "/".join(parts[1:])) if parts and parts[0] == "/" else "/".join(parts)
            val = v.get(h, "val")
            netloc = dlist(val)[1] if val and val.startswith("L5:") else ""
            rooted_ok = not netloc or path.startswith("/")
            if rec != path and rooted_ok:
                out.append(fail(v, h, "raw_parts", f"raw_parts {parts!r} re-compose to {rec!r}, raw_path is {path!r}", "recompose"))
            if rn is not None and not rn.startswith("!"):
                last = parts[-1] if (not netloc or len(parts) > 1) else ""
                if parts == ["/"]:
                    last = "" if netloc else "/"
                if dec(rn) != last and rooted_ok:
                    out.append(fail(v, h, "raw_name", f"raw_name {dec(rn)!r} is not the last part of {parts!r}", "name-last"))
        if rn is not None and rs is not None and not rn.startswith("!") and not rs.startswith("!"):
            if not dec(rn).endswith(dec(rs)):
                out.append(fail(v, h, "raw_suffix", f"raw_suffix {dec(rs)!r} is not the tail of raw_name {dec(rn)!r}", "suffix-tail"))
            if rss is not None and not rss.startswith("!"):
                sl = dlist(rss)
                if not dec(rn).endswith("".join(sl)):
                    out.append(fail(v, h, "raw_suffixes", f"raw_suffixes {sl!r} are not the tail of raw_name {dec(rn)!r}", "suffixes-tail"))
                elif sl and dec(rs) and sl[-1] != dec(rs):
                    out.append(fail(v, h, "raw_suffixes", f"last of raw_suffixes {sl!r} differs from raw_suffix {dec(rs)!r}", "suffixes-tail"))
    for h, n in enumerate(v.cr):
        f = full[n].split("\t")
        if f[0] != "mod" or not v.alive(h):
            continue
        src = int(f[2])
        if src in taint:
            continue
        sp, hp = v.get(src, "raw_parts"), v.get(h, "raw_parts")
        if not sp or not hp or sp.startswith("!") or hp.startswith("!"):
            continue
        sp, hp = dlist(sp), dlist(hp)
        sval = v.get(src, "val")
        netloc = dlist(sval)[1] if sval and sval.startswith("L5:") else ""
        if f[3] == "with_suffix":
            sname = dec(v.get(src, "raw_name") or "")
            ssuf = dec(v.get(src, "raw_suffix") or "")
            stem = sname[: len(sname) - len(ssuf)] if ssuf else sname
            hname = v.get(h, "raw_name")
            if hname is not None and not hname.startswith("!"):
                if not dec(hname).startswith(stem):
                    out.append(fail(v, h, "raw_name", f"with_suffix({dec(f[4])!r}) re-encoded the stem: {sname!r} -> {dec(hname)!r}", "suffix-reencodes",
                                    also=[v.n_of(src, "raw_name")]))
                elif hp[:-1] != sp[:-1] and len(sp) > 1:
                    out.append(fail(v, h, "raw_parts", f"with_suffix changed other segments: {sp!r} -> {hp!r}", "suffix-other-segments"))
                else:
                    import urllib.parse as _up
                    arg = dec(f[4])
                    tail = dec(hname)[len(stem):]
                    if no_surr(arg) and _up.unquote_to_bytes(tail) != arg.encode("utf-8"):
                        out.append(fail(v, h, "raw_name", f"with_suffix({arg!r}) on name {sname!r} (suffix {ssuf!r}) gives {dec(hname)!r}: what follows the stem is not the new suffix",
                                        "suffix-replace", also=[v.n_of(src, "raw_name")]))
        if f[3] == "with_name":
            t = dec(f[4])
            nm = v.get(h, "name")
            if nm is not None and not nm.startswith("!") and no_surr(t) and dec(nm) != t:
                out.append(fail(v, h, "name", f"with_name({t!r}) has name {dec(nm)!r}", "with-name"))
            if len(sp) > 1 and hp[:-1] != sp[:-1]:
                out.append(fail(v, h, "raw_parts", f"with_name changed the parent segments: {sp!r} -> {hp!r}", "with-name-parent"))
        if f[3] == "truediv":
            t = dec(f[4])
            if t and "/" not in t and t not in (".", "..") and no_surr(t) and "." not in t:
                nm = v.get(h, "name")
                if nm is not None and not nm.startswith("!") and dec(nm) != t:
                    out.append(fail(v, h, "name", f"(u / {t!r}).name = {dec(nm)!r}", "child-name"))
                exp_parent = sp[:-1] if (len(sp) > 1 and sp[-1] == "") else sp
                if sp == [""]:
                    exp_parent = []
                if netloc and sp == ["/"]:
                    exp_parent = ["/"]
                if hp[:-1] != exp_parent:
                    out.append(fail(v, h, "raw_parts", f"(u / {t!r}) parent parts {hp[:-1]!r}, expected {exp_parent!r} (u parts {sp!r})", "child-parent"))
    # joinpath(a, b) == joinpath(a).joinpath(b) == u / 'a/b' : the generator emits such triples with tag handles
    trip = getattr(full, "_trip", None)
    return out


def c13_streams(rng, tier, budget):
    st = Stream()
    bases = ["http://h", "http://h/", "http://h/a", "http://h/a/", "http://h/a/b.txt", "http://h/a%20b.tar.gz", "/a/b", "a/b", "a", "", "/", "http://h/a//b",
             "http://h/%C3%A9.é", "http://h/a%2Fb.txt", "x:a/b", "http://h/.hidden", "http://h/a.", "http://h/a/b?q#f", "//h/a.b.c",
             "http://h/file.%C3%A4", "http://h/f.x%20y%20z", "http://h/r.%25", "/d/n.%E2%82%AC", "http://h/a/b/", "/a/b/",
             "http://h//", "http://h///", "http://h//a/b", "http://h//a//", "////a", "x:////a/b", "http://h/%2F", "http://h/a/%2F/b", "http://h/%2E", "http://h/a/%2e%2E", "x:a", "x:/", "//h"]
    segs = ["a", "b.txt", "a b", "é", "%20", "a%2Fb", "a/b", "a/", "", ".", "..", "a/../b", "x.y.z", "a:b", "a@b", "a+b", "a?b", "a#b"]
    n = int((25 if tier == "quick" else 300) * budget)
    for bs in bases + [urlgen.rand_url_string(rng) for _ in range(n)]:
        h = st.new(bs)
        st.obs_all(h, C13_OBS)
        for _ in range(6 if tier == "quick" else 14):
            m = rand_mod(rng, st, h, ["with_name", "with_suffix", "truediv", "joinpath", "parent", "with_path"])
            st.obs_all(m, C13_OBS)
        # associativity triples
        a, c = pick(rng, segs), pick(rng, segs)
        x = st.mod(h, "joinpath", "F", enc(a), enc(c))
        y1 = st.mod(h, "joinpath", "F", enc(a))
        y = st.mod(y1, "joinpath", "F", enc(c))
        st.obs_all(x, ["val"])
        st.obs_all(y, ["val"])
        st.cmp(x, y)
        st.add("tag\tassoc\t%d\t%d" % (x, y))
    # several segments at once with REPEATED texts (trailing slash / empty ones keep or lose their last empty segment by POSITION)
    for bs in ["http://h/api", "http://h", "http://h/", "http://h/a//b", "/r", "r/s", "", "x:a"]:
        h = st.new(bs)
        for encd in ("F", "T"):
            for seq in (["v1/", "v1/"], ["v1/", "users", "v1/"], ["x", "", ""], ["", "x", ""], ["a", "a"], ["a/", "b", "a/"], ["", ""], ["a/b/", "c", "a/b/"],
                        ["a%20b/", "a%20b/"], ["é/", "é/"]):
                m = st.mod(h, "joinpath", encd, *[enc(t) for t in seq])
                st.obs_all(m, C13_OBS)
                pm = st.mod(m, "parent")
                st.obs_all(pm, ["val", "raw_name"])
                if encd == "F":          # "joinpath(a, b) and joinpath(a).joinpath(b) are equal", for any number of arguments
                    y = h
                    for t in seq:
                        y = st.mod(y, "joinpath", "F", enc(t))
                    st.obs_all(y, ["val"])
                    st.cmp(m, y)
                    st.add("tag\tassoc\t%d\t%d" % (m, y))
    yield "path-ops", st
    # "with_name(n) has … the same parent" and "u / s has parent parts equal to u's parts without a trailing empty segment",
    # as URL-level equalities, over every base shape (authority or not; empty, root, one and two segments; trailing slash)
    st2 = Stream()
    for bi, bs in enumerate(["/", "/t", "/t/", "/a/b", "t", "a/b", "", "x:/t", "x:t", "http://h", "http://h/", "http://h/t", "http://h/t/", "http://h/a/b", "//h/t", "http://h/t?q#f",
                             "/t?q#f", "http://h/t/", "http://h/t", "/t/", "/t", "http://h/d/e/", "http://h/d/e"]):
        h = st2.new(bs)
        st2.obs_all(h, ["val", "raw_parts"])
        hp = st2.mod(h, "parent")
        st2.obs_all(hp, ["val", "raw_parts"])
        for nm in ("a", "x.y", ""):
            v = st2.mod(h, "with_name", enc(nm), "F", "F")
            vp = st2.mod(v, "parent")
            st2.obs_all(v, ["val", "raw_name"])
            st2.obs_all(vp, ["val", "raw_parts"])
            st2.cmp(vp, hp)
            st2.add("tag\tsame-parent\t%d\t%d" % (vp, hp))
        # segment names used by this base only come first: `u / s` of a base with and of one without a trailing slash are EQUAL URLs (one shared
        # object in the from_parts cache), so with shared names only the first of the two bases decides what the child remembers
        for sg in ("n%d" % bi, "n %d" % bi, "a", "a b", "x.y"):
            c = st2.mod(h, "truediv", enc(sg))
            cp = st2.mod(c, "parent")
            st2.obs_all(c, ["val"])
            st2.obs_all(cp, ["val", "raw_parts"])
            st2.add("tag\tchild-parent\t%d\t%d" % (cp, h))
    yield "parents", st2


def c13_oracle_full(full, io, b):
    out = c13_oracle(full, io, b)
    v = View(full, io)
    for n, o in enumerate(full):
        f = o.split("\t")
        if f[0] == "tag" and f[1] == "assoc":
            x, y = int(f[2]), int(f[3])
            if v.alive(x) and v.alive(y):
                a, c = v.get(x, "val"), v.get(y, "val")
                xa = full[v.cr[x]].split("\t")
                sa = dec(xa[5]) if len(xa) > 5 else ""
                sc = dec(xa[6]) if len(xa) > 6 else ""
                if len(xa) > 7:
                    sc = sc + "', '" + "', '".join(dec(t) for t in xa[7:])
                # the algebraic law is stated for non-empty segments that are not dot segments
                plain = all(dec(t) and "." not in dec(t) for t in xa[5:])
                if a and c and a != c and plain:
                    out.append({"what": f"joinpath({sa!r}, {sc!r}) = {pretty_out(a)} but joinpath({sa!r}).joinpath({sc!r}) = {pretty_out(c)}", "class": "joinpath-assoc",
                                "n": v.n_of(x, "val"), "also": [v.n_of(y, "val")], "input": describe_handle(full, x)})
        if f[0] == "tag" and f[1] in ("same-parent", "child-parent"):
            x, y = int(f[2]), int(f[3])
            if not (v.alive(x) and v.alive(y)):
                continue
            a, c = v.get(x, "val"), v.get(y, "val")
            if not (a and c and a.startswith("L5:") and c.startswith("L5:")):
                continue
            pa, pc = dlist(a), dlist(c)

            def key(p_):          # C10's equality key: '' counts as '/' under an authority
                return (p_[0], p_[1], "/" if (p_[1] and not p_[2]) else p_[2])
            if f[1] == "same-parent":
                if key(pa) != key(pc):
                    out.append({"what": f"with_name: the parent of the result is {pretty_out(a)}, the parent of the URL it was applied to is {pretty_out(c)}", "class": "with-name-parent",
                                "n": v.n_of(x, "val"), "also": [v.n_of(y, "val")], "input": describe_handle(full, x)})
            else:
                # parent(u / s) is u with query and fragment cleared and at most one trailing slash removed
                want = {pc[2][:-1]} if (pc[2].endswith("/") and pc[2] != "/") else {pc[2]}     # exactly ONE trailing empty segment goes ('/' itself stays)
                if pc[1]:
                    want |= {"", "/"} if pc[2] in ("", "/") else set()
                if (pa[0], pa[1]) != (pc[0], pc[1]) or pa[2] not in want or pa[3] or pa[4]:
                    out.append({"what": f"(u / s).parent = {pretty_out(a)} for u = {pretty_out(c)}", "class": "child-parent",
                                "n": v.n_of(x, "val"), "also": [v.n_of(y, "val")], "input": describe_handle(full, x)})
    return out


register(Prop("C13", c13_streams, compare=lambda op: not op.startswith("tag") and obs_filter(C13_OBS)(op), oracle=c13_oracle_full))


# ------------------------------------------------------------------ C14
def rfc_remove_dot_segments(path):
    inp, out = path, ""
    while inp:
        if inp.startswith("../"):
            inp = inp[3:]
        elif inp.startswith("./"):
            inp = inp[2:]
        elif inp.startswith("/./"):
            inp = inp[2:]
        elif inp == "/.":
            inp = "/"
        elif inp.startswith("/../"):
            inp = inp[3:]
            out = out[: out.rfind("/")] if "/" in out else ""
        elif inp == "/..":
            inp = "/"
            out = out[: out.rfind("/")] if "/" in out else ""
        elif inp in (".", ".."):
            inp = ""
        else:
            i = inp.find("/", 1)
            if i < 0:
                out += inp
                inp = ""
            else:
                out += inp[:i]
                inp = inp[i:]
    return out


def rfc_resolve(base, ref):
    bs, ba, bp, bq, bf = base
    rs, ra, rp, rq, rf = ref
    if rs == bs:
        rs = ""
    if rs:
        return (rs, ra, rfc_remove_dot_segments(rp), rq, rf)
    if ra:
        return (bs, ra, rfc_remove_dot_segments(rp), rq, rf)
    if rp == "":
        return (bs, ba, bp, rq if rq else bq, rf)
    if rp.startswith("/"):
        return (bs, ba, rfc_remove_dot_segments(rp), rq, rf)
    if ba and not bp:
        merged = "/" + rp
    else:
        merged = bp[: bp.rfind("/") + 1] + rp
    return (bs, ba, rfc_remove_dot_segments(merged), rq, rf)


USES_RELATIVE = None


def c14_oracle(full, io, b):
    import urllib.parse
    out = []
    v = View(full, io)
    rel = set(urllib.parse.uses_relative)
    for h, n in enumerate(v.cr):
        f = full[n].split("\t")
        if f[0] != "jn" or not v.alive(h):
            continue
        bh, rh = int(f[2]), int(f[3])
        vb, vr, vj = v.get(bh, "val"), v.get(rh, "val"), v.get(h, "val")
        if not (vb and vr and vj) or not vj.startswith("L5:"):
            continue
        base, ref, got = tuple(dlist(vb)), tuple(dlist(vr)), tuple(dlist(vj))
        inp = describe_handle(full, h)
        scheme = ref[0] or base[0]
        if scheme != base[0] or scheme not in rel:
            if got != ref:
                out.append({"what": f"join with another scheme / a non-relative base scheme must return the reference: got {got!r}, reference {ref!r}", "class": "join-passthrough",
                            "n": v.n_of(h, "val"), "input": inp})
            continue
        exp = rfc_resolve(base, ref)
        # an empty path under an authority is the same URL as '/'
        norm = lambda t: t  # noqa  (the components must be EXACTLY those of RFC 3986 5.2.2: '' and '/' are different paths)
        if norm(got) != norm(exp):
            cls = "join-rfc"
            if not base[1] and (not base[2].startswith("/")) and norm(exp)[:2] + norm(exp)[3:] == norm(got)[:2] + norm(got)[3:] \
                    and norm(exp)[2] == "/" + norm(got)[2]:
                # the listed deviation: RFC 5.2.4 applied to a ROOTLESS merged path climbs to "/", yarl's relative variant does not
                cls = "join-rootless-or-empty-base-without-authority"
            elif base[1] and base[2] and not base[2].startswith("/"):
                cls = "join-rootless-path-under-authority"
            elif ref[1] and rfc_remove_dot_segments(ref[2]) != ref[2]:
                cls = "join-unnormalised-reference-with-authority"
            out.append({"what": f"join: base {base!r}, reference {ref!r}: got {got!r}, RFC 3986 5.2.2 gives {exp!r}", "class": cls, "n": v.n_of(h, "val"),
                        "also": [v.n_of(bh, "val"), v.n_of(rh, "val")], "input": inp})
    return out


C14_OBS = ["val", "str"]


def c14_streams(rng, tier, budget):
    st = Stream()
    bases = ["http://a/b/c/d;p?q", "http://a", "http://a/", "http://a/b", "http://a/b/", "http://a/b/c/d;p?q#frag", "http://a/b%2Fc/d%20e/f", "http://a/b/../c",
             "https://u:p@h:8443/x/y?z", "ws://a/b", "ftp://a/b/c", "file:///a/b/c", "//a/b/c", "/a/b/c", "a/b/c", "", "mailto:x@y", "x://a/b", "http:/a/b", "http://a?q",
             "http://a#f", "svn+ssh://a/b/c", "http://[::1]/a/b"]
    refs = REFS + ["g:h", "g", "./g", "g/", "/g", "//g", "?y", "g?y", "#s", "g#s", "g?y#s", ";x", "g;x", "g;x?y#s", "", ".", "./", "..", "../", "../g", "../..", "../../",
                   "../../g", "../../../g", "../../../../g", "/./g", "/../g", "g.", ".g", "g..", "..g", "./../g", "./g/.", "g/./h", "g/../h", "g;x=1/./y", "g;x=1/../y",
                   "g?y/./x", "g?y/../x", "g#s/./x", "g#s/../x", "http:g", "https:g", "//h2", "//h2/../x", "a%2F..%2Fb", "%2E%2E/x", "?", "#"]
    hb = [st.new(x) for x in bases]
    hr = [st.new(x) for x in refs]
    for h in hb + hr:
        st.obs_all(h, C14_OBS)
    pairs = [(a, c) for a in hb for c in hr]
    if tier == "quick":
        rng.shuffle(pairs)
        pairs = pairs[: int(900 * budget)] + [(hb[0], c) for c in hr]
    # the base shapes RFC 3986 5.2.2 / 5.2.3 single out (empty path with / without authority, query present) against every reference
    # WITHOUT a path — always, whatever the draw
    sb = [st.new(x) for x in ("http://example.com?a=1", "http://example.com?a=1#old", "http:?a=1", "?a=1#top", "http://example.com", "//h?a=1", "x://h?a=1", "mailto:?a=1")]
    sr = [st.new(x) for x in ("", "#frag", "?y", "?", "#", "http:", "http:#frag", "http:?y", "x:", "//h2", "//h2?z")]
    for h in sb + sr:
        st.obs_all(h, C14_OBS)
    pairs = pairs + [(a, c) for a in sb for c in sr]
    # rootless bases with an EMPTY segment inside (the merge step must keep it) and bases under an authority with a doubled slash
    sb2 = [st.new(x) for x in ("a//b/c", "x//y", "a//", "//h/a//b/c", "http://h//a//b", "x:a//b/c")]
    sr2 = [st.new(x) for x in ("d", "../z", "./", "..", "d/e", "?q")]
    for h in sb2 + sr2:
        st.obs_all(h, C14_OBS)
    pairs = pairs + [(a, c) for a in sb2 for c in sr2]
    # bases whose STORED path still has dot segments (no authority, or stored as given by encoded=True): 5.2.4 applies to the MERGED path, so
    # the base's dot segments go even when the reference has none ('/a/b/../c/d' + 'g' is '/a/c/g')
    sb3 = [st.new(x) for x in ("/a/b/../c/d", "/a/./b/c", "/a/b/..", "/../a/b", "x:/a/../b/c", "/a/b/../c/", "/a/b/./")] + \
          [st.new(x, encoded=True) for x in ("http://h/a/b/../c/d", "http://h/a/./b", "//h/a/../b/", "/a/b/../c/d")]
    sr3 = [st.new(x) for x in ("g", "g/", "g/h", "g?y", "g#s", "g;x", "../g", "./g", "", "?y", "/g")]
    for h in sb3 + sr3:
        st.obs_all(h, C14_OBS)
    pairs = pairs + [(a, c) for a in sb3 for c in sr3]
    for a, c in pairs:
        j = st.join(a, c)
        st.obs_all(j, C14_OBS)
    for _ in range(int((100 if tier == "quick" else 2000) * budget)):
        a = st.new(urlgen.rand_url_string(rng))
        c = st.new(pick(rng, refs) if rng.random() < 0.6 else urlgen.rand_url_string(rng))
        st.obs_all(a, C14_OBS)
        st.obs_all(c, C14_OBS)
        st.obs_all(st.join(a, c), C14_OBS)
    yield "joins", st


register(Prop("C14", c14_streams, compare=obs_filter(C14_OBS), oracle=c14_oracle,
              assumptions=["yarl cannot tell an empty query/fragment from an absent one; the RFC oracle treats 'defined' as 'non-empty'"]))
