"""Implementation-only extras (history snapshots, NFKC enumeration, allocation faults, thread stress)."""
import json
import os
import subprocess

import core

SUB = os.path.join(core.VERIF, "harness", "sub")


def _run(scratch, script, args, backend, extra_path=None, timeout=1500):
    env = dict(os.environ)
    env["PYTHONPATH"] = scratch.dir + (os.pathsep + extra_path if extra_path else "")
    env["PYTHONDONTWRITEBYTECODE"] = "1"
    if backend == "py":
        env["YARL_NO_EXTENSIONS"] = "1"
    else:
        env.pop("YARL_NO_EXTENSIONS", None)
    r = subprocess.run([core.PY, os.path.join(SUB, script)] + [str(a) for a in args], capture_output=True, text=True, env=env, timeout=timeout)
    if r.returncode != 0:
        return {"failures": [{"what": f"{script} ({backend}) died with exit status {r.returncode}: {r.stderr[-600:]}", "class": "crash"}]}
    try:
        return json.loads(r.stdout.strip().splitlines()[-1])
    except Exception:
        return {"failures": [{"what": f"{script} ({backend}) printed no result: {r.stdout[-300:]} {r.stderr[-300:]}", "class": "crash"}]}


def _backends(scratch):
    return ["py"] + (["c"] if scratch.ext_ok else [])


def run_history(scratch, seed, nprog):
    out = {"failures": [], "stats": {}, "samples": [], "notes": [], "nontrivial": []}
    for b in _backends(scratch):
        r = _run(scratch, "history.py", [seed, nprog], b)
        for f in r.get("failures", []):
            f["backend"] = b
            f["input"] = "; ".join(f.get("program", [])[-3:])
            out["failures"].append(f)
        out["stats"]["history_programs"] = out["stats"].get("history_programs", 0) + r.get("programs", 0)
        out["stats"]["history_steps"] = out["stats"].get("history_steps", 0) + r.get("steps", 0)
        out["stats"]["evaluations"] = out["stats"].get("evaluations", 0) + r.get("steps", 0)
        out["samples"] += r.get("samples", [])[:1]
    return out


def run_nfkc(scratch):
    r = _run(scratch, "nfkc.py", [], "py")
    out = {"failures": r.get("failures", []), "stats": {"nfkc_code_points_checked": r.get("checked", 0), "nfkc_hits": r.get("code_points_with_delimiter_in_nfkc", 0),
                                                         "evaluations": r.get("checked", 0)},
           "samples": [{"nfkc_code_points_with_delimiter": r.get("sample")}], "notes": ["NFKC screen: exhaustive over all code points (enumeration, not proof)"]}
    return out


def run_human_min(scratch):
    out = {"failures": [], "stats": {}, "samples": [], "notes": ["human_repr() escaping minimality: every printable ASCII character in every component (enumeration on the implementation)"]}
    for b in _backends(scratch):
        r = _run(scratch, "human_min.py", [], b)
        for f in r.get("failures", []):
            f["backend"] = b
            out["failures"].append(f)
        out["stats"]["human_min_cases[%s]" % b] = r.get("checked", 0)
        out["stats"]["evaluations"] = out["stats"].get("evaluations", 0) + r.get("checked", 0)
        out["samples"].append({"backend": b, "cases": r.get("checked"), "escapes_needed": r.get("escapes_needed")})
    return out


def run_dynbuild_probe(scratch, group):
    """Tie of YarlModel/DynBuild.lean (URL.build with arbitrary keyword objects and its conflict checks, without_query_params with
    non-str names, the bool flags given as arbitrary objects) to the code: 878 probe rows evaluated by the Lean model and by the real
    library on both backends."""
    out = {"failures": [], "stats": {}, "samples": [], "notes": []}
    script = os.path.join(SUB, "dynbuild_probe.py")
    try:
        src = subprocess.run([core.PY, script, "lean"], capture_output=True, text=True, timeout=120)
        if src.returncode != 0:
            out["notes"].append("dynbuild probe: could not generate the Lean table: " + src.stderr[-200:])
            return out
        lean_file = os.path.join(scratch.dir, "dynbuild_probe.lean")
        open(lean_file, "w").write(src.stdout)
        r = subprocess.run(["lake", "env", "lean", lean_file], cwd=core.LEAN, capture_output=True, text=True, timeout=900)
        model = [l for l in r.stdout.split("\n") if l.strip()]
        rows = [l for l in subprocess.run([core.PY, script, "rows"], capture_output=True, text=True, timeout=120).stdout.split("\n") if l.strip()]
        if r.returncode != 0 or len(model) != len(rows):
            out["notes"].append("dynbuild probe: the Lean model did not evaluate the table (%d lines for %d rows): %s" % (len(model), len(rows), (r.stdout + r.stderr)[-300:]))
            out["failures"].append({"what": "YarlModel/DynBuild.lean does not evaluate the probe table", "class": "tie-broken-dyn", "input": "dynbuild probe"})
            return out
    except Exception as ex:  # noqa
        out["notes"].append("dynbuild probe unavailable: %r" % (ex,))
        return out
    n = 0
    for b in _backends(scratch):
        env = dict(os.environ)
        env["PYTHONPATH"] = scratch.dir
        env["PYTHONDONTWRITEBYTECODE"] = "1"
        if b == "py":
            env["YARL_NO_EXTENSIONS"] = "1"
        else:
            env.pop("YARL_NO_EXTENSIONS", None)
        rr = subprocess.run([core.PY, script, "real"], capture_output=True, text=True, env=env, timeout=300, cwd=scratch.dir)
        real = [l for l in rr.stdout.split("\n") if l.strip()]
        if rr.returncode != 0 or len(real) != len(rows):
            out["failures"].append({"what": f"dynbuild probe ({b}) died or printed {len(real)} lines for {len(rows)} rows: {rr.stderr[-300:]}", "class": "crash", "backend": b, "input": "dynbuild probe"})
            continue
        for row, m, x in zip(rows, model, real):
            g = "C12" if "without_query_params" in row else "C19"
            if g != group:
                continue
            n += 1
            if m != x:
                out["failures"].append({"what": f"{row}: the library answers {x!r}, the model (YarlModel/DynBuild.lean) {m!r}", "class": "dyn-dispatch", "backend": b, "input": row})
    out["stats"] = {"dynbuild_probe_rows": n, "evaluations": n}
    out["samples"] = [{"dynbuild_probe_rows_checked": n}]
    out["failures"] = out["failures"][:10]
    return out


def run_dyn_probe(scratch, group):
    """Tie of YarlModel/Dyn.lean (Python-level dispatch: non-URL comparisons, wrong-typed arguments, query argument kinds) to
    the code: the probe table is evaluated by the Lean model (`lake env lean`) and by the real library on both backends; the
    rows of the given property group must agree."""
    out = {"failures": [], "stats": {}, "samples": [], "notes": []}
    script = os.path.join(SUB, "dyn_probe.py")
    try:
        src = subprocess.run([core.PY, script, "lean", "c"], capture_output=True, text=True, timeout=120)
        if src.returncode != 0:
            out["notes"].append("dyn probe: could not generate the Lean table: " + src.stderr[-200:])
            return out
        lean_file = os.path.join(scratch.dir, "dyn_probe.lean")
        open(lean_file, "w").write(src.stdout)
        r = subprocess.run(["lake", "env", "lean", lean_file], cwd=core.LEAN, capture_output=True, text=True, timeout=600)
        model = [l for l in r.stdout.split("\n") if l.strip()]
        rows = subprocess.run([core.PY, script, "rows"], capture_output=True, text=True, timeout=120).stdout.split("\n")
        rows = [l for l in rows if l.strip()]
        if r.returncode != 0 or len(model) != len(rows):
            out["notes"].append("dyn probe: the Lean model did not evaluate the table (%d lines for %d rows): %s" % (len(model), len(rows), (r.stdout + r.stderr)[-300:]))
            out["failures"].append({"what": "YarlModel/Dyn.lean does not evaluate the probe table", "class": "tie-broken-dyn", "input": "dyn probe"})
            return out
    except Exception as ex:  # noqa
        out["notes"].append("dyn probe unavailable: %r" % (ex,))
        return out

    def grp(entry):
        if entry in ("eq", "ne", "lt", "le", "gt", "ge"):
            return "C10"
        return "C12" if "query" in entry else "C19"
    n = 0
    for b in _backends(scratch):
        env = dict(os.environ)
        env["PYTHONPATH"] = scratch.dir
        env["PYTHONDONTWRITEBYTECODE"] = "1"
        if b == "py":
            env["YARL_NO_EXTENSIONS"] = "1"
        else:
            env.pop("YARL_NO_EXTENSIONS", None)
        rr = subprocess.run([core.PY, script, "real"], capture_output=True, text=True, env=env, timeout=300, cwd=scratch.dir)
        real = [l for l in rr.stdout.split("\n") if l.strip()]
        if rr.returncode != 0 or len(real) != len(rows):
            out["failures"].append({"what": f"dyn probe ({b}) died or printed {len(real)} lines for {len(rows)} rows: {rr.stderr[-300:]}", "class": "crash", "backend": b, "input": "dyn probe"})
            continue
        for row, m, x in zip(rows, model, real):
            entry = row.split(" | ", 1)[0]
            if grp(entry) != group:
                continue
            n += 1
            if m != x:
                out["failures"].append({"what": f"{row}: the library answers {x!r}, the model (YarlModel/Dyn.lean) {m!r}", "class": "dyn-dispatch", "backend": b, "input": row})
    out["stats"] = {"dyn_probe_rows": n, "evaluations": n}
    out["samples"] = [{"dyn_probe_rows_checked": n}]
    out["failures"] = out["failures"][:10]
    return out


def build_faultalloc():
    d = os.path.join(core.VERIF, "harness", "build")
    os.makedirs(d, exist_ok=True)
    so = os.path.join(d, "faultalloc.cpython-312-x86_64-linux-gnu.so")
    src = os.path.join(core.VERIF, "harness", "faultalloc.c")
    if not os.path.exists(so) or os.path.getmtime(so) < os.path.getmtime(src):
        r = subprocess.run(["gcc", "-shared", "-fPIC", "-O1", "-w", "-I", core.PYINC, "-o", so, src], capture_output=True, text=True)
        if r.returncode != 0:
            raise core.Infra("cannot build faultalloc: " + r.stderr[-500:])
    return d


def run_faults(scratch, tier):
    out = {"failures": [], "stats": {}, "samples": [], "notes": []}
    if not scratch.ext_ok:
        out["notes"].append("compiled backend unavailable: fault enumeration skipped")
        return out
    d = build_faultalloc()
    r = _run(scratch, "faults.py", [tier], "c", extra_path=d)
    for f in r.get("failures", []):
        f["backend"] = "c"
        f.setdefault("input", f["what"][:120])
        out["failures"].append(f)
    out["stats"] = {"fault_points": r.get("fault_points", 0), "memory_errors_observed": r.get("memory_errors", 0), "evaluations": r.get("fault_points", 0)}
    out["samples"] = [{"fault_points": r.get("fault_points"), "memory_errors": r.get("memory_errors")}]
    if r.get("growth_requests_as_predicted_by_QuoteW_model"):
        out["notes"].append("growth requests of clean runs as predicted by YarlModel/QuoteW.lean (C19_quoteCW_fault_iff): " + r["growth_requests_as_predicted_by_QuoteW_model"])
    return out


def run_threads(scratch, seed, tier, budget):
    out = {"failures": [], "stats": {}, "samples": [], "notes": ["thread stress is supporting validation; schedules are quantified in the Lean model only"]}
    nthreads = 8 if tier == "quick" else 16
    nsteps = int((360 if tier == "quick" else 2400) * budget)
    for b in _backends(scratch):
        r = _run(scratch, "threads.py", [seed, nthreads, nsteps], b)
        for f in r.get("failures", []):
            f["backend"] = b
            f.setdefault("input", f["what"][:160])
            out["failures"].append(f)
        out["stats"]["thread_steps"] = out["stats"].get("thread_steps", 0) + r.get("steps", 0)
        out["stats"]["evaluations"] = out["stats"].get("evaluations", 0) + r.get("steps", 0)
        out["samples"].append({"backend": b, "threads": r.get("threads"), "first_step": r.get("sample")})
    return out
