"""Runs the real yarl (scratch copy on PYTHONPATH) on an op stream: one op per
stdin line, one result per stdout line.  Same protocol as lean/Main.lean."""
import sys


def enc(s):
    if s is None:
        return "~"
    return ".".join(format(ord(c), "x") for c in s)


def dec(f):
    if f == "~":
        return None
    if f == "":
        return ""
    return "".join(chr(int(x, 16)) for x in f.split("."))


def exc_bucket(e):
    if isinstance(e, ValueError):  # includes UnicodeError, idna.IDNAError
        return "!V"
    if isinstance(e, TypeError):
        return "!T"
    if isinstance(e, MemoryError):
        return "!M"
    return "!X:" + type(e).__name__


_q = {}


def quoting_module(b):
    if b not in _q:
        if b == "py":
            import yarl._quoting_py as m
        else:
            import yarl._quoting_c as m
        _q[b] = m
    return _q[b]


_inst = {}


def quoter_kwargs():
    """keyword arguments of the instances in yarl._quoters, read from the pure-Python instances"""
    if "kw" not in _inst:
        import ast, os, yarl
        src = open(os.path.join(os.path.dirname(yarl.__file__), "_quoters.py")).read()
        kws = {}
        for node in ast.parse(src).body:
            if isinstance(node, ast.Assign) and isinstance(node.value, ast.Call) and isinstance(node.value.func, ast.Name) \
                    and node.value.func.id in ("_Quoter", "_Unquoter"):
                kws[node.targets[0].id] = (node.value.func.id, {k.arg: ast.literal_eval(k.value) for k in node.value.keywords})
        _inst["kw"] = kws
    return _inst["kw"]


def quoter(b, name):
    key = (b, name)
    if key not in _inst:
        cls, kw = quoter_kwargs()[name]
        _inst[key] = getattr(quoting_module(b), cls)(**kw)
    return _inst[key]


def handle(f, backend):
    op = f[0]
    if op == "q" or op == "uq":
        return enc(quoter(f[1], f[2])(dec(f[3])))
    from worker_url import handle_url
    return handle_url(f, backend)


def main():
    backend = sys.argv[1]
    out = sys.stdout
    for line in sys.stdin:
        line = line.rstrip("\n")
        f = line.split("\t")
        try:
            r = handle(f, backend)
        except BaseException as e:  # noqa
            if isinstance(e, (KeyboardInterrupt, SystemExit)):
                raise
            r = exc_bucket(e)
        out.write(r + "\n")
    out.flush()


if __name__ == "__main__":
    sys.path.insert(0, __import__("os").path.dirname(__import__("os").path.abspath(__file__)))
    main()
