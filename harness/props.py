"""Per-property scope: op streams (generators), which ops the correspondence compares,
the direct oracle evaluated on the implementation's own outputs, implementation-only extras."""
import re
import urllib.parse as up

import gens
import urlgen
from core import dec, enc, show
from urlgen import Stream, pick, qarg

CREATORS = ("new", "bld", "mod", "jn", "pkl", "rt", "hr", "hre")
NONTRIVIAL_RULE = ("an op is non-trivial if its input or its implementation result contains a '%', a non-ASCII code point, "
                   "a URL delimiter (:/?#[]@), a dot segment, or is an error bucket; distinct = distinct op lines "
                   "(pure-Python run); counted by the harness on this run")


# ------------------------------------------------------------------ pretty printing
def _d(x):
    try:
        if x == "~":
            return "None"
        if x.startswith(("!", "#", "L", "Q")) or x in ("T", "F", "ok"):
            return x
        if x.startswith("N") and x[1:].isdigit():
            return x[1:]
        return repr(dec(x))
    except Exception:
        return x


def pretty_out(r):
    if r is None:
        return None
    if r.startswith("L") and ":" in r:
        n, _, body = r[1:].partition(":")
        if n.isdigit():
            return "[" + ", ".join(_d(x) for x in (body.split(",") if int(n) else [])) + "]"
    if r.startswith("Q") and ":" in r:
        n, _, body = r[1:].partition(":")
        if n.isdigit():
            return "[" + ", ".join("(%s, %s)" % tuple(_d(y) for y in x.split("=")) for x in (body.split(",") if int(n) else [])) + "]"
    return _d(r)


def pretty(line):
    f = line.split("\t")
    op = f[0]
    try:
        if op in ("q", "uq"):
            return f"{f[2]}[{f[1]}]({_d(f[3])})"
        if op == "new":
            return f"URL({_d(f[3])}{', encoded=True' if f[2] == 'e' else ''})"
        if op == "bld":
            parts = []
            for a in f[2:]:
                k, _, v = a.partition("=")
                parts.append(k + "=" + (_d(v) if k not in ("port", "query", "encoded") else v))
            return "URL.build(" + ", ".join(parts) + ")"
        if op == "obs":
            return f"#{f[2]}.{f[3]}"
        if op == "mod":
            raw = f[3] in ("with_port", "with_query", "extend_query", "update_query")
            return f"#{f[2]}.{f[3]}(" + ", ".join((a if raw else _d(a)) for a in f[4:]) + ")"
        if op == "jn":
            return f"#{f[2]}.join(#{f[3]})"
        if op == "cmp":
            return f"cmp(#{f[1]}, #{f[2]}) -> ==,<,<=,>,>="
        if op == "pkl":
            return f"pickle-twin(#{f[1]})"
        if op == "rt":
            return f"URL(str(#{f[2]}))"
        if op == "hr":
            return f"URL(#{f[2]}.human_repr())"
        if op in ("np", "su", "sn", "pq", "rds"):
            return f"{op}({_d(f[1])})"
        if op == "eh":
            return f"_encode_host({_d(f[1])}, validate_host={f[2]})"
        if op == "hq":
            return f"human_quote({_d(f[1])}, {_d(f[2])})"
        if op == "orc":
            return f"oracle {f[1]}({_d(f[2])}) = {_d(f[3]) if f[3] != '!' else 'error'}"
    except Exception:
        pass
    return line


_NT = re.compile(r"(^|\.)(25|3a|2f|3f|23|5b|5d|40)(\.|$)|(^|\.)([89a-f][0-9a-f]|[0-9a-f]{3,})(\.|$)|2e\.2e|(^|\.)2e(\.|$)")


def nontrivial(op, result):
    if op.startswith("orc\t"):
        return False
    if result.startswith("!"):
        return True
    return bool(_NT.search(op)) or bool(_NT.search(result))


def known_match(k, f):
    """a known finding matches a failure only through its named class and (if given) a regex on the input description"""
    if k.get("class") != f.get("class"):
        return False
    pat = k.get("input_regex")
    if pat:
        return re.search(pat, f.get("input", "") or "") is not None
    return True


# ------------------------------------------------------------------ stream helpers
_CR_CACHE = {}


def creators_index(full):
    key = id(full)
    hit = _CR_CACHE.get(key)
    if hit is not None and hit[0] is full:
        return hit[1]
    cr = [n for n, o in enumerate(full) if o.split("\t", 1)[0] in CREATORS]
    _CR_CACHE.clear()
    _CR_CACHE[key] = (full, cr)
    return cr


def describe_handle(full, h, depth=0):
    cr = creators_index(full)
    if h >= len(cr):
        return f"#{h}"
    f = full[cr[h]].split("\t")
    op = f[0]
    if op in ("new", "bld"):
        return pretty(full[cr[h]])
    if depth > 4:
        return f"#{h}"
    if op == "mod":
        return describe_handle(full, int(f[2]), depth + 1) + pretty(full[cr[h]])[len(f"#{f[2]}"):]
    if op == "jn":
        return describe_handle(full, int(f[2]), depth + 1) + ".join(" + describe_handle(full, int(f[3]), depth + 1) + ")"
    if op == "pkl":
        return "pickle-twin(" + describe_handle(full, int(f[1]), depth + 1) + ")"
    if op == "rt":
        return "URL(str(" + describe_handle(full, int(f[2]), depth + 1) + "))"
    if op == "hr":
        return "URL(" + describe_handle(full, int(f[2]), depth + 1) + ".human_repr())"
    if op == "hre":
        d = describe_handle(full, int(f[2]), depth + 1)
        return f"(u := {d}).with_host(u.host)"
    return f"#{h}"


class View:
    """implementation outputs indexed by handle and observable"""

    def __init__(self, full, io):
        self.full = full
        self.io = io
        self.cr = creators_index(full)
        self.created = {}     # handle -> result string of the creating op
        self.obs = {}         # (handle, name) -> (n, value)
        for h, n in enumerate(self.cr):
            self.created[h] = io[n]
        for n, o in enumerate(full):
            f = o.split("\t")
            if f[0] == "obs":
                self.obs[(int(f[2]), f[3])] = (n, io[n])

    def alive(self, h):
        return self.created.get(h, "!").startswith("#")

    def get(self, h, name):
        v = self.obs.get((h, name))
        return v[1] if v else None

    def n_of(self, h, name):
        v = self.obs.get((h, name))
        return v[0] if v else self.cr[h]

    def creator_fields(self, h):
        return self.full[self.cr[h]].split("\t")

    def tainted(self):
        """handles whose text did not (only) go through auto-encoding: encoded=True sources and everything derived"""
        t = set()
        for h, n in enumerate(self.cr):
            f = self.full[n].split("\t")
            op = f[0]
            if op == "new" and f[2] == "e":
                t.add(h)
            elif op == "bld" and "encoded=T" in f:
                t.add(h)
            elif op == "mod":
                if int(f[2]) in t:
                    t.add(h)
                elif f[3] == "with_path" and f[5] == "T":
                    t.add(h)
                elif f[3] == "joinpath" and f[4] == "T":
                    t.add(h)
            elif op == "jn":
                if int(f[2]) in t or int(f[3]) in t:
                    t.add(h)
            elif op in ("pkl",):
                if int(f[1]) in t:
                    t.add(h)
            elif op in ("rt", "hr", "hre"):
                if int(f[2]) in t:
                    t.add(h)
        return t


TEXTS = ["", "a", "a b", "é", "a/b", "a%20b", "%", "a:b", "a@b", "a?b", "a#b", "..", ".", "./x", "a+b", "a&b=c", "\udc80x", "x.y", ".hid",
         "a%2Fb", "ü.txt", "[x]", "a;b", "\x00", "\x7f", "\U0001f600", "a\tb", "%zz", "%2", "%C3%A9", "%c3%a9", "%FF", "<>\"{}|\\^`", "x‮y",
         "section\n", "\nx", "x\r", "a\x0bb", "x\x85", "tail\x00", "sec\udc80tion", "x\ud800"]
QVALS = ["v", "", "a b", "é", "a+b", "a&b", "a=b", "%41", "a;b", "#", 1, 0, -5, 10 ** 20, 1.5, -0.0, 0.0, 1e16, 1e300, 1e-7, float("inf"), float("nan"),
         True, None, ["a", "b"], [1, 2], [], ("x",), "\U0001f600"]
QKEYS = ["a", "b", "a b", "é", "k+", "k&", "k=", "", "a", "c", "k;", "%41"]
HOSTS_ARG = urlgen.REGNAMES + urlgen.IPV4 + urlgen.IPV6 + urlgen.IDN + ["", "a b", "a/b", "a@b", "a:b", "[::1]", "A%41", "%zz", "a?b", "a#b", "a[b", "ａ.com", "a＃b"]


def rand_items(rng, n):
    return [(pick(rng, QKEYS), pick(rng, QVALS)) for _ in range(n)]


def rand_qarg(rng):
    k = rng.random()
    if k < 0.08:
        return qarg("N")
    if k < 0.25:
        return qarg("S", text=pick(rng, [x for x in urlgen.QUERIES if x is not None]))
    if k < 0.45:
        return qarg("M", list(dict(rand_items(rng, rng.randint(0, 3))).items()))
    if k < 0.55:
        return qarg("D", rand_items(rng, rng.randint(0, 4)))
    if k < 0.65:
        items = {k: v for k, v in rand_items(rng, rng.randint(0, 3)) if k.isidentifier()}
        return qarg("K", list(items.items()))
    if k < 0.88:
        return qarg(pick(rng, ["P", "U"]), rand_items(rng, rng.randint(0, 4)))
    return pick(rng, ["B0", "B1", "O"])


MODS = ["with_scheme", "with_user", "with_password", "with_host", "with_port", "with_path", "with_query", "extend_query", "update_query",
        "without_query_params", "with_fragment", "with_name", "with_suffix", "truediv", "joinpath", "parent", "origin", "relative"]


def rand_mod(rng, st, h, names=MODS):
    name = pick(rng, names)
    T = lambda: enc(pick(rng, TEXTS))  # noqa
    OT = lambda: (enc(pick(rng, TEXTS)) if rng.random() < 0.85 else "~")  # noqa
    B = lambda: pick(rng, ["T", "F"])  # noqa
    if name == "with_scheme":
        return st.mod(h, name, enc(pick(rng, urlgen.SCHEMES + ["é", "Ä"])))
    if name in ("with_user", "with_password", "with_fragment"):
        return st.mod(h, name, OT())
    if name == "with_host":
        return st.mod(h, name, enc(pick(rng, HOSTS_ARG)))
    if name == "with_port":
        return st.mod(h, name, pick(rng, ["~", "0", "80", "443", "21", "8080", "65535", "65536", "-1", "T", "X", "1"]))
    if name == "with_path":
        return st.mod(h, name, enc(pick(rng, urlgen.PATHS + TEXTS)), "T" if rng.random() < 0.15 else "F", B(), B())
    if name in ("with_query", "extend_query", "update_query"):
        return st.mod(h, name, rand_qarg(rng))
    if name == "without_query_params":
        return st.mod(h, name, *[enc(pick(rng, QKEYS)) for _ in range(rng.randint(0, 2))])
    if name == "with_name":
        return st.mod(h, name, T(), B(), B())
    if name == "with_suffix":
        return st.mod(h, name, enc(pick(rng, ["", ".md", ".", ".a.b", ".é", ".a b", "x", ".a/b", ".%41", ".tar.gz", "..", ".\udc80"])), B(), B())
    if name == "truediv":
        return st.mod(h, name, T())
    if name == "joinpath":
        if rng.random() < 0.2:      # dot segments climbing above the root, then a name (the "leading slash put back" branch)
            return st.mod(h, name, "T" if rng.random() < 0.3 else "F", *[enc(pick(rng, ["..", "../x", ".", "./x", "a/../..", "", "x/..", "../../y", "./", "../", "é"]))
                                                                       for _ in range(rng.randint(1, 3))])
        args = [T() for _ in range(rng.randint(0, 3))]
        if args and rng.random() < 0.25:      # the same text twice (an implementation that finds "the last argument" by VALUE is wrong here)
            args = args + [enc(pick(rng, ["x", "y/", ""]))] * rng.randint(0, 1) + [args[0]]
        return st.mod(h, name, "T" if rng.random() < 0.15 else "F", *args)
    return st.mod(h, name)


REFS = ["", "x", "../y", "/z", "?q", "#f", "//other/p", "http://o/p", "g:h", "./", "..", ".", "a/./b", "%41", "é", "x y", "http:rel", "/a/../b", "?", "y#",
        "../../..", "g;x?y#s", "//o", "/./g", "g/../h", "?y#s", "../g#s/../x", "%2e%2e/g", "x%2Fy", "HTTP://o/p"]


def rand_build(rng, st, encoded_ok=True):
    kw = {}
    if rng.random() < 0.8:
        kw["scheme"] = pick(rng, urlgen.SCHEMES)
    if rng.random() < 0.15:
        kw["authority"] = pick(rng, ["h", "u:p@h:80", "[::1]:8080", "é.com", ":80", "u@", "h:99999", "[::1", "H", "u s:p%40@h", "h:0",
                                     "[v1.a:b]", "[g::1]:80", "u@[v1.x]", "u:[p]@h", "[::FFFF:1.2.3.4]", "[fe80::1%25eth0]:1",
                                     "ex℀mple.com", "a＠evil.com", "bücher.example:8080", "u:p@ü.com", "a／b.com", "[fe80::1%é]"])
    if rng.random() < 0.4:
        kw["user"] = pick(rng, urlgen.USERS)
    if rng.random() < 0.3:
        kw["password"] = pick(rng, urlgen.PASSWORDS)
    if rng.random() < 0.8:
        kw["host"] = pick(rng, HOSTS_ARG)
    if rng.random() < 0.4:
        kw["port"] = pick(rng, [None, 0, 80, 443, 21, 8080, 65535, 65536, -1, True, "80", 1])
    if rng.random() < 0.7:
        kw["path"] = pick(rng, urlgen.PATHS + TEXTS)
    if rng.random() < 0.3:
        kw["query"] = rand_qarg(rng)
    if rng.random() < 0.3:
        kw["query_string"] = pick(rng, [x for x in urlgen.QUERIES if x is not None])
    if rng.random() < 0.3:
        kw["fragment"] = pick(rng, [x for x in urlgen.FRAGMENTS if x is not None])
    if encoded_ok and rng.random() < 0.1:
        kw["encoded"] = True
    return st.build(**kw)


def general_stream(rng, n, obs, mods=MODS, enc_frac=0.1, chain=3, with_join=True, with_build=True, with_rt=False, with_pkl=False,
                   obs_base=None):
    st = Stream()
    for _ in range(n):
        s = urlgen.rand_url_string(rng)
        h = st.new(s, encoded=(rng.random() < enc_frac))
        st.obs_all(h, obs_base or obs)
        if with_rt:
            st.obs_all(st.rt(h), obs)
        for _ in range(chain):
            k = rand_mod(rng, st, h, mods)
            st.obs_all(k, obs)
            if with_rt:
                r = st.rt(k)
                st.obs_all(r, obs)
            if with_pkl:
                p = st.pkl(k)
                st.obs_all(p, obs)
            if rng.random() < 0.35:
                h = k
        if with_join:
            r = st.new(pick(rng, REFS) if rng.random() < 0.7 else urlgen.rand_url_string(rng))
            j = st.join(h, r)
            st.obs_all(j, obs)
        if with_build:
            b = rand_build(rng, st)
            st.obs_all(b, obs)
    return st


def quoter_stream(strs, quoters=gens.QUOTERS, unquoters=gens.UNQUOTERS):
    st = Stream()
    for qn in quoters:
        for s in strs:
            st.add(f"q\tB\t{qn}\t{enc(s)}")
    for qn in unquoters:
        for s in strs:
            st.add(f"uq\tB\t{qn}\t{enc(s)}")
    return st


def quoter_strings(rng, tier, budget):
    strs = list(gens.strings_over(gens.CRIT, 4 if tier == "quick" else 5))
    strs += gens.all_ascii_singles() + gens.all_escapes() + gens.all_byte_escapes()
    # every "%XY" over all printable ASCII pairs (exhaustive for the escape-recognition rule), plus a look-alike layer above U+00FF
    pr = [chr(i) for i in range(0x20, 0x7F)]
    strs += ["%" + a + b for a in pr for b in pr]
    strs += ["%" + a + b for a in "4aF" for b in "\u0430\u0441\u0161\u0142\uff11\uff21\u0660\u00b2"] + ["%" + b + a for a in "4aF" for b in "\u0430\u0441\u0161\u0142\uff11\uff21\u0660\u00b2"]
    # every ASCII character (and a few others) put at the start / in the middle / at the end of otherwise all-safe texts:
    # the classic blind spots of anchored regular expressions and of "nothing to do" shortcuts (trailing newline, NUL, DEL, …)
    singles = [chr(i) for i in range(128)] + ["\x80", "\xa0", "\u2028", "\u0130", "\udc80", "\U0001f600"]
    for base in ("abc", "a/b-c", "k=v", "A.z~_"):
        for c in singles:
            strs += [c + base, base[:2] + c + base[2:], base + c, base + c + c]
    # CPython's string KIND (1-, 2-, 4-byte storage) is a dimension of the compiled quoter that the code-point model does not have: every
    # short text over {'%', hex digit, hex letter, low / high lone surrogate} - surrogates inside, before and after escapes - in the company of
    # a Latin-1, a BMP and an astral character (the astral one makes the whole string 4-byte kind), before and after it
    cores = list(gens.strings_over(["%", "4", "a", "\udc80", "\ud800"], 4))
    for comp in ("\xe9", "\u0430", "\U0001f40d"):
        strs += [c + comp for c in cores] + [comp + c for c in cores if "\udc80" in c or "\ud800" in c]
    strs += [gens.rand_text(rng) for _ in range(int((4000 if tier == "quick" else 60000) * budget))]
    return strs


class Prop:
    def __init__(self, pid, streams, compare=None, oracle=None, extra=None, assumptions=(), trusted=()):
        self.pid = pid
        self.streams = streams
        self._compare = compare
        self.oracle = oracle
        self.extra = extra
        self.assumptions = list(assumptions)
        self.trusted = list(trusted)

    def compare(self, op):
        if op.startswith("orc\t"):
            return False
        return self._compare(op) if self._compare else True


def obs_filter(names):
    names = set(names)

    def f(op):
        fl = op.split("\t")
        if fl[0] == "obs":
            return fl[3] in names
        return True
    return f


REGISTRY = {}


def register(p):
    REGISTRY[p.pid] = p
    return p


def fail(view, h, name, what, cls, also=()):
    return {"what": what, "class": cls, "n": view.n_of(h, name), "also": list(also), "input": describe_handle(view.full, h)}


import props_a  # noqa: E402,F401
import props_b  # noqa: E402,F401
import props_c  # noqa: E402,F401
