#!/venv/bin/python
"""./check Cxx [--tier quick|thorough] [--replay FILE]

Decides one property on /repo's current working tree:
  1. scratch copy of the working tree + freshly compiled extension;
  2. tables regenerated into lean/YarlModel/Generated.lean, `lake build` of the driver
     and of the property's proof module, `#print axioms` audit of every property theorem;
  3. correspondence: the property's op streams through the real code (both backends)
     and through the compiled Lean model, diffed;
  4. direct oracle of the property on the implementation's own outputs;
  5. verdict (see DESIGN.md section 5).
Exit 0 = held; 1 = VIOLATION line printed; 2 = infrastructure failure (not a verdict).
"""
import argparse
import collections
import concurrent.futures
import json
import os
import random
import sys
import time
import traceback

sys.path.insert(0, os.path.dirname(os.path.abspath(__file__)))
import core  # noqa: E402
import props  # noqa: E402
import urlgen  # noqa: E402


def chain_for(ops, idx):
    """the minimal prefix of ops needed to replay op `idx`: the ops that create the handles it
    (transitively) refers to, plus oracle lines"""
    creators = [n for n, o in enumerate(ops) if o.split("\t")[0] in props.CREATORS]
    need = set()
    keep = set()

    def handles_of(line):
        f = line.split("\t")
        op = f[0]
        if op in ("obs", "mod", "rt", "hr", "hre"):
            return [int(f[2])]
        if op == "jn":
            return [int(f[2]), int(f[3])]
        if op == "cmp":
            return [int(f[1]), int(f[2])]
        if op == "pkl":
            return [int(f[1])]
        return []

    def visit(n):
        if n in keep:
            return
        keep.add(n)
        for h in handles_of(ops[n]):
            if h < len(creators):
                visit(creators[h])

    visit(idx)
    return sorted(keep)


def renumber(ops, keep):
    """rewrite handle numbers so that the kept ops form a self-contained stream"""
    creators = [n for n, o in enumerate(ops) if o.split("\t")[0] in props.CREATORS]
    hmap = {}
    out = []
    nxt = 0
    for n in keep:
        f = ops[n].split("\t")
        op = f[0]
        if op in ("obs", "mod", "rt", "hr", "hre"):
            f[2] = str(hmap[int(f[2])])
        elif op == "jn":
            f[2] = str(hmap[int(f[2])])
            f[3] = str(hmap[int(f[3])])
        elif op == "cmp":
            f[1] = str(hmap[int(f[1])])
            f[2] = str(hmap[int(f[2])])
        elif op == "pkl":
            f[1] = str(hmap[int(f[1])])
        if op in props.CREATORS:
            hmap[creators.index(n)] = nxt
            nxt += 1
        out.append("\t".join(f))
    return out


def to_placeholder(line):
    f = line.split("\t")
    if f[0] in ("new", "bld", "obs", "mod", "jn", "rt", "hr", "hre", "q", "uq") and len(f) > 1 and f[1] in ("py", "c"):
        f[1] = "B"
    return "\t".join(f)


def describe_ops(lines):
    return [props.pretty(l) for l in lines]


def run_streams(scratch, stream_ops_by_backend, model_ok):
    """returns dict backend -> (full_ops, model_out or None, impl_out or None, err)"""
    res = {}

    def one(b):
        ops = stream_ops_by_backend[b]
        if model_ok:
            full, mo, norc = core.run_model_with_oracles(ops)
        else:
            full, mo, norc = ops, None, 0
        io, err = core.run_impl(scratch, full, b)
        return b, (full, mo, io, err, norc)

    with concurrent.futures.ThreadPoolExecutor(max_workers=2) as ex:
        for b, r in ex.map(one, list(stream_ops_by_backend)):
            res[b] = r
    return res


def main():
    ap = argparse.ArgumentParser()
    ap.add_argument("pid")
    ap.add_argument("--tier", default=os.environ.get("VERIF_TIER", "quick"))
    ap.add_argument("--replay")
    args = ap.parse_args()
    pid = args.pid
    tier = args.tier if args.tier in ("quick", "thorough") else "quick"
    seed = int(os.environ.get("VERIF_SEED", "0") or 0)
    t0 = time.time()
    prop = props.REGISTRY.get(pid)
    if prop is None:
        print(f"unknown property {pid}")
        return 2

    scratch = core.Scratch()
    try:
        scratch.build()
        if args.replay:
            return replay(prop, scratch, args.replay)
        return decide(prop, scratch, tier, seed, t0)
    except core.Infra as e:
        print(f"INFRA: {e}")
        return 2
    finally:
        scratch.close()


def replay(prop, scratch, path):
    payload = json.load(open(os.path.join(core.VERIF, path) if not os.path.isabs(path) else path))
    ops = payload.get("ops")
    if not ops:
        print(json.dumps(payload, indent=1))
        return 0
    print("replaying", len(ops), "ops for", prop.pid)
    rc = 0
    for b in ("py", "c"):
        if b == "c" and not scratch.ext_ok:
            continue
        bops = [o.replace("\tB\t", f"\t{b}\t") for o in ops]
        try:
            full, mo, _ = core.run_model_with_oracles(bops)
        except core.Infra as e:
            full, mo = bops, None
            print("model unavailable:", e)
        io, err = core.run_impl(scratch, full, b)
        for n, o in enumerate(full):
            if o.startswith("orc\t"):
                continue
            print(f"[{b}] {props.pretty(o)}")
            print(f"      impl : {props.pretty_out(io[n]) if io else err}")
            if mo:
                print(f"      model: {props.pretty_out(mo[n])}")
        if io:
            fails = prop.oracle(full, io, b) if prop.oracle else []
            for f in fails:
                print(f"[{b}] ORACLE FAILS: {f['what']}")
                rc = 1
    return rc


def decide(prop, scratch, tier, seed, t0):
    pid = prop.pid
    rng = random.Random(seed * 1000003 + int(pid[1:]))
    notes = []
    if tier == "thorough" and not os.environ.get("VERIF_COVERAGE"):
        # thorough tier: measure which lines of yarl/*.py the pure-Python worker executes under this property's streams
        os.environ["VERIF_COVERAGE"] = os.path.join(scratch.dir, "cov")
        os.environ["VERIF_COVERAGE_AUTO"] = "1"
    tie_broken = []          # names of obligations / correspondences that no longer check
    assumptions = list(prop.assumptions)

    # ---- 2. tables, driver, proofs
    with core.BuildLock():
        ok, changed, msg = core.regenerate_tables(scratch)
        notes.append("tables: " + msg.splitlines()[-1] if msg else "tables")
        model_ok = True
        if not ok:
            tie_broken.append("translator: table extraction failed: " + msg.strip().splitlines()[-1][:300])
        okd, logd, _ = core.lake("driver")
        if not okd:
            model_ok = False
            tie_broken.append("model: lean driver does not build against the regenerated tables")
            notes.append(logd[-1500:])
        aud = core.audit(pid)
        forb = core.grep_forbidden()
    if forb:
        tie_broken.append("forbidden tokens in Lean sources: " + "; ".join(forb[:5]))
    if tier == "thorough" and not aud["failed"]:
        # independent re-check of the compiled proof modules by the toolchain's leanchecker
        import subprocess
        mods = core.property_modules(pid)
        with core.BuildLock():
            r = subprocess.run(["lake", "env", "leanchecker"] + mods, cwd=core.LEAN, capture_output=True, text=True, timeout=3000)
        if r.returncode != 0:
            tie_broken.append("leanchecker rejects the compiled proof modules: " + (r.stdout + r.stderr)[-400:])
        else:
            notes.append("leanchecker re-checked: " + ", ".join(mods))
    for n in aud["failed"]:
        tie_broken.append(f"theorem {n} no longer checks")
    if not os.path.exists(core.DRIVER):
        model_ok = False

    # ---- 3/4. streams
    ext_backends = ["py"] + (["c"] if scratch.ext_ok else [])
    if not scratch.ext_ok:
        tie_broken.append("compiled backend does not build from the working tree: " + scratch.ext_err[-300:])
    budget = 1.0 if not tie_broken else 4.0
    failures = []            # direct-oracle failures (dicts)
    disagreements = []       # correspondence disagreements (dicts)
    stats = collections.Counter()
    samples = []
    nontrivial = set()
    for gi, (gname, stream) in enumerate(prop.streams(rng, tier, budget)):
        by_b = {b: stream.for_backend(b) for b in ext_backends}
        res = run_streams(scratch, by_b, model_ok)
        for b in ext_backends:
            full, mo, io, err, norc = res[b]
            stats["oracle_table_entries"] += norc
            if io is None:
                # the real code crashed the worker process: that is itself observable
                failures.append({"what": f"worker process died on stream {gname} ({b}): {err[-400:]}", "class": "crash",
                                 "ops": None, "backend": b})
                continue
            # internal helpers that a rewrite renamed or inlined: that level of the correspondence is skipped, not failed
            gone = [n for n, r in enumerate(io) if r.startswith("!unavailable:")]
            if gone:
                names_gone = sorted({io[n].split(":", 1)[1] for n in gone})
                note = "internal helper(s) not found under their historical names: " + ", ".join(names_gone) + " — helper-level ops skipped; the URL-level ops exercise the same code"
                if note not in notes:
                    notes.append(note)
                stats["helper_level_ops_skipped"] += len(gone)
                keepi = [n for n in range(len(full)) if n not in set(gone)]
                full = [full[n] for n in keepi]
                io = [io[n] for n in keepi]
                if mo is not None:
                    mo = [mo[n] for n in keepi]
            stats["evaluations"] += len(full)
            stats[f"ops[{gname}]"] += len(full)
            for n, o in enumerate(full):
                f0 = o.split("\t", 1)[0]
                stats["op:" + f0] += 1
                r = io[n]
                if r.startswith("!"):
                    stats["result:" + r.split(":")[0][:3]] += 1
                if b == "py" and props.nontrivial(o, r):
                    nontrivial.add(o)
            if mo is not None:
                for n, (o, m, i) in enumerate(zip(full, mo, io)):
                    if m != i and prop.compare(o):
                        if m.startswith("!O:"):
                            stats["oracle_unresolved"] += 1
                            continue
                        disagreements.append({"n": n, "op": o, "model": m, "impl": i, "backend": b, "stream": gname, "full": full})
            if prop.oracle:
                for f in prop.oracle(full, io, b):
                    f.setdefault("backend", b)
                    f.setdefault("stream", gname)
                    f["full"] = full
                    failures.append(f)
            if len(samples) < 6 and b == "py":
                k = [n for n, o in enumerate(full) if not o.startswith("orc\t")]
                for n in k[:: max(1, len(k) // 2)][:2]:
                    samples.append({"op": props.pretty(full[n]), "impl": props.pretty_out(io[n])})
    # implementation-only extras (snapshots, threads, fault injection ...)
    if prop.extra:
        ex = prop.extra(scratch, rng, tier, budget)
        failures.extend(ex.get("failures", []))
        for k, v in ex.get("stats", {}).items():
            stats[k] += v
        samples.extend(ex.get("samples", [])[:4])
        notes.extend(ex.get("notes", []))
        nontrivial.update(ex.get("nontrivial", []))

    # ---- 4b. failing-input search for a broken correspondence: every kind of disagreeing op is re-executed in ISOLATION
    # (its minimal creating chain, in a fresh interpreter with cold caches) under EXTENDED observation (every accessor of every
    # handle, the re-parsed string form, the pickled twin), and the property's oracle is asked again.  A fault whose symptom
    # depends on which objects the long stream happened to share shows up here with a short, deterministic replay.
    if disagreements and prop.oracle and not any(not any(k.get("status") == "known" and props.known_match(k, f) for k in core.load_known(pid))
                                                   for f in failures):
        found = isolated_search(prop, scratch, disagreements, core.load_known(pid), stats)
        failures.extend(found)

    if os.environ.get("VERIF_VERBOSE"):
        seen = collections.Counter()
        for f in failures:
            seen[f.get("class")] += 1
            if seen[f.get("class")] <= int(os.environ.get("VERIF_VERBOSE")):
                print("  FAIL[%s][%s] %s" % (f.get("class"), f.get("backend"), f["what"][:400]))
        print("  classes:", dict(seen))
        for d in disagreements[: int(os.environ.get("VERIF_VERBOSE"))]:
            print("  DIFF[%s] %s model=%s impl=%s" % (d["backend"], props.pretty(d["op"]), props.pretty_out(d["model"]), props.pretty_out(d["impl"])))
    # ---- 5. verdict
    known = core.load_known(pid)
    unlisted = []
    known_hits = collections.OrderedDict()
    for f in failures:
        hit = None
        for k in known:
            if k.get("status") == "known" and props.known_match(k, f):
                hit = k
                break
        if hit:
            known_hits.setdefault(hit["id"], (hit, f))
        else:
            unlisted.append(f)
    # a disagreement explained by a listed known finding does not by itself break the tie
    for k, (hit, f) in known_hits.items():
        print(f"KNOWN-FINDING: property={pid} {hit['what']}")

    violations = 0
    rc = 0
    if unlisted:
        f = unlisted[0]
        payload = make_replay(pid, f, "direct oracle on the implementation", tie_broken)
        if payload.get("ops") and f.get("full") is not None and f.get("n") is not None and not f.get("found_by_isolation"):
            try:
                base_keep = chain_for(f["full"], f["n"])
                for extra_n in f.get("also", []):
                    base_keep = sorted(set(base_keep) | set(chain_for(f["full"], extra_n)))
                keep, hruns, ok = history_for(prop, scratch, f, base_keep)
                payload["reproduction_runs"] = hruns
                if ok is False:
                    payload["note"] = "the failure was observed in the long stream but neither its chain alone nor the preceding history reproduced it in a fresh process (possibly order- or timing-dependent); the ops listed are the minimal creating chain"
                elif ok and list(keep) != list(base_keep):
                    payload["history_dependent"] = True
                    payload["ops"] = [to_placeholder(o) for o in renumber(f["full"], keep)]
                    payload["ops_pretty"] = describe_ops(payload["ops"])
                    payload["note"] = "the failing call is correct on its own: the replay includes the earlier calls of the same process that are needed to reproduce it"
            except Exception as ex:
                payload["history_error"] = repr(ex)
        if payload.get("ops") and not payload.get("history_dependent"):
            try:
                small, runs = shrink(prop, scratch, [to_placeholder(o) for o in payload["ops"]], f.get("backend"), f.get("class"))
                if runs:
                    payload["shrink_runs"] = runs
                    if small != [to_placeholder(o) for o in payload["ops"]]:
                        payload["ops_unshrunk_pretty"] = payload.get("ops_pretty")
                        payload["ops"] = small
                        payload["ops_pretty"] = describe_ops(small)
                        payload["what_unshrunk"] = payload["what"]
                        if getattr(shrink, "last_what", None):
                            payload["what"] = shrink.last_what
            except Exception as ex:  # shrinking is best effort
                payload["shrink_error"] = repr(ex)
        path = core.write_replay(pid, payload)
        print(f"VIOLATION property={pid} replay={path}")
        violations = len(unlisted)
        rc = 1
    elif disagreements or tie_broken:
        d = disagreements[0] if disagreements else None
        payload = {
            "property": pid,
            "kind": "tie-broken",
            "no_failing_input_found": True,
            "broken": tie_broken + ([f"correspondence: model and implementation differ on {len(disagreements)} op(s); first: "
                                     f"{props.pretty(d['op'])} model={props.pretty_out(d['model'])} impl={props.pretty_out(d['impl'])} [{d['backend']}]"] if d else []),
            "searched": dict((k, v) for k, v in stats.items() if k.startswith("ops[") or k == "evaluations"),
        }
        if d:
            keep = chain_for(d["full"], d["n"])
            payload["ops"] = [o for o in renumber(d["full"], keep)]
            payload["ops_pretty"] = describe_ops(payload["ops"])
        path = core.write_replay(pid, payload)
        print(f"VIOLATION property={pid} replay={path} no-failing-input-found")
        violations = 1
        rc = 1

    src_cov = None
    if os.environ.get("VERIF_COVERAGE_AUTO"):
        try:
            src_cov = core.source_coverage(scratch, os.environ["VERIF_COVERAGE"])
        except Exception as ex:  # measurement is informational only
            notes.append("source coverage unavailable: %r" % (ex,))
    wall = time.time() - t0
    coverage = {
        "obligations": max(1, aud["obligations"]),
        "discharged": aud["discharged"],
        "checker_cmd": f"cd lean && lake build YarlProofs.{pid} && lake env lean --stdin  # '#print axioms' on: " + ", ".join(aud["theorems"][:40]),
        "trusted_base": [
            "Lean 4.33.0 kernel",
            "axioms used by the property theorems: " + (", ".join(sorted({a for v in aud['axioms'].values() for a in v})) or "none"),
            "harness/extract_tables.py (table translator) and the correspondence harness (harness/*.py, lean/Main.lean)",
        ] + prop.trusted,
        "theorems": aud["theorems"],
        "theorem_axioms": aud["axioms"],
        "failed_obligations": aud["failed"],
        "proof_build_s": aud.get("build_s"),
        "evaluations": int(stats["evaluations"]),
        "distinct_nontrivial": len(nontrivial),
        "rule": props.NONTRIVIAL_RULE,
        "samples": samples[:8] or [{"note": "no stream samples"}],
        "correspondence_disagreements": len(disagreements),
        "direct_oracle_failures": len(failures),
        "known_findings_printed": list(known_hits),
        "tie_broken": tie_broken,
        "distribution": {k: v for k, v in sorted(stats.items()) if k != "evaluations"},
        "backends": ext_backends,
        "notes": notes[:10],
    }
    if src_cov:
        coverage["implementation_lines_executed_by_streams"] = src_cov
    core.write_evidence(pid, tier, seed, coverage, assumptions, wall, violations)
    print(f"{pid} {tier}: obligations {aud['discharged']}/{aud['obligations']}, {stats['evaluations']} ops compared, "
          f"{len(disagreements)} disagreements, {len(failures)} oracle failures ({len(known_hits)} known), {wall:.1f}s")
    return rc


STR_FIELDS = {"new": [3], "q": [3], "uq": [3], "su": [1], "sn": [1], "np": [1], "pq": [1], "eh": [1], "hq": [1]}


def shrink(prop, scratch, ops, backend, cls, budget=90):
    """delta-debug the string arguments of a failing op chain: delete code points while the direct oracle still
    reports a failure of the same class on the real code.  Returns the (possibly) smaller chain."""
    if not prop.oracle or backend not in ("py", "c") or cls in ("backend-mismatch",):
        return ops, 0

    def still_fails(cand):
        b_ops = [o.replace("\tB\t", f"\t{backend}\t") for o in cand]
        io, err = core.run_impl(scratch, b_ops, backend, timeout=120)
        if io is None:
            return cls == "crash"
        try:
            hits = [f for f in prop.oracle(b_ops, io, backend) if f.get("class") == cls]
        except Exception:
            return False
        if hits:
            last_what[0] = hits[0]["what"]
        return bool(hits)

    runs = 0
    cur = list(ops)
    last_what = [None]
    # op-level pass for chains of handle-free calls (quoters, splitters …): drop whole calls while the failure persists
    if len(cur) > 1 and all(o.split("\t")[0] in STR_FIELDS and o.split("\t")[0] != "new" for o in cur):
        block = max(1, len(cur) // 2)
        while block >= 1 and runs < budget:
            i = 0
            while i < len(cur) and len(cur) > 1 and runs < budget:
                cand = cur[:i] + cur[i + block:]
                runs += 1
                if cand and still_fails(cand):
                    cur = cand
                else:
                    i += block
            block //= 2
    improved = True
    while improved and runs < budget:
        improved = False
        for i, line in enumerate(cur):
            f = line.split("\t")
            idxs = STR_FIELDS.get(f[0], [])
            if f[0] == "mod":
                idxs = [k for k in range(4, len(f)) if f[k] and all(ch in "0123456789abcdef." for ch in f[k])]
            for k in idxs:
                if k >= len(f) or not f[k] or f[k] == "~":
                    continue
                cps = f[k].split(".")
                if len(cps) > 60:
                    chunks = [(a, min(len(cps), a + max(1, len(cps) // 8))) for a in range(0, len(cps), max(1, len(cps) // 8))]
                else:
                    chunks = [(a, a + 1) for a in range(len(cps))]
                for a, b_ in chunks:
                    if runs >= budget:
                        break
                    cand_cps = cps[:a] + cps[b_:]
                    g = list(f)
                    g[k] = ".".join(cand_cps)
                    cand = cur[:i] + ["\t".join(g)] + cur[i + 1:]
                    runs += 1
                    if still_fails(cand):
                        cur = cand
                        f = g
                        cps = cand_cps
                        improved = True
                        break
    shrink.last_what = last_what[0] if cur != list(ops) else None
    return cur, runs


def isolated_search(prop, scratch, disagreements, known, stats, limit=48):
    picked = []
    seen = set()
    for d in disagreements:
        f = d["op"].split("\t")
        key = (d["stream"], d["backend"], f[0], f[3] if len(f) > 3 and f[0] in ("obs", "mod") else "", d["model"][:1], d["impl"][:1])
        if key in seen and len(picked) >= 12:
            continue
        seen.add(key)
        picked.append(d)
        if len(picked) >= limit:
            break
    out = []
    # stateless calls (quoters / unquoters): the long stream ran the configurations in one fixed order; a leak of state between
    # configurations shows its harmful direction only in the opposite order — re-run every configuration on the disagreeing
    # inputs in REVERSED order in a fresh process
    import gens
    seen_s = []
    for d in disagreements:
        f = d["op"].split("\t")
        if f[0] in ("q", "uq") and (d["backend"], f[3]) not in seen_s:
            seen_s.append((d["backend"], f[3]))
        if len(seen_s) >= 24:
            break
    for b in ("py", "c"):
        strs = [x for bb, x in seen_s if bb == b]
        if not strs:
            continue
        rops = [f"q\t{b}\t{qn}\t{x}" for qn in reversed(gens.QUOTERS) for x in strs] + \
               [f"uq\t{b}\t{qn}\t{x}" for qn in reversed(gens.UNQUOTERS) for x in strs]
        io, err = core.run_impl(scratch, rops, b, timeout=300)
        stats["isolated_reexecutions"] += 1
        if io is None:
            continue
        try:
            fs = prop.oracle(rops, io, b)
        except Exception:
            fs = []
        fs = [f for f in fs if not any(kk.get("status") == "known" and props.known_match(kk, f) for kk in known)]
        if fs:
            f = fs[0]
            f.setdefault("backend", b)
            f["stream"] = "reversed-configuration-order"
            f["full"] = rops
            f["also"] = list(range(0, f.get("n", 0)))
            f["found_by_isolation"] = True
            out.append(f)
            return out
    for d in picked:
        full = d["full"]
        keep = chain_for(full, d["n"])
        ops = [to_placeholder(o) for o in renumber(full, keep)]
        nh = sum(1 for o in ops if o.split("\t")[0] in props.CREATORS)
        allobs = urlgen.OBS_ALL + ["val"]
        # variant "cold": the chain, then every accessor of every handle;  variant "warm": every accessor of a handle is read
        # right after the handle is created, i.e. BEFORE anything is derived from it (a derivation that carries cached values over)
        variants = []
        ext = list(ops)
        for h in range(nh):
            for name in allobs:
                ext.append("obs\tB\t%d\t%s" % (h, name))
        variants.append(ext)
        warm = []
        hc = 0
        for o in ops:
            warm.append(o)
            if o.split("\t")[0] in props.CREATORS:
                for name in allobs:
                    warm.append("obs\tB\t%d\t%s" % (hc, name))
                hc += 1
        variants.append(warm)
        hit = False
        for ext in variants:
            k = nh
            for h in range(nh):
                ext.append("rt\tB\t%d" % h)
                ext.append("pkl\t%d" % h)
                for name in allobs:
                    ext.append("obs\tB\t%d\t%s" % (k, name))
                    ext.append("obs\tB\t%d\t%s" % (k + 1, name))
                k += 2
            b = d["backend"]
            b_ops = [o.replace("\tB\t", f"\t{b}\t") for o in ext]
            io, err = core.run_impl(scratch, b_ops, b, timeout=300)
            stats["isolated_reexecutions"] += 1
            if io is None:
                out.append({"what": f"worker process died re-executing {props.pretty(d['op'])} in isolation: {err[-300:]}", "class": "crash", "backend": b,
                            "full": b_ops, "n": len(ops) - 1, "stream": d["stream"] + "/isolated"})
                hit = True
                break
            try:
                fs = prop.oracle(b_ops, io, b)
            except Exception:
                continue
            fs = [f for f in fs if not any(kk.get("status") == "known" and props.known_match(kk, f) for kk in known)]
            if fs:
                f = fs[0]
                f.setdefault("backend", b)
                f["stream"] = d["stream"] + "/isolated"
                f["full"] = b_ops
                f["also"] = list(range(0, len(b_ops)))      # keep the whole (short) re-execution: the reads are part of the history
                f["found_by_isolation"] = True
                out.append(f)
                hit = True
                break
        if hit:
            break
    return out


def closure(full, idxs):
    """the given op indices plus every op that creates a handle they (transitively) refer to"""
    creators = [n for n, o in enumerate(full) if o.split("\t")[0] in props.CREATORS]
    keep = set()
    stack = list(idxs)
    while stack:
        n = stack.pop()
        if n in keep:
            continue
        keep.add(n)
        f = full[n].split("\t")
        op = f[0]
        hs = []
        if op in ("obs", "mod", "rt", "hr", "hre"):
            hs = [int(f[2])]
        elif op == "jn":
            hs = [int(f[2]), int(f[3])]
        elif op == "cmp":
            hs = [int(f[1]), int(f[2])]
        elif op == "pkl":
            hs = [int(f[1])]
        for h in hs:
            if h < len(creators):
                stack.append(creators[h])
    return sorted(keep)


def history_for(prop, scratch, f, base_keep, max_runs=30):
    """A failure whose minimal creating chain does NOT reproduce it alone depends on what the process did before
    (caches, memo tables, shared objects).  Find a short history that does reproduce it: the chain plus a window of the
    ops that preceded the failing one, widened geometrically and then thinned greedily."""
    full, n, b, cls = f["full"], f["n"], f.get("backend"), f.get("class")
    if b not in ("py", "c") or not prop.oracle:
        return base_keep, 0, None
    runs = [0]

    def reproduces(keep):
        runs[0] += 1
        ops = [to_placeholder(o) for o in renumber(full, keep)]
        b_ops = [o.replace("\tB\t", f"\t{b}\t") for o in ops]
        io, err = core.run_impl(scratch, b_ops, b, timeout=600)
        if io is None:
            return cls == "crash"
        try:
            return any(x.get("class") == cls for x in prop.oracle(b_ops, io, b))
        except Exception:
            return False

    if reproduces(base_keep):
        return base_keep, runs[0], True
    found = None
    w = 16
    while True:
        lo = max(0, n - w)
        keep = closure(full, list(range(lo, n + 1)) + list(base_keep))
        if reproduces(keep):
            found = (lo, keep)
            break
        if lo == 0 or runs[0] >= max_runs:
            break
        w *= 8
    if not found:
        return base_keep, runs[0], False
    lo, keep = found
    # thin the window: drop blocks of ops (never the base chain) while the failure still reproduces
    base = set(base_keep)
    window = [i for i in range(lo, n + 1) if i not in base]
    block = max(1, len(window) // 4)
    while block >= 1 and runs[0] < max_runs:
        i = 0
        changed = False
        while i < len(window) and runs[0] < max_runs:
            cand = window[:i] + window[i + block:]
            k2 = closure(full, cand + list(base_keep))
            if reproduces(k2):
                window = cand
                keep = k2
                changed = True
            else:
                i += block
        if block == 1 and not changed:
            break
        block = block // 2 if block > 1 else (1 if changed else 0)
    return keep, runs[0], True


def make_replay(pid, f, how, tie_broken):
    payload = {"property": pid, "kind": "failing-input", "found_by": how, "what": f["what"], "class": f.get("class"),
               "backend": f.get("backend"), "stream": f.get("stream"), "tie_broken": tie_broken}
    if f.get("full") is not None and f.get("n") is not None:
        keep = chain_for(f["full"], f["n"])
        for extra_n in f.get("also", []):
            keep = sorted(set(keep) | set(chain_for(f["full"], extra_n)))
        payload["ops"] = [to_placeholder(o) for o in renumber(f["full"], keep)]
        payload["ops_pretty"] = describe_ops(payload["ops"])
    for k in ("input", "detail", "program"):
        if k in f:
            payload[k] = f[k]
    return payload


if __name__ == "__main__":
    try:
        sys.exit(main())
    except core.Infra as e:
        print("INFRA:", e)
        sys.exit(2)
    except Exception:
        traceback.print_exc()
        sys.exit(2)
