#!/bin/sh
# usage: seed_run.sh <patch.diff> <pid> [<pid>...]  — apply the seeded change to /repo, run the checks, undo it straight afterwards
P="$1"; shift
git -C /repo apply "$P" || exit 2
for pid in "$@"; do
  out=$(cd /verif && ./check $pid --tier quick 2>&1 | grep -E "VIOLATION|^$pid " | tr '\n' ' ')
  echo "  [$pid] $out"
done
git -C /repo checkout -- .
