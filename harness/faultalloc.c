/* Allocation-fault injector for C19: wraps the PYMEM_DOMAIN_MEM allocator (the one
   PyMem_Malloc / PyMem_Realloc in _quoting_c.pyx use).  While armed, the n-th request
   of at least `min_size` bytes fails; big blocks are tracked so that leaks and double
   frees of the quoter's buffer are visible.  No change to yarl is needed. */
#define PY_SSIZE_T_CLEAN
#include <Python.h>

static PyMemAllocatorEx orig;
static int installed = 0;
static int armed = 0;
static long countdown = -1;     /* fail when it reaches 0 */
static long requests = 0;       /* big requests seen while armed */
static long failed = 0;
static size_t min_size = 4096;
#define MAXLIVE 64
static void *live[MAXLIVE];
static int nlive = 0;
static long bad_free = 0;

static void track_add(void *p) { if (p && nlive < MAXLIVE) live[nlive++] = p; }
static int track_del(void *p) {
    for (int i = 0; i < nlive; i++) if (live[i] == p) { live[i] = live[--nlive]; return 1; }
    return 0;
}
static int should_fail(size_t size) {
    if (!armed || size < min_size) return 0;
    requests++;
    if (countdown == 0) { countdown = -1; failed++; return 1; }
    if (countdown > 0) countdown--;
    return 0;
}
static void *w_malloc(void *ctx, size_t size) {
    if (should_fail(size)) return NULL;
    void *p = orig.malloc(orig.ctx, size);
    if (armed && size >= min_size) track_add(p);
    return p;
}
static void *w_calloc(void *ctx, size_t n, size_t size) {
    if (should_fail(n * size)) return NULL;
    void *p = orig.calloc(orig.ctx, n, size);
    if (armed && n * size >= min_size) track_add(p);
    return p;
}
static void *w_realloc(void *ctx, void *ptr, size_t size) {
    if (should_fail(size)) return NULL;
    int was = ptr ? track_del(ptr) : 0;
    void *p = orig.realloc(orig.ctx, ptr, size);
    if (p == NULL && was) track_add(ptr);
    else if (armed && size >= min_size) track_add(p);
    else if (was && p) { /* shrunk below threshold */ }
    return p;
}
static void w_free(void *ctx, void *ptr) {
    if (ptr) track_del(ptr);
    orig.free(orig.ctx, ptr);
}

static PyObject *install(PyObject *self, PyObject *args) {
    if (!installed) {
        PyMemAllocatorEx a;
        PyMem_GetAllocator(PYMEM_DOMAIN_MEM, &orig);
        a.ctx = NULL; a.malloc = w_malloc; a.calloc = w_calloc; a.realloc = w_realloc; a.free = w_free;
        PyMem_SetAllocator(PYMEM_DOMAIN_MEM, &a);
        installed = 1;
    }
    Py_RETURN_NONE;
}
static PyObject *arm(PyObject *self, PyObject *args) {
    long n; Py_ssize_t ms = 4096;
    if (!PyArg_ParseTuple(args, "l|n", &n, &ms)) return NULL;
    countdown = n; requests = 0; failed = 0; min_size = (size_t)ms; nlive = 0; armed = 1;
    Py_RETURN_NONE;
}
static PyObject *disarm(PyObject *self, PyObject *args) {
    armed = 0;
    return Py_BuildValue("(lli)", requests, failed, nlive);
}
static PyMethodDef methods[] = {
    {"install", install, METH_NOARGS, ""}, {"arm", arm, METH_VARARGS, ""}, {"disarm", disarm, METH_NOARGS, ""}, {NULL, NULL, 0, NULL}};
static struct PyModuleDef mod = {PyModuleDef_HEAD_INIT, "faultalloc", NULL, -1, methods};
PyMODINIT_FUNC PyInit_faultalloc(void) { return PyModule_Create(&mod); }
