#!/bin/sh
# Build the framework from files on disk only (offline): Lean model + proofs + compiled driver, fault-injection helper.
set -e
cd "$(dirname "$0")"
# tables are regenerated from /repo by every check; build with whatever Generated.lean is committed first
(cd lean && lake build YarlModel driver && lake build YarlProofs)
mkdir -p harness/build
gcc -shared -fPIC -O1 -w -I /root/.pyenv/versions/3.12.1/include/python3.12 -o harness/build/faultalloc.cpython-312-x86_64-linux-gnu.so harness/faultalloc.c
echo "setup ok"
