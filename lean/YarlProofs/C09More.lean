import Lean
import YarlProofs.C09HeadlineMore
import YarlProofs.C17Ctor
/-!
  C09More.lean — closes GAPS items 1, 2/7 and 3 of C09Headline.lean.

  C09 | Eager and lazy component computation agree; pickling is lossless |

  (a) GAPS 3 "every accessor".  `Acc9` is THE accessor list of the model: one constructor per accessor function of
      YarlModel/Url.lean (the five stored fields, the netloc-derived accessors, the path / query / fragment accessors,
      the URL-valued ones `parent` / `origin()` / `relative()`, `__eq__` / `__lt__` / `__le__` / `__gt__` / `__ge__`
      against any other URL on either side, `__bool__`, the hash key, `human_repr`); `Acc9.read` evaluates it.
      `C09_accessor_list_complete` exhibits each accessor function of Url.lean as `Acc9.read` of one name.
      `C09_every_accessor` is ONE theorem: under the C09 guard `GoodAuthority`, for EVERY name the value read from the
      restored URL equals the value read from the constructor result (for the URL-valued accessors: the two results are
      again indistinguishable, `Indist`, and `C09_indist_every_accessor` says that indistinguishable URLs agree on
      every name — so the statement is closed under iteration).
  (b) GAPS 1.  `AuthorityOK n` is a decidable (Bool) predicate on the authority TEXT `n` of the input
      (`ctorAuthorityText s` = RFC 3986 Appendix B on the cleaned input); it covers every host kind: reg-names in any letter
      case, trailing dots, IPv4, IPv6 with any zone, IPvFuture and other bracketed texts, IDN hosts, the empty host with
      a written user / a password / a port — with or without userinfo and port.
      `C09_good_authority_of_input`: a Python-string input whose authority text satisfies it is inside
      `GoodAuthority`; for a non-ASCII host under the ONE assumption `IdnaSaneAt` (trusted base, C16Idn.lean).
      `C09_good_authority_iff_input`: on accepted input it IS the guard (iff) — no family is missing.
      `GoodAuthority` is FALSE for an input WITHOUT authority (`C09_guard_false_without_authority`), so the existing
      headline theorems say nothing about "/path", "mailto:x"; `InputOK` / `C09_pickle_lossless_of_input` include them.
      A build-time assertion (`run_cmd`, section metaCheck) checks that every function of YarlModel/Url.lean taking a
      `Url` is classified as accessor (then it occurs in `Acc9.read`) or modifier.
  (c) GAPS 2 / 7, the exact boundary.  `AgreeB n` is a decidable predicate on the authority text with
      `C09_eager_lazy_iff`: for an input whose host text is ASCII, eager = lazy IFF `AgreeB`.  The disagreeing
      authorities are exactly (A) "normalises to empty": empty host, no '[' , no written user (absent, "" or lone
      surrogates only), no password, no port text — among the authority texts without surrogates (all ASCII ones) these
      are exactly "@", ":" and "@:" (`C09_normalises_to_empty_ascii`); (B) "malformed brackets": a '[' inside the host
      text which is no IPv6 literal — EXCEPT when there is no port and every character after the first is '['
      (or the host text is "["), e.g. "foo://[:[]/": outside the guard `GoodAuthority`, yet eager = lazy
      (`C09_guard_not_exact`).  So `GoodAuthority` is sufficient, not necessary; `AgreeB` is exact.
      A user made of lone surrogates only is no third class: in front of a non-empty host it is inside both
      predicates (fixed by 2fdb38c), in front of an empty host it is a member of class (A).
  Not closable in the model (one line each): GAPS 4 (no hash function / `_cache["hash"]` in the model), GAPS 5 (pickle
  format not modelled beyond "the five strings survive"), GAPS 6 (no generated fact lists the keys `encode_url` caches).
-/
set_option linter.unusedVariables false
set_option linter.unusedSimpArgs false
namespace Yarl
open EagerLemmas NetlocLemmas

/-! ## (a) the complete accessor list -/

/-- every result type an accessor of Url.lean has -/
inductive AccVal where
  | str (r : R Str)
  | ostr (r : R (Option Str))
  | onat (r : R (Option Nat))
  | bool (r : R Bool)
  | strs (r : R (List Str))
  | pairs (l : List (Str × Str))
  | net (r : R NetPre)
  | parts (p : Parts)
  | url (r : R Url)

/-- THE accessor list of the model: one name per accessor function of YarlModel/Url.lean -/
inductive Acc9 where
  -- the five stored fields (`scheme`, `raw_authority`, stored path, `raw_query_string`, `raw_fragment`) and all five
  | scheme | rawAuthority | storedPath | rawQueryString | rawFragment | parts
  -- netloc-derived
  | lazyNet | net | rawUser | rawPassword | rawHost | explicitPort | user | password | host
  | hostSubcomponent | hostPortSubcomponent | port | isDefaultPort | authority | str | humanRepr
  -- path / query / fragment
  | rawPath | path | pathSafe | query | queryString | pathQs | rawPathQs | fragment
  | rawParts | partsDecoded | rawName | name | rawSuffix | suffix | rawSuffixes | suffixes
  -- URL-valued
  | parent | origin | relative
  -- comparison, truth value, hash key
  | eqKey | truthy
  | beqL (other : Url) | beqR (other : Url) | ltL (other : Url) | ltR (other : Url)
  | leL (other : Url) | leR (other : Url) | gtL (other : Url) | gtR (other : Url)
  | geL (other : Url) | geR (other : Url)

/-- evaluate the accessor `a` on `u` -/
def Acc9.read (a : Acc9) (e : Env) (u : Url) : AccVal :=
  match a with
  | .scheme => .str (.ok u.scheme)
  | .rawAuthority => .str (.ok u.netloc)
  | .storedPath => .str (.ok u.path)
  | .rawQueryString => .str (.ok u.query)
  | .rawFragment => .str (.ok u.fragment)
  | .parts => .parts u.parts
  | .lazyNet => .net (Yarl.lazyNet e (pickleTwin u))   -- what `_cache_netloc` derives from the stored netloc
  | .net => .net (Yarl.net e u)
  | .rawUser => .ostr (Yarl.rawUser e u)
  | .rawPassword => .ostr (Yarl.rawPassword e u)
  | .rawHost => .ostr (Yarl.rawHost e u)
  | .explicitPort => .onat (Yarl.explicitPort e u)
  | .user => .ostr (Yarl.user e u)
  | .password => .ostr (Yarl.password e u)
  | .host => .ostr (Yarl.host e u)
  | .hostSubcomponent => .ostr (Yarl.hostSubcomponent e u)
  | .hostPortSubcomponent => .ostr (Yarl.hostPortSubcomponent e u)
  | .port => .onat (Yarl.port e u)
  | .isDefaultPort => .bool (Yarl.isDefaultPort e u)
  | .authority => .str (Yarl.authority e u)
  | .str => .str (Yarl.str e u)
  | .humanRepr => .str (Yarl.humanRepr e u)
  | .rawPath => .str (.ok (Yarl.rawPath u))
  | .path => .str (.ok (pathDecoded e u))
  | .pathSafe => .str (.ok (Yarl.pathSafe e u))
  | .query => .pairs (queryPairs u)
  | .queryString => .str (.ok (Yarl.queryString e u))
  | .pathQs => .str (.ok (Yarl.pathQs e u))
  | .rawPathQs => .str (.ok (Yarl.rawPathQs u))
  | .fragment => .str (.ok (fragmentDecoded e u))
  | .rawParts => .strs (.ok (Yarl.rawParts u))
  | .partsDecoded => .strs (.ok (Yarl.partsDecoded e u))
  | .rawName => .str (Yarl.rawName u)
  | .name => .str (Yarl.name e u)
  | .rawSuffix => .str (Yarl.rawSuffix u)
  | .suffix => .str (Yarl.suffix e u)
  | .rawSuffixes => .strs (Yarl.rawSuffixes u)
  | .suffixes => .strs (Yarl.suffixes e u)
  | .parent => .url (.ok (Yarl.parent u))
  | .origin => .url (Yarl.origin e u)
  | .relative => .url (Yarl.relative u)
  | .eqKey => .parts (Yarl.eqKey u)
  | .truthy => .bool (.ok u.truthy)
  | .beqL v => .bool (.ok (u.beq v))
  | .beqR v => .bool (.ok (v.beq u))
  | .ltL v => .bool (.ok (u.lt v))
  | .ltR v => .bool (.ok (v.lt u))
  | .leL v => .bool (.ok (u.le v))
  | .leR v => .bool (.ok (v.le u))
  | .gtL v => .bool (.ok (u.gt v))
  | .gtR v => .bool (.ok (v.gt u))
  | .geL v => .bool (.ok (u.ge v))
  | .geR v => .bool (.ok (v.ge u))

/-- the accessor list is complete w.r.t. YarlModel/Url.lean: each accessor function of that file (everything that
    reads a `Url` and is not a constructor or a modifier) IS `Acc9.read` of one name.  (The modifiers — with_*,
    extend_query, update_query, without_query_params, `/`, join — taking the restored URL as an ARGUMENT:
    `C09_headline_restored_as_modifier_argument`, `C09_join_twin`.) -/
theorem C09_accessor_list_complete (e : Env) (u v : Url) :
    Acc9.scheme.read e u = .str (.ok u.scheme) ∧ Acc9.rawAuthority.read e u = .str (.ok u.netloc) ∧
    Acc9.storedPath.read e u = .str (.ok u.path) ∧ Acc9.rawQueryString.read e u = .str (.ok u.query) ∧
    Acc9.rawFragment.read e u = .str (.ok u.fragment) ∧ Acc9.parts.read e u = .parts (Url.parts u) ∧
    Acc9.lazyNet.read e u = .net (lazyNet e (pickleTwin u)) ∧ Acc9.net.read e u = .net (net e u) ∧
    Acc9.rawUser.read e u = .ostr (rawUser e u) ∧ Acc9.rawPassword.read e u = .ostr (rawPassword e u) ∧
    Acc9.rawHost.read e u = .ostr (rawHost e u) ∧ Acc9.explicitPort.read e u = .onat (explicitPort e u) ∧
    Acc9.user.read e u = .ostr (user e u) ∧ Acc9.password.read e u = .ostr (password e u) ∧
    Acc9.host.read e u = .ostr (host e u) ∧ Acc9.hostSubcomponent.read e u = .ostr (hostSubcomponent e u) ∧
    Acc9.hostPortSubcomponent.read e u = .ostr (hostPortSubcomponent e u) ∧ Acc9.port.read e u = .onat (port e u) ∧
    Acc9.isDefaultPort.read e u = .bool (isDefaultPort e u) ∧ Acc9.authority.read e u = .str (authority e u) ∧
    Acc9.str.read e u = .str (str e u) ∧ Acc9.humanRepr.read e u = .str (humanRepr e u) ∧
    Acc9.rawPath.read e u = .str (.ok (rawPath u)) ∧ Acc9.path.read e u = .str (.ok (pathDecoded e u)) ∧
    Acc9.pathSafe.read e u = .str (.ok (pathSafe e u)) ∧ Acc9.query.read e u = .pairs (queryPairs u) ∧
    Acc9.queryString.read e u = .str (.ok (queryString e u)) ∧ Acc9.pathQs.read e u = .str (.ok (pathQs e u)) ∧
    Acc9.rawPathQs.read e u = .str (.ok (rawPathQs u)) ∧ Acc9.fragment.read e u = .str (.ok (fragmentDecoded e u)) ∧
    Acc9.rawParts.read e u = .strs (.ok (rawParts u)) ∧ Acc9.partsDecoded.read e u = .strs (.ok (partsDecoded e u)) ∧
    Acc9.rawName.read e u = .str (rawName u) ∧ Acc9.name.read e u = .str (name e u) ∧
    Acc9.rawSuffix.read e u = .str (rawSuffix u) ∧ Acc9.suffix.read e u = .str (suffix e u) ∧
    Acc9.rawSuffixes.read e u = .strs (rawSuffixes u) ∧ Acc9.suffixes.read e u = .strs (suffixes e u) ∧
    Acc9.parent.read e u = .url (.ok (parent u)) ∧ Acc9.origin.read e u = .url (origin e u) ∧
    Acc9.relative.read e u = .url (relative u) ∧ Acc9.eqKey.read e u = .parts (eqKey u) ∧
    Acc9.truthy.read e u = .bool (.ok u.truthy) ∧
    (Acc9.beqL v).read e u = .bool (.ok (u.beq v)) ∧ (Acc9.beqR v).read e u = .bool (.ok (v.beq u)) ∧
    (Acc9.ltL v).read e u = .bool (.ok (u.lt v)) ∧ (Acc9.ltR v).read e u = .bool (.ok (v.lt u)) ∧
    (Acc9.leL v).read e u = .bool (.ok (u.le v)) ∧ (Acc9.leR v).read e u = .bool (.ok (v.le u)) ∧
    (Acc9.gtL v).read e u = .bool (.ok (u.gt v)) ∧ (Acc9.gtR v).read e u = .bool (.ok (v.gt u)) ∧
    (Acc9.geL v).read e u = .bool (.ok (u.ge v)) ∧ (Acc9.geR v).read e u = .bool (.ok (v.ge u)) := by
  refine ⟨rfl, rfl, rfl, rfl, rfl, rfl, rfl, rfl, rfl, rfl, rfl, rfl, rfl, rfl, rfl, rfl, rfl, rfl, rfl, rfl, rfl, rfl,
    rfl, rfl, rfl, rfl, rfl, rfl, rfl, rfl, rfl, rfl, rfl, rfl, rfl, rfl, rfl, rfl, rfl, rfl, rfl, rfl, rfl, rfl, rfl,
    rfl, rfl, rfl, rfl, rfl, rfl, rfl, rfl⟩


/-! ### build-time completeness check of the accessor list (not a theorem: an assertion on the environment)

  Every definition of the module YarlModel.Url that takes a `Url` argument must be classified below: either it is an
  ACCESSOR — then it must occur in the body of `Acc9.read` — or it is listed as a modifier / constructor-side function.
  If Url.lean gains a function that reads a `Url`, this file stops building until the function is classified. -/
section metaCheck
open Lean Elab Command

/-- the accessor functions of YarlModel/Url.lean (each is `Acc9.read` of one name: `C09_accessor_list_complete`) -/
def R9.accessorFns : List Name :=
  [``Url.parts, ``lazyNet, ``net, ``rawUser, ``rawPassword, ``rawHost, ``explicitPort, ``user, ``password, ``host,
   ``hostSubcomponent, ``hostPortSubcomponent, ``port, ``isDefaultPort, ``authority, ``str, ``humanRepr,
   ``rawPath, ``pathDecoded, ``pathSafe, ``queryPairs, ``queryString, ``pathQs, ``rawPathQs, ``fragmentDecoded,
   ``rawParts, ``partsDecoded, ``rawName, ``name, ``rawSuffix, ``suffix, ``rawSuffixes, ``suffixes,
   ``parent, ``origin, ``relative, ``eqKey, ``Url.truthy, ``Url.beq, ``Url.lt, ``Url.le, ``Url.gt, ``Url.ge]

/-- the functions of Url.lean with a `Url` argument that are NOT accessors: the restoring operation itself and the
    modifiers (a restored URL as their argument: `C09_modifiers_of_net`, `C09_join_twin`) -/
def R9.modifierFns : List Name :=
  [``pickleTwin, ``withScheme, ``withUser, ``withPassword, ``withHost, ``withPort, ``withPath, ``withQuery,
   ``extendQuery, ``updateQuery, ``withoutQueryParams, ``withFragment, ``withRawName, ``withName, ``withSuffix,
   ``makeChild, ``join]

private def R9.hasUrlArg (t : Expr) : Bool := Id.run do
  let mut t := t
  let mut found := false
  while t.isForall do
    if t.bindingDomain!.isConstOf ``Url then found := true
    t := t.bindingBody!
  return found

run_cmd do
  let env ← getEnv
  let some idx := env.getModuleIdx? `YarlModel.Url | throwError "module YarlModel.Url not found"
  let generated : List String :=
    ["casesOn", "recOn", "rec", "ctorIdx", "noConfusion", "noConfusionType", "decEq", "repr", "below", "brecOn"]
  let mut unclassified : Array Name := #[]
  for (n, ci) in env.constants.map₁.toList do
    if env.getModuleIdxFor? n == some idx then
      if n.isInternal || n.isInternalDetail || env.isProjectionFn n then continue
      if generated.contains n.getString! then continue
      if let .defnInfo _ := ci then
        if R9.hasUrlArg ci.type && !(R9.accessorFns.contains n) && !(R9.modifierFns.contains n) then
          unclassified := unclassified.push n
  unless unclassified.isEmpty do
    throwError "C09More: functions of YarlModel/Url.lean not classified as accessor or modifier: {unclassified}"
  -- every accessor function occurs in `Acc9.read`
  let some rd := env.find? ``Acc9.read | throwError "Acc9.read not found"
  let used := rd.value!.getUsedConstants
  let missing := R9.accessorFns.filter (fun n => !used.contains n)
  unless missing.isEmpty do
    throwError "C09More: accessor functions missing from Acc9.read: {missing}"

end metaCheck

/-- two URLs no observer can tell apart: the same five stored strings and the same netloc data (cached or derived) -/
def Indist (e : Env) (v w : Url) : Prop := pickleTwin v = pickleTwin w ∧ net e v = net e w

/-- "the same value": equality — for a URL-valued accessor, the same error or indistinguishable URLs -/
def AccVal.Same (e : Env) : AccVal → AccVal → Prop
  | .url (.ok v), .url (.ok w) => Indist e v w
  | .url (.error x), .url (.error y) => x = y
  | .url _, _ => False
  | a, b => a = b

namespace R9

theorem indist_fields {e : Env} {v w : Url} (h : Indist e v w) :
    v.scheme = w.scheme ∧ v.netloc = w.netloc ∧ v.path = w.path ∧ v.query = w.query ∧ v.fragment = w.fragment := by
  have := h.1
  cases v; cases w
  simp only [pickleTwin, Url.mk.injEq] at this
  obtain ⟨a, b, c, d, f, _⟩ := this
  exact ⟨a, b, c, d, f⟩

theorem indist_refl (e : Env) (v : Url) : Indist e v v := ⟨rfl, rfl⟩

theorem indist_fromParts (e : Env) (a b c d f : Str) : Indist e (fromParts a b c d f) (fromParts a b c d f) :=
  indist_refl e _

theorem same_refl (e : Env) (x : AccVal) : AccVal.Same e x x := by
  cases x with
  | url r => cases r with
    | ok v => exact indist_refl e v
    | error err => rfl
  | _ => rfl

/-- an accessor that reads only the five stored strings -/
theorem twin_eq_of {α} (f : Url → α) (hf : ∀ u, f u = f (pickleTwin u)) {v w : Url}
    (h : pickleTwin v = pickleTwin w) : f v = f w := by
  rw [hf v, hf w, h]

end R9
open R9

/-- indistinguishable URLs agree on EVERY accessor (URL-valued results are indistinguishable again) -/
theorem C09_indist_every_accessor (e : Env) (v w : Url) (h : Indist e v w) (a : Acc9) :
    AccVal.Same e (a.read e v) (a.read e w) := by
  obtain ⟨hs, hn, hp, hq, hf⟩ := indist_fields h
  obtain ⟨b1, b2, b3, b4, b5, b6, b7, b8, b9, b10, b11, b12, b13, b14⟩ :=
    C09_accessors_of_parts_net e w v hs hn hp hq hf h.2
  have tw := h.1
  have pure1 : ∀ {α} (f : Url → α), (∀ u, f u = f (pickleTwin u)) → f v = f w := fun f hf => twin_eq_of f hf tw
  cases a with
  | scheme => show AccVal.str _ = AccVal.str _; rw [hs]
  | rawAuthority => show AccVal.str _ = AccVal.str _; rw [hn]
  | storedPath => show AccVal.str _ = AccVal.str _; rw [hp]
  | rawQueryString => show AccVal.str _ = AccVal.str _; rw [hq]
  | rawFragment => show AccVal.str _ = AccVal.str _; rw [hf]
  | parts => show AccVal.parts _ = AccVal.parts _; rw [pure1 Url.parts (fun _ => rfl)]
  | lazyNet => show AccVal.net _ = AccVal.net _; rw [tw]
  | net => show AccVal.net _ = AccVal.net _; rw [h.2]
  | rawUser => show AccVal.ostr _ = AccVal.ostr _; rw [b11]
  | rawPassword => show AccVal.ostr _ = AccVal.ostr _; rw [b12]
  | rawHost => show AccVal.ostr _ = AccVal.ostr _; rw [b13]
  | explicitPort => show AccVal.onat _ = AccVal.onat _; rw [b14]
  | user => show AccVal.ostr _ = AccVal.ostr _; rw [b8]
  | password => show AccVal.ostr _ = AccVal.ostr _; rw [b9]
  | host => show AccVal.ostr _ = AccVal.ostr _; rw [b2]
  | hostSubcomponent => show AccVal.ostr _ = AccVal.ostr _; rw [b3]
  | hostPortSubcomponent => show AccVal.ostr _ = AccVal.ostr _; rw [b4]
  | port => show AccVal.onat _ = AccVal.onat _; rw [b5]
  | isDefaultPort => show AccVal.bool _ = AccVal.bool _; rw [b6]
  | authority => show AccVal.str _ = AccVal.str _; rw [b7]
  | str => show AccVal.str _ = AccVal.str _; rw [b1]
  | humanRepr => show AccVal.str _ = AccVal.str _; rw [b10]
  | rawPath => show AccVal.str _ = AccVal.str _; rw [pure1 rawPath (fun _ => rfl)]
  | path => show AccVal.str _ = AccVal.str _; rw [pure1 (pathDecoded e) (fun _ => rfl)]
  | pathSafe => show AccVal.str _ = AccVal.str _; rw [pure1 (pathSafe e) (fun _ => rfl)]
  | query => show AccVal.pairs _ = AccVal.pairs _; rw [pure1 queryPairs (fun _ => rfl)]
  | queryString => show AccVal.str _ = AccVal.str _; rw [pure1 (queryString e) (fun _ => rfl)]
  | pathQs => show AccVal.str _ = AccVal.str _; rw [pure1 (pathQs e) (fun _ => rfl)]
  | rawPathQs => show AccVal.str _ = AccVal.str _; rw [pure1 rawPathQs (fun _ => rfl)]
  | fragment => show AccVal.str _ = AccVal.str _; rw [pure1 (fragmentDecoded e) (fun _ => rfl)]
  | rawParts => show AccVal.strs _ = AccVal.strs _; rw [pure1 rawParts (fun _ => rfl)]
  | partsDecoded => show AccVal.strs _ = AccVal.strs _; rw [pure1 (partsDecoded e) (fun _ => rfl)]
  | rawName => show AccVal.str _ = AccVal.str _; rw [pure1 rawName (fun _ => rfl)]
  | name => show AccVal.str _ = AccVal.str _; rw [pure1 (name e) (fun _ => rfl)]
  | rawSuffix => show AccVal.str _ = AccVal.str _; rw [pure1 rawSuffix (fun _ => rfl)]
  | suffix => show AccVal.str _ = AccVal.str _; rw [pure1 (suffix e) (fun _ => rfl)]
  | rawSuffixes => show AccVal.strs _ = AccVal.strs _; rw [pure1 rawSuffixes (fun _ => rfl)]
  | suffixes => show AccVal.strs _ = AccVal.strs _; rw [pure1 (suffixes e) (fun _ => rfl)]
  | eqKey => show AccVal.parts _ = AccVal.parts _; rw [pure1 eqKey (fun _ => rfl)]
  | truthy => show AccVal.bool _ = AccVal.bool _; rw [pure1 Url.truthy (fun _ => rfl)]
  | beqL o => show AccVal.bool _ = AccVal.bool _; rw [pure1 (fun u => u.beq o) (fun _ => rfl)]
  | beqR o => show AccVal.bool _ = AccVal.bool _; rw [pure1 (fun u => o.beq u) (fun _ => rfl)]
  | ltL o => show AccVal.bool _ = AccVal.bool _; rw [pure1 (fun u => u.lt o) (fun _ => rfl)]
  | ltR o => show AccVal.bool _ = AccVal.bool _; rw [pure1 (fun u => o.lt u) (fun _ => rfl)]
  | leL o => show AccVal.bool _ = AccVal.bool _; rw [pure1 (fun u => u.le o) (fun _ => rfl)]
  | leR o => show AccVal.bool _ = AccVal.bool _; rw [pure1 (fun u => o.le u) (fun _ => rfl)]
  | gtL o => show AccVal.bool _ = AccVal.bool _; rw [pure1 (fun u => u.gt o) (fun _ => rfl)]
  | gtR o => show AccVal.bool _ = AccVal.bool _; rw [pure1 (fun u => o.gt u) (fun _ => rfl)]
  | geL o => show AccVal.bool _ = AccVal.bool _; rw [pure1 (fun u => u.ge o) (fun _ => rfl)]
  | geR o => show AccVal.bool _ = AccVal.bool _; rw [pure1 (fun u => o.ge u) (fun _ => rfl)]
  | relative =>
    show AccVal.Same e (.url (relative v)) (.url (relative w))
    unfold relative
    rw [hn, hp, hq, hf]
    split
    · rfl
    · exact indist_refl e _
  | parent =>
    show Indist e (parent v) (parent w)
    unfold parent
    rw [hs, hn, hp, hq, hf]
    split
    · split
      · exact indist_refl e _
      · exact h
    · exact indist_refl e _
  | origin =>
    show AccVal.Same e (.url (origin e v)) (.url (origin e w))
    unfold origin
    rw [b3, b14, hs, hn, hp, hq, hf]
    split
    · rfl
    split
    · rfl
    split
    · cases hostSubcomponent e w with
      | error err => rfl
      | ok hh =>
        cases explicitPort e w with
        | error err => rfl
        | ok pp => exact indist_refl e _
    split
    · exact h
    · exact indist_refl e _

/-- GAPS 3 — ONE theorem over the complete accessor list: under the C09 guard, EVERY accessor returns the same value
    on the URL restored by pickle / copy / deepcopy (`pickleTwin u`: the eager cache is gone, everything is derived
    from the stored strings) as on the constructor result `u` (served from the eager cache). -/
theorem C09_every_accessor (e : Env) (s : Str) (u : Url) (hu : encodeUrl e s = .ok u) (hg : GoodAuthority e s)
    (a : Acc9) : AccVal.Same e (a.read e (pickleTwin u)) (a.read e u) :=
  C09_indist_every_accessor e (pickleTwin u) u ⟨rfl, (C09_pickle_lossless e s u hu hg).1⟩ a

/-- … and for the four eager entries themselves: what the lazy route derives IS the cache (`Acc9.lazyNet` vs `.net`) -/
theorem C09_eager_entries_are_lazy (e : Env) (s : Str) (u : Url) (hu : encodeUrl e s = .ok u) (hg : GoodAuthority e s) :
    u.pre = none ∨ Acc9.lazyNet.read e u = Acc9.net.read e u := by
  cases hpre : u.pre with
  | none => exact Or.inl rfl
  | some p =>
    right
    show AccVal.net _ = AccVal.net _
    rw [C09_eager_eq_lazy e s u p hu hpre hg]
    unfold net; rw [hpre]; rfl

/-! ## (b) the guard, derived from the authority TEXT of the input -/

/-- the authority text of the input as `split_url` cuts it: RFC 3986 Appendix B on the cleaned input -/
def ctorAuthorityText (s : Str) : Str := (Rfc.appendixB Gen.schemeChars (cleanUrl s)).authority

/-- the host text `split_netloc` cuts out of the authority `n` (brackets removed) -/
def hostText (n : Str) : Str := (hostPort (userSplit n).2.2).1

/-- `ipaddress` accepts the text as an IPv6 address -/
def isV6 (t : Str) : Bool :=
  match parseIP t with
  | some (.v6 _) => true
  | _ => false

/-- there is a user in front of the last '@' that the quoter does not drop (one character that is no lone surrogate) -/
def userWritten (n : Str) : Bool :=
  match (userSplit n).1 with
  | some u => u.any (fun c => !isSurrogate c)
  | none => false

/-- the decidable guard on the authority text `n`, all host kinds: a non-empty host text without '[' inside (reg-name
    in any letter case, trailing dots, IPv4, IPvFuture / other bracketed text, IDN) or an IPv6 literal before an
    optional `%zone`; an empty host needs a written user, a password or a port text -/
def AuthorityOK (n : Str) : Bool :=
  if (hostText n).isEmpty then userWritten n || (userSplit n).2.1.isSome || !(CtorMods.portText n).isEmpty
  else !mem 91 (hostText n) || isV6 (partition 37 (hostText n)).1

namespace R9

theorem splitUrl_netloc (o : Oracles) (s : Str) (pt : Parts) (h : splitUrl o s = .ok pt) :
    pt.netloc = ctorAuthorityText s := by
  rw [ParseLemmas.splitUrl_eq] at h
  unfold ParseLemmas.splitUrlNF at h
  simp only at h
  split at h
  · cases h
  · split at h
    · cases h
    · cases h; rfl

/-- what `split_netloc` returns, in terms of the text -/
theorem splitNetloc_text (o : Oracles) (n : Str) (np : NetlocParts) (h : splitNetloc o n = .ok np) :
    np.user = (userSplit n).1.bind orNone ∧ np.password = (userSplit n).2.1 ∧ np.host = orNone (hostText n) ∧
    (CtorMods.portText n = [] → np.port = none) ∧ (CtorMods.portText n ≠ [] → np.port ≠ none) := by
  have hp := CtorMods.splitNetloc_port_text o n np h
  have h' := h
  rw [ParseLemmas.splitNetloc_eq] at h'
  obtain ⟨a, b, _⟩ := ParseLemmas.netlocRest_shape _ _ _ _ _ _ h'
  rw [NetlocLemmas.splitNetloc_eq] at h
  refine ⟨a, b, StrTotal.finish_host _ _ _ _ _ h, hp.1, fun hne => ?_⟩
  obtain ⟨p, _, _, _, hpp⟩ := hp.2 hne
  rw [hpp]; simp

theorem isV6_spec {t : Str} (h : isV6 t = true) : ∃ h8, parseIP t = some (.v6 h8) := by
  unfold isV6 at h
  split at h
  · rename_i h8 hp; exact ⟨h8, hp⟩
  · cases h

theorem isV6_of {t : Str} {h8 : List Nat} (h : parseIP t = some (.v6 h8)) : isV6 t = true := by
  unfold isV6; rw [h]

theorem orNone_nil : orNone [] = none := rfl
theorem orNone_ne {x : Str} (h : x ≠ []) : orNone x = some x := by
  cases x with
  | nil => exact absurd rfl h
  | cons _ _ => rfl

theorem isEmpty_iff {x : Str} : x.isEmpty = true ↔ x = [] := by cases x <;> simp

end R9

/-- GAPS 1 — the guard from the INPUT TEXT.  A Python-string input whose authority text satisfies the decidable
    predicate `AuthorityOK` is inside `GoodAuthority`, for every host kind at once; the only non-syntactic hypothesis
    is the trusted-base assumption `IdnaSaneAt` for a NON-ASCII host text (vacuous for ASCII hosts). -/
theorem C09_good_authority_of_input (e : Env) (s : Str)
    (hs : PyStr s)                                            -- the input is a Python string
    (hok : AuthorityOK (ctorAuthorityText s) = true)              -- decidable, on the authority text
    (hidn : isAscii (hostText (ctorAuthorityText s)) = false →    -- ASSUMPTION about the idna package (IDN hosts only)
      IdnaSaneAt e.o (hostText (ctorAuthorityText s))) :
    GoodAuthority e s := by
  intro pt np h1 h2
  have hn := splitUrl_netloc e.o s pt h1
  have hpy := (WfLemmas.splitNetloc_pyStr e.o pt.netloc (WfLemmas.splitUrl_pyStr e.o s hs pt h1).1 np h2).1
  rw [hn] at h2
  obtain ⟨hu, hp, hh, hp0, hp1⟩ := splitNetloc_text e.o _ np h2
  refine ⟨hpy, ?_⟩
  unfold AuthorityOK at hok
  split at hok
  · rename_i hemp
    rw [isEmpty_iff.mp hemp, orNone_nil] at hh
    rw [hh]
    simp only [Bool.or_eq_true] at hok
    rcases hok with (hw | hw) | hw
    · left
      unfold userWritten at hw
      split at hw
      · rename_i u hus
        obtain ⟨c, hc, hcs⟩ := List.any_eq_true.mp hw
        have hne : u ≠ [] := by intro h0; rw [h0] at hc; cases hc
        rw [hus] at hu
        have hu' : np.user = some u := by rw [hu]; exact orNone_ne hne
        exact ⟨u, hu', requoter_ne_nil e u (hpy u hu') ⟨c, hc, by simpa using hcs⟩⟩
      · cases hw
    · right; left
      rw [hp]
      cases hpw : (userSplit (ctorAuthorityText s)).2.1 with
      | none => rw [hpw] at hw; cases hw
      | some x => simp
    · right; right
      apply hp1
      intro h0; rw [h0] at hw; simp at hw
  · rename_i hemp
    have hne : hostText (ctorAuthorityText s) ≠ [] := fun h0 => hemp (by rw [h0]; rfl)
    rw [orNone_ne hne] at hh
    rw [hh]
    simp only [Bool.or_eq_true, Bool.not_eq_true'] at hok
    rcases hok with h91 | h6
    · have h91' : 91 ∉ hostText (ctorAuthorityText s) := mem_false_iff.mp h91
      cases ha : isAscii (hostText (ctorAuthorityText s)) with
      | true => exact C09_good_host_ascii e.o _ ha h91'
      | false => exact C09_idn_good_host e.o _ h91' (hidn ha)
    · exact Or.inr (isV6_spec h6)

/-! ## (c) the exact boundary between eager = lazy and eager ≠ lazy -/

/-- every character after the first is '[' (at least one), or the text is "[": the only malformed-bracket host texts
    for which the eager `raw_host` (first and last character stripped) and the lazy one (the text after the first
    '[') coincide -/
def OddHost (w : Str) : Bool :=
  match w with
  | [] => false
  | c :: t => if c = 91 then t.isEmpty else !t.isEmpty && t.all (· == 91)

/-- the EXACT decidable predicate on the authority text `n` (ASCII host text): eager = lazy iff `AgreeB n` -/
def AgreeB (n : Str) : Bool :=
  if (hostText n).isEmpty then
    mem 91 (userSplit n).2.2 || userWritten n || (userSplit n).2.1.isSome || !(CtorMods.portText n).isEmpty
  else !mem 91 (hostText n) || isV6 (partition 37 (hostText n)).1 ||
    ((CtorMods.portText n).isEmpty && OddHost (hostText n))

namespace R9

theorem partition_cons_ne (c x : Nat) (xs : Str) (h : x ≠ c) :
    partition c (x :: xs) = (x :: (partition c xs).1, (partition c xs).2.1, (partition c xs).2.2) := by
  simp only [partition, h, ↓reduceIte]

theorem partition_cons_eq (c : Nat) (xs : Str) : partition c (c :: xs) = ([], true, xs) := by
  simp only [partition, ↓reduceIte]

theorem partition_snd_len (c : Nat) (s : Str) : (partition c s).2.2.length ≤ s.length := by
  induction s with
  | nil => simp [partition]
  | cons x xs ih =>
    by_cases h : x = c
    · subst h; simp [partition]
    · rw [partition_cons_ne c x xs h]; simp only [List.length_cons]; omega

theorem partition_snd_len_lt (c : Nat) (s : Str) (h : c ∈ s) : (partition c s).2.2.length < s.length := by
  induction s with
  | nil => cases h
  | cons x xs ih =>
    by_cases hx : x = c
    · subst hx; simp [partition]
    · rw [partition_cons_ne c x xs hx]
      have := partition_snd_len c xs
      simp only [List.length_cons]
      omega

/-- `t = ('[' :: t).dropLast` iff `t` consists of '[' only -/
theorem shift_iff (t : Str) : t = (91 :: t).dropLast ↔ t.all (· == 91) = true := by
  induction t with
  | nil => simp
  | cons x t ih =>
    simp only [List.dropLast_cons_cons, List.cons.injEq, List.all_cons, Bool.and_eq_true, beq_iff_eq]
    constructor
    · rintro ⟨hx, ht⟩; subst hx; exact ⟨rfl, ih.mp ht⟩
    · rintro ⟨hx, ht⟩; subst hx; exact ⟨rfl, ih.mpr ht⟩

theorem tail_iff (t : Str) (h91 : 91 ∈ t) : (partition 91 t).2.2 = t.dropLast ↔ t.all (· == 91) = true := by
  cases t with
  | nil => cases h91
  | cons d t' =>
    by_cases hd : d = 91
    · subst hd
      simp only [partition, ↓reduceIte, List.all_cons, beq_self_eq_true, Bool.true_and]
      exact shift_iff t'
    · have h91' : 91 ∈ t' := by
        rcases List.mem_cons.mp h91 with h | h
        · exact absurd h.symm hd
        · exact h
      have hl := partition_snd_len_lt 91 t' h91'
      rw [partition_cons_ne 91 d t' hd]
      simp only [List.all_cons, Bool.and_eq_true, beq_iff_eq, hd, false_and, iff_false]
      intro heq
      have := congrArg List.length heq
      simp at this
      omega

theorem odd_iff (w : Str) (h91 : 91 ∈ w) : (partition 91 w).2.2 = (w.drop 1).dropLast ↔ OddHost w = true := by
  cases w with
  | nil => cases h91
  | cons c t =>
    by_cases hc : c = 91
    · subst hc
      simp only [partition, ↓reduceIte, List.drop_succ_cons, List.drop_zero, OddHost]
      constructor
      · intro h
        have := congrArg List.length h
        cases t with
        | nil => rfl
        | cons _ _ => simp at this
      · intro h
        cases t with
        | nil => rfl
        | cons _ _ => simp at h
    · have h91' : 91 ∈ t := by
        rcases List.mem_cons.mp h91 with h | h
        · exact absurd h.symm hc
        · exact h
      have hne : t.isEmpty = false := by cases t with
        | nil => cases h91'
        | cons _ _ => rfl
      rw [partition_cons_ne 91 c t hc]
      simp only [hc, ↓reduceIte, List.drop_succ_cons, List.drop_zero, OddHost, hne, Bool.not_false,
        Bool.true_and]
      exact tail_iff t h91'

theorem lowerC_91 (c : Nat) : lowerC c = 91 ↔ c = 91 := by unfold lowerC; split <;> omega

theorem oddHost_lower (w : Str) : OddHost (lower w) = OddHost w := by
  cases w with
  | nil => rfl
  | cons c t =>
    have hall : (lower t).all (· == 91) = t.all (· == 91) := by
      unfold lower
      rw [List.all_map]
      congr 1
      funext x
      show (lowerC x == 91) = (x == 91)
      by_cases hx : x = 91
      · subst hx; rfl
      · have : lowerC x ≠ 91 := fun h => hx ((lowerC_91 x).mp h)
        rw [beq_eq_false_iff_ne.mpr this, beq_eq_false_iff_ne.mpr hx]
    have hemp : (lower t).isEmpty = t.isEmpty := by cases t <;> rfl
    show OddHost (lowerC c :: lower t) = _
    unfold OddHost
    by_cases hc : c = 91
    · subst hc; simp [lowerC, hemp]
    · have : lowerC c ≠ 91 := fun h => hc ((lowerC_91 c).mp h)
      simp [hc, this, hemp, hall]

end R9

namespace R9

/-- a user made of lone surrogates only requotes to "" -/
theorem requoter_nil (e : Env) (s : Str) (hs : PyStr s) (hx : ∀ c ∈ s, isSurrogate c = true) :
    q e Gen.REQUOTER s = [] := by
  unfold q
  rw [QsLemmas.run_eq_cOut _ requoter_mem e.b s hs]
  have : stripSurr s = [] := by
    unfold stripSurr
    rw [List.filter_eq_nil_iff]
    intro c hc
    simp [hx c hc]
  rw [this, cOut]

/-- the user the constructor caches, from the text -/
theorem cachedUser_written (e : Env) (n : Str) (hpy : ∀ x, (userSplit n).1.bind orNone = some x → PyStr x) :
    cachedUser e ((userSplit n).1.bind orNone) ≠ none ↔ userWritten n = true := by
  unfold userWritten
  cases hus : (userSplit n).1 with
  | none => simp [cachedUser, requoteOpt]
  | some u =>
    rw [hus] at hpy
    simp only [Option.bind_some]
    by_cases hne : u = []
    · subst hne; simp [orNone, cachedUser, requoteOpt]
    · simp only [Option.bind_some] at hpy
      rw [orNone_ne hne] at hpy ⊢
      have hp := hpy u rfl
      constructor
      · intro h
        rw [List.any_eq_true]
        apply Classical.byContradiction
        intro hno
        apply h
        apply cachedUser_none.mpr
        right; right
        refine ⟨u, rfl, requoter_nil e u hp ?_⟩
        intro c hc
        cases hsu : isSurrogate c with
        | true => rfl
        | false => exact absurd ⟨c, hc, by simp [hsu]⟩ hno
      · intro h
        obtain ⟨c, hc, hcs⟩ := List.any_eq_true.mp h
        have hq := requoter_ne_nil e u hp ⟨c, hc, by simpa using hcs⟩
        intro hnone
        rcases cachedUser_none.mp hnone with h0 | h0 | ⟨x, hx, hxq⟩
        · cases h0
        · cases h0; exact hne rfl
        · cases hx; exact hq hxq

/-- what `encode_url` stores and caches for a non-empty input authority -/
theorem ctor_out (e : Env) (s : Str) (u : Url) (p : NetPre) (pt : Parts)
    (hu : encodeUrl e s = .ok u) (hpre : u.pre = some p) (hpt : splitUrl e.o s = .ok pt) :
    ∃ np host0 host1, splitNetloc e.o pt.netloc = .ok np ∧ hostOr pt.scheme np.host = .ok host0 ∧
      encodeHost e.o host0 false = .ok host1 ∧
      u.netloc = makeNetloc (q e Gen.QUOTER) (cachedUser e np.user) (requoteOpt e np.password)
        (some (StrTotal.rebracket (mem 91 (rpartition 64 pt.netloc).2.2) host1)) np.port false ∧
      p = { rawHost := some (unbracket (StrTotal.rebracket (mem 91 (rpartition 64 pt.netloc).2.2) host1)),
            explicitPort := np.port, rawUser := cachedUser e np.user, rawPassword := requoteOpt e np.password } := by
  rw [encodeUrl_eq] at hu
  rw [hpt] at hu
  simp only [bind, Except.bind] at hu
  cases hab : authBlock e pt with
  | error err => simp only [hab] at hu; cases hu
  | ok x =>
    obtain ⟨netloc, pre⟩ := x
    simp only [hab, pure, Except.pure, Except.ok.injEq] at hu
    subst hu
    have hp : pre = some p := hpre
    subst hp
    unfold authBlock at hab
    split at hab
    · cases hab
    rename_i hne
    have hne' : pt.netloc ≠ [] := by intro h; rw [h] at hne; exact hne rfl
    rw [authSplit_eq _ _ hne'] at hab
    obtain ⟨np, hnp, hab⟩ := WfLemmas.bind_ok hab
    obtain ⟨host0, h0, hab⟩ := WfLemmas.bind_ok hab
    obtain ⟨host1, h1, hab⟩ := WfLemmas.bind_ok hab
    change eagerOut e np (StrTotal.rebracket (mem 91 (rpartition 64 pt.netloc).2.2) host1) = _ at hab
    simp only [eagerOut_eq, Except.ok.injEq, Prod.mk.injEq, Option.some.injEq] at hab
    exact ⟨np, host0, host1, hnp, h0, h1, hab.1.symm, hab.2.symm⟩

/-- `split_netloc (make_netloc …)`: the userinfo half always reads back; what is left is the host/port half -/
theorem split_written (o : Oracles) (qf : Str → Str) (user pw : Option Str) (w : Str) (port : Option Nat)
    (hu : UserOK user) (h64 : 64 ∉ w) :
    ∃ U : Option Str, U.bind orNone = user ∧
      splitNetloc o (makeNetloc qf user pw (some w) port false) = finish o U pw (hostPortStr w port) := by
  have hret := StrTotal.notMem_hostPortStr_written port h64
  rw [NetlocLemmas.splitNetloc_eq, makeNetloc_eq]
  cases user with
  | none =>
    cases pw with
    | none => exact ⟨none, rfl, by simp only [userSplit_noAt _ hret]⟩
    | some x =>
      have e1 : (none : Option Str).getD [] ++ 58 :: x ++ 64 :: hostPortStr w port
          = (58 :: x) ++ 64 :: hostPortStr w port := by simp
      refine ⟨some [], rfl, ?_⟩
      simp only [e1, userSplit_at _ _ hret]
      simp [partition]
  | some u =>
    have ⟨hne, h58⟩ := hu u rfl
    have hemp : u.isEmpty = false := by cases u with
      | nil => exact absurd rfl hne
      | cons _ _ => rfl
    have hor : orNone u = some u := by simp [orNone, hemp]
    cases pw with
    | none =>
      refine ⟨some u, hor, ?_⟩
      simp only [hemp, Bool.false_eq_true, if_false]
      rw [userSplit_at u _ hret]
      simp only [partition_notFound 58 u h58]
      simp
    | some x =>
      have e1 : (some u).getD [] ++ 58 :: x ++ 64 :: hostPortStr w port
          = (u ++ 58 :: x) ++ 64 :: hostPortStr w port := by simp
      refine ⟨some u, hor, ?_⟩
      simp only [e1, userSplit_at _ _ hret, partition_found 58 u x h58]
      simp

/-- the port text `make_netloc` writes -/
def portTail (port : Option Nat) : Str :=
  match port with
  | none => []
  | some p => 58 :: natToStr p

theorem hostPortStr_tail (w : Str) (port : Option Nat) : hostPortStr w port = w ++ portTail port := by
  cases port <;> simp [hostPortStr, portTail]

/-- an opening bracket that is never closed swallows the port: host = everything after it, no port -/
theorem finish_open (o : Oracles) (U P : Option Str) (w : Str) (port : Option Nat) (h91 : 91 ∈ w) (h93 : 93 ∉ w) :
    finish o U P (hostPortStr w port) =
      .ok { user := U.bind orNone, password := P, host := orNone ((partition 91 w).2.2 ++ portTail port),
            port := none } := by
  rw [hostPortStr_tail]
  have r93 : 93 ∉ portTail port := by
    cases port with
    | none => simp [portTail]
    | some p =>
      have := notMem_digits (natToStrAux_digits p p).2 93 (by omega)
      simp only [portTail, List.mem_cons, not_or]
      exact ⟨by decide, this⟩
  obtain ⟨a, b, hab, ha⟩ := StrTotal.split_first h91
  have e2 : mem 91 (w ++ portTail port) = true := mem_iff.mpr (by simp [h91])
  have e3 : partition 91 (w ++ portTail port) = (a, true, b ++ portTail port) := by
    rw [hab]
    have := partition_found 91 a (b ++ portTail port) ha
    simpa using this
  have e3' : (partition 91 w).2.2 = b := by
    rw [hab]
    have := partition_found 91 a b ha
    rw [this]
  have b93 : 93 ∉ b := fun hm => h93 (by rw [hab]; simp [hm])
  have e4 : partition 93 (b ++ portTail port) = (b ++ portTail port, false, []) :=
    partition_notFound 93 (b ++ portTail port) (by simp [b93, r93])
  have hp : hostPort (w ++ portTail port) = (b ++ portTail port, []) := by
    unfold hostPort
    simp [e2, e3, e4, partition]
  unfold finish
  rw [hp, e3']
  rfl

end R9

namespace R9

theorem unbracket_rebracket_nil (b : Bool) : unbracket (StrTotal.rebracket b []) = [] := by
  cases b <;> rfl

theorem lazyNet_eq (e : Env) (v : Url) (np : NetlocParts) (h : splitNetloc e.o v.netloc = .ok np) :
    lazyNet e v = .ok { rawHost := (match np.host with
                                    | none => if v.netloc.isEmpty then none else some []
                                    | some h => some h),
                        explicitPort := np.port, rawUser := np.user, rawPassword := np.password } := by
  unfold lazyNet
  rw [h]
  rfl

/-- the empty-host case: eager `raw_host` is "", the lazy one is "" iff the stored netloc is not empty -/
theorem iff_empty_host (e : Env) (v : Url) (b : Bool) (cu rp : Option Str) (port : Option Nat)
    (hUser : UserOK cu) (hport : ∀ p, port = some p → p ≤ 65535)
    (hnl : v.netloc = makeNetloc (q e Gen.QUOTER) cu rp (some (StrTotal.rebracket b [])) port false) :
    lazyNet e v = .ok { rawHost := some (unbracket (StrTotal.rebracket b [])), explicitPort := port,
                        rawUser := cu, rawPassword := rp } ↔
      (b = true ∨ cu ≠ none ∨ rp ≠ none ∨ port ≠ none) := by
  have hrt := roundtrip_reads e.o (q e Gen.QUOTER) cu rp _ [] port hUser (nil_reads b) hport
  rw [← hnl] at hrt
  rw [lazyNet_eq e v _ hrt, unbracket_rebracket_nil]
  simp only [orNone_nil, Except.ok.injEq, NetPre.mk.injEq, and_true]
  constructor
  · intro h
    apply Classical.byContradiction
    intro hno
    simp only [not_or, Decidable.not_not, Bool.not_eq_true] at hno
    obtain ⟨hb, hc, hr, hp⟩ := hno
    subst hb hc hr hp
    have : v.netloc = [] := by rw [hnl]; rfl
    rw [this] at h
    simp at h
  · intro h
    have hne : v.netloc ≠ [] := by
      rw [hnl]
      cases b with
      | true =>
        apply makeNetloc_ne_nil_written
        simp [StrTotal.rebracket, mem]
      | false =>
        have : StrTotal.rebracket false [] = [] := by simp [StrTotal.rebracket]
        rw [this]
        apply makeNetloc_nil_host_ne_nil _ _ _ _ hUser
        rcases h with h | h | h | h
        · cases h
        · exact Or.inl h
        · exact Or.inr (Or.inl h)
        · exact Or.inr (Or.inr h)
    rw [isEmpty_false hne]
    rfl

/-- the malformed-bracket case: the written host text `w` has a '[' and no ']' -/
theorem iff_open_host (e : Env) (v : Url) (w : Str) (cu rp : Option Str) (port : Option Nat)
    (hUser : UserOK cu) (h64 : 64 ∉ w) (h91 : 91 ∈ w) (h93 : 93 ∉ w)
    (hnl : v.netloc = makeNetloc (q e Gen.QUOTER) cu rp (some w) port false) :
    lazyNet e v = .ok { rawHost := some (unbracket w), explicitPort := port, rawUser := cu, rawPassword := rp } ↔
      (port = none ∧ OddHost w = true) := by
  obtain ⟨U, hU, hsp⟩ := split_written e.o (q e Gen.QUOTER) cu rp w port hUser h64
  rw [finish_open e.o U rp w port h91 h93, hU, ← hnl] at hsp
  have hwne : w ≠ [] := by intro h0; rw [h0] at h91; cases h91
  have hne : v.netloc ≠ [] := by rw [hnl]; exact makeNetloc_ne_nil_written _ _ _ hwne _
  have hub : unbracket w = (w.drop 1).dropLast := by
    unfold unbracket; rw [mem_iff.mpr h91]; rfl
  rw [lazyNet_eq e v _ hsp, hub]
  have hhost : (match orNone ((partition 91 w).2.2 ++ portTail port) with
      | none => if v.netloc.isEmpty then none else some []
      | some h => some h) = some ((partition 91 w).2.2 ++ portTail port) := by
    cases hx : (partition 91 w).2.2 ++ portTail port with
    | nil => simp [orNone, isEmpty_false hne]
    | cons c t => simp [orNone]
  simp only [hhost, Except.ok.injEq, NetPre.mk.injEq, Option.some.injEq, and_true]
  cases port with
  | none =>
    simp only [portTail, List.append_nil, true_and, and_true]
    exact odd_iff w h91
  | some p => simp

end R9

/-- GAPS 2 / 7 — THE EXACT BOUNDARY.  For a Python-string input the constructor accepts and whose host text (as
    `split_netloc` cuts it out of the authority) is ASCII: the four eager cache entries are what the lazy route derives
    from the stored netloc IF AND ONLY IF the decidable predicate `AgreeB` holds of the authority text.  (Non-ASCII
    host texts go through the IDNA oracle: `C09_headline_idn_guard`, `C09_headline_idn_fails_for_insane_answer`.) -/
theorem C09_eager_lazy_iff (e : Env) (s : Str) (u : Url) (p : NetPre)
    (hs : PyStr s) (hu : encodeUrl e s = .ok u) (hpre : u.pre = some p)
    (hascii : isAscii (hostText (ctorAuthorityText s)) = true) :
    lazyNet e (pickleTwin u) = .ok p ↔ AgreeB (ctorAuthorityText s) = true := by
  have hpt : ∃ pt, splitUrl e.o s = .ok pt := by
    rw [encodeUrl_eq] at hu
    obtain ⟨pt, hpt, _⟩ := WfLemmas.bind_ok hu
    exact ⟨pt, hpt⟩
  obtain ⟨pt, hpt⟩ := hpt
  have hn := splitUrl_netloc e.o s pt hpt
  obtain ⟨np, host0, host1, hnp, h0, h1, hnl, hp⟩ := ctor_out e s u p pt hu hpre hpt
  have hpy := (WfLemmas.splitNetloc_pyStr e.o pt.netloc (WfLemmas.splitUrl_pyStr e.o s hs pt hpt).1 np hnp).1
  have hnp' := hnp
  rw [hn] at hnp hnl hp
  generalize hnn : ctorAuthorityText s = n at *
  obtain ⟨tu, tp, th, tp0, tp1⟩ := splitNetloc_text e.o n np hnp
  have hUser : UserOK (cachedUser e np.user) := userOK_cached e np.user hpy
  have hport := fun p => NetlocLemmas.splitNetloc_port_range e.o _ np p hnp
  have hb : mem 91 (rpartition 64 n).2.2 = mem 91 (userSplit n).2.2 := by rw [StrTotal.userSplit_hostinfo_eq]
  have hnl' : (pickleTwin u).netloc = _ := hnl
  subst hp
  by_cases hemp : hostText n = []
  · -- (A) empty host
    rw [hemp, orNone_nil] at th
    rw [th] at h0
    have e0 : host0 = [] := by
      simp only [hostOr] at h0
      split at h0
      · cases h0
      · cases h0; rfl
    subst e0
    rw [encodeHost_nil] at h1
    cases h1
    rw [iff_empty_host e (pickleTwin u) _ _ _ _ hUser hport hnl']
    unfold AgreeB
    rw [hemp]
    simp only [List.isEmpty_nil, if_true, Bool.or_eq_true, Bool.not_eq_true', hb]
    have c1 : cachedUser e np.user ≠ none ↔ userWritten n = true := by
      rw [tu]; exact cachedUser_written e n (by rw [← tu]; exact hpy)
    have c2 : requoteOpt e np.password ≠ none ↔ (userSplit n).2.1.isSome = true := by
      rw [tp]; cases (userSplit n).2.1 <;> simp [requoteOpt]
    have c3 : np.port ≠ none ↔ (CtorMods.portText n).isEmpty = false := by
      constructor
      · intro h
        cases hpe : (CtorMods.portText n).isEmpty with
        | false => rfl
        | true => exact absurd (tp0 (isEmpty_iff.mp hpe)) h
      · intro h; apply tp1; intro h0'; rw [h0'] at h; cases h
    rw [c1, c2, c3]
    constructor
    · rintro (h | h | h | h)
      · exact Or.inl (Or.inl (Or.inl h))
      · exact Or.inl (Or.inl (Or.inr h))
      · exact Or.inl (Or.inr h)
      · exact Or.inr h
    · rintro (((h | h) | h) | h)
      · exact Or.inl h
      · exact Or.inr (Or.inl h)
      · exact Or.inr (Or.inr (Or.inl h))
      · exact Or.inr (Or.inr (Or.inr h))
  · -- non-empty host
    rw [orNone_ne hemp] at th
    rw [th] at h0
    have e0 : host0 = hostText n := by
      simp only [hostOr, pure, Except.pure, Except.ok.injEq] at h0; exact h0.symm
    subst e0
    have hempB : (hostText n).isEmpty = false := isEmpty_false hemp
    by_cases hgood : mem 91 (hostText n) = false ∨ isV6 (partition 37 (hostText n)).1 = true
    · -- inside the guard
      have hA : AgreeB n = true := by
        unfold AgreeB
        rw [hempB]
        simp only [Bool.false_eq_true, if_false, Bool.or_eq_true, Bool.not_eq_true']
        rcases hgood with h | h
        · exact Or.inl (Or.inl h)
        · exact Or.inl (Or.inr h)
      have hG : GoodHost e.o (hostText n) := by
        rcases hgood with h | h
        · exact C09_good_host_ascii e.o _ hascii (mem_false_iff.mp h)
        · exact Or.inr (isV6_spec h)
      have := C09_eager_eq_lazy e s u _ hu hpre
        (C09_good_authority_of e s pt np hpt hnp' ⟨hpy, by rw [th]; exact hG⟩)
      exact ⟨fun _ => hA, fun _ => this⟩
    · -- (B) a '[' inside the host text, no IPv6 literal
      simp only [not_or, Bool.not_eq_false, Bool.not_eq_true] at hgood
      obtain ⟨g91, g6⟩ := hgood
      have h91 : 91 ∈ hostText n := mem_iff.mp g91
      obtain ⟨_, h64, hB, hnB⟩ := StrTotal.splitNetloc_host_facts e.o n np _ hnp th
      have hbt : mem 91 (rpartition 64 n).2.2 = true := by
        cases hbb : mem 91 (rpartition 64 n).2.2 with
        | true => rfl
        | false => exact absurd h91 (hnB hbb).2
      have h93 := hB hbt
      have hcases : host1 = hostText n ∨ host1 = lower (hostText n) := by
        rcases StrTotal.encodeHost_false_cases e.o _ _ h1 with ⟨h8, hv6, _⟩ | ⟨hna, _⟩ | h | ⟨_, h⟩ | ⟨hna, _⟩
        · rw [isV6_of hv6] at g6; cases g6
        · rw [hascii] at hna; cases hna      -- the re-entry of fix 3fbf5b4 is for non-ASCII hosts only
        · exact Or.inl h
        · exact Or.inr h
        · rw [hascii] at hna; cases hna
      have k91 : 91 ∈ host1 := by
        rcases hcases with h | h
        · rw [h]; exact h91
        · rw [h]; exact (mem_lower' 91 (by omega) _).mpr h91
      have k93 : 93 ∉ host1 := by
        rcases hcases with h | h
        · rw [h]; exact h93
        · rw [h]; exact fun hm => h93 ((mem_lower' 93 (by omega) _).mp hm)
      have k64 : 64 ∉ host1 := by
        rcases hcases with h | h
        · rw [h]; exact h64
        · rw [h]; exact fun hm => h64 ((mem_lower' 64 (by omega) _).mp hm)
      have kodd : OddHost host1 = OddHost (hostText n) := by
        rcases hcases with h | h
        · rw [h]
        · rw [h]; exact oddHost_lower _
      have hw : StrTotal.rebracket (mem 91 (rpartition 64 n).2.2) host1 = host1 := by
        simp [StrTotal.rebracket, mem_iff.mpr k91]
      rw [hw] at hnl' ⊢
      rw [iff_open_host e (pickleTwin u) host1 _ _ _ hUser k64 k91 k93 hnl', kodd]
      unfold AgreeB
      rw [hempB]
      simp only [Bool.false_eq_true, if_false, g91, g6, Bool.not_true, Bool.or_false, Bool.false_or,
        Bool.and_eq_true]
      constructor
      · rintro ⟨hpn, ho⟩
        refine ⟨?_, ho⟩
        cases hpe : (CtorMods.portText n).isEmpty with
        | true => rfl
        | false =>
          exfalso
          exact tp1 (fun h0' => by rw [h0'] at hpe; cases hpe) hpn
      · rintro ⟨hpe, ho⟩
        exact ⟨tp0 (isEmpty_iff.mp hpe), ho⟩

/-! ### the two classes of disagreement, spelled out -/

/-- class (A), "the authority normalises to empty" (F-C09-empty-authority): empty host, no '[' , no written user
    (absent, "" or lone surrogates only), no password, no port text -/
def NormalisesToEmpty (n : Str) : Prop :=
  hostText n = [] ∧ mem 91 (userSplit n).2.2 = false ∧ userWritten n = false ∧ (userSplit n).2.1 = none ∧
  CtorMods.portText n = []

/-- class (B), "malformed brackets" (F-C09-bracket): a '[' inside the host text, which is no IPv6 literal — except the
    odd texts without port whose eager and lazy `raw_host` happen to coincide -/
def MalformedBrackets (n : Str) : Prop :=
  91 ∈ hostText n ∧ isV6 (partition 37 (hostText n)).1 = false ∧
  ¬ (CtorMods.portText n = [] ∧ OddHost (hostText n) = true)

instance (n : Str) : Decidable (NormalisesToEmpty n) := by unfold NormalisesToEmpty; infer_instance
instance (n : Str) : Decidable (MalformedBrackets n) := by unfold MalformedBrackets; infer_instance

theorem C09_agreeB_false_iff (n : Str) : AgreeB n = false ↔ NormalisesToEmpty n ∨ MalformedBrackets n := by
  unfold AgreeB NormalisesToEmpty MalformedBrackets
  by_cases hemp : hostText n = []
  · rw [hemp]
    simp only [List.isEmpty_nil, if_true, Bool.or_eq_false_iff, Bool.not_eq_false', true_and, List.not_mem_nil,
      false_and, or_false]
    constructor
    · rintro ⟨⟨⟨a, b⟩, c⟩, d⟩
      refine ⟨a, b, ?_, isEmpty_iff.mp d⟩
      cases hx : (userSplit n).2.1 with
      | none => rfl
      | some _ => rw [hx] at c; cases c
    · rintro ⟨a, b, c, d⟩
      refine ⟨⟨⟨a, b⟩, by rw [c]; rfl⟩, by rw [d]; rfl⟩
  · rw [isEmpty_false hemp]
    simp only [Bool.false_eq_true, if_false, Bool.or_eq_false_iff, Bool.not_eq_false', Bool.and_eq_false_iff,
      hemp, false_and, false_or]
    constructor
    · rintro ⟨⟨a, b⟩, c⟩
      refine ⟨mem_iff.mp a, b, ?_⟩
      rintro ⟨d, f⟩
      rcases c with c | c
      · rw [d] at c; cases c
      · rw [f] at c; cases c
    · rintro ⟨a, b, c⟩
      refine ⟨⟨mem_iff.mpr a, b⟩, ?_⟩
      cases hp : (CtorMods.portText n).isEmpty with
      | false => exact Or.inl rfl
      | true =>
        right
        cases ho : OddHost (hostText n) with
        | false => rfl
        | true => exact absurd ⟨isEmpty_iff.mp hp, ho⟩ c

/-- GAPS 2 / 7 as asked: eager ≠ lazy exactly for "normalises to empty" ∪ "malformed brackets" -/
theorem C09_eager_ne_lazy_iff (e : Env) (s : Str) (u : Url) (p : NetPre)
    (hs : PyStr s) (hu : encodeUrl e s = .ok u) (hpre : u.pre = some p)
    (hascii : isAscii (hostText (ctorAuthorityText s)) = true) :
    lazyNet e (pickleTwin u) ≠ .ok p ↔
      NormalisesToEmpty (ctorAuthorityText s) ∨ MalformedBrackets (ctorAuthorityText s) := by
  rw [← C09_agreeB_false_iff, ne_eq, C09_eager_lazy_iff e s u p hs hu hpre hascii]
  cases AgreeB (ctorAuthorityText s) <;> simp

/-- class (A) in closed form: among the authority texts without surrogates (all ASCII ones) exactly "@", ":" and "@:"
    — the spellings of F-C09-empty-authority; the only further members are `<lone surrogates>@` and `<lone surrogates>@:`
    (`C09_headline_fails_for_surrogate_user_empty_host`) -/
theorem C09_normalises_to_empty_ascii (n : Str) (hns : NoSurrogate n) (hne : n ≠ []) :
    NormalisesToEmpty n ↔ (n = "@".toStr ∨ n = ":".toStr ∨ n = "@:".toStr) := by
  constructor
  · rintro ⟨h1, h2, h3, h4, h5⟩
    -- the host/port half `hi` is "" or ":"
    have tail : ∀ hi : Str, mem 91 hi = false → (hostPort hi).1 = [] → (hostPort hi).2 = [] → hi = [] ∨ hi = [58] := by
      intro hi a b c
      unfold hostPort at b c
      simp only [a, Bool.false_eq_true, if_false] at b c
      have hj := partition_join 58 hi
      rw [b, c] at hj
      cases hf : (partition 58 hi).2.1 with
      | true => rw [hf] at hj; exact Or.inr (by simpa using hj)
      | false => rw [hf] at hj; exact Or.inl (by simpa using hj)
    by_cases h64 : 64 ∈ n
    · obtain ⟨hmem⟩ := ParseLemmas.rpartition_mem h64
      have hsplit : ∃ ui hi, n = ui ++ 64 :: hi ∧ 64 ∉ hi := by
        have := ParseLemmas.rpartition_mem h64
        exact ⟨(rpartition 64 n).1, (rpartition 64 n).2.2, by simpa using this.1, this.2⟩
      obtain ⟨ui, hi, hn, hhi⟩ := hsplit
      have hus := userSplit_at ui hi hhi
      rw [← hn] at hus
      unfold hostText at h1
      unfold CtorMods.portText at h5
      change (hostPort (userSplit n).2.2).2 = [] at h5
      unfold userWritten at h3
      rw [hus] at h1 h2 h3 h4 h5
      simp only at h1 h2 h3 h4 h5
      have hnf : (partition 58 ui).2.1 = false := by
        cases hf : (partition 58 ui).2.1 with
        | false => rfl
        | true => rw [hf] at h4; cases h4
      have hui : (partition 58 ui).1 = ui := by
        have := partition_join 58 ui
        rw [hnf] at this
        simpa using this.symm
      rw [hui] at h3
      have huinil : ui = [] := by
        cases ui with
        | nil => rfl
        | cons c t =>
          have hc : isSurrogate c = false := hns c (by rw [hn]; simp)
          simp [hc] at h3
      subst huinil
      rcases tail hi h2 h1 h5 with h | h
      · left; rw [hn, h]; rfl
      · right; right; rw [hn, h]; rfl
    · have hus := userSplit_noAt n h64
      unfold hostText at h1
      unfold CtorMods.portText at h5
      change (hostPort (userSplit n).2.2).2 = [] at h5
      rw [hus] at h1 h2 h5
      rcases tail n h2 h1 h5 with h | h
      · exact absurd h hne
      · right; left; rw [h]; rfl
  · rintro (h | h | h) <;> subst h <;> decide

/-- the guard `GoodAuthority` / `AuthorityOK` is SUFFICIENT for agreement … -/
theorem C09_authorityOK_agreeB (n : Str) (h : AuthorityOK n = true) : AgreeB n = true := by
  unfold AuthorityOK at h
  unfold AgreeB
  split
  · rename_i hemp
    rw [if_pos hemp] at h
    simp only [Bool.or_eq_true] at h ⊢
    rcases h with (h | h) | h
    · exact Or.inl (Or.inl (Or.inr h))
    · exact Or.inl (Or.inr h)
    · exact Or.inr h
  · rename_i hemp
    rw [if_neg hemp] at h
    simp only [Bool.or_eq_true] at h ⊢
    exact Or.inl h

/-- `AuthorityOK` is not only sufficient: on an input whose authority `split_netloc` accepts it IS the guard
    `GoodAuthority` (for a non-ASCII host: under the assumption `IdnaSaneAt`) — nothing is missing from (b). -/
theorem C09_good_authority_iff_input (e : Env) (s : Str) (hs : PyStr s) (pt : Parts) (np : NetlocParts)
    (hpt : splitUrl e.o s = .ok pt) (hnp : splitNetloc e.o pt.netloc = .ok np)   -- the input is accepted so far
    (hidn : isAscii (hostText (ctorAuthorityText s)) = false → IdnaSaneAt e.o (hostText (ctorAuthorityText s))) :
    GoodAuthority e s ↔ AuthorityOK (ctorAuthorityText s) = true := by
  refine ⟨fun hg => ?_, fun hok => C09_good_authority_of_input e s hs hok hidn⟩
  obtain ⟨hpy, hh⟩ := hg pt np hpt hnp
  rw [splitUrl_netloc e.o s pt hpt] at hnp
  obtain ⟨tu, tp, th, tp0, tp1⟩ := splitNetloc_text e.o _ np hnp
  unfold AuthorityOK
  by_cases hemp : hostText (ctorAuthorityText s) = []
  · rw [hemp] at th ⊢
    rw [orNone_nil] at th
    rw [th] at hh
    simp only [List.isEmpty_nil, if_true, Bool.or_eq_true, Bool.not_eq_true']
    rcases hh with ⟨x, hx, hq⟩ | h | h
    · left; left
      have hw := (cachedUser_written e (ctorAuthorityText s) (by rw [← tu]; exact hpy)).mp (by
        rw [← tu]
        intro hnone
        rcases cachedUser_none.mp hnone with h0 | h0 | ⟨y, hy, hyq⟩
        · rw [hx] at h0; cases h0
        · rw [hx] at h0; cases h0
          exact hq (requoter_nil e [] (by intro c hc; cases hc) (by intro c hc; cases hc))
        · rw [hx] at hy; cases hy; exact hq hyq)
      exact hw
    · left; right
      rw [tp] at h
      cases hx : (userSplit (ctorAuthorityText s)).2.1 with
      | none => exact absurd hx h
      | some _ => rfl
    · right
      cases hpe : (CtorMods.portText (ctorAuthorityText s)).isEmpty with
      | false => rfl
      | true => exact absurd (tp0 (isEmpty_iff.mp hpe)) h
  · rw [orNone_ne hemp] at th
    rw [th] at hh
    rw [isEmpty_false hemp]
    simp only [Bool.false_eq_true, if_false, Bool.or_eq_true, Bool.not_eq_true']
    rcases hh with ⟨h91, _⟩ | ⟨h8, hv6⟩
    · exact Or.inl (mem_false_iff.mpr h91)
    · exact Or.inr (isV6_of hv6)

/-- … but NOT necessary: "foo://[:[]/", "foo://[:[[]/" and "foo://[a:b]@[[]/" (host texts ":[", ":[[", "[") lie outside
    `GoodAuthority`, yet the eager entries are exactly what the restored URL derives.  (Malformed input that the bracket
    check of `split_url` lets through; no observable defect — the guard is merely not exact.  `AgreeB` is.) -/
theorem C09_guard_not_exact :
    ∀ s ∈ ["foo://[:[]/".toStr, "foo://[:[[]/".toStr, "foo://[a:b]@[[]/".toStr],
      ¬ GoodAuthority envPy s ∧ AuthorityOK (ctorAuthorityText s) = false ∧ AgreeB (ctorAuthorityText s) = true ∧
      ∃ u p, encodeUrl envPy s = .ok u ∧ u.pre = some p ∧ lazyNet envPy (pickleTwin u) = .ok p := by
  have key : ∀ s (u : Url) (p : NetPre) (pt : Parts) (np : NetlocParts) (h0 : Str),
      encodeUrl envPy s = .ok u → u.pre = some p → lazyNet envPy (pickleTwin u) = .ok p →
      splitUrl envPy.o s = .ok pt → splitNetloc envPy.o pt.netloc = .ok np → np.host = some h0 →
      91 ∈ h0 → parseIP (partition 37 h0).1 = none →
      ¬ GoodAuthority envPy s ∧ ∃ u p, encodeUrl envPy s = .ok u ∧ u.pre = some p ∧
        lazyNet envPy (pickleTwin u) = .ok p := by
    intro s u p pt np h0 a b c d f g h91 hip
    refine ⟨fun hg => ?_, u, p, a, b, c⟩
    have := (hg pt np d f).2
    rw [g] at this
    rcases this with ⟨hn, _⟩ | ⟨h8, h8'⟩
    · exact hn h91
    · rw [hip] at h8'; cases h8'
  intro s hs
  simp only [List.mem_cons, List.not_mem_nil, or_false] at hs
  rcases hs with rfl | rfl | rfl
  · obtain ⟨a, b⟩ := key "foo://[:[]/".toStr
      { scheme := "foo".toStr, netloc := ":[".toStr, path := "/".toStr, query := [], fragment := [],
        pre := some { rawHost := some [], explicitPort := none, rawUser := none, rawPassword := none } } _
      { scheme := "foo".toStr, netloc := "[:[]".toStr, path := "/".toStr, query := [], fragment := [] }
      { user := none, password := none, host := some ":[".toStr, port := none } ":[".toStr
      (by decide +kernel) rfl (by decide +kernel) (by decide +kernel) (by decide +kernel) rfl (by decide)
      (by decide +kernel)
    exact ⟨a, by decide +kernel, by decide +kernel, b⟩
  · obtain ⟨a, b⟩ := key "foo://[:[[]/".toStr
      { scheme := "foo".toStr, netloc := ":[[".toStr, path := "/".toStr, query := [], fragment := [],
        pre := some { rawHost := some [91], explicitPort := none, rawUser := none, rawPassword := none } } _
      { scheme := "foo".toStr, netloc := "[:[[]".toStr, path := "/".toStr, query := [], fragment := [] }
      { user := none, password := none, host := some ":[[".toStr, port := none } ":[[".toStr
      (by decide +kernel) rfl (by decide +kernel) (by decide +kernel) (by decide +kernel) rfl (by decide)
      (by decide +kernel)
    exact ⟨a, by decide +kernel, by decide +kernel, b⟩
  · obtain ⟨a, b⟩ := key "foo://[a:b]@[[]/".toStr
      { scheme := "foo".toStr, netloc := "%5Ba:b%5D@[".toStr, path := "/".toStr, query := [], fragment := [],
        pre := some { rawHost := some [], explicitPort := none, rawUser := some "%5Ba".toStr,
                      rawPassword := some "b%5D".toStr } } _
      { scheme := "foo".toStr, netloc := "[a:b]@[[]".toStr, path := "/".toStr, query := [], fragment := [] }
      { user := some "[a".toStr, password := some "b]".toStr, host := some "[".toStr, port := none } "[".toStr
      (by decide +kernel) rfl (by decide +kernel) (by decide +kernel) (by decide +kernel) rfl (by decide)
      (by decide +kernel)
    exact ⟨a, by decide +kernel, by decide +kernel, b⟩

/-! ### inputs WITHOUT an authority

  `GoodAuthority` is FALSE for an input without authority (its empty-host clause asks for a user, a password or a port),
  so `C09_headline_restored_string_form_and_accessors` / `C09_pickle_lossless` say nothing about "/path", "mailto:x" …
  — although nothing is cached for them and the restored URL IS the URL.  Closed here. -/

theorem C09_guard_false_without_authority : ¬ GoodAuthority envPy "/a?b#c".toStr := by
  intro hg
  have := (hg { scheme := [], netloc := [], path := "/a".toStr, query := "b".toStr, fragment := "c".toStr }
    { user := none, password := none, host := none, port := none } (by decide +kernel) (by decide +kernel)).2
  simp at this

/-- an input without authority: nothing is pre-computed, the restored URL is the URL itself -/
theorem C09_no_authority_twin (e : Env) (s : Str) (u : Url) (hu : encodeUrl e s = .ok u)
    (hn : ctorAuthorityText s = []) : u.pre = none ∧ pickleTwin u = u := by
  obtain ⟨pt, hpt, h0, _⟩ := CtorMods.encodeUrl_cache e s u hu
  have := (h0 (by rw [splitUrl_netloc e.o s pt hpt, hn])).2
  exact ⟨this, C09_twin_of_pre_none u this⟩

/-- the decidable guard on the INPUT: no authority at all, or an authority text with `AuthorityOK` -/
def InputOK (s : Str) : Bool := (ctorAuthorityText s).isEmpty || AuthorityOK (ctorAuthorityText s)

/-- C09, sentence 1 and 2, from the input text alone — every accepted Python-string input with `InputOK`, with or
    without authority: the eager entries are the lazy values, EVERY accessor of the restored URL returns the same
    value, the restored URL is `==` with the same hash key. -/
theorem C09_pickle_lossless_of_input (e : Env) (s : Str) (u : Url) (hs : PyStr s) (hu : encodeUrl e s = .ok u)
    (hok : InputOK s = true)
    (hidn : isAscii (hostText (ctorAuthorityText s)) = false → IdnaSaneAt e.o (hostText (ctorAuthorityText s))) :
    (∀ p, u.pre = some p → lazyNet e (pickleTwin u) = .ok p) ∧
    (∀ a : Acc9, AccVal.Same e (a.read e (pickleTwin u)) (a.read e u)) ∧
    (pickleTwin u).beq u = true ∧ eqKey (pickleTwin u) = eqKey u := by
  unfold InputOK at hok
  simp only [Bool.or_eq_true] at hok
  rcases hok with hok | hok
  · obtain ⟨h1, h2⟩ := C09_no_authority_twin e s u hu (isEmpty_iff.mp hok)
    refine ⟨fun p hp => (by rw [h1] at hp; cases hp), fun a => ?_, (C09_twin_parts u).2.2.1, rfl⟩
    rw [h2]; exact same_refl e _
  · have hg := C09_good_authority_of_input e s hs hok hidn
    exact ⟨fun p hp => C09_eager_eq_lazy e s u p hu hp hg, C09_every_accessor e s u hu hg,
      (C09_twin_parts u).2.2.1, rfl⟩

/-! ## non-vacuity and coverage -/
section checks

-- (b) the families named in GAPS 1, all through the ONE predicate (pure-Python backend, no oracle needed: ASCII hosts)
example : ∀ s ∈ ["HTTP://ExAmple.COM/p".toStr,                  -- upper-case reg-name
                 "http://example.com./".toStr,                   -- trailing dot
                 "http://u:p@1.2.3.4:8080/".toStr,               -- IPv4, userinfo, port
                 "http://Us:p%40w@[::1%eth0]:8080/".toStr,       -- IPv6 with zone, userinfo, port
                 "http://[::1%[x]:81/".toStr,                    -- IPv6, '[' in the zone
                 "http://u@[v1.A:b]:80/".toStr,                  -- IPvFuture
                 "http://[1.2.3.4%a:b]/".toStr,                  -- bracketed IPv4 with ':' in the zone
                 "foo://:80/".toStr, "//u@".toStr, "foo://:pw@/x".toStr,   -- empty host: port / user / password
                 "http://h: 80 /".toStr,                         -- liberal `int()` port text
                 "/a/b?x=1".toStr, "mailto:x@y".toStr],          -- no authority
    InputOK s = true := by decide +kernel

example : ∀ s ∈ ["HTTP://ExAmple.COM/p".toStr, "http://u:p@1.2.3.4:8080/".toStr, "foo://:80/".toStr],
    GoodAuthority envPy s :=
  fun s hs => C09_good_authority_of_input envPy s
    (by simp only [List.mem_cons, List.not_mem_nil, or_false] at hs; rcases hs with rfl | rfl | rfl <;> decide)
    (by simp only [List.mem_cons, List.not_mem_nil, or_false] at hs
        rcases hs with rfl | rfl | rfl <;> decide +kernel)
    (by simp only [List.mem_cons, List.not_mem_nil, or_false] at hs
        rcases hs with rfl | rfl | rfl <;> intro h <;> exact absurd h (by decide +kernel))

-- userinfo + IDN host + port together (compiled backend, the two-entry oracle table of C16Idn.lean)
private def eS : Env := { b := .c, o := C16_idn_sampleOracle }
private def sI : Str := "http://User:p%40w@".toStr ++ C16_idn_buecher ++ ":8080/a/b#f".toStr

example : InputOK sI = true ∧ hostText (ctorAuthorityText sI) = C16_idn_buecher ∧
    isAscii (hostText (ctorAuthorityText sI)) = false := by decide +kernel

example : GoodAuthority eS sI :=
  C09_good_authority_of_input eS sI (by decide) (by decide +kernel) (fun ha => C16_idn_sane_satisfiable.1.at ha)

example : eagerLazy eS sI = .ok ("User:p%40w@xn--bcher-kva:8080".toStr,
    some { rawHost := some "xn--bcher-kva".toStr, explicitPort := some 8080, rawUser := some "User".toStr,
           rawPassword := some "p%40w".toStr },
    .ok { rawHost := some "xn--bcher-kva".toStr, explicitPort := some 8080, rawUser := some "User".toStr,
          rawPassword := some "p%40w".toStr }) := by decide +kernel

-- the ONE theorem over the accessor list, applied: `str()` and `origin()` of the restored URL
example (u : Url) (hu : encodeUrl eS sI = .ok u) :
    str eS (pickleTwin u) = str eS u ∧
    AccVal.Same eS (.url (origin eS (pickleTwin u))) (.url (origin eS u)) := by
  have h := (C09_pickle_lossless_of_input eS sI u (by decide) hu (by decide +kernel)
    (fun ha => C16_idn_sane_satisfiable.1.at ha)).2.1
  have h1 := h .str
  have h2 := h .origin
  exact ⟨by simpa [Acc9.read, AccVal.Same] using h1, h2⟩

-- (c) the boundary, both sides, through `C09_eager_lazy_iff`
example : AgreeB (ctorAuthorityText "http://[[::1]/".toStr) = false ∧ MalformedBrackets (ctorAuthorityText "http://[[::1]/".toStr) ∧
    AgreeB (ctorAuthorityText "//@:?#".toStr) = false ∧ NormalisesToEmpty (ctorAuthorityText "//@:?#".toStr) ∧
    AgreeB (ctorAuthorityText ("foo://".toStr ++ [0xDC80] ++ "@/x".toStr)) = false ∧
    NormalisesToEmpty (ctorAuthorityText ("foo://".toStr ++ [0xDC80] ++ "@/x".toStr)) ∧
    AgreeB (ctorAuthorityText ("http://".toStr ++ [0xDC80] ++ "@host/".toStr)) = true ∧
    AgreeB (ctorAuthorityText "http://x[::1]/".toStr) = true ∧ AgreeB (ctorAuthorityText "http://[::1]x/".toStr) = true ∧
    AgreeB (ctorAuthorityText "foo://[x:[]:80/".toStr) = false ∧ AgreeB (ctorAuthorityText "foo://[A:[]/".toStr) = false := by
  decide +kernel

example (u : Url) (p : NetPre) (hu : encodeUrl envPy "http://[[::1]/".toStr = .ok u) (hp : u.pre = some p) :
    lazyNet envPy (pickleTwin u) ≠ .ok p :=
  (C09_eager_ne_lazy_iff envPy _ u p (by decide) hu hp (by decide +kernel)).mpr (Or.inr (by decide +kernel))

example (u : Url) (p : NetPre) (hu : encodeUrl envPy "foo://[:[]/".toStr = .ok u) (hp : u.pre = some p) :
    lazyNet envPy (pickleTwin u) = .ok p :=
  (C09_eager_lazy_iff envPy _ u p (by decide) hu hp (by decide +kernel)).mpr (by decide +kernel)

example : NoSurrogate "@:".toStr ∧ NormalisesToEmpty "@:".toStr := by decide

end checks

end Yarl
