import YarlProofs.C19Headline
import YarlProofs.C19Dyn
import YarlProofs.C19ReachE
/-!
  C19HeadlineMore3.lean — AUDIT LAYER for property C19, continuation of C19Headline.lean (the theorems here need
  C19Dyn.lean and C19ReachE.lean, written after C19Headline.lean; this file is a leaf, nobody imports it).

  C19 | Failures are reported only as ValueError/TypeError; nothing crashes |
  "Given arguments of the documented types, every public entry point either returns or raises ValueError
  (malformed value, including IDNA errors) or TypeError (wrong type); it never leaks IndexError, KeyError,
  AttributeError, RecursionError, AssertionError or any other exception type, and an object that build() or
  a modifier returned can always be turned into a string. If memory allocation fails inside the compiled
  quoter the call raises MemoryError, nothing is corrupted and later calls return correct results."

  What is here.
  * PART A (GAPS 1 of C19Headline.lean, "TypeError (wrong type)") — MODEL-LEVEL statements over YarlModel/Dyn.lean, the
    Lean transcription of the `isinstance` / `type(x) is …` tests at the head of the public entry points over a small
    universe `PyObj` of Python objects.  Dyn.lean is a MODEL of Python-level dispatch; it is tied to CPython ONLY by a
    run-time probe table (the `example … := by decide +kernel` rows at the end of C19Dyn.lean compare the model with
    recorded outcomes of the real library), NOT by proof.  Cites C19Dyn.lean: the type-gated entry points raise only
    ValueError / TypeError on ANY object; exactly which objects get the TypeError; on arguments of the documented types
    the dynamic entry point IS the typed function (so every typed C19 theorem transfers); the two entry points WITHOUT a
    type gate, `joinpath` and `with_path`, for which "never anything else" is FALSE on non-str arguments (KeyError,
    AttributeError, returned garbage objects — outside "arguments of the documented types", so not a violation of C19).
  * PART B (GAPS 4, "an object that build() or a modifier returned can always be turned into a string") — over `ReachE`
    (ReachE.lean), the closure of ALL entry points of the model, `encoded=True` included.  Cites C19ReachE.lean: the
    exception discipline on every `ReachE` URL; a `ReachE` URL prints IFF it is a result of the auto-encoding constructor
    or its stored authority splits; printability is INHERITED through every modifier in every `encoded` mode and `join`,
    so F-C19-encoded-str arises only from an entry-point result; the witnesses of the finding inside `ReachE`.

  Vocabulary.
  `PyObj`            — none, bool, int, float, str, strSub (instance of a plain `str` subclass), bytes, tuple, list, dict,
                       url, splitResult, other (an `object()`-like instance).  `Dyn.strLike o = some s` — `isinstance(o,
                       str)` with content `s`; `Dyn.isNone`, `Dyn.isInt` (`type(o) is int`, a bool is not), `Dyn.isUrl`,
                       `Dyn.isSplit`; `Dyn.truthy`, `Dyn.hashable`, `Dyn.eqSlash x` (`x == "/"`), `Dyn.isZeroKey`.
  `dynNew e o enc`   — `URL(o, encoded=enc)`; `dynWithScheme e u o` … `dynWithSuffix`, `dynJoin`, `dynTruediv` (`u / o`),
                       `dynWithQuery` / `dynExtendQuery` / `dynUpdateQuery` (one positional argument), `…Kw` (keyword
                       form), `dynCmp op u o` (`<`, `<=`, `>`, `>=`), `dynJoinpath e u xs enc`, `dynWithPath e u o enc kq kf`
                       (its outcomes `PathOut`: `.ok url`, `.error err`, `.garbage 0` — a URL object is RETURNED whose
                       `_path` is the non-str argument itself —, `.garbage 1` — a URL whose path is `"/" + format(arg)`).
  `Dyn.childArgErr enc o` — what one non-str element `o` raises inside the loop of `_make_child`;
                       `Dyn.childScan` — the str elements of `reversed(paths)` met before the first non-str one, and that one.
  `ReachE e u`       — `u` is obtained through the entry points of the model: `URL(s)`, `URL(s, encoded=True)`, `build`
                       in both modes, the 18 operations of `UOp` other than the model artefact `joinRef` (`applyOp`),
                       `with_path(…, encoded=True)`, `joinpath(…, encoded=True)`, `join` of two `ReachE` URLs — all text
                       arguments Python strings.  `ReachEN N e u` — the same with the side condition `N` on the RESULT
                       of every entry point (constructor in both modes, `build`) of the history.
  `Splits e u`       — `split_netloc` accepts the stored authority.  `Printable e u` := `LazyOK e u ∧ HostShape e u`
                       (C19Str.lean): the stored authority splits and the (pre-filled or computed) cache has the shape
                       the four authority-rebuilding modifiers need.
-/
set_option linter.unusedVariables false
namespace Yarl
open ErrLemmas NetlocLemmas StrTotal EagerLemmas
open Yarl.Dyn StrAscii WfLemmas R6

/-! # PART A — "TypeError (wrong type)": the Python-level type gates (MODEL-LEVEL, YarlModel/Dyn.lean; GAPS 1) -/

/-! ## Sentence 1 — "every public entry point either returns or raises ValueError … or TypeError (wrong type); it never
    leaks … any other exception type" for the TYPE-GATED entry points, on ANY object -/

/-- MODEL-LEVEL.  Every entry point that has a type gate in `yarl/_url.py` — the constructor, with_scheme, with_user,
    with_password, with_host, with_port, with_fragment, with_name, with_suffix, join, `/`, with_query, extend_query,
    update_query (one positional argument), `<` `<=` `>` `>=` — handed ANY object `o` of the universe `PyObj`: a failure is
    a ValueError, a TypeError, or an oracle request of the typed function it delegates to — never anything else.
    Cites C19_dyn_errors_allowed. -/
theorem C19_headline_dyn_kinds_gated (e : Env) (u : Url) (o : PyObj) (err : PyErr) :
    (∀ enc, dynNew e o enc = .error err → Allowed err) ∧
    (dynWithScheme e u o = .error err → Allowed err) ∧
    (dynWithUser e u o = .error err → Allowed err) ∧
    (dynWithPassword e u o = .error err → Allowed err) ∧
    (dynWithHost e u o = .error err → Allowed err) ∧
    (dynWithPort e u o = .error err → Allowed err) ∧
    (dynWithFragment e u o = .error err → err = .typeError) ∧
    (∀ kq kf, dynWithName e u o kq kf = .error err → Allowed err) ∧
    (∀ kq kf, dynWithSuffix e u o kq kf = .error err → Allowed err) ∧
    (dynJoin e u o = .error err → err = .typeError) ∧
    (dynTruediv e u o = .error err → Allowed err) ∧
    (dynWithQuery e u o = .error err → err = .typeError ∨ err = .valueError) ∧
    (dynExtendQuery e u o = .error err → err = .typeError ∨ err = .valueError) ∧
    (dynUpdateQuery e u o = .error err → err = .typeError ∨ err = .valueError) ∧
    (∀ op, dynCmp op u o = .error err → err = .typeError) :=
  C19_dyn_errors_allowed e u o err

/-- MODEL-LEVEL.  … the keyword forms `with_query(**kw)`, `extend_query(**kw)`, `update_query(**kw)` (kwargs have str
    keys by construction; the values are ANY objects): TypeError or ValueError only; a call without any argument is the
    arity ValueError.  Cites C19_dyn_kw_errors_allowed. -/
theorem C19_headline_dyn_kinds_kwargs (e : Env) (u : Url) (kw : List (Str × PyObj)) (err : PyErr) :
    (dynWithQueryKw e u kw = .error err → err = .typeError ∨ err = .valueError) ∧
    (dynExtendQueryKw e u kw = .error err → err = .typeError ∨ err = .valueError) ∧
    (dynUpdateQueryKw e u kw = .error err → err = .typeError ∨ err = .valueError) ∧
    dynWithQueryKw e u [] = .error .valueError ∧ dynExtendQueryKw e u [] = .error .valueError ∧
    dynUpdateQueryKw e u [] = .error .valueError :=
  C19_dyn_kw_errors_allowed e u kw err

/-! ## "TypeError (wrong type)" — EXACTLY which objects are rejected, and that the type check comes first -/

/-- MODEL-LEVEL.  Which objects each type-gated modifier / operator rejects with TypeError — for EVERY receiver `u`, so
    the type check precedes every value check (a wrong type on a relative URL is a TypeError, not the "relative URL"
    ValueError): with_scheme, with_host, with_name, with_suffix, `/` want `isinstance(o, str)`; with_user, with_password,
    with_fragment also take `None`; with_port wants `None` or `type(o) is int` (a bool IS rejected); join and the
    ordering operators want a URL.  Cites C19_dyn_type_errors. -/
theorem C19_headline_dyn_type_errors (e : Env) (u : Url) (o : PyObj) :
    (dynWithScheme e u o = .error .typeError ↔ strLike o = none) ∧
    (dynWithUser e u o = .error .typeError ↔ strLike o = none ∧ isNone o = false) ∧
    (dynWithPassword e u o = .error .typeError ↔ strLike o = none ∧ isNone o = false) ∧
    (dynWithHost e u o = .error .typeError ↔ strLike o = none) ∧
    (dynWithPort e u o = .error .typeError ↔ isNone o = false ∧ isInt o = false) ∧
    (dynWithFragment e u o = .error .typeError ↔ strLike o = none ∧ isNone o = false) ∧
    (∀ kq kf, dynWithName e u o kq kf = .error .typeError ↔ strLike o = none) ∧
    (∀ kq kf, dynWithSuffix e u o kq kf = .error .typeError ↔ strLike o = none) ∧
    (dynJoin e u o = .error .typeError ↔ isUrl o = false) ∧
    (dynTruediv e u o = .error .typeError ↔ strLike o = none) ∧
    (∀ op, dynCmp op u o = .error .typeError ↔ isUrl o = false) :=
  C19_dyn_type_errors e u o

/-- MODEL-LEVEL.  The constructor `URL(o, encoded=enc)`: TypeError exactly for objects that are neither a str (or
    subclass), nor a URL, nor a SplitResult; a URL is returned as it is, whatever `encoded` says; a SplitResult is a
    ValueError unless `encoded=True`, and then its five fields are stored verbatim.
    Cites C19_dyn_new_type_errors. -/
theorem C19_headline_dyn_constructor_type_errors (e : Env) (o : PyObj) (enc : Bool)
    (hwf : ∀ parts, o = .splitResult parts → parts.length = 5) :   -- a SplitResult has its five fields
    (dynNew e o enc = .error .typeError ↔ strLike o = none ∧ isUrl o = false ∧ isSplit o = false) ∧
    (∀ v, o = .url v → dynNew e o enc = .ok v) ∧
    (isSplit o = true → (enc = false → dynNew e o enc = .error .valueError) ∧
      (enc = true → ∃ v, dynNew e o enc = .ok v ∧ o = .splitResult [v.scheme, v.netloc, v.path, v.query, v.fragment])) :=
  C19_dyn_new_type_errors e o enc hwf

/-- MODEL-LEVEL, readable instances of the two theorems above: `with_port(True)`, `with_port(1.0)`, `with_port("1")`,
    `with_scheme(None)`, `with_host(None)`, `with_scheme(b"…")`, `with_user(1)`, `with_password(b"…")`,
    `with_fragment(1)`, `join("x")`, `join(None)`, `join(SplitResult)`, `u / 1`, `u / URL`, `URL(b"…")`, `URL(None)`,
    `URL(tuple)` raise TypeError, for every receiver.  Cites C19_dyn_type_error_instances. -/
theorem C19_headline_dyn_type_error_instances (e : Env) (u : Url) :
    (∀ b, dynWithPort e u (.bool b) = .error .typeError) ∧
    (∀ t k, dynWithPort e u (.float t k) = .error .typeError) ∧
    (∀ s, dynWithPort e u (.str s) = .error .typeError) ∧
    dynWithScheme e u .none = .error .typeError ∧ dynWithHost e u .none = .error .typeError ∧
    (∀ b, dynWithScheme e u (.bytes b) = .error .typeError) ∧
    (∀ i, dynWithUser e u (.int i) = .error .typeError) ∧ (∀ b, dynWithPassword e u (.bytes b) = .error .typeError) ∧
    (∀ i, dynWithFragment e u (.int i) = .error .typeError) ∧
    (∀ s, dynJoin e u (.str s) = .error .typeError) ∧ dynJoin e u .none = .error .typeError ∧
    (∀ ps, dynJoin e u (.splitResult ps) = .error .typeError) ∧
    (∀ i, dynTruediv e u (.int i) = .error .typeError) ∧ (∀ v, dynTruediv e u (.url v) = .error .typeError) ∧
    (∀ enc b, dynNew e (.bytes b) enc = .error .typeError) ∧ (∀ enc, dynNew e .none enc = .error .typeError) ∧
    (∀ enc xs, dynNew e (.tuple xs) enc = .error .typeError) :=
  C19_dyn_type_error_instances e u

/-! ## "Given arguments of the documented types" — there the dynamic entry point IS the typed function -/

/-- MODEL-LEVEL BRIDGE: on arguments of the documented types (str, None where allowed, int for the port, URL for join)
    every dynamic entry point IS the typed function of YarlModel/Url.lean that all other C19 theorems are about
    (definitional equations), so the typed theorems of C19Headline.lean transfer; a str SUBCLASS instance is accepted
    everywhere a str is, with the same result (`isinstance`, not `type(x) is str`) — except by with_port and join,
    which reject it like any non-int / non-URL.  Cites C19_dyn_agrees_on_typed, C19_dyn_str_subclass. -/
theorem C19_headline_dyn_agrees_on_typed (e : Env) (u : Url) (s : Str) :
    ((∀ enc, dynNew e (.str s) enc = if enc then preEncodedUrl e s else encodeUrl e s) ∧
      dynWithScheme e u (.str s) = withScheme e u s ∧
      dynWithUser e u (.str s) = withUser e u (some s) ∧ dynWithUser e u .none = withUser e u none ∧
      dynWithPassword e u (.str s) = withPassword e u (some s) ∧ dynWithPassword e u .none = withPassword e u none ∧
      dynWithHost e u (.str s) = withHost e u s ∧
      (∀ i, dynWithPort e u (.int i) = withPort e u (some i) 0) ∧ dynWithPort e u .none = withPort e u none 0 ∧
      dynWithFragment e u (.str s) = .ok (withFragment e u (some s)) ∧
      dynWithFragment e u .none = .ok (withFragment e u none) ∧
      (∀ kq kf, dynWithName e u (.str s) kq kf = withName e u s kq kf) ∧
      (∀ kq kf, dynWithSuffix e u (.str s) kq kf = withSuffix e u s kq kf) ∧
      (∀ v, dynJoin e u (.url v) = .ok (join e u v)) ∧
      dynTruediv e u (.str s) = makeChild e u [s] false ∧
      (∀ enc kq kf, dynWithPath e u (.str s) enc kq kf = .ok (withPath e u s enc kq kf))) ∧
    ((∀ enc, dynNew e (.strSub s) enc = dynNew e (.str s) enc) ∧
      dynWithScheme e u (.strSub s) = dynWithScheme e u (.str s) ∧
      dynWithUser e u (.strSub s) = dynWithUser e u (.str s) ∧
      dynWithPassword e u (.strSub s) = dynWithPassword e u (.str s) ∧
      dynWithHost e u (.strSub s) = dynWithHost e u (.str s) ∧
      dynWithFragment e u (.strSub s) = dynWithFragment e u (.str s) ∧
      (∀ kq kf, dynWithName e u (.strSub s) kq kf = dynWithName e u (.str s) kq kf) ∧
      (∀ kq kf, dynWithSuffix e u (.strSub s) kq kf = dynWithSuffix e u (.str s) kq kf) ∧
      dynTruediv e u (.strSub s) = dynTruediv e u (.str s) ∧
      (∀ enc kq kf, dynWithPath e u (.strSub s) enc kq kf = dynWithPath e u (.str s) enc kq kf) ∧
      dynWithQuery e u (.strSub s) = dynWithQuery e u (.str s) ∧
      dynExtendQuery e u (.strSub s) = dynExtendQuery e u (.str s) ∧
      dynUpdateQuery e u (.strSub s) = dynUpdateQuery e u (.str s) ∧
      (dynWithPort e u (.strSub s) = .error .typeError ∧ dynJoin e u (.strSub s) = .error .typeError)) :=
  ⟨C19_dyn_agrees_on_typed e u s, C19_dyn_str_subclass e u s⟩

/-! ## The two entry points WITHOUT a type gate: `joinpath` and `with_path` — "never anything else" is FALSE there on
    non-str arguments (outside "arguments of the documented types"); the strongest true statements -/

/-- MODEL-LEVEL.  `joinpath(*xs, encoded=enc)`: with str (subclass) arguments only it IS the typed `_make_child`; with a
    non-str argument the outcome is the error of the first offending element of `reversed(xs)` — the leading-slash
    ValueError of a str met before it, else that element's own error `childArgErr`; and the kind bound that IS true on
    arbitrary objects: ValueError, TypeError, oracle request — or KeyError / AttributeError.
    Cites C19_dyn_joinpath_strs, C19_dyn_joinpath_nonstr, C19_dyn_joinpath_errors. -/
theorem C19_headline_dyn_joinpath (e : Env) (u : Url) (xs : List PyObj) (enc : Bool) :
    (∀ strs : List Str, xs.map strLike = strs.map some →           -- every argument is a str (subclass)
      dynJoinpath e u xs enc = makeChild e u strs enc) ∧
    (∀ (pre : List Str) (o : PyObj), childScan xs.reverse = (pre, some o) →   -- `o`: first non-str of `reversed(xs)`
      dynJoinpath e u xs enc =
        .error (if pre.any (fun s => s.head? = some 47) then .valueError else childArgErr enc o)) ∧
    (∀ err, dynJoinpath e u xs enc = .error err → Allowed err ∨ err = .keyError ∨ err = .attributeError) :=
  ⟨fun strs h => C19_dyn_joinpath_strs e u xs strs enc h,
   fun pre o h => C19_dyn_joinpath_nonstr e u xs enc pre o h,
   fun err h => C19_dyn_joinpath_errors e u xs enc err h⟩

/-- MODEL-LEVEL, complete table of what ONE non-str element raises inside `_make_child` (`generic` = AttributeError
    with `encoded=True` — `path.split` —, TypeError otherwise — PATH_QUOTER).  Cites C19_dyn_childArgErr_table. -/
theorem C19_headline_dyn_joinpath_element_table (enc : Bool) :
    let generic : PyErr := if enc then .attributeError else .typeError
    childArgErr enc .none = .typeError ∧ (∀ b, childArgErr enc (.bool b) = .typeError) ∧
    (∀ i, childArgErr enc (.int i) = .typeError) ∧ (∀ t k, childArgErr enc (.float t k) = .typeError) ∧
    (∀ b, childArgErr enc (.bytes b) = .typeError) ∧ (∀ v, childArgErr enc (.url v) = .typeError) ∧
    (∀ t, childArgErr enc (.other t) = .typeError) ∧
    childArgErr enc (.tuple []) = generic ∧ childArgErr enc (.list []) = generic ∧
    childArgErr enc (.dict []) = generic ∧
    (∀ x xs, childArgErr enc (.tuple (x :: xs)) = if eqSlash x then .valueError else generic) ∧
    (∀ x xs, childArgErr enc (.list (x :: xs)) = if eqSlash x then .valueError else generic) ∧
    (∀ p ps, childArgErr enc (.splitResult (p :: ps)) = if p = [47] then .valueError else generic) ∧
    (∀ kv items, childArgErr enc (.dict (kv :: items)) =
      match (kv :: items).find? (fun kv => isZeroKey kv.1) with
      | none => .keyError
      | some kv => if eqSlash kv.2 then .valueError else generic) :=
  C19_dyn_childArgErr_table enc

/-- COUNTEREXAMPLE, MODEL-LEVEL (each row is also a probe row of the real library): "it never leaks … KeyError,
    AttributeError" FAILS for `joinpath` on non-str arguments, for every receiver: `u.joinpath({1: 2})` raises
    KeyError in both modes; `u.joinpath((), encoded=True)`, `u.joinpath([], encoded=True)`,
    `u.joinpath(SplitResult("h", …), encoded=True)` raise AttributeError.  NOT a violation of C19 (its text starts "Given
    arguments of the documented types"); it shows that the restriction to documented types is NEEDED for `joinpath`.
    Cites C19_dyn_joinpath_leaks. -/
theorem C19_headline_dyn_kinds_fails_for_joinpath_nonstr (e : Env) (u : Url) :
    (∀ enc, dynJoinpath e u [.dict [(.int 1, .int 2)]] enc = .error .keyError) ∧
    dynJoinpath e u [.tuple []] true = .error .attributeError ∧
    dynJoinpath e u [.list []] true = .error .attributeError ∧
    (∀ ps, dynJoinpath e u [.splitResult ([104] :: ps)] true = .error .attributeError) ∧
    ¬ Allowed .keyError ∧ ¬ Allowed .attributeError :=
  C19_dyn_joinpath_leaks e u

/-- MODEL-LEVEL.  `with_path(o, encoded=enc, …)` on a non-str `o` NEVER produces a URL of the model: the call raises
    TypeError or KeyError, or RETURNS a garbage object (`.garbage 0`: a URL whose `_path` is `o` itself; `.garbage 1`: a
    URL whose path is `"/" + format(o)`).  Cites C19_dyn_with_path_nonstr. -/
theorem C19_headline_dyn_with_path_nonstr (e : Env) (u : Url) (o : PyObj) (enc kq kf : Bool)
    (h : strLike o = none) :                        -- `o` is not a str (subclass)
    (∀ v, dynWithPath e u o enc kq kf ≠ .ok v) ∧
    (∀ err, dynWithPath e u o enc kq kf = .error err → err = .typeError ∨ err = .keyError) ∧
    (∀ k, dynWithPath e u o enc kq kf = .garbage k → k = 0 ∨ k = 1) :=
  C19_dyn_with_path_nonstr e u o enc kq kf h

/-- MODEL-LEVEL, complete outcome table of `with_path` on non-str objects.  With `encoded=False` everything goes through
    PATH_QUOTER, which rejects non-str with TypeError — except `None` on a URL without authority, which is RETURNED
    stored as the path.  With `encoded=True` the argument only meets `if path and path[0] != "/"` and the hashing of
    `from_parts`.  Cites C19_dyn_with_path_table. -/
theorem C19_headline_dyn_with_path_table (e : Env) (u : Url) (kq kf : Bool) :
    dynWithPath e u .none false kq kf = (if u.netloc.isEmpty then .garbage 0 else .error .typeError) ∧
    (∀ o, strLike o = none → isNone o = false → dynWithPath e u o false kq kf = .error .typeError) ∧
    dynWithPath e u .none true kq kf = .garbage 0 ∧
    dynWithPath e u (.bool false) true kq kf = .garbage 0 ∧ dynWithPath e u (.bool true) true kq kf = .error .typeError ∧
    dynWithPath e u (.int 0) true kq kf = .garbage 0 ∧
    (∀ i, i ≠ 0 → dynWithPath e u (.int i) true kq kf = .error .typeError) ∧
    (∀ t k, dynWithPath e u (.float t k) true kq kf =
      if k = 0 ∧ floatZeroTxt t = true then .garbage 0 else .error .typeError) ∧
    dynWithPath e u (.bytes []) true kq kf = .garbage 0 ∧
    (∀ c b, dynWithPath e u (.bytes (c :: b)) true kq kf = .garbage 1) ∧
    dynWithPath e u (.tuple []) true kq kf = .garbage 0 ∧
    dynWithPath e u (.list []) true kq kf = .error .typeError ∧
    dynWithPath e u (.dict []) true kq kf = .error .typeError ∧
    (∀ x xs, dynWithPath e u (.tuple (x :: xs)) true kq kf =
      if eqSlash x then (if hashable (.tuple (x :: xs)) then .garbage 0 else .error .typeError) else .garbage 1) ∧
    (∀ x xs, dynWithPath e u (.list (x :: xs)) true kq kf = if eqSlash x then .error .typeError else .garbage 1) ∧
    (∀ p ps, dynWithPath e u (.splitResult (p :: ps)) true kq kf = if p = [47] then .garbage 0 else .garbage 1) ∧
    (∀ kv items, dynWithPath e u (.dict (kv :: items)) true kq kf =
      match (kv :: items).find? (fun kv => isZeroKey kv.1) with
      | none => .error .keyError
      | some kv => if eqSlash kv.2 then .error .typeError else .garbage 1) ∧
    (∀ v, dynWithPath e u (.url v) true kq kf = if v.truthy then .error .typeError else .garbage 0) ∧
    (∀ t, dynWithPath e u (.other t) true kq kf = .error .typeError) :=
  C19_dyn_with_path_table e u kq kf

/-- COUNTEREXAMPLE, MODEL-LEVEL (each row is also a probe row of the real library): "either returns or raises
    ValueError … or TypeError" FAILS for `with_path` on non-str arguments, for every receiver: `URL("/a").with_path(None)`
    RETURNS a URL whose `_path` is None; `u.with_path(None / 0 / (), encoded=True)` return a URL whose `_path` is that
    object; `u.with_path(b"x", encoded=True)` returns the URL with path `/b'x'`; `u.with_path({1: 2}, encoded=True)` raises
    KeyError.  NOT a violation of C19 ("Given arguments of the documented types"); the restriction is NEEDED for `with_path`.
    Cites C19_dyn_with_path_leaks. -/
theorem C19_headline_dyn_kinds_fails_for_with_path_nonstr (e : Env) (u : Url) (kq kf : Bool) :
    (u.netloc = [] → dynWithPath e u .none false kq kf = .garbage 0) ∧
    dynWithPath e u .none true kq kf = .garbage 0 ∧
    dynWithPath e u (.int 0) true kq kf = .garbage 0 ∧
    dynWithPath e u (.tuple []) true kq kf = .garbage 0 ∧
    dynWithPath e u (.bytes [120]) true kq kf = .garbage 1 ∧
    dynWithPath e u (.dict [(.int 1, .int 2)]) true kq kf = .error .keyError :=
  C19_dyn_with_path_leaks e u kq kf

/-! # PART B — "an object that build() or a modifier returned can always be turned into a string", over the closure of
    ALL entry points incl. `encoded=True` (`ReachE`, ReachE.lean; GAPS 4) -/

/-! ## Sentence 1, first half over `ReachE` — only ValueError / TypeError -/

/-- the exception discipline restated for the whole closure: the three constructors / builders, and on a `ReachE` URL
    every operation of `UOp` (`applyOp`), `joinpath(…, encoded=True)` and every accessor raise only ValueError /
    TypeError (or ask the oracle); `raw_name`, `name`, `suffix`, `suffixes` are total.  A COROLLARY of
    `C19_headline_kinds_constructors` / `_modifiers` / `_accessors`, which hold for ALL records — the hypothesis `ReachE`
    is not used by the proof.  Cites C19_reachE_errors. -/
theorem C19_headline_reachE_kinds (e : Env) (err : PyErr) :
    (∀ s, encodeUrl e s = .error err → Allowed err) ∧
    (∀ s, preEncodedUrl e s = .error err → Allowed err) ∧
    (∀ a, build e a = .error err → Allowed err) ∧
    ∀ u, ReachE e u →                                -- obtained through the entry points, `encoded=True` included
      (∀ op, applyOp e u op = .error err → Allowed err) ∧
      (∀ paths, makeChild e u paths true = .error err → Allowed err) ∧
      ((str e u = .error err ∨ host e u = .error err ∨ hostSubcomponent e u = .error err ∨
        hostPortSubcomponent e u = .error err ∨ port e u = .error err ∨ isDefaultPort e u = .error err ∨
        authority e u = .error err ∨ user e u = .error err ∨ password e u = .error err ∨
        humanRepr e u = .error err ∨ rawUser e u = .error err ∨ rawPassword e u = .error err ∨
        rawHost e u = .error err ∨ explicitPort e u = .error err) → Allowed err) ∧
      (∃ n, rawName u = .ok n) ∧ (∃ n, name e u = .ok n) ∧ (∃ s, suffix e u = .ok s) ∧ (∃ l, suffixes e u = .ok l) :=
  C19_reachE_errors e err

/-! ## Sentence 1, second half over `ReachE` — which URLs can be turned into a string -/

/-- F-C19-encoded-str, EXACT form over the WHOLE closure (lifts `C19_headline_str_total_encoded_iff` from the two
    `encoded=True` producers to every `ReachE` URL): a `ReachE` URL can be turned into a string IF AND ONLY IF it is
    itself a result of the auto-encoding constructor `URL(s)` (those always print) or its stored authority splits; for a
    URL without pre-filled cache (every result but the constructor's own): iff its stored authority splits.
    Cites C19_reachE_str_total_iff, C19_reachE_str_total_iff_cache_free. -/
theorem C19_headline_reachE_str_total_iff (e : Env) (u : Url) :
    (ReachE e u →                                    -- obtained through the entry points, `encoded=True` included
      (StrOK e u ↔ ((∃ s, PyStr s ∧ encodeUrl e s = .ok u) ∨ Splits e u))) ∧
    (u.pre = none →                                  -- no pre-filled cache (`C19_headline_str_total_cache_free`)
      (StrOK e u ↔ Splits e u)) :=
  ⟨fun hr => C19_reachE_str_total_iff e u hr, fun hpre => C19_reachE_str_total_iff_cache_free e u hpre⟩

/-- the invariant `Printable` at the ENTRY POINTS: for the producers that fill no cache — `URL(s, encoded=True)` and
    `build(…)` in both modes — `Printable` is exactly "prints", which is exactly "the stored authority splits"; for the
    auto-encoding constructor `URL(s)` it follows from `GoodAuthority e s` (C09's guard: the IDNA answer introduces no
    delimiter; needed only against a hostile IDNA oracle: `C19_headline_str_total_constructor_fails_for_hostile_idna`).
    Cites C19_reachE_printable_entry_iff, C19_reachE_printable_ctor. -/
theorem C19_headline_reachE_printable_entry (e : Env) (u : Url) :
    (((∃ a, build e a = .ok u) ∨ (∃ s, preEncodedUrl e s = .ok u)) →   -- `u` is a build() / URL(s, encoded=True) result
      (Printable e u ↔ StrOK e u) ∧ (StrOK e u ↔ Splits e u)) ∧
    (∀ s, encodeUrl e s = .ok u →                    -- `u = URL(s)`
      GoodAuthority e s →                            -- C09's guard
      Printable e u) :=
  ⟨fun hmade => C19_reachE_printable_entry_iff e u hmade, fun s h hg => C19_reachE_printable_ctor e s u h hg⟩

/-- "… or a modifier returned": ONE operation of `UOp` (every modifier with `encoded=False`, parent, origin, relative,
    copy) keeps `Printable`.  Cites C19_reachE_printable_step. -/
theorem C19_headline_reachE_printable_step (e : Env) (u v : Url) (op : UOp)
    (hu : Printable e u)                             -- the receiver's authority splits, cache shape fine
    (hj : op.notJoinRef)                             -- not the model artefact `joinRef` (join: next theorem)
    (h : applyOp e u op = .ok v) :                   -- the operation returned `v`
    Printable e v :=
  C19_reachE_printable_step e u v op hu hj h

/-- "an object that build() or a modifier returned can always be turned into a string" over the closure of ALL entry
    points, as far as it is TRUE: if EVERY ENTRY-POINT RESULT in the history of a `ReachE` URL is `Printable`
    (`ReachEN (Printable e)`; see `C19_headline_reachE_printable_entry` for what that means per entry point), the URL is
    `Printable` and prints — through every modifier in every `encoded` mode (`with_path(…, encoded=True)` and
    `joinpath(…, encoded=True)` included) and `join`.  Contrapositive: an unprintable `ReachE` URL has an unprintable
    entry-point result in its history — F-C19-encoded-str arises ONLY from an authority stored unvalidated by
    `build(encoded=True)` / `URL(s, encoded=True)` (or from `URL(s)` under a hostile IDNA oracle).
    Cites C19_reachE_printable. -/
theorem C19_headline_reachE_str_total (e : Env) (u : Url)
    (h : ReachEN (Printable e) e u) :                -- `ReachE`, every entry-point result of the history `Printable`
    Printable e u ∧ StrOK e u :=
  C19_reachE_printable e u h

/-- KNOWN FINDING F-C19-encoded-str, inside `ReachE` (Python backend, empty oracle tables): `URL('http://h:x/',
    encoded=True)` and `URL.build(scheme='http', authority='h:99999', encoded=True)` are `ReachE` URLs whose stored
    authority does not split and whose `str()` raises ValueError; the unprintability is INHERITED by a modifier result
    that keeps the authority (`.with_path('/p', encoded=True)`: still `ReachE`, still unprintable), while `with_host('g')`
    — which must parse the old authority — raises ValueError.  So the hypothesis on the entry-point results in
    `C19_headline_reachE_str_total` is NEEDED.  Cites C19_reachE_str_total_fails_for_encoded. -/
theorem C19_headline_reachE_str_total_fails_for_encoded :
    let e0 : Env := ⟨.py, Oracles.empty⟩
    (∃ u, preEncodedUrl e0 "http://h:x/".toStr = .ok u ∧ ReachE e0 u ∧ ¬ Splits e0 u ∧ str e0 u = .error .valueError ∧
      ReachE e0 (withPath e0 u "/p".toStr true false false) ∧
      str e0 (withPath e0 u "/p".toStr true false false) = .error .valueError ∧
      withHost e0 u "g".toStr = .error .valueError) ∧
    (∃ u, build e0 { scheme := "http".toStr, authority := "h:99999".toStr, encoded := true } = .ok u ∧ ReachE e0 u ∧
      ¬ Splits e0 u ∧ str e0 u = .error .valueError) :=
  C19_reachE_str_total_fails_for_encoded

/-- NON-VACUITY of `C19_headline_reachE_str_total` (Python backend, empty oracle tables): a history that uses
    `URL("http://U:P@H:080/x", encoded=True)` (a NON-canonical but splittable authority), `with_path("/a%zz",
    encoded=True)`, `joinpath("b c", encoded=True)`, `with_user(None)` (which re-writes the port text "080" as "80") and
    `with_user("n")` satisfies `ReachEN (Printable e0)`, and `str()` of the result is `http://n@H/a%zz/b c` (the default
    port omitted).  Cites C19_reachE_printable_instance. -/
theorem C19_headline_reachE_str_total_instance :
    let e0 : Env := ⟨.py, Oracles.empty⟩
    ∃ u r, ReachEN (Printable e0) e0 u ∧ str e0 u = .ok r ∧ r = "http://n@H/a%zz/b c".toStr :=
  C19_reachE_printable_instance

/-! ## non-vacuity -/

-- PART A: the hypotheses of the joinpath theorem on concrete argument lists; a well-formed SplitResult; a non-str object
example : childScan [PyObj.str [97], .int 1, .str [47, 98]].reverse = ([[47, 98]], some (.int 1)) ∧
    [PyObj.strSub [120], .str [121]].map strLike = [[120], [121]].map some ∧
    strLike (.bytes [47, 120]) = none ∧ isNone (.bytes [47, 120]) = false :=
  ⟨by rfl, by decide, by decide, by decide⟩
-- … and through the headline theorem: `u.joinpath("a", 1, "/b")` is the leading-slash ValueError of "/b" (met first in
-- `reversed(…)`), `u.joinpath("/a", 1, "b")` the TypeError of the int
example (e : Env) (u : Url) :
    dynJoinpath e u [.str [97], .int 1, .str [47, 98]] false = .error .valueError ∧
    dynJoinpath e u [.str [47, 97], .int 1, .str [98]] false = .error .typeError :=
  ⟨(C19_headline_dyn_joinpath e u _ false).2.1 [[47, 98]] (.int 1) (by rfl),
   (C19_headline_dyn_joinpath e u _ false).2.1 [[98]] (.int 1) (by rfl)⟩
-- PART B: the printable history of C19_headline_reachE_str_total_instance prints, through the headline theorem
example : ∃ u, ReachE ⟨.py, Oracles.empty⟩ u ∧ StrOK ⟨.py, Oracles.empty⟩ u := by
  obtain ⟨u, _, h, _⟩ := C19_headline_reachE_str_total_instance
  exact ⟨u, h.toReachE, (C19_headline_reachE_str_total _ u h).2⟩

end Yarl
