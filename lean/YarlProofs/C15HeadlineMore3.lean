import YarlProofs.C15Headline
import YarlProofs.C15Encoded
import YarlProofs.C15More2
/-!
  C15HeadlineMore3.lean — AUDIT LAYER for property C15, continuation of C15Headline.lean (the theorems here need
  C15Encoded.lean and C15More2.lean; C15More2.lean imports C15Headline.lean, so the headline file itself cannot cite
  it; this file is a leaf, nobody imports it).

  C15 | Dot segments are removed exactly when an authority is present |
  "Whenever a URL has an authority, its path - however produced (constructor, build, with_path, /, joinpath, join) and
  whether the dots were literal or written %2E - contains no '.' or '..' segment and equals RFC 3986 5.2.4
  remove_dot_segments applied to the rooted path that was supplied or merged, never climbing above the root and keeping
  a trailing slash when the last segment was a dot segment. URLs without an authority keep their dot segments verbatim,
  and normalisation is idempotent."

  What is here.
  * GAPS 6 of C15Headline.lean (join OUTSIDE the hypotheses of `C15_headline_rfc_join` / `_rfc_join_url`): the excluded
    situations are exactly two (`C15_headline_rfc_join_excluded_cases`); for a base WITHOUT authority the stored path is
    `normalize_path` of the §5.2.3 target, and §5.2.4 of the target is that path with ONE '/' in front exactly when
    `C14_deviates` holds — so "equals remove_dot_segments" is FALSE there in general
    (`C15_headline_rfc_join_no_authority`, `_fails_for_no_authority_escape`); for a base WITH an authority and a
    ROOTLESS path (only `build(…, encoded=True)`) the stored path is given exactly and differs from the RFC
    (`C15_headline_rfc_join_authority_rootless_base`, `_fails_for_authority_rootless_base`).
  * GAPS 5 (the `encoded=True` entry points, in general): constructor / build / with_path store the supplied path
    verbatim and never normalise — "no dot segment" holds IFF the supplied path has none
    (`C15_headline_encoded_constructor`, `_build`, `_with_path`, `C15_headline_entry_fails_for_encoded_true_general`);
    `joinpath(…, encoded=True)` is `joinpath(…)` with the identity in place of the quoter, SAME normalisation rule
    (`C15_headline_encoded_joinpath`).
  * GAPS 4 (URLs OUTSIDE `ReachC`: a receiver / operand that carries dot segments under an authority, obtainable only
    through `encoded=True`), operation by operation, as equivalences "the result has no dot segment ⇔ …":
    `C15_headline_derived_path_kept`, `_derived_joinpath_iff` (+ `_exact`), `_derived_name_suffix_parent_iff`
    (+ `_derived_parent`, `_derived_with_name_suffix`), `_derived_join_iff`, `_derived_join_ref`,
    `_derived_join_ref_verbatim`; computed witnesses on both backends.

  Vocabulary (C15Encoded.lean, C15More2.lean, C14More.lean, Lemmas/PathAlg.lean, C14.lean; `NoDotSegments`, `base`,
  `root`, `childSegs`, `dot`, `dotdot`: C15Headline.lean).
  `fixRoot p`        — `p` if empty or starting with '/', else "/" ++ p.
  `NoDots L`         — no element of the segment list `L` is "." or "..".
  `C15_childText e encoded` — the per-argument text of `_make_child`: the argument itself with `encoded=True`,
                       `PATH_QUOTER(argument)` without.
  `C15_childSegsF f paths`  — the new segments: every `f p` split at '/', all arguments but the last without a trailing
                       empty piece.   `C15_anyDotF f paths` — some `f p` contains a '.' (`needs_normalize`).
  `childOf u X nn`   — `_make_child` after the argument loop: merge `base u ++ X`, root it under an authority, and (under an
                       authority, iff `nn`) run `normalize_path_segments` over the WHOLE list; query / fragment cleared.
  `target base ref`  — the RFC 3986 §5.2.2 / §5.2.3 path before remove_dot_segments (`ref.path` if rooted, else `merge`).
  `joinPath base ref`— the path `join` computes in its relative branch (C14.lean).
  `C14_merged bp rp` — §5.2.3 merge without authority: `bp` up to and including its last '/', then `rp`.
  `C14_deviates bp rp` — decidable: `rp` non-empty and rootless, `bp` rootless, and in the '/'-segments of the merged path
                       — after the leading dot segments and the first other segment — some ".." meets depth 0
                       (Python transcription in the header of C14More.lean).
  `C07_encBuildNetloc a` — the netloc `build(encoded=True)` stores: `authority`, or `[user[:password]@]host[:port]`, verbatim.
  47 = '/', 46 = '.'.
-/
set_option linter.unusedVariables false
namespace Yarl
open PathLemmas PathAlg WfLemmas EntryLemmas DotMore JoinLemmas

/-! ## Sentence 1, second half — "equals RFC 3986 5.2.4 remove_dot_segments applied to the … merged" path: join OUTSIDE
    the hypotheses of `C15_headline_rfc_join` (C15Headline GAPS 6) -/

/-- the hypotheses `hb` (base without authority, or base path empty / rooted) and `ht` (target rooted or free of '.') of
    `C15_headline_rfc_join` fail in EXACTLY two situations: (a) a rootless non-empty base path NEXT TO an authority (only
    `build(…, encoded=True)` / hand-made parts make one), (b) no authority, base path empty or rootless, reference path
    rootless, and a '.' in the merged path.  Closes the "which inputs are left out" part of GAPS 6.
    Cites C15_rfc_join_excluded_cases. -/
theorem C15_headline_rfc_join_excluded_cases (base ref : Url) :
    ¬ ((base.netloc = [] ∨ base.path = [] ∨ base.path.head? = some 47) ∧
        ((∃ q, target base ref = 47 :: q) ∨ 46 ∉ target base ref)) ↔
      ((base.netloc ≠ [] ∧ base.path ≠ [] ∧ base.path.head? ≠ some 47) ∨
       (base.netloc = [] ∧ base.path.head? ≠ some 47 ∧ ref.path.head? ≠ some 47 ∧ 46 ∈ target base ref)) :=
  C15_rfc_join_excluded_cases base ref

/-- case (b) — and EVERY base without authority — at the level of the path `join` computes: it is `normalize_path` of
    the §5.2.3 target (the stack algorithm, on a possibly RELATIVE path), has no dot segment, and §5.2.4 of the target is
    that path with ONE '/' in front exactly when `C14_deviates base.path ref.path`; the two are equal IFF it is false.
    (Outside the scope of the property's first sentence — no authority — but inside "or merged".)
    Cites C15_rfc_join_no_authority. -/
theorem C15_headline_rfc_join_path_no_authority (base ref : Url)
    (hnet : base.netloc = [])           -- the base has NO authority
    (hp : ref.path ≠ []) :              -- guard: an empty reference path keeps the base path
    joinPath base ref = normalizePath (target base ref) ∧
    NoDotSegments (joinPath base ref) ∧
    Rfc.removeDotSegments (target base ref)
      = (if C14_deviates base.path ref.path then [47] else []) ++ joinPath base ref ∧
    (joinPath base ref = Rfc.removeDotSegments (target base ref) ↔ C14_deviates base.path ref.path = false) :=
  C15_rfc_join_no_authority base ref hnet hp

/-- … the same at the level of the URL `base.join(ref)`.  Cites C15_rfc_join_url_no_authority. -/
theorem C15_headline_rfc_join_no_authority (e : Env) (base ref : Url)
    (hrel : Gen.usesRelative.contains base.scheme = true)   -- guard: otherwise join returns `ref` itself
    (hsch : ref.scheme = [] ∨ ref.scheme = base.scheme)     -- guard: the reference is relative to this base
    (hnet : base.netloc = [])                                -- the base has NO authority
    (hrn : ref.netloc = [])                                  -- guard: a reference with its own authority is taken as it is
    (hp : ref.path ≠ []) :                                   -- guard: an empty reference path keeps the base path
    (join e base ref).netloc = [] ∧
    (join e base ref).path = normalizePath (target base ref) ∧
    NoDotSegments (join e base ref).path ∧
    Rfc.removeDotSegments (target base ref)
      = (if C14_deviates base.path ref.path then [47] else []) ++ (join e base ref).path ∧
    ((join e base ref).path = Rfc.removeDotSegments (target base ref) ↔ C14_deviates base.path ref.path = false) :=
  C15_rfc_join_url_no_authority e base ref hrel hsch hnet hrn hp

/-- "equals RFC 3986 5.2.4 remove_dot_segments applied to the … merged" path is FALSE for join on a base without
    authority when a ".." pops the first output segment: `URL("x/y").join(URL("../../c"))` has the path "c", where
    §5.2.4 of the merged path "x/../../c" is "/c" (the known C14 deviation, `C14_join_rfc_iff`).
    Cites C15_rfc_join_url_no_authority. -/
theorem C15_headline_rfc_join_fails_for_no_authority_escape (e : Env) :
    let base := fromParts [] [] "x/y".toStr [] []
    let ref := fromParts [] [] "../../c".toStr [] []
    C14_deviates base.path ref.path = true ∧
    (join e base ref).path ≠ Rfc.removeDotSegments (target base ref) ∧
    Rfc.removeDotSegments (target base ref) = 47 :: (join e base ref).path := by
  intro base ref
  have hd : C14_deviates base.path ref.path = true := by decide
  obtain ⟨_, _, _, h3, h4⟩ :=
    C15_rfc_join_url_no_authority e base ref (by decide) (Or.inl rfl) rfl rfl (by decide)
  refine ⟨hd, fun h => ?_, ?_⟩
  · have := h4.1 h
    rw [hd] at this
    cases this
  · rw [h3, hd]
    rfl

/-- case (a): a base WITH an authority and a ROOTLESS non-empty path `c :: rest` (`URL.build(host=…, path="x/y",
    encoded=True)`), relative-path reference.  `raw_parts` treats the first character of the path as if it were the root
    slash.  If the base path ends with '/', the merged path is `base.path ++ ref.path` — which IS the §5.2.3 merge — and
    is normalised as a RELATIVE path; otherwise the code merges "//" ++ (`rest` up to and including its last '/') ++
    `ref.path` and the stored path is §5.2.4 of THAT rooted text, whereas the RFC merges (`c :: rest` up to its last
    '/') ++ `ref.path` (third conjunct).  Cites C15_rfc_join_authority_rootless_base. -/
theorem C15_headline_rfc_join_authority_rootless_base (base ref : Url) (c : Nat) (rest : Str)
    (hn : base.netloc ≠ [])             -- "whenever a URL has an authority"
    (hbp : base.path = c :: rest) (hc : c ≠ 47)   -- the base path is non-empty and ROOTLESS (case (a))
    (hp : ref.path ≠ [])                -- guard: an empty reference path keeps the base path
    (hr : ref.path.head? ≠ some 47) :   -- guard: the reference path is rootless (a rooted one: not covered, GAPS 6)
    joinPath base ref =
      (if base.path.getLast? = some 47 then normalizePath (base.path ++ ref.path)
       else Rfc.removeDotSegments (47 :: 47 :: (rest.reverse.dropWhile (· ≠ 47)).reverse ++ ref.path)) ∧
    (base.path.getLast? = some 47 → target base ref = base.path ++ ref.path) ∧
    target base ref = ((c :: rest).reverse.dropWhile (· ≠ 47)).reverse ++ ref.path :=
  C15_rfc_join_authority_rootless_base base ref c rest hn hbp hc hp hr

/-- … case (a), witnesses where the stored path is NOT §5.2.4 of the §5.2.3 target although the base has an authority
    (Python: `b = URL.build(scheme="http", host="h", path="x/y", encoded=True)`; `b.join(URL("c"))` has path "///c" where
    RFC 3986 gives "x/c"; `b2 = …path="x/y/"…`; `b2.join(URL("../c"))` has "x/c" as the RFC says,
    `b2.join(URL("../../c"))` has "c" where the RFC gives "/c").  Cites C15_rfc_join_authority_rootless_base_instances. -/
theorem C15_headline_rfc_join_fails_for_authority_rootless_base (e : Env) :
    let b := fromParts "http".toStr "h".toStr "x/y".toStr [] []
    let b2 := fromParts "http".toStr "h".toStr "x/y/".toStr [] []
    let r (p : String) := fromParts [] [] p.toStr [] []
    (join e b (r "c")).path = "///c".toStr ∧ Rfc.removeDotSegments (target b (r "c")) = "x/c".toStr ∧
    (join e b2 (r "../c")).path = "x/c".toStr ∧ Rfc.removeDotSegments (target b2 (r "../c")) = "x/c".toStr ∧
    (join e b2 (r "../../c")).path = "c".toStr ∧ Rfc.removeDotSegments (target b2 (r "../../c")) = "/c".toStr :=
  C15_rfc_join_authority_rootless_base_instances e

/-! ## Sentence 1, first half — "however produced": the `encoded=True` entry points (C15Headline GAPS 5) -/

/-- `URL(s, encoded=True)`: the stored path IS the Appendix-B path of the cleaned input, never normalised — with or
    without authority; "no dot segment" holds IFF the input's path has none.  Cites C15_encoded_constructor_iff. -/
theorem C15_headline_encoded_constructor (e : Env) (s : Str) (u : Url)
    (h : preEncodedUrl e s = .ok u) :   -- the encoded=True constructor succeeded
    u.path = (Rfc.appendixB Gen.schemeChars (cleanUrl s)).path ∧
    (NoDotSegments u.path ↔ NoDotSegments (Rfc.appendixB Gen.schemeChars (cleanUrl s)).path) :=
  C15_encoded_constructor_iff e s u h

/-- `URL.build(path=p, encoded=True)`: the stored path IS `p` (not even required to be rooted), the netloc is the
    authority / host arguments verbatim; "no dot segment" holds IFF `p` has none.  Cites C15_encoded_build_iff. -/
theorem C15_headline_encoded_build (e : Env) (a : BuildArgs) (u : Url)
    (ha : a.encoded = true)             -- the encoded=True route
    (h : build e a = .ok u) :
    u.path = a.path ∧ u.netloc = C07_encBuildNetloc a ∧ (NoDotSegments u.path ↔ NoDotSegments a.path) :=
  C15_encoded_build_iff e a u ha h

/-- `with_path(p, encoded=True)`: the stored path is `p`, rooted with '/' when non-empty and rootless, never normalised —
    whatever the receiver; "no dot segment" holds IFF `p` has none.  Cites C15_encoded_with_path_iff. -/
theorem C15_headline_encoded_with_path (e : Env) (u : Url) (p : Str) (kq kf : Bool) :
    (withPath e u p true kq kf).path = fixRoot p ∧ (withPath e u p true kq kf).netloc = u.netloc ∧
    (NoDotSegments (withPath e u p true kq kf).path ↔ NoDotSegments p) :=
  C15_encoded_with_path_iff e u p kq kf

/-- hence the clause "whenever a URL has an authority, its path — however produced — contains no '.' or '..' segment" is
    FALSE for `with_path(…, encoded=True)` and `build(…, encoded=True)` on EVERY rooted argument that has a dot segment
    (general form of the computed witness `C15_headline_entry_fails_for_encoded_true`; the exemption is by design and the
    property text does not mention it).  Cites C15_encoded_keeps_dot_segments. -/
theorem C15_headline_entry_fails_for_encoded_true_general (e : Env) (u : Url) (p : Str) (kq kf : Bool)
    (hp : ¬ NoDotSegments (47 :: p)) :  -- the rooted argument "/" ++ p has a dot segment
    ¬ NoDotSegments (withPath e u (47 :: p) true kq kf).path ∧
    (∀ a v, a.encoded = true → a.path = 47 :: p → build e a = .ok v → ¬ NoDotSegments v.path) :=
  C15_encoded_keeps_dot_segments e u p kq kf hp

/-- `/`, `joinpath(*ps)` and `joinpath(*ps, encoded=True)` are ONE function of the per-argument text
    (`C15_childText e encoded`: PATH_QUOTER of the argument, resp. the argument itself): ValueError iff an argument
    starts with '/', otherwise `childOf` — whose stored path is the plain '/'-join of old and new segments when the
    receiver has no authority or no argument text contains a '.', and otherwise the WHOLE merged segment list
    normalised.  So `encoded=True` does NOT switch normalisation off for joinpath; it only replaces the quoter by the
    identity.  Cites C15_make_child_any_mode, C15_childOf_path. -/
theorem C15_headline_encoded_joinpath (e : Env) (u : Url) (paths : List Str) (encoded : Bool) :
    let X := C15_childSegsF (C15_childText e encoded) paths
    let nn := C15_anyDotF (C15_childText e encoded) paths
    makeChild e u paths encoded =
      (if paths.any (fun p => p.head? = some 47) then .error .valueError else .ok (childOf u X nn)) ∧
    (childOf u X nn).scheme = u.scheme ∧ (childOf u X nn).netloc = u.netloc ∧
    (childOf u X nn).query = [] ∧ (childOf u X nn).fragment = [] ∧
    (childOf u X nn).path =
      (if u.netloc = [] ∨ nn = false then joinC 47 (root u.netloc (base u ++ X))
       else fixRoot (joinC 47 (normalizePathSegments (root u.netloc (base u ++ X))))) :=
  ⟨C15_make_child_any_mode e u paths encoded, C15_childOf_path u _ _⟩

/-- the `encoded=True` entry points on `u = URL('http://U:P@H:080/a/../b?x y#é', encoded=True)` (both backends; Python:
    `u.with_path('/p/./q', encoded=True)` → "/p/./q", `…('p/../q', encoded=True)` → "/p/../q", `…('', encoded=True)` → "";
    the same arguments WITHOUT encoded=True → "/p/q", "/q"; `u.joinpath('/c', encoded=True)` raises;
    `u.joinpath('%2E%2E', encoded=True)` → "/a/../b/%2E%2E" (nothing is decoded, no '.', nothing normalised);
    `u.joinpath('%2E%2E', 'x.y', encoded=True)` → "/b/%2E%2E/x.y" (the literal '.' normalises the whole path, old ".."
    included).  Cites C15_encoded_entry_points_instance. -/
theorem C15_headline_encoded_entry_points_instance (b : Backend) :
    let e : Env := ⟨b, Oracles.empty⟩
    let u := fromParts "http".toStr "U:P@H:080".toStr "/a/../b".toStr "x y".toStr [233]
    (withPath e u "/p/./q".toStr true false false).path = "/p/./q".toStr ∧
    (withPath e u "p/../q".toStr true false false).path = "/p/../q".toStr ∧
    (withPath e u [] true false false).path = [] ∧
    (withPath e u "/p/./q".toStr false false false).path = "/p/q".toStr ∧
    (withPath e u "p/../q".toStr false false false).path = "/q".toStr ∧
    makeChild e u ["/c".toStr] true = .error .valueError ∧
    (makeChild e u ["%2E%2E".toStr] true).map (·.path) = .ok "/a/../b/%2E%2E".toStr ∧
    (makeChild e u ["%2E%2E".toStr, "x.y".toStr] true).map (·.path) = .ok "/b/%2E%2E/x.y".toStr :=
  C15_encoded_entry_points_instance b

/-! ## Sentence 1, first half — URLs OUTSIDE `ReachC`: what every operation does to a URL that carries dot segments
    under an authority (C15Headline GAPS 4) -/

/-- the scheme / authority / query / fragment modifiers and `relative()` copy the stored path — for ANY receiver (no
    `CanonUrl`, no `ReachC`): the result has a dot segment iff the receiver had one.
    Cites C15_derived_path_kept. -/
theorem C15_headline_derived_path_kept (e : Env) (u : Url) :
    (∀ x v, withScheme e u x = .ok v → v.path = u.path) ∧
    (∀ x v, withUser e u x = .ok v → v.path = u.path) ∧
    (∀ x v, withPassword e u x = .ok v → v.path = u.path) ∧
    (∀ x v, withHost e u x = .ok v → v.path = u.path) ∧
    (∀ x k v, withPort e u x k = .ok v → v.path = u.path) ∧
    (∀ a v, withQuery e u a = .ok v → v.path = u.path) ∧
    (∀ a v, extendQuery e u a = .ok v → v.path = u.path) ∧
    (∀ a v, updateQuery e u a = .ok v → v.path = u.path) ∧
    (∀ ns v, withoutQueryParams e u ns = .ok v → v.path = u.path) ∧
    (∀ f, (withFragment e u f).path = u.path) ∧
    (∀ v, relative u = .ok v → v.path = u.path) :=
  C15_derived_path_kept e u

/-- `/` and `joinpath` in EITHER mode on a URL with an authority and ANY stored path (this removes the guard
    `NoDotSegments u.path` of `C15_headline_entry_joinpath` by saying exactly what happens without it): the result has no
    dot segment IFF some argument text contains a '.' (then the WHOLE merged path is normalised, old dot segments
    included) or the receiver's path had none.  So `/ "x"` on `URL("http://h/a/../b", encoded=True)` does NOT
    re-establish the invariant, `/ "x.y"` does.  Cites C15_joinpath_dots_iff. -/
theorem C15_headline_derived_joinpath_iff (e : Env) (u v : Url) (paths : List Str) (encoded : Bool)
    (hn : u.netloc ≠ [])                -- "whenever a URL has an authority"
    (h : makeChild e u paths encoded = .ok v) :
    NoDotSegments v.path ↔
      (C15_anyDotF (C15_childText e encoded) paths = true ∨ NoDotSegments u.path) :=
  C15_joinpath_dots_iff e u v paths encoded hn h

/-- … with the stored path written out: (a) a '.' in some argument text: the normalised merged list, no dot segment;
    (b) none: the plain '/'-join, every old segment other than a trailing empty one still there, old dot segments
    included.  Cites C15_derived_make_child. -/
theorem C15_headline_derived_joinpath_exact (e : Env) (u v : Url) (paths : List Str) (encoded : Bool)
    (hn : u.netloc ≠ [])                -- "whenever a URL has an authority"
    (h : makeChild e u paths encoded = .ok v) :
    let f := C15_childText e encoded
    let X := C15_childSegsF f paths
    (C15_anyDotF f paths = true →
      v.path = fixRoot (joinC 47 (normalizePathSegments (root u.netloc (base u ++ X)))) ∧ NoDotSegments v.path) ∧
    (C15_anyDotF f paths = false →
      v.path = joinC 47 (root u.netloc (base u ++ X)) ∧
      (∀ s ∈ base u, s ∈ splitOn 47 v.path) ∧
      (¬ NoDotSegments u.path → ¬ NoDotSegments v.path)) :=
  C15_derived_make_child e u v paths encoded hn h

/-- … both directions at a witness (both backends): `u = URL("http://h/a/../b", encoded=True)`; `u / "c"` is
    "/a/../b/c" (dots stay), `u / "c.d"` is "/b/c.d", `u.joinpath("c", encoded=True)` is "/a/../b/c",
    `u.joinpath("c.d", encoded=True)` is "/b/c.d".  Cites C15_joinpath_dots_iff_instances. -/
theorem C15_headline_derived_joinpath_instances (b : Backend) :
    let e : Env := ⟨b, Oracles.empty⟩
    let u := fromParts "http".toStr "h".toStr "/a/../b".toStr [] []
    (makeChild e u ["c".toStr] false).map (·.path) = .ok "/a/../b/c".toStr ∧
    (makeChild e u ["c.d".toStr] false).map (·.path) = .ok "/b/c.d".toStr ∧
    (makeChild e u ["c".toStr] true).map (·.path) = .ok "/a/../b/c".toStr ∧
    (makeChild e u ["c.d".toStr] true).map (·.path) = .ok "/b/c.d".toStr ∧
    C15_anyDotF (C15_childText e false) ["c".toStr] = false ∧
    C15_anyDotF (C15_childText e false) ["c.d".toStr] = true :=
  C15_joinpath_dots_iff_instances b

/-- `with_name(n)`, `with_suffix(s)` and `parent` on a URL with an authority and a rooted path: nothing is normalised, all
    '/'-segments but the last are kept, the last one is replaced by a name that is never "." / ".." (resp. dropped).  So
    the result has no dot segment IFF no segment of `u.path` other than the LAST is one.
    Cites C15_with_name_suffix_parent_dots_iff. -/
theorem C15_headline_derived_name_suffix_parent_iff (e : Env) (u : Url) (r : Str) (kq kf : Bool)
    (hn : u.netloc ≠ [])                -- "whenever a URL has an authority"
    (hp : u.path = 47 :: r) :           -- guard: the stored path is rooted (a rootless one next to an authority: not covered)
    (∀ nm v, PyStr nm →                 -- model artefact: the argument is a Python str
      withName e u nm kq kf = .ok v →
      (NoDotSegments v.path ↔ NoDots (splitOn 47 u.path).dropLast)) ∧
    (∀ sfx v, PyStr sfx →               -- model artefact
      withSuffix e u sfx kq kf = .ok v →
      (NoDotSegments v.path ↔ NoDots (splitOn 47 u.path).dropLast)) ∧
    (r ≠ [] →                           -- guard: the path is not "/" (then `parent` is the URL without query / fragment)
      (NoDotSegments (parent u).path ↔ NoDots (splitOn 47 u.path).dropLast)) :=
  C15_with_name_suffix_parent_dots_iff e u r kq kf hn hp

/-- … `parent`, the stored path written out: the segments without the last one, verbatim.
    Cites C15_derived_parent. -/
theorem C15_headline_derived_parent (u : Url) (r : Str)
    (hn : u.netloc ≠ [])                -- "whenever a URL has an authority"
    (hp : u.path = 47 :: r)             -- guard: rooted path
    (hr : r ≠ []) :                     -- guard: not "/"
    (parent u).path = joinC 47 ([] :: (splitOn 47 r).dropLast) ∧
    (parent u).netloc = u.netloc ∧ (parent u).scheme = u.scheme ∧
    splitOn 47 (parent u).path = (splitOn 47 u.path).dropLast :=
  C15_derived_parent u r hn hp hr

/-- … `with_name` / `with_suffix`, the segments written out: all but the last verbatim, the last replaced by a
    slash-free name.  Cites C15_derived_with_name_suffix. -/
theorem C15_headline_derived_with_name_suffix (e : Env) (u v : Url) (r : Str) (kq kf : Bool)
    (hn : u.netloc ≠ [])                -- "whenever a URL has an authority"
    (hp : u.path = 47 :: r) :           -- guard: rooted path
    (∀ nm, PyStr nm → withName e u nm kq kf = .ok v →
      splitOn 47 v.path = (splitOn 47 u.path).dropLast ++ [q e Gen.PATH_QUOTER nm] ∧ v.netloc = u.netloc) ∧
    (∀ sfx, PyStr sfx → withSuffix e u sfx kq kf = .ok v →
      ∃ n', 47 ∉ n' ∧ splitOn 47 v.path = (splitOn 47 u.path).dropLast ++ [n'] ∧ v.netloc = u.netloc) :=
  C15_derived_with_name_suffix e u v r kq kf hn hp

/-- … witnesses (both backends; Python: `URL("http://h/a/..", encoded=True).with_name("n")` → "/a/n" (clean),
    `URL("http://h/a/../b", encoded=True).with_name("n")` → "/a/../n", `.with_suffix(".x")` → "/a/../b.x", `.parent` →
    "/a/..", `URL("http://h/a/./b", encoded=True).parent.parent` → "/a").
    Cites C15_with_name_suffix_parent_instances. -/
theorem C15_headline_derived_name_suffix_parent_instances (b : Backend) :
    let e : Env := ⟨b, Oracles.empty⟩
    let u1 := fromParts "http".toStr "h".toStr "/a/..".toStr [] []
    let u2 := fromParts "http".toStr "h".toStr "/a/../b".toStr [] []
    let u3 := fromParts "http".toStr "h".toStr "/a/./b".toStr [] []
    (withName e u1 "n".toStr false false).map (·.path) = .ok "/a/n".toStr ∧
    (withName e u2 "n".toStr false false).map (·.path) = .ok "/a/../n".toStr ∧
    (withSuffix e u2 ".x".toStr false false).map (·.path) = .ok "/a/../b.x".toStr ∧
    (parent u2).path = "/a/..".toStr ∧ (parent (parent u3)).path = "/a".toStr :=
  C15_with_name_suffix_parent_instances b

/-- `base.join(ref)` in the merge branch, ANY base path (this removes the guard `NoDotSegments base.path` of
    `C15_headline_entry_join`): the result has no dot segment IFF the reference path is non-empty (the merged path is
    normalised) or the base path had none (an empty reference path copies the base path).  So `u.join(URL("x"))`
    re-establishes the invariant, `u.join(URL("?q"))` and `u.join(URL("#f"))` do not.
    Cites C15_join_base_dots_iff. -/
theorem C15_headline_derived_join_iff (e : Env) (base ref : Url)
    (hsch : ref.scheme = [] ∨ ref.scheme = base.scheme)     -- guard: the reference is relative to this base
    (hrel : Gen.usesRelative.contains base.scheme = true)   -- guard: otherwise join returns `ref` itself
    (hauth : ref.netloc = [] ∨ Gen.usesAuthority.contains base.scheme = false) :
                                                            -- guard: the reference brings no authority of its own
    NoDotSegments (join e base ref).path ↔ (ref.path ≠ [] ∨ NoDotSegments base.path) :=
  C15_join_base_dots_iff e base ref hsch hrel hauth

/-- `join` with a reference that carries its OWN authority: the result has the reference's authority and path as they
    are — it has no dot segment IFF the reference has none (general form of `C15_headline_entry_join_fails_for`; this is
    why `C15_headline_entry_join` needs `NoDotSegments ref.path`).  Cites C15_join_ref_dots_iff. -/
theorem C15_headline_derived_join_ref (e : Env) (base ref : Url)
    (hsch : ref.scheme = [] ∨ ref.scheme = base.scheme)     -- guard: the reference is relative to this base
    (hrel : Gen.usesRelative.contains base.scheme = true)   -- guard: otherwise join returns `ref` itself
    (hn : ref.netloc ≠ []) :                                 -- the reference has an authority
    (join e base ref).netloc = ref.netloc ∧
    (NoDotSegments (join e base ref).path ↔ NoDotSegments ref.path) :=
  C15_join_ref_dots_iff e base ref hsch hrel hn

/-- `join` outside the merge branch takes the reference as it is: another scheme, or a scheme outside `uses_relative`,
    gives `ref` itself; a reference with its own authority gives `ref`'s authority and path.
    Cites C15_derived_join_ref_verbatim. -/
theorem C15_headline_derived_join_ref_verbatim (e : Env) (base ref : Url) :
    ((ref.scheme ≠ [] ∧ ref.scheme ≠ base.scheme) → join e base ref = ref) ∧
    ((ref.scheme = [] ∨ ref.scheme = base.scheme) → Gen.usesRelative.contains base.scheme = false →
      join e base ref = ref) ∧
    ((ref.scheme = [] ∨ ref.scheme = base.scheme) → Gen.usesRelative.contains base.scheme = true →
      ref.netloc ≠ [] → Gen.usesAuthority.contains base.scheme = true →
      (join e base ref).path = ref.path ∧ (join e base ref).netloc = ref.netloc) :=
  C15_derived_join_ref_verbatim e base ref

/-- … witnesses: `u = URL("http://h/a/../b", encoded=True)`; `u.join(URL("x"))` → "/x" (clean), `u.join(URL("?q"))` →
    "/a/../b", `URL("http://h/p").join(URL("//g/a/../b", encoded=True))` → "/a/../b" under the authority "g".
    Cites C15_join_dots_instances. -/
theorem C15_headline_derived_join_instances (e : Env) :
    let u := fromParts "http".toStr "h".toStr "/a/../b".toStr [] []
    (join e u (fromParts [] [] "x".toStr [] [])).path = "/x".toStr ∧
    (join e u (fromParts [] [] [] "q".toStr [])).path = "/a/../b".toStr ∧
    (join e (fromParts "http".toStr "h".toStr "/p".toStr [] []) (fromParts [] "g".toStr "/a/../b".toStr [] [])).path
      = "/a/../b".toStr ∧
    (join e (fromParts "http".toStr "h".toStr "/p".toStr [] []) (fromParts [] "g".toStr "/a/../b".toStr [] [])).netloc
      = "g".toStr :=
  C15_join_dots_instances e

/-- every modifier on ONE URL with an authority AND dot segments, `u = URL('http://U:P@H:080/a/../b?x y#é',
    encoded=True)` (both backends; Python: `u.with_query('k=v')`, `u.with_fragment(None)`, `u / 'c'`, `u / 'c.d'`,
    `u.joinpath('c.d', encoded=True)`, `u.joinpath('c', encoded=True)`, `u.parent`, `u.with_name('n')`,
    `u.with_suffix('.x')`, `u.join(URL('z'))`, `u.join(URL('?q'))`, `u.with_user('n')`): paths "/a/../b", "/a/../b",
    "/a/../b/c", "/b/c.d", "/b/c.d", "/a/../b/c", "/a/..", "/a/../n", "/a/../b.x", "/z", "/a/../b", "/a/../b".
    Cites C15_derived_from_encoded_instance. -/
theorem C15_headline_derived_from_encoded_instance (b : Backend) :
    let e : Env := ⟨b, Oracles.empty⟩
    let u := fromParts "http".toStr "U:P@H:080".toStr "/a/../b".toStr "x y".toStr [233]
    preEncodedUrl e ("http://U:P@H:080/a/../b?x y#".toStr ++ [233]) = .ok u ∧
    (withQuery e u (.str "k=v".toStr)).map (·.path) = .ok "/a/../b".toStr ∧
    (withFragment e u none).path = "/a/../b".toStr ∧
    (makeChild e u ["c".toStr] false).map (·.path) = .ok "/a/../b/c".toStr ∧
    (makeChild e u ["c.d".toStr] false).map (·.path) = .ok "/b/c.d".toStr ∧
    (makeChild e u ["c.d".toStr] true).map (·.path) = .ok "/b/c.d".toStr ∧
    (makeChild e u ["c".toStr] true).map (·.path) = .ok "/a/../b/c".toStr ∧
    (parent u).path = "/a/..".toStr ∧
    (withName e u "n".toStr false false).map (·.path) = .ok "/a/../n".toStr ∧
    (withSuffix e u ".x".toStr false false).map (·.path) = .ok "/a/../b.x".toStr ∧
    (join e u (fromParts [] [] "z".toStr [] [])).path = "/z".toStr ∧
    (join e u (fromParts [] [] [] "q".toStr [])).path = "/a/../b".toStr ∧
    (withUser e u (some "n".toStr)).map (·.path) = .ok "/a/../b".toStr :=
  C15_derived_from_encoded_instance b

/-! ## non-vacuity -/

-- `C15_headline_rfc_join_no_authority` on a base without authority where the RFC and yarl AGREE (no escape) …
example (e : Env) :
    (join e (fromParts [] [] "x/y/z".toStr [] []) (fromParts [] [] "../c".toStr [] [])).path
      = Rfc.removeDotSegments (target (fromParts [] [] "x/y/z".toStr [] []) (fromParts [] [] "../c".toStr [] [])) :=
  (C15_headline_rfc_join_no_authority e _ _ (by decide) (Or.inl rfl) rfl rfl (by decide)).2.2.2.2.2 (by decide)
-- … and the two values of the deciding condition
example : C14_deviates "x/y".toStr "../../c".toStr = true ∧ C14_deviates "x/y/z".toStr "../c".toStr = false := by decide

-- `C15_headline_rfc_join_authority_rootless_base`: the hypotheses are satisfiable (`URL.build(scheme="http", host="h",
-- path="x/y", encoded=True)` joined with `URL("c")`), and the theorem gives the stored path
example : joinPath (fromParts "http".toStr "h".toStr "x/y".toStr [] []) (fromParts [] [] "c".toStr [] [])
    = Rfc.removeDotSegments "///c".toStr := by
  have h := (C15_headline_rfc_join_authority_rootless_base (fromParts "http".toStr "h".toStr "x/y".toStr [] [])
    (fromParts [] [] "c".toStr [] []) 120 "/y".toStr (by decide) rfl (by decide) (by decide) (by decide)).1
  rw [h]
  decide

-- `C15_headline_encoded_with_path`: the equivalence at a witness (any receiver)
example (e : Env) (u : Url) : ¬ NoDotSegments (withPath e u "a/../b".toStr true false false).path :=
  fun h => absurd ((C15_headline_encoded_with_path e u _ false false).2.2.1 h) (by decide)

-- `C15_headline_derived_joinpath_iff` through the theorem: `URL("http://h/a/../b", encoded=True) / "c"` keeps its dots
example : ∀ v, makeChild ⟨.py, Oracles.empty⟩ (fromParts "http".toStr "h".toStr "/a/../b".toStr [] []) ["c".toStr] false
    = .ok v → ¬ NoDotSegments v.path := by
  intro v hv h
  rcases (C15_headline_derived_joinpath_iff ⟨.py, Oracles.empty⟩ _ v _ false (by decide) hv).1 h with h1 | h1
  · exact absurd h1 (by decide +kernel)
  · exact absurd h1 (by decide)

end Yarl
