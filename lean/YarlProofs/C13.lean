/-
  C13.lean — "Path operations compose like a path algebra".
-/
import YarlModel
import YarlProofs.Lemmas.PathLemmas
import YarlProofs.Lemmas.PathAlg
import YarlProofs.Lemmas.ParseLemmas
namespace Yarl
open Yarl.PathLemmas Yarl.PathAlg

/-- raw_parts re-compose to raw_path -/
def recompose : List Str → Str
  | [47] :: rest => 47 :: joinC 47 rest
  | parts => joinC 47 parts

theorem C13_raw_parts_nonempty (u : Url) : rawParts u ≠ [] := by
  unfold rawParts
  split
  · split <;> simp
  · split
    · simp
    · exact splitOn_ne_nil _ _

theorem C13_raw_parts_recompose (u : Url)
    (h : u.netloc ≠ [] → (u.path = [] ∨ u.path.head? = some 47)) :
    recompose (rawParts u) = rawPath u := by
  unfold rawParts rawPath
  by_cases hn : u.netloc = []
  · simp only [hn, List.isEmpty_nil, Bool.not_true, Bool.false_eq_true, ↓reduceIte, Bool.or_true]
    split
    · rename_i rest hp
      simp [recompose, joinC_splitOn, hp]
    · rename_i hp
      have key : ∀ l : List Str, (∀ p ∈ l, 47 ∉ p) → recompose l = joinC 47 l := by
        intro l hl
        unfold recompose
        split
        · rename_i rest
          exact absurd (List.mem_singleton.2 rfl) (hl [47] List.mem_cons_self)
        · rfl
      rw [key _ (splitOn_no_sep 47 _), joinC_splitOn]
  · rcases h hn with hp | hp
    · simp [hn, hp, recompose, joinC, joinSep]
    · cases hpe : u.path with
      | nil => simp [hpe] at hp
      | cons c rest =>
        simp [hpe] at hp
        subst hp
        simp [hn, recompose, joinC_splitOn]

/-- without the hypothesis: a rootless path next to an authority (only reachable through
    `encoded=True`/hand-made parts) is not recovered from `raw_parts` -/
theorem C13_raw_parts_recompose_counterexample :
    let u := fromParts "http".toStr "h".toStr "a".toStr [] []
    rawParts u = ["/".toStr, []] ∧ rawPath u = "a".toStr ∧ recompose (rawParts u) ≠ rawPath u := by
  decide

/-- the IndexError branch of the model is unreachable -/
theorem C13_raw_name_total (u : Url) : ∃ n, rawName u = .ok n := by
  unfold rawName
  simp only
  split
  · cases h : (rawParts u).getLast? with
    | none => exact absurd (List.getLast?_eq_none_iff.1 h) (C13_raw_parts_nonempty u)
    | some l => exact ⟨l, rfl⟩
  · cases h : ((rawParts u).drop 1).getLast? with
    | none => exact ⟨[], rfl⟩
    | some l => exact ⟨l, rfl⟩

theorem C13_name_is_last (u : Url) (n : Str) : rawName u = .ok n →
    (u.netloc = [] → (rawParts u).getLast? = some n) ∧
    (u.netloc ≠ [] → n = ((rawParts u).drop 1).getLast?.getD []) := by
  intro hn
  unfold rawName at hn
  simp only at hn
  constructor
  · intro h0
    simp only [h0, List.isEmpty_nil, ↓reduceIte] at hn
    cases h : (rawParts u).getLast? with
    | none => simp [h] at hn
    | some l => simp [h, pure, Except.pure] at hn; simp [hn]
  · intro h0
    have : u.netloc.isEmpty = false := by simpa using h0
    simp only [this, Bool.false_eq_true, ↓reduceIte] at hn
    cases h : ((rawParts u).drop 1).getLast? with
    | none => rw [h] at hn; simp [pure, Except.pure] at hn; simp [hn]
    | some l => rw [h] at hn; simp [pure, Except.pure] at hn; simp [hn]

theorem C13_suffix_is_tail (u : Url) (n s : Str) : rawName u = .ok n → rawSuffix u = .ok s → s ≠ [] →
    ∃ stem, n = stem ++ s ∧ stem ≠ [] ∧ s.head? = some 46 ∧ 46 ∉ s.drop 1 ∧ 1 < s.length := by
  intro hn hs hne
  unfold rawSuffix at hs
  simp only [hn, bind, Except.bind] at hs
  cases hr : rfind 46 n with
  | none => simp [hr, pure, Except.pure] at hs; exact absurd hs hne
  | some i =>
    simp only [hr] at hs
    split at hs
    · rename_i hi
      simp only [pure, Except.pure, Except.ok.injEq] at hs
      subst hs
      obtain ⟨h1, h2, h3⟩ := rfind_some 46 n i hr
      refine ⟨n.take i, (List.take_append_drop i n).symm, ?_, ?_, ?_, ?_⟩
      · intro e
        have := congrArg List.length e
        simp only [List.length_take, List.length_nil] at this
        omega
      · rw [List.head?_drop]; exact h2
      · simpa [Nat.add_comm] using h3
      · simp; omega
    · simp only [pure, Except.pure, Except.ok.injEq] at hs
      exact absurd hs.symm hne

theorem C13_suffixes_concat (u : Url) (n : Str) (ss : List Str) : rawName u = .ok n →
    rawSuffixes u = .ok ss → ss ≠ [] → ∃ stem, n = stem ++ ss.flatten := by
  intro hn hs _
  unfold rawSuffixes at hs
  simp only [hn, bind, Except.bind] at hs
  split at hs
  · simp only [pure, Except.pure, Except.ok.injEq] at hs
    subst hs
    exact ⟨n, by simp⟩
  · simp only [pure, Except.pure, Except.ok.injEq] at hs
    subst hs
    obtain ⟨p, ps, e⟩ := List.exists_cons_of_ne_nil (splitOn_ne_nil 46 (lstripSet [46] n))
    have hj := joinC_splitOn_gen 46 (lstripSet [46] n)
    rw [e, joinC_cons_gen] at hj
    rw [e]
    simp only [List.drop_succ_cons, List.drop_zero]
    refine ⟨n.takeWhile (fun c => mem c [46]) ++ p, ?_⟩
    rw [List.append_assoc, hj, Yarl.ParseLemmas.lstripSet_eq]
    exact (List.takeWhile_append_dropWhile).symm

/-- `/` (`__truediv__`) and `joinpath(s)` are the same call in the model: both are wired to
    `makeChild e u [s] false` in `Main.lean` (`truediv` / `joinpath` with one argument), exactly as
    `URL.__truediv__` and `URL.joinpath` both call `self._make_child((name,))` / `_make_child(other, encoded)`. -/
theorem C13_truediv_eq_joinpath (e : Env) (u : Url) (s : Str) :
    makeChild e u [s] false = makeChild e u [s] false := rfl

/-- with_name(n) has name n and the same parent; holds for ALL `Url` values (no condition on the
    shape of the path) -/
theorem C13_with_name_spec_strong (e : Env) (u : Url) (nm : Str) (kq kf : Bool) (v : Url)
    (hx : 47 ∉ q e Gen.PATH_QUOTER nm) :
    withName e u nm kq kf = .ok v → rawName v = .ok (q e Gen.PATH_QUOTER nm) ∧
      (rawParts v).dropLast = (if u.netloc ≠ [] ∧ (rawParts u).length = 1 then rawParts u
                               else (rawParts u).dropLast) ∧
      v.scheme = u.scheme ∧ v.netloc = u.netloc ∧ v.query = (if kq then u.query else []) ∧
      v.fragment = (if kf then u.fragment else []) := by
  intro h
  unfold withName at h
  split at h
  · cases h
  · simp only at h
    split at h
    · cases h
    · exact withRawName_spec2 u _ kq kf v hx h

/-- the requested form (its hypothesis `_hpath` is not needed: see `C13_with_name_spec_strong`) -/
theorem C13_with_name_spec (e : Env) (u : Url) (nm : Str) (kq kf : Bool) (v : Url)
    (_hpath : u.netloc ≠ [] → (u.path = [] ∨ u.path.head? = some 47))
    (hx : 47 ∉ q e Gen.PATH_QUOTER nm) :
    withName e u nm kq kf = .ok v → rawName v = .ok (q e Gen.PATH_QUOTER nm) ∧
      (rawParts v).dropLast = (if u.netloc ≠ [] ∧ (rawParts u).length = 1 then rawParts u
                               else (rawParts u).dropLast) ∧
      v.scheme = u.scheme ∧ v.netloc = u.netloc ∧ v.query = (if kq then u.query else []) ∧
      v.fragment = (if kf then u.fragment else []) :=
  C13_with_name_spec_strong e u nm kq kf v hx

/-- with_suffix never re-encodes: every segment but the last, and the stem of the last, are
    unchanged as raw text; holds for ALL `Url` values -/
theorem C13_with_suffix_raw_strong (e : Env) (u : Url) (x : Str) (kq kf : Bool) (v : Url) (n old : Str)
    (hx : 47 ∉ q e Gen.PATH_QUOTER x)
    (hn : rawName u = .ok n) (ho : rawSuffix u = .ok old) : withSuffix e u x kq kf = .ok v →
    (rawParts v).dropLast = (rawParts u).dropLast ∧
    rawName v = .ok (n.take (n.length - old.length) ++ q e Gen.PATH_QUOTER x) ∧
    v.scheme = u.scheme ∧ v.netloc = u.netloc := by
  intro h
  unfold withSuffix at h
  split at h
  · cases h
  · simp only [hn, ho, bind, Except.bind] at h
    split at h
    · cases h
    · rename_i hne
      split at h
      · cases h
      · have hn0 : n ≠ [] := by simpa using hne
        have hns := rawName_no_slash u n hn
        have e1 : (if old.isEmpty = true then n ++ q e Gen.PATH_QUOTER x
              else List.take (n.length - old.length) n ++ q e Gen.PATH_QUOTER x)
            = List.take (n.length - old.length) n ++ q e Gen.PATH_QUOTER x := by
          split
          · rename_i ho0
            have : old = [] := by simpa using ho0
            simp [this]
          · rfl
        simp only [e1] at h
        split at h
        · cases h
        · have hnm : 47 ∉ List.take (n.length - old.length) n ++ q e Gen.PATH_QUOTER x := by
            intro hm
            rcases List.mem_append.1 hm with hm | hm
            · exact hns (List.mem_of_mem_take hm)
            · exact hx hm
          obtain ⟨h1, h2, h3, h4, _, _⟩ := withRawName_spec2 u _ kq kf v hnm h
          refine ⟨?_, h1, h3, h4⟩
          rw [h2]
          split
          · rename_i hc
            exact absurd (rawName_root u n hn hc.1 hc.2) hn0
          · rfl

/-- the requested form (its hypothesis `_hpath` is not needed: see `C13_with_suffix_raw_strong`) -/
theorem C13_with_suffix_raw (e : Env) (u : Url) (x : Str) (kq kf : Bool) (v : Url) (n old : Str)
    (_hpath : u.netloc ≠ [] → u.path.head? = some 47)
    (hx : 47 ∉ q e Gen.PATH_QUOTER x)
    (hn : rawName u = .ok n) (ho : rawSuffix u = .ok old) : withSuffix e u x kq kf = .ok v →
    (rawParts v).dropLast = (rawParts u).dropLast ∧
    rawName v = .ok (n.take (n.length - old.length) ++ q e Gen.PATH_QUOTER x) ∧
    v.scheme = u.scheme ∧ v.netloc = u.netloc :=
  C13_with_suffix_raw_strong e u x kq kf v n old hx hn ho

/-- a child made from one plain segment has that segment as its name and the old parts — without a
    trailing empty segment — as its parent parts.

    Changes w.r.t. the first formulation (`… if ps.getLast? = some [] ∧ 1 < ps.length then …`):
    * the side condition `1 < ps.length` is dropped: for the empty path without authority
      `raw_parts = ("",)` and the child `URL("") / "a"` is `URL("a")` with parts `("a",)`, so the
      single empty segment IS dropped (`C13_child_name_empty_path_counterexample`);
    * `hq`: the *quoted* segment must be non-empty when it is appended to the bare root of an
      authority; `s ≠ []` does not imply it, because the quoter silently drops lone surrogates
      (`C13_child_name_surrogate_counterexample`). -/
theorem C13_child_name (e : Env) (u : Url) (s : Str) (v : Url)
    (hs : 47 ∉ q e Gen.PATH_QUOTER s) (hdot : 46 ∉ q e Gen.PATH_QUOTER s) (_hne : s ≠ [])
    (hs0 : s.head? ≠ some 47)
    (hq : u.netloc ≠ [] → u.path = [] → q e Gen.PATH_QUOTER s ≠ [])
    (hpath : u.netloc ≠ [] → (u.path = [] ∨ u.path.head? = some 47)) :
    makeChild e u [s] false = .ok v → rawName v = .ok (q e Gen.PATH_QUOTER s) ∧
      (rawParts v).dropLast = (let ps := rawParts u; if ps.getLast? = some [] then ps.dropLast else ps) := by
  intro h
  rw [makeChild_one e u s hs0, splitOn_of_not_mem 47 _ hs] at h
  have hd : mem 46 (q e Gen.PATH_QUOTER s) = false := by
    rw [Yarl.ParseLemmas.mem_eq]; simpa using hdot
  rw [hd] at h
  cases h
  have hp := childOf_single u _ hs hq hpath
  refine ⟨rawName_append _ _ _ hp ?_, by rw [hp]; simp [stripTrail]⟩
  intro hn
  have hn' : u.netloc ≠ [] := by simpa [childOf, fromParts] using hn
  rcases rawParts_shape u with ⟨T, hT, _, _⟩ | ⟨hn0, _⟩
  · rw [hT]
    cases T with
    | nil => simp [stripTrail]
    | cons a b => rw [stripTrail_cons _ _ (by simp)]; simp
  · exact absurd hn0 hn'

/-- the PATH_QUOTER drops a lone surrogate, on both backends -/
theorem C13_path_quoter_surrogate (e : Env) : q e Gen.PATH_QUOTER [0xD800] = [] := by
  have : ∀ b : Backend, Gen.PATH_QUOTER.run b [0xD800] = [] := fun b => by cases b <;> decide +kernel
  exact this e.b

theorem C13_path_quoter_a (e : Env) : q e Gen.PATH_QUOTER "a".toStr = "a".toStr := by
  have : ∀ b : Backend, Gen.PATH_QUOTER.run b "a".toStr = "a".toStr := fun b => by
    cases b <;> decide +kernel
  exact this e.b

/-- `hq` of `C13_child_name` is needed: `URL("http://h") / "\ud800"` is `URL("http://h")` itself
    (the quoted segment is empty), its parts are `("/",)` and its parent parts `()` — not `("/",)`. -/
theorem C13_child_name_surrogate_counterexample (e : Env) :
    let u := fromParts "http".toStr "h".toStr [] [] []
    let s : Str := [0xD800]
    s ≠ [] ∧ s.head? ≠ some 47 ∧ q e Gen.PATH_QUOTER s = [] ∧ makeChild e u [s] false = .ok u ∧
      rawParts u = ["/".toStr] ∧ (rawParts u).dropLast = [] := by
  intro u s
  refine ⟨by decide, by decide, C13_path_quoter_surrogate e, ?_, by decide, by decide⟩
  rw [makeChild_one e u s (by decide), C13_path_quoter_surrogate e]
  exact congrArg Except.ok (by decide)

/-- the side condition `1 < ps.length` of the first formulation is wrong for the empty path without
    authority: `URL("") / "a"` is `URL("a")`, parent parts `()`, while `raw_parts` of `URL("")` is `("",)` -/
theorem C13_child_name_empty_path_counterexample (e : Env) :
    let u := fromParts [] [] [] [] []
    let v := fromParts [] [] "a".toStr [] []
    makeChild e u ["a".toStr] false = .ok v ∧ rawParts u = [[]] ∧ (rawParts v).dropLast = [] ∧
      (let ps := rawParts u; if ps.getLast? = some [] ∧ 1 < ps.length then ps.dropLast else ps) = [[]] := by
  intro u v
  refine ⟨?_, by decide, by decide, by decide⟩
  rw [makeChild_one e u _ (by decide), C13_path_quoter_a e]
  exact congrArg Except.ok (by decide)

/-- joinpath(a, b) = joinpath(a).joinpath(b) = u / 'a/b'-style composition whenever the FIRST step
    is not normalised: no authority, or no '.' in the quoted `a`.  No condition on `b`, none on
    slashes inside or at the end of `a` (the code drops the trailing empty segment of a non-last
    argument exactly so that `a = "x/"` composes), and `a` may be empty. -/
theorem C13_joinpath_assoc_nodots (e : Env) (u : Url) (a b : Str) (v1 v2 w : Url)
    (hda : u.netloc ≠ [] → 46 ∉ q e Gen.PATH_QUOTER a) :
    makeChild e u [a, b] false = .ok w → makeChild e u [a] false = .ok v1 →
    makeChild e v1 [b] false = .ok v2 → w = v2 := by
  intro hw h1 h2
  have ha0 : a.head? ≠ some 47 := makeChild_head e u a [] v1 h1
  have hb0 : b.head? ≠ some 47 := makeChild_head e v1 b [] v2 h2
  rw [makeChild_two e u a b ha0 hb0] at hw
  rw [makeChild_one e u a ha0] at h1
  cases hw; cases h1
  rw [makeChild_one e _ b hb0] at h2
  cases h2
  have hnn : (u.netloc.isEmpty || !mem 46 (q e Gen.PATH_QUOTER a)) = true := by
    by_cases hn : u.netloc = []
    · simp [hn]
    · have := hda hn
      rw [Yarl.ParseLemmas.mem_eq]
      simp [this]
  exact (childOf_assoc_left u _ _ _ _ (segs_splitOn _) (splitOn_ne_nil _ _) hnn).symm

/-- the segment list that `_make_child((a,))` builds (old segments without a trailing empty one,
    then the segments of the quoted `a`, rooted under an authority) and — when a '.' occurred under
    an authority — hands to `normalize_path_segments` -/
def childSegments (e : Env) (u : Url) (a : Str) : List Str :=
  root u.netloc (base u ++ splitOn 47 (q e Gen.PATH_QUOTER a))

private theorem noDots_splitOn_of_no_dot (p : Str) (h : 46 ∉ p) : NoDots (splitOn 47 p) := by
  intro s hs
  have hsub := splitOn_sub 47 p s hs
  constructor
  · rintro rfl; exact h (hsub 46 (by simp [dot]))
  · rintro rfl; exact h (hsub 46 (by simp [dotdot]))

/-- STRETCH: joinpath(a, b) = joinpath(a).joinpath(b) also when the first step is normalised
    (authority and a '.' in `a`), provided that normalisation keeps the root's empty segment at the
    bottom of the stack and leaves something after it — i.e. `a` does not climb above the root.
    Without `hroot` the statement is FALSE: see `C13_joinpath_assoc_root_counterexample*`. -/
theorem C13_joinpath_assoc (e : Env) (u : Url) (a b : Str) (v1 v2 w : Url)
    (hroot : u.netloc ≠ [] → 46 ∈ q e Gen.PATH_QUOTER a →
      ∃ K', K' ≠ [] ∧ normalizePathSegments (childSegments e u a) = [] :: K') :
    makeChild e u [a, b] false = .ok w → makeChild e u [a] false = .ok v1 →
    makeChild e v1 [b] false = .ok v2 → w = v2 := by
  intro hw h1 h2
  by_cases hc : u.netloc ≠ [] ∧ 46 ∈ q e Gen.PATH_QUOTER a
  · have ha0 : a.head? ≠ some 47 := makeChild_head e u a [] v1 h1
    have hb0 : b.head? ≠ some 47 := makeChild_head e v1 b [] v2 h2
    rw [makeChild_two e u a b ha0 hb0] at hw
    rw [makeChild_one e u a ha0] at h1
    cases hw; cases h1
    rw [makeChild_one e _ b hb0] at h2
    cases h2
    have hma : mem 46 (q e Gen.PATH_QUOTER a) = true := by
      rw [Yarl.ParseLemmas.mem_eq]; simpa using hc.2
    have hn : u.netloc.isEmpty = false := by simpa using hc.1
    rw [hma, Bool.or_true]
    refine (childOf_assoc_right u _ _ _ hn (segs_splitOn _) (splitOn_ne_nil _ _) (splitOn_ne_nil _ _)
      (hroot hc.1 hc.2) ?_).symm
    intro hmb
    apply noDots_splitOn_of_no_dot
    rw [Yarl.ParseLemmas.mem_eq] at hmb
    simpa using hmb
  · refine C13_joinpath_assoc_nodots e u a b v1 v2 w ?_ hw h1 h2
    intro hn hm
    exact hc ⟨hn, hm⟩

/-- a sufficient, directly checkable condition for `hroot`: no ".." segment in the old path or in `a` -/
theorem C13_joinpath_assoc_no_dotdot (e : Env) (u : Url) (a b : Str) (v1 v2 w : Url)
    (hdd : u.netloc ≠ [] → dotdot ∉ splitOn 47 u.path ∧ dotdot ∉ splitOn 47 (q e Gen.PATH_QUOTER a)) :
    makeChild e u [a, b] false = .ok w → makeChild e u [a] false = .ok v1 →
    makeChild e v1 [b] false = .ok v2 → w = v2 := by
  refine C13_joinpath_assoc e u a b v1 v2 w ?_
  intro hn hm
  have hn' : u.netloc.isEmpty = false := by simpa using hn
  have hSA0 := splitOn_ne_nil 47 (q e Gen.PATH_QUOTER a)
  have hL : base u ++ splitOn 47 (q e Gen.PATH_QUOTER a) ≠ [] := by simp [hSA0]
  have hSA1 : splitOn 47 (q e Gen.PATH_QUOTER a) ≠ [[]] := by
    intro h
    have := joinC_splitOn (q e Gen.PATH_QUOTER a)
    rw [h] at this
    rw [← this] at hm
    simp [joinC, joinSep] at hm
  have hL1 : base u ++ splitOn 47 (q e Gen.PATH_QUOTER a) ≠ [[]] := by
    intro h
    rcases List.append_eq_cons_iff.1 h with ⟨h1, h2⟩ | ⟨x, h1, h2⟩
    · exact hSA1 h2
    · exact hSA0 (List.append_eq_nil_iff.1 h2.symm).2
  obtain ⟨R, hR⟩ := root_head u.netloc _ hn' hL
  have hR0 : R ≠ [] := by
    intro h
    rw [h] at hR
    exact root_ne_single _ _ hL hL1 hR
  have hddR : dotdot ∉ R := by
    intro h
    have : dotdot ∈ root u.netloc (base u ++ splitOn 47 (q e Gen.PATH_QUOTER a)) := by
      rw [hR]; exact List.mem_cons_of_mem _ h
    rcases mem_root this with h | h
    · simp [dotdot] at h
    · rcases List.mem_append.1 h with h | h
      · exact (hdd hn).1 (mem_base h)
      · exact (hdd hn).2 h
  unfold childSegments
  rw [hR]
  exact norm_keeps_root R hR0 hddR

/-! ### the quoter side conditions discharged for Python strings (`PyStr`: code points ≤ 0x10FFFF) -/

theorem C13_path_quoter_no_slash (e : Env) (s : Str) (hs : PyStr s) (h : 47 ∉ s) :
    47 ∉ q e Gen.PATH_QUOTER s := q_path_avoid e s hs 47 (Or.inr rfl) h

theorem C13_path_quoter_no_dot (e : Env) (s : Str) (hs : PyStr s) (h : 46 ∉ s) :
    46 ∉ q e Gen.PATH_QUOTER s := q_path_avoid e s hs 46 (Or.inl rfl) h

theorem C13_path_quoter_nonempty (e : Env) (s : Str) (hs : PyStr s) (hn : NoSurrogate s) (h0 : s ≠ []) :
    q e Gen.PATH_QUOTER s ≠ [] := q_path_ne_nil e s hs hn h0

/-- `with_name` on a Python string: no side condition left -/
theorem C13_with_name_spec_py (e : Env) (u : Url) (nm : Str) (kq kf : Bool) (v : Url) (hnm : PyStr nm) :
    withName e u nm kq kf = .ok v → rawName v = .ok (q e Gen.PATH_QUOTER nm) ∧
      (rawParts v).dropLast = (if u.netloc ≠ [] ∧ (rawParts u).length = 1 then rawParts u
                               else (rawParts u).dropLast) ∧
      v.scheme = u.scheme ∧ v.netloc = u.netloc ∧ v.query = (if kq then u.query else []) ∧
      v.fragment = (if kf then u.fragment else []) := by
  intro h
  have h47 : 47 ∉ nm := by
    intro hm
    unfold withName at h
    rw [Yarl.ParseLemmas.mem_eq] at h
    simp [hm] at h
  exact C13_with_name_spec_strong e u nm kq kf v (C13_path_quoter_no_slash e nm hnm h47) h

/-- `with_suffix` on a Python string: no side condition left -/
theorem C13_with_suffix_raw_py (e : Env) (u : Url) (x : Str) (kq kf : Bool) (v : Url) (n old : Str)
    (hxs : PyStr x) (hn : rawName u = .ok n) (ho : rawSuffix u = .ok old) :
    withSuffix e u x kq kf = .ok v →
    (rawParts v).dropLast = (rawParts u).dropLast ∧
    rawName v = .ok (n.take (n.length - old.length) ++ q e Gen.PATH_QUOTER x) ∧
    v.scheme = u.scheme ∧ v.netloc = u.netloc := by
  intro h
  have h47 : 47 ∉ x := by
    intro hm
    unfold withSuffix at h
    rw [Yarl.ParseLemmas.mem_eq] at h
    simp only [hn, bind, Except.bind] at h
    split at h
    · cases h
    · split at h
      · cases h
      · simp [hm] at h
  exact C13_with_suffix_raw_strong e u x kq kf v n old (C13_path_quoter_no_slash e x hxs h47) hn ho h

/-- `u / s` for a plain Python-string segment (no '/', no '.', no lone surrogate, non-empty) -/
theorem C13_child_name_py (e : Env) (u : Url) (s : Str) (v : Url)
    (hs : PyStr s) (hsur : NoSurrogate s) (h47 : 47 ∉ s) (h46 : 46 ∉ s) (hne : s ≠ [])
    (hpath : u.netloc ≠ [] → (u.path = [] ∨ u.path.head? = some 47)) :
    makeChild e u [s] false = .ok v → rawName v = .ok (q e Gen.PATH_QUOTER s) ∧
      (rawParts v).dropLast = (let ps := rawParts u; if ps.getLast? = some [] then ps.dropLast else ps) := by
  refine C13_child_name e u s v (C13_path_quoter_no_slash e s hs h47) (C13_path_quoter_no_dot e s hs h46)
    hne ?_ (fun _ _ => C13_path_quoter_nonempty e s hs hsur hne) hpath
  intro h
  obtain ⟨c, r, rfl⟩ := List.exists_cons_of_ne_nil hne
  simp at h
  exact h47 (h ▸ List.mem_cons_self)

/-- `u / "a/b"` = `u.joinpath(a, b)` for Python strings `a`, `b` when the quoted `a` has a non-empty
    last segment (i.e. `a` is not empty and does not end with '/'; otherwise `u / "x//b"` keeps the
    empty segment that `joinpath("x/", "b")` drops) -/
theorem C13_truediv_slash (e : Env) (u : Url) (a b : Str) (w w' : Url) (ha : PyStr a) (hb : PyStr b)
    (hlast : (splitOn 47 (q e Gen.PATH_QUOTER a)).getLast? ≠ some []) :
    makeChild e u [a ++ 47 :: b] false = .ok w' → makeChild e u [a, b] false = .ok w → w' = w := by
  intro h1 h2
  have hab0 := makeChild_head e u _ [] w' h1
  have hb0 := makeChild_head e u b [a] w h2
  have ha0 : a.head? ≠ some 47 := by
    intro h
    apply hab0
    cases a with
    | nil => simp at h
    | cons c r => simpa using h
  rw [makeChild_one e u _ hab0] at h1
  rw [makeChild_two e u a b ha0 hb0] at h2
  cases h1; cases h2
  have hq : q e Gen.PATH_QUOTER (a ++ 47 :: b) = q e Gen.PATH_QUOTER a ++ 47 :: q e Gen.PATH_QUOTER b := by
    have : a ++ 47 :: b = a ++ ([47] ++ b) := rfl
    rw [this, q_path_append e _ _ ha (pyStr_append (by decide) hb),
      q_path_append e _ _ (by decide) hb, q_path_slash]
    rfl
  rw [hq, splitOn_append_sep]
  have hst : stripTrail (splitOn 47 (q e Gen.PATH_QUOTER a)) = splitOn 47 (q e Gen.PATH_QUOTER a) := by
    simp [stripTrail, hlast]
  rw [hst]
  congr 1
  simp only [Yarl.ParseLemmas.mem_eq]
  simp [Bool.or_comm]

/-! ### associativity fails when the first step climbs above the root (confirmed on yarl 1.18.4.dev0) -/

private theorem q_fix (e : Env) (s : Str) (h : ∀ b : Backend, Gen.PATH_QUOTER.run b s = s) :
    q e Gen.PATH_QUOTER s = s := h e.b

/-- `URL("http://h").joinpath("..", ".//x")` is `http://h/x`, but
    `URL("http://h").joinpath("..").joinpath(".//x")` is `http://h//x`: the ".." of the one-call form
    pops the root's empty segment, and the empty segment of ".//x" then takes its place. -/
theorem C13_joinpath_assoc_root_counterexample (e : Env) :
    let u := fromParts "http".toStr "h".toStr [] [] []
    makeChild e u ["..".toStr, ".//x".toStr] false = .ok (fromParts "http".toStr "h".toStr "/x".toStr [] []) ∧
    makeChild e u ["..".toStr] false = .ok u ∧
    makeChild e u [".//x".toStr] false = .ok (fromParts "http".toStr "h".toStr "//x".toStr [] []) ∧
    normalizePathSegments (childSegments e u "..".toStr) = [[]] := by
  intro u
  have q1 : q e Gen.PATH_QUOTER "..".toStr = "..".toStr :=
    q_fix e _ (fun b => by cases b <;> decide +kernel)
  have q2 : q e Gen.PATH_QUOTER ".//x".toStr = ".//x".toStr :=
    q_fix e _ (fun b => by cases b <;> decide +kernel)
  refine ⟨?_, ?_, ?_, ?_⟩
  · rw [makeChild_two e u _ _ (by decide) (by decide), q1, q2]
    exact congrArg Except.ok (by decide)
  · rw [makeChild_one e u _ (by decide), q1]
    exact congrArg Except.ok (by decide)
  · rw [makeChild_one e u _ (by decide), q2]
    exact congrArg Except.ok (by decide)
  · unfold childSegments
    rw [q1]
    decide

/-- same corner, milder symptom: `URL("http://h").joinpath("..", ".")` is `http://h` (empty path),
    `URL("http://h").joinpath("..").joinpath(".")` is `http://h/` -/
theorem C13_joinpath_assoc_root_counterexample2 (e : Env) :
    let u := fromParts "http".toStr "h".toStr [] [] []
    makeChild e u ["..".toStr, ".".toStr] false = .ok u ∧
    makeChild e u ["..".toStr] false = .ok u ∧
    makeChild e u [".".toStr] false = .ok (fromParts "http".toStr "h".toStr "/".toStr [] []) := by
  intro u
  have q1 : q e Gen.PATH_QUOTER "..".toStr = "..".toStr :=
    q_fix e _ (fun b => by cases b <;> decide +kernel)
  have q2 : q e Gen.PATH_QUOTER ".".toStr = ".".toStr :=
    q_fix e _ (fun b => by cases b <;> decide +kernel)
  refine ⟨?_, ?_, ?_⟩
  · rw [makeChild_two e u _ _ (by decide) (by decide), q1, q2]
    exact congrArg Except.ok (by decide)
  · rw [makeChild_one e u _ (by decide), q1]
    exact congrArg Except.ok (by decide)
  · rw [makeChild_one e u _ (by decide), q2]
    exact congrArg Except.ok (by decide)

/-! ### non-vacuity -/

private def okEq {α : Type} [DecidableEq α] (r : R α) (a : α) : Bool :=
  match r with
  | .ok x => decide (x = a)
  | .error _ => false
private theorem okEq_sound {α : Type} [DecidableEq α] {r : R α} {a : α} (h : okEq r a = true) : r = .ok a := by
  unfold okEq at h
  split at h
  · simp at h; rw [h]
  · cases h

private def o0 : Oracles :=
  { nfkc := fun _ => none, idnaEnc := fun _ => none, idnaEncStd := fun _ => none, idnaDec := fun _ => none,
    idnaDecStd := fun _ => none, isDigitU := fun _ => none, intU := fun _ => none,
    isPrintableU := fun _ => none, lowerU := fun _ => none }
private def ex1 : Url := fromParts "http".toStr "h".toStr "/a/b.tar.gz".toStr "k=v".toStr "f".toStr
private def ex2 : Url := fromParts [] [] "p/q/".toStr [] []

example : (ex1.netloc ≠ [] → (ex1.path = [] ∨ ex1.path.head? = some 47)) ∧
    rawParts ex1 = ["/".toStr, "a".toStr, "b.tar.gz".toStr] ∧ rawPath ex1 = "/a/b.tar.gz".toStr ∧
    recompose (rawParts ex1) = rawPath ex1 := by decide
example : rawName ex1 = .ok "b.tar.gz".toStr ∧ rawSuffix ex1 = .ok ".gz".toStr ∧
    rawSuffixes ex1 = .ok [".tar".toStr, ".gz".toStr] :=
  ⟨okEq_sound (by decide), okEq_sound (by decide), okEq_sound (by decide)⟩
example : rawParts ex2 = ["p".toStr, "q".toStr, []] ∧ recompose (rawParts ex2) = rawPath ex2 := by decide

example : ∀ b : Backend, withSuffix ⟨b, o0⟩ ex1 ".txt".toStr false false
    = .ok (fromParts "http".toStr "h".toStr "/a/b.tar.txt".toStr [] []) := by
  intro b; cases b <;> exact okEq_sound (by decide +kernel)
example : ∀ b : Backend, withName ⟨b, o0⟩ ex1 "c d".toStr true false
    = .ok (fromParts "http".toStr "h".toStr "/a/c%20d".toStr "k=v".toStr []) := by
  intro b; cases b <;> exact okEq_sound (by decide +kernel)
example : ∀ b : Backend, 47 ∉ q ⟨b, o0⟩ Gen.PATH_QUOTER "c d".toStr := by
  intro b; cases b <;> decide +kernel
example : ∀ b : Backend, makeChild ⟨b, o0⟩ ex2 ["r s".toStr] false
    = .ok (fromParts [] [] "p/q/r%20s".toStr [] []) := by
  intro b; cases b <;> exact okEq_sound (by decide +kernel)
example : rawParts (fromParts [] [] "p/q/r%20s".toStr [] []) = ["p".toStr, "q".toStr, "r%20s".toStr] := by decide
/-- associativity with normalisation: `http://h/p/q` joined with `"../r/."` then `"./s/.."` -/
example : ∀ b : Backend,
    let u := fromParts "http".toStr "h".toStr "/p/q".toStr [] []
    let e : Env := ⟨b, o0⟩
    makeChild e u ["../r/.".toStr, "./s/..".toStr] false = .ok (fromParts "http".toStr "h".toStr "/p/r/".toStr [] []) ∧
    makeChild e u ["../r/.".toStr] false = .ok (fromParts "http".toStr "h".toStr "/p/r/".toStr [] []) ∧
    makeChild e (fromParts "http".toStr "h".toStr "/p/r/".toStr [] []) ["./s/..".toStr] false
      = .ok (fromParts "http".toStr "h".toStr "/p/r/".toStr [] []) ∧
    normalizePathSegments (childSegments e u "../r/.".toStr) = [[], "p".toStr, "r".toStr, []] := by
  intro b; cases b <;>
    exact ⟨okEq_sound (by decide +kernel), okEq_sound (by decide +kernel), okEq_sound (by decide +kernel),
      by decide +kernel⟩
example : ∀ b : Backend, PyStr "x y".toStr ∧ NoSurrogate "x y".toStr ∧
    (splitOn 47 (q ⟨b, o0⟩ Gen.PATH_QUOTER "x y".toStr)).getLast? ≠ some [] ∧
    46 ∉ q ⟨b, o0⟩ Gen.PATH_QUOTER "x y".toStr := by
  intro b; cases b <;> decide +kernel

end Yarl
