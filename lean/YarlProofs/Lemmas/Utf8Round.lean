/-
  Utf8Round.lean — the strict stateful decoder inverts the encoder:
  `decodeBuf (utf8 c) = .char c`, and every proper non-empty prefix of `utf8 c`
  is `.incomplete`.
-/
import YarlProofs.Defs
namespace Yarl
namespace Readback

/-! ### the four length classes of `utf8` -/

theorem utf8_1 (c : Nat) (h : c < 0x80) : utf8 c = [c] := by
  simp [utf8, h]

theorem utf8_2 (c : Nat) (h1 : 0x80 ≤ c) (h2 : c < 0x800) :
    utf8 c = [0xC0 + c / 64, 0x80 + c % 64] := by
  have : ¬ c < 0x80 := by omega
  simp [utf8, this, h2]

theorem utf8_3 (c : Nat) (h1 : 0x800 ≤ c) (h2 : c < 0x10000) (hs : isSurrogate c = false) :
    utf8 c = [0xE0 + c / 4096, 0x80 + (c / 64) % 64, 0x80 + c % 64] := by
  have a : ¬ c < 0x80 := by omega
  have b : ¬ c < 0x800 := by omega
  simp [utf8, a, b, hs, h2]

theorem utf8_4 (c : Nat) (h1 : 0x10000 ≤ c) (h2 : c ≤ 0x10FFFF) :
    utf8 c = [0xF0 + c / 262144, 0x80 + (c / 4096) % 64, 0x80 + (c / 64) % 64, 0x80 + c % 64] := by
  have a : ¬ c < 0x80 := by omega
  have b : ¬ c < 0x800 := by omega
  have d : ¬ c < 0x10000 := by omega
  have hs : isSurrogate c = false := by
    simp only [isSurrogate, Bool.and_eq_false_iff, decide_eq_false_iff_not]; omega
  simp [utf8, a, b, d, hs, h2]

theorem isCont_80 (x : Nat) (h : x < 64) : isCont (0x80 + x) = true := by
  simp only [isCont, Bool.and_eq_true, decide_eq_true_eq]; omega

/-! ### full round trip, per class -/

theorem dec_1 (c : Nat) (h : c < 0x80) : decodeBuf [c] = .char c := by
  simp [decodeBuf, h]

theorem dec_2 (c : Nat) (h1 : 0x80 ≤ c) (h2 : c < 0x800) :
    decodeBuf [0xC0 + c / 64, 0x80 + c % 64] = .char c := by
  have k1 : ¬ (0xC0 + c / 64 < 0xC2) := by omega
  have k2 : 0xC0 + c / 64 < 0xE0 := by omega
  have k3 : isCont (0x80 + c % 64) = true := isCont_80 _ (by omega)
  have k4 : (0xC0 + c / 64 - 0xC0) * 64 + (0x80 + c % 64 - 0x80) = c := by omega
  simp only [decodeBuf, k1, k2, k3, k4, if_true, if_false]

theorem dec_3 (c : Nat) (h1 : 0x800 ≤ c) (h2 : c < 0x10000) (hs : isSurrogate c = false) :
    decodeBuf [0xE0 + c / 4096, 0x80 + (c / 64) % 64, 0x80 + c % 64] = .char c := by
  have hs' : c < 0xD800 ∨ 0xDFFF < c := by
    simp only [isSurrogate, Bool.and_eq_false_iff, decide_eq_false_iff_not] at hs; omega
  have k1 : ¬ (0xE0 + c / 4096 < 0xE0) := by omega
  have k2 : 0xE0 + c / 4096 < 0xF0 := by omega
  have k3 : isCont (0x80 + (c / 64) % 64) = true := isCont_80 _ (by omega)
  have k4 : isCont (0x80 + c % 64) = true := isCont_80 _ (by omega)
  have k5 : ¬ (0xE0 + c / 4096 = 0xE0 ∧ 0x80 + (c / 64) % 64 < 0xA0) := by omega
  have k6 : ¬ (0xE0 + c / 4096 = 0xED ∧ 0xA0 ≤ 0x80 + (c / 64) % 64) := by omega
  have k7 : (0xE0 + c / 4096 - 0xE0) * 4096 + (0x80 + (c / 64) % 64 - 0x80) * 64
      + (0x80 + c % 64 - 0x80) = c := by omega
  simp only [decodeBuf, k1, k2, k3, k4, k7, if_true, if_false, Bool.not_true, Bool.or_self,
    Bool.false_eq_true, Bool.and_eq_true, decide_eq_true_eq, k5, k6]

theorem dec_4 (c : Nat) (h1 : 0x10000 ≤ c) (h2 : c ≤ 0x10FFFF) :
    decodeBuf [0xF0 + c / 262144, 0x80 + (c / 4096) % 64, 0x80 + (c / 64) % 64, 0x80 + c % 64]
      = .char c := by
  have k1 : ¬ (0xF0 + c / 262144 < 0xF0) := by omega
  have k2 : ¬ (0xF5 ≤ 0xF0 + c / 262144) := by omega
  have k3 : isCont (0x80 + (c / 4096) % 64) = true := isCont_80 _ (by omega)
  have k4 : isCont (0x80 + (c / 64) % 64) = true := isCont_80 _ (by omega)
  have k4' : isCont (0x80 + c % 64) = true := isCont_80 _ (by omega)
  have k5 : ¬ (0xF0 + c / 262144 = 0xF0 ∧ 0x80 + (c / 4096) % 64 < 0x90) := by omega
  have k6 : ¬ (0xF0 + c / 262144 = 0xF4 ∧ 0x90 ≤ 0x80 + (c / 4096) % 64) := by omega
  have k7 : (0xF0 + c / 262144 - 0xF0) * 262144 + (0x80 + (c / 4096) % 64 - 0x80) * 4096
      + (0x80 + (c / 64) % 64 - 0x80) * 64 + (0x80 + c % 64 - 0x80) = c := by omega
  simp only [decodeBuf, k1, k2, k3, k4, k4', k7, if_false, Bool.not_true, Bool.or_self,
    Bool.false_eq_true, Bool.and_eq_true, decide_eq_true_eq, k5, k6]

/-! ### proper prefixes are incomplete -/

theorem pre_2_1 (c : Nat) (h1 : 0x80 ≤ c) (h2 : c < 0x800) :
    decodeBuf [0xC0 + c / 64] = .incomplete := by
  have k0 : ¬ (0xC0 + c / 64 < 0x80) := by omega
  have k1 : ¬ (0xC0 + c / 64 < 0xC2) := by omega
  have k2 : 0xC0 + c / 64 < 0xF5 := by omega
  simp only [decodeBuf, k0, k1, k2, if_true, if_false]

theorem pre_3_1 (c : Nat) (h1 : 0x800 ≤ c) (h2 : c < 0x10000) :
    decodeBuf [0xE0 + c / 4096] = .incomplete := by
  have k0 : ¬ (0xE0 + c / 4096 < 0x80) := by omega
  have k1 : ¬ (0xE0 + c / 4096 < 0xC2) := by omega
  have k2 : 0xE0 + c / 4096 < 0xF5 := by omega
  simp only [decodeBuf, k0, k1, k2, if_true, if_false]

theorem pre_3_2 (c : Nat) (h1 : 0x800 ≤ c) (h2 : c < 0x10000) :
    decodeBuf [0xE0 + c / 4096, 0x80 + (c / 64) % 64] = .incomplete := by
  have k0 : ¬ (0xE0 + c / 4096 < 0xC2) := by omega
  have k1 : ¬ (0xE0 + c / 4096 < 0xE0) := by omega
  have k2 : 0xE0 + c / 4096 < 0xF0 := by omega
  have k3 : isCont (0x80 + (c / 64) % 64) = true := isCont_80 _ (by omega)
  have k5 : ¬ (0xE0 + c / 4096 = 0xE0 ∧ 0x80 + (c / 64) % 64 < 0xA0) := by omega
  simp only [decodeBuf, k0, k1, k2, k3, if_true, if_false, Bool.not_true,
    Bool.false_eq_true, Bool.and_eq_true, decide_eq_true_eq, k5]

theorem pre_4_1 (c : Nat) (h1 : 0x10000 ≤ c) (h2 : c ≤ 0x10FFFF) :
    decodeBuf [0xF0 + c / 262144] = .incomplete := by
  have k0 : ¬ (0xF0 + c / 262144 < 0x80) := by omega
  have k1 : ¬ (0xF0 + c / 262144 < 0xC2) := by omega
  have k2 : 0xF0 + c / 262144 < 0xF5 := by omega
  simp only [decodeBuf, k0, k1, k2, if_true, if_false]

theorem pre_4_2 (c : Nat) (h1 : 0x10000 ≤ c) (h2 : c ≤ 0x10FFFF) :
    decodeBuf [0xF0 + c / 262144, 0x80 + (c / 4096) % 64] = .incomplete := by
  have k0 : ¬ (0xF0 + c / 262144 < 0xC2) := by omega
  have k1 : ¬ (0xF0 + c / 262144 < 0xE0) := by omega
  have k1' : ¬ (0xF0 + c / 262144 < 0xF0) := by omega
  have k2 : 0xF0 + c / 262144 < 0xF5 := by omega
  have k3 : isCont (0x80 + (c / 4096) % 64) = true := isCont_80 _ (by omega)
  have k5 : ¬ (0xF0 + c / 262144 = 0xF0 ∧ 0x80 + (c / 4096) % 64 < 0x90) := by omega
  have k6 : ¬ (0xF0 + c / 262144 = 0xF4 ∧ 0x90 ≤ 0x80 + (c / 4096) % 64) := by omega
  simp only [decodeBuf, k0, k1, k1', k2, k3, if_true, if_false, Bool.not_true,
    Bool.false_eq_true, Bool.and_eq_true, decide_eq_true_eq, k5, k6]

theorem pre_4_3 (c : Nat) (h1 : 0x10000 ≤ c) (h2 : c ≤ 0x10FFFF) :
    decodeBuf [0xF0 + c / 262144, 0x80 + (c / 4096) % 64, 0x80 + (c / 64) % 64] = .incomplete := by
  have k1 : ¬ (0xF0 + c / 262144 < 0xE0) := by omega
  have k1' : ¬ (0xF0 + c / 262144 < 0xF0) := by omega
  have k2 : 0xF0 + c / 262144 < 0xF5 := by omega
  have k3 : isCont (0x80 + (c / 4096) % 64) = true := isCont_80 _ (by omega)
  have k4 : isCont (0x80 + (c / 64) % 64) = true := isCont_80 _ (by omega)
  have k5 : ¬ (0xF0 + c / 262144 = 0xF0 ∧ 0x80 + (c / 4096) % 64 < 0x90) := by omega
  have k6 : ¬ (0xF0 + c / 262144 = 0xF4 ∧ 0x90 ≤ 0x80 + (c / 4096) % 64) := by omega
  simp only [decodeBuf, k1, k1', k2, k3, k4, if_true, if_false, Bool.not_true, Bool.or_self,
    Bool.false_eq_true, Bool.and_eq_true, decide_eq_true_eq, k5, k6]

end Readback

open Readback

/-- the decoder inverts the encoder -/
theorem decodeBuf_utf8 (c : Nat) (hc : c ≤ 0x10FFFF) (hs : isSurrogate c = false) :
    decodeBuf (utf8 c) = .char c := by
  by_cases h1 : c < 0x80
  · rw [utf8_1 c h1]; exact dec_1 c h1
  by_cases h2 : c < 0x800
  · rw [utf8_2 c (by omega) h2]; exact dec_2 c (by omega) h2
  by_cases h3 : c < 0x10000
  · rw [utf8_3 c (by omega) h3 hs]; exact dec_3 c (by omega) h3 hs
  · rw [utf8_4 c (by omega) hc]; exact dec_4 c (by omega) hc

/-- every proper non-empty prefix of an encoding keeps the decoder pending -/
theorem decodeBuf_utf8_prefix (c : Nat) (hc : c ≤ 0x10FFFF) (hs : isSurrogate c = false)
    (k : Nat) (hk : 0 < k) (hk2 : k < (utf8 c).length) :
    decodeBuf ((utf8 c).take k) = .incomplete := by
  by_cases h1 : c < 0x80
  · rw [utf8_1 c h1] at hk2; simp at hk2; omega
  by_cases h2 : c < 0x800
  · rw [utf8_2 c (by omega) h2] at hk2 ⊢
    simp only [List.length_cons, List.length_nil] at hk2
    have : k = 1 := by omega
    subst this
    exact pre_2_1 c (by omega) h2
  by_cases h3 : c < 0x10000
  · rw [utf8_3 c (by omega) h3 hs] at hk2 ⊢
    simp only [List.length_cons, List.length_nil] at hk2
    have : k = 1 ∨ k = 2 := by omega
    rcases this with rfl | rfl
    · exact pre_3_1 c (by omega) h3
    · exact pre_3_2 c (by omega) h3
  · rw [utf8_4 c (by omega) hc] at hk2 ⊢
    simp only [List.length_cons, List.length_nil] at hk2
    have : k = 1 ∨ k = 2 ∨ k = 3 := by omega
    rcases this with rfl | rfl | rfl
    · exact pre_4_1 c (by omega) hc
    · exact pre_4_2 c (by omega) hc
    · exact pre_4_3 c (by omega) hc

theorem utf8_byte_lt (c : Nat) (hc : c ≤ 0x10FFFF) : ∀ b ∈ utf8 c, b < 256 := by
  intro b hb
  by_cases h1 : c < 0x80
  · rw [utf8_1 c h1] at hb; simp at hb; omega
  by_cases h2 : c < 0x800
  · rw [utf8_2 c (by omega) h2] at hb; simp at hb; omega
  by_cases hs : isSurrogate c = true
  · have a : ¬ c < 0x80 := h1
    simp [utf8, a, h2, hs] at hb
  by_cases h3 : c < 0x10000
  · rw [utf8_3 c (by omega) h3 (by simpa using hs)] at hb; simp at hb; omega
  · rw [utf8_4 c (by omega) hc] at hb; simp at hb; omega

theorem utf8_length_pos (c : Nat) (hc : c ≤ 0x10FFFF) (hs : isSurrogate c = false) :
    0 < (utf8 c).length := by
  by_cases h1 : c < 0x80
  · rw [utf8_1 c h1]; simp
  by_cases h2 : c < 0x800
  · rw [utf8_2 c (by omega) h2]; simp
  by_cases h3 : c < 0x10000
  · rw [utf8_3 c (by omega) h3 hs]; simp
  · rw [utf8_4 c (by omega) hc]; simp

end Yarl
