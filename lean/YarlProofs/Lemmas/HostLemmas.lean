/-
  HostLemmas.lean — helper lemmas for C16 (host canonical form):
  generic split/join inverses, lower-casing facts, `notRegName`, decimal and
  hexadecimal rendering/parsing, the structure of `parseIPv6`.
-/
import YarlModel
import YarlProofs.Lemmas.PathLemmas
import YarlProofs.Lemmas.ParseLemmas
namespace Yarl.HostLemmas
open Yarl
open Yarl.PathLemmas (splitOn_ne_nil splitOn_cons_ne splitOn_no_sep splitOn_sub)
open Yarl.ParseLemmas (mem_eq partition_eq)

/-! ### generic split / join -/

/-- `c ++ s₁ ++ c ++ s₂ ++ …` : every segment preceded by the separator. -/
def flatC (c : Nat) : List Str → Str
  | [] => []
  | s :: r => c :: s ++ flatC c r

@[simp] theorem flatC_nil (c : Nat) : flatC c [] = [] := rfl
@[simp] theorem flatC_cons (c : Nat) (s : Str) (r : List Str) : flatC c (s :: r) = c :: (s ++ flatC c r) := rfl

theorem flatC_append (c : Nat) (a b : List Str) : flatC c (a ++ b) = flatC c a ++ flatC c b := by
  induction a with
  | nil => rfl
  | cons s r ih => simp [ih]

theorem joinC_cons (c : Nat) (s : Str) (rest : List Str) : joinC c (s :: rest) = s ++ flatC c rest := by
  induction rest generalizing s with
  | nil => simp [joinC, joinSep]
  | cons s' r ih =>
    have := ih s'
    simp only [joinC] at this ⊢
    simp [joinSep, this]

@[simp] theorem joinC_nil (c : Nat) : joinC c [] = [] := rfl

theorem flatC_eq_joinC (c : Nat) (l : List Str) (h : l ≠ []) : flatC c l = c :: joinC c l := by
  cases l with
  | nil => exact absurd rfl h
  | cons s r => simp [joinC_cons]

theorem splitOn_append_flatC (c : Nat) (s : Str) (rest : List Str)
    (hs : c ∉ s) (hr : ∀ p ∈ rest, c ∉ p) :
    splitOn c (s ++ flatC c rest) = s :: rest := by
  induction rest generalizing s with
  | nil =>
    induction s with
    | nil => simp [splitOn]
    | cons x xs ih =>
      have hx : x ≠ c := fun h => hs (h ▸ List.mem_cons_self)
      have hxs : c ∉ xs := fun h => hs (List.mem_cons_of_mem _ h)
      have := ih hxs
      simp only [flatC_nil, List.append_nil] at this ⊢
      simp [splitOn, hx, this]
  | cons r rs ih =>
    induction s with
    | nil =>
      have := ih r (hr r List.mem_cons_self) (fun p hp => hr p (List.mem_cons_of_mem _ hp))
      simp [splitOn, this]
    | cons x xs ih2 =>
      have hx : x ≠ c := fun h => hs (h ▸ List.mem_cons_self)
      have hxs : c ∉ xs := fun h => hs (List.mem_cons_of_mem _ h)
      have := ih2 hxs
      simp only [List.cons_append]
      exact splitOn_cons_ne c x _ hx this

theorem splitOn_joinC (c : Nat) (segs : List Str) (hne : segs ≠ []) (h : ∀ p ∈ segs, c ∉ p) :
    splitOn c (joinC c segs) = segs := by
  cases segs with
  | nil => exact absurd rfl hne
  | cons s r =>
    rw [joinC_cons]
    exact splitOn_append_flatC c s r (h s List.mem_cons_self) (fun p hp => h p (List.mem_cons_of_mem _ hp))

theorem joinC_splitOn (c : Nat) (s : Str) : joinC c (splitOn c s) = s := by
  induction s with
  | nil => simp [splitOn, joinC, joinSep]
  | cons x xs ih =>
    by_cases h : x = c
    · subst h
      simp only [splitOn, ↓reduceIte]
      rw [joinC_cons, flatC_eq_joinC _ _ (splitOn_ne_nil x xs), ih]
      rfl
    · obtain ⟨q, qs, e⟩ := List.exists_cons_of_ne_nil (splitOn_ne_nil c xs)
      rw [splitOn_cons_ne c x xs h e, joinC_cons]
      rw [e, joinC_cons] at ih
      simp [ih]

theorem splitOn_of_not_mem (c : Nat) (s : Str) (h : c ∉ s) : splitOn c s = [s] := by
  have := splitOn_append_flatC c s [] h (by simp)
  simpa using this

theorem mem_flatC {c x : Nat} {l : List Str} (h : x ∈ flatC c l) : x = c ∨ ∃ p ∈ l, x ∈ p := by
  induction l with
  | nil => simp at h
  | cons s r ih =>
    simp only [flatC_cons, List.mem_cons, List.mem_append] at h
    rcases h with h | h | h
    · exact Or.inl h
    · exact Or.inr ⟨s, List.mem_cons_self, h⟩
    · rcases ih h with h | ⟨p, hp, hx⟩
      · exact Or.inl h
      · exact Or.inr ⟨p, List.mem_cons_of_mem _ hp, hx⟩

theorem mem_joinC {c x : Nat} {l : List Str} (h : x ∈ joinC c l) : x = c ∨ ∃ p ∈ l, x ∈ p := by
  cases l with
  | nil => simp at h
  | cons s r =>
    rw [joinC_cons, List.mem_append] at h
    rcases h with h | h
    · exact Or.inr ⟨s, List.mem_cons_self, h⟩
    · rcases mem_flatC h with h | ⟨p, hp, hx⟩
      · exact Or.inl h
      · exact Or.inr ⟨p, List.mem_cons_of_mem _ hp, hx⟩

/-! ### lower-casing -/

theorem lowerC_eq_iff (c k : Nat) (hk : ¬ (65 ≤ k ∧ k ≤ 122)) : lowerC c = k ↔ c = k := by
  unfold lowerC; split <;> omega

theorem lowerC_idem (c : Nat) : lowerC (lowerC c) = lowerC c := by
  unfold lowerC; split <;> simp <;> omega

theorem lower_idem (s : Str) : lower (lower s) = lower s := by
  simp [lower, lowerC_idem]

theorem lowerC_lt {c : Nat} (h : c < 128) : lowerC c < 128 ∧ ¬ (65 ≤ lowerC c ∧ lowerC c ≤ 90) := by
  unfold lowerC; split <;> omega

theorem isAscii_lower {s : Str} (h : isAscii s = true) : isAscii (lower s) = true := by
  simp only [isAscii, lower, List.all_eq_true, List.mem_map, decide_eq_true_eq] at *
  rintro x ⟨c, hc, rfl⟩
  exact (lowerC_lt (h c hc)).1

theorem splitOn_lower (k : Nat) (hk : ¬ (65 ≤ k ∧ k ≤ 122)) (s : Str) :
    splitOn k (lower s) = (splitOn k s).map lower := by
  induction s with
  | nil => simp [splitOn, lower]
  | cons x xs ih =>
    by_cases h : x = k
    · subst h
      have : lowerC x = x := by unfold lowerC; split <;> omega
      simp only [lower, List.map_cons, this, splitOn, ↓reduceIte] at ih ⊢
      simp [ih]
    · obtain ⟨q, qs, e⟩ := List.exists_cons_of_ne_nil (splitOn_ne_nil k xs)
      have h' : lowerC x ≠ k := fun e => h ((lowerC_eq_iff x k hk).1 e)
      rw [splitOn_cons_ne k x xs h e]
      rw [e] at ih
      simp only [lower, List.map_cons] at ih ⊢
      exact splitOn_cons_ne k _ _ h' ih

theorem mem_lower (k : Nat) (hk : ¬ (65 ≤ k ∧ k ≤ 122)) (s : Str) : k ∈ lower s ↔ k ∈ s := by
  simp only [lower, List.mem_map]
  constructor
  · rintro ⟨c, hc, e⟩
    rw [(lowerC_eq_iff c k hk).1 e] at hc; exact hc
  · intro h; exact ⟨k, h, (lowerC_eq_iff k k hk).2 rfl⟩

theorem partition_fst_lower (k : Nat) (hk : ¬ (65 ≤ k ∧ k ≤ 122)) (s : Str) :
    (partition k (lower s)).1 = lower (partition k s).1 := by
  induction s with
  | nil => simp [lower, partition]
  | cons x xs ih =>
    simp only [lower, List.map_cons] at ih ⊢
    by_cases h : x = k
    · subst h
      have : lowerC x = x := (lowerC_eq_iff x x hk).2 rfl
      simp [partition, this]
    · have h' : lowerC x ≠ k := fun e => h ((lowerC_eq_iff x k hk).1 e)
      simp [partition, h, h', ih]

/-! ### lower-casing does not change what the IP parsers see -/

theorem isDigitC_lowerC (c : Nat) : isDigitC (lowerC c) = isDigitC c := by
  unfold lowerC isDigitC; split
  · rw [Bool.eq_iff_iff]; simp; omega
  · rfl

theorem lowerC_of_digit {c : Nat} (h : isDigitC c = true) : lowerC c = c := by
  unfold isDigitC at h; unfold lowerC; simp at h; split <;> omega

theorem lower_of_all_digit {p : Str} (h : p.all isDigitC = true) : lower p = p := by
  induction p with
  | nil => rfl
  | cons x xs ih =>
    simp only [List.all_cons, Bool.and_eq_true] at h
    simp only [lower, List.map_cons] at ih ⊢
    rw [lowerC_of_digit h.1, ih h.2]

theorem all_digit_lower (p : Str) : (lower p).all isDigitC = p.all isDigitC := by
  simp [lower, List.all_map, Function.comp_def, isDigitC_lowerC]

theorem parseOctet_lower (p : Str) : parseOctet (lower p) = parseOctet p := by
  cases h : p.all isDigitC with
  | true => rw [lower_of_all_digit h]
  | false =>
    have h2 := all_digit_lower p
    rw [h] at h2
    cases p with
    | nil => rfl
    | cons x xs =>
      unfold parseOctet
      simp only [h, h2]
      simp [lower]

theorem mapM_parseOctet_lower (l : List Str) : (l.map lower).mapM parseOctet = l.mapM parseOctet := by
  induction l with
  | nil => rfl
  | cons x xs ih => simp [List.mapM_cons, parseOctet_lower, ih]

theorem mem_lower_b (k : Nat) (hk : ¬ (65 ≤ k ∧ k ≤ 122)) (s : Str) : mem k (lower s) = mem k s := by
  rw [mem_eq, mem_eq]; simp [mem_lower k hk]

theorem isEmpty_lower (s : Str) : (lower s).isEmpty = s.isEmpty := by
  cases s <;> rfl

theorem parseIPv4_lower (s : Str) : parseIPv4 (lower s) = parseIPv4 s := by
  unfold parseIPv4
  simp only [mem_lower_b 47 (by omega), isEmpty_lower, splitOn_lower 46 (by omega), List.length_map,
    mapM_parseOctet_lower]

/-! ### hexadecimal rendering as a function on code points -/

def hexDigitN (k : Nat) : Nat := if k < 10 then 48 + k else 87 + k

def hexAuxN : Nat → Nat → Str → Str
  | 0, _, acc => acc
  | fuel + 1, n, acc => if n < 16 then hexDigitN n :: acc else hexAuxN fuel (n / 16) (hexDigitN (n % 16) :: acc)

theorem hexDigitC_toNat : ∀ k, k < 16 → (Wire.hexDigitC k).toNat = hexDigitN k := by decide

theorem toHexAux_map (fuel n : Nat) (acc : List Char) :
    (Wire.toHexAux fuel n acc).map Char.toNat = hexAuxN fuel n (acc.map Char.toNat) := by
  induction fuel generalizing n acc with
  | zero => rfl
  | succ f ih =>
    simp only [Wire.toHexAux, hexAuxN]
    split
    · rename_i h; simp [hexDigitC_toNat n h]
    · rw [ih]; simp [hexDigitC_toNat (n % 16) (by omega)]

theorem hexLower_eq (n : Nat) : hexLower n = hexAuxN 16 n [] := by
  simp [hexLower, Wire.toHexStr, String.toStr, toHexAux_map]

def isLowerHexC (c : Nat) : Prop := isDigitC c = true ∨ (97 ≤ c ∧ c ≤ 102)

theorem hexDigitN_lower {k : Nat} (h : k < 16) : isLowerHexC (hexDigitN k) := by
  unfold hexDigitN isLowerHexC isDigitC; split
  · left; simp; omega
  · right; omega

theorem hexAuxN_lower (fuel n : Nat) (acc : Str) (h : ∀ c ∈ acc, isLowerHexC c) :
    ∀ c ∈ hexAuxN fuel n acc, isLowerHexC c := by
  induction fuel generalizing n acc with
  | zero => exact h
  | succ f ih =>
    simp only [hexAuxN]
    split
    · rename_i hn
      intro c hc
      rcases List.mem_cons.1 hc with rfl | hc
      · exact hexDigitN_lower hn
      · exact h c hc
    · apply ih
      intro c hc
      rcases List.mem_cons.1 hc with rfl | hc
      · exact hexDigitN_lower (by omega)
      · exact h c hc

theorem hexLower_lower (n : Nat) : ∀ c ∈ hexLower n, isLowerHexC c := by
  rw [hexLower_eq]; exact hexAuxN_lower 16 n [] (by simp)

theorem lowerC_of_lowerHex {c : Nat} (h : isLowerHexC c) : lowerC c = c := by
  unfold isLowerHexC isDigitC at h; unfold lowerC; simp at h; split <;> omega

theorem lower_of_all {p : Str} (h : ∀ c ∈ p, lowerC c = c) : lower p = p := by
  induction p with
  | nil => rfl
  | cons x xs ih =>
    simp only [lower, List.map_cons] at ih ⊢
    rw [h x List.mem_cons_self, ih (fun c hc => h c (List.mem_cons_of_mem _ hc))]

theorem lower_hexLower (n : Nat) : lower (hexLower n) = hexLower n :=
  lower_of_all (fun c hc => lowerC_of_lowerHex (hexLower_lower n c hc))

/-! ### the structure of `parseIPv6` -/

/-- replace a dotted-quad last part by two hextets -/
def v6expand (parts0 : List Str) : Option (List Str) :=
  match parts0.getLast? with
  | some l =>
    if mem 46 l then
      match parseIPv4 l with
      | some [a, b, c, d] => some (parts0.dropLast ++ [hexLower (a * 256 + b), hexLower (c * 256 + d)])
      | _ => none
    else some parts0
  | none => none

/-- the part of `_ip_int_from_string` after the IPv4 suffix has been expanded -/
def v6core (parts : List Str) : Option (List Nat) :=
  if parts.length > 9 then none
  else
    match findSkip parts with
    | none => none
    | some (some skip) =>
      let hi0 := skip
      let lo0 := parts.length - skip - 1
      let firstEmpty := (parts.headD [1]).isEmpty
      let lastEmpty := (parts.getLastD [1]).isEmpty
      let hi := if firstEmpty then hi0 - 1 else hi0
      let lo := if lastEmpty then lo0 - 1 else lo0
      if firstEmpty ∧ hi ≠ 0 then none
      else if lastEmpty ∧ lo ≠ 0 then none
      else if 8 < hi + lo + 1 then none
      else
        let his := (parts.take hi).mapM parseHextet
        let los := ((parts.drop (parts.length - lo))).mapM parseHextet
        match his, los with
        | some h, some l => some (h ++ List.replicate (8 - (hi + lo)) 0 ++ l)
        | _, _ => none
    | some none =>
      if parts.length ≠ 8 then none
      else if (parts.headD [1]).isEmpty then none
      else if (parts.getLastD [1]).isEmpty then none
      else parts.mapM parseHextet

theorem parseIPv6_eq (s : Str) :
    parseIPv6 s =
      if mem 47 s then none
      else if s.isEmpty then none
      else if (splitOn 58 s).length < 3 then none
      else match v6expand (splitOn 58 s) with
        | none => none
        | some parts => v6core parts := by
  rfl

/-! ### `parseIPv6` is case-insensitive -/

theorem isHexC_lowerC (c : Nat) : isHexC (lowerC c) = isHexC c := by
  unfold lowerC isHexC isDigitC; split
  · rw [Bool.eq_iff_iff]; simp; omega
  · rfl

theorem hexVal_lowerC {c : Nat} (h : isHexC c = true) : hexVal (lowerC c) = hexVal c := by
  unfold isHexC isDigitC at h
  unfold lowerC hexVal isDigitC
  simp at h ⊢
  repeat' split
  all_goals omega

theorem foldl_hex_lower (p : Str) (h : p.all isHexC = true) (a : Nat) :
    (lower p).foldl (fun a c => a * 16 + hexVal c) a = p.foldl (fun a c => a * 16 + hexVal c) a := by
  induction p generalizing a with
  | nil => rfl
  | cons x xs ih =>
    simp only [List.all_cons, Bool.and_eq_true] at h
    simp only [lower, List.map_cons, List.foldl_cons] at ih ⊢
    rw [hexVal_lowerC h.1, ih h.2]

theorem parseHextet_lower (p : Str) : parseHextet (lower p) = parseHextet p := by
  have h1 : (lower p).all isHexC = p.all isHexC := by
    simp [lower, List.all_map, Function.comp_def, isHexC_lowerC]
  unfold parseHextet
  rw [h1, isEmpty_lower]
  cases h : p.all isHexC with
  | false => rfl
  | true => rw [foldl_hex_lower p h]; simp [lower]

theorem mapM_parseHextet_lower (l : List Str) : (l.map lower).mapM parseHextet = l.mapM parseHextet := by
  induction l with
  | nil => rfl
  | cons x xs ih => simp [List.mapM_cons, parseHextet_lower, ih]

theorem getD_map_lower (l : List Str) (i : Nat) : (l.map lower).getD i [1] = lower (l.getD i [1]) := by
  simp only [List.getD_eq_getElem?_getD, List.getElem?_map]
  cases l[i]? <;> rfl

theorem findSkip_lower (l : List Str) : findSkip (l.map lower) = findSkip l := by
  unfold findSkip
  simp only [List.length_map, getD_map_lower, isEmpty_lower]

theorem headD_map_lower (l : List Str) : (l.map lower).headD [1] = lower (l.headD [1]) := by
  cases l <;> rfl

theorem getLastD_map_lower (l : List Str) : (l.map lower).getLastD [1] = lower (l.getLastD [1]) := by
  simp only [List.getLastD_eq_getLast?, List.getLast?_map]
  cases l.getLast? <;> rfl

theorem v6core_lower (l : List Str) : v6core (l.map lower) = v6core l := by
  unfold v6core
  simp only [List.length_map, findSkip_lower, headD_map_lower, getLastD_map_lower, isEmpty_lower,
    ← List.map_take, ← List.map_drop, mapM_parseHextet_lower]

theorem v6expand_lower (l : List Str) : v6expand (l.map lower) = (v6expand l).map (·.map lower) := by
  unfold v6expand
  rw [List.getLast?_map]
  cases l.getLast? with
  | none => rfl
  | some x =>
    simp only [Option.map_some, mem_lower_b 46 (by omega), parseIPv4_lower]
    split
    · split
      · simp [← List.map_dropLast, lower_hexLower]
      · rfl
    · rfl

theorem parseIPv6_lower (s : Str) : parseIPv6 (lower s) = parseIPv6 s := by
  rw [parseIPv6_eq, parseIPv6_eq]
  simp only [mem_lower_b 47 (by omega), isEmpty_lower, splitOn_lower 58 (by omega), List.length_map,
    v6expand_lower]
  cases v6expand (splitOn 58 s) with
  | none => rfl
  | some ps => simp [v6core_lower]

theorem parseIP_lower (s : Str) : parseIP (lower s) = parseIP s := by
  unfold parseIP; rw [parseIPv4_lower, parseIPv6_lower]

/-! ### `notRegName` -/

theorem notRegName_cons_false {c : Nat} {rest : Str} (h : notRegName (c :: rest) = false) :
    (c = 37 ∨ mem c Gen.regNameChars = true) ∧ notRegName rest = false := by
  by_cases hc : c = 37
  · subst hc
    rw [notRegName.eq_def] at h
    simp only [Bool.or_eq_false_iff] at h
    exact ⟨Or.inl rfl, h.2⟩
  · rw [notRegName.eq_4 _ _ (by intro h'; exact hc h')] at h
    simp only [Bool.or_eq_false_iff, Bool.not_eq_false'] at h
    exact ⟨Or.inr h.1, h.2⟩

theorem notRegName_spec (s : Str) (h : notRegName s = false) :
    ∀ c ∈ s, c = 37 ∨ mem c Gen.regNameChars = true := by
  induction s with
  | nil => simp
  | cons x xs ih =>
    have := notRegName_cons_false h
    intro c hc
    rcases List.mem_cons.1 hc with rfl | hc
    · exact this.1
    · exact ih this.2 c hc

theorem regNameChars_lt : ∀ x ∈ Gen.regNameChars, x < 128 := by decide

theorem regNameChars_small :
    ∀ c, c < 128 → (mem c Gen.regNameChars = true ↔
      ((Rfc.unreserved c = true ∨ Rfc.subDelims c = true) ∧ ¬(65 ≤ c ∧ c ≤ 90))) := by
  decide +kernel

/-! ### decimal rendering of an octet -/

theorem natToStrAux_small (f n : Nat) (h : n < 10) : natToStrAux f n = [48 + n] := by
  cases f with
  | zero => simp [natToStrAux]; omega
  | succ f => simp [natToStrAux, h]

theorem natToStrAux_step (f n : Nat) (h : 10 ≤ n) :
    natToStrAux (f + 1) n = natToStrAux f (n / 10) ++ [48 + n % 10] := by
  simp [natToStrAux]; omega

theorem natToStr_getLast (n : Nat) : (natToStr n).getLast? = some (48 + n % 10) := by
  unfold natToStr
  cases n with
  | zero => rfl
  | succ k =>
    by_cases h : k + 1 < 10
    · rw [natToStrAux_small _ _ h]; simp; omega
    · rw [natToStrAux_step _ _ (by omega)]; simp

theorem parseOctet_spec {p : Str} {v : Nat} (h : parseOctet p = some v) : natToStr v = p ∧ v ≤ 255 := by
  unfold parseOctet at h
  split at h; · simp at h
  split at h; · simp at h
  split at h; · simp at h
  split at h; · simp at h
  rename_i hne hd hl hz
  simp only [gt_iff_lt, Option.ite_none_left_eq_some, Option.some.injEq] at h
  obtain ⟨hv, rfl⟩ := h
  refine ⟨?_, by omega⟩
  match p, hne, hd, hl, hz, hv with
  | [], hne, _, _, _, _ => simp at hne
  | _ :: _ :: _ :: _ :: _, _, _, hl, _, _ => simp at hl
  | [a], _, hd, _, _, _ =>
    simp [isDigitC] at hd
    simp only [List.foldl_cons, List.foldl_nil, natToStr]
    rw [natToStrAux_small _ _ (by omega)]
    simp; omega
  | [a, b], _, hd, _, hz, _ =>
    simp [isDigitC] at hd hz
    simp only [List.foldl_cons, List.foldl_nil, natToStr]
    obtain ⟨k, hk⟩ : ∃ k, (0 * 10 + (a - 48)) * 10 + (b - 48) = k + 1 := ⟨(a - 48) * 10 + (b - 48) - 1, by omega⟩
    rw [hk, natToStrAux_step _ _ (by omega), natToStrAux_small _ _ (by omega)]
    simp; omega
  | [a, b, c], _, hd, _, hz, _ =>
    simp [isDigitC] at hd hz
    simp only [List.foldl_cons, List.foldl_nil, natToStr]
    obtain ⟨k, hk⟩ : ∃ k, ((0 * 10 + (a - 48)) * 10 + (b - 48)) * 10 + (c - 48) = k + 2 :=
      ⟨((a - 48) * 10 + (b - 48)) * 10 + (c - 48) - 2, by omega⟩
    rw [hk, natToStrAux_step _ _ (by omega), natToStrAux_step _ _ (by omega), natToStrAux_small _ _ (by omega)]
    simp; omega

theorem mapM_parseOctet_spec {l : List Str} {o4 : List Nat} (h : l.mapM parseOctet = some o4) :
    o4.map natToStr = l ∧ ∀ x ∈ o4, x ≤ 255 := by
  induction l generalizing o4 with
  | nil => simp at h; subst h; simp
  | cons p ps ih =>
    rw [List.mapM_cons] at h
    cases hp : parseOctet p with
    | none => simp [hp] at h
    | some v =>
      cases hps : ps.mapM parseOctet with
      | none => simp [hp, hps] at h
      | some vs =>
        simp [hp, hps] at h
        subst h
        have := ih hps
        have := parseOctet_spec hp
        simp_all

/-! ### the structure of `encodeHost` -/

def looksIP (o : Oracles) (host : Str) : R Bool :=
  match host.getLast? with
  | none => pure false
  | some l => do
    let d ← (if mem 58 host then pure true else isDigitChar o l : R Bool)
    pure d

def ipRes (host : Str) : Option Str :=
  match parseIP (partition 37 host).1 with
  | some (.v6 h) => some (if (partition 37 host).2.1 then [91] ++ ipv6ToStr h ++ [37] ++ (partition 37 host).2.2 ++ [93]
                          else [91] ++ ipv6ToStr h ++ [93])
  | some (.v4 ip) => some (if (partition 37 host).2.1 then ipv4ToStr ip ++ [37] ++ (partition 37 host).2.2 else ipv4ToStr ip)
  | none => none

def regPath (o : Oracles) (host : Str) (validate : Bool) : R Str :=
  if isAscii host then
    if validate && notRegName (lower host) then .error .valueError else pure (lower host)
  else do
    let h ← idnaEncode o host
    if mem 58 h then encodeHostA o h validate
    else if validate && notRegName h then .error .valueError else pure h

/-- with validation on, the zone id of an IP literal is screened like a reg-name -/
def zoneBad (host : Str) (validate : Bool) : Bool :=
  validate && (partition 37 host).2.1 && notRegName (lower (partition 37 host).2.2)

/-- the IP branch exactly as the model writes it -/
def ipResV (host : Str) (validate : Bool) : Option (R Str) :=
  match parseIP (partition 37 host).1 with
  | some ip =>
    if validate && (partition 37 host).2.1 && notRegName (lower (partition 37 host).2.2) then some (.error .valueError)
    else match ip with
      | .v6 h => some (pure (if (partition 37 host).2.1 then [91] ++ ipv6ToStr h ++ [37] ++ (partition 37 host).2.2 ++ [93]
                          else [91] ++ ipv6ToStr h ++ [93]))
      | .v4 ip => some (pure (if (partition 37 host).2.1 then ipv4ToStr ip ++ [37] ++ (partition 37 host).2.2 else ipv4ToStr ip))
  | none => none

theorem encodeHost_eqV (o : Oracles) (host : Str) (v : Bool) :
    encodeHost o host v = (looksIP o host >>= fun b =>
      match (if b then ipResV host v else none) with
      | some r => r
      | none => regPath o host v) := by
  rfl

theorem ipResV_eq (host : Str) (v : Bool) :
    ipResV host v = (ipRes host).map (fun r => if zoneBad host v then .error .valueError else .ok r) := by
  unfold ipResV ipRes zoneBad
  cases parseIP (partition 37 host).1 with
  | none => rfl
  | some ip =>
    cases ip <;> (simp only [Option.map_some]; split <;> rfl)

theorem encodeHost_eq (o : Oracles) (host : Str) (v : Bool) :
    encodeHost o host v = (looksIP o host >>= fun b =>
      match (if b then ipRes host else none) with
      | some r => if zoneBad host v then .error .valueError else pure r
      | none => regPath o host v) := by
  rw [encodeHost_eqV]
  congr 1
  funext b
  cases b with
  | false => rfl
  | true =>
    simp only [↓reduceIte, ipResV_eq]
    cases ipRes host <;> rfl

theorem zoneBad_false (host : Str) : zoneBad host false = false := by simp [zoneBad]

theorem zoneBad_of_no_sep {host : Str} (v : Bool) (h : (partition 37 host).2.1 = false) : zoneBad host v = false := by
  simp [zoneBad, h]

theorem encodeHost_noIP (o : Oracles) (host : Str) (v : Bool) (r : Str)
    (hip : parseIP (partition 37 host).1 = none) (h : encodeHost o host v = .ok r) :
    regPath o host v = .ok r := by
  rw [encodeHost_eq] at h
  have hr : ipRes host = none := by simp [ipRes, hip]
  cases hl : looksIP o host with
  | error e => rw [hl] at h; cases h
  | ok b =>
    rw [hl] at h
    simpa [hr, bind, Except.bind] using h

theorem looksIP_ascii (o : Oracles) (host : Str) (ha : isAscii host = true) :
    ∃ b, looksIP o host = .ok b := by
  unfold looksIP
  cases hl : host.getLast? with
  | none => exact ⟨false, rfl⟩
  | some l =>
    have : l < 128 := by
      have := List.mem_of_getLast? hl
      simp only [isAscii, List.all_eq_true, decide_eq_true_eq] at ha
      exact ha l this
    simp only [isDigitChar, this, ↓reduceIte]
    split
    · exact ⟨true, rfl⟩
    · exact ⟨_, rfl⟩

/-! ### IPv6: colon, shape -/

theorem partition_fst_sub (c : Nat) (s : Str) : ∀ x ∈ (partition c s).1, x ∈ s := by
  rw [partition_eq]
  intro x hx
  exact (List.takeWhile_sublist _).subset hx

theorem parseIPv6_colon {s : Str} {h8 : List Nat} (h : parseIPv6 s = some h8) : 58 ∈ s := by
  rw [parseIPv6_eq] at h
  by_cases hc : 58 ∈ s
  · exact hc
  · rw [splitOn_of_not_mem 58 s hc] at h
    simp at h

theorem foldl_hex_lt (p : Str) (a : Nat) :
    p.foldl (fun a c => a * 16 + hexVal c) a < (a + 1) * 16 ^ p.length ∨ ¬ p.all isHexC = true := by
  induction p generalizing a with
  | nil => left; simp
  | cons x xs ih =>
    by_cases hx : isHexC x = true
    · rcases ih (a * 16 + hexVal x) with h | h
      · left
        simp only [List.foldl_cons, List.length_cons]
        have hv : hexVal x < 16 := by
          unfold isHexC isDigitC at hx; unfold hexVal isDigitC; simp at hx ⊢
          repeat' split
          all_goals omega
        calc _ < (a * 16 + hexVal x + 1) * 16 ^ xs.length := h
          _ ≤ ((a + 1) * 16) * 16 ^ xs.length := Nat.mul_le_mul_right _ (by omega)
          _ = (a + 1) * 16 ^ (xs.length + 1) := by rw [Nat.pow_succ, Nat.mul_assoc, Nat.mul_comm 16]
      · right; simp only [List.all_cons, Bool.and_eq_true, not_and]; intro _; exact h
    · right; simp [hx]

theorem parseHextet_lt {p : Str} {v : Nat} (h : parseHextet p = some v) : v < 65536 := by
  unfold parseHextet at h
  split at h; · cases h
  split at h; · cases h
  split at h; · cases h
  rename_i hall hlen _
  simp only [Option.some.injEq] at h
  subst h
  rcases foldl_hex_lt p 0 with h | h
  · have : 16 ^ p.length ≤ 16 ^ 4 := Nat.pow_le_pow_right (by omega) (by omega)
    omega
  · simp only [Bool.not_eq_eq_eq_not, Bool.not_true, Bool.not_eq_false] at hall; exact absurd hall h

theorem mapM_parseHextet_spec {l : List Str} {vs : List Nat} (h : l.mapM parseHextet = some vs) :
    vs.length = l.length ∧ ∀ x ∈ vs, x < 65536 := by
  induction l generalizing vs with
  | nil => simp at h; subst h; simp
  | cons p ps ih =>
    rw [List.mapM_cons] at h
    cases hp : parseHextet p with
    | none => simp [hp] at h
    | some v =>
      cases hps : ps.mapM parseHextet with
      | none => simp [hp, hps] at h
      | some vs' =>
        simp [hp, hps] at h
        subst h
        have := ih hps
        have := parseHextet_lt hp
        simp_all

theorem findSkip_some {parts : List Str} {k : Nat} (h : findSkip parts = some (some k)) :
    1 ≤ k ∧ k + 1 < parts.length ∧ (parts.getD k [1]).isEmpty = true := by
  unfold findSkip at h
  extract_lets n idxs at h
  generalize hidx : idxs = l at h
  match l, h with
  | [i], h =>
    simp only [Option.some.injEq] at h
    subst h
    have : i ∈ idxs := by rw [hidx]; simp
    simp only [idxs, n, List.mem_filter, List.mem_range, decide_eq_true_eq] at this
    exact ⟨this.2.1, this.2.2.1, this.2.2.2⟩

theorem skip_shape {parts : List Str} {hi lo : Nat} {h8 : List Nat}
    (hhi : hi ≤ parts.length) (hlo : lo ≤ parts.length)
    (h : (if 8 < hi + lo + 1 then none
      else match (parts.take hi).mapM parseHextet, ((parts.drop (parts.length - lo))).mapM parseHextet with
        | some h, some l => some (h ++ List.replicate (8 - (hi + lo)) 0 ++ l)
        | _, _ => none) = some h8) :
    h8.length = 8 ∧ ∀ x ∈ h8, x < 65536 := by
  split at h; · cases h
  split at h
  · rename_i hh ll h1 h2
    simp only [Option.some.injEq] at h
    subst h
    have a1 := mapM_parseHextet_spec h1
    have a2 := mapM_parseHextet_spec h2
    simp only [List.length_take, List.length_drop] at a1 a2
    constructor
    · simp only [List.length_append, List.length_replicate]
      omega
    · intro x hx
      simp only [List.mem_append, List.mem_replicate] at hx
      rcases hx with (hx | hx) | hx
      · exact a1.2 x hx
      · omega
      · exact a2.2 x hx
  · cases h

theorem v6core_shape {parts : List Str} {h8 : List Nat} (h : v6core parts = some h8) :
    h8.length = 8 ∧ ∀ x ∈ h8, x < 65536 := by
  unfold v6core at h
  split at h; · cases h
  split at h
  · cases h
  · rename_i skip hs
    have hk := findSkip_some hs
    extract_lets hi0 lo0 fe le hi lo at h
    have hhi : hi ≤ parts.length := by simp only [hi, hi0]; split <;> omega
    have hlo : lo ≤ parts.length := by simp only [lo, lo0]; split <;> omega
    split at h; · cases h
    split at h; · cases h
    exact skip_shape hhi hlo h
  · split at h; · cases h
    split at h; · cases h
    split at h; · cases h
    rename_i hl _ _
    have := mapM_parseHextet_spec h
    constructor
    · simp at hl; omega
    · exact this.2

theorem parseIPv6_shape {s : Str} {h8 : List Nat} (h : parseIPv6 s = some h8) :
    h8.length = 8 ∧ ∀ x ∈ h8, x < 65536 := by
  rw [parseIPv6_eq] at h
  split at h; · cases h
  split at h; · cases h
  split at h; · cases h
  split at h
  · cases h
  · exact v6core_shape h

theorem ipv6ToStr_eq (h : List Nat) :
    ipv6ToStr h =
      if (bestZeroRun h).2 > 1 then
        joinC 58 (if (bestZeroRun h).1 = 0 then
            [] :: ((h.map hexLower).take (bestZeroRun h).1 ++ [[]] ++ (h.map hexLower).drop ((bestZeroRun h).1 + (bestZeroRun h).2)
              ++ (if (bestZeroRun h).1 + (bestZeroRun h).2 = (h.map hexLower).length then [[]] else []))
          else
            ((h.map hexLower).take (bestZeroRun h).1 ++ [[]] ++ (h.map hexLower).drop ((bestZeroRun h).1 + (bestZeroRun h).2)
              ++ (if (bestZeroRun h).1 + (bestZeroRun h).2 = (h.map hexLower).length then [[]] else [])))
      else joinC 58 (h.map hexLower) := by
  rfl

/-! ### hex rendering / parsing round trip -/

theorem isHexC_hexDigitN {k : Nat} (h : k < 16) : isHexC (hexDigitN k) = true := by
  unfold hexDigitN isHexC isDigitC; split <;> simp <;> omega

theorem hexVal_hexDigitN {k : Nat} (h : k < 16) : hexVal (hexDigitN k) = k := by
  unfold hexDigitN hexVal isDigitC
  simp only [Bool.and_eq_true, decide_eq_true_eq]
  repeat' split
  all_goals omega

theorem foldl_hexDigits (ds : List Nat) (h16 : ∀ d ∈ ds, d < 16) (a : Nat) :
    (ds.map hexDigitN).foldl (fun a c => a * 16 + hexVal c) a = ds.foldl (fun a d => a * 16 + d) a := by
  induction ds generalizing a with
  | nil => rfl
  | cons d ds ih =>
    simp only [List.map_cons, List.foldl_cons]
    rw [hexVal_hexDigitN (h16 d List.mem_cons_self), ih (fun x hx => h16 x (List.mem_cons_of_mem _ hx))]

theorem parseHextet_digits (ds : List Nat) (h16 : ∀ d ∈ ds, d < 16) (h1 : 1 ≤ ds.length) (h4 : ds.length ≤ 4) :
    parseHextet (ds.map hexDigitN) = some (ds.foldl (fun a d => a * 16 + d) 0) := by
  have hall : (ds.map hexDigitN).all isHexC = true := by
    simp only [List.all_map, List.all_eq_true, Function.comp]
    intro d hd; exact isHexC_hexDigitN (h16 d hd)
  unfold parseHextet
  rw [hall, foldl_hexDigits ds h16]
  have h2 : ¬ (ds.map hexDigitN).length > 4 := by simp; omega
  have h3 : (ds.map hexDigitN).isEmpty = false := by
    cases ds with
    | nil => simp at h1
    | cons _ _ => rfl
  simp at h3
  simp [h3]; omega

theorem hexLower_cases (x : Nat) (hx : x < 65536) :
    ∃ ds : List Nat, hexLower x = ds.map hexDigitN ∧ (∀ d ∈ ds, d < 16) ∧ 1 ≤ ds.length ∧ ds.length ≤ 4 ∧
      ds.foldl (fun a d => a * 16 + d) 0 = x := by
  rw [hexLower_eq]
  by_cases h1 : x < 16
  · refine ⟨[x], ?_, ?_, ?_, ?_, ?_⟩ <;> simp [hexAuxN, h1]
  · have a1 : x % 16 < 16 := Nat.mod_lt _ (by omega)
    by_cases h2 : x / 16 < 16
    · refine ⟨[x / 16, x % 16], ?_, ?_, ?_, ?_, ?_⟩
      · simp [hexAuxN, h1, h2]
      · simp; omega
      · simp
      · simp
      · simp; omega
    · have a2 : x / 16 % 16 < 16 := Nat.mod_lt _ (by omega)
      by_cases h3 : x / 16 / 16 < 16
      · refine ⟨[x / 16 / 16, x / 16 % 16, x % 16], ?_, ?_, ?_, ?_, ?_⟩
        · simp [hexAuxN, h1, h2, h3]
        · simp; omega
        · simp
        · simp
        · simp; omega
      · have a3 : x / 16 / 16 % 16 < 16 := Nat.mod_lt _ (by omega)
        have h4 : x / 16 / 16 / 16 < 16 := by omega
        refine ⟨[x / 16 / 16 / 16, x / 16 / 16 % 16, x / 16 % 16, x % 16], ?_, ?_, ?_, ?_, ?_⟩
        · simp [hexAuxN, h1, h2, h3, h4]
        · simp; omega
        · simp
        · simp
        · simp; omega

theorem parseHextet_hexLower {x : Nat} (hx : x < 65536) : parseHextet (hexLower x) = some x := by
  obtain ⟨ds, e, h16, h1, h4, hv⟩ := hexLower_cases x hx
  rw [e, parseHextet_digits ds h16 h1 h4, hv]

theorem hexLower_ne_nil {x : Nat} (hx : x < 65536) : hexLower x ≠ [] := by
  obtain ⟨ds, e, _, h1, _, _⟩ := hexLower_cases x hx
  rw [e]
  cases ds with
  | nil => simp at h1
  | cons _ _ => simp

theorem mapM_parseHextet_hexLower (A : List Nat) (hA : ∀ x ∈ A, x < 65536) :
    (A.map hexLower).mapM parseHextet = some A := by
  induction A with
  | nil => rfl
  | cons x xs ih =>
    simp [List.mapM_cons, parseHextet_hexLower (hA x List.mem_cons_self),
      ih (fun y hy => hA y (List.mem_cons_of_mem _ hy))]

/-! ### `bestZeroRun` returns a run of zeros -/

def ZeroRun (L : List Nat) (s l : Nat) : Prop := ∀ i, s ≤ i → i < s + l → L[i]? = some 0

theorem go_zeroRun (L : List Nat) (xs pre : List Nat) (idx cs cl bs bl : Nat)
    (hL : L = pre ++ xs) (hidx : idx = pre.length)
    (hc : cl = 0 ∨ (cs + cl = idx ∧ ZeroRun L cs cl)) (hb : ZeroRun L bs bl) :
    ZeroRun L (bestZeroRun.go xs idx cs cl bs bl).1 (bestZeroRun.go xs idx cs cl bs bl).2 := by
  induction xs generalizing pre idx cs cl bs bl with
  | nil => simpa [bestZeroRun.go] using hb
  | cons x xs ih =>
    have hL' : L = (pre ++ [x]) ++ xs := by simp [hL]
    have hidx' : idx + 1 = (pre ++ [x]).length := by simp [hidx]
    have hx : L[idx]? = some x := by subst hL hidx; simp
    unfold bestZeroRun.go
    by_cases h0 : x = 0
    · subst h0
      simp only [↓reduceIte]
      have hc' : (if cl = 0 then idx else cs) + (cl + 1) = idx + 1 ∧ ZeroRun L (if cl = 0 then idx else cs) (cl + 1) := by
        rcases hc with hc | ⟨hc1, hc2⟩
        · subst hc
          simp only [↓reduceIte, true_and]
          intro i h1 h2
          have : i = idx := by omega
          subst this; exact hx
        · by_cases hcl : cl = 0
          · subst hcl
            simp only [↓reduceIte, true_and]
            intro i h1 h2
            have : i = idx := by omega
            subst this; exact hx
          · simp only [hcl, ↓reduceIte]
            refine ⟨by omega, ?_⟩
            intro i h1 h2
            by_cases hi : i = idx
            · subst hi; exact hx
            · exact hc2 i h1 (by omega)
      split
      · exact ih _ (idx + 1) _ _ _ _ hL' hidx' (Or.inr hc') hc'.2
      · exact ih _ (idx + 1) _ _ _ _ hL' hidx' (Or.inr hc') hb
    · simp only [h0, ↓reduceIte]
      exact ih (pre ++ [x]) (idx + 1) _ _ _ _ hL' hidx' (Or.inl rfl) hb

theorem bestZeroRun_zeroRun (L : List Nat) : ZeroRun L (bestZeroRun L).1 (bestZeroRun L).2 := by
  unfold bestZeroRun
  exact go_zeroRun L L [] 0 0 0 0 0 rfl rfl (Or.inl rfl) (by intro i h1 h2; omega)

theorem zeroRun_decomp {L : List Nat} {s l : Nat} (hl : 0 < l) (h : ZeroRun L s l) :
    s + l ≤ L.length ∧ L = L.take s ++ List.replicate l 0 ++ L.drop (s + l) := by
  have hlen : s + l ≤ L.length := by
    have := h (s + l - 1) (by omega) (by omega)
    have := (List.getElem?_eq_some_iff.1 this).1
    omega
  refine ⟨hlen, ?_⟩
  have hmid : (L.drop s).take l = List.replicate l 0 := by
    rw [List.eq_replicate_iff]
    constructor
    · simp; omega
    · intro b hb
      obtain ⟨j, hj, rfl⟩ := List.mem_iff_getElem.1 hb
      simp only [List.length_take, List.length_drop] at hj
      have := h (s + j) (by omega) (by omega)
      simp only [List.getElem_take, List.getElem_drop]
      have h2 := (List.getElem?_eq_some_iff.1 this)
      obtain ⟨_, h3⟩ := h2
      exact h3
  have : L.drop (s + l) = (L.drop s).drop l := by rw [List.drop_drop]
  rw [this, ← hmid, List.append_assoc, List.take_append_drop, List.take_append_drop]

/-! ### re-parsing the compressed text -/

theorem filter_range_none (n : Nat) (p : Nat → Bool) (h : ∀ i, i < n → p i = false) :
    (List.range n).filter p = [] := by
  rw [List.filter_eq_nil_iff]
  intro i hi
  simp only [List.mem_range] at hi
  simp [h i hi]

theorem filter_range_unique (n k : Nat) (p : Nat → Bool) (hk : k < n) (hpk : p k = true)
    (h : ∀ i, i < n → i ≠ k → p i = false) : (List.range n).filter p = [k] := by
  induction n with
  | zero => omega
  | succ m ih =>
    rw [List.range_succ, List.filter_append]
    by_cases hkm : k = m
    · subst hkm
      rw [filter_range_none k p (fun i hi => h i (by omega) (by omega))]
      simp [hpk]
    · rw [ih (by omega) (fun i hi hne => h i (by omega) hne)]
      simp [h m (by omega) (fun e => hkm e.symm)]

theorem findSkip_none_of {parts : List Str} (h : ∀ p ∈ parts, p ≠ []) : findSkip parts = some none := by
  unfold findSkip
  extract_lets n idxs
  have : idxs = [] := by
    apply filter_range_none
    intro i hi
    have : parts.getD i [1] ≠ [] := by
      rw [List.getD_eq_getElem?_getD, List.getElem?_eq_getElem hi]
      exact h _ (List.getElem_mem hi)
    have : (parts.getD i [1]).isEmpty = false := by simpa using this
    rw [this]; simp
  rw [this]

theorem findSkip_mid (P Q : List Str) (hP : ∀ p ∈ P.tail, p ≠ []) (hQ : ∀ p ∈ Q.dropLast, p ≠ [])
    (hP0 : P ≠ []) (hQ0 : Q ≠ []) : findSkip (P ++ [] :: Q) = some (some P.length) := by
  have hPl : 0 < P.length := List.length_pos_iff.2 hP0
  have hQl : 0 < Q.length := List.length_pos_iff.2 hQ0
  unfold findSkip
  extract_lets n idxs
  have hn : n = P.length + 1 + Q.length := by simp [n]; omega
  have : idxs = [P.length] := by
    apply filter_range_unique
    · omega
    · simp [n, List.getD_eq_getElem?_getD]; omega
    · intro i hi hne
      have : (P ++ [] :: Q).getD i [1] ≠ [] ∨ ¬ (1 ≤ i ∧ i + 1 < n) := by
        by_cases hlt : i < P.length
        · by_cases hi0 : i = 0
          · right; omega
          · left
            rw [List.getD_eq_getElem?_getD, List.getElem?_append_left hlt, List.getElem?_eq_getElem hlt]
            apply hP
            obtain ⟨j, rfl⟩ : ∃ j, i = j + 1 := ⟨i - 1, by omega⟩
            cases P with
            | nil => simp at hlt
            | cons a t => simp at hlt ⊢
        · by_cases hend : i + 1 < n
          · left
            obtain ⟨j, rfl⟩ : ∃ j, i = P.length + 1 + j := ⟨i - P.length - 1, by omega⟩
            have hj : j < Q.length - 1 := by omega
            have hj' : j < Q.length := by omega
            have e : (P ++ [] :: Q)[P.length + 1 + j]? = some Q[j] := by
              rw [List.getElem?_append_right (by omega)]
              have : P.length + 1 + j - P.length = j + 1 := by omega
              rw [this]; simp [hj']
            rw [List.getD_eq_getElem?_getD, e]
            apply hQ
            rw [List.mem_iff_getElem]
            exact ⟨j, by simp; omega, by simp⟩
          · right; omega
      rcases this with h | h
      · have : ((P ++ [] :: Q).getD i [1]).isEmpty = false := by simpa using h
        rw [this]; simp
      · simp only [decide_eq_false_iff_not]; intro hc; exact h ⟨hc.1, hc.2.1⟩
  rw [this]

theorem not_lowerHex_of {c : Nat} (h : c = 46 ∨ c = 47 ∨ c = 58) : ¬ isLowerHexC c := by
  unfold isLowerHexC isDigitC
  rcases h with rfl | rfl | rfl <;> simp

theorem parseIPv6_join (parts : List Str) (hp : ∀ p ∈ parts, ∀ c ∈ p, isLowerHexC c)
    (hlen : 3 ≤ parts.length) : parseIPv6 (joinC 58 parts) = v6core parts := by
  have hno : ∀ k, (k = 46 ∨ k = 47 ∨ k = 58) → ∀ p ∈ parts, k ∉ p :=
    fun k hk p hpp hkp => not_lowerHex_of hk (hp p hpp k hkp)
  have h47 : mem 47 (joinC 58 parts) = false := by
    rw [mem_eq]
    simp only [decide_eq_false_iff_not]
    intro hm
    rcases mem_joinC hm with h | ⟨p, hpp, hc⟩
    · omega
    · exact hno 47 (by simp) p hpp hc
  have hne : (joinC 58 parts).isEmpty = false := by
    match parts, hlen with
    | a :: b :: rest, _ =>
      rw [joinC_cons, flatC_cons]
      cases a <;> rfl
  have hsplit := splitOn_joinC 58 parts (by intro e; subst e; simp at hlen) (hno 58 (by simp))
  have hexp : v6expand parts = some parts := by
    unfold v6expand
    cases hl : parts.getLast? with
    | none => rw [List.getLast?_eq_none_iff] at hl; subst hl; simp at hlen
    | some l =>
      have : mem 46 l = false := by
        rw [mem_eq]; simp only [decide_eq_false_iff_not]
        exact hno 46 (by simp) l (List.mem_of_getLast? hl)
      simp [this]
  rw [parseIPv6_eq, h47, hne, hsplit]
  have : ¬ parts.length < 3 := by omega
  simp [this, hexp]

theorem headD_ne_nil_of {parts : List Str} (h : ∀ p ∈ parts, p ≠ []) : (parts.headD [1]).isEmpty = false := by
  cases parts with
  | nil => rfl
  | cons a t =>
    have := h a List.mem_cons_self
    simpa using this

theorem getLastD_ne_nil_of {parts : List Str} (h : ∀ p ∈ parts, p ≠ []) : (parts.getLastD [1]).isEmpty = false := by
  rw [List.getLastD_eq_getLast?]
  cases hl : parts.getLast? with
  | none => rfl
  | some l =>
    have := h l (List.mem_of_getLast? hl)
    simpa using this

theorem v6core_full (A : List Nat) (hl : A.length = 8) (hA : ∀ x ∈ A, x < 65536) :
    v6core (A.map hexLower) = some A := by
  have hne : ∀ p ∈ A.map hexLower, p ≠ [] := by
    intro p hp
    simp only [List.mem_map] at hp
    obtain ⟨x, hx, rfl⟩ := hp
    exact hexLower_ne_nil (hA x hx)
  unfold v6core
  rw [findSkip_none_of hne, headD_ne_nil_of hne, getLastD_ne_nil_of hne]
  simp [hl, mapM_parseHextet_hexLower A hA]

def skipTail (parts : List Str) (fe le : Bool) (hi lo : Nat) : Option (List Nat) :=
  if fe ∧ hi ≠ 0 then none
  else if le ∧ lo ≠ 0 then none
  else if 8 < hi + lo + 1 then none
  else
    match (parts.take hi).mapM parseHextet, ((parts.drop (parts.length - lo))).mapM parseHextet with
    | some h, some l => some (h ++ List.replicate (8 - (hi + lo)) 0 ++ l)
    | _, _ => none

theorem v6core_skip_eq {parts : List Str} {skip : Nat} (h : findSkip parts = some (some skip))
    (hl : ¬ parts.length > 9) :
    v6core parts = skipTail parts (parts.headD [1]).isEmpty (parts.getLastD [1]).isEmpty
      (if (parts.headD [1]).isEmpty then skip - 1 else skip)
      (if (parts.getLastD [1]).isEmpty then parts.length - skip - 1 - 1 else parts.length - skip - 1) := by
  unfold v6core skipTail
  rw [h, if_neg hl]

theorem v6core_skip (P Q : List Str) (A B : List Nat)
    (hP : (A = [] ∧ P = [[]]) ∨ (A ≠ [] ∧ P = A.map hexLower))
    (hQ : (B = [] ∧ Q = [[]]) ∨ (B ≠ [] ∧ Q = B.map hexLower))
    (hlen : A.length + B.length ≤ 6) (hA : ∀ x ∈ A, x < 65536) (hB : ∀ x ∈ B, x < 65536) :
    v6core (P ++ [] :: Q) = some (A ++ List.replicate (8 - (A.length + B.length)) 0 ++ B) := by
  have neA : ∀ p ∈ A.map hexLower, p ≠ [] := by
    intro p hp
    simp only [List.mem_map] at hp
    obtain ⟨x, hx, rfl⟩ := hp
    exact hexLower_ne_nil (hA x hx)
  have neB : ∀ p ∈ B.map hexLower, p ≠ [] := by
    intro p hp
    simp only [List.mem_map] at hp
    obtain ⟨x, hx, rfl⟩ := hp
    exact hexLower_ne_nil (hB x hx)
  -- facts about P
  have fP : P ≠ [] ∧ (∀ p ∈ P.tail, p ≠ []) ∧ P.length ≤ A.length + 1 ∧
      (if (P.headD [1]).isEmpty then P.length - 1 else P.length) = A.length ∧
      ((P.headD [1]).isEmpty = true → A.length = 0) ∧
      (P ++ [] :: Q).take A.length = A.map hexLower := by
    rcases hP with ⟨rfl, rfl⟩ | ⟨hA0, rfl⟩
    · simp
    · have hl0 : 0 < A.length := List.length_pos_iff.2 hA0
      have hh := headD_ne_nil_of neA
      refine ⟨by simpa using hA0, fun p hp => neA p (List.mem_of_mem_tail hp), by simp, ?_, ?_, ?_⟩
      · rw [hh]; simp
      · rw [hh]; simp
      · have : A.length = (A.map hexLower).length := by simp
        rw [this, List.take_left']
        rfl
  have fQ : Q ≠ [] ∧ (∀ p ∈ Q.dropLast, p ≠ []) ∧ Q.length ≤ B.length + 1 ∧
      (if (Q.getLastD [1]).isEmpty then Q.length - 1 else Q.length) = B.length ∧
      ((Q.getLastD [1]).isEmpty = true → B.length = 0) ∧
      (P ++ [] :: Q).drop ((P ++ [] :: Q).length - B.length) = B.map hexLower := by
    rcases hQ with ⟨rfl, rfl⟩ | ⟨hB0, rfl⟩
    · simp
    · have hl0 : 0 < B.length := List.length_pos_iff.2 hB0
      have hh := getLastD_ne_nil_of neB
      refine ⟨by simpa using hB0, fun p hp => neB p (List.dropLast_subset _ hp), by simp, ?_, ?_, ?_⟩
      · rw [hh]; simp
      · rw [hh]; simp
      · have e : P ++ [] :: B.map hexLower = (P ++ [[]]) ++ B.map hexLower := by simp
        have : (P ++ [] :: B.map hexLower).length - B.length = (P ++ [[]]).length := by simp; omega
        rw [this, e, List.drop_left']
        rfl
  obtain ⟨p0, pt, pl, phi, pz, ptake⟩ := fP
  obtain ⟨q0, qt, ql, qlo, qz, qdrop⟩ := fQ
  have hskip := findSkip_mid P Q pt qt p0 q0
  have hhead : (P ++ [] :: Q).headD [1] = P.headD [1] := by
    cases P with
    | nil => exact absurd rfl p0
    | cons a t => rfl
  have hlast : (P ++ [] :: Q).getLastD [1] = Q.getLastD [1] := by
    cases Q with
    | nil => exact absurd rfl q0
    | cons b t =>
      have : P ++ [] :: b :: t = (P ++ [[]]) ++ (b :: t) := by simp
      rw [this, List.getLastD_eq_getLast?, List.getLastD_eq_getLast?, List.getLast?_append]
      cases hq : (b :: t).getLast? with
      | none => simp at hq
      | some l => rfl
  have hlen9 : ¬ (P ++ [] :: Q).length > 9 := by simp; omega
  rw [v6core_skip_eq hskip hlen9, hhead, hlast]
  have e1 : (P ++ [] :: Q).length - P.length - 1 = Q.length := by simp
  have e2 : (if (Q.getLastD [1]).isEmpty then (P ++ [] :: Q).length - P.length - 1 - 1
      else (P ++ [] :: Q).length - P.length - 1) = B.length := by rw [e1]; exact qlo
  rw [phi, e2]
  unfold skipTail
  rw [ptake, qdrop, mapM_parseHextet_hexLower A hA, mapM_parseHextet_hexLower B hB]
  have c1 : ¬ ((P.headD [1]).isEmpty = true ∧ A.length ≠ 0) := fun h => h.2 (pz h.1)
  have c2 : ¬ ((Q.getLastD [1]).isEmpty = true ∧ B.length ≠ 0) := fun h => h.2 (qz h.1)
  have c3 : ¬ 8 < A.length + B.length + 1 := by omega
  rw [if_neg c1, if_neg c2, if_neg c3]

theorem all_lowerHex_map (A : List Nat) : ∀ p ∈ A.map hexLower, ∀ c ∈ p, isLowerHexC c := by
  intro p hp c hc
  simp only [List.mem_map] at hp
  obtain ⟨x, _, rfl⟩ := hp
  exact hexLower_lower x c hc

theorem roundtrip_compressed (A B : List Nat) (bs bl : Nat) (hbs : A.length = bs) (hbl : 2 ≤ bl)
    (hlen : A.length + bl + B.length = 8) (hA : ∀ x ∈ A, x < 65536) (hB : ∀ x ∈ B, x < 65536) :
    parseIPv6 (joinC 58 (if bs = 0 then
        [] :: (A.map hexLower ++ [[]] ++ B.map hexLower ++ (if bs + bl = 8 then [[]] else []))
      else (A.map hexLower ++ [[]] ++ B.map hexLower ++ (if bs + bl = 8 then [[]] else [])))) =
      some (A ++ List.replicate bl 0 ++ B) := by
  let P : List Str := if A = [] then [[]] else A.map hexLower
  let Q : List Str := if B = [] then [[]] else B.map hexLower
  have hP : (A = [] ∧ P = [[]]) ∨ (A ≠ [] ∧ P = A.map hexLower) := by
    by_cases h : A = []
    · left; simp [P, h]
    · right; simp [P, h]
  have hQ : (B = [] ∧ Q = [[]]) ∨ (B ≠ [] ∧ Q = B.map hexLower) := by
    by_cases h : B = []
    · left; simp [Q, h]
    · right; simp [Q, h]
  have hlist : (if bs = 0 then
        [] :: (A.map hexLower ++ [[]] ++ B.map hexLower ++ (if bs + bl = 8 then [[]] else []))
      else (A.map hexLower ++ [[]] ++ B.map hexLower ++ (if bs + bl = 8 then [[]] else []))) = P ++ [] :: Q := by
    have h1 : bs = 0 ↔ A = [] := by rw [← hbs]; exact List.length_eq_zero_iff
    have h2 : bs + bl = 8 ↔ B = [] := by
      rw [← List.length_eq_zero_iff]; omega
    by_cases hA0 : A = [] <;> by_cases hB0 : B = [] <;> simp [P, Q, h1, h2, hA0, hB0]
  rw [hlist]
  have hhex : ∀ p ∈ P ++ [] :: Q, ∀ c ∈ p, isLowerHexC c := by
    intro p hp c hc
    simp only [List.mem_append, List.mem_cons] at hp
    rcases hp with hp | rfl | hp
    · rcases hP with ⟨_, e⟩ | ⟨_, e⟩
      · rw [e] at hp; simp at hp; subst hp; simp at hc
      · rw [e] at hp; exact all_lowerHex_map A p hp c hc
    · simp at hc
    · rcases hQ with ⟨_, e⟩ | ⟨_, e⟩
      · rw [e] at hp; simp at hp; subst hp; simp at hc
      · rw [e] at hp; exact all_lowerHex_map B p hp c hc
  have hl3 : 3 ≤ (P ++ [] :: Q).length := by
    have : 1 ≤ P.length := by
      rcases hP with ⟨_, e⟩ | ⟨h, e⟩
      · rw [e]; simp
      · rw [e]; simp; exact List.length_pos_iff.2 h
    have : 1 ≤ Q.length := by
      rcases hQ with ⟨_, e⟩ | ⟨h, e⟩
      · rw [e]; simp
      · rw [e]; simp; exact List.length_pos_iff.2 h
    simp; omega
  rw [parseIPv6_join _ hhex hl3, v6core_skip P Q A B hP hQ (by omega) hA hB]
  have : 8 - (A.length + B.length) = bl := by omega
  rw [this]

theorem partition_append_sep (c : Nat) (a z : Str) (h : c ∉ a) : partition c (a ++ c :: z) = (a, true, z) := by
  induction a with
  | nil => simp [partition]
  | cons x xs ih =>
    have hx : x ≠ c := fun e => h (e ▸ List.mem_cons_self)
    have := ih (fun hm => h (List.mem_cons_of_mem _ hm))
    simp [partition, hx, this]

theorem partition_not_mem (c : Nat) (a : Str) (h : c ∉ a) : partition c a = (a, false, []) := by
  induction a with
  | nil => simp [partition]
  | cons x xs ih =>
    have hx : x ≠ c := fun e => h (e ▸ List.mem_cons_self)
    have := ih (fun hm => h (List.mem_cons_of_mem _ hm))
    simp [partition, hx, this]

theorem parseIPv4_none_of_no_dot (s : Str) (h : 46 ∉ s) : parseIPv4 s = none := by
  unfold parseIPv4
  rw [splitOn_of_not_mem 46 s h]
  simp

/-- an accepted host came out of the IP branch (then its zone passed the screen) or out of the reg-name branch -/
theorem encodeHost_casesV {o : Oracles} {host : Str} {v : Bool} {r : Str} (h : encodeHost o host v = .ok r) :
    (ipRes host = some r ∧ zoneBad host v = false) ∨ (ipRes host = none ∨ looksIP o host = .ok false) ∧ regPath o host v = .ok r := by
  rw [encodeHost_eq] at h
  cases hl : looksIP o host with
  | error e => rw [hl] at h; cases h
  | ok b =>
    rw [hl] at h
    simp only [bind, Except.bind] at h
    cases b with
    | false => right; exact ⟨Or.inr rfl, by simpa using h⟩
    | true =>
      simp only [↓reduceIte] at h
      cases hr : ipRes host with
      | none => rw [hr] at h; right; exact ⟨Or.inl rfl, h⟩
      | some r' =>
        rw [hr] at h
        simp only at h
        cases hz : zoneBad host v with
        | true => rw [hz] at h; cases h
        | false => rw [hz] at h; left; cases h; exact ⟨rfl, rfl⟩

theorem encodeHost_cases {o : Oracles} {host : Str} {v : Bool} {r : Str} (h : encodeHost o host v = .ok r) :
    ipRes host = some r ∨ regPath o host v = .ok r := by
  rcases encodeHost_casesV h with h | h
  · exact Or.inl h.1
  · exact Or.inr h.2

/-- the IP branch, when taken with a clean zone, returns the `ipRes` text -/
theorem encodeHost_ip {o : Oracles} {host : Str} {v : Bool} {r : Str} (hl : looksIP o host = .ok true)
    (hr : ipRes host = some r) (hz : zoneBad host v = false) : encodeHost o host v = .ok r := by
  rw [encodeHost_eq, hl]
  simp [bind, Except.bind, hr, hz, pure, Except.pure]

/-- … and with a dirty zone it is rejected -/
theorem encodeHost_ip_bad {o : Oracles} {host : Str} {v : Bool} {r : Str} (hl : looksIP o host = .ok true)
    (hr : ipRes host = some r) (hz : zoneBad host v = true) : encodeHost o host v = .error .valueError := by
  rw [encodeHost_eq, hl]
  simp [bind, Except.bind, hr, hz]

theorem parseOctet_digits {p : Str} {v : Nat} (h : parseOctet p = some v) : p.all isDigitC = true := by
  unfold parseOctet at h
  split at h; · cases h
  split at h; · cases h
  rename_i hd
  simpa using hd

theorem mapM_parseOctet_digits {l : List Str} {o4 : List Nat} (h : l.mapM parseOctet = some o4) :
    ∀ p ∈ l, p.all isDigitC = true := by
  induction l generalizing o4 with
  | nil => simp
  | cons p ps ih =>
    rw [List.mapM_cons] at h
    cases hp : parseOctet p with
    | none => simp [hp] at h
    | some v =>
      cases hps : ps.mapM parseOctet with
      | none => simp [hp, hps] at h
      | some vs =>
        intro q hq
        rcases List.mem_cons.1 hq with rfl | hq
        · exact parseOctet_digits hp
        · exact ih hps q hq

theorem parseIPv4_chars {s : Str} {o4 : List Nat} (h : parseIPv4 s = some o4) :
    ∀ c ∈ s, c = 46 ∨ isDigitC c = true := by
  unfold parseIPv4 at h
  split at h; · cases h
  split at h; · cases h
  simp only at h
  split at h; · cases h
  have hd := mapM_parseOctet_digits h
  intro c hc
  rw [← joinC_splitOn 46 s] at hc
  rcases mem_joinC hc with h | ⟨p, hp, hcp⟩
  · exact Or.inl h
  · right
    have := hd p hp
    rw [List.all_eq_true] at this
    exact this c hcp

/-! ### the re-entry `encodeHostA` (fix 3fbf5b4) -/

theorem regNameChars_no_colon : mem 58 Gen.regNameChars = false := by decide

/-- ':' is not a reg-name character: a text that passes the `NOT_REG_NAME` screen holds no colon -/
theorem notRegName_false_no_colon {a : Str} (h : notRegName a = false) : mem 58 a = false := by
  rw [mem_eq]
  simp only [decide_eq_false_iff_not]
  intro hm
  rcases notRegName_spec a h 58 hm with h' | h'
  · omega
  · rw [regNameChars_no_colon] at h'; cases h'

/-- the reg-name branch of the re-entry: the IDNA step is not available a second time -/
def regPathA (host : Str) (validate : Bool) : R Str :=
  if isAscii host then
    if validate && notRegName (lower host) then .error .valueError else pure (lower host)
  else .error .valueError

theorem encodeHostA_eqV (o : Oracles) (host : Str) (v : Bool) :
    encodeHostA o host v = (looksIP o host >>= fun b =>
      match (if b then ipResV host v else none) with
      | some r => r
      | none => regPathA host v) := by
  rfl

theorem regPath_ascii (o : Oracles) {host : Str} (v : Bool) (ha : isAscii host = true) :
    regPath o host v = regPathA host v := by
  simp [regPath, regPathA, ha]

/-- on ASCII text the re-entry is `_encode_host` itself -/
theorem encodeHostA_ascii (o : Oracles) {host : Str} (v : Bool) (ha : isAscii host = true) :
    encodeHostA o host v = encodeHost o host v := by
  rw [encodeHostA_eqV, encodeHost_eqV, regPath_ascii o v ha]

/-- the reg-name branch for a non-ASCII host whose IDNA answer holds no colon: the pre-3fbf5b4 code path -/
theorem regPath_idn_no_colon (o : Oracles) {host a : Str} (v : Bool) (hna : isAscii host = false)
    (hi : idnaEncode o host = .ok a) (hc : mem 58 a = false) :
    regPath o host v = (if v && notRegName a then .error .valueError else pure a) := by
  simp [regPath, hna, hi, hc, bind, Except.bind]

/-- the reg-name branch as a function of the IDNA answer -/
theorem regPath_idn (o : Oracles) {host : Str} (v : Bool) (hna : isAscii host = false) :
    regPath o host v = (idnaEncode o host >>= fun a =>
      if mem 58 a then encodeHostA o a v
      else if v && notRegName a then .error .valueError else pure a) := by
  simp [regPath, hna]

/-- an accepted re-entry came out of the IP branch or out of the (ASCII-only) reg-name branch -/
theorem encodeHostA_casesV {o : Oracles} {host : Str} {v : Bool} {r : Str} (h : encodeHostA o host v = .ok r) :
    (ipRes host = some r ∧ zoneBad host v = false) ∨
      (ipRes host = none ∨ looksIP o host = .ok false) ∧ regPathA host v = .ok r := by
  rw [encodeHostA_eqV] at h
  cases hl : looksIP o host with
  | error e => rw [hl] at h; cases h
  | ok b =>
    rw [hl] at h
    simp only [bind, Except.bind] at h
    cases b with
    | false => right; exact ⟨Or.inr rfl, by simpa using h⟩
    | true =>
      simp only [↓reduceIte, ipResV_eq] at h
      cases hr : ipRes host with
      | none => rw [hr] at h; right; exact ⟨Or.inl rfl, h⟩
      | some r' =>
        rw [hr] at h
        simp only [Option.map_some] at h
        cases hz : zoneBad host v with
        | true => rw [hz] at h; cases h
        | false => rw [hz] at h; left; cases h; exact ⟨rfl, rfl⟩

theorem regPathA_ok {host : Str} {v : Bool} {r : Str} (h : regPathA host v = .ok r) :
    isAscii host = true ∧ r = lower host ∧ (v = true → notRegName r = false) := by
  unfold regPathA at h
  split at h
  · rename_i ha
    split at h
    · cases h
    · rename_i hn
      cases h
      refine ⟨ha, rfl, ?_⟩
      intro hv; subst hv; simpa using hn
  · cases h

theorem mem_lower_58 (s : Str) : mem 58 (lower s) = mem 58 s := mem_lower_b 58 (by omega) s

/-- a text with a colon that the re-entry accepts under validation is an IP literal with a screened zone -/
theorem encodeHostA_colon_validated {o : Oracles} {a r : Str} (hc : mem 58 a = true)
    (h : encodeHostA o a true = .ok r) : ipRes a = some r ∧ zoneBad a true = false := by
  rcases encodeHostA_casesV h with h | ⟨_, h⟩
  · exact h
  · obtain ⟨_, rfl, hn⟩ := regPathA_ok h
    have := notRegName_false_no_colon (hn rfl)
    rw [mem_lower_58, hc] at this
    cases this

/-- the reg-name branch of `encodeHost` for a non-ASCII host, when it succeeds -/
theorem regPath_idn_cases {o : Oracles} {host : Str} {v : Bool} {r : Str} (hna : isAscii host = false)
    (h : regPath o host v = .ok r) :
    ∃ a, idnaEncode o host = .ok a ∧
      ((mem 58 a = false ∧ r = a ∧ (v = true → notRegName a = false)) ∨
       (mem 58 a = true ∧ encodeHostA o a v = .ok r)) := by
  rw [regPath_idn o v hna] at h
  cases hi : idnaEncode o host with
  | error e => rw [hi] at h; cases h
  | ok a =>
    rw [hi] at h
    simp only [bind, Except.bind] at h
    refine ⟨a, rfl, ?_⟩
    cases hc : mem 58 a with
    | true => right; rw [hc] at h; exact ⟨rfl, by simpa using h⟩
    | false =>
      left
      rw [hc] at h
      simp only [Bool.false_eq_true, ↓reduceIte] at h
      split at h
      · cases h
      · rename_i hn
        cases h
        refine ⟨rfl, rfl, ?_⟩
        intro hv; subst hv; simpa using hn

/-- … with validation on: the IDNA answer itself (screened), or the IP literal the answer spells -/
theorem regPath_idn_validated {o : Oracles} {host : Str} {r : Str} (hna : isAscii host = false)
    (h : regPath o host true = .ok r) :
    ∃ a, idnaEncode o host = .ok a ∧
      ((mem 58 a = false ∧ r = a ∧ notRegName r = false) ∨
       (mem 58 a = true ∧ ipRes a = some r ∧ zoneBad a true = false)) := by
  obtain ⟨a, hi, h | h⟩ := regPath_idn_cases hna h
  · obtain ⟨h1, rfl, h3⟩ := h
    exact ⟨r, hi, Or.inl ⟨h1, rfl, h3 rfl⟩⟩
  · exact ⟨a, hi, Or.inr ⟨h.1, encodeHostA_colon_validated h.1 h.2⟩⟩

end Yarl.HostLemmas
