/-
  TokLemmas.lean — byte-level tokens of a percent-encoded string (`btoks`), the
  token relation of a quoting table (`TokRel`, `TokRelNR`), a pointwise list
  relation (`All2`, core Lean has no `List.Forall₂`), and the helper lemmas for
  C02Tokens.lean.
-/
import YarlModel
import YarlProofs.C02
import YarlProofs.C12Readback
set_option linter.unusedVariables false
namespace Yarl

open OutLangLemmas QsLemmas WfLemmas

/-- byte-level tokens of a string: `esc b` for a valid escape %XY of byte b (either hex
    case), `lit b` for every other byte of the UTF-8 form (a '%' that starts no escape is
    `lit 37`) -/
inductive BTok where
  | esc (b : Nat)
  | lit (b : Nat)
  deriving DecidableEq, Repr

/-- the byte a token stands for -/
def BTok.val : BTok → Nat
  | .esc b => b
  | .lit b => b

/-- walk the code points exactly as `pctDecode` / `cOut` do: '%' followed by two hex digits
    is one escape token; every other code point contributes its UTF-8 bytes as literals -/
def btoks : Str → List BTok
  | [] => []
  | c :: rest =>
    if c = 37 then
      match h : takeEscape restoreCh rest with
      | some (v, _, _, rest') => .esc v :: btoks rest'
      | none => .lit 37 :: btoks rest
    else (utf8 c).map .lit ++ btoks rest
termination_by l => l.length
decreasing_by
  all_goals simp_wf
  all_goals (try have := takeEscape_length h)
  all_goals omega

/-- pointwise relation between two lists of the same length (`List.Forall₂`) -/
inductive All2 {α β : Type} (R : α → β → Prop) : List α → List β → Prop where
  | nil : All2 R [] []
  | cons {a b l₁ l₂} : R a b → All2 R l₁ l₂ → All2 R (a :: l₁) (b :: l₂)

/-- how one input token may be rewritten by a requoting table -/
def TokRel (t : QTab) : BTok → BTok → Prop
  | .esc b, .esc b' => b' = b ∧ (128 ≤ b ∨ t.safe b = false ∨ t.prot b = true)
  | .esc b, .lit b' => b' = b ∧ b < 128 ∧ t.safe b = true ∧ t.prot b = false
  | .lit b, .lit b' => (b' = b ∧ b < 128 ∧ t.safe b = true ∧ ¬(t.qs = true ∧ b = 32)) ∨
      (t.qs = true ∧ b = 32 ∧ b' = 43)
  | .lit b, .esc b' => b' = b ∧ ¬ (b < 128 ∧ t.safe b = true) ∧ ¬ (t.qs = true ∧ b = 32)

/-- the non-requoting variant: the input consists of literal bytes only; each becomes a
    literal (if safe; space → '+' for qs) or its own escape; nothing is decoded -/
def TokRelNR (t : QTab) : BTok → BTok → Prop
  | .lit b, .lit b' => (b' = b ∧ b < 128 ∧ t.safe b = true ∧ ¬(t.qs = true ∧ b = 32)) ∨
      (t.qs = true ∧ b = 32 ∧ b' = 43)
  | .lit b, .esc b' => b' = b ∧ ¬ (b < 128 ∧ t.safe b = true) ∧ ¬ (t.qs = true ∧ b = 32)
  | .esc _, _ => False

instance (t : QTab) (a b : BTok) : Decidable (TokRel t a b) := by
  cases a <;> cases b <;> unfold TokRel <;> infer_instance

instance (t : QTab) (a b : BTok) : Decidable (TokRelNR t a b) := by
  cases a <;> cases b <;> unfold TokRelNR <;> infer_instance

/-! ### `All2` -/

theorem All2.append {α β : Type} {R : α → β → Prop} {a₁ a₂ : List α} {b₁ b₂ : List β}
    (h₁ : All2 R a₁ b₁) (h₂ : All2 R a₂ b₂) : All2 R (a₁ ++ a₂) (b₁ ++ b₂) := by
  induction h₁ with
  | nil => exact h₂
  | cons hr _ ih => exact .cons hr ih

theorem All2.maps {α β γ : Type} {R : α → β → Prop} (f : γ → α) (g : γ → β) (l : List γ)
    (h : ∀ x ∈ l, R (f x) (g x)) : All2 R (l.map f) (l.map g) := by
  induction l with
  | nil => exact .nil
  | cons x xs ih =>
    exact .cons (h x (by simp)) (ih (fun y hy => h y (by simp [hy])))

theorem All2.length_eq {α β : Type} {R : α → β → Prop} {l₁ : List α} {l₂ : List β}
    (h : All2 R l₁ l₂) : l₁.length = l₂.length := by
  induction h with
  | nil => rfl
  | cons _ _ ih => simp [ih]

theorem All2.imp {α β : Type} {R S : α → β → Prop} {l₁ : List α} {l₂ : List β}
    (hrs : ∀ a b, R a b → S a b) (h : All2 R l₁ l₂) : All2 S l₁ l₂ := by
  induction h with
  | nil => exact .nil
  | cons hr _ ih => exact .cons (hrs _ _ hr) ih

/-- two observations that agree on related elements agree on related lists -/
theorem All2.map_eq {α β γ : Type} {R : α → β → Prop} {l₁ : List α} {l₂ : List β}
    (f : α → γ) (g : β → γ) (hfg : ∀ a b, R a b → f a = g b) (h : All2 R l₁ l₂) :
    l₁.map f = l₂.map g := by
  induction h with
  | nil => rfl
  | cons hr _ ih => simp [hfg _ _ hr, ih]

/-- positional reading: at every index either both lists have ended or both have an element
    and the two are related -/
theorem All2.getElem? {α β : Type} {R : α → β → Prop} {l₁ : List α} {l₂ : List β}
    (h : All2 R l₁ l₂) (i : Nat) :
    (l₁[i]? = none ∧ l₂[i]? = none) ∨ ∃ a b, l₁[i]? = some a ∧ l₂[i]? = some b ∧ R a b := by
  induction h generalizing i with
  | nil => exact Or.inl ⟨rfl, rfl⟩
  | cons hr _ ih =>
    cases i with
    | zero => exact Or.inr ⟨_, _, rfl, rfl, hr⟩
    | succ i => simpa using ih i

/-- `All2` is exactly "same length and related at every index" -/
theorem All2.iff_getElem {α β : Type} {R : α → β → Prop} {l₁ : List α} {l₂ : List β} :
    All2 R l₁ l₂ ↔ l₁.length = l₂.length ∧
      ∀ (i : Nat) a b, l₁[i]? = some a → l₂[i]? = some b → R a b := by
  constructor
  · intro h
    refine ⟨h.length_eq, fun i a b ha hb => ?_⟩
    rcases h.getElem? i with ⟨h1, _⟩ | ⟨a', b', h1, h2, hr⟩
    · rw [h1] at ha; cases ha
    · rw [h1] at ha; rw [h2] at hb; cases ha; cases hb; exact hr
  · intro ⟨hl, hi⟩
    induction l₁ generalizing l₂ with
    | nil =>
      cases l₂ with
      | nil => exact .nil
      | cons b l₂ => simp at hl
    | cons a l₁ ih =>
      cases l₂ with
      | nil => simp at hl
      | cons b l₂ =>
        refine .cons (hi 0 a b rfl rfl) (ih (by simpa using hl) (fun i x y hx hy => ?_))
        exact hi (i + 1) x y (by simpa using hx) (by simpa using hy)

instance All2.dec {α β : Type} {R : α → β → Prop} [∀ a b, Decidable (R a b)] :
    ∀ (l₁ : List α) (l₂ : List β), Decidable (All2 R l₁ l₂)
  | [], [] => isTrue .nil
  | [], _ :: _ => isFalse (fun h => by cases h)
  | _ :: _, [] => isFalse (fun h => by cases h)
  | a :: l₁, b :: l₂ =>
    match (inferInstance : Decidable (R a b)), All2.dec l₁ l₂ with
    | isTrue h₁, isTrue h₂ => isTrue (.cons h₁ h₂)
    | isFalse h₁, _ => isFalse (fun h => by cases h with | cons hr _ => exact h₁ hr)
    | _, isFalse h₂ => isFalse (fun h => by cases h with | cons _ hl => exact h₂ hl)

namespace TokLemmas

/-! ### one-step unfoldings of `btoks` -/

theorem btoks_nil : btoks [] = [] := by rw [btoks]

theorem btoks_cons_ne {c : Nat} (hc : c ≠ 37) (r : Str) :
    btoks (c :: r) = (utf8 c).map .lit ++ btoks r := by
  rw [btoks]; simp only [hc, if_false]

theorem btoks_esc {rest rest' : Str} {v d1 d2 : Nat}
    (hm : takeEscape restoreCh rest = some (v, d1, d2, rest')) :
    btoks (37 :: rest) = .esc v :: btoks rest' := by
  rw [btoks]
  simp only [if_true]
  split
  · rename_i v' a b rest'' heq
    rw [hm] at heq
    simp only [Option.some.injEq, Prod.mk.injEq] at heq
    obtain ⟨rfl, _, _, rfl⟩ := heq
    rfl
  · rename_i heq
    rw [hm] at heq
    exact absurd heq (by simp)

theorem btoks_noesc {rest : Str} (hm : takeEscape restoreCh rest = none) :
    btoks (37 :: rest) = .lit 37 :: btoks rest := by
  rw [btoks]
  simp only [if_true]
  split
  · rename_i heq
    rw [hm] at heq
    exact absurd heq (by simp)
  · rfl

/-- an ASCII character other than '%' is its own literal token -/
theorem btoks_ascii {c : Nat} (hc : c < 128) (h37 : c ≠ 37) (r : Str) :
    btoks (c :: r) = .lit c :: btoks r := by
  rw [btoks_cons_ne h37, utf8_lt128 hc]; rfl

/-- an upper-case escape written by the quoter is one escape token -/
theorem btoks_pct {b : Nat} (hb : b < 256) (r : Str) : btoks (pct b ++ r) = .esc b :: btoks r := by
  simp only [pct, List.cons_append, List.nil_append]
  exact btoks_esc (takeEscape_pct hb r)

theorem btoks_flatMap_pct (bs : List Nat) (hb : ∀ b ∈ bs, b < 256) (r : Str) :
    btoks (bs.flatMap pct ++ r) = bs.map .esc ++ btoks r := by
  induction bs with
  | nil => rfl
  | cons b bs ih =>
    rw [List.flatMap_cons, List.append_assoc, btoks_pct (hb b (by simp)),
      ih (fun x hx => hb x (by simp [hx]))]
    rfl

/-- the bytes the tokens stand for are the percent-decoded bytes -/
theorem btoks_val (s : Str) : (btoks s).map BTok.val = pctDecode s := by
  fun_induction pctDecode s with
  | case1 => rw [btoks_nil]; rfl
  | case2 rest v d1 d2 rest' hm ih =>
    rw [btoks_esc hm, List.map_cons, ih]; rfl
  | case3 rest hm ih =>
    rw [btoks_noesc hm, List.map_cons, ih]; rfl
  | case4 c rest hc ih =>
    rw [btoks_cons_ne hc, List.map_append, ih, List.map_map]
    congr 1
    exact List.map_id _

/-! ### what one written character / one decoded escape contributes -/

theorem tokrel_cWriteOut (t : QTab) (h : t.WF) (c : Nat) {r r' : Str}
    (ih : All2 (TokRel t) (btoks r) (btoks r')) :
    All2 (TokRel t) ((utf8 c).map .lit ++ btoks r) (btoks (cWriteOut t c ++ r')) := by
  unfold cWriteOut
  split
  · rename_i hq
    rw [hq.2, List.singleton_append, btoks_ascii (by decide) (by decide)]
    exact .cons (Or.inr ⟨hq.1, rfl, rfl⟩) ih
  · rename_i hq
    split
    · rename_i hs
      rw [List.singleton_append, btoks_ascii hs.1 (safe_ne37 h hs.2), utf8_lt128 hs.1]
      exact .cons (Or.inl ⟨rfl, hs.1, hs.2, hq⟩) ih
    · rename_i hs
      rw [writeUtf8, btoks_flatMap_pct _ (utf8_lt256' c)]
      refine All2.append (All2.maps _ _ _ ?_) ih
      intro b hb
      refine ⟨rfl, ?_, ?_⟩
      · by_cases hc : c < 128
        · rw [utf8_lt128 hc] at hb
          have : b = c := by simpa using hb
          rw [this]; exact hs
        · have := QuoteEquiv.utf8_high (c := c) (by omega) b hb
          omega
      · by_cases hc : c < 128
        · rw [utf8_lt128 hc] at hb
          have : b = c := by simpa using hb
          rw [this]; exact hq
        · have := QuoteEquiv.utf8_high (c := c) (by omega) b hb
          omega

theorem tokrel_cEscOut (t : QTab) (h : t.WF) {v : Nat} (hv : v < 256) {r r' : Str}
    (ih : All2 (TokRel t) (btoks r) (btoks r')) :
    All2 (TokRel t) (.esc v :: btoks r) (btoks (cEscOut t v ++ r')) := by
  unfold cEscOut
  split
  · rename_i hp
    rw [btoks_pct hv]
    exact .cons ⟨rfl, Or.inr (Or.inr hp.2)⟩ ih
  · rename_i hnp
    split
    · rename_i hs
      rw [List.singleton_append, btoks_ascii hs.1 (safe_ne37 h hs.2)]
      refine .cons ⟨rfl, hs.1, hs.2, ?_⟩ ih
      cases hp : t.prot v with
      | false => rfl
      | true => exact absurd ⟨hs.1, hp⟩ hnp
    · rename_i hns
      rw [btoks_pct hv]
      refine .cons ⟨rfl, ?_⟩ ih
      by_cases hlt : v < 128
      · right; left
        cases hsv : t.safe v with
        | false => rfl
        | true => exact absurd ⟨hlt, hsv⟩ hns
      · left; omega

theorem tokrelNR_cWriteOut (t : QTab) (h : t.WF) (c : Nat) {bs : List BTok} {r' : Str}
    (ih : All2 (TokRelNR t) bs (btoks r')) :
    All2 (TokRelNR t) ((utf8 c).map .lit ++ bs) (btoks (cWriteOut t c ++ r')) := by
  unfold cWriteOut
  split
  · rename_i hq
    rw [hq.2, List.singleton_append, btoks_ascii (by decide) (by decide)]
    exact .cons (Or.inr ⟨hq.1, rfl, rfl⟩) ih
  · rename_i hq
    split
    · rename_i hs
      rw [List.singleton_append, btoks_ascii hs.1 (safe_ne37 h hs.2), utf8_lt128 hs.1]
      exact .cons (Or.inl ⟨rfl, hs.1, hs.2, hq⟩) ih
    · rename_i hs
      rw [writeUtf8, btoks_flatMap_pct _ (utf8_lt256' c)]
      refine All2.append (All2.maps _ _ _ ?_) ih
      intro b hb
      refine ⟨rfl, ?_, ?_⟩
      · by_cases hc : c < 128
        · rw [utf8_lt128 hc] at hb
          have : b = c := by simpa using hb
          rw [this]; exact hs
        · have := QuoteEquiv.utf8_high (c := c) (by omega) b hb
          omega
      · by_cases hc : c < 128
        · rw [utf8_lt128 hc] at hb
          have : b = c := by simpa using hb
          rw [this]; exact hq
        · have := QuoteEquiv.utf8_high (c := c) (by omega) b hb
          omega

/-! ### how related tokens compare with a delimiter token -/

/-- a protected character that is neither the form-space nor the form-plus keeps its exact
    status in every related pair of tokens -/
theorem tokrel_delim {t : QTab} (h : t.WF) {d : Nat} (hd : t.prot d = true)
    (hq : t.qs = true → d ≠ 32 ∧ d ≠ 43) {x y : BTok} (hr : TokRel t x y) :
    (decide (x = .lit d) = decide (y = .lit d)) ∧ (decide (x = .esc d) = decide (y = .esc d)) := by
  have hsafe := h.prot_safe d hd
  have hlt := h.safe_ascii d hsafe
  cases x with
  | esc b =>
    cases y with
    | esc b' =>
      obtain ⟨rfl, _⟩ := hr
      exact ⟨rfl, rfl⟩
    | lit b' =>
      obtain ⟨rfl, _, _, hp⟩ := hr
      have hne : b' ≠ d := by rintro rfl; rw [hd] at hp; cases hp
      simp [hne]
  | lit b =>
    cases y with
    | lit b' =>
      rcases hr with ⟨rfl, _⟩ | ⟨hqs, rfl, rfl⟩
      · exact ⟨rfl, rfl⟩
      · have := hq hqs
        simp [Ne.symm this.1, Ne.symm this.2]
    | esc b' =>
      obtain ⟨rfl, hns, _⟩ := hr
      have hne : b' ≠ d := by rintro rfl; exact hns ⟨hlt, hsafe⟩
      simp [hne]

/-- '+' in a form table: the literal '+' of the output comes from a literal '+' or a literal
    space; the escape %2B stays the escape %2B -/
theorem tokrel_plus {t : QTab} (h : t.WF) (hqs : t.qs = true) (hp : t.prot 43 = true)
    {x y : BTok} (hr : TokRel t x y) :
    (decide (x = .lit 43 ∨ x = .lit 32) = decide (y = .lit 43)) ∧
    (decide (x = .esc 43) = decide (y = .esc 43)) := by
  have hsafe := h.prot_safe 43 hp
  cases x with
  | esc b =>
    cases y with
    | esc b' =>
      obtain ⟨rfl, _⟩ := hr
      simp
    | lit b' =>
      obtain ⟨rfl, _, _, hp'⟩ := hr
      have hne : b' ≠ 43 := by rintro rfl; rw [hp] at hp'; cases hp'
      simp [hne]
  | lit b =>
    cases y with
    | lit b' =>
      rcases hr with ⟨rfl, _, _, hn32⟩ | ⟨_, rfl, rfl⟩
      · have : b' ≠ 32 := fun e => hn32 ⟨hqs, e⟩
        simp [this]
      · simp
    | esc b' =>
      obtain ⟨rfl, hns, hn32⟩ := hr
      have hne : b' ≠ 43 := by rintro rfl; exact hns ⟨by decide, hsafe⟩
      have : b' ≠ 32 := fun e => hn32 ⟨hqs, e⟩
      simp [hne, this]

/-! ### splitting at a literal delimiter -/

theorem fromHex_none_of_nothex {d : Nat} (h : isHexC d = false) : fromHex d = none := by
  cases e : fromHex d with
  | none => rfl
  | some a => rw [fromHex_isHexC e] at h; cases h

/-- an escape never spans a non-hex character: the look-ahead after '%' gives the same
    answer whether or not the text continues with `d :: b` -/
theorem takeEscape_append_some {rest rest' : Str} {v d1 d2 : Nat}
    (hm : takeEscape restoreCh rest = some (v, d1, d2, rest')) (tl : Str) :
    takeEscape restoreCh (rest ++ tl) = some (v, d1, d2, rest' ++ tl) := by
  obtain ⟨rfl, hv⟩ := takeEscape_eq hm
  simp [takeEscape, hv]

theorem takeEscape_append_none {rest : Str} (hm : takeEscape restoreCh rest = none) {d : Nat}
    (hd : isHexC d = false) (b : Str) : takeEscape restoreCh (rest ++ d :: b) = none := by
  have hf := fromHex_none_of_nothex hd
  match rest, hm with
  | [], _ =>
    cases b with
    | nil => rfl
    | cons x b => simp [takeEscape, Hex.restoreCh_none_left x hf]
  | [x], _ => simp [takeEscape, Hex.restoreCh_none_right x hf]
  | x :: y :: r, hm =>
    simp only [takeEscape] at hm
    split at hm
    · cases hm
    · rename_i hn
      simp [takeEscape, hn]

/-- quoting distributes over a literal safe non-hex character -/
theorem cOut_append_sep (t : QTab) (h : t.WF) {d : Nat} (hs : t.safe d = true)
    (hhex : isHexC d = false) (hq : ¬ (t.qs = true ∧ d = 32)) (a b : Str) :
    cOut t (a ++ d :: b) = cOut t a ++ d :: cOut t b := by
  have h37 := safe_ne37 h hs
  fun_induction cOut t a with
  | case1 =>
    rw [List.nil_append, cOut_cons_ne t h37, cWriteOut_lit t h hs hq]; rfl
  | case2 c rest hc v d1 d2 rest' hm ih =>
    rw [hc.1, List.cons_append, cOut_cons_esc t hc.2 (takeEscape_append_some hm _), ih,
      List.append_assoc]
  | case3 c rest hc hm ih =>
    rw [hc.1, List.cons_append, QuoteEquiv.cOut_noesc t hc.2 (takeEscape_append_none hm hhex b), ih,
      List.append_assoc]
  | case4 c rest hc ih =>
    rw [List.cons_append, QuoteEquiv.cOut_plain t hc, ih, List.append_assoc]

theorem exists_first {d : Nat} {s : Str} (h : d ∈ s) : ∃ a b, s = a ++ d :: b ∧ d ∉ a := by
  induction s with
  | nil => cases h
  | cons x xs ih =>
    by_cases hx : x = d
    · exact ⟨[], xs, by simp [hx], by simp⟩
    · have : d ∈ xs := by
        rcases List.mem_cons.1 h with e | e
        · exact absurd e.symm hx
        · exact e
      obtain ⟨a, b, e, hn⟩ := ih this
      exact ⟨x :: a, b, by simp [e], by simp [hn, Ne.symm hx]⟩

theorem splitOn_not_mem {d : Nat} {s : Str} (h : d ∉ s) : splitOn d s = [s] := by
  induction s with
  | nil => rfl
  | cons x xs ih =>
    have hx : x ≠ d := fun e => h (by simp [e])
    exact PathLemmas.splitOn_cons_ne d x xs hx (ih (fun hm => h (List.mem_cons_of_mem _ hm)))

theorem splitOn_append_sep {d : Nat} {a : Str} (h : d ∉ a) (b : Str) :
    splitOn d (a ++ d :: b) = a :: splitOn d b := by
  induction a with
  | nil => simp [splitOn]
  | cons x xs ih =>
    have hx : x ≠ d := fun e => h (by simp [e])
    exact PathLemmas.splitOn_cons_ne d x _ hx (ih (fun hm => h (List.mem_cons_of_mem _ hm)))

theorem partition_not_mem {d : Nat} {s : Str} (h : d ∉ s) : partition d s = (s, false, []) := by
  induction s with
  | nil => rfl
  | cons x xs ih =>
    have hx : x ≠ d := fun e => h (by simp [e])
    simp [partition, hx, ih (fun hm => h (List.mem_cons_of_mem _ hm))]

theorem partition_append_sep {d : Nat} {a : Str} (h : d ∉ a) (b : Str) :
    partition d (a ++ d :: b) = (a, true, b) := by
  induction a with
  | nil => simp [partition]
  | cons x xs ih =>
    have hx : x ≠ d := fun e => h (by simp [e])
    simp [partition, hx, ih (fun hm => h (List.mem_cons_of_mem _ hm))]

theorem not_mem_cOut {t : QTab} (h : t.WF) {d : Nat} (k : Tracked t d) {s : Str} (hn : d ∉ s) :
    d ∉ cOut t s := by
  intro hm
  have := C02_literal_count t h d k.prot k.nothex k.noqs s
  rw [List.count_eq_zero_of_not_mem hn] at this
  exact absurd (List.count_pos_iff.2 hm) (by omega)

/-- splitting at a tracked delimiter commutes with quoting -/
theorem splitOn_cOut (t : QTab) (h : t.WF) {d : Nat} (k : Tracked t d) (s : Str) :
    splitOn d (cOut t s) = (splitOn d s).map (cOut t) := by
  have hq : ¬ (t.qs = true ∧ d = 32) := fun hq => (k.noqs hq.1).1 hq.2
  have aux : ∀ n, ∀ s : Str, s.length ≤ n → splitOn d (cOut t s) = (splitOn d s).map (cOut t) := by
    intro n
    induction n with
    | zero =>
      intro s hs
      have : s = [] := List.eq_nil_of_length_eq_zero (by omega)
      subst this
      have e : cOut t [] = [] := by rw [cOut]
      simp [splitOn, e]
    | succ n ih =>
      intro s hs
      by_cases hm : d ∈ s
      · obtain ⟨a, b, rfl, hna⟩ := exists_first hm
        rw [cOut_append_sep t h (k.safe h) k.nothex hq, splitOn_append_sep (not_mem_cOut h k hna),
          splitOn_append_sep hna, List.map_cons, ih b (by simp at hs; omega)]
      · rw [splitOn_not_mem hm, splitOn_not_mem (not_mem_cOut h k hm)]; rfl
  exact aux s.length s (Nat.le_refl _)

/-- the split at the first occurrence of a tracked delimiter commutes with quoting -/
theorem partition_cOut (t : QTab) (h : t.WF) {d : Nat} (k : Tracked t d) (s : Str) :
    partition d (cOut t s) =
      (cOut t (partition d s).1, (partition d s).2.1, cOut t (partition d s).2.2) := by
  have hq : ¬ (t.qs = true ∧ d = 32) := fun hq => (k.noqs hq.1).1 hq.2
  by_cases hm : d ∈ s
  · obtain ⟨a, b, rfl, hna⟩ := exists_first hm
    rw [cOut_append_sep t h (k.safe h) k.nothex hq, partition_append_sep (not_mem_cOut h k hna),
      partition_append_sep hna]
  · rw [partition_not_mem hm, partition_not_mem (not_mem_cOut h k hm)]
    simp only
    rw [cOut]

theorem stripSurr_cons_of_not {x : Nat} (hx : isSurrogate x = false) (xs : Str) :
    stripSurr (x :: xs) = x :: stripSurr xs := by
  simp [stripSurr, hx]

theorem stripSurr_cons_of {x : Nat} (hx : isSurrogate x = true) (xs : Str) :
    stripSurr (x :: xs) = stripSurr xs := by
  simp [stripSurr, hx]

theorem splitOn_stripSurr {d : Nat} (hd : isSurrogate d = false) (s : Str) :
    splitOn d (stripSurr s) = (splitOn d s).map stripSurr := by
  induction s with
  | nil => rfl
  | cons x xs ih =>
    by_cases hx : x = d
    · subst hx
      rw [stripSurr_cons_of_not hd]
      simp [splitOn, ih]
      rfl
    · obtain ⟨p, ps, e⟩ := List.exists_cons_of_ne_nil (PathLemmas.splitOn_ne_nil d xs)
      rw [PathLemmas.splitOn_cons_ne d x xs hx e]
      rw [e] at ih
      cases hsx : isSurrogate x with
      | true =>
        rw [stripSurr_cons_of hsx, ih, List.map_cons, List.map_cons, stripSurr_cons_of hsx]
      | false =>
        rw [stripSurr_cons_of_not hsx, List.map_cons, stripSurr_cons_of_not hsx]
        rw [List.map_cons] at ih
        exact PathLemmas.splitOn_cons_ne d x _ hx ih

theorem partition_stripSurr {d : Nat} (hd : isSurrogate d = false) (s : Str) :
    partition d (stripSurr s) =
      (stripSurr (partition d s).1, (partition d s).2.1, stripSurr (partition d s).2.2) := by
  induction s with
  | nil => rfl
  | cons x xs ih =>
    by_cases hx : x = d
    · subst hx
      rw [stripSurr_cons_of_not hd]
      simp [partition]
      rfl
    · cases hsx : isSurrogate x with
      | true =>
        rw [stripSurr_cons_of hsx, ih]
        simp [partition, hx, stripSurr_cons_of hsx]
      | false =>
        rw [stripSurr_cons_of_not hsx]
        simp [partition, hx, ih, stripSurr_cons_of_not hsx]

theorem pyStr_of_subset {a s : Str} (hs : PyStr s) (h : ∀ x ∈ a, x ∈ s) : PyStr a :=
  fun c hc => hs c (h c hc)

theorem partition_fst_sub (d : Nat) (s : Str) : ∀ x ∈ (partition d s).1, x ∈ s := by
  rw [ParseLemmas.partition_eq]
  intro x hx
  exact (List.takeWhile_sublist _).subset hx

theorem partition_snd_sub (d : Nat) (s : Str) : ∀ x ∈ (partition d s).2.2, x ∈ s := by
  rw [ParseLemmas.partition_eq]
  intro x hx
  exact (List.dropWhile_sublist _).subset ((List.drop_sublist _ _).subset hx)

end TokLemmas

end Yarl
