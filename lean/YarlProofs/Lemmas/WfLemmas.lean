/-
  WfLemmas.lean — helper lemmas for C01 (well-formed canonical output) and C02
  (canonicalisation preserves meaning).
-/
import YarlModel
import YarlProofs.Defs
import YarlProofs.Lemmas.OutLang
import YarlProofs.Lemmas.QuoteEquiv
import YarlProofs.Lemmas.GenTabs
import YarlProofs.Lemmas.PathLemmas
import YarlProofs.Lemmas.ParseLemmas
import YarlProofs.C07
import YarlProofs.C12Readback
import YarlProofs.Lemmas.MdLemmas
import YarlProofs.Lemmas.PathAlg
set_option linter.unusedVariables false
namespace Yarl
namespace WfLemmas

open OutLangLemmas QsLemmas

/-! ### monotonicity of the output language -/

theorem outLang_mono {t t' : QTab} (hsafe : ∀ c, t.safe c = true → t'.safe c = true)
    (hqs : t.qs = true → t'.qs = true) {s : Str} : OutLang t s → OutLang t' s := by
  intro hs
  induction hs with
  | nil => exact OutLang.nil
  | lit c r hc h37 _ ih => exact OutLang.lit c r (hsafe c hc) h37 ih
  | plus r hq _ ih => exact OutLang.plus r (hqs hq) ih
  | esc b r hb _ ih => exact OutLang.esc b r hb ih

/-- a safe-set inclusion only has to be checked below 128 -/
theorem safe_sub_of_lt {t t' : QTab} (h : t.WF)
    (hlt : ∀ c, c < 128 → t.safe c = true → t'.safe c = true) :
    ∀ c, t.safe c = true → t'.safe c = true :=
  fun c hc => hlt c (h.safe_ascii c hc) hc

theorem outLang_singleton {t : QTab} {c : Nat} (hs : t.safe c = true) (h37 : c ≠ 37) : OutLang t [c] :=
  OutLang.lit c [] hs h37 OutLang.nil

theorem outLang_cons {t : QTab} {c : Nat} {r : Str} (hs : t.safe c = true) (h37 : c ≠ 37)
    (hr : OutLang t r) : OutLang t (c :: r) := OutLang.lit c r hs h37 hr

/-! ### splitting and joining at a safe separator -/

theorem outLang_splitOn {t : QTab} (d : Nat) (hd37 : d ≠ 37) (hdhex : isUpperHexDigit d = false) {s : Str} :
    OutLang t s → ∀ seg ∈ splitOn d s, OutLang t seg := by
  intro hs
  induction hs with
  | nil => intro seg h; simp [splitOn] at h; subst h; exact OutLang.nil
  | lit c r hc h37 _ ih =>
    intro seg h
    by_cases hcd : c = d
    · subst hcd
      simp only [splitOn, if_true, List.mem_cons] at h
      rcases h with rfl | h
      · exact OutLang.nil
      · exact ih seg h
    · cases hsp : splitOn d r with
      | nil => exact absurd hsp (PathLemmas.splitOn_ne_nil d r)
      | cons p ps =>
        rw [PathLemmas.splitOn_cons_ne d c r hcd hsp] at h
        rcases List.mem_cons.mp h with rfl | h
        · exact OutLang.lit c p hc h37 (ih p (by simp [hsp]))
        · exact ih seg (by simp [hsp, h])
  | plus r hq _ ih =>
    intro seg h
    by_cases hcd : 43 = d
    · subst hcd
      simp only [splitOn, if_true, List.mem_cons] at h
      rcases h with rfl | h
      · exact OutLang.nil
      · exact ih seg h
    · cases hsp : splitOn d r with
      | nil => exact absurd hsp (PathLemmas.splitOn_ne_nil d r)
      | cons p ps =>
        rw [PathLemmas.splitOn_cons_ne d 43 r hcd hsp] at h
        rcases List.mem_cons.mp h with rfl | h
        · exact OutLang.plus p hq (ih p (by simp [hsp]))
        · exact ih seg (by simp [hsp, h])
  | esc b r hb _ ih =>
    intro seg h
    have h1 : toHex (b / 16) ≠ d := by
      intro e; have := toHex_upper (x := b / 16) (by omega); rw [e, hdhex] at this; exact Bool.noConfusion this
    have h2 : toHex (b % 16) ≠ d := by
      intro e; have := toHex_upper (x := b % 16) (by omega); rw [e, hdhex] at this; exact Bool.noConfusion this
    cases hsp : splitOn d r with
    | nil => exact absurd hsp (PathLemmas.splitOn_ne_nil d r)
    | cons p ps =>
      have e3 := PathLemmas.splitOn_cons_ne d _ r h2 hsp
      have e2 := PathLemmas.splitOn_cons_ne d _ _ h1 e3
      have e1 := PathLemmas.splitOn_cons_ne d 37 _ (Ne.symm hd37) e2
      simp only [pct, List.cons_append, List.nil_append] at h
      rw [e1] at h
      rcases List.mem_cons.mp h with rfl | h
      · exact OutLang.esc b p hb (ih p (by simp [hsp]))
      · exact ih seg (by simp [hsp, h])

theorem outLang_joinC {t : QTab} (d : Nat) (hd : t.safe d = true) (hd37 : d ≠ 37) (segs : List Str)
    (h : ∀ seg ∈ segs, OutLang t seg) : OutLang t (joinC d segs) := by
  induction segs with
  | nil => exact OutLang.nil
  | cons p ps ih =>
    cases ps with
    | nil => simpa [joinC, joinSep] using h p (by simp)
    | cons p2 ps2 =>
      have : joinC d (p :: p2 :: ps2) = p ++ ([d] ++ joinC d (p2 :: ps2)) := by
        simp [joinC, joinSep]
      rw [this]
      exact outLang_append t (h p (by simp))
        (outLang_append t (outLang_singleton hd hd37) (ih (fun s hs => h s (by simp [hs]))))

theorem outLang_joinC_iff {t : QTab} (d : Nat) (hd : t.safe d = true) (hd37 : d ≠ 37)
    (hdhex : isUpperHexDigit d = false) (segs : List Str) (hne : segs ≠ [])
    (hsep : ∀ p ∈ segs, d ∉ p) :
    OutLang t (joinC d segs) ↔ ∀ seg ∈ segs, OutLang t seg := by
  constructor
  · intro h seg hseg
    have := outLang_splitOn d hd37 hdhex h seg
    rw [QsLemmas.splitOn_joinC d segs hne hsep] at this
    exact this hseg
  · exact outLang_joinC d hd hd37 segs

/-! ### `normalizePath` stays inside the output language -/

theorem mem_normalizePathSegments {segs : List Str} {s : Str} (hs : s ∈ normalizePathSegments segs) :
    s ∈ segs ∨ s = [] := by
  have key : s ∈ normLoop [] segs ∨ s = [] := by
    unfold normalizePathSegments at hs
    split at hs
    · split at hs
      · rcases List.mem_append.1 hs with h | h
        · exact Or.inl h
        · exact Or.inr (by simpa using h)
      · exact Or.inl hs
    · exact Or.inl hs
  rcases key with h | h
  · rcases PathLemmas.normLoop_mem [] segs s h with h | ⟨h, _⟩
    · simp at h
    · exact Or.inl h
  · exact Or.inr h

theorem outLang_normalizePathSegments {t : QTab} {segs : List Str} (h : ∀ s ∈ segs, OutLang t s) :
    ∀ s ∈ normalizePathSegments segs, OutLang t s := by
  intro s hs
  rcases mem_normalizePathSegments hs with h' | rfl
  · exact h s h'
  · exact OutLang.nil

theorem hex47 : isUpperHexDigit 47 = false := by decide

theorem outLang_normalizePath {t : QTab} (h47 : t.safe 47 = true) {p : Str} (hp : OutLang t p) :
    OutLang t (normalizePath p) := by
  have hsegs := outLang_splitOn (t := t) 47 (by decide) hex47 hp
  unfold normalizePath
  split
  · rename_i rest
    have hsegs' : ∀ seg ∈ splitOn 47 rest, OutLang t seg := by
      intro seg hseg
      apply hsegs seg
      simp only [splitOn, if_true, List.mem_cons]
      exact Or.inr hseg
    exact outLang_cons h47 (by decide)
      (outLang_joinC 47 h47 (by decide) _ (outLang_normalizePathSegments hsegs'))
  · exact outLang_joinC 47 h47 (by decide) _ (outLang_normalizePathSegments hsegs)

/-! ### the parts of a parsed URL are Python strings when the input is -/

theorem pyStr_of_sublist {a b : Str} (h : a.Sublist b) (hb : PyStr b) : PyStr a :=
  fun c hc => hb c (h.subset hc)

theorem pyStr_nil : PyStr [] := fun c hc => by simp at hc

theorem pyStr_append {x y : Str} (hx : PyStr x) (hy : PyStr y) : PyStr (x ++ y) := by
  intro c hc
  rcases List.mem_append.mp hc with h | h
  · exact hx c h
  · exact hy c h

theorem cleanUrl_sublist (s : Str) : (cleanUrl s).Sublist s := by
  unfold cleanUrl
  rw [ParseLemmas.lstripSet_eq]
  exact List.filter_sublist.trans (List.dropWhile_sublist _)

theorem schemeOf_snd_sublist (sc s : Str) : (Rfc.schemeOf sc s).2.Sublist s := by
  unfold Rfc.schemeOf
  simp only
  split
  · rename_i rest heq
    split
    · have h1 : rest.Sublist (58 :: rest) := List.sublist_cons_self _ _
      rw [← heq] at h1
      exact h1.trans (List.dropWhile_sublist _)
    · exact List.Sublist.refl _
  · exact List.Sublist.refl _

theorem authOf_sublist (r1 : Str) :
    (ParseLemmas.authOf r1).1.Sublist r1 ∧ (ParseLemmas.authOf r1).2.Sublist r1 := by
  rw [ParseLemmas.authOf_eq]
  split
  · exact ⟨(List.takeWhile_sublist _).trans (List.drop_sublist _ _),
      (List.dropWhile_sublist _).trans (List.drop_sublist _ _)⟩
  · exact ⟨List.nil_sublist _, List.Sublist.refl _⟩

theorem tailOf_sublist (r2 : Str) :
    (ParseLemmas.tailOf r2).1.Sublist r2 ∧ (ParseLemmas.tailOf r2).2.1.Sublist r2 ∧
      (ParseLemmas.tailOf r2).2.2.Sublist r2 := by
  rw [ParseLemmas.tailOf_eq]
  exact ⟨(List.takeWhile_sublist _).trans (List.takeWhile_sublist _),
    (List.drop_sublist _ _).trans ((List.dropWhile_sublist _).trans (List.takeWhile_sublist _)),
    (List.drop_sublist _ _).trans (List.dropWhile_sublist _)⟩

theorem splitUrl_sublist (o : Oracles) (s : Str) (p : Parts) (h : splitUrl o s = .ok p) :
    p.netloc.Sublist s ∧ p.path.Sublist s ∧ p.query.Sublist s ∧ p.fragment.Sublist s := by
  have hB := C07_split o s p h
  rw [ParseLemmas.appendixB_eq] at hB
  simp only [toParts5, Rfc.Parts5.mk.injEq] at hB
  obtain ⟨_, h2, h3, h4, h5⟩ := hB
  have hc := cleanUrl_sublist s
  have h1 := (schemeOf_snd_sublist Gen.schemeChars (cleanUrl s)).trans hc
  have ha := authOf_sublist (Rfc.schemeOf Gen.schemeChars (cleanUrl s)).2
  have ht := tailOf_sublist (ParseLemmas.authOf (Rfc.schemeOf Gen.schemeChars (cleanUrl s)).2).2
  rw [h2, h3, h4, h5]
  exact ⟨ha.1.trans h1, ht.1.trans (ha.2.trans h1), ht.2.1.trans (ha.2.trans h1),
    ht.2.2.trans (ha.2.trans h1)⟩

theorem splitUrl_pyStr (o : Oracles) (s : Str) (hs : PyStr s) (p : Parts) (h : splitUrl o s = .ok p) :
    PyStr p.netloc ∧ PyStr p.path ∧ PyStr p.query ∧ PyStr p.fragment := by
  obtain ⟨h1, h2, h3, h4⟩ := splitUrl_sublist o s p h
  exact ⟨pyStr_of_sublist h1 hs, pyStr_of_sublist h2 hs, pyStr_of_sublist h3 hs, pyStr_of_sublist h4 hs⟩

theorem orNone_some {s x : Str} (h : orNone s = some x) : x = s := by
  unfold orNone at h
  split at h
  · cases h
  · cases h; rfl

theorem splitNetloc_pyStr (o : Oracles) (n : Str) (hn : PyStr n) (r : NetlocParts)
    (h : splitNetloc o n = .ok r) :
    (∀ x, r.user = some x → PyStr x) ∧ (∀ x, r.password = some x → PyStr x) := by
  by_cases h64 : 64 ∈ n
  · obtain ⟨ui, hi, hn', _, hu, hp⟩ := C07_netloc_userinfo o n r h64 h
    have hui : PyStr ui := by
      intro c hc
      exact hn c (by rw [hn']; simp [hc])
    constructor
    · intro x hx
      rw [hu] at hx
      rw [orNone_some hx]
      exact pyStr_of_sublist (List.takeWhile_sublist _) hui
    · intro x hx
      rw [hp] at hx
      split at hx
      · cases hx
        exact pyStr_of_sublist ((List.drop_sublist _ _).trans (List.dropWhile_sublist _)) hui
      · cases hx
  · obtain ⟨hu, hp⟩ := C07_netloc_no_userinfo o n r h64 h
    rw [hu, hp]
    exact ⟨fun x hx => (by cases hx), fun x hx => (by cases hx)⟩

/-! ### the success path of `encodeUrl` -/

theorem bind_ok {α β} {x : R α} {f : α → R β} {b : β} (h : (x >>= f) = .ok b) :
    ∃ a, x = .ok a ∧ f a = .ok b := by
  cases x with
  | error e => cases h
  | ok a => exact ⟨a, rfl, h⟩

theorem encodeUrl_shape (e : Env) (s : Str) (u : Url) (h : encodeUrl e s = .ok u) :
    ∃ (p : Parts) (netloc : Str), splitUrl e.o s = .ok p ∧
      u.path = (if p.path.isEmpty then p.path else
        if !netloc.isEmpty && mem 46 (q e Gen.PATH_REQUOTER p.path) then normalizePath (q e Gen.PATH_REQUOTER p.path)
        else q e Gen.PATH_REQUOTER p.path) ∧
      u.query = (if p.query.isEmpty then p.query else q e Gen.QUERY_REQUOTER p.query) ∧
      u.fragment = (if p.fragment.isEmpty then p.fragment else q e Gen.FRAGMENT_REQUOTER p.fragment) ∧
      (∀ pr, u.pre = some pr → (pr.rawUser = none ∧ pr.rawPassword = none) ∨
        ∃ np, splitNetloc e.o p.netloc = .ok np ∧
          pr.rawUser = (requoteOpt e np.user).bind (fun s => if s.isEmpty then none else some s) ∧
          pr.rawPassword = requoteOpt e np.password) := by
  unfold encodeUrl at h
  obtain ⟨p, hp, h⟩ := bind_ok h
  obtain ⟨⟨netloc, pre⟩, hnp, h⟩ := bind_ok h
  simp only [pure, Except.pure, Except.ok.injEq] at h
  subst h
  refine ⟨p, netloc, hp, rfl, rfl, rfl, ?_⟩
  intro pr hpr
  simp only at hpr
  subst hpr
  split at hnp
  · cases hnp
  · obtain ⟨np, hnp1, hnp⟩ := bind_ok hnp
    obtain ⟨host0, _, hnp⟩ := bind_ok hnp
    obtain ⟨host, _, hnp⟩ := bind_ok hnp
    simp only [pure, Except.pure] at hnp
    split at hnp
    · cases hnp; exact Or.inl ⟨rfl, rfl⟩
    · rename_i hnone
      cases hnp
      split at hnp1
      · exact Or.inr ⟨np, hnp1, rfl, rfl⟩
      · cases hnp1
        simp at hnone

theorem isEmpty_eq_nil {s : Str} (h : s.isEmpty = true) : s = [] := List.isEmpty_iff.mp h

/-- `(x or None)`: the filter `encodeUrl` applies to the requoted user (since commit 2fdb38c) -/
theorem orNoneBind_some {o : Option Str} {x : Str} :
    (o.bind (fun s => if s.isEmpty then none else some s)) = some x ↔ o = some x ∧ x ≠ [] := by
  cases o with
  | none => simp
  | some s =>
    cases s with
    | nil => simp
    | cons c r => simp; intro h; subst h; simp

/-- the cached user is never the empty string -/
theorem orNoneBind_ne_nil {o : Option Str} :
    (o.bind (fun s => if s.isEmpty then none else some s)) ≠ some [] :=
  fun h => (orNoneBind_some.mp h).2 rfl

theorem orNoneBind_none {o : Option Str} :
    (o.bind (fun s => if s.isEmpty then none else some s)) = none ↔ o = none ∨ o = some [] := by
  cases o with
  | none => simp
  | some s => cases s <;> simp

theorem orNoneBind_of_ne {o : Option Str} (h : o ≠ some []) :
    (o.bind (fun s => if s.isEmpty then none else some s)) = o := by
  cases o with
  | none => rfl
  | some s => cases s with
    | nil => exact absurd rfl h
    | cons c r => rfl

/-! ### `parse_qsl` yields Python strings -/

open MdLemmas in


theorem decodeReplaceAux_pyStr (fuel : Nat) (bs : List Nat) : PyStr (decodeReplaceAux fuel bs) := by
  fun_induction decodeReplaceAux fuel bs
  all_goals intro c hc
  all_goals simp only [List.mem_cons, List.not_mem_nil, or_false] at hc
  all_goals (try simp only [isCont, Bool.and_eq_true, Bool.or_eq_true, decide_eq_true_eq, decide_eq_false_iff_not, Bool.and_eq_false_iff,  Bool.not_eq_eq_eq_not, Bool.not_true] at *)
  all_goals first
    | omega
    | (rcases hc with hc | hc
       · omega
       · exact ‹PyStr _› c hc)

theorem stdUnquoteAux_pyStr (fuel : Nat) (s : Str) (hs : PyStr s) : PyStr (stdUnquoteAux fuel s) := by
  fun_induction stdUnquoteAux fuel s with
  | case1 => exact pyStr_nil
  | case2 => exact pyStr_nil
  | case3 fuel c rest hc run tail ih =>
    exact pyStr_append (decodeReplaceAux_pyStr _ _) (ih (pyStr_of_sublist (List.dropWhile_sublist _) hs))
  | case4 fuel c rest hc ih =>
    intro x hx
    rcases List.mem_cons.mp hx with rfl | hx
    · exact hs x (by simp)
    · exact ih (QuoteEquiv.pyStr_tail hs) x hx

theorem stdUnquote_pyStr (s : Str) (hs : PyStr s) : PyStr (stdUnquote s) := by
  unfold stdUnquote
  split
  · exact hs
  · exact stdUnquoteAux_pyStr _ _ hs

theorem plusToSpace_pyStr (s : Str) (hs : PyStr s) : PyStr (plusToSpace s) := by
  intro c hc
  simp only [plusToSpace, List.mem_map] at hc
  obtain ⟨a, ha, rfl⟩ := hc
  split
  · decide
  · exact hs a ha

theorem parseQsl_pyStr (qs : Str) (hq : PyStr qs) : ∀ p ∈ parseQsl qs, PyStr p.1 ∧ PyStr p.2 := by
  intro p hp
  unfold parseQsl at hp
  split at hp
  · simp at hp
  · simp only [List.mem_filterMap] at hp
    obtain ⟨nv, hnv, hp⟩ := hp
    have hnvpy : PyStr nv := fun c hc => hq c (PathLemmas.splitOn_sub 38 qs nv hnv c hc)
    split at hp
    · cases hp
    · simp only [splitFirstEq, ParseLemmas.partition_eq, Option.some.injEq] at hp
      subst hp
      constructor
      · exact stdUnquote_pyStr _ (plusToSpace_pyStr _ (pyStr_of_sublist (List.takeWhile_sublist _) hnvpy))
      · apply stdUnquote_pyStr _ (plusToSpace_pyStr _ _)
        split
        · exact pyStr_of_sublist ((List.drop_sublist _ _).trans (List.dropWhile_sublist _)) hnvpy
        · exact pyStr_nil

/-! ### `MultiDict.update` only moves entries around -/

open MdLemmas in
theorem mdUpdateLoop_mem {V : Type} (new : List (Str × V)) : ∀ (items : List (Str × V)) (used : List (Str × Nat)),
    ∀ x ∈ (mdUpdateLoop items used new).1, x ∈ items ∨ x ∈ new := by
  induction new with
  | nil => intro items used x hx; exact Or.inl (by simpa [mdUpdateLoop] using hx)
  | cons kv rest ih =>
    intro items used x hx
    obtain ⟨k, v⟩ := kv
    obtain ⟨items', p, heq, a, c, b, h1, h2, _, h4, _⟩ := loop_cons items used k v rest
    rw [heq] at hx
    rcases ih items' _ x hx with h | h
    · rw [h2] at h
      rcases List.mem_append.mp h with h | h
      · exact Or.inl (by rw [h1]; simp [h])
      · rcases List.mem_cons.mp h with rfl | h
        · exact Or.inr (by simp)
        · rcases h4 with ⟨_, hb⟩ | ⟨v0, hc, _⟩
          · rw [hb] at h; simp at h
          · exact Or.inl (by rw [h1, hc]; simp [h])
    · exact Or.inr (by simp [h])

open MdLemmas in
theorem mdUpdate_mem {V : Type} (old new : List (Str × V)) : ∀ x ∈ mdUpdate old new, x ∈ old ∨ x ∈ new := by
  intro x hx
  unfold mdUpdate at hx
  split at hx
  · exact Or.inl hx
  · simp only at hx
    exact mdUpdateLoop_mem new old [] x ((dt_sublist _ _ _).subset hx)


/-! ### cutting a text of the output language -/

theorem toHex_ne37 {x : Nat} (h : x < 16) : toHex x ≠ 37 := by
  intro e
  have := toHex_upper h
  rw [e] at this
  exact absurd this (by decide)

theorem outLang_tail {t : QTab} (hhex : ∀ c, isUpperHexDigit c = true → t.safe c = true) {c : Nat} {r : Str}
    (h : OutLang t (c :: r)) : OutLang t r := by
  generalize hs : c :: r = s at h
  cases h with
  | nil => cases hs
  | lit c' r' hc h37 hr => cases hs; exact hr
  | plus r' hq hr => cases hs; exact hr
  | esc b r' hb hr =>
    simp only [pct, List.cons_append, List.nil_append, List.cons.injEq] at hs
    obtain ⟨_, rfl⟩ := hs
    exact OutLang.lit _ _ (hhex _ (toHex_upper (by omega))) (toHex_ne37 (by omega))
      (OutLang.lit _ _ (hhex _ (toHex_upper (by omega))) (toHex_ne37 (by omega)) hr)

theorem outLang_drop1 {t : QTab} (hhex : ∀ c, isUpperHexDigit c = true → t.safe c = true) {s : Str}
    (h : OutLang t s) : OutLang t (s.drop 1) := by
  cases s with
  | nil => exact h
  | cons c r => exact outLang_tail hhex h

theorem outLang_cut {t : QTab} (d : Nat) (hd : t.safe d = true) (hd37 : d ≠ 37)
    (hdhex : isUpperHexDigit d = false) {a b : Str} (h : OutLang t (a ++ d :: b)) :
    OutLang t a ∧ OutLang t b := by
  have hsegs := outLang_splitOn d hd37 hdhex h
  rw [QsLemmas.splitOn_append] at hsegs
  constructor
  · rw [← PathAlg.joinC_splitOn_gen d a]
    exact outLang_joinC d hd hd37 _ (fun s hs => hsegs s (by simp [hs]))
  · rw [← PathAlg.joinC_splitOn_gen d b]
    exact outLang_joinC d hd hd37 _ (fun s hs => hsegs s (by simp [hs]))


end WfLemmas
end Yarl
