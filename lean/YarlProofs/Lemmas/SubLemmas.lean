/-
  SubLemmas.lean — facts about `hasSub` (Python's `p in s` on two strings), used by `URL.host`:
  `raw[-1].isdigit() and "xn--" not in raw or ":" in raw`.
-/
import YarlModel
namespace Yarl
namespace SubLemmas

/-- `p in s` is "`s = a ++ p ++ b` for some `a`, `b`" -/
theorem hasSub_iff (p s : Str) : hasSub p s = true ↔ ∃ a b, s = a ++ p ++ b := by
  induction s with
  | nil =>
    simp only [hasSub, List.isEmpty_iff]
    constructor
    · intro h; subst h; exact ⟨[], [], rfl⟩
    · rintro ⟨a, b, h⟩
      have := congrArg List.length h
      simp only [List.length_nil, List.length_append] at this
      exact List.eq_nil_of_length_eq_zero (by omega)
  | cons c cs ih =>
    simp only [hasSub, Bool.or_eq_true, List.isPrefixOf_iff_prefix, ih]
    constructor
    · rintro (⟨t, ht⟩ | ⟨a, b, h⟩)
      · exact ⟨[], t, by simpa using ht.symm⟩
      · exact ⟨c :: a, b, by rw [h]; simp⟩
    · rintro ⟨a, b, h⟩
      cases a with
      | nil => left; exact ⟨b, by simpa using h.symm⟩
      | cons x a =>
        right
        simp only [List.cons_append, List.cons.injEq] at h
        exact ⟨a, b, h.2⟩

/-- every character of an occurring substring occurs -/
theorem mem_of_hasSub {p s : Str} (h : hasSub p s = true) {c : Nat} (hc : c ∈ p) : c ∈ s := by
  obtain ⟨a, b, rfl⟩ := (hasSub_iff p s).mp h
  simp [hc]

/-- a string that lacks one character of `p` does not contain `p` -/
theorem hasSub_false_of_not_mem {p s : Str} {c : Nat} (hc : c ∈ p) (hs : c ∉ s) : hasSub p s = false := by
  cases h : hasSub p s with
  | false => rfl
  | true => exact absurd (mem_of_hasSub h hc) hs

/-- strings over an alphabet that misses a character of `p` do not contain `p` -/
theorem hasSub_false_of_alphabet {p s : Str} (P : Nat → Prop) (hs : ∀ c ∈ s, P c) {c : Nat} (hc : c ∈ p)
    (hP : ¬ P c) : hasSub p s = false :=
  hasSub_false_of_not_mem hc (fun hm => hP (hs c hm))

theorem hasSub_append_left {p s : Str} (t : Str) (h : hasSub p s = true) : hasSub p (t ++ s) = true := by
  obtain ⟨a, b, rfl⟩ := (hasSub_iff p s).mp h
  exact (hasSub_iff _ _).mpr ⟨t ++ a, b, by simp⟩

theorem hasSub_append_right {p s : Str} (t : Str) (h : hasSub p s = true) : hasSub p (s ++ t) = true := by
  obtain ⟨a, b, rfl⟩ := (hasSub_iff p s).mp h
  exact (hasSub_iff _ _).mpr ⟨a, b ++ t, by simp⟩

/-- "xn--" as code points -/
abbrev xn : Str := [120, 110, 45, 45]

/-- digits and dots only (an IPv4 text): no "xn--" -/
theorem xn_not_in_digits_dots {s : Str} (h : ∀ c ∈ s, c = 46 ∨ isDigitC c = true) : hasSub xn s = false :=
  hasSub_false_of_alphabet (fun c => c = 46 ∨ isDigitC c = true) h (c := 120) (by decide) (by decide)

example : hasSub xn "xn--bcher-kva.h1".toStr = true ∧ hasSub xn "10.0.0.255".toStr = false ∧
    hasSub xn "xn-".toStr = false ∧ hasSub [] [] = true := by decide

end SubLemmas
end Yarl
