/-
  QueryUrl.lean — helper lemmas for C12Url.lean: what a mapping / pair-sequence argument denotes
  (`expandItems`), its rendering by the string builders, `MultiDict.update` is natural in the values
  (it looks at keys only), and `parse_qsl` outputs of a well-formed text are well-formed texts.
-/
import YarlModel
import YarlProofs.C12
import YarlProofs.C12Readback
set_option linter.unusedVariables false
namespace Yarl

open QsLemmas MdLemmas

/-- a Python `str` without lone surrogates -/
def GoodText (t : Str) : Prop := PyStr t ∧ NoSurrogate t

def GoodPairs (ps : List (Str × Str)) : Prop := ∀ p ∈ ps, GoodText p.1 ∧ GoodText p.2

instance (t : Str) : Decidable (GoodText t) := by unfold GoodText; infer_instance
instance (ps : List (Str × Str)) : Decidable (GoodPairs ps) := by unfold GoodPairs; infer_instance

/-- a list/tuple value of key `k` denotes one pair per element -/
def expandVals (k : Str) : List QVal → Option (List (Str × Str))
  | [] => some []
  | v :: vs =>
    match queryVar v, expandVals k vs with
    | .ok s, some r => some ((k, s) :: r)
    | _, _ => none

/-- what a mapping / pair-sequence argument denotes as a list of string pairs (list values expand; ints are
    rendered by `str()`; floats by their text) — `none` if some value is rejected by `query_var` -/
def expandItems : List (Str × QItem) → Option (List (Str × Str))
  | [] => some []
  | (k, .one v) :: rest =>
    match queryVar v, expandItems rest with
    | .ok s, some r => some ((k, s) :: r)
    | _, _ => none
  | (k, .many vs) :: rest =>
    match expandVals k vs, expandItems rest with
    | some a, some r => some (a ++ r)
    | _, _ => none

def QItem.isOne : QItem → Bool
  | .one _ => true
  | .many _ => false

/-- no value slot is a list/tuple -/
def SingleValued (items : List (Str × QItem)) : Prop := ∀ p ∈ items, p.2.isOne = true

instance (items : List (Str × QItem)) : Decidable (SingleValued items) := by
  unfold SingleValued; infer_instance

namespace QueryUrl

/-! ### rendering -/

theorem pairStr_ok (b : Backend) (k : Str) (v : QVal) (s : Str) (h : queryVar v = .ok s) :
    pairStr b k v = .ok (pairText b (k, s)) := by
  simp [pairStr, h, bind, Except.bind, pure, Except.pure, pairText]

theorem expandVals_mapM (b : Backend) (k : Str) : ∀ (vs : List QVal) (a : List (Str × Str)),
    expandVals k vs = some a → vs.mapM (pairStr b k) = .ok (a.map (pairText b)) := by
  intro vs
  induction vs with
  | nil => intro a h; simp only [expandVals, Option.some.injEq] at h; subst h; rfl
  | cons v vs ih =>
    intro a h
    simp only [expandVals] at h
    cases hq : queryVar v with
    | error e => rw [hq] at h; simp at h
    | ok s =>
      cases hr : expandVals k vs with
      | none => rw [hq, hr] at h; simp at h
      | some r =>
        rw [hq, hr] at h
        simp only [Option.some.injEq] at h
        subst h
        rw [List.mapM_cons, pairStr_ok b k v s hq, ih r hr]
        rfl

/-- the per-item function of `get_str_query_from_sequence_iterable` -/
def seqF (b : Backend) : Str × QItem → R (List Str) := fun (k, it) =>
  match it with
  | .one v => do pure [← pairStr b k v]
  | .many vs => vs.mapM (pairStr b k)

/-- the per-item function of `get_str_query_from_iterable` -/
def iterF (b : Backend) : Str × QItem → R Str := fun (k, it) =>
  match it with
  | .one v => pairStr b k v
  | .many _ => .error .typeError

theorem seq_eq (b : Backend) (items : List (Str × QItem)) :
    strQueryFromSeqIterable b items = (items.mapM (seqF b)).map (fun ps => joinC 38 ps.flatten) := by
  unfold strQueryFromSeqIterable
  show (items.mapM (seqF b) >>= fun ps => pure (joinC 38 ps.flatten)) = _
  cases items.mapM (seqF b) <;> rfl

theorem iter_eq (b : Backend) (items : List (Str × QItem)) :
    strQueryFromIterable b items = (items.mapM (iterF b)).map (fun ps => joinC 38 ps) := by
  unfold strQueryFromIterable
  show (items.mapM (iterF b) >>= fun ps => pure (joinC 38 ps)) = _
  cases items.mapM (iterF b) <;> rfl

theorem expandItems_seqF (b : Backend) : ∀ (items : List (Str × QItem)) (ps : List (Str × Str)),
    expandItems items = some ps → ∃ L, items.mapM (seqF b) = .ok L ∧ L.flatten = ps.map (pairText b) := by
  intro items
  induction items with
  | nil => intro ps h; simp only [expandItems, Option.some.injEq] at h; subst h; exact ⟨[], rfl, rfl⟩
  | cons x rest ih =>
    intro ps h
    obtain ⟨k, it⟩ := x
    cases it with
    | one v =>
      simp only [expandItems] at h
      cases hq : queryVar v with
      | error e => rw [hq] at h; simp at h
      | ok s =>
        cases hr : expandItems rest with
        | none => rw [hq, hr] at h; simp at h
        | some r =>
          rw [hq, hr] at h
          simp only [Option.some.injEq] at h
          subst h
          obtain ⟨L, hL, hf⟩ := ih r hr
          refine ⟨[pairText b (k, s)] :: L, ?_, ?_⟩
          · rw [List.mapM_cons, hL]
            simp only [seqF, pairStr_ok b k v s hq]
            rfl
          · simp [hf]
    | many vs =>
      simp only [expandItems] at h
      cases ha : expandVals k vs with
      | none => rw [ha] at h; simp at h
      | some a =>
        cases hr : expandItems rest with
        | none => rw [ha, hr] at h; simp at h
        | some r =>
          rw [ha, hr] at h
          simp only [Option.some.injEq] at h
          subst h
          obtain ⟨L, hL, hf⟩ := ih r hr
          refine ⟨a.map (pairText b) :: L, ?_, ?_⟩
          · rw [List.mapM_cons, hL]
            simp only [seqF, expandVals_mapM b k vs a ha]
            rfl
          · simp [hf]

/-- a mapping renders as the '&'-join of the rendered pairs it denotes -/
theorem seq_render (b : Backend) (items : List (Str × QItem)) (ps : List (Str × Str))
    (h : expandItems items = some ps) :
    strQueryFromSeqIterable b items = .ok (joinC 38 (ps.map (pairText b))) := by
  obtain ⟨L, hL, hf⟩ := expandItems_seqF b items ps h
  rw [seq_eq, hL, ← hf]
  rfl

theorem expandItems_iterF (b : Backend) : ∀ (items : List (Str × QItem)) (ps : List (Str × Str)),
    SingleValued items → expandItems items = some ps → items.mapM (iterF b) = .ok (ps.map (pairText b)) := by
  intro items
  induction items with
  | nil => intro ps _ h; simp only [expandItems, Option.some.injEq] at h; subst h; rfl
  | cons x rest ih =>
    intro ps hs h
    obtain ⟨k, it⟩ := x
    have hs' : SingleValued rest := fun p hp => hs p (List.mem_cons_of_mem _ hp)
    cases it with
    | many vs => have := hs (k, .many vs) List.mem_cons_self; simp [QItem.isOne] at this
    | one v =>
      simp only [expandItems] at h
      cases hq : queryVar v with
      | error e => rw [hq] at h; simp at h
      | ok s =>
        cases hr : expandItems rest with
        | none => rw [hq, hr] at h; simp at h
        | some r =>
          rw [hq, hr] at h
          simp only [Option.some.injEq] at h
          subst h
          rw [List.mapM_cons, ih r hs' hr]
          simp only [iterF, pairStr_ok b k v s hq]
          rfl

/-- a sequence of pairs with single values renders as the '&'-join of the rendered pairs -/
theorem iter_render (b : Backend) (items : List (Str × QItem)) (ps : List (Str × Str))
    (hs : SingleValued items) (h : expandItems items = some ps) :
    strQueryFromIterable b items = .ok (joinC 38 (ps.map (pairText b))) := by
  rw [iter_eq, expandItems_iterF b items ps hs h]
  rfl

theorem expandItems_strItems (ps : List (Str × Str)) : expandItems (strItems ps) = some ps := by
  induction ps with
  | nil => rfl
  | cons p rest ih =>
    obtain ⟨k, v⟩ := p
    simp only [strItems, List.map_cons] at ih ⊢
    simp only [expandItems, queryVar, ih]

theorem singleValued_strItems (ps : List (Str × Str)) : SingleValued (strItems ps) := by
  intro p hp
  simp only [strItems, List.mem_map] at hp
  obtain ⟨x, _, rfl⟩ := hp
  rfl

theorem expandItems_nil_of_nil {items : List (Str × QItem)} {ps : List (Str × Str)}
    (h : expandItems items = some ps) (hne : ps ≠ []) : items ≠ [] := by
  intro e; subst e
  simp only [expandItems, Option.some.injEq] at h
  exact hne h.symm

theorem joinC_pairText_ne_nil (b : Backend) (ps : List (Str × Str)) (hne : ps ≠ []) :
    joinC 38 (ps.map (pairText b)) ≠ [] := by
  cases ps with
  | nil => exact absurd rfl hne
  | cons p rest =>
    intro hj
    rw [List.map_cons] at hj
    have := joinC_eq_nil 38 _ _ hj
    simp [pairText] at this

/-! ### `MultiDict.update` looks at keys only -/

/-- pointwise relation of two lists (core Lean has no `Forall₂`) -/
inductive All2 {α β : Type} (R : α → β → Prop) : List α → List β → Prop
  | nil : All2 R [] []
  | cons {a b l l'} : R a b → All2 R l l' → All2 R (a :: l) (b :: l')

section Rel
variable {V V' : Type} (S : Str → V → V' → Prop)

/-- same key, related values (the relation may depend on the key) -/
def KR (x : Str × V) (y : Str × V') : Prop := x.1 = y.1 ∧ S x.1 x.2 y.2

theorem replaceFrom_rel (k : Str) (v : V) (v' : V') (hv : S k v v') :
    ∀ (l : List (Str × V)) (l' : List (Str × V')), All2 (KR S) l l' → ∀ i s,
      (replaceFrom k v l i s = none ∧ replaceFrom k v' l' i s = none) ∨
      ∃ a a' p, replaceFrom k v l i s = some (a, p) ∧ replaceFrom k v' l' i s = some (a', p) ∧
        All2 (KR S) a a' := by
  intro l l' h
  induction h with
  | nil => intro i s; exact Or.inl ⟨rfl, rfl⟩
  | @cons x y xs ys hxy hrest ih =>
    intro i s
    obtain ⟨k1, v1⟩ := x
    obtain ⟨k2, v2⟩ := y
    obtain ⟨hk, hs⟩ := hxy
    simp only at hk hs
    subst hk
    simp only [replaceFrom]
    by_cases hc : i ≥ s ∧ k1 = k
    · simp only [hc, and_self, if_true]
      exact Or.inr ⟨_, _, _, rfl, rfl, All2.cons ⟨rfl, hv⟩ hrest⟩
    · simp only [hc, if_false]
      rcases ih (i + 1) s with ⟨h1, h2⟩ | ⟨a, a', p, h1, h2, h3⟩
      · rw [h1, h2]; exact Or.inl ⟨rfl, rfl⟩
      · rw [h1, h2]
        exact Or.inr ⟨_, _, _, rfl, rfl, All2.cons ⟨rfl, hs⟩ h3⟩

theorem forall₂_append {α β : Type} {R : α → β → Prop} {a c : List α} {b d : List β}
    (h1 : All2 R a b) (h2 : All2 R c d) : All2 R (a ++ c) (b ++ d) := by
  induction h1 with
  | nil => exact h2
  | cons h _ ih => exact All2.cons h ih

theorem forall₂_length {α β : Type} {R : α → β → Prop} {a : List α} {b : List β}
    (h : All2 R a b) : a.length = b.length := by
  induction h with
  | nil => rfl
  | cons _ _ ih => simp [ih]

theorem loop_rel : ∀ (n : List (Str × V)) (n' : List (Str × V')), All2 (KR S) n n' →
    ∀ (l : List (Str × V)) (l' : List (Str × V')) (used : List (Str × Nat)), All2 (KR S) l l' →
      All2 (KR S) (mdUpdateLoop l used n).1 (mdUpdateLoop l' used n').1 ∧
      (mdUpdateLoop l used n).2 = (mdUpdateLoop l' used n').2 := by
  intro n n' h
  induction h with
  | nil => intro l l' used hl; exact ⟨hl, rfl⟩
  | @cons x y xs ys hxy hrest ih =>
    intro l l' used hl
    obtain ⟨k1, v1⟩ := x
    obtain ⟨k2, v2⟩ := y
    obtain ⟨hk, hs⟩ := hxy
    simp only at hk hs
    subst hk
    simp only [mdUpdateLoop]
    rcases replaceFrom_rel S k1 v1 v2 hs l l' hl 0 ((usedGet used k1).getD 0) with
      ⟨h1, h2⟩ | ⟨a, a', p, h1, h2, h3⟩
    · rw [h1, h2]
      have hl2 : All2 (KR S) (l ++ [(k1, v1)]) (l' ++ [(k1, v2)]) :=
        forall₂_append hl (All2.cons ⟨rfl, hs⟩ All2.nil)
      have hlen := forall₂_length hl2
      simp only
      rw [hlen]
      exact ih _ _ _ hl2
    · rw [h1, h2]
      exact ih _ _ _ h3

theorem dt_rel (used : List (Str × Nat)) : ∀ (l : List (Str × V)) (l' : List (Str × V')),
    All2 (KR S) l l' → ∀ i, All2 (KR S) (mdDropTails used l i) (mdDropTails used l' i) := by
  intro l l' h
  induction h with
  | nil => intro i; exact All2.nil
  | @cons x y xs ys hxy hrest ih =>
    intro i
    obtain ⟨k1, v1⟩ := x
    obtain ⟨k2, v2⟩ := y
    obtain ⟨hk, hs⟩ := hxy
    simp only at hk hs
    subst hk
    simp only [mdDropTails]
    cases usedGet used k1 with
    | none => exact All2.cons ⟨rfl, hs⟩ (ih _)
    | some pos =>
      simp only
      split
      · exact ih _
      · exact All2.cons ⟨rfl, hs⟩ (ih _)

/-- `MultiDict.update` on two pairs of lists with the same keys and related values gives lists with the same keys
    and related values -/
theorem mdUpdate_rel (old : List (Str × V)) (old' : List (Str × V')) (new : List (Str × V)) (new' : List (Str × V'))
    (ho : All2 (KR S) old old') (hn : All2 (KR S) new new') :
    All2 (KR S) (mdUpdate old new) (mdUpdate old' new') := by
  cases hn with
  | nil => simpa [mdUpdate] using ho
  | @cons x y xs ys hxy hrest =>
    have hn : All2 (KR S) (x :: xs) (y :: ys) := All2.cons hxy hrest
    rw [mdUpdate_eq _ _ (by simp), mdUpdate_eq _ _ (by simp)]
    obtain ⟨h1, h2⟩ := loop_rel S _ _ hn old old' [] ho
    rw [h2]
    exact dt_rel S _ _ _ h1 0

end Rel

/-- a value slot denotes the text `s` -/
def Renders (_k : Str) (it : QItem) (s : Str) : Prop := ∃ v, it = .one v ∧ queryVar v = .ok s

theorem renders_strItems (ps : List (Str × Str)) : All2 (KR Renders) (strItems ps) ps := by
  induction ps with
  | nil => exact All2.nil
  | cons p rest ih =>
    simp only [strItems, List.map_cons] at ih ⊢
    exact All2.cons ⟨rfl, _, rfl, rfl⟩ ih

theorem renders_of_expand : ∀ (items : List (Str × QItem)) (ps : List (Str × Str)),
    SingleValued items → expandItems items = some ps → All2 (KR Renders) items ps := by
  intro items
  induction items with
  | nil => intro ps _ h; simp only [expandItems, Option.some.injEq] at h; subst h; exact All2.nil
  | cons x rest ih =>
    intro ps hs h
    obtain ⟨k, it⟩ := x
    have hs' : SingleValued rest := fun p hp => hs p (List.mem_cons_of_mem _ hp)
    cases it with
    | many vs => have := hs (k, .many vs) List.mem_cons_self; simp [QItem.isOne] at this
    | one v =>
      simp only [expandItems] at h
      cases hq : queryVar v with
      | error e => rw [hq] at h; simp at h
      | ok s =>
        cases hr : expandItems rest with
        | none => rw [hq, hr] at h; simp at h
        | some r =>
          rw [hq, hr] at h
          simp only [Option.some.injEq] at h
          subst h
          exact All2.cons ⟨rfl, v, rfl, hq⟩ (ih r hs' hr)

theorem expand_of_renders {X : List (Str × QItem)} {Y : List (Str × Str)} (h : All2 (KR Renders) X Y) :
    SingleValued X ∧ expandItems X = some Y := by
  induction h with
  | nil => exact ⟨fun _ h => by simp at h, rfl⟩
  | @cons x y xs ys hxy hrest ih =>
    obtain ⟨k1, it⟩ := x
    obtain ⟨k2, s⟩ := y
    obtain ⟨hk, v, hit, hq⟩ := hxy
    simp only at hk hit hq
    subst hk hit
    refine ⟨?_, ?_⟩
    · intro p hp
      rcases List.mem_cons.mp hp with rfl | hp
      · rfl
      · exact ih.1 p hp
    · simp only [expandItems, hq, ih.2]

/-- what `update_query` hands to the string builder denotes the `MultiDict.update` of the old pairs with the pairs
    the argument denotes -/
theorem expand_mdUpdate (old ps : List (Str × Str)) (items : List (Str × QItem))
    (hs : SingleValued items) (h : expandItems items = some ps) :
    SingleValued (mdUpdate (strItems old) items) ∧
      expandItems (mdUpdate (strItems old) items) = some (mdUpdate old ps) :=
  expand_of_renders (mdUpdate_rel Renders _ _ _ _ (renders_strItems old) (renders_of_expand items ps hs h))

/-- `MultiDict.update` invents no entries: a property of all old and all new pairs holds for all resulting pairs -/
theorem mdUpdate_forall {V : Type} (P : Str × V → Prop) (old new : List (Str × V))
    (ho : ∀ x ∈ old, P x) (hn : ∀ x ∈ new, P x) : ∀ x ∈ mdUpdate old new, P x := by
  have mk : ∀ l : List (Str × V), (∀ x ∈ l, P x) → All2 (KR (fun k v v' => v = v' ∧ P (k, v))) l l := by
    intro l
    induction l with
    | nil => intro _; exact All2.nil
    | cons a l ih =>
      intro h
      exact All2.cons ⟨rfl, rfl, h a List.mem_cons_self⟩ (ih (fun x hx => h x (List.mem_cons_of_mem _ hx)))
  have un : ∀ l l' : List (Str × V), All2 (KR (fun k v v' => v = v' ∧ P (k, v))) l l' → ∀ x ∈ l, P x := by
    intro l l' h
    induction h with
    | nil => intro x hx; simp at hx
    | @cons a b l l' hab _ ih =>
      intro x hx
      rcases List.mem_cons.mp hx with rfl | hx
      · exact hab.2.2
      · exact ih x hx
  exact un _ _ (mdUpdate_rel _ old old new new (mk old ho) (mk new hn))

theorem mdUpdate_good (old new : List (Str × Str)) (ho : GoodPairs old) (hn : GoodPairs new) :
    GoodPairs (mdUpdate old new) :=
  mdUpdate_forall (fun p => GoodText p.1 ∧ GoodText p.2) old new ho hn

/-! ### `parse_qsl` outputs are well-formed texts -/

def G (c : Nat) : Prop := c ≤ 0x10FFFF ∧ isSurrogate c = false

theorem G_of (c : Nat) (h1 : c ≤ 0x10FFFF) (h2 : c < 0xD800 ∨ 0xDFFF < c) : G c := by
  refine ⟨h1, ?_⟩
  simp only [isSurrogate, Bool.and_eq_false_imp, decide_eq_true_eq, decide_eq_false_iff_not]
  omega

theorem dr_good : ∀ (fuel : Nat) (bs : List Nat), ∀ c ∈ decodeReplaceAux fuel bs, G c := by
  intro fuel bs
  fun_induction decodeReplaceAux fuel bs <;> intro c hc
  all_goals simp only [List.mem_cons, List.not_mem_nil, or_false] at hc
  all_goals first
    | (rcases hc with hc | hc
       · try simp only [isCont, Bool.or_eq_true, Bool.and_eq_true, decide_eq_true_eq,
              decide_eq_false_iff_not, not_or, not_and, Bool.not_eq_eq_eq_not, Bool.not_true, Bool.and_eq_false_imp] at *
         apply G_of <;> omega
       · rename_i ih; exact ih c hc)
    | (apply G_of <;> omega)
    | skip

theorem goodText_iff (t : Str) : GoodText t ↔ ∀ c ∈ t, G c := by
  unfold GoodText PyStr NoSurrogate G
  exact ⟨fun h c hc => ⟨h.1 c hc, h.2 c hc⟩, fun h => ⟨fun c hc => (h c hc).1, fun c hc => (h c hc).2⟩⟩

theorem stdUnquoteAux_good : ∀ (fuel : Nat) (s : Str), (∀ c ∈ s, G c) → ∀ c ∈ stdUnquoteAux fuel s, G c := by
  intro fuel s
  fun_induction stdUnquoteAux fuel s <;> intro hs c hc
  · simp at hc
  · simp at hc
  · rename_i ih
    rcases List.mem_append.mp hc with h | h
    · exact dr_good _ _ c h
    · exact ih (fun x hx => hs x ((List.dropWhile_sublist _).subset hx)) c h
  · rename_i ih
    rcases List.mem_cons.mp hc with h | h
    · subst h; exact hs c List.mem_cons_self
    · exact ih (fun x hx => hs x (List.mem_cons_of_mem _ hx)) c h

theorem stdUnquote_good (s : Str) (hs : ∀ c ∈ s, G c) : ∀ c ∈ stdUnquote s, G c := by
  unfold stdUnquote
  split
  · exact hs
  · exact stdUnquoteAux_good _ s hs

theorem plusToSpace_good (s : Str) (hs : ∀ c ∈ s, G c) : ∀ c ∈ plusToSpace s, G c := by
  intro c hc
  simp only [plusToSpace, List.mem_map] at hc
  obtain ⟨x, hx, rfl⟩ := hc
  split
  · exact G_of 32 (by omega) (by omega)
  · exact hs x hx

theorem splitOn_mem (c : Nat) : ∀ (s : Str), ∀ p ∈ splitOn c s, ∀ x ∈ p, x ∈ s := by
  intro s
  induction s with
  | nil => intro p hp x hx; simp only [splitOn, List.mem_singleton] at hp; subst hp; exact hx
  | cons y ys ih =>
    intro p hp x hx
    unfold splitOn at hp
    split at hp
    · rcases List.mem_cons.mp hp with h | h
      · subst h; simp at hx
      · exact List.mem_cons_of_mem _ (ih p h x hx)
    · split at hp
      · simp only [List.mem_singleton] at hp; subst hp
        simp only [List.mem_singleton] at hx; subst hx; exact List.mem_cons_self
      · rename_i p0 ps heq
        rcases List.mem_cons.mp hp with h | h
        · subst h
          rcases List.mem_cons.mp hx with h2 | h2
          · subst h2; exact List.mem_cons_self
          · exact List.mem_cons_of_mem _ (ih p0 (by rw [heq]; exact List.mem_cons_self) x h2)
        · exact List.mem_cons_of_mem _ (ih p (by rw [heq]; exact List.mem_cons_of_mem _ h) x hx)

theorem qslPiece_good (nv : Str) (h : ∀ c ∈ nv, G c) (p : Str × Str) (hp : qslPiece nv = some p) :
    GoodText p.1 ∧ GoodText p.2 := by
  unfold qslPiece at hp
  split at hp
  · cases hp
  · simp only [splitFirstEq, ParseLemmas.partition_eq, Option.some.injEq] at hp
    subst hp
    simp only [goodText_iff]
    constructor
    · apply stdUnquote_good; apply plusToSpace_good
      exact fun x hx => h x ((List.takeWhile_sublist _).subset hx)
    · apply stdUnquote_good; apply plusToSpace_good
      split
      · simp only [Option.getD_some]
        exact fun x hx => h x ((List.dropWhile_sublist _).subset ((List.drop_sublist _ _).subset hx))
      · simp

/-- the pairs read from a well-formed query text are well-formed texts (`parse_qsl` decodes with
    `errors="replace"`, which produces U+FFFD but never a lone surrogate or a value above U+10FFFF) -/
theorem parseQsl_good (q : Str) (h : GoodText q) : GoodPairs (parseQsl q) := by
  rw [goodText_iff] at h
  intro p hp
  rw [parseQsl_eq] at hp
  split at hp
  · simp at hp
  · obtain ⟨nv, hnv, hpiece⟩ := List.mem_filterMap.mp hp
    exact qslPiece_good nv (fun c hc => h c (splitOn_mem 38 q nv hnv c hc)) p hpiece

/-! ### `parse_qsl` and a trailing '&' -/

theorem parseQsl_amp_end (a : Str) : parseQsl (a ++ [38]) = parseQsl a := by
  have := parseQsl_append' a []
  simpa [parseQsl] using this

/-- the three ways `extend_query` glues the new text to the old one all read back as old pairs ++ new pairs -/
theorem parseQsl_extend (old nq : Str) :
    parseQsl (if !old.isEmpty then (if old.getLast? = some 38 then old ++ nq else old ++ [38] ++ nq) else nq) =
      parseQsl old ++ parseQsl nq := by
  cases old with
  | nil => simp [parseQsl]
  | cons x xs =>
    simp only [List.isEmpty_cons, Bool.not_false, if_true]
    split
    · rename_i hl
      obtain ⟨a', hsplit⟩ := List.getLast?_eq_some_iff.mp hl
      rw [hsplit, parseQsl_amp_end, parseQsl_append']
    · exact parseQsl_append' _ _

end QueryUrl
end Yarl
