/-
  StrTotal.lean — when does a stored netloc split again?  `split_netloc` fails only on its
  port text, so everything here is about the text after the last '@'.
-/
import YarlModel
import YarlProofs.Lemmas.NetlocLemmas
import YarlProofs.Lemmas.ParseLemmas
import YarlProofs.Lemmas.HostLemmas
import YarlProofs.C16
namespace Yarl

/-- the host text (brackets stripped) of a netloc that can be re-written and still splits:
    no '@', and a ']' never together with a ':' -/
def HostShapeStr (h : Str) : Prop := 64 ∉ h ∧ (58 ∈ h → 93 ∉ h)

instance (h : Str) : Decidable (HostShapeStr h) := by unfold HostShapeStr; infer_instance

namespace StrTotal
open NetlocLemmas

/-! ### small helpers -/

theorem bind_ok {α β : Type} {x : R α} {f : α → R β} {v : β} (h : (x >>= f) = .ok v) :
    ∃ a, x = .ok a ∧ f a = .ok v := by
  cases x with
  | error e => cases h
  | ok a => exact ⟨a, rfl, h⟩

theorem ite_err_ok {α : Type} {c : Prop} [Decidable c] {er : PyErr} {y : R α} {v : α}
    (h : (if c then .error er else y) = .ok v) : ¬ c ∧ y = .ok v := by
  split at h
  · cases h
  · exact ⟨‹_›, h⟩

theorem split_first {c : Nat} {s : Str} (h : c ∈ s) : ∃ a b, s = a ++ c :: b ∧ c ∉ a := by
  induction s with
  | nil => cases h
  | cons x xs ih =>
    by_cases hx : x = c
    · exact ⟨[], xs, by simp [hx], by simp⟩
    · have : c ∈ xs := by
        rcases List.mem_cons.1 h with h | h
        · exact absurd h.symm hx
        · exact h
      obtain ⟨a, b, hab, hca⟩ := ih this
      refine ⟨x :: a, b, by simp [hab], ?_⟩
      intro hm
      rcases List.mem_cons.1 hm with h | h
      · exact hx h.symm
      · exact hca h

/-- characters before the separator do not change what follows it -/
theorem partition_append_notMem (c : Nat) (d r : Str) (h : c ∉ d) :
    (partition c (d ++ r)).2.2 = (partition c r).2.2 := by
  induction d with
  | nil => rfl
  | cons x xs ih =>
    have hx : x ≠ c := fun e => h (by simp [e])
    have hxs : c ∉ xs := fun e => h (by simp [e])
    simp [partition, hx, ih hxs]

theorem partition_fst_notMem (c : Nat) (s : Str) : c ∉ (partition c s).1 := by
  induction s with
  | nil => simp [partition]
  | cons x xs ih =>
    by_cases hx : x = c
    · simp [partition, hx]
    · simp only [partition, hx, if_false]
      intro hm
      rcases List.mem_cons.1 hm with h | h
      · exact hx h.symm
      · exact ih h

theorem partition_fst_sub (c : Nat) (s : Str) : ∀ x ∈ (partition c s).1, x ∈ s := by
  induction s with
  | nil => simp [partition]
  | cons y ys ih =>
    by_cases hy : y = c
    · simp [partition, hy]
    · simp only [partition, hy, if_false]
      intro x hx
      rcases List.mem_cons.1 hx with h | h
      · simp [h]
      · exact List.mem_cons_of_mem _ (ih x h)

theorem partition_snd_sub (c : Nat) (s : Str) : ∀ x ∈ (partition c s).2.2, x ∈ s := by
  induction s with
  | nil => simp [partition]
  | cons y ys ih =>
    by_cases hy : y = c
    · simp only [partition, hy, if_true]
      intro x hx; exact List.mem_cons_of_mem _ hx
    · simp only [partition, hy, if_false]
      intro x hx
      exact List.mem_cons_of_mem _ (ih x hx)

/-! ### the port text that `split_netloc` reads -/

/-- a port text that `split_netloc` accepts: absent, or the decimal rendering of a port in range -/
def PortStrOK (ps : Str) : Prop := ps = [] ∨ ∃ p, p ≤ 65535 ∧ ps = natToStr p

/-- `finish` succeeds whenever the port text is acceptable -/
theorem finish_ok (o : Oracles) (U P : Option Str) (hi : Str) (hp : PortStrOK (hostPort hi).2) :
    ∃ np, finish o U P hi = .ok np ∧ np.host = orNone (hostPort hi).1 := by
  unfold finish
  rcases hp with h0 | ⟨p, hle, hps⟩
  · simp only [h0, List.isEmpty_nil, if_true]
    exact ⟨_, rfl, rfl⟩
  · have hd := natToStrAux_digits p p
    have hne : (natToStr p).isEmpty = false := by
      cases hh : natToStr p with
      | nil => exact absurd hh hd.1
      | cons _ _ => rfl
    have hi' : pyInt o (natToStr p) = .ok (some (Int.ofNat p)) := by
      unfold pyInt
      rw [isAscii_natToStr, natToStr_roundtrip]
      rfl
    have hr : (0 : Int) ≤ Int.ofNat p ∧ Int.ofNat p ≤ 65535 :=
      ⟨Int.natCast_nonneg p, Int.ofNat_le.mpr hle⟩
    simp only [hps, hne, hi', bind, Except.bind, if_pos hr]
    exact ⟨_, rfl, rfl⟩

/-- whatever `finish` returns, its host is the host half of `hostPort` -/
theorem finish_host (o : Oracles) (U P : Option Str) (hi : Str) (np : NetlocParts)
    (h : finish o U P hi = .ok np) : np.host = orNone (hostPort hi).1 := by
  unfold finish at h
  simp only at h
  split at h
  · cases h; rfl
  · cases hi' : pyInt o (hostPort hi).2 with
    | error err => simp [hi', bind, Except.bind] at h
    | ok v =>
      cases v with
      | none => simp [hi', bind, Except.bind] at h
      | some i =>
        simp only [hi', bind, Except.bind] at h
        split at h
        · cases h; rfl
        · cases h

/-- the port text read back from `bracket h ++ rest`: nothing, or the port text of `rest` alone -/
theorem hostPort_snd (h rest : Str) (hs : 58 ∈ h → 93 ∉ h) (r91 : 91 ∉ rest) (r93 : 93 ∉ rest) :
    (hostPort (bracket h ++ rest)).2 = [] ∨ (hostPort (bracket h ++ rest)).2 = (partition 58 rest).2.2 := by
  by_cases h58 : 58 ∈ h
  · right
    have h93 := hs h58
    have e1 : mem 58 h = true := mem_iff.mpr h58
    have e2 : mem 91 (91 :: (h ++ 93 :: rest)) = true := mem_iff.mpr (by simp)
    have e3 : partition 91 (91 :: (h ++ 93 :: rest)) = ([], true, h ++ 93 :: rest) :=
      partition_found 91 [] (h ++ 93 :: rest) (by simp)
    have e4 : partition 93 (h ++ 93 :: rest) = (h, true, rest) := partition_found 93 h rest h93
    unfold hostPort bracket
    simp [e1, e2, e3, e4]
  · have e1 : mem 58 h = false := mem_false_iff.mpr h58
    have hb : bracket h = h := by simp [bracket, e1]
    rw [hb]
    by_cases h91 : 91 ∈ h
    · obtain ⟨a, b, hab, ha⟩ := split_first h91
      have e2 : mem 91 (h ++ rest) = true := mem_iff.mpr (by simp [h91])
      have e3 : partition 91 (h ++ rest) = (a, true, b ++ rest) := by
        rw [hab]
        have := partition_found 91 a (b ++ rest) ha
        simpa using this
      have hb58 : 58 ∉ b := fun hm => h58 (by rw [hab]; simp [hm])
      by_cases b93 : 93 ∈ b
      · right
        obtain ⟨c, d, hcd, hc⟩ := split_first b93
        have e4 : partition 93 (b ++ rest) = (c, true, d ++ rest) := by
          rw [hcd]
          have := partition_found 93 c (d ++ rest) hc
          simpa using this
        have hd58 : 58 ∉ d := fun hm => hb58 (by rw [hcd]; simp [hm])
        unfold hostPort
        simp only [e2, if_true, e3, e4]
        exact partition_append_notMem 58 d rest hd58
      · left
        have e4 : partition 93 (b ++ rest) = (b ++ rest, false, []) :=
          partition_notFound 93 (b ++ rest) (by simp [b93, r93])
        unfold hostPort
        simp [e2, e3, e4, partition]
    · right
      have e2 : mem 91 (h ++ rest) = false := mem_false_iff.mpr (by simp [h91, r91])
      unfold hostPort
      simp only [e2, Bool.false_eq_true, if_false]
      exact partition_append_notMem 58 h rest h58

theorem portStrOK_hostPortStr (h : Str) (port : Option Nat) (hs : 58 ∈ h → 93 ∉ h)
    (hp : ∀ p, port = some p → p ≤ 65535) : PortStrOK (hostPort (hostPortStr (bracket h) port)).2 := by
  cases port with
  | none =>
    have := hostPort_snd h [] hs (by simp) (by simp)
    simp only [List.append_nil, partition, or_self] at this
    exact Or.inl this
  | some p =>
    have hd : ∀ c ∈ natToStr p, isDigitC c = true := (natToStrAux_digits p p).2
    have r91 : 91 ∉ 58 :: natToStr p := by
      have := notMem_digits hd 91 (by omega)
      simp [this]
    have r93 : 93 ∉ 58 :: natToStr p := by
      have := notMem_digits hd 93 (by omega)
      simp [this]
    have := hostPort_snd h (58 :: natToStr p) hs r91 r93
    have e : hostPortStr (bracket h) (some p) = bracket h ++ 58 :: natToStr p := by simp [hostPortStr]
    rw [e]
    rcases this with h0 | h1
    · exact Or.inl h0
    · right
      refine ⟨p, hp p rfl, ?_⟩
      rw [h1]; simp [partition]

/-! ### the host text that `split_netloc` returns -/

theorem hostPort_fst (hi : Str) :
    (∀ x ∈ (hostPort hi).1, x ∈ hi) ∧ (58 ∈ (hostPort hi).1 → 93 ∉ (hostPort hi).1) := by
  unfold hostPort
  by_cases h : mem 91 hi = true
  · simp only [h, if_true]
    refine ⟨?_, fun _ => partition_fst_notMem 93 _⟩
    intro x hx
    exact partition_snd_sub 91 hi x (partition_fst_sub 93 _ x hx)
  · simp only [h]
    refine ⟨partition_fst_sub 58 hi, fun h58 => absurd h58 (partition_fst_notMem 58 hi)⟩

theorem userSplit_hostinfo (n : Str) : 64 ∉ (userSplit n).2.2 := by
  unfold userSplit
  by_cases h : mem 64 n = true
  · simp only [h, Bool.not_true, Bool.false_eq_true, if_false]
    exact (ParseLemmas.rpartition_mem (mem_iff.mp h)).2
  · have h' : mem 64 n = false := by simpa using h
    simp only [h', Bool.not_false, if_true]
    exact mem_false_iff.mp h'

/-! ### `split_netloc` on a netloc whose tail after the last '@' is well-formed -/

theorem splitNetloc_tail_ok (o : Oracles) (Rt : Str) (h64 : 64 ∉ Rt) (hp : PortStrOK (hostPort Rt).2) :
    (∃ np, splitNetloc o Rt = .ok np) ∧ ∀ X, ∃ np, splitNetloc o (X ++ 64 :: Rt) = .ok np := by
  constructor
  · rw [splitNetloc_eq, userSplit_noAt _ h64]
    obtain ⟨np, h, _⟩ := finish_ok o none none Rt hp
    exact ⟨np, h⟩
  · intro X
    rw [splitNetloc_eq, userSplit_at X Rt h64]
    obtain ⟨np, h, _⟩ := finish_ok o (some (partition 58 X).1)
      (if (partition 58 X).2.1 then some (partition 58 X).2.2 else none) Rt hp
    exact ⟨np, h⟩

/-- the userinfo half of `make_netloc`, around an already written `host[:port]` -/
def withUserinfo (qf : Str → Str) (user pw : Option Str) (ret : Str) (encode : Bool) : Str :=
  match user, pw with
  | none, none => ret
  | _, some pw =>
    let u : Str := match user with
      | none => []
      | some u => if u.isEmpty then [] else if encode then qf u else u
    let pw := if encode then qf pw else pw
    let user := u ++ [58] ++ pw
    if user.isEmpty then ret else user ++ [64] ++ ret
  | some u, none =>
    let u := if !u.isEmpty && encode then qf u else u
    if u.isEmpty then ret else u ++ [64] ++ ret

theorem makeNetloc_withUserinfo (qf : Str → Str) (user pw : Option Str) (hb : Str) (port : Option Nat) (enc : Bool) :
    makeNetloc qf user pw (some hb) port enc = withUserinfo qf user pw (hostPortStr hb port) enc := by
  cases port <;> rfl

theorem withUserinfo_shape (qf : Str → Str) (user pw : Option Str) (ret : Str) (enc : Bool) :
    withUserinfo qf user pw ret enc = ret ∨ ∃ X, withUserinfo qf user pw ret enc = X ++ 64 :: ret := by
  unfold withUserinfo
  cases user with
  | none =>
    cases pw with
    | none => left; rfl
    | some w => right; exact ⟨58 :: (if enc then qf w else w), by simp⟩
  | some u =>
    cases pw with
    | none =>
      simp only
      generalize (if (!u.isEmpty && enc) = true then qf u else u) = u'
      split
      · left; rfl
      · right; exact ⟨u', by simp⟩
    | some w =>
      right
      exact ⟨(if u.isEmpty then [] else if enc then qf u else u) ++ 58 :: (if enc then qf w else w), by simp⟩

/-- `make_netloc` (with or without encoding) writes `[userinfo "@"] host [":" port]` -/
theorem makeNetloc_shape (qf : Str → Str) (user pw : Option Str) (hb : Str) (port : Option Nat) (enc : Bool) :
    makeNetloc qf user pw (some hb) port enc = hostPortStr hb port ∨
    ∃ X, makeNetloc qf user pw (some hb) port enc = X ++ 64 :: hostPortStr hb port := by
  rw [makeNetloc_withUserinfo]
  exact withUserinfo_shape qf user pw _ enc

/-- THE CRUX: whatever user and password are, a netloc written by `make_netloc` around a host of the
    right shape and a port in range splits again -/
theorem splitNetloc_makeNetloc_ok (o : Oracles) (qf : Str → Str) (user pw : Option Str) (h : Str)
    (port : Option Nat) (enc : Bool) (hs : HostShapeStr h) (hp : ∀ p, port = some p → p ≤ 65535) :
    ∃ np, splitNetloc o (makeNetloc qf user pw (some (bracket h)) port enc) = .ok np := by
  have h64 := notMem_hostPortStr port hs.1
  have hps := portStrOK_hostPortStr h port hs.2 hp
  have := splitNetloc_tail_ok o _ h64 hps
  rcases makeNetloc_shape qf user pw (bracket h) port enc with e | ⟨X, e⟩
  · rw [e]; exact this.1
  · rw [e]; exact this.2 X

/-- the `h[:port]` form that `build` writes without `make_netloc` -/
theorem splitNetloc_hostPort_ok (o : Oracles) (h : Str) (port : Option Nat)
    (hs : HostShapeStr h) (hp : ∀ p, port = some p → p ≤ 65535) :
    ∃ np, splitNetloc o (match port with | none => bracket h | some p => bracket h ++ [58] ++ natToStr p) = .ok np := by
  have := splitNetloc_makeNetloc_ok o id none none h port false hs hp
  cases port <;> simpa [makeNetloc] using this

/-- every host `split_netloc` returns has the shape -/
theorem splitNetloc_host_shape (o : Oracles) (n : Str) (np : NetlocParts) (h : Str)
    (hn : splitNetloc o n = .ok np) (hh : np.host = some h) : HostShapeStr h := by
  rw [splitNetloc_eq] at hn
  have := finish_host o _ _ _ np hn
  rw [hh] at this
  have hf := hostPort_fst (userSplit n).2.2
  have h64 := userSplit_hostinfo n
  have he : (hostPort (userSplit n).2.2).1 = h := by
    unfold orNone at this
    split at this
    · cases this
    · exact (Option.some.inj this).symm
  rw [he] at hf
  exact ⟨fun hm => h64 (hf.1 64 hm), hf.2⟩


/-! ### the host text after the re-bracketing fix

  `encode_url` and `build(authority=…)` put the brackets back around an encoded host that has none
  when the host part of the input was bracketed. -/

/-- the host text as it is written into the netloc: `b` says that the host part of the input
    (the text after the last '@') contained a '[' -/
def rebracket (b : Bool) (h1 : Str) : Str := if b && !mem 91 h1 then [91] ++ h1 ++ [93] else h1

/-- the zone suffix `%zone` that `_encode_host` copies verbatim -/
def zonePart (h0 : Str) : Str := if (partition 37 h0).2.1 then [37] ++ (partition 37 h0).2.2 else []

theorem userSplit_hostinfo_eq (n : Str) : (userSplit n).2.2 = (rpartition 64 n).2.2 := by
  unfold userSplit
  by_cases h : mem 64 n = true
  · simp only [h, Bool.not_true, Bool.false_eq_true, if_false]
  · have h' : mem 64 n = false := by simpa using h
    simp only [h', Bool.not_false, if_true]
    exact (ParseLemmas.rpartition_snd_snd_of_mem_false h').symm

/-- which delimiters the host half of `hostPort` can contain -/
theorem hostPort_fst_facts (hi : Str) :
    (mem 91 hi = true → 93 ∉ (hostPort hi).1) ∧
    (mem 91 hi = false → 58 ∉ (hostPort hi).1 ∧ 91 ∉ (hostPort hi).1) := by
  constructor
  · intro h
    unfold hostPort
    simp only [h, if_true]
    exact partition_fst_notMem 93 _
  · intro h'
    unfold hostPort
    simp only [h', Bool.false_eq_true, if_false]
    refine ⟨partition_fst_notMem 58 hi, ?_⟩
    intro hm
    exact mem_false_iff.mp h' (partition_fst_sub 58 hi 91 hm)

/-- every host `split_netloc` returns: non-empty, no '@'; cut out of brackets it has no ']',
    otherwise it has neither ':' nor '[' -/
theorem splitNetloc_host_facts (o : Oracles) (n : Str) (np : NetlocParts) (h : Str)
    (hn : splitNetloc o n = .ok np) (hh : np.host = some h) :
    h ≠ [] ∧ 64 ∉ h ∧ (mem 91 (rpartition 64 n).2.2 = true → 93 ∉ h) ∧
    (mem 91 (rpartition 64 n).2.2 = false → 58 ∉ h ∧ 91 ∉ h) := by
  have hshape := splitNetloc_host_shape o n np h hn hh
  rw [splitNetloc_eq] at hn
  have := finish_host o _ _ _ np hn
  rw [hh] at this
  have he : (hostPort (userSplit n).2.2).1 = h ∧ h ≠ [] := by
    unfold orNone at this
    split at this
    · cases this
    · rename_i hne
      have e := (Option.some.inj this).symm
      refine ⟨e, ?_⟩
      intro h0; rw [e, h0] at hne; exact hne rfl
  have hf := hostPort_fst_facts (userSplit n).2.2
  rw [he.1, userSplit_hostinfo_eq] at hf
  exact ⟨he.2, hshape.1, hf.1, hf.2⟩

/-! ### host texts around which a netloc splits again -/

/-- a written host text `w`: no '@', and the port text read back from `w ++ rest` is nothing or
    the port text of `rest` -/
def Writable (w : Str) : Prop :=
  64 ∉ w ∧ ∀ rest, 91 ∉ rest → 93 ∉ rest →
    ((hostPort (w ++ rest)).2 = [] ∨ (hostPort (w ++ rest)).2 = (partition 58 rest).2.2)

theorem writable_bracket {h : Str} (hs : HostShapeStr h) : Writable (bracket h) :=
  ⟨notMem_bracket hs.1 (by decide) (by decide), fun rest r91 r93 => hostPort_snd h rest hs.2 r91 r93⟩

/-- a bracketed text without ']' inside -/
theorem writable_bracketed {h : Str} (h64 : 64 ∉ h) (h93 : 93 ∉ h) : Writable ([91] ++ h ++ [93]) := by
  refine ⟨by simp [h64], ?_⟩
  intro rest _ _
  right
  have e2 : mem 91 (91 :: (h ++ 93 :: rest)) = true := mem_iff.mpr (by simp)
  have e3 : partition 91 (91 :: (h ++ 93 :: rest)) = ([], true, h ++ 93 :: rest) :=
    partition_found 91 [] (h ++ 93 :: rest) (by simp)
  have e4 : partition 93 (h ++ 93 :: rest) = (h, true, rest) := partition_found 93 h rest h93
  unfold hostPort
  simp [e2, e3, e4]

/-- an opening bracket that is never closed swallows the port -/
theorem writable_open {w : Str} (h64 : 64 ∉ w) (h91 : 91 ∈ w) (h93 : 93 ∉ w) : Writable w := by
  refine ⟨h64, ?_⟩
  intro rest _ r93
  left
  obtain ⟨a, b, hab, ha⟩ := split_first h91
  have e2 : mem 91 (w ++ rest) = true := mem_iff.mpr (by simp [h91])
  have e3 : partition 91 (w ++ rest) = (a, true, b ++ rest) := by
    rw [hab]
    have := partition_found 91 a (b ++ rest) ha
    simpa using this
  have b93 : 93 ∉ b := fun hm => h93 (by rw [hab]; simp [hm])
  have e4 : partition 93 (b ++ rest) = (b ++ rest, false, []) :=
    partition_notFound 93 (b ++ rest) (by simp [b93, r93])
  unfold hostPort
  simp [e2, e3, e4, partition]

theorem portStrOK_written (w : Str) (port : Option Nat) (hw : Writable w)
    (hp : ∀ p, port = some p → p ≤ 65535) : PortStrOK (hostPort (hostPortStr w port)).2 := by
  cases port with
  | none =>
    have := hw.2 [] (by simp) (by simp)
    simp only [List.append_nil, partition, or_self] at this
    exact Or.inl this
  | some p =>
    have hd : ∀ c ∈ natToStr p, isDigitC c = true := (natToStrAux_digits p p).2
    have r91 : 91 ∉ 58 :: natToStr p := by
      have := notMem_digits hd 91 (by omega)
      simp [this]
    have r93 : 93 ∉ 58 :: natToStr p := by
      have := notMem_digits hd 93 (by omega)
      simp [this]
    have := hw.2 (58 :: natToStr p) r91 r93
    have e : hostPortStr w (some p) = w ++ 58 :: natToStr p := by simp [hostPortStr]
    rw [e]
    rcases this with h0 | h1
    · exact Or.inl h0
    · right
      refine ⟨p, hp p rfl, ?_⟩
      rw [h1]; simp [partition]

theorem notMem_hostPortStr_written {w : Str} (port : Option Nat) (h64 : 64 ∉ w) : 64 ∉ hostPortStr w port := by
  cases port with
  | none => simpa [hostPortStr] using h64
  | some p =>
    have := notMem_digits (natToStrAux_digits p p).2 64 (by omega)
    simp only [hostPortStr, List.mem_append, not_or]
    exact ⟨⟨h64, by simp⟩, this⟩

/-- the crux for any writable host text -/
theorem splitNetloc_makeNetloc_written (o : Oracles) (qf : Str → Str) (user pw : Option Str) (w : Str)
    (port : Option Nat) (enc : Bool) (hw : Writable w) (hp : ∀ p, port = some p → p ≤ 65535) :
    ∃ np, splitNetloc o (makeNetloc qf user pw (some w) port enc) = .ok np := by
  have h64 := notMem_hostPortStr_written port hw.1
  have hps := portStrOK_written w port hw hp
  have := splitNetloc_tail_ok o _ h64 hps
  rcases makeNetloc_shape qf user pw w port enc with e | ⟨X, e⟩
  · rw [e]; exact this.1
  · rw [e]; exact this.2 X

theorem splitNetloc_hostPort_written (o : Oracles) (w : Str) (port : Option Nat)
    (hw : Writable w) (hp : ∀ p, port = some p → p ≤ 65535) :
    ∃ np, splitNetloc o (match port with | none => w | some p => w ++ [58] ++ natToStr p) = .ok np := by
  have := splitNetloc_makeNetloc_written o id none none w port false hw hp
  cases port <;> simpa [makeNetloc] using this

/-! ### what the non-validating `_encode_host` returns -/

theorem mem_lower' (k : Nat) (hk : ¬ (65 ≤ k ∧ k ≤ 90) ∧ ¬ (97 ≤ k ∧ k ≤ 122)) (s : Str) : k ∈ lower s ↔ k ∈ s := by
  unfold lower
  simp only [List.mem_map]
  constructor
  · rintro ⟨c, hc, h⟩
    have : c = k := by unfold lowerC at h; split at h <;> omega
    exact this ▸ hc
  · intro h
    refine ⟨k, h, ?_⟩
    unfold lowerC; split <;> omega

theorem partition_join (c : Nat) (s : Str) :
    s = (partition c s).1 ++ (if (partition c s).2.1 then c :: (partition c s).2.2 else []) := by
  induction s with
  | nil => simp [partition]
  | cons x xs ih =>
    by_cases h : x = c
    · subst h; simp [partition]
    · simp only [partition, h, ↓reduceIte, List.cons_append, List.cons.injEq, true_and]
      exact ih

theorem parseIP_v6 {s : Str} {h8 : List Nat} (h : parseIP s = some (.v6 h8)) :
    parseIPv4 s = none ∧ parseIPv6 s = some h8 := by
  unfold parseIP at h
  cases h4 : parseIPv4 s with
  | some o => rw [h4] at h; cases h
  | none =>
    rw [h4] at h
    cases h6 : parseIPv6 s with
    | none => rw [h6] at h; cases h
    | some x => rw [h6] at h; simp at h; subst h; exact ⟨rfl, rfl⟩

theorem parseIP_v4 {s : Str} {o4 : List Nat} (h : parseIP s = some (.v4 o4)) : parseIPv4 s = some o4 := by
  unfold parseIP at h
  cases h4 : parseIPv4 s with
  | some o => rw [h4] at h; simp at h; subst h; rfl
  | none =>
    rw [h4] at h
    cases h6 : parseIPv6 s with
    | none => rw [h6] at h; cases h
    | some x => rw [h6] at h; cases h

/-- the IP branch without validation: a bracketed canonical IPv6 text (zone kept) or the input itself (IPv4) -/
theorem ipRes_false_cases {h0 h1 : Str} (hres : HostLemmas.ipRes h0 = some h1) :
    (∃ h8, parseIP (partition 37 h0).1 = some (.v6 h8) ∧ h1 = [91] ++ (ipv6ToStr h8 ++ zonePart h0) ++ [93]) ∨
    h1 = h0 := by
  unfold HostLemmas.ipRes at hres
  cases hp : parseIP (partition 37 h0).1 with
  | none => simp [hp] at hres
  | some ip =>
    cases ip with
    | v4 o4 =>
      right
      simp only [hp, Option.some.injEq] at hres
      rw [(C16_ipv4_canonical _ o4 (parseIP_v4 hp)).1] at hres
      have hj := partition_join 37 h0
      rw [← hres]
      cases hf : (partition 37 h0).2.1 with
      | true => rw [hf] at hj; simpa using hj.symm
      | false => rw [hf] at hj; simpa using hj.symm
    | v6 h8 =>
      left
      simp only [hp, Option.some.injEq] at hres
      refine ⟨h8, rfl, ?_⟩
      rw [← hres]
      unfold zonePart
      split <;> simp

/-- the three things the re-entry `encodeHostA` (fix 3fbf5b4) can return without validation -/
theorem encodeHostA_false_cases (o : Oracles) (a h1 : Str) (he : encodeHostA o a false = .ok h1) :
    (∃ h8, parseIP (partition 37 a).1 = some (.v6 h8) ∧ h1 = [91] ++ (ipv6ToStr h8 ++ zonePart a) ++ [93]) ∨
    h1 = a ∨ (isAscii a = true ∧ h1 = lower a) := by
  rcases HostLemmas.encodeHostA_casesV he with ⟨hres, _⟩ | ⟨_, hreg⟩
  · rcases ipRes_false_cases hres with h | h
    · exact Or.inl h
    · exact Or.inr (Or.inl h)
  · obtain ⟨ha, hr, _⟩ := HostLemmas.regPathA_ok hreg
    exact Or.inr (Or.inr ⟨ha, hr⟩)

/-- the things the non-validating `_encode_host` can return: a bracketed canonical IPv6 text
    (zone kept); since fix 3fbf5b4, for a non-ASCII host whose IDNA answer `a` holds a ':', what the re-entry makes
    of `a` (the same three ASCII cases, on `a`); the input itself (IPv4 literal, zone kept), the lower-cased ASCII
    input, or the IDNA encoder's answer -/
theorem encodeHost_false_cases (o : Oracles) (h0 h1 : Str) (he : encodeHost o h0 false = .ok h1) :
    (∃ h8, parseIP (partition 37 h0).1 = some (.v6 h8) ∧ h1 = [91] ++ (ipv6ToStr h8 ++ zonePart h0) ++ [93]) ∨
    (isAscii h0 = false ∧ ∃ a, idnaEncode o h0 = .ok a ∧ mem 58 a = true ∧
      ((∃ h8, parseIP (partition 37 a).1 = some (.v6 h8) ∧ h1 = [91] ++ (ipv6ToStr h8 ++ zonePart a) ++ [93]) ∨
        h1 = a ∨ (isAscii a = true ∧ h1 = lower a))) ∨
    h1 = h0 ∨ (isAscii h0 = true ∧ h1 = lower h0) ∨ (isAscii h0 = false ∧ idnaEncode o h0 = .ok h1) := by
  rcases HostLemmas.encodeHost_casesV he with ⟨hres, _⟩ | ⟨_, hreg⟩
  · rcases ipRes_false_cases hres with h | h
    · exact Or.inl h
    · exact Or.inr (Or.inr (Or.inl h))
  · right
    cases ha : isAscii h0 with
    | true =>
      right; right; left
      simp only [HostLemmas.regPath, ha, ↓reduceIte, Bool.false_and, Bool.false_eq_true] at hreg
      cases hreg
      exact ⟨rfl, rfl⟩
    | false =>
      obtain ⟨a, hi, ⟨_, rfl, _⟩ | ⟨h58, hA⟩⟩ := HostLemmas.regPath_idn_cases ha hreg
      · exact Or.inr (Or.inr (Or.inr ⟨rfl, hi⟩))
      · exact Or.inl ⟨rfl, a, hi, h58, encodeHostA_false_cases o a h1 hA⟩

/-- the delimiters that matter when a netloc is split and its host unbracketed -/
def Delim (c : Nat) : Prop := c = 58 ∨ c = 64 ∨ c = 91 ∨ c = 93

/-- the body of a bracketed IPv6 result: it has a ':', and its delimiters other than ':' come from the zone -/
theorem v6_body_facts (h0 : Str) (h8 : List Nat) (hv6 : parseIP (partition 37 h0).1 = some (.v6 h8)) :
    58 ∈ ipv6ToStr h8 ++ zonePart h0 ∧ 58 ∈ h0 ∧
    ∀ c, (c = 64 ∨ c = 91 ∨ c = 93) → c ∈ ipv6ToStr h8 ++ zonePart h0 → c ∈ h0 := by
  obtain ⟨_, h6⟩ := parseIP_v6 hv6
  have hcolon : 58 ∈ ipv6ToStr h8 := HostLemmas.parseIPv6_colon (C16_ipv6_reparse _ h8 h6)
  refine ⟨List.mem_append_left _ hcolon, partition_fst_sub 37 h0 58 (HostLemmas.parseIPv6_colon h6), ?_⟩
  intro c hc hm
  rcases List.mem_append.1 hm with hm | hm
  · exfalso
    rcases C16_ipv6_text_lower h8 c hm with h' | h' | h'
    · omega
    · simp [isDigitC] at h'; omega
    · omega
  · unfold zonePart at hm
    split at hm
    · simp only [List.cons_append, List.nil_append, List.mem_cons] at hm
      rcases hm with hm | hm
      · omega
      · exact partition_snd_sub 37 h0 c hm
    · cases hm

/-- in the three other cases no non-letter character is introduced (for the IDNA answer this is a hypothesis) -/
theorem encodeHost_false_char (o : Oracles) (h0 h1 : Str) (c : Nat)
    (hc : ¬ (65 ≤ c ∧ c ≤ 90) ∧ ¬ (97 ≤ c ∧ c ≤ 122))
    (hidna : isAscii h0 = false → ∀ r, idnaEncode o h0 = .ok r → c ∈ r → c ∈ h0)
    (h : h1 = h0 ∨ (isAscii h0 = true ∧ h1 = lower h0) ∨ (isAscii h0 = false ∧ idnaEncode o h0 = .ok h1)) :
    c ∈ h1 → c ∈ h0 := by
  intro hm
  rcases h with h | ⟨_, h⟩ | ⟨ha, h⟩
  · rwa [h] at hm
  · rw [h] at hm
    exact (mem_lower' c hc h0).1 hm
  · exact hidna ha h1 h hm

theorem encodeHost_false_delims (o : Oracles) (h0 h1 : Str)
    (hidna : isAscii h0 = false → ∀ r, idnaEncode o h0 = .ok r → ∀ c, Delim c → c ∈ r → c ∈ h0)
    (h : h1 = h0 ∨ (isAscii h0 = true ∧ h1 = lower h0) ∨ (isAscii h0 = false ∧ idnaEncode o h0 = .ok h1)) :
    ∀ c, Delim c → c ∈ h1 → c ∈ h0 := by
  intro c hc
  exact encodeHost_false_char o h0 h1 c (by unfold Delim at hc; omega) (fun ha r hr => hidna ha r hr c hc) h

/-- the two non-IPv6 answers of the re-entry introduce no non-letter character -/
theorem encodeHostA_false_char (a h1 : Str) (c : Nat) (hc : ¬ (65 ≤ c ∧ c ≤ 90) ∧ ¬ (97 ≤ c ∧ c ≤ 122))
    (h : h1 = a ∨ (isAscii a = true ∧ h1 = lower a)) : c ∈ h1 → c ∈ a := by
  intro hm
  rcases h with h | ⟨_, h⟩
  · rwa [h] at hm
  · rw [h] at hm
    exact (mem_lower' c hc a).1 hm

/-- THE CRUX after the fix: the re-bracketed encoded host of a host that `split_netloc` cut out of
    the input is always a writable host text -/
theorem writable_rebracket (o : Oracles) (n : Str) (np : NetlocParts) (h0 h1 : Str)
    (hn : splitNetloc o n = .ok np) (hh : np.host = some h0)
    (hidna : isAscii h0 = false → ∀ r, idnaEncode o h0 = .ok r →
      ∀ c, (c = 58 ∨ c = 64 ∨ c = 93) → c ∈ r → c ∈ h0)
    (he : encodeHost o h0 false = .ok h1) :
    Writable (rebracket (mem 91 (rpartition 64 n).2.2) h1) := by
  obtain ⟨_, h64, hB, hnB⟩ := splitNetloc_host_facts o n np h0 hn hh
  -- a bracketed canonical IPv6 text made from `t` (the host, or since fix 3fbf5b4 its IDNA answer)
  have keyv6 : ∀ (t : Str) (h8 : List Nat), (∀ c, (c = 58 ∨ c = 64 ∨ c = 93) → c ∈ t → c ∈ h0) →
      parseIP (partition 37 t).1 = some (.v6 h8) → h1 = [91] ++ (ipv6ToStr h8 ++ zonePart t) ++ [93] →
      Writable (rebracket (mem 91 (rpartition 64 n).2.2) h1) := by
    intro t h8 ht hv6 hr
    obtain ⟨hc, hc0, hsub⟩ := v6_body_facts t h8 hv6
    have hc0' : 58 ∈ h0 := ht 58 (by simp) hc0
    have hBt : mem 91 (rpartition 64 n).2.2 = true := by
      cases hb : mem 91 (rpartition 64 n).2.2 with
      | true => rfl
      | false => exact absurd hc0' (hnB hb).1
    have hm : mem 91 h1 = true := mem_iff.mpr (by rw [hr]; simp)
    have : rebracket (mem 91 (rpartition 64 n).2.2) h1 = h1 := by simp [rebracket, hm]
    rw [this, hr]
    exact writable_bracketed (fun hm => h64 (ht 64 (by simp) (hsub 64 (by simp) hm)))
      (fun hm => hB hBt (ht 93 (by simp) (hsub 93 (by simp) hm)))
  -- every other answer brings no new delimiter
  have main : (∀ c, (c = 58 ∨ c = 64 ∨ c = 93) → c ∈ h1 → c ∈ h0) →
      Writable (rebracket (mem 91 (rpartition 64 n).2.2) h1) := by
    intro hd
    have h64' : 64 ∉ h1 := fun hm => h64 (hd 64 (by simp) hm)
    cases hb : mem 91 (rpartition 64 n).2.2 with
    | true =>
      have h93' : 93 ∉ h1 := fun hm => hB hb (hd 93 (by simp) hm)
      cases hm : mem 91 h1 with
      | true =>
        have : rebracket true h1 = h1 := by simp [rebracket, hm]
        rw [this]
        exact writable_open h64' (mem_iff.mp hm) h93'
      | false =>
        have : rebracket true h1 = [91] ++ h1 ++ [93] := by simp [rebracket, hm]
        rw [this]
        exact writable_bracketed h64' h93'
    | false =>
      have h58' : 58 ∉ h1 := fun hm => (hnB hb).1 (hd 58 (by simp) hm)
      have : rebracket false h1 = bracket h1 := by simp [rebracket, bracket, mem_false_iff.mpr h58']
      rw [this]
      exact writable_bracket ⟨h64', fun hm => absurd hm h58'⟩
  rcases encodeHost_false_cases o h0 h1 he with ⟨h8, hv6, hr⟩ | ⟨hna, a, hi, _, hA⟩ | hrest
  · exact keyv6 h0 h8 (fun _ _ hm => hm) hv6 hr
  · rcases hA with ⟨h8, hv6, hr⟩ | hA
    · exact keyv6 a h8 (hidna hna a hi) hv6 hr
    · exact main (fun c hc hm => hidna hna a hi c hc (encodeHostA_false_char a h1 c (by omega) hA hm))
  · exact main (fun c hc =>
      encodeHost_false_char o h0 h1 c (by omega) (fun ha r hr => hidna ha r hr c hc) hrest)

/-- the re-bracketed form of "no host" -/
theorem writable_rebracket_nil (b : Bool) : Writable (rebracket b []) := by
  cases b with
  | true =>
    have : rebracket true [] = [91] ++ [] ++ [93] := by simp [rebracket, mem]
    rw [this]
    exact writable_bracketed (by simp) (by simp)
  | false =>
    have : rebracket false [] = bracket [] := by simp [rebracket, bracket, mem]
    rw [this]
    exact writable_bracket ⟨by simp, by simp⟩

end StrTotal
end Yarl
