/-
  GenTabs.lean — facts about the GENERATED quoter configurations
  (`YarlModel/Generated.lean`), all established by computation so that they
  keep working when the tables are regenerated from the Python sources.

  Shape of every proof: a general lemma about an arbitrary `QArgs` with
  *decidable* side conditions, and then `decide` for the side conditions on the
  concrete configurations.
-/
import YarlProofs.Defs
namespace Yarl

namespace GenTabs

theorem mem_iff {c : Nat} {l : Str} : mem c l = true ↔ c ∈ l := by
  unfold mem; exact List.contains_iff_mem

theorem mem_append (c : Nat) (l₁ l₂ : Str) : mem c (l₁ ++ l₂) = (mem c l₁ || mem c l₂) := by
  unfold mem; simp

theorem mem_lt_of_all {l : Str} {n : Nat} (h : ∀ x ∈ l, x < n) {c : Nat} (hc : mem c l = true) : c < n :=
  h c (mem_iff.mp hc)

theorem mem_false_of_all {l : Str} {n : Nat} (h : ∀ x ∈ l, x < n) {c : Nat} (hc : n ≤ c) : mem c l = false := by
  cases hm : mem c l with
  | false => rfl
  | true => have := mem_lt_of_all h hm; omega

/-- the string the pure-Python `_Quoter` tests membership on -/
def pySafeStr (a : QArgs) : Str :=
  a.safe ++ Gen.allowedPy ++ (if a.qs then [] else "+&=;".toStr) ++ a.prot

/-- the compiled `_Quoter`'s safe table, before the `< 128` guard -/
def cSafeFn (a : QArgs) (c : Nat) : Bool :=
  mem c Gen.allowedC || (!a.qs && mem c Gen.qsC) || mem c a.safe || mem c a.prot

theorem tabPy_safe (a : QArgs) (c : Nat) : a.tabPy.safe c = mem c (pySafeStr a) := rfl
theorem tabC_safe (a : QArgs) (c : Nat) : a.tabC.safe c = (decide (c < 128) && cSafeFn a c) := rfl

/-- All the decidable side conditions on one configuration. -/
structure Ok (a : QArgs) : Prop where
  ascii : ∀ x ∈ pySafeStr a, x < 128
  pctPy : mem 37 (pySafeStr a) = false
  pctC : cSafeFn a 37 = false
  agree : ∀ c, c < 128 → mem c (pySafeStr a) = cSafeFn a c
  spacePy : mem 32 (pySafeStr a) = false
  spaceC : cSafeFn a 32 = false

instance (a : QArgs) : Decidable (Ok a) :=
  if h : (∀ x ∈ pySafeStr a, x < 128) ∧ mem 37 (pySafeStr a) = false ∧ cSafeFn a 37 = false ∧
      (∀ c, c < 128 → mem c (pySafeStr a) = cSafeFn a c) ∧ mem 32 (pySafeStr a) = false ∧
      cSafeFn a 32 = false then
    isTrue ⟨h.1, h.2.1, h.2.2.1, h.2.2.2.1, h.2.2.2.2.1, h.2.2.2.2.2⟩
  else isFalse (fun o => h ⟨o.ascii, o.pctPy, o.pctC, o.agree, o.spacePy, o.spaceC⟩)

theorem prot_sub (a : QArgs) (c : Nat) (h : mem c a.prot = true) : mem c (pySafeStr a) = true := by
  unfold pySafeStr
  rw [mem_append, h, Bool.or_true]

theorem prot_lt {a : QArgs} (o : Ok a) {c : Nat} (h : mem c a.prot = true) : c < 128 :=
  mem_lt_of_all o.ascii (prot_sub a c h)

theorem tabPy_wf {a : QArgs} (o : Ok a) : a.tabPy.WF where
  safe_ascii := fun c hc => mem_lt_of_all o.ascii (by rwa [tabPy_safe] at hc)
  prot_safe := fun c hc => by
    rw [tabPy_safe]; exact prot_sub a c hc
  pct_unsafe := by rw [tabPy_safe]; exact o.pctPy

theorem tabC_wf {a : QArgs} (o : Ok a) : a.tabC.WF where
  safe_ascii := fun c hc => by
    rw [tabC_safe] at hc
    simp only [Bool.and_eq_true, decide_eq_true_eq] at hc
    exact hc.1
  prot_safe := fun c hc => by
    have hc' : (decide (c < 128) && mem c a.prot) = true := hc
    simp only [Bool.and_eq_true, decide_eq_true_eq] at hc'
    rw [tabC_safe]
    simp only [cSafeFn, Bool.and_eq_true, decide_eq_true_eq, Bool.or_eq_true]
    exact ⟨hc'.1, Or.inr hc'.2⟩
  pct_unsafe := by
    rw [tabC_safe, o.pctC]; rfl

theorem safe_eq {a : QArgs} (o : Ok a) (c : Nat) : a.tabPy.safe c = a.tabC.safe c := by
  rw [tabPy_safe, tabC_safe]
  by_cases hc : c < 128
  · rw [o.agree c hc]; simp [hc]
  · rw [mem_false_of_all o.ascii (Nat.le_of_not_lt hc)]; simp [hc]

theorem prot_eq {a : QArgs} (o : Ok a) (c : Nat) : a.tabPy.prot c = a.tabC.prot c := by
  show mem c a.prot = (decide (c < 128) && mem c a.prot)
  cases hm : mem c a.prot with
  | false => simp
  | true => have := prot_lt o hm; simp [this]

theorem tab_eq {a : QArgs} (o : Ok a) : a.tabPy = a.tabC := by
  have hs : a.tabPy.safe = a.tabC.safe := funext (safe_eq o)
  have hp : a.tabPy.prot = a.tabC.prot := funext (prot_eq o)
  have hq : a.tabPy.qs = a.tabC.qs := rfl
  have hr : a.tabPy.requote = a.tabC.requote := rfl
  cases hx : a.tabPy with
  | mk s1 p1 q1 r1 =>
    cases hy : a.tabC with
    | mk s2 p2 q2 r2 =>
      rw [hx, hy] at hs hp hq hr
      simp only at hs hp hq hr
      subst hs hp hq hr
      rfl

theorem space_unsafe {a : QArgs} (o : Ok a) : ∀ b, (a.tab b).safe 32 = false
  | .py => o.spacePy
  | .c => by
    show (decide (32 < 128) && cSafeFn a 32) = false
    rw [o.spaceC]; rfl

theorem tab_wf {a : QArgs} (o : Ok a) : ∀ b, (a.tab b).WF
  | .py => tabPy_wf o
  | .c => tabC_wf o

/-- the computation: every generated configuration passes the checks -/
theorem all_ok : ∀ a ∈ Gen.allQuoters, Ok a := by decide +kernel

theorem default_ok : Ok defaultQuoterArgs ∧ Ok defaultQsQuoterArgs := by decide +kernel

/-- requoting query quoters keep `+` literal (it is in their protected set) -/
theorem plus_ok : ∀ a ∈ Gen.allQuoters, a.requote = true → a.qs = true →
    mem 43 (pySafeStr a) = true ∧ cSafeFn a 43 = true := by decide +kernel

end GenTabs

open GenTabs

theorem gen_tab_wf : ∀ a ∈ Gen.allQuoters, ∀ b : Backend, (a.tab b).WF :=
  fun a ha => tab_wf (all_ok a ha)

theorem default_tabs_wf : ∀ b : Backend, (defaultQuoterArgs.tab b).WF ∧ (defaultQsQuoterArgs.tab b).WF :=
  fun b => ⟨tab_wf default_ok.1 b, tab_wf default_ok.2 b⟩

theorem gen_tab_backend_eq : ∀ a ∈ Gen.allQuoters, a.tabPy = a.tabC :=
  fun a ha => tab_eq (all_ok a ha)

theorem default_tab_backend_eq :
    defaultQuoterArgs.tabPy = defaultQuoterArgs.tabC ∧ defaultQsQuoterArgs.tabPy = defaultQsQuoterArgs.tabC :=
  ⟨tab_eq default_ok.1, tab_eq default_ok.2⟩

theorem gen_space_unsafe : ∀ a ∈ Gen.allQuoters, ∀ b, (a.tab b).safe 32 = false :=
  fun a ha => space_unsafe (all_ok a ha)

/-- (extra) the two quoters inside every `_Unquoter` never keep a space literal -/
theorem default_space_unsafe :
    ∀ b, (defaultQuoterArgs.tab b).safe 32 = false ∧ (defaultQsQuoterArgs.tab b).safe 32 = false :=
  fun b => ⟨space_unsafe default_ok.1 b, space_unsafe default_ok.2 b⟩

theorem gen_qs_plus_safe_requoters :
    ∀ a ∈ Gen.allQuoters, a.requote = true → a.qs = true → ∀ b, (a.tab b).safe 43 = true := by
  intro a ha hr hq b
  obtain ⟨h1, h2⟩ := plus_ok a ha hr hq
  cases b with
  | py => exact h1
  | c =>
    show (decide (43 < 128) && cSafeFn a 43) = true
    rw [h2]; rfl

end Yarl
