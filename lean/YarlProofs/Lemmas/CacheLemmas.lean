/-
  CacheLemmas.lean — helper lemmas for C08 / C20 (memoisation state machine).

  `HeapExt h h'`  : every object of `h` still exists in `h'` at the same id with the same parts
                    (the heap only grows, memos may change, parts never do);
  `MemoOK`        : every memo entry is what the accessor would compute;
  `TableOK`       : every constructor-table entry points to a live object with the right parts;
  `HRel`/`HandlesOK` : implementation handles denote objects whose parts are the spec's values.
-/
import YarlModel
namespace Yarl.CacheLemmas
open Yarl.Cache

set_option linter.unusedSectionVars false
variable {Key Parts Val : Type} [DecidableEq Key]

/-! ### heap extension -/

def HeapExt (h h' : List (Obj Parts Val)) : Prop :=
  ∀ (id : Nat) (o : Obj Parts Val), h[id]? = some o → ∃ o', h'[id]? = some o' ∧ o'.parts = o.parts

theorem HeapExt.refl (h : List (Obj Parts Val)) : HeapExt h h :=
  fun _ o ho => ⟨o, ho, rfl⟩

theorem HeapExt.trans {a b c : List (Obj Parts Val)} (h1 : HeapExt a b) (h2 : HeapExt b c) : HeapExt a c := by
  intro id o ho
  obtain ⟨o1, ho1, hp1⟩ := h1 id o ho
  obtain ⟨o2, ho2, hp2⟩ := h2 id o1 ho1
  exact ⟨o2, ho2, hp2.trans hp1⟩

theorem getElem?_lt {α} {l : List α} {i : Nat} {a : α} (h : l[i]? = some a) : i < l.length := by
  obtain ⟨h', _⟩ := List.getElem?_eq_some_iff.mp h
  exact h'

theorem heapExt_append (h l : List (Obj Parts Val)) : HeapExt h (h ++ l) := by
  intro id o ho
  refine ⟨o, ?_, rfl⟩
  rw [List.getElem?_append_left (getElem?_lt ho)]; exact ho

theorem getElem?_setMemo (h : List (Obj Parts Val)) (id : Nat) (n : String) (v : Val) (i : Nat) :
    (setMemo h id n v)[i]? =
      (h[i]?).map (fun o => if i = id then { o with memo := (n, v) :: o.memo } else o) := by
  simp [setMemo, List.getElem?_mapIdx]

theorem heapExt_setMemo (h : List (Obj Parts Val)) (id : Nat) (n : String) (v : Val) :
    HeapExt h (setMemo h id n v) := by
  intro i o ho
  rw [getElem?_setMemo, ho]
  by_cases hi : i = id
  · exact ⟨{ o with memo := (n, v) :: o.memo }, by simp [hi], rfl⟩
  · exact ⟨o, by simp [hi], rfl⟩

theorem setMemo_length (h : List (Obj Parts Val)) (id : Nat) (n : String) (v : Val) :
    (setMemo h id n v).length = h.length := by
  simp [setMemo]

/-! ### memo correctness -/

def MemoOK (sem : Sem Key Parts Val) (heap : List (Obj Parts Val)) : Prop :=
  ∀ o ∈ heap, ∀ nv ∈ o.memo, nv.2 = sem.derive o.parts nv.1

theorem memoOK_nil (sem : Sem Key Parts Val) : MemoOK sem [] := by
  intro o ho; cases ho

theorem memoOK_snoc {sem : Sem Key Parts Val} {h : List (Obj Parts Val)} {o : Obj Parts Val}
    (hm : MemoOK sem h) (ho : ∀ nv ∈ o.memo, nv.2 = sem.derive o.parts nv.1) : MemoOK sem (h ++ [o]) := by
  intro o' ho'
  rcases List.mem_append.mp ho' with h1 | h1
  · exact hm o' h1
  · simp at h1; subst h1; exact ho

theorem memoOK_setMemo {sem : Sem Key Parts Val} {h : List (Obj Parts Val)} {id : Nat} {n : String} {v : Val}
    (hm : MemoOK sem h) (hv : ∀ o, h[id]? = some o → v = sem.derive o.parts n) :
    MemoOK sem (setMemo h id n v) := by
  intro o' ho'
  obtain ⟨i, hi⟩ := List.mem_iff_getElem?.mp ho'
  rw [getElem?_setMemo] at hi
  cases hg : h[i]? with
  | none => rw [hg] at hi; cases hi
  | some o =>
    rw [hg] at hi
    simp only [Option.map_some, Option.some.injEq] at hi
    have hmem : o ∈ h := List.mem_iff_getElem?.mpr ⟨i, hg⟩
    by_cases hid : i = id
    · simp only [hid, if_true] at hi
      subst hi
      intro nv hnv
      simp only [List.mem_cons] at hnv
      rcases hnv with rfl | hnv
      · exact hv o (hid ▸ hg)
      · exact hm o hmem nv hnv
    · simp only [hid, if_false] at hi
      subst hi; exact hm o hmem

/-! ### the constructor table -/

def TableOK (sem : Sem Key Parts Val) (heap : List (Obj Parts Val)) (table : List (Key × Nat)) : Prop :=
  ∀ kid ∈ table, ∃ o, heap[kid.2]? = some o ∧ sem.construct kid.1 = some o.parts

theorem tableOK_nil (sem : Sem Key Parts Val) (heap : List (Obj Parts Val)) : TableOK sem heap [] := by
  intro kid h; cases h

theorem tableOK_ext {sem : Sem Key Parts Val} {h h' : List (Obj Parts Val)} {t : List (Key × Nat)}
    (he : HeapExt h h') (ht : TableOK sem h t) : TableOK sem h' t := by
  intro kid hk
  obtain ⟨o, ho, hc⟩ := ht kid hk
  obtain ⟨o', ho', hp⟩ := he _ _ ho
  exact ⟨o', ho', by rw [hp]; exact hc⟩

theorem tableOK_insert {sem : Sem Key Parts Val} (pol : Policy Key) (cap : Option Nat)
    {h : List (Obj Parts Val)} {t : List (Key × Nat)} {k : Key} {id : Nat}
    (ht : TableOK sem h t) (hn : ∃ o, h[id]? = some o ∧ sem.construct k = some o.parts) :
    TableOK sem h (insertTable pol cap t k id) := by
  have hcons : ∀ t', (∀ x ∈ t', x ∈ t) → TableOK sem h ((k, id) :: t') := by
    intro t' hsub kid hk
    simp only [List.mem_cons] at hk
    rcases hk with rfl | hk
    · exact hn
    · exact ht kid (hsub kid hk)
  unfold insertTable
  split
  · exact ht
  · split
    · exact hcons _ (pol.sub t)
    · exact hcons _ (fun _ hx => hx)
  · exact hcons _ (fun _ hx => hx)

theorem lookup_mem {t : List (Key × Nat)} {k : Key} {id : Nat} (h : lookup t k = some id) : (k, id) ∈ t := by
  unfold lookup at h
  cases hf : t.find? (fun x => decide (x.1 = k)) with
  | none => rw [hf] at h; cases h
  | some x =>
    rw [hf] at h
    simp only [Option.map_some, Option.some.injEq] at h
    have h1 := List.find?_some hf
    have h2 := List.mem_of_find?_eq_some hf
    simp only [decide_eq_true_eq] at h1
    obtain ⟨a, b⟩ := x
    simp only at h h1
    subst h h1; exact h2

theorem memoGet_mem {m : List (String × Val)} {n : String} {v : Val} (h : memoGet m n = some v) : (n, v) ∈ m := by
  unfold memoGet at h
  cases hf : m.find? (fun x => decide (x.1 = n)) with
  | none => rw [hf] at h; cases h
  | some x =>
    rw [hf] at h
    simp only [Option.map_some, Option.some.injEq] at h
    have h1 := List.find?_some hf
    have h2 := List.mem_of_find?_eq_some hf
    simp only [decide_eq_true_eq] at h1
    obtain ⟨a, b⟩ := x
    simp only at h h1
    subst h h1; exact h2

/-! ### handles -/

/-- implementation handle `a` denotes the spec value `b` -/
def HRel (heap : List (Obj Parts Val)) : Option Nat → Option Parts → Prop
  | some id, some p => ∃ o, heap[id]? = some o ∧ o.parts = p
  | none, none => True
  | _, _ => False

def HandlesOK (heap : List (Obj Parts Val)) (hs : List (Option Nat)) (shs : List (Option Parts)) : Prop :=
  hs.length = shs.length ∧ ∀ (i : Nat) (a : Option Nat) (b : Option Parts), hs[i]? = some a → shs[i]? = some b → HRel heap a b

theorem hrel_ext {h h' : List (Obj Parts Val)} (he : HeapExt h h') {a : Option Nat} {b : Option Parts}
    (hr : HRel h a b) : HRel h' a b := by
  cases a <;> cases b <;> simp only [HRel] at hr ⊢
  obtain ⟨o, ho, hp⟩ := hr
  obtain ⟨o', ho', hp'⟩ := he _ _ ho
  exact ⟨o', ho', hp'.trans hp⟩

theorem handlesOK_nil (heap : List (Obj Parts Val)) : HandlesOK heap [] [] :=
  ⟨rfl, by intro i a b h; simp at h⟩

theorem handlesOK_ext {h h' : List (Obj Parts Val)} (he : HeapExt h h') {hs : List (Option Nat)}
    {shs : List (Option Parts)} (hh : HandlesOK h hs shs) : HandlesOK h' hs shs :=
  ⟨hh.1, fun i a b ha hb => hrel_ext he (hh.2 i a b ha hb)⟩

theorem handlesOK_snoc {heap : List (Obj Parts Val)} {hs : List (Option Nat)} {shs : List (Option Parts)}
    (hh : HandlesOK heap hs shs) {a : Option Nat} {b : Option Parts} (hr : HRel heap a b) :
    HandlesOK heap (hs ++ [a]) (shs ++ [b]) := by
  refine ⟨by simp [hh.1], ?_⟩
  intro i a' b' ha hb
  by_cases hi : i < hs.length
  · rw [List.getElem?_append_left hi] at ha
    rw [List.getElem?_append_left (hh.1 ▸ hi)] at hb
    exact hh.2 i a' b' ha hb
  · have hi' : hs.length ≤ i := Nat.le_of_not_lt hi
    rw [List.getElem?_append_right hi'] at ha
    rw [List.getElem?_append_right (hh.1 ▸ hi')] at hb
    have : i - hs.length = 0 := by
      cases hd : i - hs.length with
      | zero => rfl
      | succ n => rw [hd] at ha; simp at ha
    rw [this] at ha; rw [← hh.1, this] at hb
    simp at ha hb; subst ha hb; exact hr

/-- what a handle look-up on the implementation side tells about the spec side -/
theorem handlesOK_get {heap : List (Obj Parts Val)} {hs : List (Option Nat)} {shs : List (Option Parts)}
    (hh : HandlesOK heap hs shs) (i : Nat) :
    (∃ id o, hs[i]? = some (some id) ∧ heap[id]? = some o ∧ shs[i]? = some (some o.parts)) ∨
    (hs[i]? = some none ∧ shs[i]? = some none) ∨ (hs[i]? = none ∧ shs[i]? = none) := by
  by_cases hi : i < hs.length
  · have hi' : i < shs.length := hh.1 ▸ hi
    have h1 : hs[i]? = some hs[i] := List.getElem?_eq_getElem hi
    have h2 : shs[i]? = some shs[i] := List.getElem?_eq_getElem hi'
    have hr := hh.2 i _ _ h1 h2
    rw [h1, h2]
    cases ha : hs[i] <;> cases hb : shs[i] <;> rw [ha, hb] at hr <;> simp only [HRel] at hr
    · right; left; exact ⟨rfl, rfl⟩
    · obtain ⟨o, ho, hp⟩ := hr
      left; exact ⟨_, o, rfl, ho, by rw [hp]⟩
  · right; right
    have hi1 : hs.length ≤ i := Nat.le_of_not_lt hi
    exact ⟨List.getElem?_eq_none hi1, List.getElem?_eq_none (hh.1 ▸ hi1)⟩

/-! ### spec runs -/

/-- the spec's handle list after a sequence of operations -/
def specHandles (sem : Sem Key Parts Val) : List (Option Parts) → List (Op Key Parts) → List (Option Parts)
  | hs, [] => hs
  | hs, op :: ops => specHandles sem (specStep sem hs op).1 ops

theorem specRun_append (sem : Sem Key Parts Val) (hs : List (Option Parts)) (a b : List (Op Key Parts)) :
    specRun sem hs (a ++ b) = specRun sem hs a ++ specRun sem (specHandles sem hs a) b := by
  induction a generalizing hs with
  | nil => rfl
  | cons op a ih => simp only [List.cons_append, specRun, specHandles, ih]

theorem specHandles_append (sem : Sem Key Parts Val) (hs : List (Option Parts)) (a b : List (Op Key Parts)) :
    specHandles sem hs (a ++ b) = specHandles sem (specHandles sem hs a) b := by
  induction a generalizing hs with
  | nil => rfl
  | cons op a ih => simp only [List.cons_append, specHandles, ih]

theorem specRun_length (sem : Sem Key Parts Val) (hs : List (Option Parts)) (a : List (Op Key Parts)) :
    (specRun sem hs a).length = a.length := by
  induction a generalizing hs with
  | nil => rfl
  | cons op a ih => simp only [specRun, List.length_cons, ih]

end Yarl.CacheLemmas
