/-
  DotMore.lean — helper lemmas for C15More (gap items 1–3 of the C15 audit):
  * canonical text of the PATH table has no escape that decodes to '.', so a canonical segment
    percent-decodes to "." / ".." only if it IS "." / "..";
  * the non-requoting PATH_QUOTER is a character-wise homomorphism (so '%' always becomes "%25");
  * the stack algorithm on a segment list whose first segment is the root's empty segment, compared
    with RFC 3986 §5.2.4 on the joined rooted path;
  * a closed description of the argument loop of `_make_child`.
-/
import YarlModel
import YarlProofs.C02
import YarlProofs.C14
import YarlProofs.C03Reach
set_option linter.unusedVariables false
namespace Yarl.DotMore
open Yarl PathLemmas PathAlg WfLemmas EntryLemmas OutLangLemmas QsLemmas

/-! ### A. canonical text and escaped dots -/

/-- canonical text of a table that keeps '.' literal and unprotected: if every decoded byte is a '.',
    the text has no escape at all (decoding is the identity on it) -/
theorem canon_decode_dots {t : QTab} (ht : t.WF) (h46s : t.safe 46 = true) (h46p : t.prot 46 = false)
    {s : Str} (h : Canon t s) : (∀ x ∈ pctDecode s, x = 46) → pctDecode s = s := by
  induction h with
  | nil => intro _; exact pctDecode_nil
  | lit c r hs hc hq hr ih =>
    intro hall
    have hu : utf8 c = [c] := utf8_lt128 (ht.safe_ascii c hs)
    rw [pctDecode_cons_ne hc, hu] at hall ⊢
    rw [ih (fun x hx => hall x (by simp [hx]))]
    rfl
  | esc b r hb hk hr ih =>
    intro hall
    rw [pctDecode_pct hb] at hall
    have hb46 : b = 46 := hall b (by simp)
    subst hb46
    rcases hk with hk | hk | hk
    · omega
    · rw [h46s] at hk; cases hk
    · rw [h46p] at hk; cases hk

theorem canon_decode_dot {t : QTab} (ht : t.WF) (h46s : t.safe 46 = true) (h46p : t.prot 46 = false)
    {s : Str} (h : Canon t s) : (pctDecode s = dot → s = dot) ∧ (pctDecode s = dotdot → s = dotdot) := by
  constructor
  · intro hd
    have := canon_decode_dots ht h46s h46p h (by rw [hd]; simp [dot])
    rw [← this, hd]
  · intro hd
    have := canon_decode_dots ht h46s h46p h (by rw [hd]; simp [dotdot])
    rw [← this, hd]

theorem path_tab_wf (b : Backend) : (Gen.PATH_REQUOTER.tab b).WF := gen_tab_wf _ FixLemmas.pr_mem b

theorem path_tab_46 (b : Backend) :
    (Gen.PATH_REQUOTER.tab b).safe 46 = true ∧ (Gen.PATH_REQUOTER.tab b).prot 46 = false := by
  cases b <;> exact ⟨by decide, by decide⟩

/-- a canonical path segment decodes to a dot segment only if it is one -/
theorem path_canon_decode_dot (b : Backend) {s : Str} (h : Canon (Gen.PATH_REQUOTER.tab b) s) :
    (pctDecode s = dot → s = dot) ∧ (pctDecode s = dotdot → s = dotdot) :=
  canon_decode_dot (path_tab_wf b) (path_tab_46 b).1 (path_tab_46 b).2 h

/-- the invariant of all auto-encoded URLs excludes escaped dot segments -/
theorem canonUrl_no_encoded_dots {b : Backend} {u : Url} (hu : CanonUrl b u) (hn : u.netloc ≠ []) :
    ∀ seg ∈ splitOn 47 u.path, pctDecode seg ≠ dot ∧ pctDecode seg ≠ dotdot := by
  intro seg hseg
  have hc := ReachFix.path_segs_canon b hu.path seg hseg
  have hd := hu.nodots hn seg hseg
  exact ⟨fun h => hd.1 ((path_canon_decode_dot b hc).1 h), fun h => hd.2 ((path_canon_decode_dot b hc).2 h)⟩

/-! ### B. the non-requoting PATH_QUOTER, character by character -/

theorem cOut_nr_append (t : QTab) (hnr : t.requote = false) (a b : Str) :
    cOut t (a ++ b) = cOut t a ++ cOut t b := by
  induction a with
  | nil => rw [List.nil_append, cOut, List.nil_append]
  | cons c r ih => rw [List.cons_append, cOut_nr_cons t hnr, cOut_nr_cons t hnr, ih, List.append_assoc]

theorem stripSurr_append (a b : Str) : stripSurr (a ++ b) = stripSurr a ++ stripSurr b := by
  simp [stripSurr]

theorem pyStr_append {a b : Str} (ha : PyStr a) (hb : PyStr b) : PyStr (a ++ b) := by
  intro c hc
  rcases List.mem_append.1 hc with h | h
  · exact ha c h
  · exact hb c h

theorem pq_mem : Gen.PATH_QUOTER ∈ Gen.allQuoters := by decide

theorem pq_tab_wf (b : Backend) : (Gen.PATH_QUOTER.tab b).WF := gen_tab_wf _ pq_mem b

theorem q_path_quoter_eq (e : Env) (s : Str) (hs : PyStr s) :
    q e Gen.PATH_QUOTER s = cOut (Gen.PATH_QUOTER.tab e.b) (stripSurr s) :=
  FixLemmas.run_cOut _ pq_mem e.b s hs

theorem pq_nr (b : Backend) : (Gen.PATH_QUOTER.tab b).requote = false := by
  rw [FixLemmas.tab_requote]; rfl

theorem pq_qs (b : Backend) : (Gen.PATH_QUOTER.tab b).qs = false := by
  rw [FixLemmas.tab_qs]; rfl

theorem q_path_quoter_append (e : Env) (a b : Str) (ha : PyStr a) (hb : PyStr b) :
    q e Gen.PATH_QUOTER (a ++ b) = q e Gen.PATH_QUOTER a ++ q e Gen.PATH_QUOTER b := by
  rw [q_path_quoter_eq e _ (pyStr_append ha hb), q_path_quoter_eq e _ ha, q_path_quoter_eq e _ hb,
    stripSurr_append, cOut_nr_append _ (pq_nr e.b)]

theorem q_path_quoter_pct (e : Env) : q e Gen.PATH_QUOTER [37] = [37, 50, 53] := by
  show Gen.PATH_QUOTER.run e.b [37] = [37, 50, 53]
  cases e.b <;> decide +kernel

theorem utf8s_stripSurr (s : Str) : utf8s (stripSurr s) = utf8s s := by
  induction s with
  | nil => rfl
  | cons c r ih =>
    by_cases hc : isSurrogate c = true
    · have h0 : utf8 c = [] := by
        unfold utf8
        simp only [isSurrogate, Bool.and_eq_true, decide_eq_true_eq] at hc
        rw [if_neg (by omega), if_neg (by omega), if_pos (by simp [isSurrogate]; omega)]
      simp only [stripSurr, List.filter_cons, hc, Bool.not_true, Bool.false_eq_true, if_false] at ih ⊢
      rw [QuoteEquiv.utf8s_cons, h0, List.nil_append]
      exact ih
    · simp only [stripSurr, List.filter_cons, hc, Bool.not_false, if_true] at ih ⊢
      rw [QuoteEquiv.utf8s_cons, QuoteEquiv.utf8s_cons, ih]

/-- percent-decoding what PATH_QUOTER wrote gives the UTF-8 bytes of the argument -/
theorem q_path_quoter_decode (e : Env) (s : Str) (hs : PyStr s) :
    pctDecode (q e Gen.PATH_QUOTER s) = utf8s s := by
  rw [q_path_quoter_eq e s hs, ← utf8s_stripSurr s]
  exact C02_decode_nr _ (pq_tab_wf e.b) (pq_nr e.b) (pq_qs e.b) _ (QuoteEquiv.pyStr_stripSurr hs)
    (by intro c hc; simp [stripSurr] at hc; simpa using hc.2)

/-! ### C. the stack algorithm with the root's empty segment on the stack, and RFC 3986 §5.2.4 -/

/-- the `"." in path` guard changes nothing: `normalize_path` is the identity without a '.' -/
theorem guard_eq (p : Str) : (if mem 46 p = true then normalizePath p else p) = normalizePath p := by
  split
  · rfl
  · rename_i h
    rw [C15_dot_guard_sound]
    rw [ParseLemmas.mem_eq] at h
    simpa using h

/-- a rooted path without dot segments is a fixed point of §5.2.4 -/
theorem rds_fixed_of_noDotSegments (r : Str) (h : NoDotSegments (47 :: r)) :
    Rfc.removeDotSegments (47 :: r) = 47 :: r := by
  rw [← C15_rfc]
  simp only [normalizePath]
  have hnd : NoDots (splitOn 47 r) := by
    intro s hs
    apply h s
    simp only [splitOn, if_true, List.mem_cons]
    exact Or.inr hs
  rw [normalizePathSegments_noDots _ hnd, joinC_splitOn]

/-- the bottom element of the stack either survives the loop or was popped by a ".." that climbed
    past it — after which the loop runs as if it had never been there -/
theorem normLoop_bottom (x : Str) (segs : List Str) : ∀ acc : List Str,
    normLoop (acc ++ [x]) segs = x :: normLoop acc segs ∨ normLoop (acc ++ [x]) segs = normLoop acc segs := by
  induction segs with
  | nil => intro acc; left; simp [normLoop]
  | cons s rest ih =>
    intro acc
    rw [normLoop_cons, normLoop_cons]
    unfold step
    split
    · cases acc with
      | nil => right; rfl
      | cons a t => exact ih t
    · split
      · exact ih acc
      · exact ih (s :: acc)

/-- "the stack never underflows": `d` is the current depth; true as soon as a ".." meets depth 0 -/
def climbs : Nat → List Str → Bool
  | _, [] => false
  | d, s :: rest =>
    if s = dotdot then (match d with | 0 => true | d' + 1 => climbs d' rest)
    else if s = dot then climbs d rest
    else climbs (d + 1) rest

theorem normLoop_bottom_noclimb (x : Str) (segs : List Str) : ∀ acc : List Str,
    climbs acc.length segs = false → normLoop (acc ++ [x]) segs = x :: normLoop acc segs := by
  induction segs with
  | nil => intro acc _; simp [normLoop]
  | cons s rest ih =>
    intro acc hc
    rw [normLoop_cons, normLoop_cons]
    unfold climbs at hc
    unfold step
    split
    · rename_i hs
      rw [if_pos hs] at hc
      cases acc with
      | nil => simp at hc
      | cons a t => exact ih t (by simpa using hc)
    · rename_i hs
      rw [if_neg hs] at hc
      split
      · rename_i hs2
        rw [if_pos hs2] at hc
        exact ih acc hc
      · rename_i hs2
        rw [if_neg hs2] at hc
        exact ih (s :: acc) (by simpa using hc)

theorem normalizePathSegments_root (L : List Str) (hL : L ≠ []) :
    normalizePathSegments ([] :: L) = [] :: normalizePathSegments L ∨
    normalizePathSegments ([] :: L) = normalizePathSegments L := by
  obtain ⟨a, b, rfl⟩ := List.exists_cons_of_ne_nil hL
  rw [normalizePathSegments_eq_G, normalizePathSegments_eq_G, G_cons]
  have hs : step [] ([] : Str) = [[]] := by simp [step, dot, dotdot]
  rw [hs]
  unfold G
  rcases normLoop_bottom [] (a :: b) [] with h | h
  · left; rw [List.nil_append] at h; rw [h]; rfl
  · right; rw [List.nil_append] at h; rw [h]

theorem normalizePathSegments_root_noclimb (L : List Str) (hL : L ≠ []) (hc : climbs 0 L = false) :
    normalizePathSegments ([] :: L) = [] :: normalizePathSegments L := by
  obtain ⟨a, b, rfl⟩ := List.exists_cons_of_ne_nil hL
  rw [normalizePathSegments_eq_G, normalizePathSegments_eq_G, G_cons]
  have hs : step [] ([] : Str) = [[]] := by simp [step, dot, dotdot]
  rw [hs]
  unfold G
  have h := normLoop_bottom_noclimb [] (a :: b) [] hc
  rw [List.nil_append] at h; rw [h]; rfl

theorem normalizePathSegments_ne_nil (L : List Str) (hL : L ≠ []) : normalizePathSegments L ≠ [] := by
  rw [normalizePathSegments_eq_G]; exact G_ne_nil L [] hL

theorem joinC_root_cons (K : List Str) (hK : K ≠ []) : joinC 47 ([] :: K) = 47 :: joinC 47 K := by
  rw [joinC_cons, flatF_eq_joinC K hK]; rfl

/-- §5.2.4 on the rooted join of a non-empty list of slash-free segments -/
theorem rds_joinC (L : List Str) (hL : L ≠ []) (hs : Segs L) :
    Rfc.removeDotSegments (47 :: joinC 47 L) = 47 :: joinC 47 (normalizePathSegments L) := by
  rw [← C15_rfc]
  simp only [normalizePath]
  rw [splitOn_joinC L hL hs]

theorem fixRoot_cons (r : Str) : fixRoot (47 :: r) = 47 :: r := rfl

/-- what `fixRoot` makes of a path `N` compared with "/" ++ N -/
theorem fixRoot_cases (N : Str) :
    (N = [] ∧ fixRoot N = []) ∨ (∃ t, N = 47 :: t ∧ fixRoot N = 47 :: t) ∨
    (N ≠ [] ∧ N.head? ≠ some 47 ∧ fixRoot N = 47 :: N) := by
  cases N with
  | nil => left; exact ⟨rfl, rfl⟩
  | cons c t =>
    by_cases hc : c = 47
    · subst hc; right; left; exact ⟨t, rfl, rfl⟩
    · right; right
      refine ⟨by simp, by simpa using hc, ?_⟩
      unfold fixRoot
      split
      · rename_i h; cases h
      · rename_i r h; exact absurd (List.cons.inj h).1 hc
      · rfl

/-- MAIN for `_make_child` / `with_path`: the segment list `[""] ++ L` (rooted join "/" ++ "/".join(L)) —
    §5.2.4 gives "/" ++ N with N the stack result for `L`; the code's
    `"/".join(normalize_path_segments([""] ++ L))`, rooted again if need be, is that, or — only when a
    ".." climbed above the root — `fixRoot N` -/
theorem root_norm_rfc (L : List Str) (hL : L ≠ []) (hs : Segs L) :
    Rfc.removeDotSegments (joinC 47 ([] :: L)) = 47 :: joinC 47 (normalizePathSegments L) ∧
    (fixRoot (joinC 47 (normalizePathSegments ([] :: L))) = 47 :: joinC 47 (normalizePathSegments L) ∨
     (climbs 0 L = true ∧
      fixRoot (joinC 47 (normalizePathSegments ([] :: L))) = fixRoot (joinC 47 (normalizePathSegments L)))) := by
  refine ⟨by rw [joinC_root_cons L hL]; exact rds_joinC L hL hs, ?_⟩
  cases hc : climbs 0 L with
  | false =>
    left
    rw [normalizePathSegments_root_noclimb L hL hc, joinC_root_cons _ (normalizePathSegments_ne_nil L hL)]
    rfl
  | true =>
    rcases normalizePathSegments_root L hL with h | h
    · left
      rw [h, joinC_root_cons _ (normalizePathSegments_ne_nil L hL)]
      rfl
    · right
      rw [h]
      exact ⟨rfl, rfl⟩

/-! ### D. the argument loop of `_make_child` in closed form -/

/-- the '/'-split of the quoted argument; all arguments but the last lose a trailing empty segment -/
def argSegs (e : Env) (last : Bool) (p : Str) : List Str :=
  if last then splitOn 47 (q e Gen.PATH_QUOTER p) else stripTrail (splitOn 47 (q e Gen.PATH_QUOTER p))

/-- the new segments, in path order, contributed by `reversed(paths)` = `ps` (`last` says whether the
    head of `ps` is the last argument) -/
def newSegs (e : Env) : Bool → List Str → List Str
  | _, [] => []
  | last, p :: rest => newSegs e false rest ++ argSegs e last p

/-- `needs_normalize`: some quoted argument contains a '.' -/
def anyDot (e : Env) (ps : List Str) : Bool := ps.any (fun p => mem 46 (q e Gen.PATH_QUOTER p))

/-- the new segments of `paths` (in argument order): `"/".join` of them is the text appended to the base -/
def childSegs (e : Env) (paths : List Str) : List Str :=
  paths.dropLast.flatMap (fun p => stripTrail (splitOn 47 (q e Gen.PATH_QUOTER p))) ++
  (match paths.getLast? with
   | some p => splitOn 47 (q e Gen.PATH_QUOTER p)
   | none => [])

theorem add_eq (segs : List Str) (last : Bool) :
    (if (!last && decide (segs.reverse.head? = some [])) = true then segs.reverse.drop 1 else segs.reverse)
      = (if last = true then segs else stripTrail segs).reverse := by
  cases last with
  | true => simp
  | false =>
    simp only [Bool.not_false, Bool.true_and, decide_eq_true_eq, List.head?_reverse, Bool.false_eq_true,
      if_false]
    unfold stripTrail
    split
    · simp [List.drop_one]
    · rfl

theorem go_spec (e : Env) : ∀ (ps : List Str) (last : Bool) (parsed : List Str) (nn : Bool)
    (r : List Str × Bool), makeChild.go e false ps last parsed nn = .ok r →
    r.1.reverse = newSegs e last ps ++ parsed.reverse ∧ r.2 = (nn || anyDot e ps) ∧
      ∀ p ∈ ps, p.head? ≠ some 47 := by
  intro ps
  induction ps with
  | nil =>
    intro last parsed nn r h
    simp only [makeChild.go, pure, Except.pure] at h
    cases h
    simp [newSegs, anyDot]
  | cons p rest ih =>
    intro last parsed nn r h
    simp only [makeChild.go, Bool.false_eq_true, if_false] at h
    split at h
    · cases h
    · rename_i hh
      rw [add_eq] at h
      obtain ⟨h1, h2, h3⟩ := ih _ _ _ r h
      refine ⟨?_, ?_, ?_⟩
      · rw [h1]
        simp [newSegs, argSegs]
      · rw [h2]
        simp [anyDot, Bool.or_assoc]
      · intro x hx
        rcases List.mem_cons.1 hx with rfl | hx
        · exact hh
        · exact h3 x hx

theorem newSegs_false (e : Env) (ps : List Str) :
    newSegs e false ps = ps.reverse.flatMap (fun p => stripTrail (splitOn 47 (q e Gen.PATH_QUOTER p))) := by
  induction ps with
  | nil => rfl
  | cons p rest ih => simp [newSegs, argSegs, ih]

theorem newSegs_childSegs (e : Env) (paths : List Str) : newSegs e true paths.reverse = childSegs e paths := by
  unfold childSegs
  rcases List.eq_nil_or_concat paths with rfl | ⟨init, l, rfl⟩
  · rfl
  · simp [newSegs, argSegs, newSegs_false]

theorem anyDot_reverse (e : Env) (paths : List Str) : anyDot e paths.reverse = anyDot e paths := by
  simp [anyDot]

/-- `_make_child(paths, encoded=False)` in closed form -/
theorem makeChild_spec (e : Env) (u : Url) (paths : List Str) (v : Url)
    (h : makeChild e u paths false = .ok v) :
    v = childOf u (childSegs e paths) (anyDot e paths) ∧ ∀ p ∈ paths, p.head? ≠ some 47 := by
  rw [makeChild_eq] at h
  obtain ⟨r, hr, h⟩ := map_ok h
  obtain ⟨h1, h2, h3⟩ := go_spec e _ _ _ _ r hr
  subst h
  simp only [List.reverse_nil, List.append_nil, Bool.false_or] at h1 h2
  rw [h1, h2, newSegs_childSegs, anyDot_reverse]
  exact ⟨rfl, fun p hp => h3 p (List.mem_reverse.2 hp)⟩

theorem segs_childSegs (e : Env) (paths : List Str) : Segs (childSegs e paths) := by
  intro s hs
  unfold childSegs at hs
  rcases List.mem_append.1 hs with h | h
  · obtain ⟨p, _, hp⟩ := List.mem_flatMap.1 h
    exact segs_stripTrail (segs_splitOn _) s hp
  · split at h
    · exact segs_splitOn _ s h
    · simp at h

/-- the flag is off exactly when no new segment contains a '.' -/
theorem anyDot_false (e : Env) (paths : List Str) (h : anyDot e paths = false) :
    ∀ s ∈ childSegs e paths, 46 ∉ s := by
  intro s hs
  have hall : ∀ p ∈ paths, 46 ∉ q e Gen.PATH_QUOTER p := by
    intro p hp
    simp only [anyDot, List.any_eq_false] at h
    have := h p hp
    rw [ParseLemmas.mem_eq] at this
    simpa using this
  unfold childSegs at hs
  rcases List.mem_append.1 hs with h' | h'
  · obtain ⟨p, hp, hps⟩ := List.mem_flatMap.1 h'
    have hsub : s ∈ splitOn 47 (q e Gen.PATH_QUOTER p) := by
      unfold stripTrail at hps
      split at hps
      · exact List.dropLast_subset _ hps
      · exact hps
    exact fun hm => hall p (List.dropLast_subset _ hp) (splitOn_sub 47 _ s hsub 46 hm)
  · split at h'
    · rename_i p hp
      exact fun hm => hall p (List.mem_of_getLast? hp) (splitOn_sub 47 _ s h' 46 hm)
    · simp at h'

/-! ### E. shapes -/

theorem root_shape (n : Str) (hn : n ≠ []) (L : List Str) : root n L = [] ∨ ∃ L', root n L = [] :: L' := by
  unfold root
  cases L with
  | nil => left; simp
  | cons l0 L1 =>
    right
    by_cases h0 : l0 = []
    · subst h0; exact ⟨L1, by simp⟩
    · exact ⟨l0 :: L1, by simp [ReachFix.ne_nil_of_not_isEmpty hn, h0]⟩

theorem root_nil_netloc (L : List Str) : root [] L = L := by simp [root]

theorem childOf_path (u : Url) (X : List Str) (nn : Bool) :
    (childOf u X nn).path =
      if (u.netloc.isEmpty || !nn) = true then joinC 47 (root u.netloc (base u ++ X))
      else fixRoot (joinC 47 (normalizePathSegments (root u.netloc (base u ++ X)))) := by
  unfold childOf
  simp only
  split <;> rfl

theorem childOf_netloc (u : Url) (X : List Str) (nn : Bool) : (childOf u X nn).netloc = u.netloc := by
  unfold childOf
  simp only
  split <;> rfl

/-! ### F. PATH_QUOTER and the '/'-split -/

theorem q_path_quoter_lit (e : Env) (c : Nat) (hc : c = 46 ∨ c = 47) : q e Gen.PATH_QUOTER [c] = [c] := by
  show Gen.PATH_QUOTER.run e.b [c] = [c]
  rcases hc with rfl | rfl <;> cases e.b <;> decide +kernel

/-- text made of '.' and '/' only is kept verbatim -/
theorem q_path_quoter_dots (e : Env) (d : Str) (hd : ∀ c ∈ d, c = 46 ∨ c = 47) : q e Gen.PATH_QUOTER d = d := by
  have hpy : ∀ d : Str, (∀ c ∈ d, c = 46 ∨ c = 47) → PyStr d := by
    intro d hd c hc
    rcases hd c hc with rfl | rfl <;> decide
  induction d with
  | nil =>
    show Gen.PATH_QUOTER.run e.b [] = []
    cases e.b <;> decide +kernel
  | cons c r ih =>
    have hr : ∀ c ∈ r, c = 46 ∨ c = 47 := fun x hx => hd x (List.mem_cons_of_mem _ hx)
    have : c :: r = [c] ++ r := rfl
    rw [this, q_path_quoter_append e [c] r (hpy [c] (by simpa using hd c List.mem_cons_self)) (hpy r hr),
      q_path_quoter_lit e c (hd c List.mem_cons_self), ih hr]

theorem pq_prot47 (b : Backend) : (Gen.PATH_QUOTER.tab b).prot 47 = true := by cases b <;> decide

theorem q_path_quoter_count47 (e : Env) (s : Str) (hs : PyStr s) :
    (q e Gen.PATH_QUOTER s).count 47 = (stripSurr s).count 47 := by
  rw [q_path_quoter_eq e s hs]
  exact C02_literal_count _ (pq_tab_wf e.b) 47 (pq_prot47 e.b) (by decide)
    (by intro h; rw [pq_qs] at h; cases h) _

theorem q_path_quoter_no47 (e : Env) (s : Str) (hs : PyStr s) (h : 47 ∉ s) : 47 ∉ q e Gen.PATH_QUOTER s := by
  have h0 : (stripSurr s).count 47 = 0 := by
    rw [List.count_eq_zero]
    intro hm
    simp only [stripSurr, List.mem_filter] at hm
    exact h hm.1
  have := q_path_quoter_count47 e s hs
  rw [h0, List.count_eq_zero] at this
  exact this

theorem pyStr_flatF (l : List Str) (h : ∀ s ∈ l, PyStr s) : PyStr (flatF l) := by
  induction l with
  | nil => intro c hc; simp at hc
  | cons s r ih =>
    intro c hc
    simp only [flatF_cons, List.mem_cons, List.mem_append] at hc
    rcases hc with rfl | hc | hc
    · decide
    · exact h s List.mem_cons_self c hc
    · exact ih (fun x hx => h x (List.mem_cons_of_mem _ hx)) c hc

theorem q_path_quoter_flatF (e : Env) (l : List Str) (h : ∀ s ∈ l, PyStr s) :
    q e Gen.PATH_QUOTER (flatF l) = flatF (l.map (q e Gen.PATH_QUOTER)) := by
  induction l with
  | nil =>
    show Gen.PATH_QUOTER.run e.b [] = []
    cases e.b <;> decide +kernel
  | cons s r ih =>
    have hr : ∀ x ∈ r, PyStr x := fun x hx => h x (List.mem_cons_of_mem _ hx)
    have hs := h s List.mem_cons_self
    have h47 : PyStr [47] := by decide
    have e1 : flatF (s :: r) = [47] ++ (s ++ flatF r) := rfl
    rw [e1, q_path_quoter_append e _ _ h47 (DotMore.pyStr_append hs (pyStr_flatF r hr)),
      q_path_quoter_append e _ _ hs (pyStr_flatF r hr), q_path_quoter_lit e 47 (Or.inr rfl), ih hr]
    rfl

/-- PATH_QUOTER works segment by segment -/
theorem q_path_quoter_segments (e : Env) (s : Str) (hs : PyStr s) :
    splitOn 47 (q e Gen.PATH_QUOTER s) = (splitOn 47 s).map (q e Gen.PATH_QUOTER) := by
  have hpy : ∀ seg ∈ splitOn 47 s, PyStr seg := fun seg hseg c hc => hs c (splitOn_sub 47 s seg hseg c hc)
  obtain ⟨s0, sr, hsp⟩ := List.exists_cons_of_ne_nil (PathLemmas.splitOn_ne_nil 47 s)
  have hj : q e Gen.PATH_QUOTER s = joinC 47 ((splitOn 47 s).map (q e Gen.PATH_QUOTER)) := by
    conv => lhs; rw [← joinC_splitOn s]
    rw [hsp] at hpy ⊢
    rw [joinC_cons, List.map_cons, joinC_cons,
      q_path_quoter_append e _ _ (hpy s0 List.mem_cons_self)
        (pyStr_flatF sr (fun x hx => hpy x (List.mem_cons_of_mem _ hx))),
      q_path_quoter_flatF e sr (fun x hx => hpy x (List.mem_cons_of_mem _ hx))]
  rw [hj]
  apply PathLemmas.splitOn_joinC
  · rw [hsp]; simp
  · intro p hp
    obtain ⟨seg, hseg, rfl⟩ := List.mem_map.1 hp
    exact q_path_quoter_no47 e seg (hpy seg hseg) (splitOn_no_sep 47 s seg hseg)

/-! ### G. UTF-8 bytes that are all ASCII -/

theorem utf8_head_ge128 {c : Nat} (hc : 128 ≤ c) (hpy : c ≤ 0x10FFFF) (hns : isSurrogate c = false) :
    ∃ b r, utf8 c = b :: r ∧ 128 ≤ b := by
  unfold utf8
  rw [if_neg (by omega)]
  split
  · exact ⟨_, _, rfl, by omega⟩
  · rw [if_neg (by simp [hns])]
    split
    · exact ⟨_, _, rfl, by omega⟩
    · exact ⟨_, _, rfl, by omega⟩

/-- if the UTF-8 encoding of a Python string is pure ASCII, the string (without lone surrogates) is that text -/
theorem utf8s_ascii (s : Str) (hs : PyStr s) : ∀ d : List Nat, (∀ x ∈ d, x < 128) → utf8s s = d → stripSurr s = d := by
  induction s with
  | nil => intro d _ h; simpa [utf8s, stripSurr] using h
  | cons c r ih =>
    intro d hd h
    have hr : PyStr r := fun x hx => hs x (List.mem_cons_of_mem _ hx)
    rw [QuoteEquiv.utf8s_cons] at h
    by_cases hsur : isSurrogate c = true
    · have h0 : utf8 c = [] := by
        unfold utf8
        simp only [isSurrogate, Bool.and_eq_true, decide_eq_true_eq] at hsur
        rw [if_neg (by omega), if_neg (by omega), if_pos (by simp [isSurrogate]; omega)]
      rw [h0, List.nil_append] at h
      have := ih hr d hd h
      simpa [stripSurr, hsur] using this
    · have hns : isSurrogate c = false := by simpa using hsur
      by_cases h128 : c < 128
      · rw [utf8_lt128 h128] at h
        cases d with
        | nil => simp at h
        | cons d0 d' =>
          simp only [List.singleton_append, List.cons.injEq] at h
          have := ih hr d' (fun x hx => hd x (List.mem_cons_of_mem _ hx)) h.2
          simp only [stripSurr, List.filter_cons, hns, Bool.not_false, if_true] at this ⊢
          rw [this, h.1]
      · obtain ⟨b, t, hbt, hb⟩ := utf8_head_ge128 (by omega) (hs c List.mem_cons_self) hns
        rw [hbt] at h
        cases d with
        | nil => simp at h
        | cons d0 d' =>
          simp only [List.cons_append, List.cons.injEq] at h
          have := hd d0 List.mem_cons_self
          omega

end Yarl.DotMore
