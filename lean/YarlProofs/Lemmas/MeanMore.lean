/-
  MeanMore.lean — helper lemmas for C02More.lean (C02 at URL level for build / modifiers / join, and the
  segment-survival characterisation of `normalize_path`).
-/
import YarlModel
import YarlProofs.C02HeadlineMore
import YarlProofs.C06More
import YarlProofs.C15More
import YarlProofs.C15Entry
import YarlProofs.C14
set_option linter.unusedVariables false
set_option linter.unusedSimpArgs false
namespace Yarl
open PathLemmas PathAlg WfLemmas

/-! ### vocabulary of C02More.lean -/

/-- the segments of `L` that are not "." / "..", in order -/
def C02_nonDots (L : List Str) : List Str := L.filter (fun s => !(decide (s = dot) || decide (s = dotdot)))

/-- a supplied (possibly escaped) segment "is a dot segment" when it percent-decodes to "." or ".." ("%2E", ".%2e" … count) -/
def C02_isDotSeg (sg : Str) : Bool := decide (pctDecode sg = [46]) || decide (pctDecode sg = [46, 46])

/-- `C02_Survivors qf L S`: the stored segment list `S` is what dot-segment removal leaves of the supplied segment list `L`
    (each segment written by `qf`): a subsequence `K0` (`List.Sublist`: same order, nothing new, nothing repeated) of the
    segments of `L` other than "." / "..", each stored as `qf` of it, followed by ONE empty segment exactly when the last
    segment of `L` is "." or ".." (`PathLemmas.trail`: "/a/." is "/a/") -/
def C02_Survivors (qf : Str → Str) (L S : List Str) : Prop :=
  ∃ K0 : List Str, K0.Sublist (C02_nonDots L) ∧ S = K0.map qf ++ trail L

/-- decoded view of one '&'-piece `x` of a query STRING supplied as decoded text (with_query(str), build(query_string=)):
    (bytes of the key, "has an '='", bytes of the value), the split being at the first '='; a supplied '+' means a space
    there (`plusToSpace`, documented yarl behaviour).  Counterpart of `C02_pairView` (C07More.lean) for escaped text. -/
def C02_textPairView (x : Str) : List Nat × Bool × List Nat :=
  (utf8s (plusToSpace (partition 61 x).1), (partition 61 x).2.1, utf8s (plusToSpace (partition 61 x).2.2))

/-- the '/'-segments the arguments of `joinpath` (one argument: `/`) supply, in path order: every argument split at '/',
    the trailing empty segment of a NON-last argument dropped (`joinpath("a/", "b")` is "a/b") -/
def C02_suppliedSegs (paths : List Str) : List Str :=
  paths.dropLast.flatMap (fun p => stripTrail (splitOn 47 p)) ++
  (match paths.getLast? with
   | some p => splitOn 47 p
   | none => [])

/-- the '/'-segments of the path `join` builds BEFORE dot-segment removal (RFC 3986 §5.2.2 target / §5.2.3 merge), for a
    reference with a non-empty path and no authority: the reference's own segments when its path is rooted; otherwise the
    base's segments without the last one, followed by the reference's segments (under an authority an empty base path counts
    as "/") -/
def C02_joinTargetSegs (base ref : Url) : List Str :=
  if ref.path.head? = some 47 then splitOn 47 ref.path
  else if !base.netloc.isEmpty && base.path.isEmpty then [] :: splitOn 47 ref.path
  else (splitOn 47 base.path).dropLast ++ splitOn 47 ref.path

namespace MeanMore

/-! ### which segments survive `normalize_path_segments` -/


theorem nonDots_cons_dot (L : List Str) : C02_nonDots (dot :: L) = C02_nonDots L := by
  simp [C02_nonDots, dot, dotdot]

theorem nonDots_cons_dotdot (L : List Str) : C02_nonDots (dotdot :: L) = C02_nonDots L := by
  simp [C02_nonDots, dot, dotdot]

theorem nonDots_cons_other (s : Str) (L : List Str) (h1 : s ≠ dot) (h2 : s ≠ dotdot) :
    C02_nonDots (s :: L) = s :: C02_nonDots L := by
  simp [C02_nonDots, h1, h2]

theorem nonDots_sublist (L : List Str) : (C02_nonDots L).Sublist L := List.filter_sublist

theorem mem_nonDots {L : List Str} {s : Str} : s ∈ C02_nonDots L ↔ s ∈ L ∧ s ≠ dot ∧ s ≠ dotdot := by
  simp [C02_nonDots]

theorem nonDots_of_noDots {L : List Str} (h : NoDots L) : C02_nonDots L = L := by
  apply List.filter_eq_self.2
  intro s hs
  have := h s hs
  simp [this.1, this.2]

theorem nonDots_append (A B : List Str) : C02_nonDots (A ++ B) = C02_nonDots A ++ C02_nonDots B := by
  simp [C02_nonDots]

theorem tail_reverse_sublist (acc : List Str) : acc.tail.reverse.Sublist acc.reverse := by
  cases acc with
  | nil => simp
  | cons a t => simp

/-- the stack the loop ends with is a subsequence of the initial stack followed by the non-dot input segments -/
theorem normLoop_sublist (segs : List Str) : ∀ acc : List Str,
    (normLoop acc segs).Sublist (acc.reverse ++ C02_nonDots segs) := by
  induction segs with
  | nil => intro acc; simp [normLoop, C02_nonDots]
  | cons seg rest ih =>
    intro acc
    unfold normLoop
    split
    · rename_i h
      rw [h, nonDots_cons_dotdot]
      exact (ih acc.tail).trans (List.Sublist.append_right (tail_reverse_sublist acc) _)
    · split
      · rename_i h1 h
        rw [h, nonDots_cons_dot]
        exact ih acc
      · rename_i h1 h2
        rw [nonDots_cons_other seg rest h2 h1]
        have := ih (seg :: acc)
        simpa using this

/-- `normalize_path_segments`: a subsequence of the non-dot segments, plus one empty segment when the last input
    segment was a dot segment -/
theorem nps_shape (L : List Str) :
    normalizePathSegments L = normLoop [] L ++ trail L ∧ (normLoop [] L).Sublist (C02_nonDots L) := by
  refine ⟨normalizePathSegments_eq_G L, ?_⟩
  simpa using normLoop_sublist L []

theorem trail_cons (a : Str) (L : List Str) (h : L ≠ []) : trail (a :: L) = trail L := by
  have := trail_append [a] L h
  simpa using this

theorem splitOn_cons47 (r : Str) : splitOn 47 (47 :: r) = [] :: splitOn 47 r := by
  simp [splitOn]

theorem nil_ne_dot : ([] : Str) ≠ dot ∧ ([] : Str) ≠ dotdot := by
  constructor <;> intro h <;> cases h

/-- `normalize_path`, segment view: the segments of the result are a subsequence `K` of the non-dot segments of the
    argument, followed by one empty segment exactly when the last segment of the argument is "." or ".." -/
theorem normalizePath_segments (p : Str) :
    ∃ K, splitOn 47 (normalizePath p) = K ++ trail (splitOn 47 p) ∧ K.Sublist (C02_nonDots (splitOn 47 p)) := by
  unfold normalizePath
  split
  · rename_i rest
    have hne := PathLemmas.splitOn_ne_nil 47 rest
    obtain ⟨h1, h2⟩ := nps_shape (splitOn 47 rest)
    refine ⟨[] :: normLoop [] (splitOn 47 rest), ?_, ?_⟩
    · rw [splitOn_cons47, PathLemmas.splitOn_joinC _ (DotMore.normalizePathSegments_ne_nil _ hne)
        (normalizePathSegments_no_sep _ (splitOn_no_sep 47 rest)), splitOn_cons47, trail_cons _ _ hne, h1]
      rfl
    · rw [splitOn_cons47, nonDots_cons_other _ _ nil_ne_dot.1 nil_ne_dot.2]
      exact List.Sublist.cons_cons _ h2
  · have hne := PathLemmas.splitOn_ne_nil 47 p
    obtain ⟨h1, h2⟩ := nps_shape (splitOn 47 p)
    refine ⟨normLoop [] (splitOn 47 p), ?_, h2⟩
    rw [PathLemmas.splitOn_joinC _ (DotMore.normalizePathSegments_ne_nil _ hne)
        (normalizePathSegments_no_sep _ (splitOn_no_sep 47 p)), h1]

/-- `normalize_path` of a rooted path: "" followed by `normalize_path_segments` of the other segments -/
theorem splitOn_normalizePath_rooted (X : Str) :
    splitOn 47 (normalizePath (47 :: X)) = [] :: normalizePathSegments (splitOn 47 X) := by
  have hne := PathLemmas.splitOn_ne_nil 47 X
  show splitOn 47 (47 :: joinC 47 (normalizePathSegments (splitOn 47 X))) = _
  rw [splitOn_cons47, PathLemmas.splitOn_joinC _ (DotMore.normalizePathSegments_ne_nil _ hne)
        (normalizePathSegments_no_sep _ (splitOn_no_sep 47 X))]

/-! ### the requoter and dot segments -/

theorem requote_dot_iff (e : Env) (sg : Str) (hs : PyStr sg) (hn : NoSurrogate sg) :
    (q e Gen.PATH_REQUOTER sg = dot ∨ q e Gen.PATH_REQUOTER sg = dotdot) ↔ C02_isDotSeg sg = true := by
  have hd : pctDecode (q e Gen.PATH_REQUOTER sg) = pctDecode sg := C02_gen_decode_PATH_REQUOTER e.b sg hs hn
  have hc := DotMore.path_canon_decode_dot e.b (ReachFix.q_path_requoter_canon e sg hs)
  unfold C02_isDotSeg
  simp only [Bool.or_eq_true, decide_eq_true_eq]
  constructor
  · rintro (h | h)
    · left; rw [← hd, h]; exact CtorShape.pctDecode_dot.1
    · right; rw [← hd, h]; exact CtorShape.pctDecode_dot.2
  · rintro (h | h)
    · left; exact hc.1 (hd.trans h)
    · right; exact hc.2 (hd.trans h)

theorem nonDots_map_requote (e : Env) : ∀ (L : List Str), (∀ sg ∈ L, PyStr sg ∧ NoSurrogate sg) →
    C02_nonDots (L.map (q e Gen.PATH_REQUOTER)) = (L.filter (fun sg => !C02_isDotSeg sg)).map (q e Gen.PATH_REQUOTER) := by
  intro L
  induction L with
  | nil => intro _; rfl
  | cons a L ih =>
    intro h
    have ha := h a List.mem_cons_self
    have ih' := ih (fun sg hsg => h sg (List.mem_cons_of_mem _ hsg))
    have hiff := requote_dot_iff e a ha.1 ha.2
    rw [List.map_cons]
    cases hd : C02_isDotSeg a with
    | true =>
      rw [List.filter_cons_of_neg (by simp [hd])]
      rcases hiff.2 hd with h1 | h1
      · rw [h1, nonDots_cons_dot, ih']
      · rw [h1, nonDots_cons_dotdot, ih']
    | false =>
      rw [List.filter_cons_of_pos (by simp [hd])]
      have hne : ¬ (q e Gen.PATH_REQUOTER a = dot ∨ q e Gen.PATH_REQUOTER a = dotdot) := by
        intro hh; rw [hiff.1 hh] at hd; cases hd
      rw [nonDots_cons_other _ _ (fun h1 => hne (Or.inl h1)) (fun h1 => hne (Or.inr h1)), ih', List.map_cons]

theorem trail_map_requote (e : Env) (L : List Str) (h : ∀ sg ∈ L, PyStr sg ∧ NoSurrogate sg) :
    trail (L.map (q e Gen.PATH_REQUOTER)) = if L.getLast?.any C02_isDotSeg then [[]] else [] := by
  unfold trail
  rw [List.getLast?_map]
  cases hl : L.getLast? with
  | none => rfl
  | some l =>
    have hm := h l (List.mem_of_getLast? hl)
    have hiff := requote_dot_iff e l hm.1 hm.2
    simp only [Option.map_some, Option.any_some]
    by_cases hd : C02_isDotSeg l = true
    · rw [if_pos (hiff.2 hd), if_pos hd]
    · rw [if_neg (fun hh => hd (hiff.1 hh)), if_neg hd]

theorem good_segs {s : Str} (hs : PyStr s) (hn : NoSurrogate s) :
    ∀ sg ∈ splitOn 47 s, PyStr sg ∧ NoSurrogate sg :=
  fun sg h => ⟨PathMore.pyStr_seg hs h, PathMore.noSurr_seg hn h⟩

/-! ### `C02_Survivors` -/

theorem survivors_normalizePath (p : Str) : C02_Survivors id (splitOn 47 p) (splitOn 47 (normalizePath p)) := by
  obtain ⟨K, h1, h2⟩ := normalizePath_segments p
  exact ⟨K, h2, by simpa using h1⟩

theorem survivors_nps (M : List Str) : C02_Survivors id M (normalizePathSegments M) := by
  obtain ⟨h1, h2⟩ := nps_shape M
  exact ⟨_, h2, by simpa using h1⟩

theorem trail_cases (L : List Str) : trail L = [] ∨ trail L = [[]] := by
  unfold trail
  split
  · split
    · exact Or.inr rfl
    · exact Or.inl rfl
  · exact Or.inl rfl

/-- every stored segment is the written form of a supplied non-dot segment, or empty -/
theorem Survivors.mem {qf : Str → Str} {L S : List Str} (h : C02_Survivors qf L S) :
    ∀ sg ∈ S, sg = [] ∨ ∃ x ∈ L, x ≠ dot ∧ x ≠ dotdot ∧ sg = qf x := by
  obtain ⟨K0, hK, rfl⟩ := h
  intro sg hsg
  rcases List.mem_append.1 hsg with hm | hm
  · obtain ⟨x, hx, rfl⟩ := List.mem_map.1 hm
    have := mem_nonDots.1 (hK.subset hx)
    exact Or.inr ⟨x, this.1, this.2.1, this.2.2, rfl⟩
  · rcases trail_cases L with ht | ht
    · rw [ht] at hm; cases hm
    · rw [ht] at hm
      exact Or.inl (by simpa using hm)

/-- the stored list is a subsequence of the written non-dot supplied segments followed by one empty segment -/
theorem Survivors.sublist {qf : Str → Str} {L S : List Str} (h : C02_Survivors qf L S) :
    S.Sublist ((C02_nonDots L).map qf ++ [[]]) := by
  obtain ⟨K0, hK, rfl⟩ := h
  apply List.Sublist.append (hK.map qf)
  rcases trail_cases L with ht | ht <;> rw [ht] <;> simp

/-- … and of the written non-dot supplied segments alone when the last supplied segment is no dot segment -/
theorem Survivors.sublist_of_trail {qf : Str → Str} {L S : List Str} (h : C02_Survivors qf L S) (ht : trail L = []) :
    S.Sublist ((C02_nonDots L).map qf) := by
  obtain ⟨K0, hK, rfl⟩ := h
  rw [ht, List.append_nil]
  exact hK.map qf

theorem trail_eq_nil_iff (L : List Str) : trail L = [] ↔ ∀ l, L.getLast? = some l → l ≠ dot ∧ l ≠ dotdot := by
  unfold trail
  cases L.getLast? with
  | none => simp
  | some l =>
    by_cases h : l = dot ∨ l = dotdot
    · simp only [h, if_true]
      constructor
      · intro hh; cases hh
      · intro hh
        have := hh l rfl
        rcases h with h | h
        · exact absurd h this.1
        · exact absurd h this.2
    · simp only [h, if_false, true_iff]
      intro l' hl'
      cases hl'
      exact ⟨fun e => h (Or.inl e), fun e => h (Or.inr e)⟩

theorem nonDots_length_lt (L : List Str) (h : trail L ≠ []) : (C02_nonDots L).length < L.length := by
  rcases List.eq_nil_or_concat L with rfl | ⟨init, l, rfl⟩
  · exact absurd rfl h
  · have hl : l = dot ∨ l = dotdot := by
      rw [List.concat_eq_append, trail_concat] at h
      by_cases hd : l = dot ∨ l = dotdot
      · exact hd
      · simp [hd] at h
    have : C02_nonDots (init ++ [l]) = C02_nonDots init := by
      rw [nonDots_append]
      rcases hl with rfl | rfl
      · rw [nonDots_cons_dot]; simp [C02_nonDots]
      · rw [nonDots_cons_dotdot]; simp [C02_nonDots]
    rw [List.concat_eq_append, this]
    have := (nonDots_sublist init).length_le
    simp
    omega

/-- dot-segment removal never creates segments: at most as many are stored as were supplied -/
theorem Survivors.length_le {qf : Str → Str} {L S : List Str} (h : C02_Survivors qf L S) : S.length ≤ L.length := by
  obtain ⟨K0, hK, rfl⟩ := h
  have h1 := hK.length_le
  have h2 := (nonDots_sublist L).length_le
  rcases trail_cases L with ht | ht
  · simp [ht]; omega
  · have := nonDots_length_lt L (by rw [ht]; simp)
    simp [ht]; omega

/-! ### the non-requoting PATH_QUOTER and dot segments -/

theorem nonDots_map_pq (e : Env) : ∀ (L : List Str), (∀ sg ∈ L, PyStr sg ∧ NoSurrogate sg) →
    C02_nonDots (L.map (q e Gen.PATH_QUOTER)) = (C02_nonDots L).map (q e Gen.PATH_QUOTER) := by
  intro L
  induction L with
  | nil => intro _; rfl
  | cons a L ih =>
    intro h
    have ha := h a List.mem_cons_self
    have ih' := ih (fun sg hsg => h sg (List.mem_cons_of_mem _ hsg))
    obtain ⟨i1, i2⟩ := PathMore.q_path_eq_dot_iff e a ha.1 ha.2
    rw [List.map_cons]
    by_cases h1 : a = dot
    · rw [i1.2 h1, h1, nonDots_cons_dot, nonDots_cons_dot, ih']
    · by_cases h2 : a = dotdot
      · rw [i2.2 h2, h2, nonDots_cons_dotdot, nonDots_cons_dotdot, ih']
      · rw [nonDots_cons_other _ _ (fun hh => h1 (i1.1 hh)) (fun hh => h2 (i2.1 hh)),
          nonDots_cons_other _ _ h1 h2, ih', List.map_cons]

theorem trail_map_pq (e : Env) (L : List Str) (h : ∀ sg ∈ L, PyStr sg ∧ NoSurrogate sg) :
    trail (L.map (q e Gen.PATH_QUOTER)) = trail L := by
  unfold trail
  rw [List.getLast?_map]
  cases hl : L.getLast? with
  | none => rfl
  | some l =>
    have hm := h l (List.mem_of_getLast? hl)
    obtain ⟨i1, i2⟩ := PathMore.q_path_eq_dot_iff e l hm.1 hm.2
    simp only [Option.map_some]
    by_cases hd : l = dot ∨ l = dotdot
    · have : q e Gen.PATH_QUOTER l = dot ∨ q e Gen.PATH_QUOTER l = dotdot := by
        rcases hd with hd | hd
        · exact Or.inl (i1.2 hd)
        · exact Or.inr (i2.2 hd)
      rw [if_pos this, if_pos hd]
    · have : ¬ (q e Gen.PATH_QUOTER l = dot ∨ q e Gen.PATH_QUOTER l = dotdot) := by
        rintro (hh | hh)
        · exact hd (Or.inl (i1.1 hh))
        · exact hd (Or.inr (i2.1 hh))
      rw [if_neg this, if_neg hd]

/-- transfer of `C02_Survivors` from the list of written segments to the list of supplied ones -/
theorem survivors_pq (e : Env) (L S : List Str) (h : ∀ sg ∈ L, PyStr sg ∧ NoSurrogate sg)
    (hS : C02_Survivors id (L.map (q e Gen.PATH_QUOTER)) S) : C02_Survivors (q e Gen.PATH_QUOTER) L S := by
  obtain ⟨K, hK, rfl⟩ := hS
  rw [nonDots_map_pq e L h] at hK
  obtain ⟨K0, hK0, rfl⟩ := List.sublist_map_iff.1 hK
  exact ⟨K0, hK0, by rw [trail_map_pq e L h]; simp⟩

/-- PATH_QUOTER, one text: quoting commutes with splitting at '/', every written segment percent-decodes to the UTF-8 bytes
    of the supplied segment and contains no '/' -/
theorem pq_facts (e : Env) (T : Str) (hT : PyStr T) (hn : NoSurrogate T) :
    splitOn 47 (q e Gen.PATH_QUOTER T) = (splitOn 47 T).map (q e Gen.PATH_QUOTER) ∧
    (∀ sg ∈ splitOn 47 T, pctDecode (q e Gen.PATH_QUOTER sg) = utf8s sg ∧ 47 ∉ q e Gen.PATH_QUOTER sg) := by
  refine ⟨DotMore.q_path_quoter_segments e T hT, fun sg hsg => ?_⟩
  have hp := (good_segs hT hn sg hsg).1
  exact ⟨C02_gen_decode_PATH_QUOTER e.b sg hp, DotMore.q_path_quoter_no47 e sg hp (splitOn_no_sep 47 T sg hsg)⟩

/-- … and after `normalize_path` -/
theorem pq_normalized (e : Env) (T : Str) (hT : PyStr T) (hn : NoSurrogate T) :
    C02_Survivors (q e Gen.PATH_QUOTER) (splitOn 47 T) (splitOn 47 (normalizePath (q e Gen.PATH_QUOTER T))) := by
  apply survivors_pq e _ _ (good_segs hT hn)
  rw [← (pq_facts e T hT hn).1]
  exact survivors_normalizePath _

theorem pq_noDots (e : Env) (T : Str) (hT : PyStr T) (hn : NoSurrogate T) (hd : NoDots (splitOn 47 T)) :
    normalizePath (q e Gen.PATH_QUOTER T) = q e Gen.PATH_QUOTER T :=
  PathMore.normalizePath_noDots _ (PathMore.noDots_q e T hT hn hd)

/-! ### percent-decoding a concatenation -/

/-- an escape never spans a non-hex character -/
theorem pctDecode_append_sep : ∀ (n : Nat) (a : Str), a.length ≤ n → ∀ {d : Nat}, isHexC d = false → d ≠ 37 → ∀ (b : Str),
    pctDecode (a ++ d :: b) = pctDecode a ++ pctDecode (d :: b) := by
  intro n
  induction n with
  | zero =>
    intro a ha d hd h37 b
    have : a = [] := List.length_eq_zero_iff.1 (Nat.le_zero.1 ha)
    subst this
    simp [pctDecode_nil]
  | succ n ih =>
    intro a ha d hd h37 b
    cases a with
    | nil => simp [pctDecode_nil]
    | cons c rest =>
      by_cases hc : c = 37
      · subst hc
        cases hm : takeEscape restoreCh rest with
        | none =>
          rw [List.cons_append, pctDecode_noesc (TokLemmas.takeEscape_append_none hm hd b), pctDecode_noesc hm,
            ih rest (by simp at ha; omega) hd h37 b]
          rfl
        | some x =>
          obtain ⟨v, d1, d2, rest'⟩ := x
          have hl := takeEscape_length hm
          rw [List.cons_append, pctDecode_esc (TokLemmas.takeEscape_append_some hm (d :: b)), pctDecode_esc hm,
            ih rest' (by simp at ha; omega) hd h37 b]
          rfl
      · rw [List.cons_append, pctDecode_cons_ne hc, pctDecode_cons_ne hc, ih rest (by simp at ha; omega) hd h37 b,
          List.append_assoc]

/-! ### with_path -/

theorem good_ensureSlash {t : Str} (ht : PyStr t) (hn : NoSurrogate t) :
    PyStr (ensureSlash t) ∧ NoSurrogate (ensureSlash t) := by
  unfold ensureSlash
  split
  · exact ⟨ht, hn⟩
  · exact ⟨ht, hn⟩
  · exact ⟨PathMore.pyStr_cons47 ht, PathMore.noSurr_cons47 hn⟩

theorem q_ensureSlash (e : Env) (t : Str) (ht : PyStr t) (hn : NoSurrogate t) :
    q e Gen.PATH_QUOTER (ensureSlash t) = ensureSlash (q e Gen.PATH_QUOTER t) := by
  cases t with
  | nil =>
    rw [show ensureSlash ([] : Str) = [] from rfl, PathMore.q_path_nil]; rfl
  | cons c r =>
    by_cases hc : c = 47
    · subst hc
      rw [show ensureSlash (47 :: r) = 47 :: r from rfl, PathMore.q_cons47 e r (PathMore.pyStr_cons ht)]
      rfl
    · have h1 : ensureSlash (c :: r) = 47 :: c :: r := by
        rw [Yarl.ensureSlash_of_ne_nil (by simp), rooted_of_ne47 r hc]
      have hne : q e Gen.PATH_QUOTER (c :: r) ≠ [] := PathAlg.q_path_ne_nil e _ ht hn (by simp)
      have hh := PathMore.q_path_head e (c :: r) ht hn (by simpa using hc)
      rw [h1, PathMore.q_cons47 e _ ht, Yarl.ensureSlash_of_ne_nil hne]
      obtain ⟨x, xs, hx⟩ := List.exists_cons_of_ne_nil hne
      rw [hx] at hh ⊢
      have hx47 : x ≠ 47 := by simpa using hh
      rw [rooted_of_ne47 xs hx47]

/-- what `with_path(t)` stores: PATH_QUOTER of the rooted argument, dot segments removed under an authority -/
theorem withPath_path (e : Env) (u : Url) (t : Str) (kq kf : Bool) (ht : PyStr t) (hn : NoSurrogate t) :
    ((withPath e u t false kq kf).path = q e Gen.PATH_QUOTER (ensureSlash t) ∧
        (u.netloc = [] ∨ 46 ∉ q e Gen.PATH_QUOTER t)) ∨
      (u.netloc ≠ [] ∧ (withPath e u t false kq kf).path = normalizePath (q e Gen.PATH_QUOTER (ensureSlash t))) := by
  rw [withPath_eq, q_ensureSlash e t ht hn]
  simp only [fromParts]
  by_cases hg : (!u.netloc.isEmpty && mem 46 (q e Gen.PATH_QUOTER t)) = true
  · rw [if_pos hg]
    simp only [Bool.and_eq_true, Bool.not_eq_true', List.isEmpty_eq_false_iff] at hg
    right
    have hne : q e Gen.PATH_QUOTER t ≠ [] := by
      intro h0; rw [h0] at hg; simp [mem] at hg
    refine ⟨hg.1, ?_⟩
    rw [Yarl.ensureSlash_of_ne_nil hne]
    obtain ⟨r, hr, _⟩ := rooted_eq_cons (q e Gen.PATH_QUOTER t)
    rw [hr]
    obtain ⟨r', hr'⟩ := C15_rooted r
    rw [hr']
    rfl
  · rw [if_neg hg]
    left
    refine ⟨rfl, ?_⟩
    by_cases h0 : u.netloc = []
    · exact Or.inl h0
    · right
      intro hm
      apply hg
      simp only [Bool.and_eq_true, Bool.not_eq_true', List.isEmpty_eq_false_iff]
      exact ⟨h0, by rw [ParseLemmas.mem_eq]; simpa using hm⟩

/-! ### `/` and joinpath -/

theorem suppliedSegs_mem {paths : List Str} {sg : Str} (h : sg ∈ C02_suppliedSegs paths) :
    ∃ p ∈ paths, sg ∈ splitOn 47 p := by
  unfold C02_suppliedSegs at h
  rcases List.mem_append.1 h with h | h
  · obtain ⟨p, hp, hs⟩ := List.mem_flatMap.1 h
    exact ⟨p, List.dropLast_subset _ hp, mem_stripTrail hs⟩
  · split at h
    · rename_i p hp
      exact ⟨p, List.mem_of_getLast? hp, h⟩
    · cases h

theorem suppliedSegs_good {paths : List Str} (hg : ∀ p ∈ paths, PyStr p ∧ NoSurrogate p) :
    ∀ sg ∈ C02_suppliedSegs paths, PyStr sg ∧ NoSurrogate sg ∧ 47 ∉ sg := by
  intro sg h
  obtain ⟨p, hp, hs⟩ := suppliedSegs_mem h
  exact ⟨(good_segs (hg p hp).1 (hg p hp).2 sg hs).1, (good_segs (hg p hp).1 (hg p hp).2 sg hs).2,
    splitOn_no_sep 47 p sg hs⟩

theorem flatMap_congr' {α β : Type} {f g : α → List β} : ∀ {l : List α}, (∀ x ∈ l, f x = g x) →
    l.flatMap f = l.flatMap g := by
  intro l
  induction l with
  | nil => intro _; rfl
  | cons a l ih =>
    intro h
    rw [List.flatMap_cons, List.flatMap_cons, h a List.mem_cons_self, ih (fun x hx => h x (List.mem_cons_of_mem _ hx))]

/-- the new segments `_make_child` appends are the quoted supplied segments, one for one -/
theorem childSegs_eq (e : Env) (paths : List Str) (hg : ∀ p ∈ paths, PyStr p ∧ NoSurrogate p) :
    DotMore.childSegs e paths = (C02_suppliedSegs paths).map (q e Gen.PATH_QUOTER) := by
  unfold DotMore.childSegs C02_suppliedSegs
  rw [List.map_append, List.map_flatMap]
  congr 1
  · apply flatMap_congr'
    intro p hp
    have hpp := hg p (List.dropLast_subset _ hp)
    rw [DotMore.q_path_quoter_segments e p hpp.1,
      PathMore.stripTrail_map_q e _ (fun x hx => (good_segs hpp.1 hpp.2 x hx).1)
        (fun x hx => (good_segs hpp.1 hpp.2 x hx).2)]
  · cases hl : paths.getLast? with
    | none => rfl
    | some p =>
      have hpp := hg p (List.mem_of_getLast? hl)
      exact DotMore.q_path_quoter_segments e p hpp.1

theorem splitOn_fixRoot_joinC (N : List Str) (hN : N ≠ []) (hs : Segs N) :
    splitOn 47 (fixRoot (joinC 47 N)) = if N.head? = some [] then N else [] :: N := by
  obtain ⟨a, N', rfl⟩ := List.exists_cons_of_ne_nil hN
  cases a with
  | nil =>
    simp only [List.head?_cons, if_true]
    by_cases h0 : N' = []
    · subst h0; rfl
    · rw [DotMore.joinC_root_cons N' h0, DotMore.fixRoot_cons, ← DotMore.joinC_root_cons N' h0,
        PathLemmas.splitOn_joinC _ (by simp) hs]
  | cons c a' =>
    have hc : c ≠ 47 := fun h => hs (c :: a') List.mem_cons_self (h ▸ List.mem_cons_self)
    have h1 : joinC 47 ((c :: a') :: N') = c :: (a' ++ flatF N') := by rw [joinC_cons]; rfl
    have h2 : fixRoot (c :: (a' ++ flatF N')) = 47 :: c :: (a' ++ flatF N') := by
      unfold fixRoot
      split
      · rename_i heq; cases heq
      · rename_i r heq; exact absurd (List.cons.inj heq).1 hc
      · rfl
    have hne : ((c :: a') :: N').head? ≠ some [] := by simp
    rw [if_neg hne, h1, h2, ← h1, ← DotMore.joinC_root_cons _ (by simp),
      PathLemmas.splitOn_joinC _ (by simp) (segs_cons (by simp) hs)]

/-- the survivors of a ROOTED segment list, after `fixRoot` has restored a root that ".." consumed -/
theorem survivors_fixRoot (M' : List Str) (hs : Segs ([] :: M')) :
    C02_Survivors id ([] :: M') (splitOn 47 (fixRoot (joinC 47 (normalizePathSegments ([] :: M'))))) := by
  obtain ⟨h1, h2⟩ := nps_shape ([] :: M')
  have hN := DotMore.normalizePathSegments_ne_nil ([] :: M') (by simp)
  have hsN : Segs (normalizePathSegments ([] :: M')) := normalizePathSegments_no_sep _ hs
  rw [splitOn_fixRoot_joinC _ hN hsN]
  rw [h1] at hN ⊢
  rw [nonDots_cons_other _ _ nil_ne_dot.1 nil_ne_dot.2] at h2
  split
  · exact ⟨_, by rw [nonDots_cons_other _ _ nil_ne_dot.1 nil_ne_dot.2]; exact h2, by simp⟩
  · rename_i hh
    refine ⟨[] :: normLoop [] ([] :: M'), ?_, by simp⟩
    rw [nonDots_cons_other _ _ nil_ne_dot.1 nil_ne_dot.2]
    apply List.Sublist.cons_cons
    cases hK : normLoop [] ([] :: M') with
    | nil =>
      exfalso
      rw [hK] at hN hh
      rcases trail_cases ([] :: M') with ht | ht
      · rw [ht] at hN; exact hN rfl
      · rw [ht] at hh; exact hh rfl
    | cons k K1 =>
      rw [hK] at h2 hh
      have hk : k ≠ [] := by
        intro h0; subst h0; exact hh rfl
      cases h2 with
      | cons _ h => exact h
      | cons_cons _ h => exact absurd rfl hk

/-! ### join -/
section Join
open JoinLemmas

theorem join_shape (e : Env) (base ref : Url) :
    join e base ref = ref ∨
    (join e base ref = fromParts base.scheme ref.netloc ref.path ref.query ref.fragment) ∨
    (ref.netloc = [] ∧ ∃ qy, join e base ref = fromParts base.scheme base.netloc (joinPath base ref) qy ref.fragment) := by
  by_cases hpass : ((!ref.scheme.isEmpty ∧ ref.scheme ≠ base.scheme) ∨
      ¬ Gen.usesRelative.contains (if !ref.scheme.isEmpty then ref.scheme else base.scheme) = true)
  · exact Or.inl (C14_passthrough e base ref hpass)
  · right
    simp only [not_or, not_and, Decidable.not_not] at hpass
    obtain ⟨h1, h2⟩ := hpass
    have hsch : ref.scheme = [] ∨ ref.scheme = base.scheme := by
      by_cases h0 : ref.scheme = []
      · exact Or.inl h0
      · exact Or.inr (h1 (by simpa using h0))
    have hs := scheme_eq base ref hsch
    rw [hs] at h2
    rw [join_rel e base ref h2 hsch]
    split
    · exact Or.inl rfl
    · rename_i hn
      exact Or.inr ⟨by simpa using hn, _, rfl⟩

theorem splitOn_upTo (s rp : Str) :
    splitOn 47 ((s.reverse.dropWhile (· ≠ 47)).reverse ++ rp) = (splitOn 47 s).dropLast ++ splitOn 47 rp := by
  rw [← joinC_dropLast s]
  have hsD : Segs (splitOn 47 s).dropLast := segs_dropLast (segs_splitOn s)
  generalize (splitOn 47 s).dropLast = D at hsD
  by_cases hD : D = []
  · subst hD; rfl
  · rw [JoinLemmas.joinC_snoc D hD, List.append_assoc, List.cons_append, List.nil_append, QsLemmas.splitOn_append,
      PathLemmas.splitOn_joinC D hD hsD]

theorem splitOn_target (base ref : Url) :
    splitOn 47 (target base ref) = C02_joinTargetSegs base ref := by
  unfold target C02_joinTargetSegs
  split
  · rfl
  · unfold Rfc.merge
    show splitOn 47 (if (!base.netloc.isEmpty && base.path.isEmpty) = true then 47 :: ref.path
      else (base.path.reverse.dropWhile (· ≠ 47)).reverse ++ ref.path) = _
    by_cases hc : (!base.netloc.isEmpty && base.path.isEmpty) = true
    · rw [if_pos hc, if_pos hc]; exact splitOn_cons47 _
    · rw [if_neg hc, if_neg hc]; exact splitOn_upTo _ _

theorem joinPath_norm (base ref : Url) (hb : base.netloc = [] ∨ base.path = [] ∨ base.path.head? = some 47)
    (hp : ref.path ≠ []) : joinPath base ref = normalizePath (target base ref) := by
  rw [joinPath_eq base ref hb hp]
  exact DotMore.guard_eq _

theorem mem_rawParts_rooted (u : Url) (hr : u.netloc = [] ∨ u.path = [] ∨ u.path.head? = some 47) {sg : Str}
    (h : sg ∈ rawParts u) : sg = [47] ∨ sg ∈ splitOn 47 u.path := by
  cases hp : u.path with
  | nil =>
    unfold rawParts at h
    rw [hp] at h
    by_cases hn : u.netloc = []
    · simp [hn] at h; right; simpa using h
    · simp [hn] at h; left; exact h
  | cons c rest =>
    by_cases hc : c = 47
    · subst hc
      rw [JoinLemmas.rawParts_rooted u rest hp] at h
      rcases List.mem_cons.1 h with h | h
      · exact Or.inl h
      · right; rw [splitOn_cons47]; exact List.mem_cons_of_mem _ h
    · have hn : u.netloc = [] := by
        rcases hr with hr | hr | hr
        · exact hr
        · rw [hp] at hr; cases hr
        · rw [hp] at hr; simp at hr; exact absurd hr hc
      rw [JoinLemmas.rawParts_rootless u hn (by rw [hp]; simpa using hc), hp] at h
      exact Or.inr h

theorem mem_splitOn_rawParts (u : Url) (hr : u.netloc = [] ∨ u.path = [] ∨ u.path.head? = some 47) {sg : Str}
    (h : sg ∈ splitOn 47 u.path) : sg = [] ∨ sg ∈ rawParts u := by
  cases hp : u.path with
  | nil =>
    rw [hp] at h
    left; simpa [splitOn] using h
  | cons c rest =>
    rw [hp] at h
    by_cases hc : c = 47
    · subst hc
      rw [JoinLemmas.rawParts_rooted u rest hp]
      rw [splitOn_cons47] at h
      rcases List.mem_cons.1 h with h | h
      · exact Or.inl h
      · exact Or.inr (List.mem_cons_of_mem _ h)
    · have hn : u.netloc = [] := by
        rcases hr with hr | hr | hr
        · exact hr
        · rw [hp] at hr; cases hr
        · rw [hp] at hr; simp at hr; exact absurd hr hc
      rw [JoinLemmas.rawParts_rootless u hn (by rw [hp]; simpa using hc), hp]
      exact Or.inr h

theorem mem_joinTargetSegs {base ref : Url} {sg : Str} (h : sg ∈ C02_joinTargetSegs base ref) :
    sg = [] ∨ sg ∈ splitOn 47 base.path ∨ sg ∈ splitOn 47 ref.path := by
  unfold C02_joinTargetSegs at h
  split at h
  · exact Or.inr (Or.inr h)
  · split at h
    · rcases List.mem_cons.1 h with h | h
      · exact Or.inl h
      · exact Or.inr (Or.inr h)
    · rcases List.mem_append.1 h with h | h
      · exact Or.inr (Or.inl (List.dropLast_subset _ h))
      · exact Or.inr (Or.inr h)

end Join

/-! ### queries -/
section Queries
open TokLemmas QsLemmas QueryUrl

theorem qq_split38 (b : Backend) (s : Str) (hs : PyStr s) :
    splitOn 38 (Gen.QUERY_QUOTER.run b s) = (splitOn 38 s).map (Gen.QUERY_QUOTER.run b) :=
  gen_split _ (by decide) b 38 (by cases b <;> decide) (by decide) (fun _ => by decide) (by decide) s hs

theorem qq_split59 (b : Backend) (s : Str) (hs : PyStr s) :
    splitOn 59 (Gen.QUERY_QUOTER.run b s) = (splitOn 59 s).map (Gen.QUERY_QUOTER.run b) :=
  gen_split _ (by decide) b 59 (by cases b <;> decide) (by decide) (fun _ => by decide) (by decide) s hs

theorem qq_partition61 (b : Backend) (s : Str) (hs : PyStr s) :
    partition 61 (Gen.QUERY_QUOTER.run b s) =
      (Gen.QUERY_QUOTER.run b (partition 61 s).1, (partition 61 s).2.1, Gen.QUERY_QUOTER.run b (partition 61 s).2.2) :=
  gen_partition _ (by decide) b 61 (by cases b <;> decide) (by decide) (fun _ => by decide) (by decide) s hs

theorem qq_pairView (b : Backend) (x : Str) (hx : PyStr x) :
    C02_pairView (Gen.QUERY_QUOTER.run b x) = C02_textPairView x := by
  unfold C02_pairView C02_textPairView
  rw [qq_partition61 b x hx]
  simp only
  rw [C02_gen_decode_QUERY_QUOTER b _ (pyStr_of_subset hx (partition_fst_sub 61 x)),
    C02_gen_decode_QUERY_QUOTER b _ (pyStr_of_subset hx (partition_snd_sub 61 x))]

/-- QUERY_QUOTER on a decoded query STRING: '&' stays the pair separator, '=' the key/value separator, every piece keeps its
    key / "has '='" / value bytes -/
theorem qq_facts (b : Backend) (s : Str) (hs : PyStr s) :
    splitOn 38 (Gen.QUERY_QUOTER.run b s) = (splitOn 38 s).map (Gen.QUERY_QUOTER.run b) ∧
    (splitOn 38 (Gen.QUERY_QUOTER.run b s)).map C02_pairView = (splitOn 38 s).map C02_textPairView ∧
    pctDecodeQs (Gen.QUERY_QUOTER.run b s) = utf8s (plusToSpace s) := by
  refine ⟨qq_split38 b s hs, ?_, C02_gen_decode_QUERY_QUOTER b s hs⟩
  rw [qq_split38 b s hs, List.map_map]
  apply List.map_congr_left
  intro x hx
  exact qq_pairView b x (pyStr_of_subset hs (PathLemmas.splitOn_sub 38 s x hx))

theorem qpq_no_delims (b : Backend) (t : Str) (ht : PyStr t) :
    38 ∉ Gen.QUERY_PART_QUOTER.run b t ∧ 61 ∉ Gen.QUERY_PART_QUOTER.run b t ∧ 59 ∉ Gen.QUERY_PART_QUOTER.run b t := by
  obtain ⟨h38, h61⟩ := C12_part_no_delims b t ht
  refine ⟨h38, h61, ?_⟩
  obtain ⟨hwf, _, _, _, _, _, _⟩ := gen_query_part_quoter_ok b
  have h59 : (Gen.QUERY_PART_QUOTER.tab b).safe 59 = false := by cases b <;> decide
  rw [run_eq_cOut _ qpq_mem b t ht]
  have hall := outLang_allowed _ hwf
    (cOut_outLang _ hwf (stripSurr t) (QuoteEquiv.pyStr_stripSurr ht))
  intro hm
  rcases hall 59 hm with h | h | h | h
  · rw [h59] at h; exact absurd h (by decide)
  · exact absurd h (by decide)
  · exact absurd h (by decide)
  · exact absurd h.2 (by decide)

theorem pairText_partition (b : Backend) (p : Str × Str) (h1 : PyStr p.1) :
    partition 61 (pairText b p) = (Gen.QUERY_PART_QUOTER.run b p.1, true, Gen.QUERY_PART_QUOTER.run b p.2) := by
  unfold pairText
  rw [List.append_assoc]
  exact partition_append_sep (qpq_no_delims b p.1 h1).2.1 _

theorem pairText_view (b : Backend) (p : Str × Str) (h1 : PyStr p.1) (h2 : PyStr p.2) :
    C02_pairView (pairText b p) = (utf8s p.1, true, utf8s p.2) := by
  unfold C02_pairView
  rw [pairText_partition b p h1]
  simp only
  rw [C02_gen_decode_QUERY_PART_QUOTER b _ h1, C02_gen_decode_QUERY_PART_QUOTER b _ h2]

theorem qtext_split (b : Backend) (ps : List (Str × Str)) (hne : ps ≠ []) (h : ∀ p ∈ ps, PyStr p.1 ∧ PyStr p.2) :
    splitOn 38 (qtext b ps) = ps.map (pairText b) := by
  unfold qtext
  apply QsLemmas.splitOn_joinC 38 _ (by simpa using hne)
  intro s hs
  obtain ⟨x, hx, rfl⟩ := List.mem_map.mp hs
  exact pairText_no_amp b x (h x hx).1 (h x hx).2

/-- a PAIRS / mapping argument rendered by `get_str_query`: one '&'-piece per supplied pair, every piece is
    "QUERY_PART_QUOTER(key)=QUERY_PART_QUOTER(value)" with no other '&' '=' ';' in it, and form-decodes to the UTF-8 bytes of
    the supplied key and value -/
theorem qtext_facts (b : Backend) (ps : List (Str × Str)) (hne : ps ≠ []) (h : ∀ p ∈ ps, PyStr p.1 ∧ PyStr p.2) :
    splitOn 38 (qtext b ps) = ps.map (pairText b) ∧
    (splitOn 38 (qtext b ps)).length = ps.length ∧
    (splitOn 38 (qtext b ps)).map C02_pairView = ps.map (fun p => (utf8s p.1, true, utf8s p.2)) := by
  have hs := qtext_split b ps hne h
  refine ⟨hs, by rw [hs]; simp, ?_⟩
  rw [hs, List.map_map]
  apply List.map_congr_left
  intro p hp
  exact pairText_view b p (h p hp).1 (h p hp).2

theorem getStrQuery_str (e : Env) (s : Str) :
    getStrQuery e.b (.str s) = .ok (some (Gen.QUERY_QUOTER.run e.b s)) := by
  simp only [getStrQuery]
  split
  · rename_i he
    rw [List.isEmpty_iff.1 he]
    exact congrArg (fun x => Except.ok (some x)) (CtorShape.q_nil e Gen.QUERY_QUOTER (by decide)).symm
  · rfl

/-! #### extend_query -/

theorem splitOn_snoc_sep (c : Nat) (init : Str) : splitOn c (init ++ [c]) = splitOn c init ++ [[]] := by
  have := QsLemmas.splitOn_append c init []
  simpa [splitOn] using this

theorem splitOn_last_ne (c : Nat) (s : Str) (hs : s ≠ []) (hl : s.getLast? ≠ some c) :
    (splitOn c s).getLast? ≠ some [] := by
  by_cases hm : c ∈ s
  · obtain ⟨a, t, hat, ht⟩ := PathMore.exists_last c s hm
    rw [hat, QsLemmas.splitOn_append, QsLemmas.splitOn_not_mem c t ht]
    simp only [List.getLast?_append, List.getLast?_singleton, Option.some_or, ne_eq, Option.some.injEq]
    rintro rfl
    apply hl
    rw [hat]; simp
  · rw [QsLemmas.splitOn_not_mem c s hm]
    simpa using hs

/-- the '&'-pieces after `extend_query`: the old pieces (without the empty piece after a trailing '&') byte for byte,
    then the pieces of the new text -/
theorem extend_split (old nq : Str) :
    splitOn 38 (if !old.isEmpty then (if old.getLast? = some 38 then old ++ nq else old ++ [38] ++ nq) else nq) =
      stripTrail (splitOn 38 old) ++ splitOn 38 nq := by
  cases old with
  | nil => simp [splitOn, stripTrail]
  | cons x xs =>
    simp only [List.isEmpty_cons, Bool.not_false, if_true]
    split
    · rename_i hl
      obtain ⟨init, hi⟩ : ∃ init, x :: xs = init ++ [38] := List.getLast?_eq_some_iff.1 hl
      rw [hi, splitOn_snoc_sep, stripTrail_concat_nil, List.append_assoc, List.singleton_append,
        QsLemmas.splitOn_append]
    · rename_i hl
      rw [List.append_assoc, List.singleton_append, QsLemmas.splitOn_append]
      congr 1
      unfold stripTrail
      rw [if_neg (splitOn_last_ne 38 (x :: xs) (by simp) hl)]

/-! #### update_query -/

theorem mdUpdate_mem (old new : List (Str × Str)) : ∀ p ∈ mdUpdate old new, p ∈ old ∨ p ∈ new :=
  QueryUrl.mdUpdate_forall (fun p => p ∈ old ∨ p ∈ new) old new (fun x hx => Or.inl hx) (fun x hx => Or.inr hx)

theorem mdUpdate_mem_new (old new : List (Str × Str)) : ∀ p ∈ new, p ∈ mdUpdate old new := by
  intro p hp
  have hk : p.1 ∈ keysOf new := List.mem_map.2 ⟨p, hp, rfl⟩
  obtain ⟨S, hS⟩ := C12_update_sets_keys_prefix old new p.1 hk
  have h1 : p.2 ∈ (new.filter (fun x => x.1 = p.1)).map (·.2) :=
    List.mem_map.2 ⟨p, List.mem_filter.2 ⟨hp, by simp⟩, rfl⟩
  have h2 : p.2 ∈ ((mdUpdate old new).filter (fun x => x.1 = p.1)).map (·.2) := by
    rw [← hS]; exact List.mem_append_left _ h1
  obtain ⟨x, hx, hx2⟩ := List.mem_map.1 h2
  obtain ⟨hx0, hx1⟩ := List.mem_filter.1 hx
  have : x = p := by
    have hx1' : x.1 = p.1 := by simpa using hx1
    exact Prod.ext hx1' hx2
  exact this ▸ hx0

end Queries

end MeanMore
end Yarl
