/-
  HumanMore.lean — helper lemmas for C18More.lean: `human_repr()` depends on a URL only through its
  accessors; the round trip for ANY URL object that stores the encodings of decoded components; the
  general form of `URL.build` for the families of C18More.
-/
import YarlProofs.C18Full
import YarlProofs.C04
import YarlProofs.C13
set_option linter.unusedVariables false
set_option linter.unusedSimpArgs false
namespace Yarl
namespace HumanMore

open HumanLemmas HumanFull QueryUrl QsLemmas NetlocLemmas

/-! ## `human_repr()` reads a URL only through `net`, the scheme, the decoded path, query and fragment -/

theorem humanRepr_congr (e : Env) (u v : Url) (hnet : net e u = net e v) (hs : u.scheme = v.scheme)
    (hp : pathDecoded e u = pathDecoded e v) (hq : u.query = v.query) (hf : u.fragment = v.fragment) :
    humanRepr e u = humanRepr e v := by
  unfold humanRepr Yarl.user password host rawUser rawPassword rawHost explicitPort queryPairs fragmentDecoded
  rw [hnet, hs, hp, hq, hf]


/-- `==`, the same stored path and the same cache pre-fill: the same object -/
theorem url_eq_of (v w : Url) (hb : Url.beq v w = true) (hp : v.path = w.path) (hpre : v.pre = w.pre) :
    v = w := by
  obtain ⟨a1, a2, a3, a4, a5, a6⟩ := v
  obtain ⟨b1, b2, b3, b4, b5, b6⟩ := w
  simp only [Url.beq, eqKey, decide_eq_true_eq, Parts.mk.injEq] at hb
  simp only at hp hpre
  obtain ⟨h1, h2, _, h4, h5⟩ := hb
  subst h1 h2 h4 h5 hp hpre
  rfl

/-! ## the round trip for a URL object that stores the encodings of decoded components -/

/-- `u` stores the encodings of the decoded components `user pw H port p kvs f` (`H` the stored host):
    however `u` was made (constructor, build, a modifier).  The path is the encoding of `"/" ++ p`, or is
    empty (then `p = ""`); the cache pre-fill of `encode_url`, when there is one, agrees. -/
structure Stores (e : Env) (u : Url) (user pw : Option Str) (H : Str) (port : Option Nat)
    (p : Str) (kvs : List (Str × Str)) (f : Str) : Prop where
  netloc : u.netloc = authText (user.map (q e Gen.QUOTER)) (pw.map (q e Gen.QUOTER)) H port
  pre : ∀ pr, u.pre = some pr → pr = preOf (user.map (q e Gen.QUOTER)) (pw.map (q e Gen.QUOTER)) H port
  path : u.path = q e Gen.PATH_QUOTER (47 :: p) ∨ (u.path = [] ∧ p = [])
  query : u.query = qtext e.b kvs
  fragment : u.fragment = if f.isEmpty then f else q e Gen.FRAGMENT_QUOTER f

theorem builtFull_stores (e : Env) (sc : Str) (user pw : Option Str) (H : Str) (port : Option Nat)
    (p : Str) (kvs : List (Str × Str)) (f : Str) :
    Stores e (builtFull e sc user pw H port (47 :: p) kvs f) user pw H port p kvs f :=
  ⟨rfl, fun pr h => (by cases h), Or.inl rfl, rfl, rfl⟩

theorem q_path_root (e : Env) : q e Gen.PATH_QUOTER [47] = [47] := by
  rw [q_path_cons_slash e [] (by decide) (by decide), q_nil]

theorem net_of_stores (e : Env) (u : Url) (user pw : Option Str) (H : Str) (port : Option Nat)
    (p : Str) (kvs : List (Str × Str)) (f : Str) (st : Stores e u user pw H port p kvs f)
    (hu : UserOK (user.map (q e Gen.QUOTER))) (hH : HostOK H) (hport : ∀ x, port = some x → x ≤ 65535) :
    net e u = .ok (preOf (user.map (q e Gen.QUOTER)) (pw.map (q e Gen.QUOTER)) H port) := by
  unfold net
  cases hpre : u.pre with
  | some pr => rw [st.pre pr hpre]; rfl
  | none =>
    simp only
    unfold lazyNet
    rw [st.netloc]
    unfold authText
    simp only [netloc_roundtrip e.o id _ _ H port hu hH hport]
    rfl

/-- `human_repr()` of such a URL is that of the URL `build` makes from the decoded components -/
theorem humanRepr_of_stores (e : Env) (u : Url) (user pw : Option Str) (H : Str) (port : Option Nat)
    (p : Str) (kvs : List (Str × Str)) (f : Str) (st : Stores e u user pw H port p kvs f)
    (hu : UText user) (hune : ∀ s, user = some s → s ≠ []) (hH : HostOK H)
    (hport : ∀ x, port = some x → x ≤ 65535) (hp : PyStr (47 :: p)) (hn : NoSurrogate (47 :: p)) :
    humanRepr e u = humanRepr e (builtFull e u.scheme user pw H port (47 :: p) kvs f) := by
  have huk := userOK_quoted e user hu hune
  apply humanRepr_congr
  · rw [net_of_stores e u user pw H port p kvs f st huk hH hport,
      net_of_stores e _ user pw H port p kvs f (builtFull_stores e _ user pw H port p kvs f) huk hH hport]
  · rfl
  · rw [pathDecoded_of e (builtFull e u.scheme user pw H port (47 :: p) kvs f) p rfl hp hn]
    rcases st.path with h | ⟨h1, h2⟩
    · exact pathDecoded_of e u p h hp hn
    · subst h2
      unfold pathDecoded
      have hnl : u.netloc.isEmpty = false := by
        rw [st.netloc]; exact HumanLemmas.isEmpty_false (authText_ne_nil _ _ hH.1 _)
      simp [h1, hnl]
  · exact st.query
  · exact st.fragment

/-- MASTER: `URL(u.human_repr()) == u` for every URL object `u` that stores the encodings of decoded
    components (`Stores`), with a valid scheme, a host of one of the kinds of `HostRT`, a dot-segment-free
    decoded path — under the NFKC proviso for a non-ASCII authority -/
theorem roundtrip_stored (e : Env) (u : Url) (user pw : Option Str) (h H D : Str) (port : Option Nat)
    (p : Str) (kvs : List (Str × Str)) (f : Str)
    (vs : ValidScheme u.scheme) (hrt : HostRT e h H D) (hport : ∀ x, port = some x → x ≤ 65535)
    (hu : UText user) (hune : ∀ s, user = some s → s ≠ []) (hw : UText pw)
    (hp : PyStr (47 :: p)) (hn : NoSurrogate (47 :: p)) (hnorm : normalizePath (47 :: p) = 47 :: p)
    (hg : GoodPairs kvs) (hf : PyStr f) (hfn : NoSurrogate f)
    (st : Stores e u user pw H port p kvs f) :
    ∀ hr, humanRepr e u = .ok hr →
      (isAscii (Rfc.appendixB Gen.schemeChars hr).authority = false →
        checkNetloc e.o (Rfc.appendixB Gen.schemeChars hr).authority = .ok ()) →
      ∃ v, encodeUrl e hr = .ok v ∧ Url.beq v u = true ∧
        v.pre = some (preOf (user.map (q e Gen.QUOTER)) (pw.map (q e Gen.QUOTER)) H port) ∧
        v.path = q e Gen.PATH_QUOTER (47 :: p) := by
  intro hr hh hnf
  rw [humanRepr_of_stores e u user pw H port p kvs f st hu hune hrt.okH hport hp hn] at hh
  obtain ⟨usr, pw', rp, qparts, rf, hq, rfl⟩ := humanRepr_shape e u.scheme user pw H D port p kvs f vs.ne
    hrt.okH hrt.shown hrt.disp.ok.1 hport hu hune hw hp hn hg hf hfn hr hh
  rw [appendixB_human e u.scheme user pw D port p kvs f usr pw' rp qparts rf vs hrt.disp hu hw hp hg hq] at hnf
  rw [reparse_human e u.scheme user pw h H D port p kvs f usr pw' rp qparts rf vs hrt hport hu hune hw hp hn
    hnorm hg hf hfn hq hnf]
  refine ⟨_, rfl, ?_, rfl, rfl⟩
  have hnl : u.netloc.isEmpty = false := by
    rw [st.netloc]; exact HumanLemmas.isEmpty_false (authText_ne_nil _ _ hrt.okH.1 _)
  have hnl' : (authText (user.map (q e Gen.QUOTER)) (pw.map (q e Gen.QUOTER)) H port).isEmpty = false := by
    rw [← st.netloc]; exact hnl
  have hq1 := q_path_cons_slash e p hp hn
  simp only [Url.beq, eqKey, builtFull, fromParts, decide_eq_true_eq, hq1, List.isEmpty_cons, Bool.false_and,
    Bool.false_eq_true, if_false, Parts.mk.injEq, true_and]
  refine ⟨st.netloc.symm, ?_, st.query.symm, st.fragment.symm⟩
  rcases st.path with h1 | ⟨h1, h2⟩
  · rw [h1, hq1]; simp
  · subst h2
    rw [h1, q_nil]; simp [hnl]


/-! ## `URL.build` in general form: any user / password, empty or rooted path, any query argument -/

/-- the stored path for the `path` argument of build: empty, or the encoding of the normal form -/
def storedPath (e : Env) (path : Str) : Str :=
  if path.isEmpty then [] else q e Gen.PATH_QUOTER (normalizePath path)

/-- `build` lowers the scheme first (fix e21485a): `sc'` is the stored scheme, and the default port dropped is
    that of `sc'` -/
theorem build_gen (e : Env) (sc sc' : Str) (hl : lowerAny e sc = .ok sc')
    (user pw : Option Str) (h H : Str) (port : Option Nat)
    (path : Str) (qa : QArg) (qs Q : Str) (f : Str)
    (hne : h ≠ []) (hH : H ≠ []) (henc : encodeHost e.o h true = .ok (bracket H))
    (hport : ∀ x, port = some x → x ≤ 65535)
    (hpath : path = [] ∨ ∃ p, path = 47 :: p ∧ PyStr (47 :: p) ∧ NoSurrogate (47 :: p))
    (hq1 : qargTruthy qa = true → qs = [] ∧ getStrQuery e.b qa = .ok (some Q))
    (hq2 : qargTruthy qa = false → Q = if qs.isEmpty then qs else q e Gen.QUERY_QUOTER qs) :
    build e { scheme := sc, user := user, password := pw, host := h, port := port.map Int.ofNat,
              path := path, query := qa, queryString := qs, fragment := f } =
      .ok (fromParts sc' (authText (user.map (q e Gen.QUOTER)) (pw.map (q e Gen.QUOTER)) H (effPort sc' port))
        (storedPath e path) Q (if f.isEmpty then f else q e Gen.FRAGMENT_QUOTER f)) := by
  have hne' := HumanLemmas.isEmpty_false hne
  have hnlA := fun pt => HumanLemmas.isEmpty_false
    (authText_ne_nil (user.map (q e Gen.QUOTER)) (pw.map (q e Gen.QUOTER)) hH pt)
  have hqs : (if (!qs.isEmpty) = true then q e Gen.QUERY_QUOTER qs else qs) =
      (if qs.isEmpty then qs else q e Gen.QUERY_QUOTER qs) := by cases qs <;> rfl
  have hq := fun p hp hn => q_path_cons_slash e p hp hn
  have hd : ∀ p, PyStr (47 :: p) → NoSurrogate (47 :: p) →
      (if mem 46 (47 :: q e Gen.PATH_QUOTER p) = true then normalizePath (47 :: q e Gen.PATH_QUOTER p)
        else 47 :: q e Gen.PATH_QUOTER p) = q e Gen.PATH_QUOTER (normalizePath (47 :: p)) := by
    intro p hp hn
    have := stored_path e p hp hn
    rw [q_path_cons_slash e p hp hn] at this
    exact this
  rcases hpath with rfl | ⟨p, rfl, hp, hn⟩
  · have hp : True := trivial
    have hn : True := trivial
    have hq : ∀ (a b : True), True := fun _ _ => trivial
    have hd : ∀ (a b : True), True := fun _ _ => trivial
    cases port with
    | none =>
      cases hT : qargTruthy qa with
      | true =>
        obtain ⟨rfl, hg⟩ := hq1 hT
        unfold build
        simp only [List.isEmpty_nil, Bool.not_true, Bool.false_and, Bool.false_eq_true, ↓reduceIte,
          ne_eq, not_true_eq_false, hne', Bool.not_false, Bool.and_false, Bool.and_true, Option.map_none,
          henc, hl, bind, Except.bind, pure, Except.pure, hT, hg, effPort, Option.getD_some, Bool.true_and,
          ite_ok, netloc_build_none, hnlA, storedPath, List.isEmpty_cons, hq hp hn, hd hp hn, Bool.and_self]
      | false =>
        have hQ := hq2 hT
        unfold build
        simp only [List.isEmpty_nil, Bool.not_true, Bool.false_and, Bool.false_eq_true, ↓reduceIte,
          ne_eq, not_true_eq_false, hne', Bool.not_false, Bool.and_false, Bool.and_true, Option.map_none,
          henc, hl, bind, Except.bind, pure, Except.pure, hT, effPort, Option.getD_some, Bool.true_and,
          ite_ok, netloc_build_none, hnlA, storedPath, hqs, hQ, List.isEmpty_cons, hq hp hn, hd hp hn,
          Bool.and_self]
    | some n =>
      have hr := hport n rfl
      have htn : (Int.ofNat n).toNat = n := rfl
      have hrange : ((0 : Int) ≤ Int.ofNat n ∧ Int.ofNat n ≤ 65535) :=
        ⟨Int.natCast_nonneg n, Int.ofNat_le.mpr hr⟩
      cases hT : qargTruthy qa with
      | true =>
        obtain ⟨rfl, hg⟩ := hq1 hT
        unfold build
        simp only [List.isEmpty_nil, Bool.not_true, Bool.false_and, Bool.false_eq_true, ↓reduceIte,
          ne_eq, not_true_eq_false, hne', Bool.not_false, Bool.and_false, Bool.and_true, Option.map_some,
          henc, hl, bind, Except.bind, pure, Except.pure, hT, hg, effPort, Option.getD_some, Bool.true_and,
          hrange, decide_true, htn, and_self, ite_ok, storedPath, List.isEmpty_cons, hq hp hn, hd hp hn,
          Bool.and_self]
        by_cases hdp : some n = defaultPort sc'
        · simp only [hdp, ↓reduceIte, netloc_build_none, hnlA, Bool.not_false, Bool.and_self, Bool.and_false,
            Bool.false_eq_true]
        · simp only [hdp, ↓reduceIte, netloc_build_some, hnlA, Bool.not_false, Bool.and_self, Bool.and_false,
            Bool.false_eq_true]
      | false =>
        have hQ := hq2 hT
        unfold build
        simp only [List.isEmpty_nil, Bool.not_true, Bool.false_and, Bool.false_eq_true, ↓reduceIte,
          ne_eq, not_true_eq_false, hne', Bool.not_false, Bool.and_false, Bool.and_true, Option.map_some,
          henc, hl, bind, Except.bind, pure, Except.pure, hT, effPort, Option.getD_some, Bool.true_and,
          hrange, decide_true, htn, and_self, ite_ok, storedPath, hqs, hQ, List.isEmpty_cons, hq hp hn,
          hd hp hn, Bool.and_self]
        by_cases hdp : some n = defaultPort sc'
        · simp only [hdp, ↓reduceIte, netloc_build_none, hnlA, Bool.not_false, Bool.and_self, Bool.and_false,
            Bool.false_eq_true]
        · simp only [hdp, ↓reduceIte, netloc_build_some, hnlA, Bool.not_false, Bool.and_self, Bool.and_false,
            Bool.false_eq_true]
  · cases port with
    | none =>
      cases hT : qargTruthy qa with
      | true =>
        obtain ⟨rfl, hg⟩ := hq1 hT
        unfold build
        simp only [List.isEmpty_nil, Bool.not_true, Bool.false_and, Bool.false_eq_true, ↓reduceIte,
          ne_eq, not_true_eq_false, hne', Bool.not_false, Bool.and_false, Bool.and_true, Option.map_none,
          henc, hl, bind, Except.bind, pure, Except.pure, hT, hg, effPort, Option.getD_some, Bool.true_and,
          ite_ok, netloc_build_none, hnlA, storedPath, List.isEmpty_cons, hq _ hp hn, hd _ hp hn, Bool.and_self]
      | false =>
        have hQ := hq2 hT
        unfold build
        simp only [List.isEmpty_nil, Bool.not_true, Bool.false_and, Bool.false_eq_true, ↓reduceIte,
          ne_eq, not_true_eq_false, hne', Bool.not_false, Bool.and_false, Bool.and_true, Option.map_none,
          henc, hl, bind, Except.bind, pure, Except.pure, hT, effPort, Option.getD_some, Bool.true_and,
          ite_ok, netloc_build_none, hnlA, storedPath, hqs, hQ, List.isEmpty_cons, hq _ hp hn, hd _ hp hn,
          Bool.and_self]
    | some n =>
      have hr := hport n rfl
      have htn : (Int.ofNat n).toNat = n := rfl
      have hrange : ((0 : Int) ≤ Int.ofNat n ∧ Int.ofNat n ≤ 65535) :=
        ⟨Int.natCast_nonneg n, Int.ofNat_le.mpr hr⟩
      cases hT : qargTruthy qa with
      | true =>
        obtain ⟨rfl, hg⟩ := hq1 hT
        unfold build
        simp only [List.isEmpty_nil, Bool.not_true, Bool.false_and, Bool.false_eq_true, ↓reduceIte,
          ne_eq, not_true_eq_false, hne', Bool.not_false, Bool.and_false, Bool.and_true, Option.map_some,
          henc, hl, bind, Except.bind, pure, Except.pure, hT, hg, effPort, Option.getD_some, Bool.true_and,
          hrange, decide_true, htn, and_self, ite_ok, storedPath, List.isEmpty_cons, hq _ hp hn, hd _ hp hn,
          Bool.and_self]
        by_cases hdp : some n = defaultPort sc'
        · simp only [hdp, ↓reduceIte, netloc_build_none, hnlA, Bool.not_false, Bool.and_self, Bool.and_false,
            Bool.false_eq_true]
        · simp only [hdp, ↓reduceIte, netloc_build_some, hnlA, Bool.not_false, Bool.and_self, Bool.and_false,
            Bool.false_eq_true]
      | false =>
        have hQ := hq2 hT
        unfold build
        simp only [List.isEmpty_nil, Bool.not_true, Bool.false_and, Bool.false_eq_true, ↓reduceIte,
          ne_eq, not_true_eq_false, hne', Bool.not_false, Bool.and_false, Bool.and_true, Option.map_some,
          henc, hl, bind, Except.bind, pure, Except.pure, hT, effPort, Option.getD_some, Bool.true_and,
          hrange, decide_true, htn, and_self, ite_ok, storedPath, hqs, hQ, List.isEmpty_cons, hq _ hp hn,
          hd _ hp hn, Bool.and_self]
        by_cases hdp : some n = defaultPort sc'
        · simp only [hdp, ↓reduceIte, netloc_build_none, hnlA, Bool.not_false, Bool.and_self, Bool.and_false,
            Bool.false_eq_true]
        · simp only [hdp, ↓reduceIte, netloc_build_some, hnlA, Bool.not_false, Bool.and_self, Bool.and_false,
            Bool.false_eq_true]


/-- a user given as "" is no user (`make_netloc`: `if not user`) -/
def dropEmpty (x : Option Str) : Option Str := x.bind (fun s => if s.isEmpty then none else some s)

theorem dropEmpty_ne (x : Option Str) : ∀ s, dropEmpty x = some s → s ≠ [] := by
  intro s hs
  cases x with
  | none => cases hs
  | some t =>
    cases t with
    | nil => cases hs
    | cons c r => cases hs; simp

theorem dropEmpty_utext {x : Option Str} (h : UText x) : UText (dropEmpty x) := by
  intro s hs
  cases x with
  | none => cases hs
  | some t =>
    cases t with
    | nil => cases hs
    | cons c r => cases hs; exact h _ rfl

theorem dropEmpty_of_ne {x : Option Str} (h : ∀ s, x = some s → s ≠ []) : dropEmpty x = x := by
  cases x with
  | none => rfl
  | some t =>
    cases t with
    | nil => exact absurd rfl (h [] rfl)
    | cons c r => rfl

theorem authText_dropEmpty (e : Env) (user pw : Option Str) (H : Str) (port : Option Nat) :
    authText (user.map (q e Gen.QUOTER)) pw H port = authText ((dropEmpty user).map (q e Gen.QUOTER)) pw H port := by
  cases user with
  | none => rfl
  | some t =>
    cases t with
    | nil =>
      simp only [dropEmpty, Option.map_some, q_nil, Option.bind_some, List.isEmpty_nil, if_true, Option.map_none]
      unfold authText
      rw [makeNetloc_eq, makeNetloc_eq]
      cases pw <;> simp
    | cons c r => rfl

/-- the decoded path `build` stores for its `path` argument (without the leading "/") -/
def pathTail : Str → Str
  | [] => []
  | _ :: p => normTail p

/-- what `build` returns stores the encodings of the decoded components -/
theorem stores_built (e : Env) (sc : Str) (user pw : Option Str) (H : Str) (port : Option Nat)
    (path : Str) (kvs : List (Str × Str)) (f : Str)
    (hpath : path = [] ∨ ∃ p, path = 47 :: p ∧ PyStr (47 :: p) ∧ NoSurrogate (47 :: p)) :
    Stores e (fromParts sc (authText (user.map (q e Gen.QUOTER)) (pw.map (q e Gen.QUOTER)) H port)
        (storedPath e path) (qtext e.b kvs) (if f.isEmpty then f else q e Gen.FRAGMENT_QUOTER f))
      (dropEmpty user) pw H port (pathTail path) kvs f where
  netloc := authText_dropEmpty e user _ H port
  pre := fun pr h => by cases h
  path := by
    rcases hpath with rfl | ⟨p, rfl, hp, hn⟩
    · exact Or.inr ⟨rfl, rfl⟩
    · exact Or.inl rfl
  query := rfl
  fragment := rfl

/-- GENERAL round trip for `URL.build`: scheme, any user / password (a user "" is no user), a host of
    one of the kinds of `HostRT`, optional port, an EMPTY or rooted path, a query argument of any kind that
    renders to the text of the pairs `kvs` (or a query string that quotes to it), a fragment -/
theorem roundtrip_build (e : Env) (sc : Str) (user pw : Option Str) (h H D : Str) (port : Option Nat)
    (path : Str) (qa : QArg) (qs : Str) (kvs : List (Str × Str)) (f : Str)
    (vs : ValidScheme sc) (hrt : HostRT e h H D) (hport : ∀ x, port = some x → x ≤ 65535)
    (hu : UText user) (hw : UText pw)
    (hpath : path = [] ∨ ∃ p, path = 47 :: p ∧ PyStr (47 :: p) ∧ NoSurrogate (47 :: p))
    (hg : GoodPairs kvs)
    (hq1 : qargTruthy qa = true → qs = [] ∧ getStrQuery e.b qa = .ok (some (qtext e.b kvs)))
    (hq2 : qargTruthy qa = false → qtext e.b kvs = if qs.isEmpty then qs else q e Gen.QUERY_QUOTER qs)
    (hf : PyStr f) (hfn : NoSurrogate f) :
    ∃ u, build e { scheme := sc, user := user, password := pw, host := h, port := port.map Int.ofNat,
                   path := path, query := qa, queryString := qs, fragment := f } = .ok u ∧
      u.scheme = sc ∧ u.path = storedPath e path ∧ u.query = qtext e.b kvs ∧
      Stores e u (dropEmpty user) pw H (effPort sc port) (pathTail path) kvs f ∧
      ∀ hr, humanRepr e u = .ok hr →
        (isAscii (Rfc.appendixB Gen.schemeChars hr).authority = false →
          checkNetloc e.o (Rfc.appendixB Gen.schemeChars hr).authority = .ok ()) →
        ∃ v, encodeUrl e hr = .ok v ∧ Url.beq v u = true ∧
          v.pre = some (preOf ((dropEmpty user).map (q e Gen.QUOTER)) (pw.map (q e Gen.QUOTER)) H
            (effPort sc port)) ∧ v.path = q e Gen.PATH_QUOTER (47 :: pathTail path) := by
  have hb := build_gen e sc sc (vs.lowerAny_eq e) user pw h H port path qa qs (qtext e.b kvs) f hrt.hne hrt.okH.1 hrt.build hport
    hpath hq1 hq2
  have st := stores_built e sc user pw H (effPort sc port) path kvs f hpath
  refine ⟨_, hb, rfl, rfl, rfl, st, ?_⟩
  have hgood : PyStr (47 :: pathTail path) ∧ NoSurrogate (47 :: pathTail path) ∧
      normalizePath (47 :: pathTail path) = 47 :: pathTail path := by
    rcases hpath with rfl | ⟨p, rfl, hp, hn⟩
    · exact ⟨by decide, by decide, by decide⟩
    · exact ⟨(good_normalizePath hp hn).1, (good_normalizePath hp hn).2, normTail_normal p⟩
  exact roundtrip_stored e _ (dropEmpty user) pw h H D (effPort sc port) (pathTail path) kvs f vs hrt
    (effPort_range hport) (dropEmpty_utext hu) (dropEmpty_ne user) hw hgood.1 hgood.2.1 hgood.2.2 hg hf hfn st
/-! ## a query STRING in `key=value&…` form without reserved query characters -/

/-- a non-requoting quoter is a character map -/
theorem q_flatMap (e : Env) (a : QArgs) (ha : a ∈ Gen.allQuoters) (hnr : a.requote = false) (s : Str)
    (hs : PyStr s) (hn : NoSurrogate s) : q e a s = s.flatMap (cWriteOut (a.tab e.b)) := by
  unfold q
  rw [run_eq_cOut _ ha e.b _ hs, stripSurr_id _ hn, cOut_nr_flatMap _ (by rw [HumanLemmas.tab_requote]; exact hnr)]

/-- no character that QUERY_QUOTER protects ('=', '+', '&', ';') -/
def QueryPlain (s : Str) : Prop := ∀ c ∈ s, mem c Gen.QUERY_QUOTER.prot = false

instance (s : Str) : Decidable (QueryPlain s) := by unfold QueryPlain; infer_instance

theorem query_tabs_agree : ∀ b : Backend, ∀ c, c < 128 → mem c Gen.QUERY_QUOTER.prot = false →
    cWriteOut (Gen.QUERY_QUOTER.tab b) c = cWriteOut (Gen.QUERY_PART_QUOTER.tab b) c := by
  intro b; cases b <;> decide +kernel

theorem query_seps' : ∀ b : Backend,
    cWriteOut (Gen.QUERY_QUOTER.tab b) 61 = [61] ∧ cWriteOut (Gen.QUERY_QUOTER.tab b) 38 = [38] := by
  intro b; cases b <;> decide +kernel

theorem query_write_agree (b : Backend) (c : Nat) (hp : mem c Gen.QUERY_QUOTER.prot = false) :
    cWriteOut (Gen.QUERY_QUOTER.tab b) c = cWriteOut (Gen.QUERY_PART_QUOTER.tab b) c := by
  by_cases hc : c < 128
  · exact query_tabs_agree b c hc hp
  · rw [cWriteOut_high _ (gen_tab_wf _ (by decide) b) (by omega),
      cWriteOut_high _ (gen_tab_wf _ (by decide) b) (by omega)]

/-- the text `k=v` of a pair, as written in a query string -/
def rawPair (p : Str × Str) : Str := p.1 ++ [61] ++ p.2

theorem flatMap_plain (b : Backend) (s : Str) (hs : QueryPlain s) :
    s.flatMap (cWriteOut (Gen.QUERY_QUOTER.tab b)) = s.flatMap (cWriteOut (Gen.QUERY_PART_QUOTER.tab b)) :=
  flatMap_congr' s (fun c hc => query_write_agree b c (hs c hc))

theorem pairText_flatMap (b : Backend) (p : Str × Str) (hg : GoodText p.1 ∧ GoodText p.2) :
    pairText b p = p.1.flatMap (cWriteOut (Gen.QUERY_PART_QUOTER.tab b)) ++ [61] ++
      p.2.flatMap (cWriteOut (Gen.QUERY_PART_QUOTER.tab b)) := by
  unfold pairText
  have := fun e : Env => q_flatMap e Gen.QUERY_PART_QUOTER (by decide) rfl
  have h1 := this ⟨b, Oracles.empty⟩ p.1 hg.1.1 hg.1.2
  have h2 := this ⟨b, Oracles.empty⟩ p.2 hg.2.1 hg.2.2
  unfold q at h1 h2
  rw [h1, h2]

theorem rawPair_flatMap (b : Backend) (p : Str × Str) (hg : GoodText p.1 ∧ GoodText p.2)
    (hp : QueryPlain p.1 ∧ QueryPlain p.2) :
    (rawPair p).flatMap (cWriteOut (Gen.QUERY_QUOTER.tab b)) = pairText b p := by
  rw [pairText_flatMap b p hg]
  unfold rawPair
  simp only [List.flatMap_append, List.flatMap_cons, List.flatMap_nil, List.append_nil, (query_seps' b).1,
    flatMap_plain b _ hp.1, flatMap_plain b _ hp.2]

theorem flatC_flatMap (b : Backend) (ps : List (Str × Str)) (hg : GoodPairs ps)
    (hp : ∀ p ∈ ps, QueryPlain p.1 ∧ QueryPlain p.2) :
    (HostLemmas.flatC 38 (ps.map rawPair)).flatMap (cWriteOut (Gen.QUERY_QUOTER.tab b)) =
      HostLemmas.flatC 38 (ps.map (pairText b)) := by
  induction ps with
  | nil => rfl
  | cons p ps ih =>
    simp only [List.map_cons, HostLemmas.flatC_cons, List.flatMap_cons, List.flatMap_append, (query_seps' b).2,
      rawPair_flatMap b p (hg p (by simp)) (hp p (by simp)),
      ih (fun x hx => hg x (by simp [hx])) (fun x hx => hp x (by simp [hx]))]
    rfl

/-- the query string `k1=v1&k2=v2…` of pairs -/
def rawQuery (ps : List (Str × Str)) : Str := joinC 38 (ps.map rawPair)

theorem rawQuery_good (ps : List (Str × Str)) (hg : GoodPairs ps) : PyStr (rawQuery ps) ∧ NoSurrogate (rawQuery ps) := by
  have key : ∀ x ∈ rawQuery ps, x ≤ 0x10FFFF ∧ isSurrogate x = false := by
    intro x hx
    rcases HostLemmas.mem_joinC hx with rfl | ⟨r, hr, hxr⟩
    · decide
    · obtain ⟨p, hp, rfl⟩ := List.mem_map.mp hr
      simp only [rawPair, List.mem_append, List.mem_singleton] at hxr
      rcases hxr with (h | rfl) | h
      · exact ⟨(hg p hp).1.1 x h, (hg p hp).1.2 x h⟩
      · decide
      · exact ⟨(hg p hp).2.1 x h, (hg p hp).2.2 x h⟩
  exact ⟨fun x hx => (key x hx).1, fun x hx => (key x hx).2⟩

/-- QUERY_QUOTER on such a query string gives the text `build(query=pairs)` stores -/
theorem query_quoter_rawQuery (e : Env) (ps : List (Str × Str)) (hg : GoodPairs ps)
    (hp : ∀ p ∈ ps, QueryPlain p.1 ∧ QueryPlain p.2) :
    q e Gen.QUERY_QUOTER (rawQuery ps) = qtext e.b ps := by
  obtain ⟨g1, g2⟩ := rawQuery_good ps hg
  rw [q_flatMap e _ (by decide) rfl _ g1 g2]
  unfold rawQuery qtext
  cases ps with
  | nil => rfl
  | cons p ps =>
    rw [List.map_cons, List.map_cons, HostLemmas.joinC_cons, HostLemmas.joinC_cons, List.flatMap_append,
      rawPair_flatMap e.b p (hg p (by simp)) (hp p (by simp)),
      flatC_flatMap e.b ps (fun x hx => hg x (by simp [hx])) (fun x hx => hp x (by simp [hx]))]

theorem rawQuery_nil_iff (ps : List (Str × Str)) : rawQuery ps = [] ↔ ps = [] := by
  cases ps with
  | nil => simp [rawQuery]
  | cons p ps => simp [rawQuery, HostLemmas.joinC_cons, rawPair]


/-! ## the query arguments -/

theorem pairs_hq1 (b : Backend) (kvs : List (Str × Str)) (qs : Str) (hqs : qs = []) :
    qargTruthy (.pairs (strItems kvs)) = true →
      qs = [] ∧ getStrQuery b (.pairs (strItems kvs)) = .ok (some (qtext b kvs)) :=
  fun _ => ⟨hqs, getStrQuery_strItems b kvs⟩

theorem pairs_hq2 (e : Env) (kvs : List (Str × Str)) :
    qargTruthy (.pairs (strItems kvs)) = false →
      qtext e.b kvs = if ([] : Str).isEmpty then [] else q e Gen.QUERY_QUOTER [] := by
  intro h
  cases kvs with
  | nil => rfl
  | cons x xs => simp [qargTruthy, strItems] at h

theorem mapping_hq1 (b : Backend) (items : List (Str × QItem)) (kvs : List (Str × Str))
    (h : expandItems items = some kvs) :
    qargTruthy (.mapping items) = true →
      ([] : Str) = [] ∧ getStrQuery b (.mapping items) = .ok (some (qtext b kvs)) :=
  fun _ => ⟨rfl, getStrQuery_mapping b items kvs h⟩

theorem mapping_hq2 (e : Env) (items : List (Str × QItem)) (kvs : List (Str × Str))
    (h : expandItems items = some kvs) :
    qargTruthy (.mapping items) = false →
      qtext e.b kvs = if ([] : Str).isEmpty then [] else q e Gen.QUERY_QUOTER [] := by
  intro ht
  cases items with
  | nil => simp only [expandItems, Option.some.injEq] at h; subst h; rfl
  | cons x xs => simp [qargTruthy] at ht

theorem rawQuery_hq2 (e : Env) (kvs : List (Str × Str)) (hg : GoodPairs kvs)
    (hp : ∀ p ∈ kvs, QueryPlain p.1 ∧ QueryPlain p.2) :
    qtext e.b kvs = if (rawQuery kvs).isEmpty then rawQuery kvs else q e Gen.QUERY_QUOTER (rawQuery kvs) := by
  cases kvs with
  | nil => rfl
  | cons x xs =>
    have hne : rawQuery (x :: xs) ≠ [] := fun h => by simpa using (rawQuery_nil_iff (x :: xs)).mp h
    rw [HumanLemmas.isEmpty_false hne]
    exact (query_quoter_rawQuery e _ hg hp).symm

theorem strArg_hq1 (e : Env) (kvs : List (Str × Str)) (hg : GoodPairs kvs)
    (hp : ∀ p ∈ kvs, QueryPlain p.1 ∧ QueryPlain p.2) :
    qargTruthy (.str (rawQuery kvs)) = true →
      ([] : Str) = [] ∧ getStrQuery e.b (.str (rawQuery kvs)) = .ok (some (qtext e.b kvs)) := by
  intro ht
  refine ⟨rfl, ?_⟩
  have hne : (rawQuery kvs).isEmpty = false := by simpa [qargTruthy] using ht
  simp only [getStrQuery, hne, Bool.false_eq_true, if_false]
  have := rawQuery_hq2 e kvs hg hp
  rw [hne] at this
  simp only [Bool.false_eq_true, if_false] at this
  rw [this]; rfl

theorem strArg_hq2 (e : Env) (kvs : List (Str × Str)) :
    qargTruthy (.str (rawQuery kvs)) = false →
      qtext e.b kvs = if ([] : Str).isEmpty then [] else q e Gen.QUERY_QUOTER [] := by
  intro ht
  have : rawQuery kvs = [] := by
    cases h : rawQuery kvs with
    | nil => rfl
    | cons c r => simp [qargTruthy, h] at ht
  rw [(rawQuery_nil_iff kvs).mp this]; rfl
/-! ## a mapping with str / int values -/

def siVal : Str ⊕ Int → QVal
  | .inl s => .str s
  | .inr n => .int n

def siText : Str ⊕ Int → Str
  | .inl s => s
  | .inr n => intToStr n

/-- `{k: v, …}` with `v` a str or an int -/
def siItems (l : List (Str × (Str ⊕ Int))) : List (Str × QItem) := l.map (fun kv => (kv.1, .one (siVal kv.2)))

/-- the pairs it denotes: ints are rendered by `str()` -/
def siPairs (l : List (Str × (Str ⊕ Int))) : List (Str × Str) := l.map (fun kv => (kv.1, siText kv.2))

theorem queryVar_si (v : Str ⊕ Int) : queryVar (siVal v) = .ok (siText v) := by cases v <;> rfl

theorem expand_si (l : List (Str × (Str ⊕ Int))) : expandItems (siItems l) = some (siPairs l) := by
  induction l with
  | nil => rfl
  | cons kv l ih =>
    obtain ⟨k, v⟩ := kv
    simp only [siItems, siPairs, List.map_cons] at ih ⊢
    simp only [expandItems, queryVar_si, ih]

theorem digit_good {c : Nat} (h : isDigitC c = true) : c ≤ 0x10FFFF ∧ isSurrogate c = false := by
  simp [isDigitC] at h
  constructor
  · omega
  · unfold isSurrogate
    simp only [Bool.and_eq_false_iff, decide_eq_false_iff_not]; omega

theorem intToStr_good (n : Int) : GoodText (intToStr n) := by
  have key : ∀ c ∈ intToStr n, c ≤ 0x10FFFF ∧ isSurrogate c = false := by
    intro c hc
    unfold intToStr at hc
    split at hc
    · rcases List.mem_cons.mp hc with rfl | hc
      · decide
      · exact digit_good ((natToStr_digits _).2 c hc)
    · exact digit_good ((natToStr_digits _).2 c hc)
  exact ⟨fun c hc => (key c hc).1, fun c hc => (key c hc).2⟩

theorem siPairs_good (l : List (Str × (Str ⊕ Int)))
    (h : ∀ kv ∈ l, GoodText kv.1 ∧ ∀ s, kv.2 = .inl s → GoodText s) : GoodPairs (siPairs l) := by
  intro p hp
  obtain ⟨kv, hkv, rfl⟩ := List.mem_map.mp hp
  refine ⟨(h kv hkv).1, ?_⟩
  obtain ⟨k, v⟩ := kv
  cases v with
  | inl s => exact (h _ hkv).2 s rfl
  | inr n => exact intToStr_good n

/-! ## modifiers keep `Stores` -/

section mods
variable (e : Env) (u : Url) (user pw : Option Str) (H : Str) (port : Option Nat)
  (p : Str) (kvs : List (Str × Str)) (f : Str) (st : Stores e u user pw H port p kvs f)
include st

/-- `with_fragment(f')` (`None` is `""`) -/
theorem stores_withFragment (f' : Option Str) :
    Stores e (withFragment e u f') user pw H port p kvs (f'.getD []) := by
  have hraw : (match f' with | none => [] | some s => q e Gen.FRAGMENT_QUOTER s) =
      (if (f'.getD []).isEmpty then f'.getD [] else q e Gen.FRAGMENT_QUOTER (f'.getD [])) := by
    cases f' with
    | none => rfl
    | some s => cases s with
      | nil => simp [q_nil]
      | cons c r => rfl
  have key : ∀ raw : Str, raw = (if (f'.getD []).isEmpty then f'.getD [] else q e Gen.FRAGMENT_QUOTER (f'.getD [])) →
      Stores e (if u.fragment = raw then u else fromParts u.scheme u.netloc u.path u.query raw) user pw H port p kvs
        (f'.getD []) := by
    intro raw hr
    split
    · rename_i heq
      exact ⟨st.netloc, st.pre, st.path, st.query, by rw [heq, hr]⟩
    · exact ⟨st.netloc, fun pr h => (by cases h), st.path, st.query, hr⟩
  exact key _ hraw

/-- `with_query(a)` for an argument that renders to the text of the pairs `kvs'` -/
theorem stores_withQuery (a : QArg) (kvs' : List (Str × Str))
    (ha : getStrQuery e.b a = .ok (some (qtext e.b kvs'))) :
    ∃ v, withQuery e u a = .ok v ∧ v.scheme = u.scheme ∧ Stores e v user pw H port p kvs' f :=
  ⟨_, withQuery_of e u a _ ha, rfl, ⟨st.netloc, fun pr h => (by cases h), st.path, rfl, st.fragment⟩⟩

/-- `with_user(usr')`: the password, host and port are kept; `with_user(None)` drops user AND password -/
theorem stores_withUser (usr' : Option Str) (hu : UText user) (hune : ∀ s, user = some s → s ≠ [])
    (hH : HostOK H) (hport : ∀ x, port = some x → x ≤ 65535) :
    ∃ v, withUser e u usr' = .ok v ∧ v.scheme = u.scheme ∧
      Stores e v (dropEmpty usr') (if usr'.isSome then pw else none) H port p kvs f := by
  have hnet := net_of_stores e u user pw H port p kvs f st (userOK_quoted e user hu hune) hH hport
  have hP : rawPassword e u = .ok (pw.map (q e Gen.QUOTER)) := by unfold rawPassword; rw [hnet]; rfl
  have hHs : hostSubcomponent e u = .ok (some (bracket H)) := by
    unfold hostSubcomponent rawHost; rw [hnet]; rfl
  have hE : explicitPort e u = .ok port := by unfold explicitPort; rw [hnet]; rfl
  have hnl : u.netloc.isEmpty = false := by
    rw [st.netloc]; exact HumanLemmas.isEmpty_false (authText_ne_nil _ _ hH.1 _)
  cases usr' with
  | none =>
    refine ⟨fromParts u.scheme (authText none none H port) u.path u.query u.fragment, ?_, rfl,
      ⟨rfl, fun pr h => (by cases h), st.path, st.query, st.fragment⟩⟩
    unfold withUser
    simp only [hnl, hHs, hE, bind, Except.bind, pure, Except.pure, Bool.false_eq_true, if_false, Option.getD_some,
      authText, makeNetloc_qf (q e Gen.QUOTER) id]
  | some s =>
    refine ⟨fromParts u.scheme (authText (some (q e Gen.QUOTER s)) (pw.map (q e Gen.QUOTER)) H port)
      u.path u.query u.fragment, ?_, rfl,
      ⟨authText_dropEmpty e (some s) _ H port, fun pr h => (by cases h), st.path, st.query, st.fragment⟩⟩
    unfold withUser
    simp only [hnl, hHs, hE, hP, bind, Except.bind, pure, Except.pure, Bool.false_eq_true, if_false,
      Option.getD_some, authText, makeNetloc_qf (q e Gen.QUOTER) id]

end mods


/-! ## counting the literal occurrences of a printable non-ASCII character in `human_repr()` -/

theorem count_ascii {l : Str} {c : Nat} (hc : 128 ≤ c) (hl : ∀ y ∈ l, y < 128) : l.count c = 0 :=
  List.count_eq_zero.mpr (fun hm => by have := hl c hm; omega)

theorem pct_lt (b : Nat) (hb : b < 256) : ∀ y ∈ pct b, y < 128 := by
  intro y hy
  rcases pct_chars b hb y hy with rfl | h
  · omega
  · rcases FixLemmas.upperHex_range h with h | h <;> omega

theorem flatMap_pct_lt (bs : List Nat) (hb : ∀ b ∈ bs, b < 256) : ∀ y ∈ bs.flatMap pct, y < 128 := by
  intro y hy
  obtain ⟨b, hb', hy'⟩ := List.mem_flatMap.mp hy
  exact pct_lt b (hb b hb') y hy'

/-- `human_quote` keeps EVERY occurrence of a printable non-ASCII character literal: the human form has
    exactly as many literal occurrences of it as the text -/
theorem count_humanQuote (o : Oracles) (uns : Str) (hu : ∀ c ∈ uns, c < 128) (c : Nat) (hc : 128 ≤ c)
    (hp : o.isPrintableU c = some true) (s r : Str) (hs : PyStr s) (h : humanQuote o s uns = .ok r) :
    r.count c = s.count c := by
  revert hs
  refine humanQuote_induction (o := o) (uns := uns) (fun s r => PyStr s → r.count c = s.count c) ?_ ?_ s r h
  · intro _; rfl
  · intro x s p r hpiece _ ih hs
    have ih' := ih (fun y hy => hs y (by simp [hy]))
    rw [List.count_append, ih', List.count_cons]
    cases hpiece with
    | esc hx hpx =>
      have hxlt : x < 128 := by
        rcases hx with rfl | hx
        · omega
        · exact hu x (mem_iff.mp hx)
      have hne : (x == c) = false := by simp; omega
      rw [hpx, count_ascii hc (pct_lt x (by omega)), hne]; simp
    | shown h37 hm hpr hpx =>
      rw [hpx]
      by_cases hxc : x = c
      · subst hxc; simp; omega
      · have hne : (x == c) = false := by simpa using hxc
        rw [hne]
        simp [List.count_cons, hne]
    | hidden h37 hm hpr hsur hpx =>
      have hxc : x ≠ c := by
        rintro rfl
        rw [isPrintableChar_high o hc, hp] at hpr
        cases hpr
      have hne : (x == c) = false := by simpa using hxc
      rw [hpx, count_ascii hc (flatMap_pct_lt _ (fun b hb => utf8_byte_lt x (hs x (by simp)) b hb)), hne]
      simp

/-- occurrences in an optional text -/
def occ (c : Nat) (x : Option Str) : Nat := (x.getD []).count c

theorem occ_humanQuoteOpt (o : Oracles) (uns : Str) (hu : ∀ c ∈ uns, c < 128) (c : Nat) (hc : 128 ≤ c)
    (hp : o.isPrintableU c = some true) (x y : Option Str) (hx : UText x)
    (h : humanQuoteOpt o x uns = .ok y) : occ c y = occ c x := by
  rcases humanQuoteOpt_ok h with ⟨rfl, rfl⟩ | ⟨s, r, rfl, rfl, hq⟩
  · rfl
  · exact count_humanQuote o uns hu c hc hp s r (hx s rfl).1 hq

/-- occurrences in the keys and values of a list of pairs -/
def occPairs (c : Nat) (kvs : List (Str × Str)) : Nat := (kvs.map (fun kv => kv.1.count c + kv.2.count c)).sum

theorem count_flatC (c : Nat) (hc : 128 ≤ c) (l : List Str) :
    (HostLemmas.flatC 38 l).count c = (l.map (fun s => s.count c)).sum := by
  induction l with
  | nil => rfl
  | cons s r ih =>
    have hne : ((38 : Nat) == c) = false := by simp; omega
    simp only [HostLemmas.flatC_cons, List.count_cons, List.count_append, ih, List.map_cons, List.sum_cons, hne]
    simp

theorem count_joinC (c : Nat) (hc : 128 ≤ c) (l : List Str) :
    (joinC 38 l).count c = (l.map (fun s => s.count c)).sum := by
  cases l with
  | nil => rfl
  | cons s r => rw [HostLemmas.joinC_cons, List.count_append, count_flatC c hc, List.map_cons, List.sum_cons]

theorem count_humanPairs (o : Oracles) (c : Nat) (hc : 128 ≤ c) (hp : o.isPrintableU c = some true) :
    ∀ (kvs : List (Str × Str)) (parts : List Str), GoodPairs kvs → kvs.mapM (humanPair o) = .ok parts →
      (parts.map (fun s => s.count c)).sum = occPairs c kvs := by
  intro kvs
  induction kvs with
  | nil => intro parts _ h; rw [mapM_nil_ok h]; rfl
  | cons kv kvs ih =>
    intro parts hg h
    obtain ⟨r, rs, h1, h2, rfl⟩ := mapM_cons_ok h
    obtain ⟨rk, rv, hk, hv, rfl⟩ := humanPair_ok h1
    rw [key_val_lists] at hv
    have g := hg kv (by simp)
    have hne : ((61 : Nat) == c) = false := by simp; omega
    simp only [List.map_cons, List.sum_cons, occPairs, List.count_append, List.count_cons, List.count_nil, hne,
      count_humanQuote o _ k_unsafe_ascii c hc hp _ _ g.1.1 hk,
      count_humanQuote o _ k_unsafe_ascii c hc hp _ _ g.2.1 hv]
    have := ih rs (fun x hx => hg x (by simp [hx])) h2
    simp only [occPairs] at this
    rw [this]; simp

theorem schemeChars_lt : ∀ c ∈ Gen.schemeChars, c < 128 := by decide

theorem count_qPart (c : Nat) (hc : 128 ≤ c) (s : Str) : (qPart s).count c = s.count c := by
  unfold qPart
  cases s with
  | nil => rfl
  | cons x r =>
    have hne : ((63 : Nat) == c) = false := by simp; omega
    simp [List.count_cons, hne]

theorem count_fPart (c : Nat) (hc : 128 ≤ c) (s : Str) : (fPart s).count c = s.count c := by
  unfold fPart
  cases s with
  | nil => rfl
  | cons x r =>
    have hne : ((35 : Nat) == c) = false := by simp; omega
    simp [List.count_cons, hne]

theorem count_authText (c : Nat) (hc : 128 ≤ c) (usr pw' : Option Str) (D : Str) (port : Option Nat) :
    (authText usr pw' D port).count c = occ c usr + occ c pw' + D.count c := by
  have h58 : ((58 : Nat) == c) = false := by simp; omega
  have h64 : ((64 : Nat) == c) = false := by simp; omega
  have h91 : ((91 : Nat) == c) = false := by simp; omega
  have h93 : ((93 : Nat) == c) = false := by simp; omega
  have hb : (bracket D).count c = D.count c := by
    unfold bracket; split <;> simp [List.count_cons, List.count_append, h91, h93]
  have hhp : (hostPortStr (bracket D) port).count c = D.count c := by
    cases port with
    | none => simpa [hostPortStr] using hb
    | some n =>
      have hd : (natToStr n).count c = 0 := count_ascii hc (fun y hy => by
        have := (natToStr_digits n).2 y hy
        simp [isDigitC] at this; omega)
      simp [hostPortStr, List.count_append, List.count_cons, hb, hd, h58]
  rw [FixLemmas.authText_eq, List.count_append, hhp]
  unfold FixLemmas.userPrefix occ
  cases usr with
  | none =>
    cases pw' with
    | none => simp
    | some w => simp [List.count_append, List.count_cons, h58, h64]
  | some u =>
    cases pw' with
    | none =>
      simp only
      split
      · rename_i hemp; rw [List.isEmpty_iff.mp hemp]; simp
      · simp [List.count_append, List.count_cons, h64]
    | some w => simp [List.count_append, List.count_cons, h58, h64]

/-- the count of literal occurrences in the composed human form -/
theorem count_human_form (e : Env) (sc : Str) (user pw : Option Str) (D : Str) (port : Option Nat)
    (p : Str) (kvs : List (Str × Str)) (f : Str) (usr pw' : Option Str) (rp : Str) (qparts : List Str) (rf : Str)
    (vs : ValidScheme sc) (hu : UText user) (hw : UText pw) (hp : PyStr (47 :: p)) (hg : GoodPairs kvs)
    (hf : PyStr f) (hq : HumanPieces e user pw (47 :: p) kvs f usr pw' (47 :: rp) qparts rf)
    (c : Nat) (hc : 128 ≤ c) (hpr : e.o.isPrintableU c = some true) :
    (composeUrl sc (authText usr pw' D port) (47 :: rp) (joinC 38 qparts) rf).count c =
      occ c user + occ c pw + D.count c + (47 :: p).count c + occPairs c kvs + f.count c := by
  obtain ⟨hu1, hu2, _, _⟩ := unsafe_ascii
  have hsc : sc.count c = 0 := count_ascii hc (fun y hy => schemeChars_lt y (mem_iff.mp (vs.chars y hy)))
  have h58 : ((58 : Nat) == c) = false := by simp; omega
  have h47 : ((47 : Nat) == c) = false := by simp; omega
  have e1 := occ_humanQuoteOpt e.o _ user_unsafe_ascii c hc hpr user usr hu hq.q1
  have e2 := occ_humanQuoteOpt e.o _ user_unsafe_ascii c hc hpr pw pw' hw (gen_same_lists.1 ▸ hq.q2)
  have e3 := count_humanQuote e.o _ hu1 c hc hpr _ _ hp hq.q3
  have e4 := count_humanPairs e.o c hc hpr kvs qparts hg hq.q4
  have e5 := count_humanQuote e.o _ hu2 c hc hpr _ _ hf hq.q5
  rw [FixLemmas.composeUrl_eq]
  simp only [List.count_append, List.count_cons, hsc, h58, h47, count_authText c hc, count_qPart c hc,
    count_fPart c hc, count_joinC c hc, e1, e2, e4, e5]
  simp only [List.count_cons, h47] at e3
  simp only [Bool.false_eq_true, if_false, Nat.zero_add, Nat.add_zero] at e3 ⊢
  omega

theorem occPairs_pos (c : Nat) (kvs : List (Str × Str)) (kv : Str × Str) (hkv : kv ∈ kvs)
    (h : c ∈ kv.1 ∨ c ∈ kv.2) : 0 < occPairs c kvs := by
  induction kvs with
  | nil => cases hkv
  | cons x xs ih =>
    simp only [occPairs, List.map_cons, List.sum_cons]
    rcases List.mem_cons.mp hkv with rfl | hm
    · rcases h with h | h
      · have := List.count_pos_iff.mpr h; omega
      · have := List.count_pos_iff.mpr h; omega
    · have := ih hm; simp only [occPairs] at this; omega

/-! ## an upper-case scheme in front of a URL string -/

/-- a non-empty string of scheme characters, in any case -/
def SchemeText (SC : Str) : Prop := SC ≠ [] ∧ ∀ c ∈ SC, mem c Gen.schemeChars = true

instance (SC : Str) : Decidable (SchemeText SC) := by unfold SchemeText; infer_instance

theorem lower_schemeChars : ∀ c ∈ Gen.schemeChars, mem (lowerC c) Gen.schemeChars = true := by decide

theorem lowerC_idem (c : Nat) : lowerC (lowerC c) = lowerC c := by
  unfold lowerC
  by_cases h : 65 ≤ c ∧ c ≤ 90
  · rw [if_pos h, if_neg (by omega)]
  · rw [if_neg h, if_neg h]

theorem lower_lower (s : Str) : lower (lower s) = lower s := by
  simp [lower, List.map_map, Function.comp_def, lowerC_idem]

theorem schemeText_lower {SC : Str} (h : SchemeText SC) : SchemeText (lower SC) := by
  refine ⟨by simpa [lower] using h.1, ?_⟩
  intro c hc
  simp only [lower, List.mem_map] at hc
  obtain ⟨x, hx, rfl⟩ := hc
  exact lower_schemeChars x (mem_iff.mp (h.2 x hx))

theorem validScheme_lower {SC : Str} (h : SchemeText SC) : ValidScheme (lower SC) :=
  ⟨(schemeText_lower h).1, (schemeText_lower h).2, lower_lower SC⟩

theorem cleanUrl_scheme (SC X : Str) (h : SchemeText SC) :
    cleanUrl (SC ++ X) = SC ++ X.filter (fun c => !mem c Gen.removeSet) := by
  have hsc : ∀ c ∈ SC, 32 < c ∧ c ≠ 58 := fun c hc => schemeChars_tab c (GenTabs.mem_iff.mp (h.2 c hc))
  unfold cleanUrl
  obtain ⟨c, r, rfl⟩ := List.exists_cons_of_ne_nil h.1
  have h1 : lstripSet Gen.stripSet (c :: r ++ X) = c :: r ++ X := by
    rw [ParseLemmas.lstripSet_eq, List.cons_append, List.dropWhile_cons_of_neg]
    rw [ParseLemmas.mem_stripSet]
    have := (hsc c (by simp)).1
    simp only [decide_eq_true_eq]; omega
  rw [h1, List.filter_append, List.filter_eq_self.mpr]
  intro x hx
  rw [ParseLemmas.mem_removeSet]
  have := (hsc x hx).1
  simp only [decide_eq_true_eq]
  omega

theorem splitScheme_scheme (SC Y : Str) (h : SchemeText SC) :
    splitScheme (SC ++ 58 :: Y) = (lower SC, Y) := by
  have hsc : ∀ c ∈ SC, 32 < c ∧ c ≠ 58 := fun c hc => schemeChars_tab c (GenTabs.mem_iff.mp (h.2 c hc))
  have hall : ∀ a ∈ SC, (decide (a ≠ 58)) = true := fun a ha => by simp [(hsc a ha).2]
  rw [ParseLemmas.splitScheme_eq]
  unfold Rfc.schemeOf
  rw [List.takeWhile_append_of_pos hall, List.dropWhile_append_of_pos hall]
  simp only [ne_eq, decide_not, List.takeWhile_cons, decide_true, Bool.not_true, Bool.false_eq_true,
    ↓reduceIte, List.append_nil, List.dropWhile_cons, HumanLemmas.isEmpty_false h.1, Bool.not_false, Bool.true_and]
  have : SC.all (fun c => Gen.schemeChars.contains c) = true := by
    rw [List.all_eq_true]; exact h.2
  rw [this]
  rfl

theorem splitUrl_congr (o : Oracles) (s s' : Str) (h : splitScheme (cleanUrl s) = splitScheme (cleanUrl s')) :
    splitUrl o s = splitUrl o s' := by
  unfold splitUrl
  simp only [h]

/-- `URL(…)` lower-cases the scheme: a string with the scheme in any case is read as the string with the
    lower-case scheme -/
theorem encodeUrl_scheme_case (e : Env) (SC X : Str) (h : SchemeText SC) :
    encodeUrl e (SC ++ 58 :: X) = encodeUrl e (lower SC ++ 58 :: X) := by
  have hs : splitUrl e.o (SC ++ 58 :: X) = splitUrl e.o (lower SC ++ 58 :: X) := by
    apply splitUrl_congr
    rw [cleanUrl_scheme SC _ h, cleanUrl_scheme (lower SC) _ (schemeText_lower h)]
    have : (58 :: X).filter (fun c => !mem c Gen.removeSet) = 58 :: X.filter (fun c => !mem c Gen.removeSet) := by
      rw [List.filter_cons_of_pos (by decide)]
    rw [this, splitScheme_scheme SC _ h, splitScheme_scheme (lower SC) _ (schemeText_lower h), lower_lower]
  rw [FixLemmas.encodeUrl_eq, FixLemmas.encodeUrl_eq, hs]

section childsec
open PathAlg

/-! ## `u / s` keeps `Stores` -/

/-- the decoded path (without the leading "/") of `u / s` for a URL with decoded path `"/" ++ p` -/
def childTail (p s : Str) : Str := joinC 47 (stripTrail (splitOn 47 p) ++ splitOn 47 s)

theorem stripTrail_map (g : Str → Str) (hg : ∀ x, g x = [] ↔ x = []) (l : List Str) :
    stripTrail (l.map g) = (stripTrail l).map g := by
  unfold stripTrail
  rw [List.getLast?_map]
  cases hl : l.getLast? with
  | none => simp
  | some x =>
    simp only [Option.map_some, Option.some.injEq, hg]
    split
    · rw [List.map_dropLast]
    · rfl

theorem stripTrail_cons_nil (T : List Str) (hT : T ≠ []) : stripTrail ([] :: T) = [] :: stripTrail T := by
  obtain ⟨a, b, rfl⟩ := List.exists_cons_of_ne_nil hT
  unfold stripTrail
  rw [List.getLast?_cons_cons]
  split <;> simp

theorem stripTrail_sub (l : List Str) : ∀ x ∈ stripTrail l, x ∈ l := by
  intro x hx
  unfold stripTrail at hx
  split at hx
  · exact List.dropLast_subset _ hx
  · exact hx

theorem childTail_mem (p s : Str) : ∀ c ∈ childTail p s, c = 47 ∨ c ∈ p ∨ c ∈ s := by
  intro c hc
  rcases HostLemmas.mem_joinC hc with rfl | ⟨seg, hseg, hcs⟩
  · exact Or.inl rfl
  · rcases List.mem_append.mp hseg with h | h
    · exact Or.inr (Or.inl (PathLemmas.splitOn_sub 47 p seg (stripTrail_sub _ seg h) c hcs))
    · exact Or.inr (Or.inr (PathLemmas.splitOn_sub 47 s seg h c hcs))

theorem childTail_noDots (p s : Str) (hp : FixLemmas.NoDotSegs (47 :: p)) (hs : 46 ∉ s) :
    FixLemmas.NoDotSegs (47 :: childTail p s) := by
  have hne : stripTrail (splitOn 47 p) ++ splitOn 47 s ≠ [] := by
    simp [PathLemmas.splitOn_ne_nil]
  have hno : ∀ seg ∈ stripTrail (splitOn 47 p) ++ splitOn 47 s, 47 ∉ seg := by
    intro seg hseg
    rcases List.mem_append.mp hseg with h | h
    · exact PathLemmas.splitOn_no_sep 47 p seg (stripTrail_sub _ seg h)
    · exact PathLemmas.splitOn_no_sep 47 s seg h
  intro seg hseg
  have : splitOn 47 (47 :: childTail p s) = [] :: (stripTrail (splitOn 47 p) ++ splitOn 47 s) := by
    simp only [splitOn, ↓reduceIte, childTail, PathLemmas.splitOn_joinC _ hne hno]
  rw [this] at hseg
  rcases List.mem_cons.mp hseg with rfl | hseg
  · exact ⟨by decide, by decide⟩
  · rcases List.mem_append.mp hseg with h | h
    · exact hp seg (by simp [splitOn, stripTrail_sub _ seg h])
    · exact FixLemmas.noDotSegs_of_no_dot hs seg h

section child
variable (e : Env) (u : Url) (user pw : Option Str) (H : Str) (port : Option Nat)
  (p : Str) (kvs : List (Str × Str)) (f : Str) (st : Stores e u user pw H port p kvs f)
include st

/-- `u / s` (one segment text `s`, not starting with "/", without '.'): the new path is the encoding of the
    decoded old path (without a trailing empty segment) joined with `s`; query and fragment are dropped -/
theorem stores_child (s : Str) (hpath : u.path = q e Gen.PATH_QUOTER (47 :: p))
    (hp : PyStr (47 :: p)) (hn : NoSurrogate (47 :: p)) (hs : PyStr s) (hsn : NoSurrogate s)
    (hs0 : s.head? ≠ some 47) (hdot : 46 ∉ s) (hH : H ≠ []) :
    ∃ w, makeChild e u [s] false = .ok w ∧ w.scheme = u.scheme ∧
      w.path = q e Gen.PATH_QUOTER (47 :: childTail p s) ∧
      Stores e w user pw H port (childTail p s) [] [] := by
  have hf := sepMap_wq e.b
  have hnl : u.netloc.isEmpty = false := by
    rw [st.netloc]; exact HumanLemmas.isEmpty_false (authText_ne_nil _ _ hH _)
  have hgood : PyStr (47 :: childTail p s) ∧ NoSurrogate (47 :: childTail p s) := by
    have key : ∀ c ∈ 47 :: childTail p s, c ≤ 0x10FFFF ∧ isSurrogate c = false := by
      intro c hc
      rcases List.mem_cons.mp hc with rfl | hc
      · decide
      · rcases childTail_mem p s c hc with rfl | h | h
        · decide
        · exact ⟨hp c (by simp [h]), hn c (by simp [h])⟩
        · exact ⟨hs c h, hsn c h⟩
    exact ⟨fun c hc => (key c hc).1, fun c hc => (key c hc).2⟩
  have hqs : q e Gen.PATH_QUOTER s = s.flatMap (wq (Gen.PATH_QUOTER.tab e.b)) := q_path_flatMap e s hs hsn
  have hqp : u.path = (47 :: p).flatMap (wq (Gen.PATH_QUOTER.tab e.b)) := by
    rw [hpath, q_path_flatMap e _ hp hn]
  have hd : mem 46 (q e Gen.PATH_QUOTER s) = false := by
    rw [mem_false_iff]; exact C13_path_quoter_no_dot e s hs hdot
  have hT := PathLemmas.splitOn_ne_nil 47 p
  have hbase : base u = ([] :: stripTrail (splitOn 47 p)).map (fun x => x.flatMap (wq (Gen.PATH_QUOTER.tab e.b))) := by
    have hpe : u.path.isEmpty = false := by rw [hpath, q_path_cons_slash e p hp hn]; rfl
    unfold base
    rw [hpe, hqp, splitOn_flatMap hf]
    simp only [Bool.false_eq_true, if_false]
    rw [stripTrail_map _ (flatMap_eq_nil hf)]
    have : splitOn 47 (47 :: p) = [] :: splitOn 47 p := by simp [splitOn]
    rw [this, stripTrail_cons_nil _ hT]
  refine ⟨_, makeChild_one e u s hs0, ?_, ?_⟩
  · rw [hd]; simp [childOf, fromParts]
  · rw [hd]
    suffices hsuff : (childOf u (splitOn 47 (q e Gen.PATH_QUOTER s)) false).path =
          q e Gen.PATH_QUOTER (47 :: childTail p s) ∧
        Stores e (childOf u (splitOn 47 (q e Gen.PATH_QUOTER s)) false) user pw H port (childTail p s) [] [] from
      hsuff
    have hM : base u ++ splitOn 47 (q e Gen.PATH_QUOTER s) =
        ([] :: (stripTrail (splitOn 47 p) ++ splitOn 47 s)).map
          (fun x => x.flatMap (wq (Gen.PATH_QUOTER.tab e.b))) := by
      rw [hbase, hqs, splitOn_flatMap hf]; simp
    have hroot : root u.netloc (base u ++ splitOn 47 (q e Gen.PATH_QUOTER s)) =
        base u ++ splitOn 47 (q e Gen.PATH_QUOTER s) := by
      rw [hM]; simp [root]
    have hnew : joinC 47 (base u ++ splitOn 47 (q e Gen.PATH_QUOTER s)) =
        q e Gen.PATH_QUOTER (47 :: childTail p s) := by
      rw [hM, joinC_map hf, q_path_flatMap e _ hgood.1 hgood.2]
      congr 1
      have hne : stripTrail (splitOn 47 p) ++ splitOn 47 s ≠ [] := by simp [PathLemmas.splitOn_ne_nil]
      rw [PathLemmas.joinC_cons, List.nil_append, PathLemmas.flatF_eq_joinC _ hne]
      rfl
    simp only [childOf, hnl, Bool.false_eq_true, Bool.not_false, Bool.or_true, if_true, hroot, hnew]
    exact ⟨rfl, st.netloc, fun pr h => (by cases h), Or.inl rfl, rfl, rfl⟩

end child

end childsec

section ctor
open FixLemmas HostLemmas

/-! ## the constructor on the canonical string of encoded components -/

theorem query_sep_canon : ∀ b : Backend, (Gen.QUERY_REQUOTER.tab b).safe 61 = true ∧
    (Gen.QUERY_REQUOTER.tab b).safe 38 = true ∧ (Gen.QUERY_REQUOTER.tab b).qs = true := by
  intro b; cases b <;> decide +kernel

theorem canon_single (b : Backend) (c : Nat) (h : (Gen.QUERY_REQUOTER.tab b).safe c = true) (h37 : c ≠ 37)
    (h32 : c ≠ 32) : Canon (Gen.QUERY_REQUOTER.tab b) [c] :=
  .lit c [] h h37 (fun hx => h32 hx.2) .nil

theorem canon_pairText (b : Backend) (p : Str × Str) (hg : GoodText p.1 ∧ GoodText p.2) :
    Canon (Gen.QUERY_REQUOTER.tab b) (pairText b p) := by
  unfold pairText
  exact canon_append (canon_append (C04_partner_canon b p.1 hg.1.1).2.2.2.1
    (canon_single b 61 (query_sep_canon b).1 (by decide) (by decide))) (C04_partner_canon b p.2 hg.2.1).2.2.2.1

theorem canon_flatC (b : Backend) (ps : List (Str × Str)) (hg : GoodPairs ps) :
    Canon (Gen.QUERY_REQUOTER.tab b) (HostLemmas.flatC 38 (ps.map (pairText b))) := by
  induction ps with
  | nil => exact .nil
  | cons p ps ih =>
    simp only [List.map_cons, HostLemmas.flatC_cons]
    have := canon_append (canon_single b 38 (query_sep_canon b).2.1 (by decide) (by decide))
      (canon_append (canon_pairText b p (hg p (by simp))) (ih (fun x hx => hg x (by simp [hx]))))
    simpa using this

/-- the query text `build` stores is canonical for the QUERY_REQUOTER -/
theorem canon_qtext (b : Backend) (ps : List (Str × Str)) (hg : GoodPairs ps) :
    Canon (Gen.QUERY_REQUOTER.tab b) (qtext b ps) := by
  unfold qtext
  cases ps with
  | nil => exact .nil
  | cons p ps =>
    rw [List.map_cons, HostLemmas.joinC_cons]
    exact canon_append (canon_pairText b p (hg p (by simp))) (canon_flatC b ps (fun x hx => hg x (by simp [hx])))

theorem userInfoOK_quoted (e : Env) (user pw : Option Str) (hu : UText user)
    (hune : ∀ s, user = some s → s ≠ []) (hw : UText pw) :
    UserInfoOK e.b (user.map (q e Gen.QUOTER)) (pw.map (q e Gen.QUOTER)) where
  user := by
    intro s hs
    cases user with
    | none => cases hs
    | some t =>
      simp only [Option.map_some, Option.some.injEq] at hs
      subst hs
      exact ⟨quoter_ne_nil e t (hu t rfl).1 (hu t rfl).2 (hune t rfl), (C04_partner_canon e.b t (hu t rfl).1).1⟩
  pw := by
    intro s hs
    cases pw with
    | none => cases hs
    | some t =>
      simp only [Option.map_some, Option.some.injEq] at hs
      subst hs
      exact (C04_partner_canon e.b t (hw t rfl).1).1

/-- the text of the fragment `build` stores -/
def fragText (e : Env) (f : Str) : Str := if f.isEmpty then f else q e Gen.FRAGMENT_QUOTER f

theorem compOK_encoded (e : Env) (p : Str) (kvs : List (Str × Str)) (f : Str)
    (hp : PyStr (47 :: p)) (hn : NoSurrogate (47 :: p)) (hnorm : normalizePath (47 :: p) = 47 :: p)
    (hg : GoodPairs kvs) (hf : PyStr f) :
    CompOK e.b (q e Gen.PATH_QUOTER (47 :: p)) (qtext e.b kvs) (fragText e f) where
  rooted := Or.inr ⟨_, q_path_cons_slash e p hp hn⟩
  pathC := (C04_partner_canon e.b _ hp).2.1
  norm := fun _ => by rw [path_norm_commute e p hp hn, hnorm]
  nonempty := fun h => by rw [q_path_cons_slash e p hp hn] at h; cases h
  queryC := canon_qtext e.b kvs hg
  fragmentC := by
    unfold fragText
    split
    · rename_i h; rw [List.isEmpty_iff.mp h]; exact .nil
    · exact (C04_partner_canon e.b _ hf).2.2.2.2

/-- `URL(s)` for the string `s` = scheme "://" authority path "?" query "#" fragment whose components are
    the encodings of decoded components: the URL object, with its cache pre-fill -/
theorem ctor_encoded (e : Env) (sc : Str) (user pw : Option Str) (H : Str) (port : Option Nat)
    (p : Str) (kvs : List (Str × Str)) (f : Str)
    (vs : ValidScheme sc) (hH : HostFix e.o H) (hport : ∀ x, port = some x → x ≤ 65535)
    (hu : UText user) (hune : ∀ s, user = some s → s ≠ []) (hw : UText pw)
    (hp : PyStr (47 :: p)) (hn : NoSurrogate (47 :: p)) (hnorm : normalizePath (47 :: p) = 47 :: p)
    (hg : GoodPairs kvs) (hf : PyStr f) :
    encodeUrl e (composeUrl sc (authText (user.map (q e Gen.QUOTER)) (pw.map (q e Gen.QUOTER)) H port)
        (q e Gen.PATH_QUOTER (47 :: p)) (qtext e.b kvs) (fragText e f)) =
      .ok (urlOf sc (authText (user.map (q e Gen.QUOTER)) (pw.map (q e Gen.QUOTER)) H port)
        (q e Gen.PATH_QUOTER (47 :: p)) (qtext e.b kvs) (fragText e f)
        (preOf (user.map (q e Gen.QUOTER)) (pw.map (q e Gen.QUOTER)) H port)) := by
  have hui := userInfoOK_quoted e user pw hu hune hw
  have hc := compOK_encoded e p kvs f hp hn hnorm hg hf
  have hsplit := splitUrl_compose e.o sc _ _ _ _ (schemeOK_of_valid vs) (authText_chars (port := port) hui hH)
    (checkBrackets_authText port hui hH) hc.rooted
    (canon_path_chars hc.pathC) (canon_query_chars hc.queryC) (canon_fragment_chars hc.fragmentC)
  rw [encodeUrl_of e _ _ _ _ hsplit (netBlock_authority e sc hui hH hport)]
  simp only [finishUrl, encPath_fixed e _ _ _ _ hc, encQuery_fixed e hc.queryC, encFragment_fixed e hc.fragmentC]

theorem stores_ctor (e : Env) (sc : Str) (user pw : Option Str) (H : Str) (port : Option Nat)
    (p : Str) (kvs : List (Str × Str)) (f : Str) :
    Stores e (urlOf sc (authText (user.map (q e Gen.QUOTER)) (pw.map (q e Gen.QUOTER)) H port)
        (q e Gen.PATH_QUOTER (47 :: p)) (qtext e.b kvs) (fragText e f)
        (preOf (user.map (q e Gen.QUOTER)) (pw.map (q e Gen.QUOTER)) H port)) user pw H port p kvs f :=
  ⟨rfl, fun pr h => (by cases h; rfl), Or.inl rfl, rfl, rfl⟩

/-- from the accessors of a URL object to `Stores` -/
theorem stores_of_accessors (e : Env) (u : Url) (user pw : Option Str) (H : Str) (port : Option Nat)
    (p : Str) (kvs : List (Str × Str)) (f : Str)
    (hU : rawUser e u = .ok (user.map (q e Gen.QUOTER))) (hP : rawPassword e u = .ok (pw.map (q e Gen.QUOTER)))
    (hH : rawHost e u = .ok (some H)) (hE : explicitPort e u = .ok port)
    (hnl : u.netloc = authText (user.map (q e Gen.QUOTER)) (pw.map (q e Gen.QUOTER)) H port)
    (hpath : u.path = q e Gen.PATH_QUOTER (47 :: p) ∨ (u.path = [] ∧ p = []))
    (hquery : u.query = qtext e.b kvs) (hfrag : u.fragment = fragText e f) :
    Stores e u user pw H port p kvs f := by
  refine ⟨hnl, ?_, hpath, hquery, hfrag⟩
  intro pr hpr
  have hnet : net e u = .ok pr := by unfold net; rw [hpr]; rfl
  unfold rawUser at hU; unfold rawPassword at hP; unfold rawHost at hH; unfold explicitPort at hE
  rw [hnet] at hU hP hH hE
  simp only [Functor.map, Except.map, Except.ok.injEq] at hU hP hH hE
  cases pr
  simp only at hU hP hH hE
  subst hU hP hH hE
  rfl

/-! ## the stored host of every kind is a fixed point of `_encode_host` -/

theorem hostFix_plain (o : Oracles) {h : Str} (ph : PlainHost h) : HostFix o h where
  ok := plain_hostOK ph
  chars := by
    intro c hc
    have hlt : c < 128 := by
      have ha := ph.ascii
      simp only [isAscii, List.all_eq_true, decide_eq_true_eq] at ha
      exact ha c hc
    have hge : 33 ≤ c := by
      rcases notRegName_spec _ ph.reg c hc with rfl | hm
      · omega
      · have := regName_gt32 c (GenTabs.mem_iff.mp hm); omega
    refine ⟨hge, hlt, ?_⟩
    have a1 : c ≠ 47 := fun e => plain_avoid ph (d := 47) (by decide) (e ▸ hc)
    have a2 : c ≠ 63 := fun e => plain_avoid ph (d := 63) (by decide) (e ▸ hc)
    have a3 : c ≠ 35 := fun e => plain_avoid ph (d := 35) (by decide) (e ▸ hc)
    simp [Rfc.isDelim3, a1, a2, a3]
  notV := fun h58 => absurd h58 (plain_avoid ph (by decide))
  enc := by rw [plain_bracket ph]; exact encodeHost_plain o h false ph

theorem hostFix_ipv6_zone (e : Env) {a : Str} {h8 : List Nat} {zs : Str} (ha : parseIPv6 a = some h8)
    (h37 : 37 ∉ a) (hz : ZoneOK zs) : HostFix e.o (ipv6ToStr h8 ++ zs) := by
  have hrt := hostRT_ipv6 e ha h37 hz
  have hch := C16_ipv6_text_lower h8
  have hzc := zone_all hz
  refine ⟨hrt.okH, ?_, hrt.disp.notV, hrt.enc⟩
  intro c hc
  have : 32 < c ∧ c < 128 ∧ c ≠ 47 ∧ c ≠ 63 ∧ c ≠ 35 := by
    rcases List.mem_append.mp hc with hc | hc
    · rcases hch c hc with rfl | hd | hd
      · omega
      · simp [isDigitC] at hd; omega
      · omega
    · have := hzc c hc; omega
  refine ⟨by omega, this.2.1, ?_⟩
  simp [Rfc.isDelim3, this.2.2.1, this.2.2.2.1, this.2.2.2.2]

theorem hostKind_fix {e : Env} {h H D : Str} (k : HostKind e h H D) : HostFix e.o H := by
  cases k with
  | plain ph _ => exact hostFix_plain e.o ph
  | idn b ph => exact hostFix_plain e.o ph
  | ipv4 h4 => exact hostFix_ipv4 e.o h4
  | ipv6 ha h37 hz => exact hostFix_ipv6_zone e ha h37 hz


end ctor

end HumanMore
end Yarl
