/-
  NetShape.lean — helper lemmas for C03Netloc.lean: which INPUT host texts `_encode_host` maps to a stored
  host satisfying `HostFix` (the "syntactically valid host" of property C03), and the shape of the
  authority that the constructor / `build` write from a split input authority.
-/
import YarlModel
import YarlProofs.Lemmas.BuildFix
import YarlProofs.C03Reach
import YarlProofs.C16Host
set_option linter.unusedVariables false
set_option linter.unusedSimpArgs false
namespace Yarl
namespace NetShape
open HostLemmas NetlocLemmas FixLemmas MiscLemmas

/-! ## characters of host texts -/

/-- a character that may stand in a stored host: visible ASCII, none of `/ ? # @ [ ]` (':' allowed) -/
def textChar (c : Nat) : Bool :=
  decide (33 ≤ c) && decide (c < 128) && !(c == 47 || c == 63 || c == 35 || c == 64 || c == 91 || c == 93)

/-- … and not ':' either: a character of a name / IPv4 text (any case, '%' allowed) -/
def nameChar (c : Nat) : Bool := textChar c && !(c == 58)

theorem textChar_spec {c : Nat} (h : textChar c = true) :
    33 ≤ c ∧ c < 128 ∧ c ≠ 47 ∧ c ≠ 63 ∧ c ≠ 35 ∧ c ≠ 64 ∧ c ≠ 91 ∧ c ≠ 93 := by
  unfold textChar at h
  simp at h
  omega

theorem nameChar_spec {c : Nat} (h : nameChar c = true) :
    33 ≤ c ∧ c < 128 ∧ c ≠ 47 ∧ c ≠ 63 ∧ c ≠ 35 ∧ c ≠ 64 ∧ c ≠ 91 ∧ c ≠ 93 ∧ c ≠ 58 := by
  unfold nameChar textChar at h
  simp at h
  omega

theorem nameChar_text {c : Nat} (h : nameChar c = true) : textChar c = true := by
  unfold nameChar at h
  simp only [Bool.and_eq_true] at h
  exact h.1

theorem textChar_fix {c : Nat} (h : textChar c = true) : 33 ≤ c ∧ c < 128 ∧ Rfc.isDelim3 c = false := by
  have := textChar_spec h
  refine ⟨this.1, this.2.1, ?_⟩
  simp [Rfc.isDelim3]
  omega

theorem nameChar_lowerC {c : Nat} (h : nameChar c = true) : nameChar (lowerC c) = true := by
  have := nameChar_spec h
  unfold nameChar textChar lowerC
  split <;> simp <;> omega

theorem hostChar_nameChar {c : Nat} (h : hostChar c = true) : nameChar c = true := by
  have := hostChar_spec h
  unfold nameChar textChar
  simp
  omega

theorem isAscii_of_text {s : Str} (h : ∀ c ∈ s, textChar c = true) : isAscii s = true := by
  unfold isAscii
  rw [List.all_eq_true]
  intro c hc
  simpa using (textChar_spec (h c hc)).2.1

/-! ## `HostFix` families -/

/-- a host without ':' that `_encode_host` returns unchanged -/
theorem hostFix_of_self (o : Oracles) {h : Str} (hne : h ≠ []) (hch : ∀ c ∈ h, nameChar c = true)
    (henc : encodeHost o h false = .ok h) : HostFix o h := by
  have n (c : Nat) (hc : nameChar c = false) : c ∉ h := by
    intro hm; rw [hch c hm] at hc; exact Bool.noConfusion hc
  refine ⟨⟨hne, n 64 (by decide), n 91 (by decide), n 93 (by decide)⟩,
    fun c hc => textChar_fix (nameChar_text (hch c hc)), fun h58 => absurd h58 (n 58 (by decide)), ?_⟩
  rw [bracket_of_no_colon (n 58 (by decide))]
  exact henc

/-- EVERY non-empty lower-case host text without ':' is a fixed point of `_encode_host`: a reg-name (ending in a
    digit or not, with or without a trailing dot), or an IPv4 literal with or without zone -/
theorem hostFix_lower (o : Oracles) {h : Str} (hne : h ≠ []) (hch : ∀ c ∈ h, nameChar c = true)
    (hlow : lower h = h) : HostFix o h := by
  have n58 : 58 ∉ h := by
    intro hm; have := nameChar_spec (hch 58 hm); omega
  exact hostFix_of_self o hne hch
    (encodeHost_ascii_self o (isAscii_of_text (fun c hc => nameChar_text (hch c hc))) hlow n58)

theorem lower_of_hostChar {h : Str} (hch : ∀ c ∈ h, hostChar c = true) : lower h = h :=
  lower_of_no_upper (fun c hc => (hostChar_spec (hch c hc)).2.2.1)

/-- `HostBasic` without its last-character clause -/
theorem hostFix_hostChar (o : Oracles) {h : Str} (hne : h ≠ []) (hch : ∀ c ∈ h, hostChar c = true) :
    HostFix o h :=
  hostFix_lower o hne (fun c hc => hostChar_nameChar (hch c hc)) (lower_of_hostChar hch)

/-- a reg-name that ENDS IN A DIGIT ("h1", "example.com1", "1.2.3.4.5", "256.1.1.1"): `_encode_host` tries
    `ip_address`, which fails, and falls through to lower-casing -/
theorem hostFix_regname_digit (o : Oracles) {h : Str} (hne : h ≠ []) (hch : ∀ c ∈ h, hostChar c = true)
    (l : Nat) (hl : h.getLast? = some l) (hd : isDigitC l = true)
    (h4 : parseIPv4 (partition 37 h).1 = none) :
    HostFix o h ∧ looksIP o h = .ok true ∧ ipRes h = none :=
  ⟨hostFix_hostChar o hne hch, looksIP_of_digit o hl hd, by
    have n58 : 58 ∉ h := fun hm => by have := hostChar_spec (hch 58 hm); omega
    simp [ipRes, parseIP_none_of n58 h4]⟩

/-- a host with a trailing dot ("example.com.", also "1.2.3.4.") -/
theorem hostFix_trailing_dot (o : Oracles) {h : Str} (hch : ∀ c ∈ h, hostChar c = true) :
    HostFix o (h ++ [46]) := by
  refine hostFix_hostChar o (by simp) ?_
  intro c hc
  rcases List.mem_append.1 hc with hc | hc
  · exact hch c hc
  · simp only [List.mem_cons, List.not_mem_nil, or_false] at hc
    subst hc; decide

/-- IPv6 literal WITH a zone id: the stored host is the compressed address, '%', and the zone verbatim -/
theorem hostFix_ipv6_zone (o : Oracles) (h8 : List Nat) (hl : h8.length = 8) (hx : ∀ x ∈ h8, x < 65536)
    (z : Str) (hz : ∀ c ∈ z, textChar c = true) : HostFix o (ipv6ToStr h8 ++ 37 :: z) := by
  have hrt := C16_ipv6_roundtrip h8 hl hx
  have hch := C16_ipv6_text_lower h8
  obtain ⟨n37, n46⟩ := C16_ipv6_text_no_pct_dot h8
  have hcolon0 : 58 ∈ ipv6ToStr h8 := parseIPv6_colon hrt
  have hcolon : 58 ∈ ipv6ToStr h8 ++ 37 :: z := List.mem_append_left _ hcolon0
  have hall : ∀ c ∈ ipv6ToStr h8 ++ 37 :: z, textChar c = true := by
    intro c hc
    rcases List.mem_append.1 hc with hc | hc
    · rcases hch c hc with rfl | hd | hd
      · decide
      · simp [isDigitC] at hd
        unfold textChar; simp; omega
      · unfold textChar; simp; omega
    · rcases List.mem_cons.1 hc with rfl | hc
      · decide
      · exact hz c hc
  have n (c : Nat) (hc : textChar c = false) : c ∉ ipv6ToStr h8 ++ 37 :: z := by
    intro hm; rw [hall c hm] at hc; exact Bool.noConfusion hc
  refine ⟨⟨by simp, n 64 (by decide), n 91 (by decide), n 93 (by decide)⟩,
    fun c hc => textChar_fix (hall c hc), ?_, ?_⟩
  · intro _ hv
    have hm : 118 ∈ ipv6ToStr h8 := by
      cases hs : ipv6ToStr h8 with
      | nil => rw [hs] at hcolon0; simp at hcolon0
      | cons x xs => rw [hs] at hv; simp at hv; simp [hv]
    rcases hch 118 hm with h | h | h
    · omega
    · simp [isDigitC] at h
    · omega
  · have hp : partition 37 (ipv6ToStr h8 ++ 37 :: z) = (ipv6ToStr h8, true, z) :=
      partition_append_sep 37 _ z n37
    have h4 : parseIPv4 (ipv6ToStr h8) = none := parseIPv4_none_of_no_dot _ n46
    have hres : ipRes (ipv6ToStr h8 ++ 37 :: z) = some ([91] ++ ipv6ToStr h8 ++ [37] ++ z ++ [93]) := by
      simp [ipRes, hp, parseIP, h4, hrt]
    have hb : bracket (ipv6ToStr h8 ++ 37 :: z) = [91] ++ ipv6ToStr h8 ++ [37] ++ z ++ [93] := by
      unfold bracket; rw [if_pos (mem_iff.mpr hcolon)]; simp
    rw [hb]
    exact encodeHost_ip (looksIP_of_colon o hcolon) hres (zoneBad_false _)

/-! ## input host texts -/

/-- The supported ASCII host texts AS THEY STAND IN THE INPUT (any letter case):
    * without ':' — a name or IPv4 text: non-empty, visible ASCII, none of `/ ? # @ [ ]`
      (reg-names ending in a digit or in a dot, IPv4 literals, '%' allowed);
    * with ':' — an IPv6 literal in any spelling `ipaddress` accepts, optionally followed by '%' and a zone id of
      visible ASCII characters other than `/ ? # @ [ ]`. -/
structure HostTextOK (h : Str) : Prop where
  ne : h ≠ []
  name : 58 ∉ h → ∀ c ∈ h, nameChar c = true
  ipv6 : 58 ∈ h → ∃ h8, parseIPv6 (partition 37 h).1 = some h8 ∧ ∀ c ∈ (partition 37 h).2.2, textChar c = true

/-- kind 1/2/5: a name in any case — reg-name, reg-name ending in a digit, trailing dot -/
theorem hostText_name {h : Str} (hne : h ≠ []) (hch : ∀ c ∈ h, nameChar c = true) : HostTextOK h :=
  ⟨hne, fun _ => hch, fun h58 => absurd (nameChar_spec (hch 58 h58)).2.2.2.2.2.2.2.2 (by simp)⟩

/-- kind 3: an IPv4 literal -/
theorem hostText_ipv4 {h : Str} {o4 : List Nat} (h4 : parseIPv4 h = some o4) : HostTextOK h := by
  have hch := parseIPv4_chars h4
  refine hostText_name ?_ ?_
  · rintro rfl; simp [parseIPv4, mem] at h4
  · intro c hc
    rcases hch c hc with rfl | hd
    · decide
    · simp [isDigitC] at hd
      unfold nameChar textChar; simp; omega

/-- an accepted IPv4 text has no ':' -/
theorem parseIPv4_no_colon {s : Str} {o4 : List Nat} (h : parseIPv4 s = some o4) : 58 ∉ s := by
  intro hm
  rcases parseIPv4_chars h 58 hm with h | h
  · omega
  · simp [isDigitC] at h

theorem parseIPv4_none_of_v6 {s : Str} {h8 : List Nat} (h : parseIPv6 s = some h8) : parseIPv4 s = none := by
  cases h4 : parseIPv4 s with
  | none => rfl
  | some o4 => exact absurd (parseIPv6_colon h) (parseIPv4_no_colon h4)

/-- kind 4a: an IPv6 literal (any accepted spelling) without zone -/
theorem hostText_ipv6 {h : Str} {h8 : List Nat} (h37 : 37 ∉ h) (h6 : parseIPv6 h = some h8) : HostTextOK h := by
  have hp := partition_not_mem 37 h h37
  refine ⟨?_, fun h58 => absurd (parseIPv6_colon h6) h58, fun _ => ⟨h8, by rw [hp]; exact h6, by rw [hp]; simp⟩⟩
  rintro rfl
  exact absurd (parseIPv6_colon h6) (by simp)

/-- kind 4b: an IPv6 literal with a zone id -/
theorem hostText_ipv6_zone {a z : Str} {h8 : List Nat} (h37 : 37 ∉ a) (h6 : parseIPv6 a = some h8)
    (hz : ∀ c ∈ z, textChar c = true) : HostTextOK (a ++ 37 :: z) := by
  have hp := partition_append_sep 37 a z h37
  have hc : 58 ∈ a ++ 37 :: z := List.mem_append_left _ (parseIPv6_colon h6)
  exact ⟨by simp, fun h58 => absurd hc h58, fun _ => ⟨h8, by rw [hp]; exact h6, by rw [hp]; exact hz⟩⟩

theorem bracket_of_colon {h : Str} (h58 : 58 ∈ h) : bracket h = [91] ++ h ++ [93] := by
  unfold bracket; rw [if_pos (mem_iff.mpr h58)]

/-- MAIN (host): `_encode_host(h0, validate_host=False)` of a supported host text is (the bracketed form of) a
    stored host satisfying `HostFix`; the stored host has a ':' iff the input has -/
theorem encodeHost_hostFix (o : Oracles) {h0 r : Str} (hk : HostTextOK h0) (he : encodeHost o h0 false = .ok r) :
    ∃ h, r = bracket h ∧ HostFix o h ∧ (58 ∈ h ↔ 58 ∈ h0) := by
  by_cases h58 : 58 ∈ h0
  · obtain ⟨h8, h6, hz⟩ := hk.ipv6 h58
    obtain ⟨hl, hx⟩ := parseIPv6_shape h6
    obtain ⟨_, _, hr⟩ := C16_ipv6_bracketed o h0 false h8 r (parseIPv4_none_of_v6 h6) h6 he
    have hc0 : 58 ∈ ipv6ToStr h8 := parseIPv6_colon (C16_ipv6_roundtrip h8 hl hx)
    cases hsep : (partition 37 h0).2.1 with
    | true =>
      rw [hsep] at hr
      have hc : 58 ∈ ipv6ToStr h8 ++ 37 :: (partition 37 h0).2.2 := List.mem_append_left _ hc0
      refine ⟨ipv6ToStr h8 ++ 37 :: (partition 37 h0).2.2, ?_, hostFix_ipv6_zone o h8 hl hx _ hz,
        ⟨fun _ => h58, fun _ => hc⟩⟩
      rw [hr, bracket_of_colon hc]; simp
    | false =>
      rw [hsep] at hr
      refine ⟨ipv6ToStr h8, ?_, hostFix_ipv6 o h8 hl hx, ⟨fun _ => h58, fun _ => hc0⟩⟩
      rw [hr, bracket_of_colon hc0]; simp
  · have hch := hk.name h58
    have hasc := isAscii_of_text (fun c hc => nameChar_text (hch c hc))
    have key : HostFix o r ∧ 58 ∉ r := by
      rcases encodeHost_casesV he with ⟨hres, _⟩ | ⟨hwhy, hreg⟩
      · cases hp : parseIP (partition 37 h0).1 with
        | none => simp [ipRes, hp] at hres
        | some ip =>
          cases ip with
          | v6 h8 =>
            exact absurd (partition_fst_sub 37 h0 58 (parseIPv6_colon (StrTotal.parseIP_v6 hp).2)) h58
          | v4 o4 =>
            have hrh : r = h0 := ipRes_v4_eq hp hres
            subst hrh
            exact ⟨hostFix_of_self o hk.ne hch he, h58⟩
      · obtain ⟨hrl, _⟩ := regPath_ascii hasc hreg
        subst hrl
        have hne : lower h0 ≠ [] := by
          intro h; apply hk.ne; unfold lower at h; simpa using h
        have hch' : ∀ c ∈ lower h0, nameChar c = true := by
          intro c hc
          simp only [lower, List.mem_map] at hc
          obtain ⟨d, hd, rfl⟩ := hc
          exact nameChar_lowerC (hch d hd)
        exact ⟨hostFix_lower o hne hch' (lower_idem h0), fun hm => h58 ((mem_lower 58 (by omega) h0).1 hm)⟩
    exact ⟨r, (bracket_of_no_colon key.2).symm, key.1, ⟨fun h => absurd h key.2, fun h => absurd h h58⟩⟩

/-- `_encode_host` never fails on a supported host text (validation off) -/
theorem encodeHost_total (o : Oracles) {h0 : Str} (hk : HostTextOK h0) : ∃ r, encodeHost o h0 false = .ok r := by
  by_cases h58 : 58 ∈ h0
  · obtain ⟨h8, h6, _⟩ := hk.ipv6 h58
    have hres : ∃ r, ipRes h0 = some r := by
      simp only [ipRes, parseIP, parseIPv4_none_of_v6 h6, h6, Option.map_some]
      exact ⟨_, rfl⟩
    obtain ⟨r, hr⟩ := hres
    exact ⟨r, encodeHost_ip (looksIP_of_colon o h58) hr (zoneBad_false _)⟩
  · have hasc := isAscii_of_text (fun c hc => nameChar_text (hk.name h58 c hc))
    obtain ⟨b, hb⟩ := looksIP_ascii o h0 hasc
    rw [encodeHost_eq, hb]
    simp only [bind, Except.bind, zoneBad_false, Bool.false_eq_true, if_false, regPath, hasc, if_true,
      Bool.false_and, pure, Except.pure]
    split <;> exact ⟨_, rfl⟩

/-! ### validation on -/

theorem regPathA_mono {x r : Str} (h : regPathA x true = .ok r) : regPathA x false = .ok r := by
  unfold regPathA at h ⊢
  split
  · rename_i ha
    simp only [ha, if_true, Bool.true_and] at h
    split at h
    · cases h
    · simpa using h
  · rename_i ha
    simp only [ha, Bool.false_eq_true, if_false] at h
    cases h

/-- the re-entry (fix 3fbf5b4): accepted with validation on → returned unchanged with validation off -/
theorem encodeHostA_mono {o : Oracles} {x r : Str} (h : encodeHostA o x true = .ok r) :
    encodeHostA o x false = .ok r := by
  rw [encodeHostA_eqV] at h ⊢
  cases hl : looksIP o x with
  | error e => rw [hl] at h; cases h
  | ok b =>
    rw [hl] at h
    simp only [bind, Except.bind] at h ⊢
    cases b with
    | false => simp only [Bool.false_eq_true, if_false] at h ⊢; exact regPathA_mono h
    | true =>
      simp only [if_true, ipResV_eq] at h ⊢
      cases hm : ipRes x with
      | none => rw [hm] at h; simp only [Option.map_none] at h ⊢; exact regPathA_mono h
      | some r' =>
        rw [hm] at h
        simp only [Option.map_some, zoneBad_false, Bool.false_eq_true, if_false] at h ⊢
        split at h
        · cases h
        · exact h

theorem regPath_mono {o : Oracles} {x r : Str} (h : regPath o x true = .ok r) : regPath o x false = .ok r := by
  unfold regPath at h ⊢
  split
  · rename_i ha
    simp only [ha, if_true, Bool.true_and] at h
    split at h
    · cases h
    · simpa using h
  · rename_i ha
    simp only [ha, Bool.false_eq_true, if_false] at h
    cases hi : idnaEncode o x with
    | error e => rw [hi] at h; cases h
    | ok y =>
      rw [hi] at h
      simp only [bind, Except.bind, Bool.true_and] at h ⊢
      split
      · rename_i h58
        rw [if_pos h58] at h
        exact encodeHostA_mono h
      · rename_i h58
        rw [if_neg h58] at h
        split at h
        · cases h
        · simpa using h

/-- whatever `_encode_host` accepts with validation on, it returns unchanged with validation off -/
theorem encodeHost_mono {o : Oracles} {x r : Str} (h : encodeHost o x true = .ok r) :
    encodeHost o x false = .ok r := by
  rw [encodeHost_eq] at h ⊢
  cases hl : looksIP o x with
  | error e => rw [hl] at h; cases h
  | ok b =>
    rw [hl] at h
    simp only [bind, Except.bind] at h ⊢
    cases hm : (if b = true then ipRes x else none) with
    | none => rw [hm] at h; simp only at h ⊢; exact regPath_mono h
    | some r' =>
      rw [hm] at h
      simp only [zoneBad_false, Bool.false_eq_true, if_false] at h ⊢
      split at h
      · cases h
      · exact h

theorem regNameChars_nameChar : ∀ k ∈ Gen.regNameChars, nameChar k = true := by decide

/-- a text that passes the `NOT_REG_NAME` screen after lower-casing consists of name characters -/
theorem screened_nameChar {z : Str} (h : notRegName (lower z) = false) : ∀ c ∈ z, nameChar c = true := by
  intro c hc
  have hm : lowerC c ∈ lower z := by simp only [lower, List.mem_map]; exact ⟨c, hc, rfl⟩
  have hl : nameChar (lowerC c) = true := by
    rcases notRegName_spec _ h _ hm with h37 | hr
    · rw [h37]; decide
    · exact regNameChars_nameChar _ (mem_iff.mp hr)
  have := nameChar_spec hl
  revert this
  unfold nameChar textChar lowerC
  split <;> simp <;> omega

theorem partition_nosep_rest {c : Nat} {s : Str} (h : (partition c s).2.1 = false) : (partition c s).2.2 = [] := by
  induction s with
  | nil => simp [partition]
  | cons x xs ih =>
    by_cases hx : x = c
    · subst hx; simp [partition] at h
    · simp only [partition, hx, if_false] at h ⊢
      exact ih h

/-- with validation on, every accepted non-empty ASCII host is a supported host text -/
theorem hostTextOK_of_validated (o : Oracles) {h0 r : Str} (ha : isAscii h0 = true) (hne : h0 ≠ [])
    (he : encodeHost o h0 true = .ok r) : HostTextOK h0 := by
  rcases encodeHost_casesV he with ⟨hres, hz⟩ | ⟨hwhy, hreg⟩
  · have hzone : (partition 37 h0).2.1 = true → ∀ c ∈ (partition 37 h0).2.2, nameChar c = true :=
      fun hsep => screened_nameChar (zoneBad_true_false hz hsep)
    have hj := StrTotal.partition_join 37 h0
    cases hp : parseIP (partition 37 h0).1 with
    | none => simp [ipRes, hp] at hres
    | some ip =>
      cases ip with
      | v4 o4 =>
        have h4 := StrTotal.parseIP_v4 hp
        refine hostText_name hne ?_
        intro c hc
        rw [hj] at hc
        rcases List.mem_append.1 hc with hc | hc
        · exact (hostText_ipv4 h4).name (parseIPv4_no_colon h4) c hc
        · cases hsep : (partition 37 h0).2.1 with
          | false => rw [hsep] at hc; simp at hc
          | true =>
            rw [hsep] at hc
            simp only [if_true, List.mem_cons] at hc
            rcases hc with rfl | hc
            · decide
            · exact hzone hsep c hc
      | v6 h8 =>
        obtain ⟨_, h6⟩ := StrTotal.parseIP_v6 hp
        have h58 : 58 ∈ h0 := partition_fst_sub 37 h0 58 (parseIPv6_colon h6)
        refine ⟨hne, fun h => absurd h58 h, fun _ => ⟨h8, h6, ?_⟩⟩
        intro c hc
        cases hsep : (partition 37 h0).2.1 with
        | true => exact nameChar_text (hzone hsep c hc)
        | false =>
          rw [partition_nosep_rest hsep] at hc
          simp at hc
  · obtain ⟨hrl, hv⟩ := regPath_ascii ha hreg
    simp only [Bool.true_and] at hv
    exact hostText_name hne (screened_nameChar hv)

/-- MAIN (validated host — `build(host=…)`, `with_host`): every accepted non-empty ASCII argument is
    encoded to (the bracketed form of) a stored host satisfying `HostFix` -/
theorem encodeHost_hostFix_validated (o : Oracles) {h0 r : Str} (ha : isAscii h0 = true) (hne : h0 ≠ [])
    (he : encodeHost o h0 true = .ok r) : ∃ h, r = bracket h ∧ HostFix o h := by
  obtain ⟨h, h1, h2, _⟩ := encodeHost_hostFix o (hostTextOK_of_validated o ha hne he) (encodeHost_mono he)
  exact ⟨h, h1, h2⟩

/-- (fix 3fbf5b4) a text with a ':' that the IP branch accepts under validation — the IDNA answer of a non-ASCII host
    that spells an IP literal — is a supported host text, and its canonical form is (the bracketed form of) a stored
    host satisfying `HostFix`.  No ASCII hypothesis: an IPv4 prefix is impossible (the ':' would sit in the zone, which
    is screened), and for an IPv6 prefix the zone is screened. -/
theorem hostTextOK_of_ipRes_colon {a r : Str} (h58 : 58 ∈ a) (hres : ipRes a = some r)
    (hz : zoneBad a true = false) : HostTextOK a := by
  have hzone : (partition 37 a).2.1 = true → ∀ c ∈ (partition 37 a).2.2, nameChar c = true :=
    fun hsep => screened_nameChar (zoneBad_true_false hz hsep)
  have hne : a ≠ [] := by rintro rfl; simp at h58
  have hj := StrTotal.partition_join 37 a
  cases hp : parseIP (partition 37 a).1 with
  | none => simp [ipRes, hp] at hres
  | some ip =>
    cases ip with
    | v4 o4 =>
      exfalso
      have h4 := StrTotal.parseIP_v4 hp
      rw [hj] at h58
      rcases List.mem_append.1 h58 with hc | hc
      · exact parseIPv4_no_colon h4 hc
      · cases hsep : (partition 37 a).2.1 with
        | false => rw [hsep] at hc; simp at hc
        | true =>
          rw [hsep] at hc
          simp only [if_true, List.mem_cons] at hc
          rcases hc with hc | hc
          · omega
          · exact (nameChar_spec (hzone hsep 58 hc)).2.2.2.2.2.2.2.2 rfl
    | v6 h8 =>
      obtain ⟨_, h6⟩ := StrTotal.parseIP_v6 hp
      refine ⟨hne, fun h => absurd h58 h, fun _ => ⟨h8, h6, ?_⟩⟩
      intro c hc
      cases hsep : (partition 37 a).2.1 with
      | true => exact nameChar_text (hzone hsep c hc)
      | false =>
        rw [partition_nosep_rest hsep] at hc
        simp at hc

theorem hostFix_of_ipRes_colon (o : Oracles) {a r : Str} (h58 : 58 ∈ a) (hres : ipRes a = some r)
    (hz : zoneBad a true = false) : ∃ h, r = bracket h ∧ HostFix o h := by
  have he : encodeHost o a false = .ok r := encodeHost_ip (looksIP_of_colon o h58) hres (zoneBad_false _)
  obtain ⟨h, h1, h2, _⟩ := encodeHost_hostFix o (hostTextOK_of_ipRes_colon h58 hres hz) he
  exact ⟨h, h1, h2⟩

/-! ## the authority the constructor / `build` write -/

/-- the stored authority of `u` is `[user[:pw]@]host[:port]` with canonical pieces (the data of
    `NetlocCanon.auth`, with the witnesses exposed) -/
structure AuthShape (e : Env) (u : Url) (user pw : Option Str) (host : Str) (port : Option Nat) : Prop where
  netloc : u.netloc = authText user pw host port
  userinfo : UserInfoOK e.b user pw
  fixed : HostFix e.o host
  range : ∀ p, port = some p → p ≤ 65535
  cache : u.pre = none ∨ u.pre = some (preOf user pw host port)

theorem AuthShape.canon {e : Env} {u : Url} {user pw : Option Str} {host : Str} {port : Option Nat}
    (h : AuthShape e u user pw host port) : NetlocCanon e u :=
  NetlocCanon.auth user pw host port h.netloc h.userinfo h.fixed h.range h.cache

theorem AuthShape.net {e : Env} {u : Url} {user pw : Option Str} {host : Str} {port : Option Nat}
    (h : AuthShape e u user pw host port) : net e u = .ok (preOf user pw host port) :=
  ReachFix.net_auth e u user pw host port h.netloc h.userinfo h.fixed h.range h.cache

theorem AuthShape.explicitPort {e : Env} {u : Url} {user pw : Option Str} {host : Str} {port : Option Nat}
    (h : AuthShape e u user pw host port) : explicitPort e u = .ok port := by
  unfold Yarl.explicitPort; rw [h.net]; rfl

theorem AuthShape.ne {e : Env} {u : Url} {user pw : Option Str} {host : Str} {port : Option Nat}
    (h : AuthShape e u user pw host port) : u.netloc ≠ [] := by
  rw [h.netloc]; exact makeNetloc_ne_nil id user pw h.fixed.ok.1 port

/-- the input-side notion of "syntactically valid authority": the authority text is empty, or `split_netloc`
    accepts it, it names a host of a supported kind, and a host that is not an IPv6 literal is not
    written in brackets (`hostinfo` = the text after the last '@') -/
def AuthInput (o : Oracles) (n : Str) : Prop :=
  n = [] ∨ ∃ np h0, splitNetloc o n = .ok np ∧ np.host = some h0 ∧ HostTextOK h0 ∧
    (58 ∉ h0 → 91 ∉ (rpartition 64 n).2.2)

/-- the fast path of `encode_url` (no ':' '@' '[' in the authority) agrees with `split_netloc` -/
theorem gateNp_eq (o : Oracles) {n : Str} (hne : n ≠ []) : gateNp o n = splitNetloc o n := by
  unfold gateNp
  split
  · rfl
  · rename_i hg
    simp only [Bool.or_eq_true, not_or, Bool.not_eq_true] at hg
    obtain ⟨⟨h58, h64⟩, h91⟩ := hg
    rw [splitNetloc_eq, userSplit_noAt n (mem_false_iff.mp h64)]
    have hp : hostPort n = (n, []) := by
      unfold hostPort
      simp [h91, partition_notFound 58 n (mem_false_iff.mp h58)]
    unfold finish
    simp only [hp, List.isEmpty_nil, if_true, Option.bind_none, pure, Except.pure]
    have : orNone n = some n := by
      cases n with
      | nil => exact absurd rfl hne
      | cons _ _ => rfl
    rw [this]

theorem requoteOpt_canon (e : Env) (x : Option Str) (hx : ∀ s, x = some s → PyStr s) :
    ∀ s, requoteOpt e x = some s → Canon (Gen.REQUOTER.tab e.b) s := by
  intro s hs
  cases x with
  | none => cases hs
  | some y =>
    simp only [requoteOpt, Option.map_some, Option.some.injEq] at hs
    subst hs
    split
    · rename_i hemp; rw [WfLemmas.isEmpty_eq_nil hemp]; exact Canon.nil
    · exact run_canon e.b _ rq_mem rfl y (hx y rfl)

/-- `make_netloc` (no encoding) of canonical pieces is an `authText`; a user "" is no user -/
theorem makeNetloc_authText (e : Env) (user pw : Option Str) (host : Str) (port : Option Nat)
    (hu : ∀ x, user = some x → Canon (Gen.REQUOTER.tab e.b) x) (hw : ∀ x, pw = some x → Canon (Gen.REQUOTER.tab e.b) x) :
    ∃ user', makeNetloc (Yarl.q e Gen.QUOTER) user pw (some (bracket host)) port false = authText user' pw host port ∧
      UserInfoOK e.b user' pw := by
  rw [makeNetloc_qf (Yarl.q e Gen.QUOTER) id]
  cases user with
  | none => exact ⟨none, rfl, ⟨fun s h => (by cases h), hw⟩⟩
  | some x =>
    by_cases hx : x = []
    · subst hx
      exact ⟨none, ReachFix.authText_some_nil pw host port, ⟨fun s h => (by cases h), hw⟩⟩
    · exact ⟨some x, rfl, ⟨fun s h => (by cases h; exact ⟨hx, hu x rfl⟩), hw⟩⟩

/-- the bracket-keeping step of the constructor does nothing on a `HostFix` host under the side condition -/
theorem keep_bracket {hostinfo h : Str} (hw : 58 ∉ h → 91 ∉ hostinfo) :
    (if mem 91 hostinfo && !mem 91 (bracket h) then [91] ++ bracket h ++ [93] else bracket h) = bracket h := by
  by_cases h58 : 58 ∈ h
  · have : mem 91 (bracket h) = true := by
      rw [bracket_of_colon h58]; exact mem_iff.mpr (by simp)
    simp [this]
  · have : mem 91 hostinfo = false := mem_false_iff.mpr (hw h58)
    simp [this]

/-- the authority block of `encode_url` after the split, on a supported host text -/
theorem netRest_shape (e : Env) (scheme n0 : Str) (np : NetlocParts) (h0 : Str) (netloc : Str) (pre : Option NetPre)
    (hhost : np.host = some h0) (hk : HostTextOK h0) (hwrap : 58 ∉ h0 → 91 ∉ (rpartition 64 n0).2.2)
    (hu : ∀ x, np.user = some x → PyStr x) (hp : ∀ x, np.password = some x → PyStr x)
    (hr : netRest e scheme n0 np = .ok (netloc, pre)) :
    ∃ user pw host, netloc = authText user pw host np.port ∧ UserInfoOK e.b user pw ∧ HostFix e.o host ∧
      pre = some (preOf user pw host np.port) := by
  unfold netRest at hr
  rw [hhost] at hr
  simp only [pure, Except.pure, bind, Except.bind] at hr
  cases he : encodeHost e.o h0 false with
  | error err => rw [he] at hr; cases hr
  | ok r =>
    rw [he] at hr
    obtain ⟨h, rfl, hh, hiff⟩ := encodeHost_hostFix e.o hk he
    simp only at hr
    rw [keep_bracket (fun h58 => hwrap (fun hm => h58 (hiff.2 hm)))] at hr
    have hraw : (if mem 91 (bracket h) then ((bracket h).drop 1).dropLast else bracket h) = h :=
      unbracket_bracket h hh.ok
    rw [hraw] at hr
    split at hr
    · rename_i hnone
      simp only [Bool.and_eq_true, Option.isNone_iff_eq_none] at hnone
      simp only [Except.ok.injEq, Prod.mk.injEq] at hr
      obtain ⟨hr1, hr2⟩ := hr
      refine ⟨none, none, h, ?_, ⟨fun s h => (by cases h), fun s h => (by cases h)⟩, hh, hr2.symm⟩
      rw [← hr1]
      cases np.port <;> simp [authText, makeNetloc]
    · simp only [Except.ok.injEq, Prod.mk.injEq] at hr
      obtain ⟨hr1, hr2⟩ := hr
      refine ⟨_, requoteOpt e np.password, h, ?_, ⟨?_, requoteOpt_canon e np.password hp⟩, hh, hr2.symm⟩
      · rw [← hr1, makeNetloc_qf (Yarl.q e Gen.QUOTER) id]; rfl
      · intro x hx
        obtain ⟨h1, h2⟩ := WfLemmas.orNoneBind_some.mp hx
        exact ⟨h2, requoteOpt_canon e np.user hu x h1⟩

/-- the authority block of `encode_url` on a non-empty authority naming a supported host -/
theorem netBlock_shape (e : Env) (scheme n0 : Str) (np : NetlocParts) (h0 : Str) (netloc : Str) (pre : Option NetPre)
    (hne : n0 ≠ []) (hpy : PyStr n0) (hsp : splitNetloc e.o n0 = .ok np)
    (hhost : np.host = some h0) (hk : HostTextOK h0) (hwrap : 58 ∉ h0 → 91 ∉ (rpartition 64 n0).2.2)
    (h : netBlock e scheme n0 = .ok (netloc, pre)) :
    ∃ user pw host, netloc = authText user pw host np.port ∧ UserInfoOK e.b user pw ∧ HostFix e.o host ∧
      pre = some (preOf user pw host np.port) := by
  rw [netBlock_eq, isEmpty_false hne, gateNp_eq e.o hne, hsp] at h
  simp only [Bool.false_eq_true, if_false, bind, Except.bind] at h
  obtain ⟨hu, hp⟩ := WfLemmas.splitNetloc_pyStr e.o n0 hpy np hsp
  exact netRest_shape e scheme n0 np h0 netloc pre hhost hk hwrap hu hp h

/-- `make_netloc(..., encode=True)` is `make_netloc(..., encode=False)` of the quoted pieces -/
theorem makeNetloc_encode (qf : Str → Str) (user pw : Option Str) (hb : Str) (port : Option Nat) :
    makeNetloc qf user pw (some hb) port true =
      makeNetloc qf (user.map (fun u => if u.isEmpty then [] else qf u)) (pw.map qf) (some hb) port false := by
  cases user with
  | none => cases pw <;> simp [makeNetloc]
  | some u =>
    cases pw with
    | none =>
      simp only [makeNetloc, Option.map_some, Option.map_none, Bool.and_true, Bool.and_false, Bool.false_eq_true,
        if_false]
      by_cases hu : u.isEmpty = true
      · simp [hu]
      · simp [hu]
    | some w =>
      simp only [makeNetloc, Option.map_some, if_true, Bool.false_eq_true, if_false]
      by_cases hu : u.isEmpty = true
      · simp [hu]
      · simp [hu]

theorem quoted_canon (e : Env) (x : Option Str) (hx : ∀ s, x = some s → PyStr s) :
    ∀ s, x.map (Yarl.q e Gen.QUOTER) = some s → Canon (Gen.REQUOTER.tab e.b) s := by
  intro s hs
  cases x with
  | none => cases hs
  | some y =>
    simp only [Option.map_some, Option.some.injEq] at hs
    subst hs
    exact ReachFix.q_quoter_canon e y (hx y rfl)

theorem quoted_user_canon (e : Env) (x : Option Str) (hx : ∀ s, x = some s → PyStr s) :
    ∀ s, x.map (fun u => if u.isEmpty then [] else Yarl.q e Gen.QUOTER u) = some s →
      Canon (Gen.REQUOTER.tab e.b) s := by
  intro s hs
  cases x with
  | none => cases hs
  | some y =>
    simp only [Option.map_some, Option.some.injEq] at hs
    subst hs
    split
    · exact Canon.nil
    · exact ReachFix.q_quoter_canon e y (hx y rfl)

/-- the two forms in which `build` writes the authority, for a `HostFix` host -/
theorem build_forms_shape (e : Env) (U P : Option Str) (h : Str) (port : Option Nat) (netloc : Str)
    (hU : ∀ s, U = some s → PyStr s) (hP : ∀ s, P = some s → PyStr s)
    (hnl : (if (U.isNone && P.isNone) = true
        then (pure (match port with | none => bracket h | some p => bracket h ++ [58] ++ natToStr p) : R Str)
        else pure (makeNetloc (Yarl.q e Gen.QUOTER) U P (some (bracket h)) port true)) = .ok netloc) :
    ∃ user pw, netloc = authText user pw h port ∧ UserInfoOK e.b user pw := by
  split at hnl
  · simp only [pure, Except.pure, Except.ok.injEq] at hnl
    refine ⟨none, none, ?_, ⟨fun s h => (by cases h), fun s h => (by cases h)⟩⟩
    rw [← hnl]
    cases port <;> simp [authText, makeNetloc]
  · simp only [pure, Except.pure, Except.ok.injEq] at hnl
    rw [makeNetloc_encode] at hnl
    obtain ⟨user', heq, hui⟩ := makeNetloc_authText e _ (P.map (Yarl.q e Gen.QUOTER)) h port
      (quoted_user_canon e U hU) (quoted_canon e P hP)
    exact ⟨user', _, by rw [← hnl, heq], hui⟩

/-- what `build(encoded=False)` needs of its authority arguments -/
structure BuildNetOK (e : Env) (a : BuildArgs) : Prop where
  /-- `authority=`: a Python string whose split names a supported host (`AuthInput`) -/
  authority_py : PyStr a.authority
  authority : AuthInput e.o a.authority
  /-- `user=`, `password=`: Python strings -/
  user : ∀ x, a.user = some x → PyStr x
  password : ∀ x, a.password = some x → PyStr x
  /-- `host=`: ASCII (it is validated by `build` itself; IDN hosts are out of scope here) -/
  host : isAscii a.host = true

theorem strPort_eq (scheme : Str) (port : Option Nat) :
    (match port with
      | some p => if some p = defaultPort scheme then none else some p
      | none => none) = strPort scheme port := by
  cases port <;> rfl

/-- the scheme and the authority `build(encoded=False)` writes: the scheme is the LOWERED one (`sc`, fix e21485a:
    `lower a.scheme` for an ASCII scheme, the oracle's answer otherwise), and no default port of THAT scheme is
    stored -/
theorem build_shape (e : Env) (a : BuildArgs) (u : Url) (henc : a.encoded = false) (hok : BuildNetOK e a)
    (h : build e a = .ok u) :
    ∃ sc, lowerAny e a.scheme = .ok sc ∧ u.scheme = sc ∧ ((u.netloc = [] ∧ u.pre = none) ∨
      ∃ user pw host port, AuthShape e u user pw host port ∧ ∀ p, port = some p → some p ≠ defaultPort sc) := by
  unfold build at h
  obtain ⟨_, h⟩ := WfLemmas.ite_err_ok h
  obtain ⟨_, h⟩ := WfLemmas.ite_err_ok h
  obtain ⟨hrange, h⟩ := WfLemmas.ite_err_ok h
  obtain ⟨_, h⟩ := WfLemmas.ite_err_ok h
  obtain ⟨_, h⟩ := WfLemmas.ite_err_ok h
  obtain ⟨qs, hqs, h⟩ := WfLemmas.bind_ok h
  rw [henc] at h
  rw [if_neg (by decide)] at h
  obtain ⟨sc, hsc, h⟩ := WfLemmas.bind_ok h
  obtain ⟨netloc, hnl, h⟩ := WfLemmas.bind_ok h
  obtain ⟨path, hpath, h⟩ := WfLemmas.bind_ok h
  cases h
  refine ⟨sc, hsc, rfl, ?_⟩
  simp only [fromParts]
  simp only [] at hnl
  split at hnl
  · -- authority route (a non-ASCII authority passed the NFKC screen, fix c2c2803)
    rename_i hane
    replace hnl := (BuildFix.screen_ok hnl).1
    have hane' : a.authority ≠ [] := by
      intro h0; rw [h0] at hane; simp at hane
    rcases hok.authority with h0 | ⟨np, h0, hsp, hhost, hk, hwrap⟩
    · exact absurd h0 hane'
    · rw [hsp] at hnl
      simp only [bind, Except.bind, hhost] at hnl
      cases he : encodeHost e.o h0 false with
      | error err => rw [he] at hnl; cases hnl
      | ok r =>
        rw [he] at hnl
        obtain ⟨hh, rfl, hfix, hiff⟩ := encodeHost_hostFix e.o hk he
        simp only at hnl
        rw [keep_bracket (fun h58 => hwrap (fun hm => h58 (hiff.2 hm)))] at hnl
        obtain ⟨hu, hp⟩ := WfLemmas.splitNetloc_pyStr e.o a.authority hok.authority_py np hsp
        obtain ⟨user, pw, heq, hui⟩ := build_forms_shape e np.user np.password hh (strPort sc np.port) netloc hu hp hnl
        right
        exact ⟨user, pw, hh, _, ⟨heq, hui, hfix,
          ReachFix.strPort_range sc np.port (fun p hp => splitNetloc_port_range e.o a.authority np p hsp hp),
          Or.inl rfl⟩, ReachFix.strPort_notDefault sc np.port⟩
  · split at hnl
    · -- host route
      rename_i hhne
      have hhne' : a.host ≠ [] := by
        intro h0; rw [h0] at hhne; simp at hhne
      obtain ⟨r, he, hnl⟩ := WfLemmas.bind_ok hnl
      obtain ⟨hh, rfl, hfix⟩ := encodeHost_hostFix_validated e.o hok.host hhne' he
      obtain ⟨user, pw, heq, hui⟩ := build_forms_shape e a.user a.password hh (strPort sc (a.port.map Int.toNat)) netloc hok.user hok.password hnl
      right
      refine ⟨user, pw, hh, _, ⟨heq, hui, hfix, ReachFix.strPort_range sc _ ?_, Or.inl rfl⟩,
        ReachFix.strPort_notDefault sc _⟩
      intro p hp
      cases hport : a.port with
      | none => rw [hport] at hp; cases hp
      | some i =>
        rw [hport] at hp hrange
        simp only [Option.map_some, Option.some.injEq] at hp
        simp only [Bool.not_eq_true', decide_eq_false_iff_not, Decidable.not_not] at hrange
        omega
    · simp only [pure, Except.pure, Except.ok.injEq] at hnl
      left
      exact ⟨hnl.symm, trivial⟩

/-! ## the re-parsed URL, explicitly -/

open ReachFix in
/-- `str` of a URL with a canonical authority, and the record `encode_url` makes of it -/
theorem fixed_explicit (e : Env) (u : Url) (user pw : Option Str) (host : Str) (port : Option Nat)
    (hc : CanonUrl e.b u) (hsh : AuthShape e u user pw host port) (hs : SchemeOK' u.scheme) :
    ∃ t, str e u = .ok t ∧ encodeUrl e t =
      .ok (Url.mk u.scheme (authText user pw host (strPort u.scheme port)) (C07_strPath u) u.query u.fragment
        (some (preOf user pw host (strPort u.scheme port)))) := by
  have hu := hsh.userinfo
  have hh := hsh.fixed
  have hstr := str_auth e u user pw host port hsh.netloc hsh.net
  have hne : u.netloc ≠ [] := hsh.ne
  have hne' : authText user pw host (strPort u.scheme port) ≠ [] := makeNetloc_ne_nil id user pw hh.ok.1 _
  obtain ⟨hPc, hPd, hPr⟩ := strPath_canon e.b u hc
  have hok := partsOK_build e.b u.scheme (authText user pw host (strPort u.scheme port)) (C07_strPath u)
    u.query u.fragment hs (authText_chars hu hh) (checkBrackets_authText _ hu hh) hPc hc.query hc.fragment
    (fun _ => hPr hne) (fun _ _ => hPr hne) (fun _ h2 => absurd h2 hne')
  have henc := encode_unsplit e u.scheme _ (C07_strPath u) u.query u.fragment _ hok
    (netBlock_authority e u.scheme hu hh (strPort_range u.scheme port hsh.range)) hPc hc.query hc.fragment
    (fun _ => hPd hne)
  exact ⟨_, hstr, henc⟩

theorem natToStr_inj {p q : Nat} (h : natToStr p = natToStr q) : p = q := by
  have h1 := natToStr_roundtrip p
  rw [h, natToStr_roundtrip q] at h1
  simp only [Option.some.injEq] at h1
  exact (Int.ofNat_inj.mp h1).symm

/-- the authority text determines the port -/
theorem authText_port_inj {user pw : Option Str} {h : Str} {p1 p2 : Option Nat}
    (heq : authText user pw h p1 = authText user pw h p2) : p1 = p2 := by
  rw [authText_eq, authText_eq] at heq
  have heq' := List.append_cancel_left heq
  cases p1 with
  | none =>
    cases p2 with
    | none => rfl
    | some q =>
      have := congrArg List.length heq'
      simp [hostPortStr] at this
  | some p =>
    cases p2 with
    | none =>
      have := congrArg List.length heq'
      simp [hostPortStr] at this
    | some q =>
      simp only [hostPortStr, List.append_assoc] at heq'
      have := List.append_cancel_left heq'
      simp only [List.cons_append, List.nil_append, List.cons.injEq, true_and] at this
      rw [natToStr_inj this]

theorem strPort_eq_self_iff (scheme : Str) (port : Option Nat) :
    strPort scheme port = port ↔ ∀ p, port = some p → some p ≠ defaultPort scheme := by
  cases port with
  | none => simp [strPort]
  | some p =>
    by_cases hd : some p = defaultPort scheme
    · have : strPort scheme (some p) = none := by
        show (if some p = defaultPort scheme then none else some p) = none
        rw [if_pos hd]
      rw [this]
      constructor
      · intro h; cases h
      · intro h; exact absurd hd (h p rfl)
    · have : strPort scheme (some p) = some p := by
        show (if some p = defaultPort scheme then none else some p) = some p
        rw [if_neg hd]
      rw [this]
      exact ⟨fun _ p' hp' => by cases hp'; exact hd, fun _ => rfl⟩

/-- the `==` key sees the path `str` writes as the stored path -/
theorem eqKey_path_strPath (u : Url) (n : Str) (hn : n.isEmpty = u.netloc.isEmpty) :
    (if (C07_strPath u).isEmpty && !n.isEmpty then [47] else C07_strPath u) =
      (if u.path.isEmpty && !u.netloc.isEmpty then [47] else u.path) := by
  unfold C07_strPath
  rw [hn]
  cases h1 : u.netloc.isEmpty <;> cases h2 : u.query.isEmpty <;> cases h3 : u.fragment.isEmpty <;>
    cases h4 : u.path <;> simp

end NetShape
end Yarl
