/-
  ParseLemmas.lean — the "first occurrence of c" views (`find`, `partition`, `mem`,
  `takeWhile (· ≠ c)`, `dropWhile (· ≠ c)`), the authority scan, and the
  identification of the code's partition-at-'#'-then-'?' with the left-to-right
  reading of the Appendix B regular expression.
-/
import YarlModel
namespace Yarl.ParseLemmas
open Yarl

/-! ### `mem`, `partition`, `find` as views of the first occurrence -/

theorem mem_eq (c : Nat) (s : Str) : mem c s = decide (c ∈ s) := by
  unfold mem; exact List.contains_eq_mem c s

theorem partition_eq (c : Nat) (s : Str) :
    partition c s = (s.takeWhile (· ≠ c), decide (c ∈ s), (s.dropWhile (· ≠ c)).drop 1) := by
  induction s with
  | nil => simp [partition]
  | cons x xs ih =>
    by_cases h : x = c
    · subst h; simp [partition]
    · have h' : ¬ c = x := fun e => h e.symm
      simp [partition, ih, h, h']

theorem find_eq (c : Nat) (s : Str) :
    find c s = if c ∈ s then some (s.takeWhile (· ≠ c)).length else none := by
  induction s with
  | nil => simp [find]
  | cons x xs ih =>
    by_cases h : x = c
    · subst h; simp [find]
    · have h' : ¬ c = x := fun e => h e.symm
      simp only [find, h, ↓reduceIte, ih, List.mem_cons, h', false_or]
      split <;> simp [h]

theorem take_takeWhile_length (p : Nat → Bool) (s : Str) :
    s.take (s.takeWhile p).length = s.takeWhile p := by
  conv => lhs; arg 2; rw [← List.takeWhile_append_dropWhile (p := p) (l := s)]
  exact List.take_left' rfl

theorem drop_takeWhile_length (p : Nat → Bool) (s : Str) :
    s.drop (s.takeWhile p).length = s.dropWhile p := by
  conv => lhs; arg 2; rw [← List.takeWhile_append_dropWhile (p := p) (l := s)]
  exact List.drop_left' rfl

/-- the remainder after the longest `c`-free prefix is empty or starts with `c` -/
theorem dropWhile_ne_cases (c : Nat) (s : Str) :
    (c ∉ s ∧ s.dropWhile (· ≠ c) = []) ∨
    (c ∈ s ∧ s.dropWhile (· ≠ c) = c :: (s.dropWhile (· ≠ c)).drop 1) := by
  induction s with
  | nil => simp
  | cons x xs ih =>
    by_cases h : x = c
    · subst h; simp
    · have h' : ¬ c = x := fun e => h e.symm
      simpa [List.dropWhile_cons, h, h'] using ih

theorem takeWhile_ne_of_not_mem {c : Nat} {s : Str} (h : c ∉ s) : s.takeWhile (· ≠ c) = s := by
  induction s with
  | nil => rfl
  | cons x xs ih =>
    simp only [List.mem_cons, not_or] at h
    have h' : ¬ x = c := fun e => h.1 e.symm
    have := ih h.2
    simp only [List.takeWhile_cons, ne_eq, h', not_false_eq_true, decide_true, ↓reduceIte]
    rw [show (fun x => decide (x ≠ c)) = (fun x => decide ¬ x = c) from rfl] at this
    rw [this]

theorem not_mem_takeWhile_ne (c : Nat) (s : Str) : c ∉ s.takeWhile (· ≠ c) := by
  induction s with
  | nil => simp
  | cons x xs ih =>
    by_cases h : x = c
    · subst h; simp
    · have h' : ¬ c = x := fun e => h e.symm
      simpa [List.takeWhile_cons, h, h'] using ih


theorem mem_takeWhile_imp (p : Nat → Bool) (s : Str) (x : Nat) (h : x ∈ s.takeWhile p) : p x = true := by
  induction s with
  | nil => simp at h
  | cons y ys ih =>
    rw [List.takeWhile_cons] at h
    split at h
    · rcases List.mem_cons.1 h with rfl | h
      · assumption
      · exact ih h
    · simp at h

theorem dropWhile_ne_of_not_mem {c : Nat} {s : Str} (h : c ∉ s) : s.dropWhile (· ≠ c) = [] := by
  rcases dropWhile_ne_cases c s with ⟨_, hd⟩ | ⟨hm, _⟩
  · exact hd
  · exact absurd hm h

theorem not_mem_takeWhile_of_not_mem {c : Nat} {s : Str} (p : Nat → Bool) (h : c ∉ s) : c ∉ s.takeWhile p :=
  fun hm => h (List.IsPrefix.mem hm (List.takeWhile_prefix p))

/-- `rpartition` at a character that occurs: the split at the last occurrence -/
theorem rpartition_mem {c : Nat} {s : Str} (h : c ∈ s) :
    s = (rpartition c s).1 ++ [c] ++ (rpartition c s).2.2 ∧ c ∉ (rpartition c s).2.2 := by
  have hr : c ∈ s.reverse := List.mem_reverse.2 h
  unfold rpartition
  simp only [partition_eq, hr, decide_true, ↓reduceIte]
  rcases dropWhile_ne_cases c s.reverse with ⟨hm, _⟩ | ⟨_, hd⟩
  · exact absurd hr hm
  · constructor
    · have := List.takeWhile_append_dropWhile (p := (· ≠ c)) (l := s.reverse)
      rw [hd] at this
      have := congrArg List.reverse this
      simp only [List.reverse_append, List.reverse_cons, List.reverse_reverse] at this
      exact this.symm
    · intro hm
      exact not_mem_takeWhile_ne c s.reverse (List.mem_reverse.1 hm)

/-- `rpartition` at a character that does not occur: Python gives `("", "", s)` -/
theorem rpartition_not_mem {c : Nat} {s : Str} (h : c ∉ s) : rpartition c s = ([], false, s) := by
  have hr : c ∉ s.reverse := fun hm => h (List.mem_reverse.1 hm)
  unfold rpartition
  simp only [partition_eq, hr, decide_false]
  rfl

theorem rpartition_snd_snd_of_mem_false {c : Nat} {s : Str} (h : mem c s = false) :
    (rpartition c s).2.2 = s := by
  rw [mem_eq] at h
  rw [rpartition_not_mem (by simpa using h)]

/-- the part after the last `c` is a part of the string -/
theorem mem_of_mem_rpartition_snd_snd {c x : Nat} {s : Str} (h : x ∈ (rpartition c s).2.2) : x ∈ s := by
  by_cases hc : c ∈ s
  · have := (rpartition_mem hc).1
    rw [this]; simp [h]
  · rwa [rpartition_not_mem hc] at h

theorem mem_rpartition_snd_snd_false {c x : Nat} {s : Str} (h : mem x s = false) :
    mem x (rpartition c s).2.2 = false := by
  rw [mem_eq] at h ⊢
  have h' : x ∉ s := by simpa using h
  simpa using fun hm => h' (mem_of_mem_rpartition_snd_snd hm)

/-! ### cleaning -/

theorem lstripSet_eq (chars s : Str) : lstripSet chars s = s.dropWhile (fun c => mem c chars) := by
  induction s with
  | nil => rfl
  | cons x xs ih =>
    by_cases h : mem x chars = true
    · simp [lstripSet, h, ih]
    · simp [lstripSet, h]

theorem mem_stripSet (c : Nat) : mem c Gen.stripSet = decide (c ≤ 32) := by
  by_cases h : c ≤ 32
  · have : ∀ c, c ≤ 32 → mem c Gen.stripSet = true := by decide
    simp [this c h, h]
  · have hall : ∀ x ∈ Gen.stripSet, x ≤ 32 := by decide
    have : mem c Gen.stripSet = false := by
      rw [mem_eq]
      simp only [decide_eq_false_iff_not]
      exact fun hm => h (hall c hm)
    simp [this, h]

theorem mem_removeSet (c : Nat) : (!mem c Gen.removeSet) = decide (c ≠ 9 ∧ c ≠ 10 ∧ c ≠ 13) := by
  have h1 : ∀ x ∈ Gen.removeSet, x = 9 ∨ x = 10 ∨ x = 13 := by decide
  have h2 : 9 ∈ Gen.removeSet ∧ 10 ∈ Gen.removeSet ∧ 13 ∈ Gen.removeSet := by decide
  rw [mem_eq]
  by_cases hm : c ∈ Gen.removeSet
  · have := h1 c hm
    simp only [hm, decide_true, Bool.not_true]
    symm
    simp only [decide_eq_false_iff_not]
    omega
  · have : c ≠ 9 ∧ c ≠ 10 ∧ c ≠ 13 := by
      refine ⟨?_, ?_, ?_⟩ <;> (intro e; subst e; simp [h2] at hm)
    simp [hm, this]

/-! ### the scheme scan -/

theorem splitScheme_eq (url : Str) : splitScheme url = Rfc.schemeOf Gen.schemeChars url := by
  unfold splitScheme Rfc.schemeOf
  rw [find_eq]
  rcases dropWhile_ne_cases 58 url with ⟨hm, hd⟩ | ⟨hm, hd⟩
  · simp only [hm, ↓reduceIte]
    rw [hd]
  · simp only [hm, ↓reduceIte, take_takeWhile_length]
    rw [hd]
    simp only
    have e1 : url.drop ((url.takeWhile (· ≠ 58)).length + 1) = (url.dropWhile (· ≠ 58)).drop 1 := by
      rw [← drop_takeWhile_length, List.drop_drop]
    rw [e1]
    generalize url.takeWhile (· ≠ 58) = pre
    cases pre with
    | nil => simp
    | cons a t => simp [mem]

/-! ### the authority scan -/

theorem authorityEnd_eq (body : Str) :
    authorityEnd body = (body.takeWhile (fun c => !Rfc.isDelim3 c)).length := by
  induction body with
  | nil => rfl
  | cons c t ih =>
    by_cases h : c = 47 ∨ c = 63 ∨ c = 35
    · have : Rfc.isDelim3 c = true := by simpa [Rfc.isDelim3, or_assoc] using h
      simp [authorityEnd, h, this]
    · have : Rfc.isDelim3 c = false := by simpa [Rfc.isDelim3, and_assoc] using h
      simp [authorityEnd, h, this, ih]

theorem take_authorityEnd (body : Str) :
    body.take (authorityEnd body) = body.takeWhile (fun c => !Rfc.isDelim3 c) := by
  rw [authorityEnd_eq, take_takeWhile_length]

theorem drop_authorityEnd (body : Str) :
    body.drop (authorityEnd body) = body.dropWhile (fun c => !Rfc.isDelim3 c) := by
  rw [authorityEnd_eq, drop_takeWhile_length]

theorem not_delim_mem_authority {c : Nat} (hc : Rfc.isDelim3 c = true) (body : Str) :
    c ∉ body.takeWhile (fun c => !Rfc.isDelim3 c) := by
  intro h
  have := mem_takeWhile_imp _ _ _ h
  simp [hc] at this

/-- a delimiter occurs in the body iff it occurs after the authority -/
theorem mem_body_iff {c : Nat} (hc : Rfc.isDelim3 c = true) (body : Str) :
    c ∈ body ↔ c ∈ body.dropWhile (fun c => !Rfc.isDelim3 c) := by
  have := not_delim_mem_authority hc body
  conv => lhs; rw [← List.takeWhile_append_dropWhile (p := fun c => !Rfc.isDelim3 c) (l := body)]
  rw [List.mem_append]
  exact ⟨fun h => h.resolve_left this, Or.inr⟩


/-! ### Appendix B cut in three stages -/

/-- the `(//([^/?#]*))?` group -/
def authOf (r1 : Str) : Str × Str :=
  match r1 with
  | 47 :: 47 :: r => (r.takeWhile (fun c => !Rfc.isDelim3 c), r.dropWhile (fun c => !Rfc.isDelim3 c))
  | _ => ([], r1)

/-- the `([^?#]*)(\?([^#]*))?(#(.*))?` groups: (path, query, fragment) -/
def tailOf (r2 : Str) : Str × Str × Str :=
  let path := r2.takeWhile (fun c => !Rfc.isDelim2 c)
  let r3 := r2.dropWhile (fun c => !Rfc.isDelim2 c)
  let (query, r4) :=
    match r3 with
    | 63 :: r => (r.takeWhile (· ≠ 35), r.dropWhile (· ≠ 35))
    | _ => ([], r3)
  let fragment := match r4 with
    | 35 :: r => r
    | _ => []
  (path, query, fragment)

theorem appendixB_eq (sc s : Str) :
    Rfc.appendixB sc s =
      { scheme := (Rfc.schemeOf sc s).1,
        authority := (authOf (Rfc.schemeOf sc s).2).1,
        path := (tailOf (authOf (Rfc.schemeOf sc s).2).2).1,
        query := (tailOf (authOf (Rfc.schemeOf sc s).2).2).2.1,
        fragment := (tailOf (authOf (Rfc.schemeOf sc s).2).2).2.2 } := by
  unfold Rfc.appendixB authOf tailOf
  rfl

theorem authOf_eq (r1 : Str) :
    authOf r1 = if r1.take 2 = [47, 47] then
        ((r1.drop 2).takeWhile (fun c => !Rfc.isDelim3 c), (r1.drop 2).dropWhile (fun c => !Rfc.isDelim3 c))
      else ([], r1) := by
  unfold authOf
  split
  · simp
  · rename_i h
    have : ¬ r1.take 2 = [47, 47] := by
      intro e
      apply h (r1.drop 2)
      rw [← List.take_append_drop 2 r1, e]; simp
    simp [this]

/-- a delimiter occurs in `r1` iff it occurs after the authority -/
theorem mem_authOf_rest {c : Nat} (hc : Rfc.isDelim3 c = true) (h47 : c ≠ 47) (r1 : Str) :
    c ∈ r1 ↔ c ∈ (authOf r1).2 := by
  unfold authOf
  split
  · simp only [List.mem_cons, h47, false_or]
    exact mem_body_iff hc _
  · rfl

theorem fragOf_dropWhile (t : Str) :
    (match t.dropWhile (· ≠ 35) with
      | 35 :: r => r
      | _ => []) = (t.dropWhile (· ≠ 35)).drop 1 := by
  rcases dropWhile_ne_cases 35 t with ⟨_, hd⟩ | ⟨_, hd⟩
  · rw [hd]; rfl
  · rw [hd]; simp

/-- left-to-right reading = cut at the first '#', then cut what is before it at the first '?' -/
theorem tailOf_eq (r2 : Str) :
    tailOf r2 =
      ((r2.takeWhile (· ≠ 35)).takeWhile (· ≠ 63),
       ((r2.takeWhile (· ≠ 35)).dropWhile (· ≠ 63)).drop 1,
       (r2.dropWhile (· ≠ 35)).drop 1) := by
  induction r2 with
  | nil => simp [tailOf]
  | cons c t ih =>
    by_cases h35 : c = 35
    · subst h35
      simp [tailOf, Rfc.isDelim2]
    · by_cases h63 : c = 63
      · subst h63
        have := fragOf_dropWhile t
        simp only [tailOf, Rfc.isDelim2]
        simp only [List.takeWhile_cons, List.dropWhile_cons]
        simpa using this
      · have hd : Rfc.isDelim2 c = false := by simp [Rfc.isDelim2, h35, h63]
        simp only [tailOf] at ih ⊢
        simp only [List.takeWhile_cons, List.dropWhile_cons, hd]
        simp only [Prod.mk.injEq] at ih
        simpa [h35, h63] using ih

end Yarl.ParseLemmas
