/-
  QsLemmas.lean — helper lemmas for the query read-back property (C06/C12):
  the replacing UTF-8 decoder on well-formed input, stdlib percent-decoding of
  a non-requoting query quoter's output, and `splitOn`/`joinC` for an arbitrary
  separator.
-/
import YarlProofs.Defs
import YarlProofs.Lemmas.Utf8Round
import YarlProofs.Lemmas.Readback
import YarlProofs.Lemmas.QuoteEquiv
import YarlProofs.Lemmas.OutLang
import YarlProofs.Lemmas.GenTabs
import YarlProofs.Lemmas.ParseLemmas
namespace Yarl.QsLemmas

open Readback

/-! ### `decodeReplace` on well-formed UTF-8 -/

theorem dr_1 (f c : Nat) (r : List Nat) (h : c < 0x80) :
    decodeReplaceAux (f + 1) ([c] ++ r) = c :: decodeReplaceAux f r := by
  simp [decodeReplaceAux, h]

theorem dr_2 (f c : Nat) (r : List Nat) (h1 : 0x80 ≤ c) (h2 : c < 0x800) :
    decodeReplaceAux (f + 1) ([0xC0 + c / 64, 0x80 + c % 64] ++ r) = c :: decodeReplaceAux f r := by
  have k0 : ¬ (0xC0 + c / 64 < 0x80) := by omega
  have k1 : ¬ (0xC0 + c / 64 < 0xC2) := by omega
  have k2 : 0xC0 + c / 64 < 0xE0 := by omega
  have k3 : isCont (0x80 + c % 64) = true := isCont_80 _ (by omega)
  have k4 : (0xC0 + c / 64 - 0xC0) * 64 + (0x80 + c % 64 - 0x80) = c := by omega
  simp only [List.cons_append, List.nil_append, decodeReplaceAux, k0, k1, k2, k3, k4, if_true,
    if_false]

theorem dr_3 (f c : Nat) (r : List Nat) (h1 : 0x800 ≤ c) (h2 : c < 0x10000)
    (hs : isSurrogate c = false) :
    decodeReplaceAux (f + 1) ([0xE0 + c / 4096, 0x80 + (c / 64) % 64, 0x80 + c % 64] ++ r)
      = c :: decodeReplaceAux f r := by
  have hs' : c < 0xD800 ∨ 0xDFFF < c := by
    simp only [isSurrogate, Bool.and_eq_false_iff, decide_eq_false_iff_not] at hs; omega
  have k0 : ¬ (0xE0 + c / 4096 < 0x80) := by omega
  have k0' : ¬ (0xE0 + c / 4096 < 0xC2) := by omega
  have k1 : ¬ (0xE0 + c / 4096 < 0xE0) := by omega
  have k2 : 0xE0 + c / 4096 < 0xF0 := by omega
  have k3 : isCont (0x80 + (c / 64) % 64) = true := isCont_80 _ (by omega)
  have k4 : isCont (0x80 + c % 64) = true := isCont_80 _ (by omega)
  have k5 : ¬ (0xE0 + c / 4096 = 0xE0 ∧ 0x80 + (c / 64) % 64 < 0xA0) := by omega
  have k6 : ¬ (0xE0 + c / 4096 = 0xED ∧ 0xA0 ≤ 0x80 + (c / 64) % 64) := by omega
  have k7 : (0xE0 + c / 4096 - 0xE0) * 4096 + (0x80 + (c / 64) % 64 - 0x80) * 64
      + (0x80 + c % 64 - 0x80) = c := by omega
  simp only [List.cons_append, List.nil_append, decodeReplaceAux, k0, k0', k1, k2, k3, k4, k7,
    if_true, if_false, Bool.not_true, Bool.false_or, Bool.or_eq_true, Bool.and_eq_true,
    decide_eq_true_eq, k5, k6, or_self]

theorem dr_4 (f c : Nat) (r : List Nat) (h1 : 0x10000 ≤ c) (h2 : c ≤ 0x10FFFF) :
    decodeReplaceAux (f + 1)
        ([0xF0 + c / 262144, 0x80 + (c / 4096) % 64, 0x80 + (c / 64) % 64, 0x80 + c % 64] ++ r)
      = c :: decodeReplaceAux f r := by
  have k0 : ¬ (0xF0 + c / 262144 < 0x80) := by omega
  have k0' : ¬ (0xF0 + c / 262144 < 0xC2) := by omega
  have k1 : ¬ (0xF0 + c / 262144 < 0xE0) := by omega
  have k1' : ¬ (0xF0 + c / 262144 < 0xF0) := by omega
  have k2 : 0xF0 + c / 262144 < 0xF5 := by omega
  have k3 : isCont (0x80 + (c / 4096) % 64) = true := isCont_80 _ (by omega)
  have k4 : isCont (0x80 + (c / 64) % 64) = true := isCont_80 _ (by omega)
  have k4' : isCont (0x80 + c % 64) = true := isCont_80 _ (by omega)
  have k5 : ¬ (0xF0 + c / 262144 = 0xF0 ∧ 0x80 + (c / 4096) % 64 < 0x90) := by omega
  have k6 : ¬ (0xF0 + c / 262144 = 0xF4 ∧ 0x90 ≤ 0x80 + (c / 4096) % 64) := by omega
  have k7 : (0xF0 + c / 262144 - 0xF0) * 262144 + (0x80 + (c / 4096) % 64 - 0x80) * 4096
      + (0x80 + (c / 64) % 64 - 0x80) * 64 + (0x80 + c % 64 - 0x80) = c := by omega
  simp only [List.cons_append, List.nil_append, decodeReplaceAux, k0, k0', k1, k1', k2, k3, k4, k4',
    k7, if_true, if_false, Bool.not_true, Bool.false_or, Bool.or_eq_true, Bool.and_eq_true,
    decide_eq_true_eq, k5, k6, or_self, Bool.false_eq_true]

/-- one well-formed character is decoded exactly, at the cost of one unit of fuel -/
theorem dr_char (f c : Nat) (r : List Nat) (hc : c ≤ 0x10FFFF) (hs : isSurrogate c = false) :
    decodeReplaceAux (f + 1) (utf8 c ++ r) = c :: decodeReplaceAux f r := by
  by_cases h1 : c < 0x80
  · rw [utf8_1 c h1]; exact dr_1 f c r h1
  by_cases h2 : c < 0x800
  · rw [utf8_2 c (by omega) h2]; exact dr_2 f c r (by omega) h2
  by_cases h3 : c < 0x10000
  · rw [utf8_3 c (by omega) h3 hs]; exact dr_3 f c r (by omega) h3 hs
  · rw [utf8_4 c (by omega) hc]; exact dr_4 f c r (by omega) hc

theorem dr_utf8s (t : Str) (ht : PyStr t) (hn : NoSurrogate t) :
    ∀ f, t.length < f → decodeReplaceAux f (utf8s t) = t := by
  induction t with
  | nil =>
    intro f hf
    cases f with
    | zero => simp at hf
    | succ f => simp [utf8s, decodeReplaceAux]
  | cons c rest ih =>
    intro f hf
    cases f with
    | zero => simp at hf
    | succ f =>
      rw [QuoteEquiv.utf8s_cons, dr_char f c _ (ht c (by simp)) (hn c (by simp)),
        ih (QuoteEquiv.pyStr_tail ht) (QuoteEquiv.noSurr_tail hn) f
          (by simp only [List.length_cons] at hf; omega)]

theorem length_le_utf8s (t : Str) (ht : PyStr t) (hn : NoSurrogate t) :
    t.length ≤ (utf8s t).length := by
  induction t with
  | nil => simp
  | cons c rest ih =>
    have := ih (QuoteEquiv.pyStr_tail ht) (QuoteEquiv.noSurr_tail hn)
    have hp := utf8_length_pos c (ht c (by simp)) (hn c (by simp))
    rw [QuoteEquiv.utf8s_cons]
    simp only [List.length_cons, List.length_append]
    omega

/-- ASCII bytes decode to themselves -/
theorem dr_ascii (s : List Nat) (h : ∀ c ∈ s, c < 128) :
    ∀ f, s.length < f → decodeReplaceAux f s = s := by
  induction s with
  | nil =>
    intro f hf
    cases f with
    | zero => simp at hf
    | succ f => simp [decodeReplaceAux]
  | cons c rest ih =>
    intro f hf
    cases f with
    | zero => simp at hf
    | succ f =>
      have hc : c < 0x80 := h c (by simp)
      have := dr_1 f c rest hc
      simp only [List.singleton_append] at this
      rw [this, ih (fun x hx => h x (by simp [hx])) f
        (by simp only [List.length_cons] at hf; omega)]

/-! ### stdlib percent-decoding -/

theorem utb_nil : unquoteToBytes [] = [] := by rw [unquoteToBytes]

theorem utb_plain (c : Nat) (r : Str) (hc : c ≠ 37) :
    unquoteToBytes (c :: r) = c :: unquoteToBytes r := by
  rw [unquoteToBytes]; simp [hc]

theorem utb_pct (x : Nat) (hx : x < 256) (r : Str) :
    unquoteToBytes (pct x ++ r) = x :: unquoteToBytes r := by
  rw [pct_append, unquoteToBytes]
  simp only [if_true]
  split
  · rename_i v d1 d2 rest' h
    rw [takeEscape_toHex x hx] at h
    simp only [Option.some.injEq, Prod.mk.injEq] at h
    obtain ⟨rfl, rfl, rfl, rfl⟩ := h
    rfl
  · rename_i h
    rw [takeEscape_toHex x hx] at h
    simp at h

theorem utb_flatMap_pct (bs : List Nat) (hb : ∀ x ∈ bs, x < 256) (r : Str) :
    unquoteToBytes (bs.flatMap pct ++ r) = bs ++ unquoteToBytes r := by
  induction bs with
  | nil => simp
  | cons x bs ih =>
    rw [List.flatMap_cons, List.append_assoc, utb_pct x (hb x (by simp)),
      ih (fun y hy => hb y (by simp [hy]))]
    rfl

/-- without a `%` nothing is decoded -/
theorem utb_no_pct (s : Str) (h : 37 ∉ s) : unquoteToBytes s = s := by
  induction s with
  | nil => exact utb_nil
  | cons c r ih =>
    have hc : c ≠ 37 := fun e => h (by simp [e])
    rw [utb_plain c r hc, ih (fun hm => h (by simp [hm]))]

/-! ### `plusToSpace` -/

theorem pts_append (a b : Str) : plusToSpace (a ++ b) = plusToSpace a ++ plusToSpace b := by
  simp [plusToSpace]

theorem toHex_ne43 (v : Nat) : toHex v ≠ 43 := by
  unfold toHex; split <;> omega

theorem pts_pct (x : Nat) : plusToSpace (pct x) = pct x := by
  simp [plusToSpace, pct, toHex_ne43]

theorem pts_flatMap_pct (bs : List Nat) : plusToSpace (bs.flatMap pct) = bs.flatMap pct := by
  induction bs with
  | nil => rfl
  | cons x bs ih => rw [List.flatMap_cons, pts_append, pts_pct, ih]

theorem pts_ascii (s : Str) (h : ∀ c ∈ s, c < 128) : ∀ c ∈ plusToSpace s, c < 128 := by
  intro c hc
  simp only [plusToSpace, List.mem_map] at hc
  obtain ⟨a, ha, rfl⟩ := hc
  have := h a ha
  split <;> omega

/-! ### what one character contributes -/

theorem cOut_nr_cons (q : QTab) (hnr : q.requote = false) (c : Nat) (r : Str) :
    cOut q (c :: r) = cWriteOut q c ++ cOut q r := by
  rw [cOut]; simp [hnr]

/-- percent-decoding the (plus-translated) output for one character gives its UTF-8 bytes -/
theorem utb_pts_cWriteOut (q : QTab) (hq : q.WF) (hqs : q.qs = true) (hplus : q.safe 43 = false)
    (c : Nat) (hc : c ≤ 0x10FFFF) (r : Str) :
    unquoteToBytes (plusToSpace (cWriteOut q c) ++ r) = utf8 c ++ unquoteToBytes r := by
  unfold cWriteOut
  by_cases h1 : q.qs = true ∧ c = 32
  · obtain ⟨_, rfl⟩ := h1
    simp only [hqs, and_self, if_true]
    show unquoteToBytes (32 :: r) = _
    rw [utb_plain 32 r (by decide)]
    rfl
  · simp only [h1, if_false]
    by_cases h2 : c < 128 ∧ q.safe c = true
    · have h37 : c ≠ 37 := OutLangLemmas.safe_ne37 hq h2.2
      have h43 : c ≠ 43 := by
        rintro rfl
        rw [hplus] at h2
        exact absurd h2.2 (by decide)
      simp only [h2, and_self, if_true]
      have : plusToSpace [c] = [c] := by simp [plusToSpace, h43]
      rw [this, List.singleton_append, utb_plain c r h37, utf8_1 c h2.1]
      rfl
    · simp only [h2, if_false]
      rw [writeUtf8, pts_flatMap_pct, utb_flatMap_pct _ (utf8_byte_lt c hc)]

/-! ### `splitOn` / `joinC` for an arbitrary separator -/

theorem splitOn_ne_nil (c : Nat) (s : Str) : splitOn c s ≠ [] := by
  induction s with
  | nil => simp [splitOn]
  | cons x xs ih =>
    unfold splitOn
    split
    · simp
    · split <;> simp

theorem splitOn_append (c : Nat) (a b : Str) :
    splitOn c (a ++ c :: b) = splitOn c a ++ splitOn c b := by
  induction a with
  | nil => simp [splitOn]
  | cons x a ih =>
    by_cases hx : x = c
    · subst hx
      simp only [List.cons_append, splitOn, if_true, ih]
    · simp only [List.cons_append, splitOn, hx, if_false, ih]
      cases hs : splitOn c a with
      | nil => exact absurd hs (splitOn_ne_nil c a)
      | cons p ps => simp

theorem splitOn_not_mem (c : Nat) (a : Str) (h : c ∉ a) : splitOn c a = [a] := by
  induction a with
  | nil => simp [splitOn]
  | cons x a ih =>
    have hx : x ≠ c := fun e => h (by simp [e])
    have := ih (fun hm => h (by simp [hm]))
    simp [splitOn, hx, this]

theorem joinC_cons2 (c : Nat) (p q : Str) (ps : List Str) :
    joinC c (p :: q :: ps) = p ++ c :: joinC c (q :: ps) := by
  simp [joinC, joinSep]

theorem joinC_single (c : Nat) (p : Str) : joinC c [p] = p := by
  simp [joinC, joinSep]

theorem splitOn_joinC (c : Nat) (segs : List Str) (hne : segs ≠ []) (h : ∀ p ∈ segs, c ∉ p) :
    splitOn c (joinC c segs) = segs := by
  induction segs with
  | nil => exact absurd rfl hne
  | cons p rest ih =>
    cases rest with
    | nil => rw [joinC_single]; exact splitOn_not_mem c p (h p (by simp))
    | cons q ps =>
      rw [joinC_cons2, splitOn_append, splitOn_not_mem c p (h p (by simp)),
        ih (by simp) (fun x hx => h x (by simp [hx]))]
      rfl

theorem joinC_eq_nil (c : Nat) (p : Str) (ps : List Str) (h : joinC c (p :: ps) = []) : p = [] := by
  cases ps with
  | nil => rwa [joinC_single] at h
  | cons q ps =>
    rw [joinC_cons2] at h
    simp at h

theorem filterMap_map_id {α β : Type} (f : β → Option α) (g : α → β) (l : List α)
    (h : ∀ p ∈ l, f (g p) = some p) : (l.map g).filterMap f = l := by
  induction l with
  | nil => rfl
  | cons a l ih =>
    rw [List.map_cons, List.filterMap_cons, h a (by simp), ih (fun p hp => h p (by simp [hp]))]

theorem takeWhile_all (p : Nat → Bool) (s : Str) (h : ∀ x ∈ s, p x = true) : s.takeWhile p = s := by
  induction s with
  | nil => rfl
  | cons x xs ih =>
    rw [List.takeWhile_cons, h x (by simp), if_pos rfl, ih (fun y hy => h y (by simp [hy]))]

theorem dropWhile_all (p : Nat → Bool) (s : Str) (h : ∀ x ∈ s, p x = true) : s.dropWhile p = [] := by
  induction s with
  | nil => rfl
  | cons x xs ih =>
    rw [List.dropWhile_cons, h x (by simp), if_pos rfl, ih (fun y hy => h y (by simp [hy]))]

/-! ### `str(int)` is ASCII digits with an optional sign -/

theorem natToStrAux_digits (fuel n : Nat) : ∀ c ∈ natToStrAux fuel n, 48 ≤ c ∧ c ≤ 57 := by
  induction fuel generalizing n with
  | zero =>
    intro c hc
    simp only [natToStrAux, List.mem_singleton] at hc
    omega
  | succ f ih =>
    intro c hc
    unfold natToStrAux at hc
    split at hc
    · simp only [List.mem_singleton] at hc; omega
    · rcases List.mem_append.mp hc with h | h
      · exact ih _ c h
      · simp only [List.mem_singleton] at h; omega

theorem intToStr_ascii (n : Int) : ∀ c ∈ intToStr n, c < 128 := by
  intro c hc
  unfold intToStr at hc
  split at hc
  · rcases List.mem_cons.mp hc with rfl | h
    · decide
    · have := natToStrAux_digits _ _ c h; omega
  · have := natToStrAux_digits _ _ c hc; omega

theorem pyStr_of_ascii (s : Str) (h : ∀ c ∈ s, c < 128) : PyStr s ∧ NoSurrogate s := by
  refine ⟨fun c hc => ?_, fun c hc => ?_⟩
  · have := h c hc; omega
  · have := h c hc
    simp only [isSurrogate, Bool.and_eq_false_iff, decide_eq_false_iff_not]; omega

end Yarl.QsLemmas
