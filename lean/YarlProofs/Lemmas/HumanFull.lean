/-
  HumanFull.lean — helper lemmas for C18Full.lean: the URL-level round trip of `human_repr()`
  with query pairs, an explicit port and the three kinds of host.

  Part A: the requoter on a human-quoted text followed by anything; QUERY_REQUOTER distributes
          over the '=' and '&' of the human query string.
  Part B: parsing the human form back (`split_url` on a composed string that may contain spaces
          and non-ASCII text), its authority block.
  Part C: `URL.build` and `human_repr` for the full family.
-/
import YarlProofs.C18
import YarlProofs.C12Url
import YarlProofs.Lemmas.FixLemmas
import YarlProofs.Lemmas.SubLemmas
set_option linter.unusedVariables false
set_option linter.unusedSimpArgs false
namespace Yarl
namespace HumanFull

open HumanLemmas OutLangLemmas QsLemmas QueryUrl

/-! ## Part A — the query string -/

/-- the requoter reads a human-quoted text followed by ANY text `x` as the quoter's output for the
    decoded text, followed by what it makes of `x`: a human-quoted text never ends in an incomplete
    escape (every '%' of it starts a complete `%XY`) -/
theorem cOut_human_append (o : Oracles) (t t' : QTab) (ht : t.WF) (ht' : t'.WF)
    (hreq : t.requote = true) (hnr : t'.requote = false) (uns : Str) (k : HumanCompat t t' uns)
    (s r : Str) (hs : PyStr s) (h : humanQuote o s uns = .ok r) (x : Str) :
    cOut t (r ++ x) = cOut t' s ++ cOut t x := by
  revert hs
  refine humanQuote_induction (o := o) (uns := uns)
    (fun s r => PyStr s → cOut t (r ++ x) = cOut t' s ++ cOut t x) ?_ ?_ s r h
  · intro _; rw [List.nil_append, cOut, List.nil_append]
  · intro c s p r hp _ ih hs
    rw [List.append_assoc, cOut_piece o t t' ht ht' hreq uns k (hs c (by simp)) hp (r ++ x),
      cOut_nr_cons t' hnr, ih (fun y hy => hs y (by simp [hy])), List.append_assoc]

/-- one `key=value` piece of `human_repr` -/
def humanPair (o : Oracles) : Str × Str → R Str := fun (k, v) => do
  pure ((← humanQuote o k (humanUnsafeOf "k")) ++ [61] ++ (← humanQuote o v (humanUnsafeOf "v")))

theorem humanPair_ok {o : Oracles} {p : Str × Str} {r : Str} (h : humanPair o p = .ok r) :
    ∃ rk rv, humanQuote o p.1 (humanUnsafeOf "k") = .ok rk ∧
      humanQuote o p.2 (humanUnsafeOf "v") = .ok rv ∧ r = rk ++ [61] ++ rv := by
  obtain ⟨k, v⟩ := p
  simp only [humanPair] at h
  cases h1 : humanQuote o k (humanUnsafeOf "k") with
  | error err => rw [h1] at h; cases h
  | ok rk =>
    cases h2 : humanQuote o v (humanUnsafeOf "v") with
    | error err => rw [h1, h2] at h; cases h
    | ok rv =>
      rw [h1, h2] at h
      simp only [bind, Except.bind, pure, Except.pure, Except.ok.injEq] at h
      exact ⟨rk, rv, rfl, rfl, h.symm⟩

theorem mapM_cons_ok {α β : Type} {f : α → R β} {a : α} {l : List α} {r : List β}
    (h : (a :: l).mapM f = .ok r) : ∃ b bs, f a = .ok b ∧ l.mapM f = .ok bs ∧ r = b :: bs := by
  rw [List.mapM_cons] at h
  cases h1 : f a with
  | error err => rw [h1] at h; cases h
  | ok b =>
    cases h2 : l.mapM f with
    | error err => rw [h1, h2] at h; cases h
    | ok bs =>
      rw [h1, h2] at h
      simp only [bind, Except.bind, pure, Except.pure, Except.ok.injEq] at h
      exact ⟨b, bs, rfl, rfl, h.symm⟩

theorem mapM_nil_ok {α β : Type} {f : α → R β} {r : List β}
    (h : ([] : List α).mapM f = .ok r) : r = [] := by
  rw [List.mapM_nil] at h
  cases h; rfl

/-- '=' and '&' are literals of the query requoter -/
theorem query_seps : ∀ b : Backend,
    cWriteOut (Gen.QUERY_REQUOTER.tab b) 61 = [61] ∧ cWriteOut (Gen.QUERY_REQUOTER.tab b) 38 = [38] := by
  intro b; cases b <;> decide +kernel

/-- the quoter's text of a pair, at table level -/
def pairOut (b : Backend) (p : Str × Str) : Str :=
  cOut (Gen.QUERY_PART_QUOTER.tab b) p.1 ++ [61] ++ cOut (Gen.QUERY_PART_QUOTER.tab b) p.2

theorem key_val_lists : humanUnsafeOf "v" = humanUnsafeOf "k" := gen_same_lists.2

theorem cOut_humanPair (o : Oracles) (b : Backend) (p : Str × Str) (r : Str)
    (hp : PyStr p.1 ∧ PyStr p.2) (h : humanPair o p = .ok r) (x : Str) :
    cOut (Gen.QUERY_REQUOTER.tab b) (r ++ x) = pairOut b p ++ cOut (Gen.QUERY_REQUOTER.tab b) x := by
  obtain ⟨rk, rv, h1, h2, rfl⟩ := humanPair_ok h
  rw [key_val_lists] at h2
  have ht := gen_tab_wf Gen.QUERY_REQUOTER (by decide) b
  have ht' := gen_tab_wf Gen.QUERY_PART_QUOTER (by decide) b
  have hreq : (Gen.QUERY_REQUOTER.tab b).requote = true := by rw [HumanLemmas.tab_requote]; rfl
  have hnr : (Gen.QUERY_PART_QUOTER.tab b).requote = false := by rw [HumanLemmas.tab_requote]; rfl
  have k := (gen_compat b).2.2.2
  rw [List.append_assoc, List.append_assoc,
    cOut_human_append o _ _ ht ht' hreq hnr _ k p.1 rk hp.1 h1, List.singleton_append,
    cOut_cons_ne _ (by decide : (61 : Nat) ≠ 37), (query_seps b).1,
    cOut_human_append o _ _ ht ht' hreq hnr _ k p.2 rv hp.2 h2]
  simp [pairOut]

theorem cOut_flatC_pairs (o : Oracles) (b : Backend) :
    ∀ (ps : List (Str × Str)) (parts : List Str), (∀ p ∈ ps, PyStr p.1 ∧ PyStr p.2) →
      ps.mapM (humanPair o) = .ok parts →
      cOut (Gen.QUERY_REQUOTER.tab b) (HostLemmas.flatC 38 parts) =
        HostLemmas.flatC 38 (ps.map (pairOut b)) := by
  intro ps
  induction ps with
  | nil =>
    intro parts _ h
    rw [mapM_nil_ok h]
    simp [HostLemmas.flatC, cOut]
  | cons p ps ih =>
    intro parts hg h
    obtain ⟨r, rs, h1, h2, rfl⟩ := mapM_cons_ok h
    rw [HostLemmas.flatC_cons, cOut_cons_ne _ (by decide : (38 : Nat) ≠ 37), (query_seps b).2,
      cOut_humanPair o b p r (hg p (by simp)) h1, ih rs (fun x hx => hg x (by simp [hx])) h2]
    simp

/-- KEY: the query requoter distributes over the '&' and '=' of the human query string -/
theorem cOut_joinC_pairs (o : Oracles) (b : Backend) (ps : List (Str × Str)) (parts : List Str)
    (hg : ∀ p ∈ ps, PyStr p.1 ∧ PyStr p.2) (h : ps.mapM (humanPair o) = .ok parts) :
    cOut (Gen.QUERY_REQUOTER.tab b) (joinC 38 parts) = joinC 38 (ps.map (pairOut b)) := by
  cases ps with
  | nil => rw [mapM_nil_ok h]; simp [cOut]
  | cons p ps =>
    obtain ⟨r, rs, h1, h2, rfl⟩ := mapM_cons_ok h
    rw [List.map_cons, HostLemmas.joinC_cons, HostLemmas.joinC_cons,
      cOut_humanPair o b p r (hg p (by simp)) h1,
      cOut_flatC_pairs o b ps rs (fun x hx => hg x (by simp [hx])) h2]

/-! ### run level -/

theorem pairText_eq_pairOut (b : Backend) (p : Str × Str) (hg : GoodText p.1 ∧ GoodText p.2) :
    pairText b p = pairOut b p := by
  unfold pairText pairOut
  rw [run_eq_cOut _ qpq_mem b _ hg.1.1, run_eq_cOut _ qpq_mem b _ hg.2.1, stripSurr_id _ hg.1.2,
    stripSurr_id _ hg.2.2]

theorem k_unsafe_ascii : ∀ c ∈ humanUnsafeOf "k", c < 128 := by decide

theorem humanPair_good {o : Oracles} {p : Str × Str} {r : Str} (hg : GoodText p.1 ∧ GoodText p.2)
    (h : humanPair o p = .ok r) : PyStr r ∧ NoSurrogate r := by
  obtain ⟨rk, rv, h1, h2, rfl⟩ := humanPair_ok h
  rw [key_val_lists] at h2
  obtain ⟨a1, a2⟩ := humanQuote_pyStr o _ k_unsafe_ascii _ _ hg.1.1 hg.1.2 h1
  obtain ⟨b1, b2⟩ := humanQuote_pyStr o _ k_unsafe_ascii _ _ hg.2.1 hg.2.2 h2
  constructor
  · intro x hx
    simp only [List.mem_append, List.mem_singleton] at hx
    rcases hx with (hx | rfl) | hx
    · exact a1 x hx
    · show (61 : Nat) ≤ 0x10FFFF; omega
    · exact b1 x hx
  · intro x hx
    simp only [List.mem_append, List.mem_singleton] at hx
    rcases hx with (hx | rfl) | hx
    · exact a2 x hx
    · rfl
    · exact b2 x hx

/-- the characters that never appear literally in the human query string -/
def queryBad : List Nat := [9, 10, 13, 35]

theorem queryBad_tab : ∀ d ∈ queryBad, d < 128 ∧ d ≠ 37 ∧ d ≠ 61 ∧ d ≠ 38 ∧ isUpperHexDigit d = false ∧
    (mem d (humanUnsafeOf "k") = true ∨ d < 32 ∨ d = 127) := by decide

theorem humanPair_avoid {o : Oracles} {p : Str × Str} {r : Str} (hg : PyStr p.1 ∧ PyStr p.2)
    (h : humanPair o p = .ok r) : ∀ d ∈ queryBad, d ∉ r := by
  obtain ⟨rk, rv, h1, h2, rfl⟩ := humanPair_ok h
  rw [key_val_lists] at h2
  intro d hd hm
  obtain ⟨t1, t2, t3, t4, t5, t6⟩ := queryBad_tab d hd
  simp only [List.mem_append, List.mem_singleton] at hm
  rcases hm with (hm | hm) | hm
  · exact humanQuote_avoid o _ k_unsafe_ascii _ _ hg.1 h1 d t1 t2 t5 t6 hm
  · exact t3 hm
  · exact humanQuote_avoid o _ k_unsafe_ascii _ _ hg.2 h2 d t1 t2 t5 t6 hm

theorem mapM_forall {α β : Type} {f : α → R β} (P : α → Prop) (Q : β → Prop)
    (hf : ∀ a b, P a → f a = .ok b → Q b) :
    ∀ (l : List α) (r : List β), (∀ a ∈ l, P a) → l.mapM f = .ok r → ∀ b ∈ r, Q b := by
  intro l
  induction l with
  | nil => intro r _ h; rw [mapM_nil_ok h]; intro b hb; cases hb
  | cons a l ih =>
    intro r hl h
    obtain ⟨b, bs, h1, h2, rfl⟩ := mapM_cons_ok h
    intro x hx
    rcases List.mem_cons.mp hx with rfl | hx
    · exact hf a _ (hl a (by simp)) h1
    · exact ih bs (fun y hy => hl y (by simp [hy])) h2 x hx

theorem mapM_length {α β : Type} {f : α → R β} :
    ∀ (l : List α) (r : List β), l.mapM f = .ok r → r.length = l.length := by
  intro l
  induction l with
  | nil => intro r h; rw [mapM_nil_ok h]; rfl
  | cons a l ih =>
    intro r h
    obtain ⟨b, bs, h1, h2, rfl⟩ := mapM_cons_ok h
    simp [ih bs h2]

/-- what the parser needs to know about the human query string -/
theorem humanQuery_chars (o : Oracles) (ps : List (Str × Str)) (parts : List Str)
    (hg : GoodPairs ps) (h : ps.mapM (humanPair o) = .ok parts) :
    PyStr (joinC 38 parts) ∧ NoSurrogate (joinC 38 parts) ∧ ∀ d ∈ queryBad, d ∉ joinC 38 parts := by
  have h1 := mapM_forall (f := humanPair o) (fun p => GoodText p.1 ∧ GoodText p.2)
    (fun r => PyStr r ∧ NoSurrogate r) (fun a b ha hb => humanPair_good ha hb) ps parts hg h
  have h2 := mapM_forall (f := humanPair o) (fun p => PyStr p.1 ∧ PyStr p.2)
    (fun r => ∀ d ∈ queryBad, d ∉ r) (fun a b ha hb => humanPair_avoid ha hb) ps parts
    (fun p hp => ⟨(hg p hp).1.1, (hg p hp).2.1⟩) h
  refine ⟨?_, ?_, ?_⟩
  · intro x hx
    rcases HostLemmas.mem_joinC hx with rfl | ⟨p, hp, hxp⟩
    · show (38 : Nat) ≤ 0x10FFFF; omega
    · exact (h1 p hp).1 x hxp
  · intro x hx
    rcases HostLemmas.mem_joinC hx with rfl | ⟨p, hp, hxp⟩
    · rfl
    · exact (h1 p hp).2 x hxp
  · intro d hd hm
    rcases HostLemmas.mem_joinC hm with rfl | ⟨p, hp, hxp⟩
    · exact (queryBad_tab 38 hd).2.2.2.1 rfl
    · exact h2 p hp d hd hxp

/-- KEY (run level): QUERY_REQUOTER on the human query string gives back the stored query -/
theorem query_requote_human (e : Env) (ps : List (Str × Str)) (parts : List Str)
    (hg : GoodPairs ps) (h : ps.mapM (humanPair e.o) = .ok parts) :
    q e Gen.QUERY_REQUOTER (joinC 38 parts) = qtext e.b ps := by
  obtain ⟨c1, c2, _⟩ := humanQuery_chars e.o ps parts hg h
  unfold q qtext
  rw [run_eq_cOut _ (by decide) e.b _ c1, stripSurr_id _ c2,
    cOut_joinC_pairs e.o e.b ps parts (fun p hp => ⟨(hg p hp).1.1, (hg p hp).2.1⟩) h]
  congr 1
  apply List.map_congr_left
  intro p hp
  exact (pairText_eq_pairOut e.b p (hg p hp)).symm

theorem humanQuery_nil_iff (o : Oracles) (ps : List (Str × Str)) (parts : List Str)
    (h : ps.mapM (humanPair o) = .ok parts) : joinC 38 parts = [] ↔ ps = [] := by
  cases ps with
  | nil => rw [mapM_nil_ok h]; simp
  | cons p ps =>
    obtain ⟨r, rs, h1, h2, rfl⟩ := mapM_cons_ok h
    obtain ⟨rk, rv, _, _, rfl⟩ := humanPair_ok h1
    simp [HostLemmas.joinC_cons]

/-! ## Part B — parsing the human form back -/

open NetlocLemmas

theorem lower_fix {s : Str} (h : lower s = s) : ∀ c ∈ s, ¬ (65 ≤ c ∧ c ≤ 90) := by
  induction s with
  | nil => intro c hc; cases hc
  | cons x xs ih =>
    simp only [lower, List.map_cons, List.cons.injEq] at h
    intro c hc
    rcases List.mem_cons.mp hc with rfl | hc
    · intro hx
      have h1 := h.1
      unfold lowerC at h1
      rw [if_pos hx] at h1
      omega
    · exact ih h.2 c hc

theorem schemeOK_of_valid {sc : Str} (vs : ValidScheme sc) : SchemeOK sc :=
  ⟨vs.ne, fun c hc => ⟨vs.chars c hc, lower_fix vs.low c hc⟩⟩

/-- characters the authority of the human form must not contain for `split_url` to find it again -/
def AuthCh (a : Nat) : Prop := a ≠ 47 ∧ a ≠ 63 ∧ a ≠ 35 ∧ a ≠ 9 ∧ a ≠ 10 ∧ a ≠ 13

theorem clean_qPart {s : Str} (h : Clean s) : Clean (qPart s) := by
  unfold qPart; split
  · intro c hc; cases hc
  · intro c hc
    rcases List.mem_cons.mp hc with rfl | hc
    · omega
    · exact h c hc

theorem clean_fPart {s : Str} (h : Clean s) : Clean (fPart s) := by
  unfold fPart; split
  · intro c hc; cases hc
  · intro c hc
    rcases List.mem_cons.mp hc with rfl | hc
    · omega
    · exact h c hc

theorem clean_append {a b : Str} (ha : Clean a) (hb : Clean b) : Clean (a ++ b) := by
  intro c hc
  rcases List.mem_append.mp hc with h | h
  · exact ha c h
  · exact hb c h

/-- `split_url` on a composed string whose parts may contain spaces and non-ASCII text -/
theorem splitUrl_human (o : Oracles) (sc A rp rq rf : Str) (vs : ValidScheme sc)
    (hA : ∀ a ∈ A, AuthCh a) (hb : checkBrackets A = .ok ())
    (hnf : isAscii A = false → checkNetloc o A = .ok ())
    (hp : ∀ c ∈ rp, c ≠ 63 ∧ c ≠ 35) (hc1 : Clean rp) (hq : ∀ c ∈ rq, c ≠ 35) (hcq : Clean rq)
    (hc2 : Clean rf) :
    splitUrl o (composeUrl sc A (47 :: rp) rq rf) =
      .ok { scheme := sc, netloc := A, path := 47 :: rp, query := rq, fragment := rf } := by
  have hcA : Clean A := fun c hc => ⟨(hA c hc).2.2.2.1, (hA c hc).2.2.2.2.1, (hA c hc).2.2.2.2.2⟩
  have hcp : Clean (47 :: rp) := by
    intro c hc
    rcases List.mem_cons.mp hc with rfl | hc
    · omega
    · exact hc1 c hc
  have hclean : Clean (58 :: 47 :: 47 :: (A ++ ((47 :: rp) ++ (qPart rq ++ fPart rf)))) := by
    have := clean_append hcA (clean_append hcp (clean_append (clean_qPart hcq) (clean_fPart hc2)))
    intro c hc
    simp only [List.mem_cons] at hc
    rcases hc with rfl | rfl | rfl | hc
    · omega
    · omega
    · omega
    · exact this c (by simpa using hc)
  have hB := FixLemmas.appendixB_compose sc A (47 :: rp) rq rf (schemeOK_of_valid vs)
    (fun c hc => by
      obtain ⟨h1, h2, h3, _⟩ := hA c hc
      simp [Rfc.isDelim3, h1, h2, h3])
    (Or.inr ⟨rp, rfl⟩)
    (fun c hc => by
      rcases List.mem_cons.mp hc with rfl | hc
      · omega
      · exact hp c hc) hq
  rw [ParseLemmas.splitUrl_eq]
  unfold ParseLemmas.splitUrlNF
  have hcl : cleanUrl (composeUrl sc A (47 :: rp) rq rf) = composeUrl sc A (47 :: rp) rq rf := by
    rw [FixLemmas.composeUrl_eq]
    exact cleanUrl_family sc _ vs hclean
  rw [hcl, hB]
  simp only [hb]
  cases hasc : isAscii A with
  | true => simp [pure, Except.pure]
  | false =>
    cases hne : A.isEmpty with
    | true => simp [pure, Except.pure]
    | false => simp [hnf hasc]

/-! ### the authority of the human form -/

/-- the shown host: non-empty, none of `@ [ ]` or of the characters that end / are stripped from
    an authority, not an IPvFuture look-alike -/
structure DispHost (D : Str) : Prop where
  ok : HostOK D
  chars : ∀ c ∈ D, AuthCh c
  notV : 58 ∈ D → D.head? ≠ some 118

theorem humanPart_chars {y : Option Str} (hy : HumanPart y) :
    ∀ r, y = some r → ∀ a ∈ r, AuthCh a ∧ a ≠ 58 ∧ a ≠ 64 ∧ a ≠ 91 ∧ a ≠ 93 := by
  intro r hr a ha
  have k := hy r hr
  refine ⟨⟨?_, ?_, ?_, ?_, ?_, ?_⟩, ?_, ?_, ?_, ?_⟩ <;>
    (intro e; subst e; exact k _ (by decide) ha)

theorem authCh_digit {c : Nat} (h : isDigitC c = true) : AuthCh c ∧ c ≠ 91 ∧ c ≠ 93 := by
  simp [isDigitC] at h
  unfold AuthCh
  omega

theorem authText_human_chars {usr pw' : Option Str} {D : Str} (port : Option Nat)
    (h1 : HumanPart usr) (h2 : HumanPart pw') (hD : DispHost D) :
    ∀ a ∈ authText usr pw' D port, AuthCh a := by
  apply FixLemmas.authText_forall AuthCh
  · intro s hs c hc; exact (humanPart_chars h1 s hs c hc).1
  · intro s hs c hc; exact (humanPart_chars h2 s hs c hc).1
  · exact hD.chars
  · intro c hc; exact (authCh_digit hc).1
  · unfold AuthCh; omega
  · unfold AuthCh; omega
  · intro _; unfold AuthCh; omega
  · intro _; unfold AuthCh; omega

theorem authText_human_no91 {usr pw' : Option Str} {D : Str} (port : Option Nat)
    (h1 : HumanPart usr) (h2 : HumanPart pw') (hD : HostOK D) (h58 : 58 ∉ D) :
    ∀ c ∈ authText usr pw' D port, c ≠ 91 ∧ c ≠ 93 := by
  apply FixLemmas.authText_forall (fun c => c ≠ 91 ∧ c ≠ 93)
  · intro s hs c hc; exact (humanPart_chars h1 s hs c hc).2.2.2
  · intro s hs c hc; exact (humanPart_chars h2 s hs c hc).2.2.2
  · intro c hc
    constructor
    · rintro rfl; exact hD.2.2.1 hc
    · rintro rfl; exact hD.2.2.2 hc
  · intro c hc; exact (authCh_digit hc).2
  · decide
  · decide
  · intro hm; exact absurd hm h58
  · intro hm; exact absurd hm h58

theorem checkBrackets_human {usr pw' : Option Str} {D : Str} (port : Option Nat)
    (h1 : HumanPart usr) (h2 : HumanPart pw') (hD : DispHost D) :
    checkBrackets (authText usr pw' D port) = .ok () := by
  by_cases h58 : 58 ∈ D
  · have hpre : ∀ c ∈ FixLemmas.userPrefix usr pw', c ≠ 91 :=
      FixLemmas.userPrefix_forall (fun c => c ≠ 91) usr pw'
        (fun s hs c hc => (humanPart_chars h1 s hs c hc).2.2.2.1)
        (fun s hs c hc => (humanPart_chars h2 s hs c hc).2.2.2.1) (by decide) (by decide)
    obtain ⟨tail, htail⟩ : ∃ tail, hostPortStr (bracket D) port = 91 :: (D ++ 93 :: tail) := by
      have hb : bracket D = 91 :: (D ++ [93]) := by
        unfold bracket; rw [if_pos (mem_iff.mpr h58)]; simp
      cases port with
      | none => exact ⟨[], by simp [hostPortStr, hb]⟩
      | some p => exact ⟨58 :: natToStr p, by simp [hostPortStr, hb]⟩
    have hA : authText usr pw' D port = FixLemmas.userPrefix usr pw' ++ 91 :: (D ++ 93 :: tail) := by
      rw [FixLemmas.authText_eq, htail]
    have e1 : partition 91 (authText usr pw' D port) =
        (FixLemmas.userPrefix usr pw', true, D ++ 93 :: tail) := by
      rw [hA]; exact partition_found 91 _ _ (fun hm => hpre 91 hm rfl)
    have e2 : partition 93 (D ++ 93 :: tail) = (D, true, tail) := partition_found 93 D tail hD.ok.2.2.2
    have m1 : mem 91 (authText usr pw' D port) = true := mem_iff.mpr (by rw [hA]; simp)
    have m2 : mem 93 (authText usr pw' D port) = true := mem_iff.mpr (by rw [hA]; simp)
    unfold checkBrackets
    simp only [m1, m2, e1, e2, Bool.not_true, Bool.and_false, Bool.or_self, Bool.false_eq_true, if_false, if_true]
    have hv : ¬ (D.take 1 = [118]) := by
      intro ht
      apply hD.notV h58
      cases D with
      | nil => simp at ht
      | cons x xs => simp at ht; simp [ht]
    rw [if_neg hv]
    simp [mem_iff.mpr h58]
  · have hall := authText_human_no91 port h1 h2 hD.ok h58
    exact FixLemmas.checkBrackets_plain (mem_false_iff.mpr (fun hm => (hall 91 hm).1 rfl))
      (mem_false_iff.mpr (fun hm => (hall 93 hm).2 rfl))

/-- the authority block of `encode_url` on the authority of the human form: user and password are
    re-quoted to what `build` stored, the shown host is re-encoded to the stored host -/
theorem netBlock_human (e : Env) (sc : Str) (user pw usr pw' : Option Str) (H D : Str)
    (port : Option Nat)
    (hu : UText user) (hune : ∀ s, user = some s → s ≠ []) (hw : UText pw)
    (hq1 : humanQuoteOpt e.o user (humanUnsafeOf "user") = .ok usr)
    (hq2 : humanQuoteOpt e.o pw (humanUnsafeOf "user") = .ok pw')
    (hD : HostOK D) (hH : HostOK H) (henc : encodeHost e.o D false = .ok (bracket H))
    (hcol : 58 ∈ D → 58 ∈ H) (hp : ∀ p, port = some p → p ≤ 65535) :
    FixLemmas.netBlock e sc (authText usr pw' D port) =
      .ok (authText (user.map (q e Gen.QUOTER)) (pw.map (q e Gen.QUOTER)) H port,
           some (preOf (user.map (q e Gen.QUOTER)) (pw.map (q e Gen.QUOTER)) H port)) := by
  have hp1 := humanPart_of hu hq1
  have hp2 := humanPart_of hw hq2
  have hne1 := humanPart_ne_nil hu hune hq1
  have huo : UserOK usr := fun r hr => ⟨hne1 r hr, hp1 r hr 58 (by decide)⟩
  have hne : (authText usr pw' D port).isEmpty = false :=
    HumanLemmas.isEmpty_false (makeNetloc_ne_nil id usr pw' hD.1 port)
  have hnp : FixLemmas.gateNp e.o (authText usr pw' D port) =
      .ok { user := usr, password := pw', host := some D, port := port } := by
    unfold FixLemmas.gateNp
    split
    · exact netloc_roundtrip e.o id usr pw' D port huo hD hp
    · rename_i hg
      simp only [Bool.or_eq_true, not_or, Bool.not_eq_true] at hg
      obtain ⟨rfl, rfl, rfl, hA, _⟩ := FixLemmas.authText_plain huo hg.1.1 hg.1.2 hg.2
      rw [hA]; rfl
  have hraw : (if mem 91 (bracket H) then ((bracket H).drop 1).dropLast else bracket H) = H :=
    unbracket_bracket H hH
  have hkeep : (if mem 91 (rpartition 64 (authText usr pw' D port)).2.2 && !mem 91 (bracket H)
      then [91] ++ bracket H ++ [93] else bracket H) = bracket H := by
    by_cases h58 : 58 ∈ H
    · have : mem 91 (bracket H) = true := by
        unfold bracket; rw [if_pos (mem_iff.mpr h58)]; exact mem_iff.mpr (by simp)
      simp [this]
    · have h58D : 58 ∉ D := fun h => h58 (hcol h)
      have : mem 91 (rpartition 64 (authText usr pw' D port)).2.2 = false :=
        ParseLemmas.mem_rpartition_snd_snd_false (mem_false_iff.mpr
          (fun hm => (authText_human_no91 port hp1 hp2 hD h58D 91 hm).1 rfl))
      simp [this]
  have hru := requoteOpt_human e user usr hu hq1
  have hrp := requoteOpt_human e pw pw' hw hq2
  have hor := HumanLemmas.orNone_quoted_user e user hu hune
  rw [FixLemmas.netBlock_eq, hne, hnp]
  simp only [Bool.false_eq_true, if_false, bind, Except.bind, FixLemmas.netRest, pure, Except.pure, henc,
    hkeep, hraw, hru, hrp, hor]
  rcases humanQuoteOpt_ok hq1 with ⟨rfl, rfl⟩ | ⟨s1, r1, rfl, rfl, _⟩
  · rcases humanQuoteOpt_ok hq2 with ⟨rfl, rfl⟩ | ⟨s2, r2, rfl, rfl, _⟩
    · simp only [Option.isNone_none, Bool.and_self, if_true]
      cases port <;> simp [authText, makeNetloc, preOf]
    · simp only [Option.isNone_some, Option.isNone_none, Bool.false_and, Bool.false_eq_true, if_false,
        Option.map_none, Option.map_some, authText, makeNetloc_qf (q e Gen.QUOTER) id]
  · simp only [Option.isNone_some, Bool.and_false, Bool.false_eq_true, if_false, authText,
      makeNetloc_qf (q e Gen.QUOTER) id]

/-! ## Part G — quoting a path commutes with dot-segment removal -/

section sepmap
open PathLemmas

/-- a character map that keeps '/' and '.' and never produces them (or nothing) otherwise -/
structure SepMap (f : Nat → Str) : Prop where
  slash : f 47 = [47]
  dot : f 46 = [46]
  other : ∀ c, c ≠ 47 → c ≠ 46 → f c ≠ [] ∧ 46 ∉ f c ∧ 47 ∉ f c

variable {f : Nat → Str} (hf : SepMap f)
include hf

theorem sep_no47 (c : Nat) (hc : c ≠ 47) : 47 ∉ f c := by
  by_cases h : c = 46
  · subst h; rw [hf.dot]; simp
  · exact (hf.other c hc h).2.2

theorem sep_ne_nil (c : Nat) : f c ≠ [] := by
  by_cases h1 : c = 47
  · subst h1; rw [hf.slash]; simp
  · by_cases h2 : c = 46
    · subst h2; rw [hf.dot]; simp
    · exact (hf.other c h1 h2).1

theorem splitOn_prefix (a y : Str) (ha : 47 ∉ a) :
    splitOn 47 (a ++ y) = (a ++ (splitOn 47 y).headD []) :: (splitOn 47 y).tail := by
  induction a with
  | nil =>
    obtain ⟨p, ps, hs⟩ := List.exists_cons_of_ne_nil (QsLemmas.splitOn_ne_nil 47 y)
    simp [hs]
  | cons x a ih =>
    have hx : x ≠ 47 := fun e => ha (e ▸ List.mem_cons_self)
    have := ih (fun hm => ha (List.mem_cons_of_mem _ hm))
    simp only [List.cons_append, splitOn, hx, if_false, this]

theorem splitOn_flatMap (x : Str) :
    splitOn 47 (x.flatMap f) = (splitOn 47 x).map (fun s => s.flatMap f) := by
  induction x with
  | nil => simp [splitOn]
  | cons c x ih =>
    by_cases hc : c = 47
    · subst hc
      simp only [List.flatMap_cons, hf.slash, List.singleton_append, splitOn, if_true, ih, List.map_cons,
        List.flatMap_nil]
    · rw [List.flatMap_cons, splitOn_prefix hf _ _ (sep_no47 hf c hc), ih]
      simp only [splitOn, hc, if_false]
      obtain ⟨p, ps, hs⟩ := List.exists_cons_of_ne_nil (QsLemmas.splitOn_ne_nil 47 x)
      simp [hs]

theorem flatMap_eq_nil (s : Str) : s.flatMap f = [] ↔ s = [] := by
  cases s with
  | nil => simp
  | cons c r =>
    simp only [List.flatMap_cons, List.append_eq_nil_iff, reduceCtorEq, iff_false, not_and]
    intro h; exact absurd h (sep_ne_nil hf c)

theorem flatMap_dot_cons (c : Nat) (r t : Str) (h : (c :: r).flatMap f = 46 :: t) :
    c = 46 ∧ r.flatMap f = t := by
  rw [List.flatMap_cons] at h
  by_cases h1 : c = 47
  · subst h1; rw [hf.slash] at h; cases h
  · by_cases h2 : c = 46
    · subst h2; rw [hf.dot] at h
      simp only [List.singleton_append, List.cons.injEq, true_and] at h
      exact ⟨rfl, h⟩
    · obtain ⟨a1, a2, _⟩ := hf.other c h1 h2
      obtain ⟨y, ys, hy⟩ := List.exists_cons_of_ne_nil a1
      rw [hy] at h a2
      simp only [List.cons_append, List.cons.injEq] at h
      exact absurd (h.1 ▸ List.mem_cons_self) a2

theorem flatMap_eq_dot (s : Str) : s.flatMap f = dot ↔ s = dot := by
  constructor
  · intro h
    cases s with
    | nil => cases h
    | cons c r =>
      obtain ⟨rfl, hr⟩ := flatMap_dot_cons hf c r [] h
      rw [(flatMap_eq_nil hf r).mp hr]; rfl
  · rintro rfl; simp [dot, hf.dot]

theorem flatMap_eq_dotdot (s : Str) : s.flatMap f = dotdot ↔ s = dotdot := by
  constructor
  · intro h
    cases s with
    | nil => cases h
    | cons c r =>
      obtain ⟨rfl, hr⟩ := flatMap_dot_cons hf c r [46] h
      rw [(flatMap_eq_dot hf r).mp hr]; rfl
  · rintro rfl; simp [dotdot, hf.dot]

theorem normLoop_map (segs acc : List Str) :
    normLoop (acc.map (fun s => s.flatMap f)) (segs.map (fun s => s.flatMap f)) =
      (normLoop acc segs).map (fun s => s.flatMap f) := by
  induction segs generalizing acc with
  | nil => simp [normLoop]
  | cons seg rest ih =>
    simp only [List.map_cons, normLoop, flatMap_eq_dot hf, flatMap_eq_dotdot hf]
    split
    · rw [← ih acc.tail, List.map_tail]
    · split
      · exact ih acc
      · rw [← ih (seg :: acc), List.map_cons]

theorem normalizePathSegments_map (segs : List Str) :
    normalizePathSegments (segs.map (fun s => s.flatMap f)) =
      (normalizePathSegments segs).map (fun s => s.flatMap f) := by
  unfold normalizePathSegments
  have := normLoop_map hf segs []
  simp only [List.map_nil] at this
  simp only [this, List.getLast?_map]
  cases segs.getLast? with
  | none => rfl
  | some l =>
    simp only [Option.map_some, flatMap_eq_dot hf, flatMap_eq_dotdot hf]
    split <;> simp

theorem flatF_map (l : List Str) :
    flatF (l.map (fun s => s.flatMap f)) = (flatF l).flatMap f := by
  induction l with
  | nil => rfl
  | cons s r ih =>
    simp only [List.map_cons, flatF_cons, ih, List.flatMap_cons, hf.slash, List.flatMap_append,
      List.singleton_append]

theorem joinC_map (l : List Str) :
    joinC 47 (l.map (fun s => s.flatMap f)) = (joinC 47 l).flatMap f := by
  cases l with
  | nil => rfl
  | cons s r => rw [List.map_cons, PathLemmas.joinC_cons, PathLemmas.joinC_cons, flatF_map hf,
      List.flatMap_append]

/-- dot-segment removal commutes with a `SepMap` -/
theorem normalizePath_flatMap (r : Str) :
    normalizePath ((47 :: r).flatMap f) = (normalizePath (47 :: r)).flatMap f := by
  rw [List.flatMap_cons, hf.slash]
  simp only [List.singleton_append, normalizePath, splitOn_flatMap hf, normalizePathSegments_map hf,
    joinC_map hf, List.flatMap_cons, hf.slash]

end sepmap

/-! ### the path quoter is such a map -/

/-- `_Quoter._write` for one character of a Python string without lone surrogates (anything else
    is mapped to a dummy so that the map is a `SepMap` everywhere) -/
def wq (t : QTab) (c : Nat) : Str :=
  if c ≤ 0x10FFFF ∧ isSurrogate c = false then cWriteOut t c else [0]

theorem cOut_nr_flatMap (t : QTab) (hnr : t.requote = false) (s : Str) :
    cOut t s = s.flatMap (cWriteOut t) := by
  induction s with
  | nil => rw [cOut]; rfl
  | cons c r ih => rw [cOut_nr_cons t hnr, ih, List.flatMap_cons]

theorem q_path_flatMap (e : Env) (s : Str) (hs : PyStr s) (hn : NoSurrogate s) :
    q e Gen.PATH_QUOTER s = s.flatMap (wq (Gen.PATH_QUOTER.tab e.b)) := by
  unfold q
  rw [run_eq_cOut _ (by decide) e.b _ hs, stripSurr_id _ hn,
    cOut_nr_flatMap _ (by rw [HumanLemmas.tab_requote]; rfl)]
  apply flatMap_congr'
  intro c hc
  unfold wq
  rw [if_pos ⟨hs c hc, hn c hc⟩]

theorem pct_chars (b : Nat) (hb : b < 256) : ∀ y ∈ pct b, y = 37 ∨ isUpperHexDigit y = true := by
  intro y hy
  simp only [pct, List.mem_cons, List.not_mem_nil, or_false] at hy
  rcases hy with rfl | rfl | rfl
  · exact Or.inl rfl
  · exact Or.inr (toHex_upper (Nat.div_lt_of_lt_mul (by omega)))
  · exact Or.inr (toHex_upper (by omega))

theorem path_tab_dots : ∀ b : Backend,
    cWriteOut (Gen.PATH_QUOTER.tab b) 47 = [47] ∧ cWriteOut (Gen.PATH_QUOTER.tab b) 46 = [46] := by
  intro b; cases b <;> decide +kernel

theorem sepMap_wq (b : Backend) : SepMap (wq (Gen.PATH_QUOTER.tab b)) where
  slash := by unfold wq; rw [if_pos (by decide)]; exact (path_tab_dots b).1
  dot := by unfold wq; rw [if_pos (by decide)]; exact (path_tab_dots b).2
  other := by
    intro c h47 h46
    unfold wq
    split
    · rename_i hg
      refine ⟨PathAlg.cWriteOut_ne_nil _ c hg.1 hg.2, ?_⟩
      have hqs : (Gen.PATH_QUOTER.tab b).qs = false := by rw [HumanLemmas.tab_qs]; rfl
      have key : ∀ y ∈ cWriteOut (Gen.PATH_QUOTER.tab b) c, y ≠ 46 ∧ y ≠ 47 := by
        intro y hy
        unfold cWriteOut at hy
        rw [if_neg (by simp [hqs])] at hy
        split at hy
        · simp only [List.mem_singleton] at hy
          subst hy; exact ⟨h46, h47⟩
        · unfold writeUtf8 at hy
          rw [List.mem_flatMap] at hy
          obtain ⟨bb, hb, hy⟩ := hy
          rcases pct_chars bb (utf8_byte_lt c hg.1 bb hb) y hy with rfl | h
          · omega
          · constructor <;> (rintro rfl; revert h; decide)
      exact ⟨fun hm => (key 46 hm).1 rfl, fun hm => (key 47 hm).2 rfl⟩
    · simp

theorem mem_normalizePath (r : Str) : ∀ c ∈ normalizePath (47 :: r), c = 47 ∨ c ∈ r := by
  intro c hc
  simp only [normalizePath, List.mem_cons] at hc
  rcases hc with rfl | hc
  · exact Or.inl rfl
  · rcases HostLemmas.mem_joinC hc with rfl | ⟨p, hp, hcp⟩
    · exact Or.inl rfl
    · right
      exact FixLemmas.normalizePathSegments_forall (fun p => ∀ c ∈ p, c ∈ r) (by intro c hc; cases hc)
        (splitOn 47 r) (fun p hp => PathLemmas.splitOn_sub 47 r p hp) p hp c hcp

theorem good_normalizePath {r : Str} (hs : PyStr (47 :: r)) (hn : NoSurrogate (47 :: r)) :
    PyStr (normalizePath (47 :: r)) ∧ NoSurrogate (normalizePath (47 :: r)) := by
  constructor
  · intro c hc
    rcases mem_normalizePath r c hc with rfl | h
    · exact hs 47 (by simp)
    · exact hs c (by simp [h])
  · intro c hc
    rcases mem_normalizePath r c hc with rfl | h
    · rfl
    · exact hn c (by simp [h])

/-- PATH_QUOTER commutes with dot-segment removal -/
theorem path_norm_commute (e : Env) (r : Str) (hs : PyStr (47 :: r)) (hn : NoSurrogate (47 :: r)) :
    normalizePath (q e Gen.PATH_QUOTER (47 :: r)) = q e Gen.PATH_QUOTER (normalizePath (47 :: r)) := by
  obtain ⟨g1, g2⟩ := good_normalizePath hs hn
  rw [q_path_flatMap e _ hs hn, q_path_flatMap e _ g1 g2, normalizePath_flatMap (sepMap_wq e.b)]

/-- the path `build` and `encode_url` store for a rooted decoded path: the quoted normal form -/
theorem stored_path (e : Env) (r : Str) (hs : PyStr (47 :: r)) (hn : NoSurrogate (47 :: r)) :
    (if mem 46 (q e Gen.PATH_QUOTER (47 :: r)) = true then normalizePath (q e Gen.PATH_QUOTER (47 :: r))
      else q e Gen.PATH_QUOTER (47 :: r)) = q e Gen.PATH_QUOTER (normalizePath (47 :: r)) := by
  rw [← path_norm_commute e r hs hn]
  split
  · rfl
  · rename_i h
    exact (C15_dot_guard_sound _ (NetlocLemmas.mem_false_iff.mp (by simpa using h))).symm

/-- the tail of the normal form of a rooted path -/
def normTail (p : Str) : Str := joinC 47 (normalizePathSegments (splitOn 47 p))

theorem normalizePath_rooted (p : Str) : normalizePath (47 :: p) = 47 :: normTail p := rfl

theorem normTail_normal (p : Str) : normalizePath (47 :: normTail p) = 47 :: normTail p := by
  rw [← normalizePath_rooted, C15_idem]

/-! ## Part C — `URL.build` and `human_repr` for the full family -/

/-- the port `build` keeps: the scheme's default port is dropped -/
def effPort (sc : Str) (port : Option Nat) : Option Nat :=
  match port with
  | some p => if some p = defaultPort sc then none else some p
  | none => none

theorem effPort_range {sc : Str} {port : Option Nat} (h : ∀ x, port = some x → x ≤ 65535) :
    ∀ x, effPort sc port = some x → x ≤ 65535 := by
  intro x hx
  cases port with
  | none => cases hx
  | some p =>
    simp only [effPort] at hx
    split at hx
    · cases hx
    · cases hx; exact h _ rfl

theorem effPort_notDefault {sc : Str} {port : Option Nat} :
    ∀ x, effPort sc port = some x → some x ≠ defaultPort sc := by
  intro x hx
  cases port with
  | none => cases hx
  | some p =>
    simp only [effPort] at hx
    split at hx
    · cases hx
    · rename_i hne; cases hx; exact hne

/-- what `URL.build` stores for the full family (`H` is the stored host without brackets) -/
def builtFull (e : Env) (sc : Str) (user pw : Option Str) (H : Str) (port : Option Nat)
    (p : Str) (kvs : List (Str × Str)) (f : Str) : Url :=
  fromParts sc (authText (user.map (q e Gen.QUOTER)) (pw.map (q e Gen.QUOTER)) H port)
    (q e Gen.PATH_QUOTER p) (qtext e.b kvs) (if f.isEmpty then f else q e Gen.FRAGMENT_QUOTER f)

theorem authText_ne_nil (user pw : Option Str) {H : Str} (hH : H ≠ []) (port : Option Nat) :
    authText user pw H port ≠ [] := makeNetloc_ne_nil id user pw hH port

theorem netloc_build (e : Env) (user pw : Option Str) (H : Str) (port : Option Nat) :
    (if (user.isNone && pw.isNone) = true then
        (match port with | none => bracket H | some p => bracket H ++ [58] ++ natToStr p)
      else makeNetloc (q e Gen.QUOTER) user pw (some (bracket H)) port true) =
    authText (user.map (q e Gen.QUOTER)) (pw.map (q e Gen.QUOTER)) H port := by
  unfold authText
  cases user with
  | none =>
    cases pw with
    | none => cases port <;> simp [makeNetloc]
    | some w =>
      simp only [Option.isNone_none, Option.isNone_some, Bool.and_false, Bool.false_eq_true, if_false]
      rw [makeNetloc_encode _ (q_nil e _), makeNetloc_qf (q e Gen.QUOTER) id]
  | some u =>
    simp only [Option.isNone_some, Bool.false_and, Bool.false_eq_true, if_false]
    rw [makeNetloc_encode _ (q_nil e _), makeNetloc_qf (q e Gen.QUOTER) id]

theorem netloc_build_none (e : Env) (user pw : Option Str) (H : Str) :
    (if (user.isNone && pw.isNone) = true then bracket H
      else makeNetloc (q e Gen.QUOTER) user pw (some (bracket H)) none true) =
    authText (user.map (q e Gen.QUOTER)) (pw.map (q e Gen.QUOTER)) H none :=
  netloc_build e user pw H none

theorem netloc_build_some (e : Env) (user pw : Option Str) (H : Str) (k : Nat) :
    (if (user.isNone && pw.isNone) = true then bracket H ++ [58] ++ natToStr k
      else makeNetloc (q e Gen.QUOTER) user pw (some (bracket H)) (some k) true) =
    authText (user.map (q e Gen.QUOTER)) (pw.map (q e Gen.QUOTER)) H (some k) :=
  netloc_build e user pw H (some k)

theorem ite_ok {α : Type} (c : Prop) [Decidable c] (a b : α) :
    (if c then (Except.ok a : R α) else Except.ok b) = Except.ok (if c then a else b) := by
  split <;> rfl

theorem getStrQuery_strItems (b : Backend) (kvs : List (Str × Str)) :
    getStrQuery b (.pairs (strItems kvs)) = .ok (some (qtext b kvs)) :=
  getStrQuery_pairs b _ kvs (singleValued_strItems kvs) (expandItems_strItems kvs)

theorem strItems_isEmpty (kvs : List (Str × Str)) : (strItems kvs).isEmpty = kvs.isEmpty := by
  cases kvs <;> rfl

/-- `build` lowers the scheme first (fix e21485a): `sc'` is the stored scheme, and the default port that is
    dropped is that of `sc'` -/
theorem build_full (e : Env) (sc sc' : Str) (hl : lowerAny e sc = .ok sc')
    (user pw : Option Str) (h H : Str) (port : Option Nat)
    (p : Str) (kvs : List (Str × Str)) (f : Str)
    (hne : h ≠ []) (hH : H ≠ []) (henc : encodeHost e.o h true = .ok (bracket H))
    (hport : ∀ x, port = some x → x ≤ 65535)
    (hp : PyStr (47 :: p)) (hn : NoSurrogate (47 :: p)) :
    build e { scheme := sc, user := user, password := pw, host := h, port := port.map Int.ofNat,
              path := 47 :: p, query := .pairs (strItems kvs), fragment := f } =
      .ok (builtFull e sc' user pw H (effPort sc' port) (normalizePath (47 :: p)) kvs f) := by
  have hne' := HumanLemmas.isEmpty_false hne
  have hq := q_path_cons_slash e p hp hn
  have hd := stored_path e p hp hn
  rw [hq] at hd
  have hgs := fun x xs => getStrQuery_strItems e.b (x :: xs)
  have hnlA := fun pt => HumanLemmas.isEmpty_false
    (authText_ne_nil (user.map (q e Gen.QUOTER)) (pw.map (q e Gen.QUOTER)) hH pt)
  cases port with
  | none =>
    cases kvs with
    | nil =>
      unfold build builtFull
      simp only [List.isEmpty_nil, Bool.not_true, Bool.false_and, Bool.false_eq_true, ↓reduceIte,
        ne_eq, not_true_eq_false, hne', Bool.not_false, Bool.and_false, Bool.and_true, Option.map_none,
        henc, hl, bind, Except.bind, pure, Except.pure, strItems, List.map_nil, qargTruthy, effPort,
        netloc_build_none, hnlA, List.isEmpty_cons, hq, hd, fromParts, Bool.and_self, qtext,
        HostLemmas.joinC_nil, ite_ok, ite_self]
    | cons x xs =>
      have := hgs x xs
      simp only [strItems, List.map_cons] at this
      unfold build builtFull
      simp only [List.isEmpty_nil, Bool.not_true, Bool.false_and, Bool.false_eq_true, ↓reduceIte,
        ne_eq, not_true_eq_false, hne', Bool.not_false, Bool.and_false, Bool.and_true, Option.map_none,
        henc, hl, bind, Except.bind, pure, Except.pure, strItems, List.map_cons, qargTruthy, effPort,
        netloc_build_none, hnlA, List.isEmpty_cons, hq, hd, fromParts, Bool.and_self, Bool.true_and,
        ite_ok, ite_self, this, Option.getD_some]
  | some n =>
    have hr := hport n rfl
    have htn : (Int.ofNat n).toNat = n := rfl
    have hrange : ((0 : Int) ≤ Int.ofNat n ∧ Int.ofNat n ≤ 65535) := ⟨Int.natCast_nonneg n, Int.ofNat_le.mpr hr⟩
    cases kvs with
    | nil =>
      unfold build builtFull
      simp only [List.isEmpty_nil, Bool.not_true, Bool.false_and, Bool.false_eq_true, ↓reduceIte,
        ne_eq, not_true_eq_false, hne', Bool.not_false, Bool.and_false, Bool.and_true, Option.map_some,
        henc, hl, bind, Except.bind, pure, Except.pure, strItems, List.map_nil, qargTruthy, effPort,
        hrange, decide_true, htn, and_self, List.isEmpty_cons, hq, hd, fromParts, Bool.and_self, qtext,
        HostLemmas.joinC_nil, ite_ok, ite_self]
      by_cases hdp : some n = defaultPort sc'
      · simp only [hdp, ↓reduceIte, netloc_build_none, hnlA, Bool.not_false, Bool.and_self]
      · simp only [hdp, ↓reduceIte, netloc_build_some, hnlA, Bool.not_false, Bool.and_self]
    | cons x xs =>
      have := hgs x xs
      simp only [strItems, List.map_cons] at this
      unfold build builtFull
      simp only [List.isEmpty_nil, Bool.not_true, Bool.false_and, Bool.false_eq_true, ↓reduceIte,
        ne_eq, not_true_eq_false, hne', Bool.not_false, Bool.and_false, Bool.and_true, Option.map_some,
        henc, hl, bind, Except.bind, pure, Except.pure, strItems, List.map_cons, qargTruthy, effPort,
        hrange, decide_true, htn, and_self, List.isEmpty_cons, hq, hd, fromParts, Bool.and_self,
        Bool.true_and, ite_ok, ite_self, this, Option.getD_some]
      by_cases hdp : some n = defaultPort sc'
      · simp only [hdp, ↓reduceIte, netloc_build_none, hnlA, Bool.not_false, Bool.and_self]
      · simp only [hdp, ↓reduceIte, netloc_build_some, hnlA, Bool.not_false, Bool.and_self]

/-! ### `human_repr` of the built URL -/

theorem humanRepr_eq (e : Env) (u : Url) : humanRepr e u = (do
    let usr ← humanQuoteOpt e.o (← user e u) (humanUnsafeOf "user")
    let pw ← humanQuoteOpt e.o (← password e u) (humanUnsafeOf "password")
    let h0 ← host e u
    let h := h0.map (fun h => if !h.isEmpty && mem 58 h then [91] ++ h ++ [93] else h)
    let path ← humanQuote e.o (pathDecoded e u) (humanUnsafeOf "path")
    let qparts ← (queryPairs u).mapM (humanPair e.o)
    let qs := joinC 38 qparts
    let frag ← humanQuote e.o (fragmentDecoded e u) (humanUnsafeOf "fragment")
    let netloc := makeNetloc (q e Gen.QUOTER) usr pw h (← explicitPort e u) false
    pure (unsplitResult u.scheme netloc path qs frag)) := rfl

theorem shown_bracket {D : Str} (hD : D ≠ []) :
    (if (!D.isEmpty && mem 58 D) = true then [91] ++ D ++ [93] else D) = bracket D := by
  unfold bracket
  simp [HumanLemmas.isEmpty_false hD]

theorem humanRepr_full (e : Env) (sc : Str) (user pw : Option Str) (H D : Str) (port : Option Nat)
    (p : Str) (kvs : List (Str × Str)) (f : Str)
    (hH : HostOK H) (hshown : ∀ u, rawHost e u = .ok (some H) → host e u = .ok (some D)) (hD : D ≠ [])
    (hport : ∀ x, port = some x → x ≤ 65535)
    (hu : UText user) (hune : ∀ s, user = some s → s ≠ []) (hw : UText pw)
    (hp : PyStr (47 :: p)) (hn : NoSurrogate (47 :: p)) (hg : GoodPairs kvs)
    (hf : PyStr f) (hfn : NoSurrogate f) :
    humanRepr e (builtFull e sc user pw H port (47 :: p) kvs f) =
      (humanQuoteOpt e.o user (humanUnsafeOf "user") >>= fun usr =>
        humanQuoteOpt e.o pw (humanUnsafeOf "password") >>= fun pw' =>
        humanQuote e.o (47 :: p) (humanUnsafeOf "path") >>= fun rp =>
        kvs.mapM (humanPair e.o) >>= fun qparts =>
        humanQuote e.o f (humanUnsafeOf "fragment") >>= fun rf =>
          pure (unsplitResult sc (authText usr pw' D port) rp (joinC 38 qparts) rf)) := by
  have huk := userOK_quoted e user hu hune
  have hU : rawUser e (builtFull e sc user pw H port (47 :: p) kvs f) = .ok (user.map (q e Gen.QUOTER)) :=
    rawUser_std e id _ _ H port _ _ _ _ huk hH hport
  have hP : rawPassword e (builtFull e sc user pw H port (47 :: p) kvs f) = .ok (pw.map (q e Gen.QUOTER)) :=
    rawPassword_std e id _ _ H port _ _ _ _ huk hH hport
  have hHo : rawHost e (builtFull e sc user pw H port (47 :: p) kvs f) = .ok (some H) :=
    rawHost_std e id _ _ H port _ _ _ _ huk hH hport
  have hE : explicitPort e (builtFull e sc user pw H port (47 :: p) kvs f) = .ok port :=
    explicitPort_std e id _ _ H port _ _ _ _ huk hH hport
  have hHost := hshown _ hHo
  have hq : queryPairs (builtFull e sc user pw H port (47 :: p) kvs f) = kvs := parse_qtext e.b kvs hg
  have hsc : (builtFull e sc user pw H port (47 :: p) kvs f).scheme = sc := rfl
  rw [humanRepr_eq]
  unfold Yarl.user password
  rw [hU, hP, hHost, hE, pathDecoded_of e _ p rfl hp hn, fragmentDecoded_of e _ f rfl hf hfn, hq, hsc]
  simp only [bind, Except.bind, pure, Except.pure, map_readback e user hu, map_readback e pw hw,
    Option.map_some, shown_bracket hD, authText, makeNetloc_qf (q e Gen.QUOTER) id]

/-! ## Part D — the round trip -/

/-- what the round trip needs from the host: `h` is the argument of `build`, `H` the stored host
    and `D` the host that `human_repr` shows (both without brackets) -/
structure HostRT (e : Env) (h H D : Str) : Prop where
  hne : h ≠ []
  build : encodeHost e.o h true = .ok (bracket H)
  okH : HostOK H
  shown : ∀ u, rawHost e u = .ok (some H) → host e u = .ok (some D)
  disp : DispHost D
  enc : encodeHost e.o D false = .ok (bracket H)
  colon : 58 ∈ D → 58 ∈ H

/-- the pieces of the human form -/
structure HumanPieces (e : Env) (user pw : Option Str) (p : Str) (kvs : List (Str × Str)) (f : Str)
    (usr pw' : Option Str) (rp : Str) (qparts : List Str) (rf : Str) : Prop where
  q1 : humanQuoteOpt e.o user (humanUnsafeOf "user") = .ok usr
  q2 : humanQuoteOpt e.o pw (humanUnsafeOf "password") = .ok pw'
  q3 : humanQuote e.o p (humanUnsafeOf "path") = .ok rp
  q4 : kvs.mapM (humanPair e.o) = .ok qparts
  q5 : humanQuote e.o f (humanUnsafeOf "fragment") = .ok rf

theorem humanRepr_shape (e : Env) (sc : Str) (user pw : Option Str) (H D : Str) (port : Option Nat)
    (p : Str) (kvs : List (Str × Str)) (f : Str) (hsc : sc ≠ [])
    (hH : HostOK H) (hshown : ∀ u, rawHost e u = .ok (some H) → host e u = .ok (some D)) (hD : D ≠ [])
    (hport : ∀ x, port = some x → x ≤ 65535)
    (hu : UText user) (hune : ∀ s, user = some s → s ≠ []) (hw : UText pw)
    (hp : PyStr (47 :: p)) (hn : NoSurrogate (47 :: p)) (hg : GoodPairs kvs)
    (hf : PyStr f) (hfn : NoSurrogate f) (hr : Str)
    (hh : humanRepr e (builtFull e sc user pw H port (47 :: p) kvs f) = .ok hr) :
    ∃ usr pw' rp qparts rf, HumanPieces e user pw (47 :: p) kvs f usr pw' (47 :: rp) qparts rf ∧
      hr = composeUrl sc (authText usr pw' D port) (47 :: rp) (joinC 38 qparts) rf := by
  rw [humanRepr_full e sc user pw H D port p kvs f hH hshown hD hport hu hune hw hp hn hg hf hfn] at hh
  cases hq1 : humanQuoteOpt e.o user (humanUnsafeOf "user") with
  | error err => rw [hq1] at hh; cases hh
  | ok usr =>
  cases hq2 : humanQuoteOpt e.o pw (humanUnsafeOf "password") with
  | error err => rw [hq1, hq2] at hh; cases hh
  | ok pw' =>
  cases h1 : humanQuote e.o (47 :: p) (humanUnsafeOf "path") with
  | error err => rw [hq1, hq2, h1] at hh; cases hh
  | ok rp =>
  cases h4 : kvs.mapM (humanPair e.o) with
  | error err => rw [hq1, hq2, h1, h4] at hh; cases hh
  | ok qparts =>
  cases h2 : humanQuote e.o f (humanUnsafeOf "fragment") with
  | error err => rw [hq1, hq2, h1, h4, h2] at hh; cases hh
  | ok rf =>
    rw [hq1, hq2, h1, h4, h2] at hh
    simp only [bind, Except.bind, pure, Except.pure, Except.ok.injEq] at hh
    subst hh
    obtain ⟨rp', _, rfl⟩ := humanQuote_cons_shown e.o _ 47 p rp (hqChar_slash_path e.o) h1
    refine ⟨usr, pw', rp', qparts, rf, ⟨hq1, hq2, h1, h4, h2⟩, ?_⟩
    exact FixLemmas.unsplit_compose sc _ _ _ _ hsc (authText_ne_nil usr pw' hD port) (Or.inr ⟨rp', rfl⟩)

/-- the URL `URL(human_repr)` is: what `build` stored, plus the cache pre-fill of `encode_url` -/
theorem reparse_human (e : Env) (sc : Str) (user pw : Option Str) (h H D : Str) (port : Option Nat)
    (p : Str) (kvs : List (Str × Str)) (f : Str) (usr pw' : Option Str) (rp : Str) (qparts : List Str)
    (rf : Str) (vs : ValidScheme sc) (hrt : HostRT e h H D)
    (hport : ∀ x, port = some x → x ≤ 65535)
    (hu : UText user) (hune : ∀ s, user = some s → s ≠ []) (hw : UText pw)
    (hp : PyStr (47 :: p)) (hn : NoSurrogate (47 :: p)) (hnorm : normalizePath (47 :: p) = 47 :: p)
    (hg : GoodPairs kvs) (hf : PyStr f) (hfn : NoSurrogate f)
    (hq : HumanPieces e user pw (47 :: p) kvs f usr pw' (47 :: rp) qparts rf)
    (hnf : isAscii (authText usr pw' D port) = false → checkNetloc e.o (authText usr pw' D port) = .ok ()) :
    encodeUrl e (composeUrl sc (authText usr pw' D port) (47 :: rp) (joinC 38 qparts) rf) =
      .ok { builtFull e sc user pw H port (47 :: p) kvs f with
            pre := some (preOf (user.map (q e Gen.QUOTER)) (pw.map (q e Gen.QUOTER)) H port) } := by
  obtain ⟨hq1, hq2, h1, h4, h2⟩ := hq
  obtain ⟨hu1, hu2, hm35, hm63⟩ := unsafe_ascii
  have hq2' : humanQuoteOpt e.o pw (humanUnsafeOf "user") = .ok pw' := by
    rw [← gen_same_lists.1]; exact hq2
  have hp1 := humanPart_of hu hq1
  have hp2 := humanPart_of hw hq2'
  -- the path
  have h1' : humanQuote e.o p (humanUnsafeOf "path") = .ok rp := by
    obtain ⟨r', hr', hcons⟩ := humanQuote_cons_shown e.o _ 47 p _ (hqChar_slash_path e.o) h1
    cases hcons; exact hr'
  have av : ∀ d, d < 128 → d ≠ 37 → d ≠ 47 → isUpperHexDigit d = false →
      (mem d (humanUnsafeOf "path") = true ∨ d < 32 ∨ d = 127) → d ∉ rp := by
    intro d hd h37 h47 hx hbad hm
    exact humanQuote_avoid e.o _ hu1 _ _ hp h1 d hd h37 hx hbad (by simp [hm])
  have h35 : 35 ∉ rp := av 35 (by omega) (by omega) (by omega) (by decide) (Or.inl hm35)
  have h63 : 63 ∉ rp := av 63 (by omega) (by omega) (by omega) (by decide) (Or.inl hm63)
  have hc1 : Clean rp := fun c hc =>
    ⟨fun e9 => av 9 (by omega) (by omega) (by omega) (by decide) (Or.inr (Or.inl (by omega))) (e9 ▸ hc),
     fun e9 => av 10 (by omega) (by omega) (by omega) (by decide) (Or.inr (Or.inl (by omega))) (e9 ▸ hc),
     fun e9 => av 13 (by omega) (by omega) (by omega) (by decide) (Or.inr (Or.inl (by omega))) (e9 ▸ hc)⟩
  have hpath : q e Gen.PATH_REQUOTER (47 :: rp) = q e Gen.PATH_QUOTER (47 :: p) :=
    C18_path_roundtrip e _ _ hp hn h1
  have hd := stored_path e p hp hn
  rw [hnorm] at hd
  -- the fragment
  have avf : ∀ d, d < 32 → isUpperHexDigit d = false → d ∉ rf := fun d hd hx =>
    humanQuote_avoid e.o _ hu2 _ _ hf h2 d (by omega) (by omega) hx (Or.inr (Or.inl hd))
  have hc2 : Clean rf := fun c hc =>
    ⟨fun e9 => avf 9 (by omega) (by decide) (e9 ▸ hc),
     fun e9 => avf 10 (by omega) (by decide) (e9 ▸ hc),
     fun e9 => avf 13 (by omega) (by decide) (e9 ▸ hc)⟩
  have hfrag : FixLemmas.encFragment e rf = (if f.isEmpty then f else q e Gen.FRAGMENT_QUOTER f) := by
    unfold FixLemmas.encFragment
    cases f with
    | nil => rw [humanQuote_eq_nil e.o _ rf h2]; rfl
    | cons c r =>
      have hne := humanQuote_ne_nil e.o _ _ rf hf (by simp) h2
      rw [HumanLemmas.isEmpty_false hne]
      simp only [Bool.false_eq_true, ↓reduceIte, List.isEmpty_cons]
      exact C18_fragment_roundtrip e _ _ hf hfn h2
  -- the query
  obtain ⟨_, _, hqbad⟩ := humanQuery_chars e.o kvs qparts hg h4
  have hq35 : ∀ c ∈ joinC 38 qparts, c ≠ 35 := fun c hc e9 => hqbad 35 (by decide) (e9 ▸ hc)
  have hcq : Clean (joinC 38 qparts) := fun c hc =>
    ⟨fun e9 => hqbad 9 (by decide) (e9 ▸ hc), fun e9 => hqbad 10 (by decide) (e9 ▸ hc),
     fun e9 => hqbad 13 (by decide) (e9 ▸ hc)⟩
  have hquery : FixLemmas.encQuery e (joinC 38 qparts) = qtext e.b kvs := by
    unfold FixLemmas.encQuery
    split
    · rename_i hemp
      have := (humanQuery_nil_iff e.o kvs qparts h4).mp (List.isEmpty_iff.mp hemp)
      subst this
      rw [List.isEmpty_iff.mp hemp]; rfl
    · exact query_requote_human e kvs qparts hg h4
  -- the authority
  have hsplit := splitUrl_human e.o sc (authText usr pw' D port) rp (joinC 38 qparts) rf vs
    (authText_human_chars port hp1 hp2 hrt.disp) (checkBrackets_human port hp1 hp2 hrt.disp) hnf
    (fun c hc => ⟨fun e9 => h63 (e9 ▸ hc), fun e9 => h35 (e9 ▸ hc)⟩) hc1 hq35 hcq hc2
  have hnet := netBlock_human e sc user pw usr pw' H D port hu hune hw hq1 hq2' hrt.disp.ok hrt.okH
    hrt.enc hrt.colon hport
  rw [FixLemmas.encodeUrl_of e _ _ _ _ hsplit hnet]
  have hnl : (authText (user.map (q e Gen.QUOTER)) (pw.map (q e Gen.QUOTER)) H port).isEmpty = false :=
    HumanLemmas.isEmpty_false (authText_ne_nil _ _ hrt.okH.1 _)
  simp only [FixLemmas.finishUrl, hfrag, hquery, FixLemmas.encPath, hpath, hnl, List.isEmpty_cons,
    Bool.false_eq_true, ↓reduceIte, Bool.not_false, Bool.true_and, hd, builtFull, fromParts]

/-! ## Part E — the kinds of host -/

open HostLemmas

theorem authCh_of_fix {c : Nat} (h : 33 ≤ c ∧ c < 128 ∧ Rfc.isDelim3 c = false) : AuthCh c := by
  obtain ⟨h1, _, h3⟩ := h
  simp [Rfc.isDelim3] at h3
  unfold AuthCh
  omega

/-- `URL.host` of a stored registered name that does not end in a digit, or contains "xn--": the
    IDNA-decoded text.  (When it ends in a digit and has no "xn--" `URL.host` returns the stored form
    undecoded; before commit 60dbf1e it did so for every digit-ending host, A-labels included.) -/
theorem host_reg (e : Env) (u : Url) (raw D : Str) (ph : PlainHost raw)
    (hraw : rawHost e u = .ok (some raw)) (hidna : e.o.idnaDec raw = some (some D))
    (hlast : (∀ l, raw.getLast? = some l → isDigitC l = false) ∨ hasSub [120, 110, 45, 45] raw = true ∨
      D = raw) :
    host e u = .ok (some D) := by
  unfold host
  rw [hraw]
  simp only [bind, Except.bind]
  obtain ⟨l, hl⟩ : ∃ l, raw.getLast? = some l := by
    cases hx : raw.getLast? with
    | none => exact absurd (List.getLast?_eq_none_iff.mp hx) ph.ne
    | some l => exact ⟨l, rfl⟩
  have hlt : l < 128 := by
    have := List.mem_of_getLast? hl
    have ha := ph.ascii
    simp only [isAscii, List.all_eq_true, decide_eq_true_eq] at ha
    exact ha l this
  have h58 : mem 58 raw = false := NetlocLemmas.mem_false_iff.mpr (plain_avoid ph (by decide))
  rw [hl]
  simp only [isDigitChar, hlt, ↓reduceIte, pure, Except.pure, h58, Bool.or_false]
  cases hd : (isDigitC l && !hasSub [120, 110, 45, 45] raw) with
  | true =>
    simp only [Bool.and_eq_true, Bool.not_eq_eq_eq_not, Bool.not_true] at hd
    rcases hlast with hlast | hlast | hlast
    · rw [hlast l hl] at hd; exact absurd hd.1 (by decide)
    · rw [hlast] at hd; exact absurd hd.2 (by decide)
    · rw [hlast]; rfl
  | false =>
    simp only [Bool.false_eq_true, ↓reduceIte, idnaDecode, ph.ascii, Bool.not_true, hidna, ask,
      bind, Except.bind, pure, Except.pure]

theorem dispHost_plain {h : Str} (ph : PlainHost h) : DispHost h where
  ok := plain_hostOK ph
  chars := fun c hc =>
    ⟨fun e => plain_avoid ph (d := 47) (by decide) (e ▸ hc),
     fun e => plain_avoid ph (d := 63) (by decide) (e ▸ hc),
     fun e => plain_avoid ph (d := 35) (by decide) (e ▸ hc),
     fun e => plain_avoid ph (d := 9) (by decide) (e ▸ hc),
     fun e => plain_avoid ph (d := 10) (by decide) (e ▸ hc),
     fun e => plain_avoid ph (d := 13) (by decide) (e ▸ hc)⟩
  notV := fun h58 => absurd h58 (plain_avoid ph (by decide))

/-- a plain registered name (ASCII, lower case, valid) that IDNA-decoding leaves alone -/
theorem hostRT_plain (e : Env) {h : Str} (ph : PlainHost h) (hidna : e.o.idnaDec h = some (some h)) :
    HostRT e h h h where
  hne := ph.ne
  build := by rw [plain_bracket ph]; exact encodeHost_plain e.o h true ph
  okH := plain_hostOK ph
  shown := fun u hraw => host_reg e u h h ph hraw hidna (Or.inr (Or.inr rfl))
  disp := dispHost_plain ph
  enc := by rw [plain_bracket ph]; exact encodeHost_plain e.o h false ph
  colon := id

theorem encodeHost_idn (o : Oracles) (h raw : Str) (v b : Bool) (hna : isAscii h = false)
    (hlook : looksIP o h = .ok b) (hnoip : parseIP (partition 37 h).1 = none)
    (henc : idnaEncode o h = .ok raw) (hreg : notRegName raw = false) :
    encodeHost o h v = .ok raw := by
  have hr : ipRes h = none := by simp [ipRes, hnoip]
  -- reg-name text holds no ':': the IDNA answer is returned as such (no re-entry, fix 3fbf5b4)
  have h58 : mem 58 raw = false := notRegName_false_no_colon hreg
  rw [encodeHost_eq, hlook]
  simp only [bind, Except.bind, hr, ite_self, regPath, hna, Bool.false_eq_true, ↓reduceIte, henc, hreg, h58,
    Bool.and_false, pure, Except.pure]

/-- an internationalised host `h` (not ASCII, not an IP literal) whose A-label form is `raw`:
    `idnaEncode h = raw` and `idnaDec raw = h` are the two oracle facts of the IDNA round trip.
    `hlast`: `raw` does not end in a digit, or contains "xn--" (every real A-label form does; the
    encoder is an oracle here, so it is a hypothesis). -/
theorem hostRT_idn (e : Env) {h raw : Str} (b : Bool) (ph : PlainHost raw) (hna : isAscii h = false)
    (hlook : looksIP e.o h = .ok b) (hnoip : parseIP (partition 37 h).1 = none)
    (henc : idnaEncode e.o h = .ok raw) (hdec : e.o.idnaDec raw = some (some h))
    (hlast : (∀ l, raw.getLast? = some l → isDigitC l = false) ∨ hasSub [120, 110, 45, 45] raw = true)
    (hd : DispHost h) (h58 : 58 ∉ h) : HostRT e h raw h where
  hne := hd.ok.1
  build := by
    rw [plain_bracket ph]; exact encodeHost_idn e.o h raw true b hna hlook hnoip henc ph.reg
  okH := plain_hostOK ph
  shown := fun u hraw => host_reg e u raw h ph hraw hdec
    (hlast.elim Or.inl (fun hx => Or.inr (Or.inl hx)))
  disp := hd
  enc := by
    rw [plain_bracket ph]; exact encodeHost_idn e.o h raw false b hna hlook hnoip henc ph.reg
  colon := fun hc => absurd hc h58

/-! ### IPv4 -/

theorem ipv4_last {s : Str} {o4 : List Nat} (h : parseIPv4 s = some o4) :
    ∃ l, s.getLast? = some l ∧ l < 128 ∧ isDigitC l = true := by
  obtain ⟨hs, hl, _⟩ := C16_ipv4_canonical s o4 h
  match o4, hl with
  | [a, b, c, d], _ =>
    refine ⟨48 + d % 10, ?_, by omega, by simp [isDigitC]; omega⟩
    rw [← hs]
    simp only [ipv4ToStr, List.map_cons, List.map_nil, joinC_cons, flatC_cons, flatC_nil, List.append_nil]
    have := natToStr_getLast d
    simp only [← List.append_assoc, ← List.cons_append]
    rw [List.getLast?_append]
    have h2 : (46 :: natToStr d).getLast? = some (48 + d % 10) := by
      rw [← this]
      generalize natToStr d = nd at this
      cases nd with
      | nil => simp at this
      | cons x xs => simp [List.getLast?_cons_cons]
    rw [h2]; rfl

theorem host_literal (e : Env) (u : Url) (raw : Str) (hraw : rawHost e u = .ok (some raw))
    (hl : ∃ l, raw.getLast? = some l ∧ l < 128 ∧
      ((isDigitC l = true ∧ hasSub [120, 110, 45, 45] raw = false) ∨ mem 58 raw = true)) :
    host e u = .ok (some raw) := by
  obtain ⟨l, h1, h2, h3⟩ := hl
  unfold host
  rw [hraw]
  simp only [bind, Except.bind, h1, isDigitChar, h2, ↓reduceIte, pure, Except.pure]
  rcases h3 with ⟨h3, h4⟩ | h3
  · simp [h3, h4]
  · simp [h3]

theorem hostRT_ipv4 (e : Env) {s : Str} {o4 : List Nat} (h4 : parseIPv4 s = some o4) :
    HostRT e s s s := by
  have hf := FixLemmas.hostFix_ipv4 e.o h4
  have hch := parseIPv4_chars h4
  have n (c : Nat) (h1 : c ≠ 46) (h2 : isDigitC c = false) : c ∉ s := by
    intro hm
    rcases hch c hm with h | h
    · exact h1 h
    · rw [h2] at h; exact Bool.noConfusion h
  have hb : bracket s = s := FixLemmas.bracket_of_no_colon (n 58 (by decide) (by decide))
  obtain ⟨l, hl1, hl2, hl3⟩ := ipv4_last h4
  exact {
    hne := hf.ok.1
    build := by rw [hb]; exact C16_ipv4_kept e.o s true o4 h4 (n 37 (by decide) (by decide))
    okH := hf.ok
    shown := fun u hraw => host_literal e u s hraw
      ⟨l, hl1, hl2, Or.inl ⟨hl3, SubLemmas.xn_not_in_digits_dots hch⟩⟩
    disp := ⟨hf.ok, fun c hc => authCh_of_fix (hf.chars c hc), hf.notV⟩
    enc := hf.enc
    colon := id }

/-! ### IPv6, with an optional zone id -/

/-- `""` or `"%" ++ zone` with a zone that `_encode_host(validate_host=True)` accepts -/
def ZoneOK (zs : Str) : Prop := zs = [] ∨ ∃ z, zs = 37 :: z ∧ notRegName (lower z) = false

instance (zs : Str) : Decidable (ZoneOK zs) :=
  match zs with
  | [] => isTrue (Or.inl rfl)
  | c :: z =>
    if h : c = 37 ∧ notRegName (lower z) = false then isTrue (Or.inr ⟨z, by rw [h.1], h.2⟩)
    else isFalse (by
      rintro (h0 | ⟨z', h1, h2⟩)
      · cases h0
      · cases h1; exact h ⟨rfl, h2⟩)

theorem regName_gt32 : ∀ k ∈ Gen.regNameChars, 32 < k := by decide

theorem zone_all {zs : Str} (hz : ZoneOK zs) :
    ∀ c ∈ zs, c < 128 ∧ c ≠ 64 ∧ c ≠ 47 ∧ c ≠ 63 ∧ c ≠ 35 ∧ c ≠ 58 ∧ c ≠ 91 ∧ c ≠ 93 ∧ 32 < c := by
  rcases hz with rfl | ⟨z, rfl, hz⟩
  · intro c hc; cases hc
  · intro c hc
    rcases List.mem_cons.mp hc with rfl | hc
    · omega
    · have h1 := zone_chars hz c hc
      have hm : lowerC c ∈ lower z := by simp only [lower, List.mem_map]; exact ⟨c, hc, rfl⟩
      have h2 : 32 < lowerC c := by
        rcases notRegName_spec _ hz _ hm with h | h
        · omega
        · exact regName_gt32 _ (GenTabs.mem_iff.mp h)
      have h3 : 32 < c := by
        revert h2; unfold lowerC; split <;> omega
      omega

theorem ipv6_parseIP {a : Str} {h8 : List Nat} (ha : parseIPv6 a = some h8) :
    parseIP a = some (.v6 h8) := by
  have h58 := parseIPv6_colon ha
  have h4 : parseIPv4 a = none := by
    cases hx : parseIPv4 a with
    | none => rfl
    | some o4 =>
      rcases parseIPv4_chars hx 58 h58 with h | h
      · omega
      · simp [isDigitC] at h
  simp [parseIP, h4, ha]

theorem ipv6_encode (o : Oracles) (a : Str) (h8 : List Nat) (zs : Str) (v : Bool)
    (ha : parseIPv6 a = some h8) (h37 : 37 ∉ a) (hz : ZoneOK zs) :
    encodeHost o (a ++ zs) v = .ok ([91] ++ (ipv6ToStr h8 ++ zs) ++ [93]) := by
  have h58 := parseIPv6_colon ha
  have hip := ipv6_parseIP ha
  have hlook : looksIP o (a ++ zs) = .ok true := by
    unfold looksIP
    cases hlast : (a ++ zs).getLast? with
    | none =>
      rw [List.getLast?_eq_none_iff] at hlast
      have : a = [] := (List.append_eq_nil_iff.mp hlast).1
      rw [this] at h58; cases h58
    | some l =>
      have : mem 58 (a ++ zs) = true := NetlocLemmas.mem_iff.mpr (by simp [h58])
      simp only [this, if_true]; rfl
  rcases hz with rfl | ⟨z, rfl, hz⟩
  · rw [List.append_nil, List.append_nil] at *
    have hp := partition_not_mem 37 a h37
    have hres : ipRes a = some ([91] ++ ipv6ToStr h8 ++ [93]) := by
      simp [ipRes, hp, hip]
    exact encodeHost_ip hlook hres (zoneBad_of_no_sep v (by rw [hp]))
  · have hp := partition_append_sep 37 a z h37
    have hres : ipRes (a ++ 37 :: z) = some ([91] ++ (ipv6ToStr h8 ++ 37 :: z) ++ [93]) := by
      simp [ipRes, hp, hip]
    refine encodeHost_ip hlook hres ?_
    simp [zoneBad, hp, hz]

theorem hostRT_ipv6 (e : Env) {a : Str} {h8 : List Nat} {zs : Str} (ha : parseIPv6 a = some h8)
    (h37 : 37 ∉ a) (hz : ZoneOK zs) :
    HostRT e (a ++ zs) (ipv6ToStr h8 ++ zs) (ipv6ToStr h8 ++ zs) := by
  obtain ⟨hl, hx⟩ := parseIPv6_shape ha
  have hrt := C16_ipv6_roundtrip h8 hl hx
  have hch := C16_ipv6_text_lower h8
  obtain ⟨n37, _⟩ := C16_ipv6_text_no_pct_dot h8
  have hcolon : 58 ∈ ipv6ToStr h8 := parseIPv6_colon hrt
  have hzc := zone_all hz
  have hall : ∀ c ∈ ipv6ToStr h8 ++ zs, 32 < c ∧ c < 128 ∧ c ≠ 64 ∧ c ≠ 47 ∧ c ≠ 63 ∧ c ≠ 35 ∧
      c ≠ 91 ∧ c ≠ 93 := by
    intro c hc
    rcases List.mem_append.mp hc with hc | hc
    · rcases hch c hc with rfl | hd | hd
      · omega
      · simp [isDigitC] at hd; omega
      · omega
    · have := hzc c hc; omega
  have hne : ipv6ToStr h8 ≠ [] := by
    intro h; rw [h] at hcolon; cases hcolon
  have hcolon' : 58 ∈ ipv6ToStr h8 ++ zs := List.mem_append.mpr (Or.inl hcolon)
  have hb : bracket (ipv6ToStr h8 ++ zs) = [91] ++ (ipv6ToStr h8 ++ zs) ++ [93] := by
    unfold bracket; rw [if_pos (NetlocLemmas.mem_iff.mpr hcolon')]
  have hok : HostOK (ipv6ToStr h8 ++ zs) :=
    ⟨by simp [hne], fun hm => (hall 64 hm).2.2.1 rfl, fun hm => (hall 91 hm).2.2.2.2.2.2.1 rfl,
      fun hm => (hall 93 hm).2.2.2.2.2.2.2 rfl⟩
  have hane : a ≠ [] := by
    intro h; have := parseIPv6_colon ha; rw [h] at this; cases this
  exact {
    hne := by simp [hane]
    build := by rw [hb]; exact ipv6_encode e.o a h8 zs true ha h37 hz
    okH := hok
    shown := fun u hraw => by
      obtain ⟨l, hl⟩ : ∃ l, (ipv6ToStr h8 ++ zs).getLast? = some l := by
        cases hx : (ipv6ToStr h8 ++ zs).getLast? with
        | none => exact absurd (List.getLast?_eq_none_iff.mp hx) hok.1
        | some l => exact ⟨l, rfl⟩
      exact host_literal e u _ hraw ⟨l, hl, (hall l (List.mem_of_getLast? hl)).2.1,
        Or.inr (NetlocLemmas.mem_iff.mpr hcolon')⟩
    disp := ⟨hok, fun c hc => by have := hall c hc; unfold AuthCh; omega, fun _ hv => by
      have hm : 118 ∈ ipv6ToStr h8 := by
        cases hs : ipv6ToStr h8 with
        | nil => exact absurd hs hne
        | cons x xs => rw [hs] at hv; simp at hv; simp [hv]
      rcases hch 118 hm with h | h | h
      · omega
      · simp [isDigitC] at h
      · omega⟩
    enc := by rw [hb]; exact ipv6_encode e.o (ipv6ToStr h8) h8 zs false hrt n37 hz
    colon := id }

/-! ## Part F — the Appendix B reading of the human form, totality -/

/-- the Appendix B authority of the human form is the authority text `human_repr` wrote -/
theorem appendixB_human (e : Env) (sc : Str) (user pw : Option Str) (D : Str) (port : Option Nat)
    (p : Str) (kvs : List (Str × Str)) (f : Str) (usr pw' : Option Str) (rp : Str) (qparts : List Str)
    (rf : Str) (vs : ValidScheme sc) (hD : DispHost D) (hu : UText user) (hw : UText pw)
    (hp : PyStr (47 :: p)) (hg : GoodPairs kvs)
    (hq : HumanPieces e user pw (47 :: p) kvs f usr pw' (47 :: rp) qparts rf) :
    (Rfc.appendixB Gen.schemeChars
      (composeUrl sc (authText usr pw' D port) (47 :: rp) (joinC 38 qparts) rf)).authority =
      authText usr pw' D port := by
  obtain ⟨hq1, hq2, h1, h4, h2⟩ := hq
  obtain ⟨hu1, hu2, hm35, hm63⟩ := unsafe_ascii
  have hq2' : humanQuoteOpt e.o pw (humanUnsafeOf "user") = .ok pw' := by
    rw [← gen_same_lists.1]; exact hq2
  have hp1 := humanPart_of hu hq1
  have hp2 := humanPart_of hw hq2'
  have av : ∀ d, d < 128 → d ≠ 37 → d ≠ 47 → isUpperHexDigit d = false →
      (mem d (humanUnsafeOf "path") = true ∨ d < 32 ∨ d = 127) → d ∉ rp := by
    intro d hd h37 h47 hx hbad hm
    exact humanQuote_avoid e.o _ hu1 _ _ hp h1 d hd h37 hx hbad (by simp [hm])
  have h35 : 35 ∉ rp := av 35 (by omega) (by omega) (by omega) (by decide) (Or.inl hm35)
  have h63 : 63 ∉ rp := av 63 (by omega) (by omega) (by omega) (by decide) (Or.inl hm63)
  obtain ⟨_, _, hqbad⟩ := humanQuery_chars e.o kvs qparts hg h4
  rw [FixLemmas.appendixB_compose sc _ (47 :: rp) _ rf (schemeOK_of_valid vs)
    (fun c hc => by
      obtain ⟨a1, a2, a3, _⟩ := authText_human_chars port hp1 hp2 hD c hc
      simp [Rfc.isDelim3, a1, a2, a3])
    (Or.inr ⟨rp, rfl⟩)
    (fun c hc => by
      rcases List.mem_cons.mp hc with rfl | hc
      · omega
      · exact ⟨fun e9 => h63 (e9 ▸ hc), fun e9 => h35 (e9 ▸ hc)⟩)
    (fun c hc e9 => hqbad 35 (by decide) (e9 ▸ hc))]

theorem humanQuoteOpt_total (o : Oracles) (x : Option Str) (uns : Str)
    (hx : ∀ s, x = some s → NoSurrogate s) (ho : ∀ c, 128 ≤ c → (o.isPrintableU c).isSome) :
    ∃ y, humanQuoteOpt o x uns = .ok y := by
  cases x with
  | none => exact ⟨none, rfl⟩
  | some s =>
    obtain ⟨r, hr⟩ := C18_human_quote_total o s uns (hx s rfl) (fun c _ => ho c)
    exact ⟨some r, by simp [humanQuoteOpt, hr, bind, Except.bind, pure, Except.pure]⟩

theorem humanPairs_total (o : Oracles) (ho : ∀ c, 128 ≤ c → (o.isPrintableU c).isSome) :
    ∀ kvs : List (Str × Str), GoodPairs kvs → ∃ parts, kvs.mapM (humanPair o) = .ok parts := by
  intro kvs
  induction kvs with
  | nil => intro _; exact ⟨[], rfl⟩
  | cons p ps ih =>
    intro hg
    obtain ⟨rs, hrs⟩ := ih (fun x hx => hg x (by simp [hx]))
    obtain ⟨rk, hk⟩ := C18_human_quote_total o p.1 (humanUnsafeOf "k") (hg p (by simp)).1.2 (fun c _ => ho c)
    obtain ⟨rv, hv⟩ := C18_human_quote_total o p.2 (humanUnsafeOf "v") (hg p (by simp)).2.2 (fun c _ => ho c)
    refine ⟨(rk ++ [61] ++ rv) :: rs, ?_⟩
    rw [List.mapM_cons, hrs]
    obtain ⟨k, v⟩ := p
    simp only [humanPair, hk, hv, bind, Except.bind, pure, Except.pure]

end HumanFull
end Yarl
